(* Extraction of the executable model to OCaml.  Only ExtrOcamlBasic is used:
   numbers stay Coq's positive/N/Z datatypes. *)
From Coq Require Import ZArith List Extraction ExtrOcamlBasic.
From IVG Require Import SF NumCodec.
Extraction Language OCaml.
Extraction "model.ml"
  SF.fadd SF.fsub SF.fmul SF.fdiv SF.fsqrt SF.fcompare SF.of_Z SF.convert SF.ffloor SF.fceil SF.ftrunc
  NumCodec.enc_natural NumCodec.dec_natural NumCodec.enc_real NumCodec.enc_real4 NumCodec.enc_coordinate
  NumCodec.enc_zero_to_one NumCodec.enc_angle NumCodec.dec_real NumCodec.dec_coordinate
  NumCodec.dec_zero_to_one NumCodec.quantize NumCodec.nreg_choice.

(* Extraction of the executable model to OCaml.  Only ExtrOcamlBasic is used:
   numbers stay Coq's positive/N/Z datatypes. *)
From Coq Require Import ZArith List Extraction ExtrOcamlBasic.
From IVG Require Import SF NumCodec Color Calls Decoder Encoder Render Gradient GoMath Arc Fit Generator PathData.
Extraction Language OCaml.
Extraction "model.ml"
  SF.fadd SF.fsub SF.fmul SF.fdiv SF.fsqrt SF.fcompare SF.of_Z SF.convert SF.ffloor SF.fceil SF.ftrunc
  NumCodec.enc_natural NumCodec.dec_natural NumCodec.enc_real NumCodec.enc_real4 NumCodec.enc_coordinate
  NumCodec.enc_zero_to_one NumCodec.enc_angle NumCodec.dec_real NumCodec.dec_coordinate
  NumCodec.dec_zero_to_one NumCodec.quantize NumCodec.nreg_choice
  Color.decode_color1 Color.encode1 Color.encode2 Color.encode3direct Color.encode4 Color.encode3indirect
  Color.enc_color Color.dec_color_form Color.resolve Color.color_rgba Color.encode_gradient Color.decode_gradient
  Color.valid_premul Color.valid_gradient Color.palette_index_color Color.creg_color
  Calls.default_viewbox Calls.default_palette
  Decoder.decode_items Decoder.decode_calls Decoder.decode_viewbox Decoder.disassemble Decoder.calls_of
  Encoder.enc_zero Encoder.enc_run Encoder.enc_act Encoder.enc_bytes
  Render.rinit Render.set_rasterizer Render.N32 Arc.rstep32 Arc.rrun32 Gradient.pix2grad Gradient.grad_at Gradient.clamp
  GoMath.gosin GoMath.gocos GoMath.goacos
  Fit.F32ops Fit.vb_size Fit.aspect_meet Fit.aspect_slice
  Generator.set_gradient Generator.linear_matrix Generator.circular_matrix Generator.elliptical_matrix
  Generator.concat Generator.mul_aff3 Generator.translate Generator.scale2
  PathData.set_path_data PathData.md_parse_path PathData.md_parse_path_data.

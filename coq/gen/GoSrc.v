(* GENERATED from /repo's Go source by `harness -gosrc` on every check run. Do not edit. *)
From Coq Require Import ZArith Bool List.
From IVG Require Import SF NumCodec Color GoSem Tables.
Import ListNotations.
Local Open Scope Z_scope.
Local Open Scope bool_scope.

(* ivg:  RGBAColor *)
Definition go_ivg_RGBAColor (v_c : rgba) :=
(mkGColor 0 v_c).

(* ivg:  PaletteIndexColor *)
Definition go_ivg_PaletteIndexColor (v_i : Z) :=
(mkGColor 1 (mkRGBA (v_i mod 64) 0 0 0)).

(* ivg:  CRegColor *)
Definition go_ivg_CRegColor (v_i : Z) :=
(mkGColor 2 (mkRGBA (v_i mod 64) 0 0 0)).

(* ivg:  BlendColor *)
Definition go_ivg_BlendColor (v_t : Z) (v_c0 : Z) (v_c1 : Z) :=
(mkGColor 3 (mkRGBA v_t v_c0 v_c1 0)).

(* ivg: Color rgba *)
Definition go_ivg_Color_rgba (v_c : gcolor) :=
(gdata v_c).

(* ivg: Color paletteIndex *)
Definition go_ivg_Color_paletteIndex (v_c : gcolor) :=
(cr (gdata v_c)).

(* ivg: Color cReg *)
Definition go_ivg_Color_cReg (v_c : gcolor) :=
(cr (gdata v_c)).

(* ivg: Color blend *)
Definition go_ivg_Color_blend (v_c : gcolor) :=
let v_t := 0 in
let v_c0 := 0 in
let v_c1 := 0 in
((cr (gdata v_c)), (cg (gdata v_c)), (cb (gdata v_c))).

(* ivg:  ValidAlphaPremulColor *)
Definition go_ivg_ValidAlphaPremulColor (v_c : rgba) :=
((((cr v_c) <=? (ca v_c)) && ((cg v_c) <=? (ca v_c))) && ((cb v_c) <=? (ca v_c))).

(* ivg: Color RGBA *)
Definition go_ivg_Color_RGBA (v_c : gcolor) :=
if ((negb ((gtyp v_c) =? 0)) || (negb (go_ivg_ValidAlphaPremulColor (gdata v_c)))) then (
((mkRGBA 0 0 0 255), false))
else (
((gdata v_c), true)).

(* ivg:  DecodeColor1 *)
Definition go_ivg_DecodeColor1 (v_x : Z) :=
if (v_x >=? 128) then (
if (v_x >=? 192) then (
(go_ivg_CRegColor v_x))
else (
(go_ivg_PaletteIndexColor v_x)))
else (
if (v_x >=? 125) then (
if ((wrapu 8 (v_x - 125)) =? 0) then (
(go_ivg_RGBAColor (mkRGBA 192 192 192 192)))
else (if ((wrapu 8 (v_x - 125)) =? 1) then (
(go_ivg_RGBAColor (mkRGBA 128 128 128 128)))
else (if ((wrapu 8 (v_x - 125)) =? 2) then (
(go_ivg_RGBAColor (mkRGBA 0 0 0 0)))
else (let v_blue := (nth (Z.to_nat (v_x mod 5)) Tables.dc1Table 0) in
let v_x := (v_x / 5) in
let v_green := (nth (Z.to_nat (v_x mod 5)) Tables.dc1Table 0) in
let v_x := (v_x / 5) in
let v_red := (nth (Z.to_nat v_x) Tables.dc1Table 0) in
(go_ivg_RGBAColor (mkRGBA v_red v_green v_blue 255))))))
else (
let v_blue := (nth (Z.to_nat (v_x mod 5)) Tables.dc1Table 0) in
let v_x := (v_x / 5) in
let v_green := (nth (Z.to_nat (v_x mod 5)) Tables.dc1Table 0) in
let v_x := (v_x / 5) in
let v_red := (nth (Z.to_nat v_x) Tables.dc1Table 0) in
(go_ivg_RGBAColor (mkRGBA v_red v_green v_blue 255)))).

(* ivg: Color Resolve *)
Fixpoint go_ivg_Color_Resolve (fuel : nat) (v_c : gcolor) (v_palette : (list rgba)) (v_cReg : (list rgba)) {struct fuel} :=
match fuel with
| O => (mkRGBA 0 0 0 0)
| S fuel' =>
if ((gtyp v_c) =? 0) then (
(go_ivg_Color_rgba v_c))
else (if ((gtyp v_c) =? 1) then (
(nth (Z.to_nat ((go_ivg_Color_paletteIndex v_c) mod 64)) v_palette (mkRGBA 0 0 0 0)))
else (if ((gtyp v_c) =? 2) then (
(nth (Z.to_nat ((go_ivg_Color_cReg v_c) mod 64)) v_cReg (mkRGBA 0 0 0 0)))
else (if ((gtyp v_c) =? 3) then (
let '(v_t, v_c0, v_c1) := (go_ivg_Color_blend v_c) in
let '(v_p, v_q) := ((wrapu 32 (wrapu 8 (255 - v_t))), (wrapu 32 v_t)) in
let v_rgba0 := (go_ivg_Color_Resolve fuel' (go_ivg_DecodeColor1 v_c0) v_palette v_cReg) in
let v_rgba1 := (go_ivg_Color_Resolve fuel' (go_ivg_DecodeColor1 v_c1) v_palette v_cReg) in
(mkRGBA (wrapu 8 ((wrapu 32 ((wrapu 32 ((wrapu 32 (v_p * (wrapu 32 (cr v_rgba0)))) + (wrapu 32 (v_q * (wrapu 32 (cr v_rgba1)))))) + 128)) / 255)) (wrapu 8 ((wrapu 32 ((wrapu 32 ((wrapu 32 (v_p * (wrapu 32 (cg v_rgba0)))) + (wrapu 32 (v_q * (wrapu 32 (cg v_rgba1)))))) + 128)) / 255)) (wrapu 8 ((wrapu 32 ((wrapu 32 ((wrapu 32 (v_p * (wrapu 32 (cb v_rgba0)))) + (wrapu 32 (v_q * (wrapu 32 (cb v_rgba1)))))) + 128)) / 255)) (wrapu 8 ((wrapu 32 ((wrapu 32 ((wrapu 32 (v_p * (wrapu 32 (ca v_rgba0)))) + (wrapu 32 (v_q * (wrapu 32 (ca v_rgba1)))))) + 128)) / 255))))
else ((mkRGBA 0 0 0 0)))))
end.

(* ivg:  Is1 *)
Definition go_ivg_Is1 (v_c : rgba) :=
let v_is1 := (fun v_u => (((v_u mod 64) =? 0) || (v_u =? 255))) in
((((v_is1 (cr v_c)) && (v_is1 (cg v_c))) && (v_is1 (cb v_c))) && (v_is1 (ca v_c))).

(* ivg:  Is2 *)
Definition go_ivg_Is2 (v_c : rgba) :=
let v_is2 := (fun v_u => ((v_u mod 17) =? 0)) in
((((v_is2 (cr v_c)) && (v_is2 (cg v_c))) && (v_is2 (cb v_c))) && (v_is2 (ca v_c))).

(* ivg:  Is3 *)
Definition go_ivg_Is3 (v_c : rgba) :=
((ca v_c) =? 255).

(* ivg:  ValidGradient *)
Definition go_ivg_ValidGradient (v_c : rgba) :=
(((ca v_c) =? 0) && (negb (((cb v_c) / 128 mod 2 * 128) =? 0))).

(* ivg:  EncodeGradient *)
Definition go_ivg_EncodeGradient (v_cBase : Z) (v_nBase : Z) (v_shape : Z) (v_spread : Z) (v_nStops : Z) :=
let v_cBase := (v_cBase mod 64) in
let v_nBase := (v_nBase mod 64) in
let v_shape := (Z.lor 2 (v_shape mod 2)) in
let v_spread := (v_spread mod 4) in
let v_nStops := (v_nStops mod 64) in
(mkRGBA v_nStops (Z.lor v_cBase (wrapu 8 (v_spread * 64))) (Z.lor v_nBase (wrapu 8 (v_shape * 64))) 0).

(* ivg:  DecodeGradient *)
Definition go_ivg_DecodeGradient (v_c : rgba) :=
let v_cBase := 0 in
let v_nBase := 0 in
let v_shape := 0 in
let v_spread := 0 in
let v_nStops := 0 in
let v_cBase := ((cg v_c) mod 64) in
let v_nBase := ((cb v_c) mod 64) in
let v_shape := (((cb v_c) / 64) mod 2) in
let v_spread := (((cg v_c) / 64) mod 4) in
let v_nStops := ((cr v_c) mod 64) in
(v_cBase, v_nBase, v_shape, v_spread, v_nStops).

(* ivg: Color Is1 *)
Definition go_ivg_Color_Is1 (v_c : gcolor) :=
(((gtyp v_c) =? 0) && (go_ivg_Is1 (gdata v_c))).

(* ivg: Color Encode1 *)
Definition go_ivg_Color_Encode1 (v_c : gcolor) :=
let v_x := 0 in
let v_ok := false in
if ((gtyp v_c) =? 0) then (
if (negb ((ca (gdata v_c)) =? 255)) then (
if (rgba_eqb (gdata v_c) (mkRGBA 0 0 0 0)) then (
(127, true))
else (if (rgba_eqb (gdata v_c) (mkRGBA 128 128 128 128)) then (
(126, true))
else (if (rgba_eqb (gdata v_c) (mkRGBA 192 192 192 192)) then (
(125, true))
else ((0, false)))))
else (
if (go_ivg_Is1 (gdata v_c)) then (
let v_r := ((cr (gdata v_c)) / 63) in
let v_g := ((cg (gdata v_c)) / 63) in
let v_b := ((cb (gdata v_c)) / 63) in
((wrapu 8 ((wrapu 8 ((wrapu 8 (25 * v_r)) + (wrapu 8 (5 * v_g)))) + v_b)), true))
else (
(0, false))))
else (if ((gtyp v_c) =? 1) then (
((Z.lor (cr (gdata v_c)) 128), true))
else (if ((gtyp v_c) =? 2) then (
((Z.lor (cr (gdata v_c)) 192), true))
else ((0, false)))).

(* ivg: Color Is2 *)
Definition go_ivg_Color_Is2 (v_c : gcolor) :=
(((gtyp v_c) =? 0) && (go_ivg_Is2 (gdata v_c))).

(* ivg: Color Encode2 *)
Definition go_ivg_Color_Encode2 (v_c : gcolor) :=
let v_x := [0; 0] in
let v_ok := false in
if (go_ivg_Color_Is2 v_c) then (
([(Z.lor (wrapu 8 (((cr (gdata v_c)) / 17) * 16)) ((cg (gdata v_c)) / 17)); (Z.lor (wrapu 8 (((cb (gdata v_c)) / 17) * 16)) ((ca (gdata v_c)) / 17))], true))
else (
([0; 0], false)).

(* ivg: Color Is3 *)
Definition go_ivg_Color_Is3 (v_c : gcolor) :=
(((gtyp v_c) =? 0) && (go_ivg_Is3 (gdata v_c))).

(* ivg: Color Encode3Direct *)
Definition go_ivg_Color_Encode3Direct (v_c : gcolor) :=
let v_x := [0; 0; 0] in
let v_ok := false in
if (go_ivg_Color_Is3 v_c) then (
([(cr (gdata v_c)); (cg (gdata v_c)); (cb (gdata v_c))], true))
else (
([0; 0; 0], false)).

(* ivg: Color Encode4 *)
Definition go_ivg_Color_Encode4 (v_c : gcolor) :=
let v_x := [0; 0; 0; 0] in
let v_ok := false in
if ((gtyp v_c) =? 0) then (
([(cr (gdata v_c)); (cg (gdata v_c)); (cb (gdata v_c)); (ca (gdata v_c))], true))
else (
([0; 0; 0; 0], false)).

(* ivg: Color Encode3Indirect *)
Definition go_ivg_Color_Encode3Indirect (v_c : gcolor) :=
let v_x := [0; 0; 0] in
let v_ok := false in
if ((gtyp v_c) =? 3) then (
([(cr (gdata v_c)); (cg (gdata v_c)); (cb (gdata v_c))], true))
else (
([0; 0; 0], false)).

(* ivg: ViewBox Size *)
Definition go_ivg_ViewBox_Size (v_v : gviewbox) :=
let v_dx := 0 in
let v_dy := 0 in
((fsub F32 (vmaxx v_v) (vminx v_v)), (fsub F32 (vmaxy v_v) (vminy v_v))).

(* ivg: ViewBox AspectMeet *)
Definition go_ivg_ViewBox_AspectMeet (v_v : gviewbox) (v_dx : Z) (v_dy : Z) (v_ax : Z) (v_ay : Z) :=
let v_MinX := 0 in
let v_MinY := 0 in
let v_MaxX := 0 in
let v_MaxY := 0 in
let '(v_vdx, v_vdy) := (go_ivg_ViewBox_Size v_v) in
let v_vbAR := (fdiv F32 v_vdx v_vdy) in
let '(v_vdx, v_vdy) := (v_dx, v_dy) in
if (flt F32 (fdiv F32 v_vdx v_vdy) v_vbAR) then (
let v_vdy := (fdiv F32 v_vdx v_vbAR) in
let v_minX := (fmul F32 (fsub F32 v_dx v_vdx) v_ax) in
let v_maxX := (fadd F32 v_minX v_vdx) in
let v_minY := (fmul F32 (fsub F32 v_dy v_vdy) v_ay) in
let v_maxY := (fadd F32 v_minY v_vdy) in
(v_minX, v_minY, v_maxX, v_maxY))
else (
let v_vdx := (fmul F32 v_vdy v_vbAR) in
let v_minX := (fmul F32 (fsub F32 v_dx v_vdx) v_ax) in
let v_maxX := (fadd F32 v_minX v_vdx) in
let v_minY := (fmul F32 (fsub F32 v_dy v_vdy) v_ay) in
let v_maxY := (fadd F32 v_minY v_vdy) in
(v_minX, v_minY, v_maxX, v_maxY)).

(* ivg: ViewBox AspectSlice *)
Definition go_ivg_ViewBox_AspectSlice (v_v : gviewbox) (v_dx : Z) (v_dy : Z) (v_ax : Z) (v_ay : Z) :=
let v_MinX := 0 in
let v_MinY := 0 in
let v_MaxX := 0 in
let v_MaxY := 0 in
let '(v_vdx, v_vdy) := (go_ivg_ViewBox_Size v_v) in
let v_vbAR := (fdiv F32 v_vdx v_vdy) in
let '(v_vdx, v_vdy) := (v_dx, v_dy) in
if (flt F32 (fdiv F32 v_vdx v_vdy) v_vbAR) then (
let v_vdx := (fmul F32 v_vdy v_vbAR) in
let v_minX := (fmul F32 (fsub F32 v_dx v_vdx) v_ax) in
let v_maxX := (fadd F32 v_minX v_vdx) in
let v_minY := (fmul F32 (fsub F32 v_dy v_vdy) v_ay) in
let v_maxY := (fadd F32 v_minY v_vdy) in
(v_minX, v_minY, v_maxX, v_maxY))
else (
let v_vdy := (fdiv F32 v_vdx v_vbAR) in
let v_minX := (fmul F32 (fsub F32 v_dx v_vdx) v_ax) in
let v_maxX := (fadd F32 v_minX v_vdx) in
let v_minY := (fmul F32 (fsub F32 v_dy v_vdy) v_ay) in
let v_maxY := (fadd F32 v_minY v_vdy) in
(v_minX, v_minY, v_maxX, v_maxY)).

(* encode: buffer encodeNatural *)
Definition go_encode_buffer_encodeNatural (v_b : (list Z)) (v_u : Z) :=
if (v_u <? 128) then (
let v_u := (wrapu 32 (v_u * 2)) in
let v_b := v_b ++ [(wrapu 8 v_u)] in
v_b)
else (
if (v_u <? 16384) then (
let v_u := (Z.lor (wrapu 32 (v_u * 4)) 1) in
let v_b := v_b ++ [(wrapu 8 v_u); (wrapu 8 (v_u / 256))] in
v_b)
else (
let v_u := (Z.lor (wrapu 32 (v_u * 4)) 3) in
let v_b := v_b ++ [(wrapu 8 v_u); (wrapu 8 (v_u / 256)); (wrapu 8 (v_u / 65536)); (wrapu 8 (v_u / 16777216))] in
v_b)).

(* encode: buffer encode4ByteReal *)
Definition go_encode_buffer_encode4ByteReal (v_b : (list Z)) (v_f : Z) :=
let v_u := v_f in
let v_v := (v_u mod 8388608) in
if (v_v <? 8388606) then (
let v_v := (wrapu 32 (v_v + 2)) in
let v_u := (Z.lor (v_u / 8388608 * 8388608) v_v) in
let v_u := (Z.lor v_u 3) in
let v_b := v_b ++ [(wrapu 8 v_u); (wrapu 8 (v_u / 256)); (wrapu 8 (v_u / 65536)); (wrapu 8 (v_u / 16777216))] in
v_b)
else (
let v_u := (Z.lor (v_u / 8388608 * 8388608) v_v) in
let v_u := (Z.lor v_u 3) in
let v_b := v_b ++ [(wrapu 8 v_u); (wrapu 8 (v_u / 256)); (wrapu 8 (v_u / 65536)); (wrapu 8 (v_u / 16777216))] in
v_b).

(* encode: buffer encodeReal *)
Definition go_encode_buffer_encodeReal (v_b : (list Z)) (v_f : Z) :=
let v_u := (wrapu 32 (f2int 64 F32 v_f)) in
if ((feq F32 (of_Z F32 v_u) v_f) && (v_u <? 16384)) then (
if (v_u <? 128) then (
let v_u := (wrapu 32 (v_u * 2)) in
let v_b := v_b ++ [(wrapu 8 v_u)] in
(v_b, 1))
else (
let v_u := (Z.lor (wrapu 32 (v_u * 4)) 1) in
let v_b := v_b ++ [(wrapu 8 v_u); (wrapu 8 (v_u / 256))] in
(v_b, 2)))
else (
let v_b := (go_encode_buffer_encode4ByteReal v_b v_f) in
(v_b, 4)).

(* encode: buffer encodeCoordinate *)
Definition go_encode_buffer_encodeCoordinate (v_b : (list Z)) (v_f : Z) :=
let v_i := (f2int 32 F32 v_f) in
if ((((-64) <=? v_i) && (v_i <? 64)) && (feq F32 (of_Z F32 v_i) v_f)) then (
let v_u := (wrapu 32 (wraps 32 (v_i + 64))) in
let v_u := (wrapu 32 (v_u * 2)) in
let v_b := v_b ++ [(wrapu 8 v_u)] in
(v_b, 1))
else (
let v_i_1 := (f2int 32 F32 (fmul F32 v_f 1115684864)) in
if ((((-8192) <=? v_i_1) && (v_i_1 <? 8192)) && (feq F32 (of_Z F32 v_i_1) (fmul F32 v_f 1115684864))) then (
let v_u_1 := (wrapu 32 (wraps 32 (v_i_1 + 8192))) in
let v_u_1 := (Z.lor (wrapu 32 (v_u_1 * 4)) 1) in
let v_b := v_b ++ [(wrapu 8 v_u_1); (wrapu 8 (v_u_1 / 256))] in
(v_b, 2))
else (
let v_b := (go_encode_buffer_encode4ByteReal v_b v_f) in
(v_b, 4))).

(* encode: buffer encodeZeroToOne *)
Definition go_encode_buffer_encodeZeroToOne (v_b : (list Z)) (v_f : Z) :=
let v_u := (wrapu 32 (f2int 64 F32 (fmul F32 v_f 1181499392))) in
if ((feq F32 (of_Z F32 v_u) (fmul F32 v_f 1181499392)) && (v_u <? 15120)) then (
if ((v_u mod 126) =? 0) then (
let v_u := (wrapu 32 ((v_u / 126) * 2)) in
let v_b := v_b ++ [(wrapu 8 v_u)] in
(v_b, 1))
else (
let v_u := (Z.lor (wrapu 32 (v_u * 4)) 1) in
let v_b := v_b ++ [(wrapu 8 v_u); (wrapu 8 (v_u / 256))] in
(v_b, 2)))
else (
let v_b := (go_encode_buffer_encode4ByteReal v_b v_f) in
(v_b, 4)).

(* encode: buffer encodeAngle *)
Definition go_encode_buffer_encodeAngle (v_b : (list Z)) (v_f : Z) :=
let v_g := (f32_to_f64 v_f) in
let v_g := (fsub F64 v_g (ffloor F64 v_g)) in
(go_encode_buffer_encodeZeroToOne v_b (f64_to_f32 v_g)).

(* encode: buffer encodeColor1 *)
Definition go_encode_buffer_encodeColor1 (v_b : (list Z)) (v_c : gcolor) :=
let '(v_x, v_ok) := (go_ivg_Color_Encode1 v_c) in
if v_ok then (
let v_b := v_b ++ [v_x] in
v_b)
else (
let v_b := v_b ++ [0] in
v_b).

(* encode: buffer encodeColor2 *)
Definition go_encode_buffer_encodeColor2 (v_b : (list Z)) (v_c : gcolor) :=
let '(v_x, v_ok) := (go_ivg_Color_Encode2 v_c) in
if v_ok then (
let v_b := v_b ++ [(nth 0%nat v_x 0); (nth 1%nat v_x 0)] in
v_b)
else (
let v_b := v_b ++ [0; 15] in
v_b).

(* encode: buffer encodeColor3Direct *)
Definition go_encode_buffer_encodeColor3Direct (v_b : (list Z)) (v_c : gcolor) :=
let '(v_x, v_ok) := (go_ivg_Color_Encode3Direct v_c) in
if v_ok then (
let v_b := v_b ++ [(nth 0%nat v_x 0); (nth 1%nat v_x 0); (nth 2%nat v_x 0)] in
v_b)
else (
let v_b := v_b ++ [0; 0; 0] in
v_b).

(* encode: buffer encodeColor4 *)
Definition go_encode_buffer_encodeColor4 (v_b : (list Z)) (v_c : gcolor) :=
let '(v_x, v_ok) := (go_ivg_Color_Encode4 v_c) in
if v_ok then (
let v_b := v_b ++ [(nth 0%nat v_x 0); (nth 1%nat v_x 0); (nth 2%nat v_x 0); (nth 3%nat v_x 0)] in
v_b)
else (
let v_b := v_b ++ [0; 0; 0; 255] in
v_b).

(* encode: buffer encodeColor3Indirect *)
Definition go_encode_buffer_encodeColor3Indirect (v_b : (list Z)) (v_c : gcolor) :=
let '(v_x, v_ok) := (go_ivg_Color_Encode3Indirect v_c) in
if v_ok then (
let v_b := v_b ++ [(nth 0%nat v_x 0); (nth 1%nat v_x 0); (nth 2%nat v_x 0)] in
v_b)
else (
let v_b := v_b ++ [0; 0; 0] in
v_b).

(* decode: buffer decodeNatural *)
Definition go_decode_buffer_decodeNatural (v_b : (list Z)) :=
let v_u := 0 in
let v_n := 0 in
if ((Z.of_nat (length v_b)) <? 1) then (
(0, 0))
else (
let v_x := (nth 0%nat v_b 0) in
if ((v_x mod 2) =? 0) then (
(((wrapu 32 v_x) / 2), 1))
else (
if ((v_x / 2 mod 2 * 2) =? 0) then (
if ((Z.of_nat (length v_b)) >=? 2) then (
let v_y := (Z.lor (wrapu 16 (nth 0%nat v_b 0)) (wrapu 16 ((wrapu 16 (nth 1%nat v_b 0)) * 256))) in
(((wrapu 32 v_y) / 4), 2))
else (
(0, 0)))
else (
if ((Z.of_nat (length v_b)) >=? 4) then (
let v_y_1 := (Z.lor (Z.lor (Z.lor (wrapu 32 (nth 0%nat v_b 0)) (wrapu 32 ((wrapu 32 (nth 1%nat v_b 0)) * 256))) (wrapu 32 ((wrapu 32 (nth 2%nat v_b 0)) * 65536))) (wrapu 32 ((wrapu 32 (nth 3%nat v_b 0)) * 16777216))) in
((v_y_1 / 4), 4))
else (
(0, 0))))).

(* decode: buffer decodeReal *)
Definition go_decode_buffer_decodeReal (v_b : (list Z)) :=
let v_f := 0 in
let v_n := 0 in
let '(v_u, v_n_1) := (go_decode_buffer_decodeNatural v_b) in
if (v_n_1 =? 0) then (
(0, v_n_1))
else (if (v_n_1 =? 1) then (
((of_Z F32 v_u), v_n_1))
else (if (v_n_1 =? 2) then (
((of_Z F32 v_u), v_n_1))
else (((wrapu 32 (v_u * 4)), v_n_1)))).

(* decode: buffer decodeCoordinate *)
Definition go_decode_buffer_decodeCoordinate (v_b : (list Z)) :=
let v_f := 0 in
let v_n := 0 in
let '(v_u, v_n_1) := (go_decode_buffer_decodeNatural v_b) in
if (v_n_1 =? 0) then (
(0, v_n_1))
else (if (v_n_1 =? 1) then (
((of_Z F32 (wraps 32 ((wraps 32 v_u) - 64))), v_n_1))
else (if (v_n_1 =? 2) then (
((fdiv F32 (of_Z F32 (wraps 32 ((wraps 32 v_u) - 8192))) 1115684864), v_n_1))
else (((wrapu 32 (v_u * 4)), v_n_1)))).

(* decode: buffer decodeZeroToOne *)
Definition go_decode_buffer_decodeZeroToOne (v_b : (list Z)) :=
let v_f := 0 in
let v_n := 0 in
let '(v_u, v_n_1) := (go_decode_buffer_decodeNatural v_b) in
if (v_n_1 =? 0) then (
(0, v_n_1))
else (if (v_n_1 =? 1) then (
((fdiv F32 (of_Z F32 v_u) 1123024896), v_n_1))
else (if (v_n_1 =? 2) then (
((fdiv F32 (of_Z F32 v_u) 1181499392), v_n_1))
else (((wrapu 32 (v_u * 4)), v_n_1)))).

(* decode: buffer decodeColor1 *)
Definition go_decode_buffer_decodeColor1 (v_b : (list Z)) :=
let v_c := (mkGColor 0 (mkRGBA 0 0 0 0)) in
let v_n := 0 in
if ((Z.of_nat (length v_b)) <? 1) then (
((mkGColor 0 (mkRGBA 0 0 0 0)), 0))
else (
((go_ivg_DecodeColor1 (nth 0%nat v_b 0)), 1)).

(* decode: buffer decodeColor2 *)
Definition go_decode_buffer_decodeColor2 (v_b : (list Z)) :=
let v_c := (mkGColor 0 (mkRGBA 0 0 0 0)) in
let v_n := 0 in
if ((Z.of_nat (length v_b)) <? 2) then (
((mkGColor 0 (mkRGBA 0 0 0 0)), 0))
else (
((go_ivg_RGBAColor (mkRGBA (wrapu 8 (17 * ((nth 0%nat v_b 0) / 16))) (wrapu 8 (17 * ((nth 0%nat v_b 0) mod 16))) (wrapu 8 (17 * ((nth 1%nat v_b 0) / 16))) (wrapu 8 (17 * ((nth 1%nat v_b 0) mod 16))))), 2)).

(* decode: buffer decodeColor3Direct *)
Definition go_decode_buffer_decodeColor3Direct (v_b : (list Z)) :=
let v_c := (mkGColor 0 (mkRGBA 0 0 0 0)) in
let v_n := 0 in
if ((Z.of_nat (length v_b)) <? 3) then (
((mkGColor 0 (mkRGBA 0 0 0 0)), 0))
else (
((go_ivg_RGBAColor (mkRGBA (nth 0%nat v_b 0) (nth 1%nat v_b 0) (nth 2%nat v_b 0) 255)), 3)).

(* decode: buffer decodeColor4 *)
Definition go_decode_buffer_decodeColor4 (v_b : (list Z)) :=
let v_c := (mkGColor 0 (mkRGBA 0 0 0 0)) in
let v_n := 0 in
if ((Z.of_nat (length v_b)) <? 4) then (
((mkGColor 0 (mkRGBA 0 0 0 0)), 0))
else (
((go_ivg_RGBAColor (mkRGBA (nth 0%nat v_b 0) (nth 1%nat v_b 0) (nth 2%nat v_b 0) (nth 3%nat v_b 0))), 4)).

(* decode: buffer decodeColor3Indirect *)
Definition go_decode_buffer_decodeColor3Indirect (v_b : (list Z)) :=
let v_c := (mkGColor 0 (mkRGBA 0 0 0 0)) in
let v_n := 0 in
if ((Z.of_nat (length v_b)) <? 3) then (
((mkGColor 0 (mkRGBA 0 0 0 0)), 0))
else (
((go_ivg_BlendColor (nth 0%nat v_b 0) (nth 1%nat v_b 0) (nth 2%nat v_b 0)), 3)).

(* render: Spread Clamp *)
Definition go_render_Spread_Clamp (v_s : Z) (v_x : Z) :=
if (fge F64 v_x 0) then (
if (fle F64 v_x 4607182418800017408) then (
v_x)
else (
if (v_s =? 1) then (
4607182418800017408)
else (if (v_s =? 2) then (
if (((f2int 64 F64 v_x) mod 2) =? 0) then (
(fsub F64 v_x (ffloor F64 v_x)))
else (
(fsub F64 4607182418800017408 (fsub F64 v_x (ffloor F64 v_x)))))
else (if (v_s =? 3) then (
(fsub F64 v_x (ffloor F64 v_x)))
else (13830554455654793216)))))
else (
if (v_s =? 1) then (
0)
else (if (v_s =? 2) then (
let v_x := (fneg F64 v_x) in
if (((f2int 64 F64 v_x) mod 2) =? 0) then (
(fsub F64 v_x (ffloor F64 v_x)))
else (
(fsub F64 4607182418800017408 (fsub F64 v_x (ffloor F64 v_x)))))
else (if (v_s =? 3) then (
(fsub F64 v_x (ffloor F64 v_x)))
else (13830554455654793216)))).

(* generate:  Translate *)
Definition go_generate_Translate (v_x : Z) (v_y : Z) :=
[1065353216; 0; v_x; 0; 1065353216; v_y].

(* generate:  MulAff3 *)
Definition go_generate_MulAff3 (v_x : Z) (v_y : Z) (v_a : (list Z)) :=
let v_X := 0 in
let v_Y := 0 in
((fadd F32 (fadd F32 (fmul F32 v_x (nth 0%nat v_a 0)) (fmul F32 v_y (nth 1%nat v_a 0))) (nth 2%nat v_a 0)), (fadd F32 (fadd F32 (fmul F32 v_x (nth 3%nat v_a 0)) (fmul F32 v_y (nth 4%nat v_a 0))) (nth 5%nat v_a 0))).

(* decode:  isNaNOrInfinity *)
Definition go_decode_isNaNOrInfinity (v_f : Z) :=
((Z.land v_f 2139095040) =? 2139095040).

(* generate:  Scale *)
Definition go_generate_Scale (v_v : (list Z)) :=
if ((Z.of_nat (length v_v)) =? 0) then (
[1065353216; 0; 0; 0; 1065353216; 0])
else (if ((Z.of_nat (length v_v)) =? 1) then (
[(nth 0%nat v_v 0); 0; 0; 0; (nth 0%nat v_v 0); 0])
else ([(nth 0%nat v_v 0); 0; 0; 0; (nth 1%nat v_v 0); 0])).

(* generate:  Concat *)
Definition go_generate_Concat (v_affs : (list (list Z))) :=
if ((Z.of_nat (length v_affs)) =? 0) then (
[1065353216; 0; 0; 0; 1065353216; 0])
else (if ((Z.of_nat (length v_affs)) =? 1) then (
(nth 0%nat v_affs [0; 0; 0; 0; 0; 0]))
else (let v_a := [1065353216; 0; 0; 0; 1065353216; 0] in
let v_a := (fold_left (fun (v_a : (list Z)) (v_b : (list Z)) =>
let v_a := [(fadd F32 (fmul F32 (nth 0%nat v_a 0) (nth 0%nat v_b 0)) (fmul F32 (nth 3%nat v_a 0) (nth 1%nat v_b 0))); (fadd F32 (fmul F32 (nth 1%nat v_a 0) (nth 0%nat v_b 0)) (fmul F32 (nth 4%nat v_a 0) (nth 1%nat v_b 0))); (fadd F32 (fadd F32 (fmul F32 (nth 2%nat v_a 0) (nth 0%nat v_b 0)) (fmul F32 (nth 5%nat v_a 0) (nth 1%nat v_b 0))) (nth 2%nat v_b 0)); (fadd F32 (fmul F32 (nth 0%nat v_a 0) (nth 3%nat v_b 0)) (fmul F32 (nth 3%nat v_a 0) (nth 4%nat v_b 0))); (fadd F32 (fmul F32 (nth 1%nat v_a 0) (nth 3%nat v_b 0)) (fmul F32 (nth 4%nat v_a 0) (nth 4%nat v_b 0))); (fadd F32 (fadd F32 (fmul F32 (nth 2%nat v_a 0) (nth 3%nat v_b 0)) (fmul F32 (nth 5%nat v_a 0) (nth 4%nat v_b 0))) (nth 5%nat v_b 0))] in
v_a) v_affs v_a) in
v_a)).

(* render: Renderer CSel *)
Definition go_render_Renderer_CSel (f_cSel : Z) :=
f_cSel.

(* render: Renderer NSel *)
Definition go_render_Renderer_NSel (f_nSel : Z) :=
f_nSel.

(* render: Renderer SetCSel *)
Definition go_render_Renderer_SetCSel (f_cSel : Z) (v_cSel : Z) :=
let f_cSel := (v_cSel mod 64) in
f_cSel.

(* render: Renderer SetNSel *)
Definition go_render_Renderer_SetNSel (f_nSel : Z) (v_nSel : Z) :=
let f_nSel := (v_nSel mod 64) in
f_nSel.

(* render: Renderer SetLOD *)
Definition go_render_Renderer_SetLOD (f_lod0 : Z) (f_lod1 : Z) (v_lod0 : Z) (v_lod1 : Z) :=
let '(f_lod0, f_lod1) := (v_lod0, v_lod1) in
(f_lod0, f_lod1).

(* render: Renderer SetCReg *)
Definition go_render_Renderer_SetCReg (f_cReg : (list rgba)) (f_cSel : Z) (f_palette : (list rgba)) (v_adj : Z) (v_incr : bool) (v_c : gcolor) :=
let f_cReg := (go_list_set f_cReg ((wrapu 8 (f_cSel - v_adj)) mod 64) (go_ivg_Color_Resolve 8%nat v_c f_palette f_cReg)) in
if v_incr then (
let f_cSel := ((wrapu 8 (f_cSel + 1)) mod 64) in
(f_cReg, f_cSel))
else (
(f_cReg, f_cSel)).

(* render: Renderer SetNReg *)
Definition go_render_Renderer_SetNReg (f_nReg : (list Z)) (f_nSel : Z) (v_adj : Z) (v_incr : bool) (v_f : Z) :=
let f_nReg := (go_list_set f_nReg ((wrapu 8 (f_nSel - v_adj)) mod 64) v_f) in
if v_incr then (
let f_nSel := ((wrapu 8 (f_nSel + 1)) mod 64) in
(f_nReg, f_nSel))
else (
(f_nReg, f_nSel)).

(* render: Renderer absX *)
Definition go_render_Renderer_absX (f_biasX : Z) (f_scaleX : Z) (v_x : Z) :=
(fmul F32 f_scaleX (fadd F32 v_x f_biasX)).

(* render: Renderer absY *)
Definition go_render_Renderer_absY (f_biasY : Z) (f_scaleY : Z) (v_y : Z) :=
(fmul F32 f_scaleY (fadd F32 v_y f_biasY)).

(* render: Renderer relX *)
Definition go_render_Renderer_relX (f_scaleX : Z) (v_x : Z) :=
(fmul F32 f_scaleX v_x).

(* render: Renderer relY *)
Definition go_render_Renderer_relY (f_scaleY : Z) (v_y : Z) :=
(fmul F32 f_scaleY v_y).

(* render: Renderer unabsX *)
Definition go_render_Renderer_unabsX (f_biasX : Z) (f_scaleX : Z) (v_x : Z) :=
(fsub F32 (fdiv F32 v_x f_scaleX) f_biasX).

(* render: Renderer unabsY *)
Definition go_render_Renderer_unabsY (f_biasY : Z) (f_scaleY : Z) (v_y : Z) :=
(fsub F32 (fdiv F32 v_y f_scaleY) f_biasY).

(* render: Renderer absVec2 *)
Definition go_render_Renderer_absVec2 f_biasX f_biasY f_scaleX f_scaleY (v_x : Z) (v_y : Z) :=
let v_zx := 0 in
let v_zy := 0 in
((go_render_Renderer_absX f_biasX f_scaleX v_x), (go_render_Renderer_absY f_biasY f_scaleY v_y)).

(* encode: Encoder quantize *)
Definition go_encode_Encoder_quantize (f_highResolutionCoordinates : bool) (v_coord : Z) :=
if ((negb f_highResolutionCoordinates) && ((fle F32 3271557120 v_coord) && (flt F32 v_coord 1124073472))) then (
let v_x := (ffloor F64 (fadd F64 (fmul F64 (f32_to_f64 v_coord) 4634204016564240384) 4602678819172646912)) in
(fdiv F32 (f64_to_f32 v_x) 1115684864))
else (
v_coord).

(* translated: 70, untranslated: 0  *)

(* Arc.v — model of Renderer.AbsArcTo / RelArcTo (render/render.go), float instance. *)
From Coq Require Import ZArith Bool List.
From IVG Require Import SF NumCodec Color Calls Render GoMath.
Import ListNotations.
Local Open Scope Z_scope.

Definition S := rstate f32.
Definition to64 := f32_to_f64.
Definition to32 := f64_to_f32.
Definition d0 : Z := 0.

(* numeric operations of the arc code, so that it can be written once: float64 instance A64 below (compared
   with render.go), R instance in proofs/ArcR.v *)
Record arcops (T : Type) := mkArcOps {
  a_add : T -> T -> T; a_sub : T -> T -> T; a_mul : T -> T -> T; a_div : T -> T -> T; a_neg : T -> T;
  a_sqrt : T -> T; a_gt : T -> T -> bool; a_zero : T; a_one : T; a_two : T;
  a_le : T -> T -> bool; a_ge : T -> T -> bool; a_lt : T -> T -> bool;
  a_pi : T; a_twopi : T; a_acos : T -> T; a_cos : T -> T; a_sin : T -> T
}.
Arguments a_add {T}. Arguments a_sub {T}. Arguments a_mul {T}. Arguments a_div {T}. Arguments a_neg {T}.
Arguments a_sqrt {T}. Arguments a_gt {T}. Arguments a_zero {T}. Arguments a_one {T}. Arguments a_two {T}.
Arguments a_le {T}. Arguments a_ge {T}. Arguments a_lt {T}. Arguments a_pi {T}. Arguments a_twopi {T}.
Arguments a_acos {T}. Arguments a_cos {T}. Arguments a_sin {T}.

Definition A64 : arcops Z :=
  mkArcOps Z dadd dsub dmul ddiv dneg (fsqrt F64) (fgt F64) d0 k_one k_two
           (fle F64) (fge F64) (flt F64) k_pi k_twopi goacos gocos gosin.

(* angle(ux, uy, vx, vy): the signed angle from u to v *)
Definition angle_gen {T} (O : arcops T) (ux uy vx vy : T) : T :=
  let unorm := a_sqrt O (a_add O (a_mul O ux ux) (a_mul O uy uy)) in
  let vnorm := a_sqrt O (a_add O (a_mul O vx vx) (a_mul O vy vy)) in
  let norm := a_mul O unorm vnorm in
  let c := a_div O (a_add O (a_mul O ux vx) (a_mul O uy vy)) norm in
  let ret := if a_le O c (a_neg O (a_one O)) then a_pi O
             else if a_ge O c (a_one O) then a_zero O
             else a_acos O c in
  if a_lt O (a_mul O ux vy) (a_mul O uy vx) then a_neg O ret else ret.
Definition angle : Z -> Z -> Z -> Z -> Z := angle_gen A64.

(* the point of the ellipse (centre, radii, rotation given by its cosine and sine) at parameter theta *)
Definition arc_point_gen {T} (O : arcops T) (cx cy rx ry cosphi sinphi theta : T) : T * T :=
  let x := a_mul O rx (a_cos O theta) in
  let y := a_mul O ry (a_sin O theta) in
  (a_sub O (a_add O cx (a_mul O cosphi x)) (a_mul O sinphi y),
   a_add O (a_add O cy (a_mul O sinphi x)) (a_mul O cosphi y)).

Definition arc_segment (s : S) (cx cy theta1 theta2 rx ry cosphi sinphi : Z) : S :=
  let hdt := dmul (dsub theta2 theta1) k_half in
  let q := gosin (dmul hdt k_half) in
  let t := ddiv (dmul (dmul k_eight q) q) (dmul k_three (gosin hdt)) in
  let cos1 := gocos theta1 in let sin1 := gosin theta1 in
  let cos2 := gocos theta2 in let sin2 := gosin theta2 in
  let x1 := dmul rx (dsub cos1 (dmul t sin1)) in
  let y1 := dmul ry (dadd sin1 (dmul t cos1)) in
  let x2 := dmul rx (dadd cos2 (dmul t sin2)) in
  let y2 := dmul ry (dsub sin2 (dmul t cos2)) in
  let px (x y : Z) := absX N32 s (to32 (dsub (dadd cx (dmul cosphi x)) (dmul sinphi y))) in
  let py (x y : Z) := absY N32 s (to32 (dadd (dadd cy (dmul sinphi x)) (dmul cosphi y))) in
  let p3 := arc_point_gen A64 cx cy rx ry cosphi sinphi theta2 in
  emit_keep N32 s (RCubeTo (px x1 y1) (py x1 y1) (px x2 y2) (py x2 y2)
                           (absX N32 s (to32 (fst p3))) (absY N32 s (to32 (snd p3)))).

Fixpoint arc_loop (k : nat) (i n : Z) (s : S) (cx cy theta1 dtheta rx ry cosphi sinphi : Z) : S :=
  match k with
  | O => s
  | Datatypes.S k' =>
      let fn := of_Z F64 n in
      let a1 := dadd theta1 (ddiv (dmul dtheta (of_Z F64 i)) fn) in
      let a2 := dadd theta1 (ddiv (dmul dtheta (of_Z F64 (i + 1))) fn) in
      arc_loop k' (i + 1) n (arc_segment s cx cy a1 a2 rx ry cosphi sinphi)
               cx cy theta1 dtheta rx ry cosphi sinphi
  end.

Definition set_pst_none (s : S) : S :=
  mkR f32 (r_x0 s) (r_y0 s) (r_w s) (r_h s) (r_scx s) (r_bx s) (r_scy s) (r_by s) (r_vb s) (r_pal s)
      (r_lod0 s) (r_lod1 s) (r_csel s) (r_nsel s) (r_disabled s) 0 (r_psx s) (r_psy s) (r_paint s)
      (r_creg s) (r_nreg s) (z_penx s) (z_peny s) (z_firstx s) (z_firsty s) (r_log s).

(* Steps 1-3 of the endpoint-to-centre conversion (render.go:470-520) *)
Record arccenter (T : Type) := mkCenter {
  ac_rx : T; ac_ry : T; ac_cx : T; ac_cy : T; ac_x1p : T; ac_y1p : T; ac_cxp : T; ac_cyp : T
}.
Arguments ac_rx {T}. Arguments ac_ry {T}. Arguments ac_cx {T}. Arguments ac_cy {T}.
Arguments ac_x1p {T}. Arguments ac_y1p {T}. Arguments ac_cxp {T}. Arguments ac_cyp {T}.

Definition arc_center_gen {T} (O : arcops T) (x1 y1 x2 y2 Rx Ry cosphi sinphi : T) (same : bool) : arccenter T :=
    let hdx := a_div O (a_sub O x1 x2) (a_two O) in
    let hdy := a_div O (a_sub O y1 y2) (a_two O) in
    let x1p := a_add O (a_mul O cosphi hdx) (a_mul O sinphi hdy) in
    let y1p := a_add O (a_mul O (a_neg O sinphi) hdx) (a_mul O cosphi hdy) in
    let rxsq := a_mul O Rx Rx in
    let rysq := a_mul O Ry Ry in
    let x1psq := a_mul O x1p x1p in
    let y1psq := a_mul O y1p y1p in
    let check := a_add O (a_div O x1psq rxsq) (a_div O y1psq rysq) in
    let '(Rx, Ry, rxsq, rysq) :=
      if a_gt O check (a_one O) then
        let c := a_sqrt O check in
        let Rx' := a_mul O Rx c in let Ry' := a_mul O Ry c in
        (Rx', Ry', a_mul O Rx' Rx', a_mul O Ry' Ry')
      else (Rx, Ry, rxsq, rysq) in
    let denom := a_add O (a_mul O rxsq y1psq) (a_mul O rysq x1psq) in
    let a := a_sub O (a_div O (a_mul O rxsq rysq) denom) (a_one O) in
    let step2 := if a_gt O a (a_zero O) then a_sqrt O a else a_zero O in
    let step2 := if same then a_neg O step2 else step2 in
    let cxp := a_div O (a_mul O (a_mul O step2 Rx) y1p) Ry in
    let cyp := a_div O (a_mul O (a_mul O (a_neg O step2) Ry) x1p) Rx in
    let cx := a_add O (a_sub O (a_mul O cosphi cxp) (a_mul O sinphi cyp)) (a_div O (a_add O x1 x2) (a_two O)) in
    let cy := a_add O (a_add O (a_mul O sinphi cxp) (a_mul O cosphi cyp)) (a_div O (a_add O y1 y2) (a_two O)) in
    mkCenter T Rx Ry cx cy x1p y1p cxp cyp.


(* the centre parameterisation of AbsArcTo: a pure function of the pen (in viewBox space) and the arguments.
   Returns (n, cx, cy, theta1, deltaTheta, Rx, Ry, cosPhi, sinPhi). *)
(* Step 4: start angle and sweep from the centre, adjusted by the sweep flag *)
Definition arc_angles_gen {T} (O : arcops T) (c : arccenter T) (sweep : bool) : T * T :=
  let Rx := ac_rx c in let Ry := ac_ry c in
  let ax := a_div O (a_sub O (ac_x1p c) (ac_cxp c)) Rx in
  let ay := a_div O (a_sub O (ac_y1p c) (ac_cyp c)) Ry in
  let bx := a_div O (a_sub O (a_neg O (ac_x1p c)) (ac_cxp c)) Rx in
  let by_ := a_div O (a_sub O (a_neg O (ac_y1p c)) (ac_cyp c)) Ry in
  let theta1 := angle_gen O (a_one O) (a_zero O) ax ay in
  let dtheta := angle_gen O ax ay bx by_ in
  let dtheta :=
    if sweep then (if a_lt O dtheta (a_zero O) then a_add O dtheta (a_twopi O) else dtheta)
    else (if a_gt O dtheta (a_zero O) then a_sub O dtheta (a_twopi O) else dtheta) in
  (theta1, dtheta).

Record arcp := mkArcP { ap_n : Z; ap_cx : Z; ap_cy : Z; ap_t1 : Z; ap_dt : Z; ap_rx : Z; ap_ry : Z; ap_cos : Z; ap_sin : Z }.

Definition arc_params (x1 y1 : Z) (Rx0 Ry0 : Z) (rot : f32) (large sweep : bool) (x y : f32) : arcp :=
    let x2 := to64 x in
    let y2 := to64 y in
    let phi := dmul k_twopi (to64 rot) in
    let cosphi := gocos phi in
    let sinphi := gosin phi in
    let c := arc_center_gen A64 x1 y1 x2 y2 Rx0 Ry0 cosphi sinphi (Bool.eqb large sweep) in
    let Rx := ac_rx c in let Ry := ac_ry c in
    let '(theta1, dtheta) := arc_angles_gen A64 c sweep in
    let n := match ftrunc F64 (fceil F64 (ddiv (dabs dtheta) k_segAngle)) with
             | Some i => if (0 <? i) && (i <? 1000) then i else 0
             | None => 0 end in
    mkArcP n (ac_cx c) (ac_cy c) theta1 dtheta Rx Ry cosphi sinphi.

(* AbsArcTo (the renderer is not disabled) *)
Definition abs_arc (s : S) (rx ry rot : f32) (large sweep : bool) (x y : f32) : S :=
  let s := set_pst_none s in
  let Rx := dabs (to64 rx) in
  let Ry := dabs (to64 ry) in
  if negb (fgt F64 Rx d0 && fgt F64 Ry d0) then
    emit_keep N32 s (RLineTo (absX N32 s x) (absY N32 s y))
  else
    let x1 := to64 (unabsX N32 s (z_penx s)) in
    let y1 := to64 (unabsY N32 s (z_peny s)) in
    let p := arc_params x1 y1 Rx Ry rot large sweep x y in
    arc_loop (Z.to_nat (ap_n p)) 0 (ap_n p) s (ap_cx p) (ap_cy p) (ap_t1 p) (ap_dt p) (ap_rx p) (ap_ry p) (ap_cos p) (ap_sin p).

(* RelArcTo: ax, ay := relVec2(x, y); AbsArcTo(..., unabsX(ax), unabsY(ay)) — evaluated also when disabled,
   but then without effect *)
Definition arc32 (s : S) (rel : bool) (rx ry rot : f32) (large sweep : bool) (x y : f32) : S :=
  if rel then
    let ax := relVX N32 s x in
    let ay := relVY N32 s y in
    abs_arc s rx ry rot large sweep (unabsX N32 s ax) (unabsY N32 s ay)
  else abs_arc s rx ry rot large sweep x y.

Definition rstep32 : S -> call -> S := rstep N32 arc32.
Definition rrun32 (s : S) (l : list call) : S := fold_left rstep32 l s.

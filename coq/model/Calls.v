(* Calls.v — the ivg.Destination interface as data (destination.go). *)
From Coq Require Import ZArith Bool List.
From IVG Require Import SF NumCodec Color.
Import ListNotations.
Local Open Scope Z_scope.

Record viewbox := mkVB { vminx : f32; vminy : f32; vmaxx : f32; vmaxy : f32 }.

(* drawing verbs are identified by their SVG-like letter (as in encode.go's draw()) *)
Definition opL := 76. Definition opl := 108. Definition opT := 84. Definition opt := 116.
Definition opQ := 81. Definition opq := 113. Definition opS := 83. Definition ops := 115.
Definition opC := 67. Definition opc := 99.  Definition opA := 65. Definition opa := 97.
Definition opZ := 90. Definition opY := 89.  Definition opy := 121.
Definition opH := 72. Definition oph := 104. Definition opV := 86. Definition opv := 118.

Inductive call :=
| CReset (vb : viewbox) (pal : list rgba)
| CSetCSel (s : Z)
| CSetNSel (s : Z)
| CSetCReg (adj : Z) (incr : bool) (c : color)
| CSetNReg (adj : Z) (incr : bool) (f : f32)
| CSetLOD (l0 l1 : f32)
| CStartPath (adj : Z) (x y : f32)
| CDraw (op : Z) (args : list f32)   (* one of L l T t Q q S s C c H h V v Y y; arity fixed by op *)
| CArc (rel : bool) (rx ry rot : f32) (large sweep : bool) (x y : f32)
| CEndPath.

Definition c_m32 : f32 := of_Z F32 (-32).
Definition c_32 : f32 := of_Z F32 32.
Definition default_viewbox : viewbox := mkVB c_m32 c_m32 c_32 c_32.
Definition default_palette : list rgba := repeat opaque_black 64.

Definition magic : list byte := [137; 73; 86; 71].

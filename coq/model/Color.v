(* Color.v — model of color.go and the colour part of decode/buffer.go.
   Executable definitions only. *)
From Coq Require Import ZArith Bool List.
From IVG Require Import SF NumCodec.
Import ListNotations.
Local Open Scope Z_scope.

Record rgba := mkRGBA { cr : Z; cg : Z; cb : Z; ca : Z }.

Definition rgba_eqb (x y : rgba) : bool :=
  (cr x =? cr y) && (cg x =? cg y) && (cb x =? cb y) && (ca x =? ca y).

Inductive color :=
| CRGBA (c : rgba)
| CPal (i : Z)             (* index into the custom palette, 0..63 *)
| CCReg (i : Z)            (* colour register, 0..63 *)
| CBlend (t c0 c1 : Z).    (* three bytes *)

(* the constructors PaletteIndexColor / CRegColor keep the low six bits of the index *)
Definition palette_index_color (i : Z) : color := CPal (i mod 64).
Definition creg_color (i : Z) : color := CCReg (i mod 64).

Definition opaque_black : rgba := mkRGBA 0 0 0 255.

(* var dc1Table = [5]byte{0x00, 0x40, 0x80, 0xc0, 0xff} *)
Definition dc1 : list Z := [0; 64; 128; 192; 255].
Definition dc1_at (i : Z) : Z := nth (Z.to_nat i) dc1 0.

(* DecodeColor1 *)
Definition decode_color1 (x : Z) : color :=
  if 128 <=? x then
    (if 192 <=? x then CCReg (x mod 64) else CPal (x mod 64))
  else if x =? 125 then CRGBA (mkRGBA 192 192 192 192)
  else if x =? 126 then CRGBA (mkRGBA 128 128 128 128)
  else if x =? 127 then CRGBA (mkRGBA 0 0 0 0)
  else
    let blue := dc1_at (x mod 5) in
    let x1 := x / 5 in
    let green := dc1_at (x1 mod 5) in
    let x2 := x1 / 5 in
    let red := dc1_at x2 in
    CRGBA (mkRGBA red green blue 255).

Definition is1u (u : Z) : bool := (u mod 64 =? 0) || (u =? 255).
Definition is1 (c : rgba) : bool := is1u (cr c) && is1u (cg c) && is1u (cb c) && is1u (ca c).
Definition is2u (u : Z) : bool := u mod 17 =? 0.
Definition is2 (c : rgba) : bool := is2u (cr c) && is2u (cg c) && is2u (cb c) && is2u (ca c).
Definition is3 (c : rgba) : bool := ca c =? 255.

Definition valid_premul (c : rgba) : bool :=
  (cr c <=? ca c) && (cg c <=? ca c) && (cb c <=? ca c).
Definition valid_gradient (c : rgba) : bool := (ca c =? 0) && (128 <=? cb c).

(* Color.Encode1 *)
Definition encode1 (c : color) : option Z :=
  match c with
  | CRGBA d =>
      if negb (ca d =? 255) then
        (if rgba_eqb d (mkRGBA 0 0 0 0) then Some 127
         else if rgba_eqb d (mkRGBA 128 128 128 128) then Some 126
         else if rgba_eqb d (mkRGBA 192 192 192 192) then Some 125
         else None)
      else if is1 d then Some ((25 * (cr d / 63) + 5 * (cg d / 63) + cb d / 63) mod 256)
      else None
  | CPal i => Some (i + 128)
  | CCReg i => Some (i + 192)
  | CBlend _ _ _ => None
  end.

Definition encode2 (c : color) : option (list Z) :=
  match c with
  | CRGBA d => if is2 d then Some [(cr d / 17) * 16 + cg d / 17; (cb d / 17) * 16 + ca d / 17] else None
  | _ => None
  end.

Definition encode3direct (c : color) : option (list Z) :=
  match c with
  | CRGBA d => if is3 d then Some [cr d; cg d; cb d] else None
  | _ => None
  end.

Definition encode4 (c : color) : option (list Z) :=
  match c with
  | CRGBA d => Some [cr d; cg d; cb d; ca d]
  | _ => None
  end.

Definition encode3indirect (c : color) : option (list Z) :=
  match c with
  | CBlend t c0 c1 => Some [t; c0; c1]
  | _ => None
  end.

(* the form Encoder.SetCReg chooses: (opcode base, operand bytes); shortest first *)
Definition enc_color (c : color) : Z * list Z :=
  match encode1 c with
  | Some x => (128, [x])
  | None =>
  match encode2 c with
  | Some l => (136, l)
  | None =>
  match encode3direct c with
  | Some l => (144, l)
  | None =>
  match encode4 c with
  | Some l => (152, l)
  | None =>
  match encode3indirect c with
  | Some l => (160, l)
  | None => (0, [])   (* panic("unreachable") in Go; proved unreachable *)
  end end end end end.

(* decode/buffer.go colour decoders; None models n == 0 *)
Definition dec_color1 (b : list Z) : option (color * nat) :=
  match b with x :: _ => Some (decode_color1 x, 1%nat) | _ => None end.
Definition dec_color2 (b : list Z) : option (color * nat) :=
  match b with
  | x :: y :: _ => Some (CRGBA (mkRGBA (17 * (x / 16)) (17 * (x mod 16)) (17 * (y / 16)) (17 * (y mod 16))), 2%nat)
  | _ => None
  end.
Definition dec_color3direct (b : list Z) : option (color * nat) :=
  match b with x :: y :: z :: _ => Some (CRGBA (mkRGBA x y z 255), 3%nat) | _ => None end.
Definition dec_color4 (b : list Z) : option (color * nat) :=
  match b with x :: y :: z :: w :: _ => Some (CRGBA (mkRGBA x y z w), 4%nat) | _ => None end.
Definition dec_color3indirect (b : list Z) : option (color * nat) :=
  match b with x :: y :: z :: _ => Some (CBlend x y z, 3%nat) | _ => None end.

(* decoder for the form with opcode base k in {0..4} = (opcode-0x80)>>3 *)
Definition dec_color_form (k : Z) (b : list Z) : option (color * nat) :=
  if k =? 0 then dec_color1 b
  else if k =? 1 then dec_color2 b
  else if k =? 2 then dec_color3direct b
  else if k =? 3 then dec_color4 b
  else dec_color3indirect b.

(* Color.RGBA(): the colour itself when it is a direct valid premultiplied colour, else opaque black *)
Definition color_rgba (c : color) : rgba * bool :=
  match c with
  | CRGBA d => if valid_premul d then (d, true) else (opaque_black, false)
  | _ => (opaque_black, false)
  end.

(* Color.Resolve *)
Definition reg_at (l : list rgba) (i : Z) : rgba := nth (Z.to_nat (i mod 64)) l (mkRGBA 0 0 0 0).

Definition resolve_simple (pal creg : list rgba) (c : color) : rgba :=
  match c with
  | CRGBA d => d
  | CPal i => reg_at pal i
  | CCReg i => reg_at creg i
  | CBlend _ _ _ => mkRGBA 0 0 0 0
  end.

Definition blend_chan (t x0 x1 : Z) : Z := (((255 - t) * x0 + t * x1 + 128) / 255) mod 256.

Definition resolve (pal creg : list rgba) (c : color) : rgba :=
  match c with
  | CBlend t c0 c1 =>
      let a := resolve_simple pal creg (decode_color1 c0) in
      let b := resolve_simple pal creg (decode_color1 c1) in
      mkRGBA (blend_chan t (cr a) (cr b)) (blend_chan t (cg a) (cg b))
             (blend_chan t (cb a) (cb b)) (blend_chan t (ca a) (ca b))
  | _ => resolve_simple pal creg c
  end.

(* EncodeGradient / DecodeGradient *)
Definition encode_gradient (cBase nBase shape spread nStops : Z) : rgba :=
  mkRGBA (nStops mod 64)
         (cBase mod 64 + 64 * (spread mod 4))
         (nBase mod 64 + 64 * (2 + shape mod 2))
         0.

Record gradparams := mkGP { gp_cbase : Z; gp_nbase : Z; gp_shape : Z; gp_spread : Z; gp_nstops : Z }.
Definition decode_gradient (c : rgba) : gradparams :=
  mkGP (cg c mod 64) (cb c mod 64) ((cb c / 64) mod 2) ((cg c / 64) mod 4) (cr c mod 64).

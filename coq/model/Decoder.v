(* Decoder.v — model of decode/decode.go.  One function produces the sequence of
   "items": every printer call p(bytes, ...) as a line, every Destination call as a
   call.  Decode observes the calls, Disassemble the lines; both are projections. *)
From Coq Require Import ZArith Bool List.
From IVG Require Import SF NumCodec Color Calls.
Import ListNotations.
Local Open Scope Z_scope.

Inductive derr :=
| EInconsistentMetadataChunkLength | EInvalidColor | EInvalidMagicIdentifier
| EInvalidMetadataChunkLength | EInvalidMetadataIdentifier | EInvalidNumber
| EInvalidNumberOfMetadataChunks | EInvalidSuggestedPalette | EInvalidViewBox
| EUnsupportedDrawingOpcode | EUnsupportedMetadataIdentifier | EUnsupportedStylingOpcode.

Inductive outcome := Done | Fail (e : derr) | Panic | OutOfFuel.

Inductive payload :=
| PMagic | PNChunks (n : Z) | PChunkLen (n : Z) | PMid (m : Z)
| PPalHdr (count bpc : Z) | PPalColor (c : rgba)
| PNum (f : f32)
| PSetCSel (v : Z) | PSetNSel (v : Z)
| PSetCReg (adj : Z) (incr : bool) (form : Z)
| PColor (c : color)
| PSetNReg (adj : Z) (incr : bool) (typ : Z)
| PNRegNum (f : f32)
| PStartPath (adj : Z) | PSetLOD
| PDrawOp (op : Z) (nreps : Z) | PImplicit (op : Z)
| PAngle (f : f32) | PFlags (x : Z)
| PSimple (op : Z).

Inductive item := ILine (bytes : list byte) (p : payload) | ICall (c : call).

Definition calls_of (l : list item) : list call :=
  flat_map (fun i => match i with ICall c => [c] | _ => [] end) l.
Definition lines_of (l : list item) : list (list byte * payload) :=
  flat_map (fun i => match i with ILine b p => [(b, p)] | _ => [] end) l.

(* options: WithPalette / WithColorAt (the colour already converted to color.RGBA by Go) *)
Inductive dopt := OPalette (p : list rgba) | OColorAt (i : Z) (c : rgba).

Definition set_nth {A} (l : list A) (i : nat) (x : A) : list A :=
  firstn i l ++ x :: skipn (S i) l.

Definition is_nan_or_inf (f : f32) : bool := (f / 8388608) mod 256 =? 255.

(* ---- numbers with a printed line: decodeNumber ---- *)
Definition read_num (dec : list byte -> option (f32 * nat)) (mk : f32 -> payload) (b : list byte)
  : option (list item * f32 * list byte) :=
  match dec b with
  | None => None
  | Some (x, n) => Some ([ILine (firstn n b) (mk x)], x, skipn n b)
  end.

Fixpoint read_coords (k : nat) (b : list byte) : list item * option (list f32 * list byte) :=
  match k with
  | O => ([], Some ([], b))
  | S k' =>
      match read_num dec_coordinate PNum b with
      | None => ([], None)
      | Some (it, x, b1) =>
          let '(its, r) := read_coords k' b1 in
          (it ++ its, match r with None => None | Some (xs, b2) => Some (x :: xs, b2) end)
      end
  end.

(* ---- metadata ---- *)
Record meta := mkMeta { m_vb : viewbox; m_pal : list rgba }.
Definition default_meta : meta := mkMeta default_viewbox default_palette.

Definition viewbox_invalid (v : viewbox) : bool :=
  fgt F32 (vminx v) (vmaxx v) || fgt F32 (vminy v) (vmaxy v) ||
  is_nan_or_inf (vminx v) || is_nan_or_inf (vminy v) ||
  is_nan_or_inf (vmaxx v) || is_nan_or_inf (vmaxy v).

Fixpoint read_palette (k : nat) (i : nat) (form : Z) (pal : list rgba) (b : list byte)
  : list item * option (list rgba * list byte) :=
  match k with
  | O => ([], Some (pal, b))
  | S k' =>
      match dec_color_form (if form <? 3 then form else 3) b with
      | None => ([], None)
      | Some (c, n) =>
          let rgba := fst (color_rgba c) in
          let '(its, r) := read_palette k' (S i) form (set_nth pal i rgba) (skipn n b) in
          (ILine (firstn n b) (PPalColor rgba) :: its, r)
      end
  end.

Inductive chunk_res := ChunkErr (e : derr) | ChunkOk (m : meta) (rest : list byte) (mid : Z).

Definition dec_chunk (minmid : Z) (m : meta) (b : list byte) : list item * chunk_res :=
  match dec_natural b with
  | None => ([], ChunkErr EInvalidMetadataChunkLength)
  | Some (len, n) =>
      let l0 := ILine (firstn n b) (PChunkLen len) in
      let b := skipn n b in
      let want := Z.of_nat (length b) - len in
      match dec_natural b with
      | None => ([l0], ChunkErr EInvalidMetadataIdentifier)
      | Some (mid, n) =>
          if 2 <=? mid then ([l0], ChunkErr EUnsupportedMetadataIdentifier)
          else if mid <? minmid then ([l0], ChunkErr EInvalidMetadataIdentifier)
          else
            let l1 := ILine (firstn n b) (PMid mid) in
            let b := skipn n b in
            if mid =? 0 then
              match read_coords 4 b with
              | (its, Some ([x0; y0; x1; y1], b')) =>
                  let v := mkVB x0 y0 x1 y1 in
                  if viewbox_invalid v then (l0 :: l1 :: its, ChunkErr EInvalidViewBox)
                  else if Z.of_nat (length b') =? want
                  then (l0 :: l1 :: its, ChunkOk (mkMeta v (m_pal m)) b' mid)
                  else (l0 :: l1 :: its, ChunkErr EInconsistentMetadataChunkLength)
              | (its, _) => (l0 :: l1 :: its, ChunkErr EInvalidViewBox)
              end
            else
              match b with
              | [] => ([l0; l1], ChunkErr EInvalidSuggestedPalette)
              | h :: b1 =>
                  let count := 1 + h mod 64 in
                  let form := h / 64 in
                  let l2 := ILine [h] (PPalHdr count (1 + form)) in
                  match read_palette (Z.to_nat count) 0 form (m_pal m) b1 with
                  | (its, None) => (l0 :: l1 :: l2 :: its, ChunkErr EInvalidSuggestedPalette)
                  | (its, Some (pal, b')) =>
                      if Z.of_nat (length b') =? want
                      then (l0 :: l1 :: l2 :: its, ChunkOk (mkMeta (m_vb m) pal) b' mid)
                      else (l0 :: l1 :: l2 :: its, ChunkErr EInconsistentMetadataChunkLength)
                  end
              end
      end
  end.

Inductive chunks_res := ChunksErr (o : outcome) | ChunksOk (m : meta) (rest : list byte).

Fixpoint dec_chunks (fuel : nat) (n : Z) (minmid : Z) (m : meta) (b : list byte)
  : list item * chunks_res :=
  if n <=? 0 then ([], ChunksOk m b)
  else
    match fuel with
    | O => ([], ChunksErr OutOfFuel)
    | S fuel' =>
        match dec_chunk minmid m b with
        | (its, ChunkErr e) => (its, ChunksErr (Fail e))
        | (its, ChunkOk m' b' mid) =>
            let '(its', r) := dec_chunks fuel' (n - 1) (mid + 1) m' b' in
            (its ++ its', r)
        end
    end.

Fixpoint has_prefix (p b : list byte) : bool :=
  match p, b with
  | [], _ => true
  | x :: p', y :: b' => (x =? y) && has_prefix p' b'
  | _, [] => false
  end.


Definition dec_metadata (b : list byte) : list item * chunks_res :=
  if negb (has_prefix magic b) then ([], ChunksErr (Fail EInvalidMagicIdentifier))
  else
    let l0 := ILine (firstn 4 b) PMagic in
    let b := skipn 4 b in
    match dec_natural b with
    | None => ([l0], ChunksErr (Fail EInvalidNumberOfMetadataChunks))
    | Some (nc, n) =>
        let l1 := ILine (firstn n b) (PNChunks nc) in
        let b := skipn n b in
        let '(its, r) := dec_chunks (S (length b)) nc 0 default_meta b in
        (l0 :: l1 :: its, r)
    end.

(* options; an index outside 0..63 panics in Go (array index) *)
Fixpoint apply_opts (os : list dopt) (m : meta) : option meta :=
  match os with
  | [] => Some m
  | OPalette p :: r => apply_opts r (mkMeta (m_vb m) p)
  | OColorAt i c :: r =>
      if (0 <=? i) && (i <? 64) then apply_opts r (mkMeta (m_vb m) (set_nth (m_pal m) (Z.to_nat i) c))
      else None
  end.

(* sanitising of the final palette (decode.go, after the options): entries that are not valid
   premultiplied colours become opaque black *)
Definition sanitize_palette (p : list rgba) : list rgba :=
  map (fun c => if valid_premul c then c else opaque_black) p.

(* ---- instructions ---- *)
Inductive step_res :=
| StepErr (e : derr)
| StepOk (drawing : bool) (rest : list byte).

Definition styling_step (opcode : Z) (b : list byte) : list item * step_res :=
  let l0 p := ILine [opcode] p in
  if opcode <? 64 then
    ([l0 (PSetCSel (opcode mod 64)); ICall (CSetCSel (opcode mod 64))], StepOk false b)
  else if opcode <? 128 then
    ([l0 (PSetNSel (opcode mod 64)); ICall (CSetNSel (opcode mod 64))], StepOk false b)
  else if opcode <? 168 then
    let adj7 := opcode mod 8 in
    let incr := adj7 =? 7 in
    let adj := if incr then 0 else adj7 in
    let form := (opcode - 128) / 8 in
    match dec_color_form form b with
    | None => ([l0 (PSetCReg adj incr form)], StepErr EInvalidColor)
    | Some (c, n) =>
        ([l0 (PSetCReg adj incr form); ILine (firstn n b) (PColor c); ICall (CSetCReg adj incr c)],
         StepOk false (skipn n b))
    end
  else if opcode <? 192 then
    let adj7 := opcode mod 8 in
    let incr := adj7 =? 7 in
    let adj := if incr then 0 else adj7 in
    let typ := (opcode - 168) / 8 in
    let dec := if typ =? 0 then dec_real else if typ =? 1 then dec_coordinate else dec_zero_to_one in
    match dec b with
    | None => ([l0 (PSetNReg adj incr typ)], StepErr EInvalidNumber)
    | Some (f, n) =>
        ([l0 (PSetNReg adj incr typ); ILine (firstn n b) (PNRegNum f); ICall (CSetNReg adj incr f)],
         StepOk false (skipn n b))
    end
  else if opcode <? 199 then
    let adj := opcode mod 8 in
    match read_coords 2 b with
    | (its, Some ([x; y], b')) =>
        (l0 (PStartPath adj) :: its ++ [ICall (CStartPath adj x y)], StepOk true b')
    | (its, _) => (l0 (PStartPath adj) :: its, StepErr EInvalidNumber)
    end
  else if opcode =? 199 then
    match read_num dec_real PNum b with
    | None => ([l0 PSetLOD], StepErr EInvalidNumber)
    | Some (it0, lod0, b1) =>
        match read_num dec_real PNum b1 with
        | None => (l0 PSetLOD :: it0, StepErr EInvalidNumber)
        | Some (it1, lod1, b2) =>
            (l0 PSetLOD :: it0 ++ it1 ++ [ICall (CSetLOD lod0 lod1)], StepOk false b2)
        end
    end
  else ([], StepErr EUnsupportedStylingOpcode).

(* one repetition of a non-arc drawing op *)
Definition draw_rep (op : Z) (ncoords : nat) (b : list byte) : list item * option (list byte) :=
  match read_coords ncoords b with
  | (its, Some (xs, b')) => (its ++ [ICall (CDraw op xs)], Some b')
  | (its, None) => (its, None)
  end.

Definition arc_rep (rel : bool) (b : list byte) : list item * option (list byte) :=
  match read_coords 2 b with
  | (its0, Some ([rx; ry], b1)) =>
      match read_num dec_zero_to_one PAngle b1 with
      | None => (its0, None)
      | Some (its1, rot, b2) =>
          match dec_natural b2 with
          | None => (its0 ++ its1, None)
          | Some (fl, n) =>
              let l := ILine (firstn n b2) (PFlags fl) in
              let b3 := skipn n b2 in
              match read_coords 2 b3 with
              | (its2, Some ([x; y], b4)) =>
                  (its0 ++ its1 ++ l :: its2 ++
                   [ICall (CArc rel rx ry rot (negb (fl mod 2 =? 0)) (negb ((fl / 2) mod 2 =? 0)) x y)],
                   Some b4)
              | (its2, _) => (its0 ++ its1 ++ l :: its2, None)
              end
          end
      end
  | (its0, _) => (its0, None)
  end.

Fixpoint reps (first : bool) (k : nat) (op : Z) (one : list byte -> list item * option (list byte))
  (b : list byte) : list item * option (list byte) :=
  match k with
  | O => ([], Some b)
  | S k' =>
      let pre := if first then [] else [ILine [] (PImplicit op)] in
      match one b with
      | (its, None) => (pre ++ its, None)
      | (its, Some b') =>
          let '(its', r) := reps false k' op one b' in
          (pre ++ its ++ its', r)
      end
  end.

(* the drawing opcodes below 0xe0: operation, coordinates per repetition, repetitions (decodeDrawing's switch on the
   high nibble; props/C03.v checks it against the table regenerated from decode.go) *)
Definition draw_group (opcode : Z) : Z * nat * Z :=
    let hi := opcode / 16 in
      if hi <? 2 then (opL, 2%nat, 1 + opcode mod 32)
      else if hi <? 4 then (opl, 2%nat, 1 + opcode mod 32)
      else if hi =? 4 then (opT, 2%nat, 1 + opcode mod 16)
      else if hi =? 5 then (opt, 2%nat, 1 + opcode mod 16)
      else if hi =? 6 then (opQ, 4%nat, 1 + opcode mod 16)
      else if hi =? 7 then (opq, 4%nat, 1 + opcode mod 16)
      else if hi =? 8 then (opS, 4%nat, 1 + opcode mod 16)
      else if hi =? 9 then (ops, 4%nat, 1 + opcode mod 16)
      else if hi =? 10 then (opC, 6%nat, 1 + opcode mod 16)
      else if hi =? 11 then (opc, 6%nat, 1 + opcode mod 16)
      else if hi =? 12 then (opA, 0%nat, 1 + opcode mod 16)
      else (opa, 0%nat, 1 + opcode mod 16).

Definition drawing_step (opcode : Z) (b : list byte) : list item * step_res :=
  let l0 p := ILine [opcode] p in
  if opcode <? 224 then
    let '(op, ncoords, nreps) := draw_group opcode in
    let one := if op =? opA then arc_rep false else if op =? opa then arc_rep true
               else draw_rep op ncoords in
    match reps true (Z.to_nat nreps) op one b with
    | (its, Some b') => (l0 (PDrawOp op nreps) :: its, StepOk true b')
    | (its, None) => (l0 (PDrawOp op nreps) :: its, StepErr EInvalidNumber)
    end
  else if opcode =? 225 then ([l0 (PSimple opZ); ICall CEndPath], StepOk false b)
  else
    let simple (op : Z) (k : nat) :=
      match draw_rep op k b with
      | (its, Some b') => (l0 (PSimple op) :: its, StepOk true b')
      | (its, None) => (l0 (PSimple op) :: its, StepErr EInvalidNumber)
      end in
    if opcode =? 226 then simple opY 2%nat
    else if opcode =? 227 then simple opy 2%nat
    else if opcode =? 230 then simple opH 1%nat
    else if opcode =? 231 then simple oph 1%nat
    else if opcode =? 232 then simple opV 1%nat
    else if opcode =? 233 then simple opv 1%nat
    else ([], StepErr EUnsupportedDrawingOpcode).

Fixpoint dec_ops (fuel : nat) (drawing : bool) (b : list byte) : list item * outcome :=
  match b with
  | [] => ([], Done)
  | opcode :: rest =>
      match fuel with
      | O => ([], OutOfFuel)
      | S fuel' =>
          match (if drawing then drawing_step else styling_step) opcode rest with
          | (its, StepErr e) => (its, Fail e)
          | (its, StepOk d b') =>
              let '(its', o) := dec_ops fuel' d b' in
              (its ++ its', o)
          end
      end
  end.

(* the whole of decode(): metadata, options, Reset, instructions *)
Definition decode_items (os : list dopt) (b : list byte) : list item * outcome :=
  match dec_metadata b with
  | (its, ChunksErr o) => (its, o)
  | (its, ChunksOk m rest) =>
      match apply_opts os m with
      | None => (its, Panic)
      | Some m' =>
          let m'' := mkMeta (m_vb m') (sanitize_palette (m_pal m')) in
          let '(its', o) := dec_ops (length rest) false rest in
          (its ++ ICall (CReset (m_vb m'') (m_pal m'')) :: its', o)
      end
  end.

Definition decode_calls (os : list dopt) (b : list byte) : list call * outcome :=
  let '(its, o) := decode_items os b in (calls_of its, o).

(* DecodeViewBox: metadata only; no call is ever delivered *)
Definition decode_viewbox (b : list byte) : viewbox * outcome :=
  match dec_metadata b with
  | (_, ChunksErr o) => (default_viewbox, o)   (* Go returns the partially filled box with the error; not observed *)
  | (_, ChunksOk m _) => (m_vb m, Done)
  end.

(* Disassemble: the lines, on success only *)
Definition disassemble (b : list byte) : option (list (list byte * payload)) * outcome :=
  let '(its, o) := decode_items [] b in
  match o with
  | Done => (Some (lines_of its), Done)
  | _ => (None, o)
  end.

(* Encoder.v — model of encode/encode.go.  State-passing; the zero value is enc_zero. *)
From Coq Require Import ZArith Bool List.
From IVG Require Import SF NumCodec Color Calls.
Import ListNotations.
Local Open Scope Z_scope.

Inductive eerr := EDrawingOpsInStyling | EInvalidSelectorAdjustment
                | EInvalidIncrementingAdjustment | EStylingOpsInDrawing.

Inductive emode := MInitial | MStyling | MDrawing.

Record enc := mkEnc {
  e_hires : bool;          (* exported HighResolutionCoordinates *)
  e_hires_l : bool;        (* local copy latched at StartPath *)
  e_buf : list byte;
  e_err : option eerr;
  e_lod0 : f32; e_lod1 : f32;
  e_csel : Z; e_nsel : Z;
  e_mode : emode;
  e_drawop : Z;
  e_drawargs : list f32
}.

Definition pos_inf : f32 := 2139095040. (* 0x7f800000 *)

Definition enc_zero : enc := mkEnc false false [] None 0 0 0 0 MInitial 0 [].

Definition set_buf (e : enc) (b : list byte) : enc :=
  mkEnc (e_hires e) (e_hires_l e) b (e_err e) (e_lod0 e) (e_lod1 e) (e_csel e) (e_nsel e)
        (e_mode e) (e_drawop e) (e_drawargs e).
Definition set_err (e : enc) (x : eerr) : enc :=
  mkEnc (e_hires e) (e_hires_l e) (e_buf e) (Some x) (e_lod0 e) (e_lod1 e) (e_csel e) (e_nsel e)
        (e_mode e) (e_drawop e) (e_drawargs e).
Definition set_mode (e : enc) (m : emode) : enc :=
  mkEnc (e_hires e) (e_hires_l e) (e_buf e) (e_err e) (e_lod0 e) (e_lod1 e) (e_csel e) (e_nsel e)
        m (e_drawop e) (e_drawargs e).
Definition set_hires (e : enc) (h : bool) : enc :=
  mkEnc h (e_hires_l e) (e_buf e) (e_err e) (e_lod0 e) (e_lod1 e) (e_csel e) (e_nsel e)
        (e_mode e) (e_drawop e) (e_drawargs e).

(* drawOps table: verb -> (opcodeBase, maxRepCount, nArgs); 0 entries for other bytes *)
Definition draw_ops : list (Z * (Z * Z * Z)) :=
  [(65, (192, 16, 6)); (67, (160, 16, 6)); (72, (230, 1, 1)); (76, (0, 32, 2));
   (81, (96, 16, 4)); (83, (128, 16, 4)); (84, (64, 16, 2)); (86, (232, 1, 1));
   (89, (226, 1, 2)); (90, (225, 1, 0)); (97, (208, 16, 6)); (99, (176, 16, 6));
   (104, (231, 1, 1)); (108, (32, 32, 2)); (113, (112, 16, 4)); (115, (144, 16, 4));
   (116, (80, 16, 2)); (118, (233, 1, 1)); (121, (227, 1, 2))].

Fixpoint lookup_op (t : list (Z * (Z * Z * Z))) (op : Z) : Z * Z * Z :=
  match t with
  | [] => (0, 0, 0)
  | (k, v) :: r => if k =? op then v else lookup_op r op
  end.
Definition op_info (op : Z) : Z * Z * Z := lookup_op draw_ops op.

(* ---- metadata ---- *)
Definition vb_is_default (v : viewbox) : bool :=
  feq F32 (vminx v) c_m32 && feq F32 (vminy v) c_m32 && feq F32 (vmaxx v) c_32 && feq F32 (vmaxy v) c_32.

Fixpoint pal_eqb (a b : list rgba) : bool :=
  match a, b with
  | [], [] => true
  | x :: a', y :: b' => rgba_eqb x y && pal_eqb a' b'
  | _, _ => false
  end.

(* number of explicit entries: index of the last non-black entry, plus one *)
Fixpoint explicit_count (p : list rgba) : nat :=
  match p with
  | [] => 0
  | c :: r =>
      match explicit_count r with
      | O => if rgba_eqb c opaque_black then 0%nat else 1%nat
      | S k => S (S k)
      end
  end.

Definition enc1_ok (c : rgba) : bool :=
  is1 c && match encode1 (CRGBA c) with Some _ => true | None => false end.

Definition palette_chunk (p : list rgba) : list byte :=
  let k := explicit_count p in
  let ex := firstn k p in
  let n := Z.of_nat k - 1 in
  let nb := n mod 256 in
  if forallb enc1_ok ex then
    (nb mod 64) :: map (fun c => match encode1 (CRGBA c) with Some x => x | None => 0 end) ex
  else if forallb is2 ex then
    (nb mod 64 + 64) :: flat_map (fun c => match encode2 (CRGBA c) with Some l => l | None => [] end) ex
  else if forallb is3 ex then
    (nb mod 64 + 128) :: flat_map (fun c => [cr c; cg c; cb c]) ex
  else
    (nb mod 64 + 192) :: flat_map (fun c => [cr c; cg c; cb c; ca c]) ex.

Definition enc_reset (vb : viewbox) (pal : list rgba) : enc :=
  let mcvb := negb (vb_is_default vb) in
  let mcpal := negb (pal_eqb pal default_palette) in
  let n := (if mcvb then 1 else 0) + (if mcpal then 1 else 0) in
  let c1 :=
    if mcvb then
      let alt := enc_natural 0 ++ enc_coordinate (vminx vb) ++ enc_coordinate (vminy vb)
                 ++ enc_coordinate (vmaxx vb) ++ enc_coordinate (vmaxy vb) in
      enc_natural (Z.of_nat (length alt)) ++ alt
    else [] in
  let c2 :=
    if mcpal then
      let alt := enc_natural 1 ++ palette_chunk pal in
      enc_natural (Z.of_nat (length alt)) ++ alt
    else [] in
  mkEnc false false (magic ++ enc_natural n ++ c1 ++ c2) None 0 pos_inf 0 0 MStyling 0 [].

(* appendDefaultMetadata (with lod1 = +Inf, fix D8) *)
Definition append_default (e : enc) : enc :=
  mkEnc (e_hires e) (e_hires_l e) (magic ++ [0]) (e_err e) (e_lod0 e) pos_inf (e_csel e) (e_nsel e)
        MStyling (e_drawop e) (e_drawargs e).

Definition ensure_started (e : enc) : enc :=
  match e_mode e with MInitial => append_default e | _ => e end.

(* checkModeStyling *)
Definition check_styling (e : enc) : enc :=
  match e_mode e with
  | MStyling => e
  | MInitial => append_default e
  | MDrawing => set_err e EStylingOpsInDrawing
  end.

Definition has_err (e : enc) : bool := match e_err e with Some _ => true | None => false end.

Definition quant (e : enc) (f : f32) : f32 := quantize (e_hires_l e) f.

(* flushDrawOps *)
Fixpoint enc_coords (e : enc) (l : list f32) : list byte :=
  match l with
  | [] => []
  | x :: r => enc_coordinate (quant e x) ++ enc_coords e r
  end.

Definition flags_of (f : f32) : Z :=
  match ftrunc F32 f with Some i => i mod 4294967296 | None => 0 end.

Fixpoint enc_arcs (e : enc) (k : nat) (l : list f32) : list byte * list f32 :=
  match k with
  | O => ([], l)
  | S k' =>
      match l with
      | rx :: ry :: rot :: fl :: x :: y :: r =>
          let '(bs, r') := enc_arcs e k' r in
          (enc_coordinate (quant e rx) ++ enc_coordinate (quant e ry) ++ enc_angle rot
           ++ enc_natural (flags_of fl) ++ enc_coordinate (quant e x) ++ enc_coordinate (quant e y) ++ bs, r')
      | _ => ([], [])
      end
  end.

Fixpoint flush_chunks (fuel : nat) (e : enc) (op base maxrep nargs : Z) (n : Z) (args : list f32) : list byte :=
  match fuel with
  | O => []
  | S fuel' =>
      if n <=? 0 then []
      else
        let m := Z.min n maxrep in
        let hd := (base + m - 1) mod 256 in
        if (op =? opA) || (op =? opa) then
          let '(bs, rest) := enc_arcs e (Z.to_nat m) args in
          hd :: bs ++ flush_chunks fuel' e op base maxrep nargs (n - m) rest
        else
          let k := Z.to_nat (m * nargs) in
          hd :: enc_coords e (firstn k args) ++ flush_chunks fuel' e op base maxrep nargs (n - m) (skipn k args)
  end.

Definition flush (e : enc) : enc :=
  if e_drawop e =? 0 then e
  else
    let '(base, maxrep, nargs) := op_info (e_drawop e) in
    let bytes :=
      if nargs =? 0 then [base]
      else
        let n := Z.of_nat (length (e_drawargs e)) / nargs in
        flush_chunks (S (length (e_drawargs e))) e (e_drawop e) base maxrep nargs n (e_drawargs e) in
    mkEnc (e_hires e) (e_hires_l e) (e_buf e ++ bytes) (e_err e) (e_lod0 e) (e_lod1 e) (e_csel e) (e_nsel e)
          (e_mode e) 0 [].

(* draw() *)
Definition enc_draw (e : enc) (op : Z) (args : list f32) : enc :=
  if has_err e then e
  else match e_mode e with
  | MDrawing =>
      let e1 := if e_drawop e =? op then e else flush e in
      let e2 := mkEnc (e_hires e1) (e_hires_l e1) (e_buf e1) (e_err e1) (e_lod0 e1) (e_lod1 e1)
                      (e_csel e1) (e_nsel e1) (e_mode e1) op (e_drawargs e1 ++ args) in
      if op =? opZ then flush (set_mode e2 MStyling)
      else if (op =? opY) || (op =? opy) then flush e2
      else e2
  | _ => set_err e EDrawingOpsInStyling
  end.

Definition adj_byte (adj : Z) (incr : bool) : Z := if incr then 7 else adj.

Definition enc_step (e : enc) (c : call) : enc :=
  match c with
  | CReset vb pal => enc_reset vb pal
  | CSetCSel s =>
      let e := check_styling e in
      if has_err e then e
      else mkEnc (e_hires e) (e_hires_l e) (e_buf e ++ [s mod 64]) (e_err e) (e_lod0 e) (e_lod1 e)
                 (s mod 64) (e_nsel e) (e_mode e) (e_drawop e) (e_drawargs e)
  | CSetNSel s =>
      let e := check_styling e in
      if has_err e then e
      else mkEnc (e_hires e) (e_hires_l e) (e_buf e ++ [s mod 64 + 64]) (e_err e) (e_lod0 e) (e_lod1 e)
                 (e_csel e) (s mod 64) (e_mode e) (e_drawop e) (e_drawargs e)
  | CSetCReg adj incr col =>
      let e := check_styling e in
      if has_err e then e
      else if 6 <? adj then set_err e EInvalidSelectorAdjustment
      else
        let e := if incr && negb (adj =? 0) then set_err e EInvalidIncrementingAdjustment else e in
        let '(base, bytes) := enc_color col in
        mkEnc (e_hires e) (e_hires_l e) (e_buf e ++ (adj_byte adj incr + base) :: bytes) (e_err e)
              (e_lod0 e) (e_lod1 e) (if incr then (e_csel e + 1) mod 64 else e_csel e) (e_nsel e)
              (e_mode e) (e_drawop e) (e_drawargs e)
  | CSetNReg adj incr f =>
      let e := check_styling e in
      if has_err e then e
      else if 6 <? adj then set_err e EInvalidSelectorAdjustment
      else
        let e := if incr && negb (adj =? 0) then set_err e EInvalidIncrementingAdjustment else e in
        let '(base, bytes) := nreg_choice f in
        mkEnc (e_hires e) (e_hires_l e) (e_buf e ++ (adj_byte adj incr + base) :: bytes) (e_err e)
              (e_lod0 e) (e_lod1 e) (e_csel e) (if incr then (e_nsel e + 1) mod 64 else e_nsel e)
              (e_mode e) (e_drawop e) (e_drawargs e)
  | CSetLOD l0 l1 =>
      let e := check_styling e in
      if has_err e then e
      else mkEnc (e_hires e) (e_hires_l e) (e_buf e ++ 199 :: enc_real l0 ++ enc_real l1) (e_err e)
                 l0 l1 (e_csel e) (e_nsel e) (e_mode e) (e_drawop e) (e_drawargs e)
  | CStartPath adj x y =>
      let e := check_styling e in
      if has_err e then e
      else if 6 <? adj then set_err e EInvalidSelectorAdjustment
      else
        let e := mkEnc (e_hires e) (e_hires e) (e_buf e) (e_err e) (e_lod0 e) (e_lod1 e)
                       (e_csel e) (e_nsel e) (e_mode e) (e_drawop e) (e_drawargs e) in
        mkEnc (e_hires e) (e_hires_l e)
              (e_buf e ++ (192 + adj) :: enc_coordinate (quant e x) ++ enc_coordinate (quant e y))
              (e_err e) (e_lod0 e) (e_lod1 e) (e_csel e) (e_nsel e) MDrawing (e_drawop e) (e_drawargs e)
  | CDraw op args => enc_draw e op args
  | CArc rel rx ry rot large sweep x y =>
      let fl := (if large then 1 else 0) + (if sweep then 2 else 0) in
      enc_draw e (if rel then opa else opA) [rx; ry; rot; of_Z F32 fl; x; y]
  | CEndPath => enc_draw e opZ []
  end.

(* Bytes(): flushes a pending run (fix D9) *)
Inductive bytes_res := BytesOk (b : list byte) | BytesErr (x : eerr).

Definition enc_bytes (e : enc) : enc * bytes_res :=
  match e_err e with
  | Some x => (e, BytesErr x)
  | None =>
      let e := ensure_started e in
      let e := match e_mode e with MDrawing => flush e | _ => e end in
      (e, BytesOk (e_buf e))
  end.

(* the other Encoder API: field assignment and read-backs *)
Inductive eact :=
| ACall (c : call)
| AHiRes (b : bool)
| AReadCSel | AReadNSel | AReadLOD
| ABytes.

Inductive eobs :=
| ONone
| OSel (v : Z)
| OLod (l0 l1 : f32)
| OBytes (r : bytes_res).

Definition enc_act (e : enc) (a : eact) : enc * eobs :=
  match a with
  | ACall c => (enc_step e c, ONone)
  | AHiRes b => (set_hires e b, ONone)
  | AReadCSel => let e := ensure_started e in (e, OSel (e_csel e))
  | AReadNSel => let e := ensure_started e in (e, OSel (e_nsel e))
  | AReadLOD => let e := ensure_started e in (e, OLod (e_lod0 e) (e_lod1 e))
  | ABytes => let '(e, r) := enc_bytes e in (e, OBytes r)
  end.

Fixpoint enc_run (e : enc) (l : list eact) : enc * list eobs :=
  match l with
  | [] => (e, [])
  | a :: r =>
      let '(e1, o) := enc_act e a in
      let '(e2, os) := enc_run e1 r in
      (e2, o :: os)
  end.

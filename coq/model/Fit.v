(* Fit.v — model of ViewBox.Size / AspectMeet / AspectSlice (ivg.go), over an abstract
   numeric type (float32 bits for the correspondence, R for the theorems). *)
From Coq Require Import ZArith Bool List.
From IVG Require Import SF NumCodec.
Local Open Scope Z_scope.

Record fitops (T : Type) := mkFit {
  t_add : T -> T -> T; t_sub : T -> T -> T; t_mul : T -> T -> T; t_div : T -> T -> T;
  t_lt : T -> T -> bool
}.
Arguments t_add {T}. Arguments t_sub {T}. Arguments t_mul {T}. Arguments t_div {T}. Arguments t_lt {T}.

Definition F32ops : fitops f32 := mkFit f32 (fadd F32) (fsub F32) (fmul F32) (fdiv F32) (flt F32).

Section Fit.
Context {T : Type} (O : fitops T).

Definition vb_size (minx miny maxx maxy : T) : T * T := (t_sub O maxx minx, t_sub O maxy miny).

Definition aspect (slice : bool) (minx miny maxx maxy dx dy ax ay : T) : T * T * T * T :=
  let '(vdx, vdy) := vb_size minx miny maxx maxy in
  let vbar := t_div O vdx vdy in
  let narrow := t_lt O (t_div O dx dy) vbar in
  (* meet: the narrower target dimension constrains; slice: the other one *)
  let '(wx, wy) :=
    if xorb narrow slice then (dx, t_div O dx vbar) else (t_mul O dy vbar, dy) in
  let mnx := t_mul O (t_sub O dx wx) ax in
  let mxx := t_add O mnx wx in
  let mny := t_mul O (t_sub O dy wy) ay in
  let mxy := t_add O mny wy in
  (mnx, mny, mxx, mxy).

Definition aspect_meet := aspect false.
Definition aspect_slice := aspect true.
End Fit.

(* Generator.v — model of generate/generate.go: affine helpers and the gradient helpers.
   The helpers read the destination's selectors back; they are modelled as functions of those
   read-backs returning either an error or the list of Destination calls they make. *)
From Coq Require Import ZArith Bool List.
From IVG Require Import SF NumCodec Color Calls.
Import ListNotations.
Local Open Scope Z_scope.

Definition aff3 := list f32.   (* 6 entries, row major *)
Definition a32 := fadd F32. Definition s32 := fsub F32. Definition m32 := fmul F32. Definition d32 := fdiv F32.
Definition k0 : f32 := 0. Definition k1 : f32 := of_Z F32 1.

Definition aff_id : aff3 := [k1; k0; k0; k0; k1; k0].
Definition translate (x y : f32) : aff3 := [k1; k0; x; k0; k1; y].
Definition scale2 (sx sy : f32) : aff3 := [sx; k0; k0; k0; sy; k0].

(* numeric operations the affine helpers and the gradient-geometry helpers are written over:
   float32 instance G32 (compared with generate.go), R instance in proofs/GradGeomR.v / proofs/PathR.v *)
Record genops (T : Type) := mkGenOps {
  o_add : T -> T -> T; o_sub : T -> T -> T; o_mul : T -> T -> T; o_div : T -> T -> T; o_neg : T -> T;
  o_zero : T; o_one : T;
  o_invsqrt : T -> T        (* float32(1 / math.Sqrt(float64(x))) *)
}.
Arguments o_add {T}. Arguments o_sub {T}. Arguments o_mul {T}. Arguments o_div {T}. Arguments o_neg {T}.
Arguments o_zero {T}. Arguments o_one {T}. Arguments o_invsqrt {T}.

Definition neg32 := fneg F32.
Definition G32 : genops f32 :=
  mkGenOps f32 a32 s32 m32 d32 neg32 k0 k1
           (fun r2 => f64_to_f32 (fdiv F64 (of_Z F64 1) (fsqrt F64 (f32_to_f64 r2)))).

Section Affine.
Context {T : Type} (O : genops T).
Definition at_gen (a : list T) (i : nat) : T := nth i a (o_zero O).
Definition concat2_gen (a b : list T) : list T :=
  let add := o_add O in let mul := o_mul O in let at_ := at_gen in
  [ add (mul (at_ a 0) (at_ b 0)) (mul (at_ a 3) (at_ b 1));
    add (mul (at_ a 1) (at_ b 0)) (mul (at_ a 4) (at_ b 1));
    add (add (mul (at_ a 2) (at_ b 0)) (mul (at_ a 5) (at_ b 1))) (at_ b 2);
    add (mul (at_ a 0) (at_ b 3)) (mul (at_ a 3) (at_ b 4));
    add (mul (at_ a 1) (at_ b 3)) (mul (at_ a 4) (at_ b 4));
    add (add (mul (at_ a 2) (at_ b 3)) (mul (at_ a 5) (at_ b 4))) (at_ b 5) ]%nat.

Definition aff_id_gen : list T := [o_one O; o_zero O; o_zero O; o_zero O; o_one O; o_zero O].

(* Concat(affs...) : one argument is returned as is *)
Definition concat_gen (l : list (list T)) : list T :=
  match l with
  | [] => aff_id_gen
  | [a] => a
  | _ => fold_left concat2_gen l aff_id_gen
  end.

Definition mul_aff3_gen (x y : T) (a : list T) : T * T :=
  let add := o_add O in let mul := o_mul O in let at_ := at_gen in
  (add (add (mul x (at_ a 0)) (mul y (at_ a 1))) (at_ a 2),
   add (add (mul x (at_ a 3)) (mul y (at_ a 4))) (at_ a 5))%nat.
End Affine.

Definition at_ (a : aff3) (i : nat) : f32 := at_gen G32 a i.
Definition concat2 : aff3 -> aff3 -> aff3 := concat2_gen G32.
Definition concat : list aff3 -> aff3 := concat_gen G32.
Definition mul_aff3 : f32 -> f32 -> aff3 -> f32 * f32 := mul_aff3_gen G32.

Inductive generr := GTooManyStops | GCSelUsed.

Record genstop := mkGS { gs_offset : f32; gs_color : rgba }.   (* colour already reduced to 8-bit premultiplied RGBA *)

(* SetGradient *)
Definition set_gradient (csel nsel : Z) (shape spread : Z) (stops : list genstop) (tr : aff3)
  : generr + list call :=
  let cbase := 10 in let nbase := 10 in
  if (58 <? Z.of_nat (length stops)) then inl GTooManyStops
  else
    let ns := Z.of_nat (length stops) in
    let x := csel mod 256 in let y := (csel + 64) mod 256 in
    if ((cbase <=? x) && (x <? cbase + ns)) || ((cbase <=? y) && (y <? cbase + ns)) then inl GCSelUsed
    else
      inr ([ CSetCReg 0 false (CRGBA (encode_gradient cbase nbase shape spread ns));
             CSetCSel cbase; CSetNSel nbase ]
           ++ map (fun '(i, v) => CSetNReg (6 - Z.of_nat i) false v) (combine (seq 0 6) tr)
           ++ flat_map (fun s => [CSetCReg 0 true (CRGBA (gs_color s)); CSetNReg 0 true (gs_offset s)]) stops
           ++ [CSetCSel csel; CSetNSel nsel]).

(* the three geometry helpers, written once over the abstract numeric type *)
Section Matrices.
Context {T : Type} (O : genops T).
Definition linear_matrix_gen (x1 y1 x2 y2 : T) : list T :=
  let dx := o_sub O x2 x1 in let dy := o_sub O y2 y1 in
  let d := o_add O (o_mul O dx dx) (o_mul O dy dy) in
  let ma := o_div O dx d in let mb := o_div O dy d in
  [ma; mb; o_sub O (o_mul O (o_neg O ma) x1) (o_mul O mb y1); o_zero O; o_zero O; o_zero O].

Definition circular_matrix_gen (cx cy rx ry : T) : list T :=
  let r2 := o_add O (o_mul O rx rx) (o_mul O ry ry) in
  let invr := o_invsqrt O r2 in
  [invr; o_zero O; o_mul O (o_neg O cx) invr; o_zero O; invr; o_mul O (o_neg O cy) invr].

Definition elliptical_matrix_gen (cx cy rx ry sx sy : T) : list T :=
  let inv := o_div O (o_one O) (o_sub O (o_mul O rx sy) (o_mul O sx ry)) in
  let ma := o_mul O sy inv in
  let mb := o_mul O (o_neg O sx) inv in
  let mc := o_sub O (o_neg O (o_mul O ma cx)) (o_mul O mb cy) in
  let md := o_mul O (o_neg O ry) inv in
  let me := o_mul O rx inv in
  let mf := o_sub O (o_neg O (o_mul O md cx)) (o_mul O me cy) in
  [ma; mb; mc; md; me; mf].
End Matrices.

Definition linear_matrix := linear_matrix_gen G32.
Definition circular_matrix := circular_matrix_gen G32.
Definition elliptical_matrix := elliptical_matrix_gen G32.

(* Generator.v — model of generate/generate.go: affine helpers and the gradient helpers.
   The helpers read the destination's selectors back; they are modelled as functions of those
   read-backs returning either an error or the list of Destination calls they make. *)
From Coq Require Import ZArith Bool List.
From IVG Require Import SF NumCodec Color Calls.
Import ListNotations.
Local Open Scope Z_scope.

Definition aff3 := list f32.   (* 6 entries, row major *)
Definition a32 := fadd F32. Definition s32 := fsub F32. Definition m32 := fmul F32. Definition d32 := fdiv F32.
Definition k0 : f32 := 0. Definition k1 : f32 := of_Z F32 1.

Definition aff_id : aff3 := [k1; k0; k0; k0; k1; k0].
Definition translate (x y : f32) : aff3 := [k1; k0; x; k0; k1; y].
Definition scale2 (sx sy : f32) : aff3 := [sx; k0; k0; k0; sy; k0].

Definition at_ (a : aff3) (i : nat) : f32 := nth i a 0.

Definition concat2 (a b : aff3) : aff3 :=
  [ a32 (m32 (at_ a 0) (at_ b 0)) (m32 (at_ a 3) (at_ b 1));
    a32 (m32 (at_ a 1) (at_ b 0)) (m32 (at_ a 4) (at_ b 1));
    a32 (a32 (m32 (at_ a 2) (at_ b 0)) (m32 (at_ a 5) (at_ b 1))) (at_ b 2);
    a32 (m32 (at_ a 0) (at_ b 3)) (m32 (at_ a 3) (at_ b 4));
    a32 (m32 (at_ a 1) (at_ b 3)) (m32 (at_ a 4) (at_ b 4));
    a32 (a32 (m32 (at_ a 2) (at_ b 3)) (m32 (at_ a 5) (at_ b 4))) (at_ b 5) ].

(* Concat(affs...) : one argument is returned as is *)
Definition concat (l : list aff3) : aff3 :=
  match l with
  | [] => aff_id
  | [a] => a
  | _ => fold_left concat2 l aff_id
  end.

Definition mul_aff3 (x y : f32) (a : aff3) : f32 * f32 :=
  (a32 (a32 (m32 x (at_ a 0)) (m32 y (at_ a 1))) (at_ a 2),
   a32 (a32 (m32 x (at_ a 3)) (m32 y (at_ a 4))) (at_ a 5)).

Inductive generr := GTooManyStops | GCSelUsed.

Record genstop := mkGS { gs_offset : f32; gs_color : rgba }.   (* colour already reduced to 8-bit premultiplied RGBA *)

(* SetGradient *)
Definition set_gradient (csel nsel : Z) (shape spread : Z) (stops : list genstop) (tr : aff3)
  : generr + list call :=
  let cbase := 10 in let nbase := 10 in
  if (58 <? Z.of_nat (length stops)) then inl GTooManyStops
  else
    let ns := Z.of_nat (length stops) in
    let x := csel mod 256 in let y := (csel + 64) mod 256 in
    if ((cbase <=? x) && (x <? cbase + ns)) || ((cbase <=? y) && (y <? cbase + ns)) then inl GCSelUsed
    else
      inr ([ CSetCReg 0 false (CRGBA (encode_gradient cbase nbase shape spread ns));
             CSetCSel cbase; CSetNSel nbase ]
           ++ map (fun '(i, v) => CSetNReg (6 - Z.of_nat i) false v) (combine (seq 0 6) tr)
           ++ flat_map (fun s => [CSetCReg 0 true (CRGBA (gs_color s)); CSetNReg 0 true (gs_offset s)]) stops
           ++ [CSetCSel csel; CSetNSel nsel]).

Definition neg32 := fneg F32.

Definition linear_matrix (x1 y1 x2 y2 : f32) : aff3 :=
  let dx := s32 x2 x1 in let dy := s32 y2 y1 in
  let d := a32 (m32 dx dx) (m32 dy dy) in
  let ma := d32 dx d in let mb := d32 dy d in
  [ma; mb; s32 (m32 (neg32 ma) x1) (m32 mb y1); k0; k0; k0].

Definition circular_matrix (cx cy rx ry : f32) : aff3 :=
  let r2 := a32 (m32 rx rx) (m32 ry ry) in
  let invr := f64_to_f32 (fdiv F64 (of_Z F64 1) (fsqrt F64 (f32_to_f64 r2))) in
  [invr; k0; m32 (neg32 cx) invr; k0; invr; m32 (neg32 cy) invr].

Definition elliptical_matrix (cx cy rx ry sx sy : f32) : aff3 :=
  let inv := d32 k1 (s32 (m32 rx sy) (m32 sx ry)) in
  let ma := m32 sy inv in
  let mb := m32 (neg32 sx) inv in
  let mc := s32 (neg32 (m32 ma cx)) (m32 mb cy) in
  let md := m32 (neg32 ry) inv in
  let me := m32 rx inv in
  let mf := s32 (neg32 (m32 md cx)) (m32 me cy) in
  [ma; mb; mc; md; me; mf].

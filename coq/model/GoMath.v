(* GoMath.v — port of Go's pure-Go math.Sin, math.Cos, math.Acos (Cephes kernels, as compiled on
   amd64: no fused multiply-add) to SF float64 operations.  Arguments of 2^29 and above go through the port of trigReduce (Payne-Hanek).
   Agreement with the Go toolchain's math package is checked by the correspondence run, not proved. *)
From Coq Require Import ZArith Bool List.
From IVG Require Import SF.
Import ListNotations.
Local Open Scope Z_scope.

Definition k_pi : Z := 4614256656552045848. (* 3.141592653589793 *)
Definition k_pi2 : Z := 4609753056924675352. (* 1.5707963267948966 *)
Definition k_pi4 : Z := 4605249457297304856. (* 0.7853981633974483 *)
Definition k_twopi : Z := 4618760256179416344. (* 6.283185307179586 *)
Definition k_fourOverPi : Z := 4608412980311869571. (* 1.2732395447351628 *)
Definition k_segAngle : Z := 4609757560524302723. (* 1.5717963267948967 *)
Definition k_PI4A : Z := 4605249456957292544. (* 0.7853981256484985 *)
Definition k_PI4B : Z := 4495793288086814720. (* 3.774894707930798e-08 *)
Definition k_PI4C : Z := 4388835458085048688. (* 2.6951514290790595e-15 *)
Definition k_P0 : Z := 13829429103926125972. (* -0.8750608600031904 *)
Definition k_P1 : Z := 13848613196940411002. (* -16.157537187333652 *)
Definition k_P2 : Z := 13858350711815275123. (* -75.00855792314705 *)
Definition k_P3 : Z := 13861719834326579749. (* -122.88666844901361 *)
Definition k_P4 : Z := 13857635882265799822. (* -64.85021904942025 *)
Definition k_Q0 : Z := 4627690253511319612. (* 24.858464901423062 *)
Definition k_Q1 : Z := 4640010388282866213. (* 165.02700983169885 *)
Definition k_Q2 : Z := 4646322940342877755. (* 432.88106049129027 *)
Definition k_Q3 : Z := 4647246694406179306. (* 485.3903996359137 *)
Definition k_Q4 : Z := 4641049159275471596. (* 194.5506571482614 *)
Definition k_Morebits : Z := 4364452196894661639. (* 6.123233995736766e-17 *)
Definition k_Tan3pio8 : Z := 4612618744449965542. (* 2.414213562373095 *)
Definition k_c066 : Z := 4604119971053405471. (* 0.66 *)
Definition k_c07 : Z := 4604480259023595110. (* 0.7 *)
Definition k_half : Z := 4602678819172646912. (* 0.5 *)
Definition k_one : Z := 4607182418800017408. (* 1.0 *)
Definition k_three : Z := 4613937818241073152. (* 3.0 *)
Definition k_eight : Z := 4620693217682128896. (* 8.0 *)
Definition k_two : Z := 4611686018427387904. (* 2.0 *)
Definition k_sin : list Z := [4460209587652500685; 13716528389658582877; 4523617212962785441; 13774824197404483331; 4575957461383575504; 13818544856648471880].
Definition k_cos : list Z := [13666448263388469915; 4477121864728985349; 13732177093698800582; 4537941361668146421; 13787419979223748497; 4586165620538955083].
Definition k_halfMorebits : Z := 4359948597267291143.

Definition dadd := fadd F64. Definition dsub := fsub F64. Definition dmul := fmul F64.
Definition ddiv := fdiv F64. Definition dneg := fneg F64. Definition dabs := fabs F64.

(* note: ((((((c0*zz)+c1)*zz+c2)*zz+c3)*zz+c4)*zz+c5) *)
Definition poly (c : list Z) (zz : Z) : Z :=
  let k (i : nat) := nth i c 0 in
  let p := dmul (k 0%nat) zz in
  let p := dadd p (k 1%nat) in
  let p := dadd (dmul p zz) (k 2%nat) in
  let p := dadd (dmul p zz) (k 3%nat) in
  let p := dadd (dmul p zz) (k 4%nat) in
  dadd (dmul p zz) (k 5%nat).

Definition k_reduce : Z := of_Z F64 536870912. (* 1 << 29 *)

(* the common range reduction: returns (j mod 8, z) for 0 <= x < 2^29 *)
Definition reduce (x : Z) : Z * Z :=
  let j0 := match ftrunc F64 (dmul x k_fourOverPi) with Some i => i | None => 0 end in
  let j1 := if Z.odd j0 then j0 + 1 else j0 in
  let y := of_Z F64 j1 in
  let z := dsub (dsub (dsub x (dmul y k_PI4A)) (dmul y k_PI4B)) (dmul y k_PI4C) in
  (j1 mod 8, z).


(* trigReduce (Payne-Hanek) for x >= 2^29, finite: pure 64-bit integer arithmetic on the bits of 4/pi *)
Definition mPi4 : list Z :=
  [0x0000000000000001; 0x45f306dc9c882a53; 0xf84eafa3ea69bb81; 0xb6c52b3278872083; 0xfca2c757bd778ac3;
   0x6e48dc74849ba5c0; 0x0c925dd413a32439; 0xfc3bd63962534e7d; 0xd1046bea5d768909; 0xd338e04d68befc82;
   0x7323ac7306a673e9; 0x3908bf177bf25076; 0x3ff12fffbc0b301f; 0xde5e2316b414da3e; 0xda6cfd9e4f96136e;
   0x9e8c7ecd3cbfd45a; 0xea4f758fd7cbe2f6; 0x7a0e73ef14a525d4; 0xd7f6bf623f1aba10; 0xac06608df8f6d757].
Definition w64 : Z := 18446744073709551616.
Definition word (i : Z) : Z := nth (Z.to_nat i) mPi4 0.

Definition trig_reduce (x : Z) : Z * Z :=
  let ix0 := x in
  let ex := (Z.shiftr ix0 52) mod 2048 - 1023 - 52 in
  let ix := (ix0 mod 4503599627370496) + 4503599627370496 in
  let digit := (ex + 61) / 64 in
  let bs := (ex + 61) mod 64 in
  let win (k : Z) := ((Z.shiftl (word (digit + k)) bs) mod w64) + Z.shiftr (word (digit + k + 1)) (64 - bs) in
  let z0 := win 0 in let z1 := win 1 in let z2 := win 2 in
  let z2hi := (z2 * ix) / w64 in
  let z1hi := (z1 * ix) / w64 in
  let z1lo := (z1 * ix) mod w64 in
  let z0lo := (z0 * ix) mod w64 in
  let lo := (z1lo + z2hi) mod w64 in
  let c := (z1lo + z2hi) / w64 in
  let hi := (z0lo + z1hi + c) mod w64 in
  let j := Z.shiftr hi 61 in
  let hi1 := ((hi * 8) mod w64) + Z.shiftr lo 61 in
  let lz := if hi1 =? 0 then 64 else 63 - Z.log2 hi1 in
  let e := 1023 - (lz + 1) in
  let hi2 := ((Z.shiftl hi1 (lz + 1)) mod w64) + Z.shiftr lo (64 - (lz + 1)) in
  let hi2 := hi2 mod w64 in
  let hi3 := Z.shiftr hi2 12 in
  let z := Z.lor hi3 (Z.shiftl e 52) in
  let '(j, z) := if Z.odd j then ((j + 1) mod 8, dsub z k_one) else (j, z) in
  (j, dmul z k_pi4).

Definition sin_kernel (z : Z) : Z :=
  let zz := dmul z z in dadd z (dmul (dmul z zz) (poly k_sin zz)).
Definition cos_kernel (z : Z) : Z :=
  let zz := dmul z z in
  dadd (dsub k_one (dmul k_half zz)) (dmul (dmul zz zz) (poly k_cos zz)).

Definition gosin (x : Z) : Z :=
  match decode F64 x with
  | FNaN => x
  | FInf _ => nan_bits F64
  | FFin s m _ =>
      if m =? 0 then x
      else
        let ax := dabs x in
          let '(j, z) := if fge F64 ax k_reduce then trig_reduce ax else reduce ax in
          let '(sign, j) := if 3 <? j then (negb s, j - 4) else (s, j) in
          let y := if (j =? 1) || (j =? 2) then cos_kernel z else sin_kernel z in
          if sign then dneg y else y
  end.

Definition gocos (x : Z) : Z :=
  match decode F64 x with
  | FNaN | FInf _ => nan_bits F64
  | FFin _ _ _ =>
      let ax := dabs x in
        let '(j, z) := if fge F64 ax k_reduce then trig_reduce ax else reduce ax in
        let '(sign, j) := if 3 <? j then (true, j - 4) else (false, j) in
        let sign := if 1 <? j then negb sign else sign in
        let y := if (j =? 1) || (j =? 2) then sin_kernel z else cos_kernel z in
        if sign then dneg y else y
  end.

Definition xatan (x : Z) : Z :=
  let z := dmul x x in
  let num := dadd (dmul (dadd (dmul (dadd (dmul (dadd (dmul k_P0 z) k_P1) z) k_P2) z) k_P3) z) k_P4 in
  let den := dadd (dmul (dadd (dmul (dadd (dmul (dadd (dmul (dadd z k_Q0) z) k_Q1) z) k_Q2) z) k_Q3) z) k_Q4 in
  let z := ddiv (dmul z num) den in
  dadd (dmul x z) x.

Definition satan (x : Z) : Z :=
  if fle F64 x k_c066 then xatan x
  else if fgt F64 x k_Tan3pio8 then dadd (dsub k_pi2 (xatan (ddiv k_one x))) k_Morebits
  else dadd (dadd k_pi4 (xatan (ddiv (dsub x k_one) (dadd x k_one)))) k_halfMorebits.

Definition goasin (x : Z) : Z :=
  if feq F64 x 0 then x
  else
    let s := flt F64 x 0 in
    let ax := if s then dneg x else x in
    if fgt F64 ax k_one then nan_bits F64
    else if is_nan F64 x then nan_bits F64
    else
      let temp := fsqrt F64 (dsub k_one (dmul ax ax)) in
      let temp := if fgt F64 ax k_c07 then dsub k_pi2 (satan (ddiv temp ax)) else satan (ddiv ax temp) in
      if s then dneg temp else temp.

Definition goacos (x : Z) : Z := dsub k_pi2 (goasin x).

(* GoSem.v — the meaning of the Go primitives that the source translator (harness/gosrc.go) emits.
   Hand-written, small, executable.  Integers are Z; a value of a Go integer type of width w is kept
   in its range by wrapu / wraps after every operation that can leave it; floats are IEEE bit
   patterns (SF.v); structs are records. *)
From Coq Require Import ZArith Bool List.
From IVG Require Import SF NumCodec Color.
Import ListNotations.
Local Open Scope Z_scope.

Definition wrapu (w x : Z) : Z := x mod 2 ^ w.
Definition wraps (w x : Z) : Z := (x + 2 ^ (w - 1)) mod 2 ^ w - 2 ^ (w - 1).

(* float -> signed integer conversion as compiled for amd64 (CVTTSS2SL/SQ, CVTTSD2SL/SQ): truncation
   toward zero; the "integer indefinite" value -2^(w-1) when the result does not fit or the operand
   is a NaN *)
Definition f2int (w : Z) (f : fmt) (x : Z) : Z :=
  match ftrunc f x with
  | Some i => if (- 2 ^ (w - 1) <=? i) && (i <? 2 ^ (w - 1)) then i else - 2 ^ (w - 1)
  | None => - 2 ^ (w - 1)
  end.

(* ivg.Color as the struct it is in Go: a type tag and four bytes *)
Record gcolor := mkGColor { gtyp : Z; gdata : rgba }.

(* ivg.ViewBox *)
Record gviewbox := mkGVB { vminx : Z; vminy : Z; vmaxx : Z; vmaxy : Z }.

(* a Go panic is not represented by translated code (C02's model and the correspondence run decide
   panics); the marker keeps the place visible *)
Definition go_panic_value {A : Type} (x : A) : A := x.

(* abstraction: the Go struct as the model's colour.  ColorTypeRGBA = 0, PaletteIndex = 1, CReg = 2, Blend = 3 *)
Definition abs_color (c : gcolor) : color :=
  let d := gdata c in
  if gtyp c =? 0 then CRGBA d
  else if gtyp c =? 1 then CPal (cr d)
  else if gtyp c =? 2 then CCReg (cr d)
  else CBlend (cr d) (cg d) (cb d).

(* a[i] = x on a fixed-size array (kept as a list); i is in range in the translated code (a Go panic otherwise) *)
Definition go_list_set {A : Type} (l : list A) (i : Z) (x : A) : list A :=
  firstn (Z.to_nat i) l ++ x :: skipn (S (Z.to_nat i)) l.

(* Gradient.v — model of render/gradient.go (Spread.Clamp, ranges, Gradient.At) and of the
   pixel-to-gradient matrix built in Renderer.initGradient.  Float64 arithmetic via SF. *)
From Coq Require Import ZArith Bool List.
From IVG Require Import SF NumCodec Color Calls Render.
Import ListNotations.
Local Open Scope Z_scope.

Definition f64 := Z.
Definition d_one : f64 := of_Z F64 1.
Definition d_half : f64 := fdiv F64 (of_Z F64 1) (of_Z F64 2).
Definition d_zero : f64 := 0.
Definition d_mone : f64 := of_Z F64 (-1).

(* Pix2Grad as computed in initGradient *)
Definition pix2grad (g : gradient f32) : list f64 :=
  let invzsx := fdiv F64 d_one (f32_to_f64 (g_scx g)) in
  let invzsy := fdiv F64 d_one (f32_to_f64 (g_scy g)) in
  let zbx := f32_to_f64 (g_bx g) in
  let zby := f32_to_f64 (g_by g) in
  let r (i : nat) := f32_to_f64 (nth i (g_raw g) 0) in
  let a := r 0%nat in let b := r 1%nat in let c := r 2%nat in
  let d := r 3%nat in let e := r 4%nat in let f := r 5%nat in
  [ fmul F64 a invzsx; fmul F64 b invzsy;
    fsub F64 (fsub F64 c (fmul F64 a zbx)) (fmul F64 b zby);
    fmul F64 d invzsx; fmul F64 e invzsy;
    fsub F64 (fsub F64 f (fmul F64 d zbx)) (fmul F64 e zby) ].

(* int(x)&1 for a float64 (amd64: out-of-range and NaN convert to the minimum int64, which is even) *)
Definition odd_int (x : f64) : bool :=
  match ftrunc F64 x with
  | Some i => if (Z.abs i <? 2 ^ 63) then Z.odd i else false
  | None => false
  end.

Definition frac (x : f64) : f64 := fsub F64 x (ffloor F64 x).

(* Spread.Clamp; spread: 0 none, 1 pad, 2 reflect, 3 repeat.  Written once over an abstract numeric
   type: instantiated with float64 (compared bit-for-bit with gradient.go) and with R (proofs/ClampR.v). *)
Record clampops (T : Type) := mkClampOps {
  k_ge0 : T -> bool; k_le1 : T -> bool;
  k_zero : T; k_one : T; k_mone : T;
  k_neg : T -> T; k_sub : T -> T -> T;
  k_frac : T -> T;          (* x - floor x *)
  k_odd : T -> bool         (* int(x) & 1 for x >= 0 *)
}.
Arguments k_ge0 {T}. Arguments k_le1 {T}. Arguments k_zero {T}. Arguments k_one {T}. Arguments k_mone {T}.
Arguments k_neg {T}. Arguments k_sub {T}. Arguments k_frac {T}. Arguments k_odd {T}.

Definition clamp_gen {T} (O : clampops T) (spread : Z) (x : T) : T :=
  if k_ge0 O x then
    if k_le1 O x then x
    else if spread =? 1 then k_one O
    else if spread =? 2 then (if k_odd O x then k_sub O (k_one O) (k_frac O x) else k_frac O x)
    else if spread =? 3 then k_frac O x
    else k_mone O
  else
    if spread =? 1 then k_zero O
    else if spread =? 2 then
      let y := k_neg O x in
      if k_odd O y then k_sub O (k_one O) (k_frac O y) else k_frac O y
    else if spread =? 3 then k_frac O x
    else k_mone O.

Definition F64clamp : clampops f64 :=
  mkClampOps f64 (fun x => fge F64 x d_zero) (fun x => fle F64 x d_one) d_zero d_one d_mone
             (fneg F64) (fsub F64) frac odd_int.

Definition clamp (spread : Z) (x : f64) : f64 := clamp_gen F64clamp spread x.

Record rgba64 := mkC64 { c_r : Z; c_g : Z; c_b : Z; c_a : Z }.
Definition c64_of (c : rgba) : rgba64 := mkC64 (cr c * 257) (cg c * 257) (cb c * 257) (ca c * 257).
Definition c64_zero : rgba64 := mkC64 0 0 0 0.

(* uint16(f) for the in-range values that occur *)
Definition to_u16 (x : f64) : Z :=
  match ftrunc F64 x with Some i => i mod 65536 | None => 0 end.

(* the core of Gradient.At — locating the range of an offset and interpolating in premultiplied space —
   written once over an abstract numeric type: float64 instance below (compared with gradient.go), R instance
   in proofs/AtR.v *)
Record atops (T : Type) := mkAtOps {
  t_le : T -> T -> bool; t_lt : T -> T -> bool; t_ge0 : T -> bool;
  t_add : T -> T -> T; t_sub : T -> T -> T; t_mul : T -> T -> T; t_div : T -> T -> T;
  t_one : T; t_ofZ : Z -> T; t_u16 : T -> Z
}.
Arguments t_le {T}. Arguments t_lt {T}. Arguments t_ge0 {T}. Arguments t_add {T}. Arguments t_sub {T}.
Arguments t_mul {T}. Arguments t_div {T}. Arguments t_one {T}. Arguments t_ofZ {T}. Arguments t_u16 {T}.

Definition interp_gen {T} (O : atops T) (o0 o1 offset : T) (c0 c1 : rgba64) : rgba64 :=
  let w := t_sub O o1 o0 in
  let t := t_div O (t_sub O offset o0) w in
  let s := t_sub O (t_one O) t in
  let ch (a b : Z) := t_u16 O (t_add O (t_mul O s (t_ofZ O a)) (t_mul O t (t_ofZ O b))) in
  mkC64 (ch (c_r c0) (c_r c1)) (ch (c_g c0) (c_g c1)) (ch (c_b c0) (c_b c1)) (ch (c_a c0) (c_a c1)).

Fixpoint search_gen {T} (O : atops T) (stops : list (T * rgba)) (offset : T) (last : rgba64) : rgba64 :=
  match stops with
  | (o0, col0) :: ((((o1, col1) :: _)) as rest) =>
      if t_le O o0 offset && t_le O offset o1 then interp_gen O o0 o1 offset (c64_of col0) (c64_of col1)
      else search_gen O rest offset last
  | _ => last
  end.

Definition at_core_gen {T} (O : atops T) (stops : list (T * rgba)) (offset : T) : rgba64 :=
  if negb (t_ge0 O offset) then c64_zero
  else
    match stops with
    | [] => c64_zero
    | (o0, col0) :: _ =>
        let first := c64_of col0 in
        let last := c64_of (snd (List.last stops (o0, col0))) in
        if t_lt O offset o0 then first else search_gen O stops offset last
    end.

Definition F64at : atops f64 :=
  mkAtOps f64 (fle F64) (flt F64) (fun x => fge F64 x d_zero) (fadd F64) (fsub F64) (fmul F64) (fdiv F64)
          d_one (of_Z F64) to_u16.

Definition stops64 (g : gradient f32) : list (f64 * rgba) := map (fun s => (f32_to_f64 (gs_off s), gs_col s)) (g_stops g).

(* Gradient.At(x, y) for a gradient with at least two stops *)
Definition grad_at (g : gradient f32) (x y : Z) : rgba64 :=
  let m := pix2grad g in
  let e (i : nat) := nth i m 0 in
  let px := fadd F64 (of_Z F64 x) d_half in
  let py := fadd F64 (of_Z F64 y) d_half in
  let gx := fadd F64 (fadd F64 (fmul F64 (e 0%nat) px) (fmul F64 (e 1%nat) py)) (e 2%nat) in
  let offset :=
    if g_shape g =? 0 then clamp (g_spread g) gx
    else
      let gy := fadd F64 (fadd F64 (fmul F64 (e 3%nat) px) (fmul F64 (e 4%nat) py)) (e 5%nat) in
      clamp (g_spread g) (fsqrt F64 (fadd F64 (fmul F64 gx gx) (fmul F64 gy gy))) in
  at_core_gen F64at (stops64 g) offset.

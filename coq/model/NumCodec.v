(* NumCodec.v — model of encode/buffer.go (number part), decode/buffer.go
   (number part) and Encoder.quantize.  Executable definitions only.

   byte = Z in [0,256); float32 = its bit pattern, Z in [0,2^32).
   Packing is written with * / mod (never shifts) so that lia closes goals. *)

From Coq Require Import ZArith Bool List.
From IVG Require Import SF.
Import ListNotations.
Local Open Scope Z_scope.

Definition byte := Z.
Definition f32 := Z.

Definition le16 (v : Z) : list byte := [v mod 256; v / 256].
Definition le32 (v : Z) : list byte :=
  [v mod 256; (v / 256) mod 256; (v / 65536) mod 256; v / 16777216].

(* encode/buffer.go: encodeNatural(u uint32) *)
Definition enc_natural (u : Z) : list byte :=
  if u <? 128 then [2 * u]
  else if u <? 16384 then le16 (4 * u + 1)
  else le32 ((4 * u + 3) mod 4294967296).

(* decode/buffer.go: decodeNatural; None models n == 0 *)
Definition dec_natural (b : list byte) : option (Z * nat) :=
  match b with
  | [] => None
  | x :: r =>
      if x mod 2 =? 0 then Some (x / 2, 1%nat)
      else if (x / 2) mod 2 =? 0 then
        match r with
        | y :: _ => Some ((x + 256 * y) / 4, 2%nat)
        | [] => None
        end
      else
        match r with
        | y :: z :: w :: _ => Some ((x + 256 * y + 65536 * z + 16777216 * w) / 4, 4%nat)
        | _ => None
        end
  end.

(* encode4ByteReal *)
Definition round4 (u : Z) : Z :=
  let v := u mod 8388608 in
  let v' := if v <? 8388606 then v + 2 else v in
  let u' := (u / 8388608) * 8388608 + v' in
  (u' / 4) * 4 + 3.
Definition enc_real4 (f : f32) : list byte := le32 (round4 f).

Definition in_range (lo hi : Z) (o : option Z) : option Z :=
  match o with
  | Some i => if (lo <=? i) && (i <? hi) then Some i else None
  | None => None
  end.

(* encodeReal: the guard  float32(uint32(f)) == f && u < 1<<14  holds exactly
   when f's value is an integer in [0, 2^14)  (-0 counts as 0) *)
Definition real_short (f : f32) : option Z := in_range 0 16384 (exact_int F32 f).

Definition enc_short (u : Z) : list byte :=
  if u <? 128 then [2 * u] else le16 (4 * u + 1).

Definition enc_real (f : f32) : list byte :=
  match real_short f with
  | Some u => enc_short u
  | None => enc_real4 f
  end.

(* encodeCoordinate *)
Definition coord_short1 (f : f32) : option Z := in_range (-64) 64 (exact_int F32 f).
Definition coord_short2 (f : f32) : option Z := in_range (-8192) 8192 (exact_int_scaled F32 6 f).

Definition enc_coordinate (f : f32) : list byte :=
  match coord_short1 f with
  | Some i => [2 * (i + 64)]
  | None =>
      match coord_short2 f with
      | Some i => le16 (4 * (i + 8192) + 1)
      | None => enc_real4 f
      end
  end.

(* encodeZeroToOne:  u := uint32(f*15120); float32(u) == f*15120 && u < 15120 *)
Definition c15120 : f32 := of_Z F32 15120.
Definition zto_short (f : f32) : option Z :=
  in_range 0 15120 (exact_int F32 (fmul F32 f c15120)).

Definition enc_zero_to_one (f : f32) : list byte :=
  match zto_short f with
  | Some u => if u mod 126 =? 0 then [2 * (u / 126)] else le16 (4 * u + 1)
  | None => enc_real4 f
  end.

(* encodeAngle: g := float64(f); g -= math.Floor(g); encodeZeroToOne(float32(g)) *)
Definition angle_norm (f : f32) : f32 :=
  let g := f32_to_f64 f in
  f64_to_f32 (fsub F64 g (ffloor F64 g)).
Definition enc_angle (f : f32) : list byte := enc_zero_to_one (angle_norm f).

(* decoders *)
Definition clear2 (u : Z) : Z := (u * 4) mod 4294967296.

Definition dec_real (b : list byte) : option (f32 * nat) :=
  match dec_natural b with
  | None => None
  | Some (u, 4%nat) => Some (clear2 u, 4%nat)
  | Some (u, n) => Some (of_Z F32 u, n)
  end.

Definition c64 : f32 := of_Z F32 64.
Definition dec_coordinate (b : list byte) : option (f32 * nat) :=
  match dec_natural b with
  | None => None
  | Some (u, 1%nat) => Some (of_Z F32 (u - 64), 1%nat)
  | Some (u, 2%nat) => Some (fdiv F32 (of_Z F32 (u - 8192)) c64, 2%nat)
  | Some (u, n) => Some (clear2 u, n)
  end.

Definition c120 : f32 := of_Z F32 120.
Definition dec_zero_to_one (b : list byte) : option (f32 * nat) :=
  match dec_natural b with
  | None => None
  | Some (u, 1%nat) => Some (fdiv F32 (of_Z F32 u) c120, 1%nat)
  | Some (u, 2%nat) => Some (fdiv F32 (of_Z F32 u) c15120, 2%nat)
  | Some (u, n) => Some (clear2 u, n)
  end.

(* Encoder.quantize (encode.go).  In low resolution, for -128 <= coord < 128,
   the result is floor(coord*64 + 1/2) / 64.  The code computes the sum in
   float64 (exact for every float32 in range, see DESIGN §7-D7) and the model
   states the decision on the exact value:  k = floor((v*64*2^149 + 2^148) / 2^149)
   where v*2^149 is the integer ival. *)
Definition ival32 (x : f32) : Z :=
  match decode F32 x with
  | FFin s m e => sm s m * 2 ^ (e + 149)
  | _ => 0
  end.

Definition cm128 : f32 := of_Z F32 (-128).
Definition c128 : f32 := of_Z F32 128.

Definition quant_k (f : f32) : Z := (ival32 f * 64 + 2 ^ 148) / 2 ^ 149.

Definition quantize (hires : bool) (f : f32) : f32 :=
  if negb hires && fle F32 cm128 f && flt F32 f c128
  then fdiv F32 (of_Z F32 (quant_k f)) c64
  else f.

(* SetNReg: try real, coordinate, zero-to-one; strictly shorter wins *)
Definition nreg_choice (f : f32) : Z * list byte :=
  let b1 := enc_real f in
  let b2 := enc_coordinate f in
  let b3 := enc_zero_to_one f in
  let best := (168, b1) in
  let best := if (length b2 <? length (snd best))%nat then (176, b2) else best in
  let best := if (length b3 <? length (snd best))%nat then (184, b3) else best in
  best.

(* PathData.v — models of the two SVG path-data front ends:
   generate.Generator.SetPathData (generate/generate.go:220-398) and
   mdicons.ParsePathData / ParsePath (mdicons/parsepathdata.go, parsepath.go).
   Strings are lists of bytes.  Decimal literals are converted by exact rational rounding
   (strconv.ParseFloat and fmt.Fscanf("%f") are assumed correctly rounded). *)
From Coq Require Import ZArith Bool List.
From IVG Require Import SF NumCodec Color Calls Generator.
Import ListNotations.
Local Open Scope Z_scope.

Definition str := list Z.
Definition ch (c : Z) (lo hi : Z) : bool := (lo <=? c) && (c <=? hi).
Definition is_digit (c : Z) : bool := ch c 48 57.
Definition cSP := 32. Definition cCOMMA := 44. Definition cDOT := 46. Definition cPLUS := 43. Definition cMINUS := 45.

(* ---- decimal literals ---- *)
(* digits with at most one dot: returns (integer of all digits, number of digits after the dot, any digit seen) *)
Fixpoint dec_digits (l : str) (acc : Z) (frac : Z) (after_dot : bool) (seen : bool) : Z * Z * bool :=
  match l with
  | [] => (acc, frac, seen)
  | c :: r =>
      if is_digit c then dec_digits r (acc * 10 + (c - 48)) (if after_dot then frac + 1 else frac) after_dot true
      else dec_digits r acc frac true seen   (* the (single) dot *)
  end.

(* the value of a literal [+-]?digits[.digits] | [+-]?.digits as (negative, numerator, denominator); None = syntax error *)
Definition literal (tok : str) : option (bool * Z * Z) :=
  match tok with
  | [] => None
  | c :: r =>
      let '(neg, body) := if c =? cMINUS then (true, r) else if c =? cPLUS then (false, r) else (false, tok) in
      let ok_chars := forallb (fun x => is_digit x || (x =? cDOT)) body in
      let ndots := length (filter (fun x => x =? cDOT) body) in
      let '(n, k, seen) := dec_digits body 0 0 false false in
      if ok_chars && (ndots <=? 1)%nat && seen then Some (neg, n, 10 ^ k) else None
  end.

(* strconv.ParseFloat(tok, 64) then float32(...) *)
Definition lit_f64_f32 (tok : str) : option f32 :=
  match literal tok with
  | None => None
  | Some (neg, n, d) => Some (f64_to_f32 (rne F64 neg n d))
  end.
(* a literal with an optional decimal exponent:  mantissa [eE] [+-]? digits+ ;  a token without e / E is `literal` *)
Definition is_e (c : Z) : bool := (c =? 101) || (c =? 69).
Fixpoint split_e (l : str) (acc : str) : str * option str :=
  match l with
  | [] => (rev acc, None)
  | c :: r => if is_e c then (rev acc, Some r) else split_e r (c :: acc)
  end.
Definition exp_value (l : str) : option Z :=
  let '(neg, body) := match l with
                      | c :: r => if c =? cMINUS then (true, r) else if c =? cPLUS then (false, r) else (false, l)
                      | [] => (false, [])
                      end in
  if forallb is_digit body && negb (length body =? 0)%nat
  then Some (let '(v, _, _) := dec_digits body 0 0 false false in if neg then - v else v)
  else None.
Definition literal_e (tok : str) : option (bool * Z * Z) :=
  match split_e tok [] with
  | (_, None) => literal tok
  | (mant, Some ex) =>
      match literal mant, exp_value ex with
      | Some (neg, n, d), Some x => if 0 <=? x then Some (neg, n * 10 ^ x, d) else Some (neg, n, d * 10 ^ (- x))
      | _, _ => None
      end
  end.

(* strconv.ParseFloat(tok, 32) as used by fmt.Fscanf("%f") into a float32 *)
Definition lit_f32 (tok : str) : option f32 :=
  match literal_e tok with
  | None => None
  | Some (neg, n, d) => Some (rne F32 neg n d)
  end.

(* ================= generate.SetPathData ================= *)

Inductive pd_outcome := PDOk | PDErrVerb (v : Z) | PDErrNumber | PDPanic.

(* scan: one number.  The first byte is taken whatever it is; then digits and at most one dot
   (a dot in first position counts).  Returns the token and the rest after separators. *)
Fixpoint scan_tok (l : str) (ndots : Z) (acc : str) : str * str :=
  match l with
  | [] => (rev acc, [])                 (* the Go code indexes past the end here: handled by the caller *)
  | c :: r =>
      if is_digit c then scan_tok r ndots (c :: acc)
      else if (c =? cDOT) && (ndots =? 0) then scan_tok r 1 (c :: acc)
      else (rev acc, l)
  end.

Fixpoint skip_seps (l : str) : str :=
  match l with
  | c :: r => if (c =? cSP) || (c =? cCOMMA) then skip_seps r else l
  | [] => []
  end.

Inductive scan_res := ScanOk (xs : list f32) (rest : str) | ScanErr | ScanPanic.

Fixpoint scan_nums (n : nat) (d : str) : scan_res :=
  match n with
  | O => ScanOk [] d
  | S n' =>
      match d with
      | [] => ScanPanic                                   (* d[0] on an empty string *)
      | c :: r =>
          let '(tl, rest) := scan_tok r (if c =? cDOT then 1 else 0) [] in
          match rest with
          | [] => ScanPanic                               (* d[j] runs past the end of the string *)
          | _ =>
              match lit_f64_f32 (c :: tl) with
              | None => ScanErr
              | Some x =>
                  match scan_nums n' (skip_seps rest) with
                  | ScanOk xs rest' => ScanOk (x :: xs) rest'
                  | e => e
                  end
              end
          end
      end
  end.

Definition arity_of (v : Z) : option nat :=
  if (v =? 72) || (v =? 104) || (v =? 86) || (v =? 118) then Some 1%nat          (* H h V v *)
  else if (v =? 76) || (v =? 108) || (v =? 77) || (v =? 109) || (v =? 84) || (v =? 116) then Some 2%nat  (* L l M m T t *)
  else if (v =? 81) || (v =? 113) || (v =? 83) || (v =? 115) then Some 4%nat      (* Q q S s *)
  else if (v =? 67) || (v =? 99) then Some 6%nat                                  (* C c *)
  else if (v =? 65) || (v =? 97) then Some 7%nat                                  (* A a *)
  else if (v =? 90) || (v =? 122) then Some 0%nat                                 (* Z z *)
  else None.

Definition is_lower (v : Z) : bool := ch v 97 122.

(* normalize, written over the abstract numeric type (float32 instance below, R instance in proofs/PathR.v) *)
Section Normalize.
Context {T : Type} (O : genops T).
Definition norm_args_gen (tr : option (list T)) (n : nat) (verb : Z) (a : list T) : list T :=
  match tr with
  | None => a
  | Some t =>
      let z := o_zero O in
      let sc := [at_gen O t 0; z; z; z; at_gen O t 4; z] in
      let t' := if is_lower verb then sc else t in
      let g (i : nat) := nth i a z in
      let p (i j : nat) (m : list T) := mul_aff3_gen O (g i) (g j) m in
      match n with
      | 7%nat => let '(x0, y0) := p 0%nat 1%nat sc in let '(x5, y6) := p 5%nat 6%nat t' in
                 [x0; y0; g 2%nat; g 3%nat; g 4%nat; x5; y6]
      | 6%nat => let '(a4, a5) := p 4%nat 5%nat t' in let '(a2, a3) := p 2%nat 3%nat t' in let '(a0, a1) := p 0%nat 1%nat t' in
                 [a0; a1; a2; a3; a4; a5]
      | 4%nat => let '(a2, a3) := p 2%nat 3%nat t' in let '(a0, a1) := p 0%nat 1%nat t' in [a0; a1; a2; a3]
      | 2%nat => let '(a0, a1) := p 0%nat 1%nat t' in [a0; a1]
      | 1%nat =>
          if (verb =? 72) || (verb =? 104) then [fst (mul_aff3_gen O (g 0%nat) z t')]
          else if (verb =? 86) || (verb =? 118) then [snd (mul_aff3_gen O z (g 0%nat) t')]
          else a
      | _ => a
      end
  end.
End Normalize.
Definition norm_args : option aff3 -> nat -> Z -> list f32 -> list f32 := norm_args_gen G32.

Definition c360 : f32 := of_Z F32 360.
Definition nz (x : f32) : bool := negb (feq F32 x 0).

(* the Destination call for one verb ('@' = 64 is the first move) *)
Definition pd_call (verb : Z) (adj : Z) (a : list f32) : list call :=
  let g (i : nat) := nth i a 0 in
  if verb =? 64 then [CStartPath adj (g 0%nat) (g 1%nat)]
  else if verb =? 77 then [CDraw opY [g 0%nat; g 1%nat]]
  else if verb =? 109 then [CDraw opy [g 0%nat; g 1%nat]]
  else if (verb =? 65) || (verb =? 97) then
    [CArc (verb =? 97) (g 0%nat) (g 1%nat) (fdiv F32 (g 2%nat) c360) (nz (g 3%nat)) (nz (g 4%nat)) (g 5%nat) (g 6%nat)]
  else if (verb =? 90) || (verb =? 122) then []
  else [CDraw verb a].

Fixpoint spd_loop (fuel : nat) (tr : option aff3) (adj : Z) (start : bool) (prevn : nat) (prevverb : Z) (d : str)
  : list call * pd_outcome :=
  match fuel with
  | O => ([], PDPanic)
  | S fuel' =>
      if match d with [122] => true | _ => false end then ([CEndPath], PDOk)
      else
        match d with
        | [] => ([], PDPanic)                               (* d[0] on the empty string *)
        | v :: r =>
            let '(n, verb, implicit, bad) :=
              match arity_of v with
              | Some n => (n, v, false, false)
              | None => (prevn, prevverb, true, prevverb =? 0)
              end in
            if bad then ([], PDErrVerb v)
            else
              let prevverb' := if verb =? 77 then 76 else if verb =? 109 then 108 else verb in
              let verb' := if start then 64 else verb in
              let d1 := if implicit then d else r in
              match scan_nums n d1 with
              | ScanPanic => ([], PDPanic)
              | ScanErr => ([], PDErrNumber)
              | ScanOk xs d2 =>
                  let a := norm_args tr n verb' xs in
                  let cs := pd_call verb' adj a in
                  (* a verb that is not handled by the dispatch switch (only possible for '@' replaced verbs: none) *)
                  let '(cs', o) := spd_loop fuel' tr adj false n prevverb' d2 in
                  (cs ++ cs', o)
              end
        end
  end.

Definition set_path_data (tr : option aff3) (d : str) (adj : Z) : list call * pd_outcome :=
  spd_loop (S (length d)) tr adj true 0 0 d.

(* ================= mdicons.ParsePathData / ParsePath ================= *)

Fixpoint md_skip_sp (l : str) : str :=
  match l with c :: r => if c =? cSP then md_skip_sp r else l | [] => [] end.

(* the token fmt.Fscanf("%f") reads (fmt's floatToken for a decimal mantissa): [+-]?digits[.digits]([eEpP][+-]?digits)?
   (a p / P exponent is read into the token and then rejected by ParseFloat) *)
Fixpoint md_digits (l : str) (acc : str) : str * str :=
  match l with
  | c :: r => if is_digit c then md_digits r (c :: acc) else (rev acc, l)
  | [] => (rev acc, [])
  end.

Definition md_mantissa (l : str) : str * str :=
  let '(sg, l1) := match l with c :: r => if (c =? cPLUS) || (c =? cMINUS) then ([c], r) else ([], l) | [] => ([], []) end in
  let '(ip, l2) := md_digits l1 [] in
  match l2 with
  | c :: r => if c =? cDOT then let '(fp, l3) := md_digits r [] in (sg ++ ip ++ [cDOT] ++ fp, l3) else (sg ++ ip, l2)
  | [] => (sg ++ ip, [])
  end.
Definition is_expo (c : Z) : bool := is_e c || (c =? 112) || (c =? 80).
Definition md_token (l : str) : str * str :=
  let '(m, l1) := md_mantissa l in
  match l1 with
  | c :: r =>
      if is_expo c then
        let '(sg, l2) := match r with d :: r' => if (d =? cPLUS) || (d =? cMINUS) then ([d], r') else ([], r) | [] => ([], []) end in
        let '(ds, l3) := md_digits l2 [] in
        (m ++ [c] ++ sg ++ ds, l3)
      else (m, l1)
  | [] => (m, [])
  end.

(* scan: n numbers into args (a failed Fscanf leaves the previous value) *)
Fixpoint md_scan (n : nat) (i : nat) (args : list f32) (l : str) : list f32 * str :=
  match n with
  | O => (args, l)
  | S n' =>
      let l1 := md_skip_sp (md_skip_sp l) in
      let '(tok, l2) := md_token l1 in
      let args' := match lit_f32 tok with
                   | Some x => firstn i args ++ x :: skipn (S i) args
                   | None => args
                   end in
      md_scan n' (S i) args' l2
  end.

Definition md_norm (n : nat) (op : Z) (size ox oy outsize : f32) (relative : bool) (args : list f32) : list f32 :=
  let k := fdiv F32 outsize size in
  let half := fdiv F32 outsize (of_Z F32 2) in
  map (fun '(i, x) =>
    if (i <? n)%nat then
      let x := fmul F32 x k in
      if relative then x
      else
        let x := fsub F32 x half in
        if negb (n =? 1)%nat then fsub F32 x (if Nat.even i then ox else oy)
        else if op =? 72 then fsub F32 x ox
        else if op =? 86 then fsub F32 x oy
        else x
    else x) (combine (seq 0 (length args)) args).

Definition md_arity (op : Z) : option nat :=
  if (op =? 72) || (op =? 104) || (op =? 86) || (op =? 118) then Some 1%nat
  else if (op =? 76) || (op =? 108) || (op =? 77) || (op =? 109) || (op =? 84) || (op =? 116) then Some 2%nat
  else if (op =? 81) || (op =? 113) || (op =? 83) || (op =? 115) then Some 4%nat
  else if (op =? 67) || (op =? 99) then Some 6%nat
  else if (op =? 90) || (op =? 122) then Some 0%nat
  else None.

Definition md_call (op : Z) (started : bool) (adj : Z) (a : list f32) : list call :=
  let g (i : nat) := nth i a 0 in
  if op =? 77 then (if started then [CDraw opY [g 0%nat; g 1%nat]] else [CStartPath adj (g 0%nat) (g 1%nat)])
  else if op =? 109 then [CDraw opy [g 0%nat; g 1%nat]]
  else if (op =? 90) || (op =? 122) then []
  else match md_arity op with
       | Some n => [CDraw op (firstn n a)]
       | None => []
       end.

Definition trim_z (d : str) : str :=
  match rev d with 122 :: r => rev r | _ => d end.

Fixpoint md_loop (fuel : nat) (adj : Z) (size ox oy outsize : f32) (started : bool) (op : Z) (relative : bool)
  (args : list f32) (l : str) : list call * bool :=   (* bool: false = "unknown opcode" error *)
  match fuel with
  | O => ([], true)
  | S fuel' =>
      match l with
      | [] => ([], true)
      | b :: r =>
          if b =? cSP then md_loop fuel' adj size ox oy outsize true op relative args r
          else
            let '(op', rel', l1) :=
              if ch b 65 90 then (b, false, r) else if ch b 97 122 then (b, true, r) else (op, relative, l) in
            match md_arity op' with
            | None => ([], false)
            | Some n =>
                let '(args1, l2) := md_scan n 0 args l1 in
                let args2 := md_norm n op' size ox oy outsize rel' args1 in
                let cs := md_call op' started adj args2 in
                (* progress: a non-letter byte that is not consumed by the scanner would loop forever in Go;
                   inside the dialect every iteration consumes at least one byte *)
                let '(cs', ok) := md_loop fuel' adj size ox oy outsize true op' rel' args2 l2 in
                (cs ++ cs', ok)
            end
      end
  end.

Definition md_parse_path_data (d : str) (adj : Z) (size ox oy outsize : f32) : list call * bool :=
  let d' := trim_z d in
  md_loop (S (length d')) adj size ox oy outsize false 0 false (repeat 0 6) d'.

(* ParsePath: opacity registers, path data, circles *)
Record circle := mkCircle { ci_cx : f32; ci_cy : f32; ci_r : f32 }.

Fixpoint adj_lookup (adjs : list (f32 * Z)) (o : f32) : option Z :=
  match adjs with
  | [] => None
  | (k, v) :: r => if feq F32 k o then Some v else adj_lookup r o
  end.

Definition c255 : f32 := of_Z F32 255.
Definition c2 : f32 := of_Z F32 2.

(* the register for a path opacity: 1 (or none) uses the current colour; otherwise a blend of
   transparent (0x7f) with the first custom palette colour (0x80), one register per distinct opacity *)
Definition md_opacity (adjs : list (f32 * Z)) (opacity : option f32) : list call * Z * list (f32 * Z) :=
  let op := match opacity with Some o => o | None => k1 end in
  if negb (feq F32 op k1) then
    match adj_lookup adjs op with
    | Some a => ([], a, adjs)
    | None =>
        let a := (Z.of_nat (length adjs) + 1) mod 256 in
        let t := match ftrunc F32 (fmul F32 op c255) with Some i => i mod 256 | None => 0 end in
        ([CSetCReg a false (CBlend t 127 128)], a, adjs ++ [(op, a)])
    end
  else ([], 0, adjs).

(* one circle: move to its left-most point, two relative half-turn arcs *)
Definition md_circle (adj : Z) (size ox oy outsize : f32) (need : bool) (c : circle) : list call :=
  let half_off_x := fadd F32 (fdiv F32 outsize c2) ox in
  let half_off_y := fadd F32 (fdiv F32 outsize c2) oy in
  let cx := fsub F32 (fdiv F32 (fmul F32 (ci_cx c) outsize) size) half_off_x in
  let cy := fsub F32 (fdiv F32 (fmul F32 (ci_cy c) outsize) size) half_off_y in
  let r := fdiv F32 (fmul F32 (ci_r c) outsize) size in
  let mv := if need then CStartPath adj (fsub F32 cx r) cy else CDraw opY [fsub F32 cx r; cy] in
  let two_r := fmul F32 c2 r in
  [mv; CArc true r r 0 false true two_r 0; CArc true r r 0 false true (fmul F32 (fneg F32 c2) r) 0].

Definition md_circles (adj : Z) (size ox oy outsize : f32) (need_start : bool) (circles : list circle) : list call :=
  snd (fold_left (fun (st : bool * list call) c => (false, snd st ++ md_circle adj size ox oy outsize (fst st) c))
                 circles (need_start, [])).

Definition md_parse_path (adjs : list (f32 * Z)) (opacity : option f32) (d : str) (size ox oy outsize : f32)
  (circles : list circle) : list call * list (f32 * Z) * bool :=
  let '(pre, adj, adjs') := md_opacity adjs opacity in
  let '(pcalls, ok, need_start) :=
    match d with
    | [] => ([], true, true)
    | _ => let '(cs, ok) := md_parse_path_data d adj size ox oy outsize in (cs, ok, false)
    end in
  if negb ok then (pre ++ pcalls, adjs', false)
  else (pre ++ pcalls ++ md_circles adj size ox oy outsize need_start circles ++ [CEndPath], adjs', true).

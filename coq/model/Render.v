(* Render.v — model of render/render.go (all but the arc subdivision, see Arc.v) and of the
   pen semantics of golang.org/x/image/vector behind raster.Rasterizer.

   The geometry is written once, over an abstract numeric type T with operations
   `numops T`; it is instantiated with float32 bit patterns (N32, what is compared
   bit-for-bit with the Go code) and with the reals (proofs/RenderR.v).  Everything
   discrete (registers, selectors, colours, LOD test, stop validity) is on bits. *)
From Coq Require Import ZArith Bool List.
From IVG Require Import SF NumCodec Color Calls.
Import ListNotations.
Local Open Scope Z_scope.

Record numops (T : Type) := mkNum {
  n_add : T -> T -> T;
  n_sub : T -> T -> T;
  n_mul : T -> T -> T;
  n_div : T -> T -> T;
  n_neg : T -> T;
  n_of32 : f32 -> T;     (* the value of a float32 *)
  n_ofZ : Z -> T;        (* float32(int) *)
}.
Arguments n_add {T}. Arguments n_sub {T}. Arguments n_mul {T}. Arguments n_div {T}.
Arguments n_neg {T}. Arguments n_of32 {T}. Arguments n_ofZ {T}.

Definition N32 : numops f32 :=
  mkNum f32 (fadd F32) (fsub F32) (fmul F32) (fdiv F32) (fneg F32) (fun x => x) (of_Z F32).

(* ---- paints as handed to the rasteriser ---- *)
(* A gradient paint is kept as the register snapshot taken at StartPath: shape, spread, the stops
   (offset as the float32 held in NREG, colour as held in CREG), the six matrix registers, and the
   scale/bias in force.  The pixel-to-gradient matrix is a function of these (Gradient.v). *)
Record gstop := mkStop { gs_off : f32; gs_col : rgba }.
Record gradient (T : Type) := mkGrad {
  g_shape : Z; g_spread : Z;
  g_stops : list gstop;
  g_raw : list f32;                       (* NREG[NBASE-6 .. NBASE-1] *)
  g_scx : T; g_bx : T; g_scy : T; g_by : T
}.
Arguments g_shape {T}. Arguments g_spread {T}. Arguments g_stops {T}. Arguments g_raw {T}.
Arguments g_scx {T}. Arguments g_bx {T}. Arguments g_scy {T}. Arguments g_by {T}.

Inductive paint (T : Type) := PFlat (c : rgba) | PGrad (g : gradient T).
Arguments PFlat {T}. Arguments PGrad {T}.

Inductive rcall (T : Type) :=
| RReset (w h : Z)
| RMoveTo (x y : T)
| RLineTo (x y : T)
| RQuadTo (x1 y1 x y : T)
| RCubeTo (x1 y1 x2 y2 x y : T)
| RClose
| RDraw (x0 y0 x1 y1 : Z) (p : paint T).   (* Draw(r, src, image.Pt(0,0)) *)
Arguments RReset {T}. Arguments RMoveTo {T}. Arguments RLineTo {T}. Arguments RQuadTo {T}.
Arguments RCubeTo {T}. Arguments RClose {T}. Arguments RDraw {T}.

Record rstate (T : Type) := mkR {
  r_x0 : Z; r_y0 : Z; r_w : Z; r_h : Z;          (* target rectangle: origin and size *)
  r_scx : T; r_bx : T; r_scy : T; r_by : T;      (* scale and bias *)
  r_vb : viewbox; r_pal : list rgba;
  r_lod0 : f32; r_lod1 : f32;
  r_csel : Z; r_nsel : Z;
  r_disabled : bool;
  r_pst : Z; r_psx : T; r_psy : T;               (* prevSmoothType / point *)
  r_paint : paint T;
  r_creg : list rgba; r_nreg : list f32;
  z_penx : T; z_peny : T; z_firstx : T; z_firsty : T;   (* the rasteriser's pen and sub-path start *)
  r_log : list (rcall T)                         (* rasteriser calls so far, oldest first *)
}.
Arguments r_x0 {T}. Arguments r_y0 {T}. Arguments r_w {T}. Arguments r_h {T}.
Arguments r_scx {T}. Arguments r_bx {T}. Arguments r_scy {T}. Arguments r_by {T}.
Arguments r_vb {T}. Arguments r_pal {T}. Arguments r_lod0 {T}. Arguments r_lod1 {T}.
Arguments r_csel {T}. Arguments r_nsel {T}. Arguments r_disabled {T}.
Arguments r_pst {T}. Arguments r_psx {T}. Arguments r_psy {T}. Arguments r_paint {T}.
Arguments r_creg {T}. Arguments r_nreg {T}.
Arguments z_penx {T}. Arguments z_peny {T}. Arguments z_firstx {T}. Arguments z_firsty {T}.
Arguments r_log {T}.

Section Ops.
Context {T : Type} (N : numops T).

Definition zeroT : T := n_ofZ N 0.

(* a Renderer on which SetRasterizer(dst, rect) has been called, before any Reset:
   the viewBox is the zero value *)
Definition rinit (x0 y0 w h : Z) : rstate T :=
  (* SetRasterizer: an empty rectangle is replaced by the zero rectangle *)
  let '(x0, y0, w, h) := if (w <=? 0) || (h <=? 0) then (0, 0, 0, 0) else (x0, y0, w, h) in
  let vb := mkVB 0 0 0 0 in
  mkR T x0 y0 w h
      (n_div N (n_ofZ N w) (n_sub N (n_of32 N 0) (n_of32 N 0))) (n_neg N (n_of32 N 0))
      (n_div N (n_ofZ N h) (n_sub N (n_of32 N 0) (n_of32 N 0))) (n_neg N (n_of32 N 0))
      vb (repeat (mkRGBA 0 0 0 0) 64) 0 0 0 0 false 0 zeroT zeroT (PFlat (mkRGBA 0 0 0 0))
      (repeat (mkRGBA 0 0 0 0) 64) (repeat 0 64) zeroT zeroT zeroT zeroT [].

(* SetRasterizer on a Renderer that is already in use: the rectangle is replaced and the scale / bias are
   recomputed from the current viewBox; everything else is kept *)
Definition set_rasterizer (s : rstate T) (x0 y0 w h : Z) : rstate T :=
  let '(x0, y0, w, h) := if (w <=? 0) || (h <=? 0) then (0, 0, 0, 0) else (x0, y0, w, h) in
  let vb := r_vb s in
  mkR T x0 y0 w h
      (n_div N (n_ofZ N w) (n_sub N (n_of32 N (vmaxx vb)) (n_of32 N (vminx vb)))) (n_neg N (n_of32 N (vminx vb)))
      (n_div N (n_ofZ N h) (n_sub N (n_of32 N (vmaxy vb)) (n_of32 N (vminy vb)))) (n_neg N (n_of32 N (vminy vb)))
      vb (r_pal s) (r_lod0 s) (r_lod1 s) (r_csel s) (r_nsel s) (r_disabled s) (r_pst s) (r_psx s) (r_psy s) (r_paint s)
      (r_creg s) (r_nreg s) (z_penx s) (z_peny s) (z_firstx s) (z_firsty s) (r_log s).

Definition upd_regs (s : rstate T) (csel nsel : Z) (creg : list rgba) (nreg : list f32) : rstate T :=
  mkR T (r_x0 s) (r_y0 s) (r_w s) (r_h s) (r_scx s) (r_bx s) (r_scy s) (r_by s) (r_vb s) (r_pal s)
      (r_lod0 s) (r_lod1 s) csel nsel (r_disabled s) (r_pst s) (r_psx s) (r_psy s) (r_paint s)
      creg nreg (z_penx s) (z_peny s) (z_firstx s) (z_firsty s) (r_log s).

Definition upd_lod (s : rstate T) (l0 l1 : f32) : rstate T :=
  mkR T (r_x0 s) (r_y0 s) (r_w s) (r_h s) (r_scx s) (r_bx s) (r_scy s) (r_by s) (r_vb s) (r_pal s)
      l0 l1 (r_csel s) (r_nsel s) (r_disabled s) (r_pst s) (r_psx s) (r_psy s) (r_paint s)
      (r_creg s) (r_nreg s) (z_penx s) (z_peny s) (z_firstx s) (z_firsty s) (r_log s).

(* the rasteriser side: pen semantics of golang.org/x/image/vector *)
Definition emit (s : rstate T) (c : rcall T) (pst : Z) (psx psy : T) : rstate T :=
  let '(px, py, fx, fy) :=
    match c with
    | RReset _ _ => (zeroT, zeroT, zeroT, zeroT)
    | RMoveTo x y => (x, y, x, y)
    | RLineTo x y => (x, y, z_firstx s, z_firsty s)
    | RQuadTo _ _ x y => (x, y, z_firstx s, z_firsty s)
    | RCubeTo _ _ _ _ x y => (x, y, z_firstx s, z_firsty s)
    | RClose => (z_firstx s, z_firsty s, z_firstx s, z_firsty s)
    | RDraw _ _ _ _ _ => (z_penx s, z_peny s, z_firstx s, z_firsty s)
    end in
  (* ClosePath is LineTo(first): it is logged as RClose *)
  mkR T (r_x0 s) (r_y0 s) (r_w s) (r_h s) (r_scx s) (r_bx s) (r_scy s) (r_by s) (r_vb s) (r_pal s)
      (r_lod0 s) (r_lod1 s) (r_csel s) (r_nsel s) (r_disabled s) pst psx psy (r_paint s)
      (r_creg s) (r_nreg s) px py fx fy (r_log s ++ [c]).

Definition emit_keep (s : rstate T) (c : rcall T) : rstate T := emit s c (r_pst s) (r_psx s) (r_psy s).

Definition absX (s : rstate T) (x : T) : T := n_mul N (r_scx s) (n_add N x (r_bx s)).
Definition absY (s : rstate T) (y : T) : T := n_mul N (r_scy s) (n_add N y (r_by s)).
Definition relX (s : rstate T) (x : T) : T := n_mul N (r_scx s) x.
Definition relY (s : rstate T) (y : T) : T := n_mul N (r_scy s) y.
Definition unabsX (s : rstate T) (x : T) : T := n_sub N (n_div N x (r_scx s)) (r_bx s).
Definition unabsY (s : rstate T) (y : T) : T := n_sub N (n_div N y (r_scy s)) (r_by s).
Definition relVX (s : rstate T) (x : T) : T := n_add N (z_penx s) (relX s x).
Definition relVY (s : rstate T) (y : T) : T := n_add N (z_peny s) (relY s y).

Definition two : T := n_ofZ N 2.
(* implicitSmoothPoint *)
Definition smooth_pt (s : rstate T) (this : Z) : T * T :=
  if negb (r_pst s =? this) then (z_penx s, z_peny s)
  else (n_sub N (n_mul N two (z_penx s)) (r_psx s), n_sub N (n_mul N two (z_peny s)) (r_psy s)).

(* Reset *)
Definition rreset (s : rstate T) (vb : viewbox) (pal : list rgba) : rstate T :=
  mkR T (r_x0 s) (r_y0 s) (r_w s) (r_h s)
      (n_div N (n_ofZ N (r_w s)) (n_sub N (n_of32 N (vmaxx vb)) (n_of32 N (vminx vb)))) (n_neg N (n_of32 N (vminx vb)))
      (n_div N (n_ofZ N (r_h s)) (n_sub N (n_of32 N (vmaxy vb)) (n_of32 N (vminy vb)))) (n_neg N (n_of32 N (vminy vb)))
      vb pal 0 2139095040 0 0 (r_disabled s) 0 zeroT zeroT (r_paint s)
      pal (repeat 0 64) (z_penx s) (z_peny s) (z_firstx s) (z_firsty s) (r_log s).

Definition set_disabled (s : rstate T) (d : bool) (p : paint T) : rstate T :=
  mkR T (r_x0 s) (r_y0 s) (r_w s) (r_h s) (r_scx s) (r_bx s) (r_scy s) (r_by s) (r_vb s) (r_pal s)
      (r_lod0 s) (r_lod1 s) (r_csel s) (r_nsel s) d (r_pst s) (r_psx s) (r_psy s) p
      (r_creg s) (r_nreg s) (z_penx s) (z_peny s) (z_firstx s) (z_firsty s) (r_log s).

Definition nreg_at (l : list f32) (i : Z) : f32 := nth (Z.to_nat (i mod 64)) l 0.

Definition neg_inf32 : f32 := 4286578688.  (* 0xff800000 *)
Definition c_one32 : f32 := 1065353216.    (* 1.0 *)

(* the stop loop of initGradient: None when a stop is invalid *)
Fixpoint grad_stops (k : nat) (i : Z) (cbase nbase : Z) (creg : list rgba) (nreg : list f32) (prev : f32)
  : option (list gstop) :=
  match k with
  | O => Some []
  | S k' =>
      let c := reg_at creg (cbase + i) in
      if negb (valid_premul c) then None
      else
        let n := nreg_at nreg (nbase + i) in
        if negb (fle F32 0 n && fle F32 n c_one32) || negb (fgt F32 n prev) then None
        else
          match grad_stops k' (i + 1) cbase nbase creg nreg n with
          | None => None
          | Some l => Some (mkStop n c :: l)
          end
  end.

(* initGradient: the paint, or None (disabled).  Fewer than two stops give no range: disabled. *)
Definition init_gradient (s : rstate T) (c : rgba) : option (gradient T) :=
  let gp := decode_gradient c in
  match grad_stops (Z.to_nat (gp_nstops gp)) 0 (gp_cbase gp) (gp_nbase gp) (r_creg s) (r_nreg s) neg_inf32 with
  | None => None
  | Some stops =>
      if (length stops <? 2)%nat then None
      else
        let nb := gp_nbase gp in
        let raw := map (fun k => nreg_at (r_nreg s) (nb - k)) [6; 5; 4; 3; 2; 1] in
        Some (mkGrad T (gp_shape gp) (gp_spread gp) stops raw (r_scx s) (r_bx s) (r_scy s) (r_by s))
  end.

Definition smNone := 0. Definition smQuad := 1. Definition smCube := 2.

Definition start_path (s : rstate T) (adj : Z) (x y : f32) : rstate T :=
  let flat := reg_at (r_creg s) (r_csel s - adj) in
  let '(dis, p) :=
    if valid_premul flat then (ca flat =? 0, PFlat flat)
    else if valid_gradient flat then
      match init_gradient s flat with
      | Some g => (false, PGrad g)
      | None => (true, r_paint s)   (* z.fill = &z.gradient, left in whatever state; never drawn *)
      end
    else (true, r_paint s) in
  let h := of_Z F32 (r_h s) in
  let dis := dis || negb (fle F32 (r_lod0 s) h && flt F32 h (r_lod1 s)) in
  let s1 := set_disabled s dis p in
  if dis then s1
  else
    let s2 := emit s1 (RReset (r_w s) (r_h s)) smNone (r_psx s1) (r_psy s1) in
    emit_keep s2 (RMoveTo (absX s2 (n_of32 N x)) (absY s2 (n_of32 N y))).

Definition f (x : f32) : T := n_of32 N x.

Definition rdraw (s : rstate T) (op : Z) (a : list f32) : rstate T :=
  if r_disabled s then s
  else
    let arg (i : nat) : T := f (nth i a 0) in
    if op =? opY then
      let s1 := emit s RClose smNone (r_psx s) (r_psy s) in
      emit_keep s1 (RMoveTo (absX s1 (arg 0%nat)) (absY s1 (arg 1%nat)))
    else if op =? opy then
      let s1 := emit s RClose smNone (r_psx s) (r_psy s) in
      emit_keep s1 (RMoveTo (relVX s1 (arg 0%nat)) (relVY s1 (arg 1%nat)))
    else if op =? opH then emit s (RLineTo (absX s (arg 0%nat)) (z_peny s)) smNone (r_psx s) (r_psy s)
    else if op =? oph then emit s (RLineTo (relVX s (arg 0%nat)) (z_peny s)) smNone (r_psx s) (r_psy s)
    else if op =? opV then emit s (RLineTo (z_penx s) (absY s (arg 0%nat))) smNone (r_psx s) (r_psy s)
    else if op =? opv then emit s (RLineTo (z_penx s) (relVY s (arg 0%nat))) smNone (r_psx s) (r_psy s)
    else if op =? opL then emit s (RLineTo (absX s (arg 0%nat)) (absY s (arg 1%nat))) smNone (r_psx s) (r_psy s)
    else if op =? opl then emit s (RLineTo (relVX s (arg 0%nat)) (relVY s (arg 1%nat))) smNone (r_psx s) (r_psy s)
    else if op =? opT then
      let '(x1, y1) := smooth_pt s smQuad in
      emit s (RQuadTo x1 y1 (absX s (arg 0%nat)) (absY s (arg 1%nat))) smQuad x1 y1
    else if op =? opt then
      let '(x1, y1) := smooth_pt s smQuad in
      emit s (RQuadTo x1 y1 (relVX s (arg 0%nat)) (relVY s (arg 1%nat))) smQuad x1 y1
    else if op =? opQ then
      let x1 := absX s (arg 0%nat) in let y1 := absY s (arg 1%nat) in
      emit s (RQuadTo x1 y1 (absX s (arg 2%nat)) (absY s (arg 3%nat))) smQuad x1 y1
    else if op =? opq then
      let x1 := relVX s (arg 0%nat) in let y1 := relVY s (arg 1%nat) in
      emit s (RQuadTo x1 y1 (relVX s (arg 2%nat)) (relVY s (arg 3%nat))) smQuad x1 y1
    else if op =? opS then
      let '(x1, y1) := smooth_pt s smCube in
      let x2 := absX s (arg 0%nat) in let y2 := absY s (arg 1%nat) in
      emit s (RCubeTo x1 y1 x2 y2 (absX s (arg 2%nat)) (absY s (arg 3%nat))) smCube x2 y2
    else if op =? ops then
      let '(x1, y1) := smooth_pt s smCube in
      let x2 := relVX s (arg 0%nat) in let y2 := relVY s (arg 1%nat) in
      emit s (RCubeTo x1 y1 x2 y2 (relVX s (arg 2%nat)) (relVY s (arg 3%nat))) smCube x2 y2
    else if op =? opC then
      let x2 := absX s (arg 2%nat) in let y2 := absY s (arg 3%nat) in
      emit s (RCubeTo (absX s (arg 0%nat)) (absY s (arg 1%nat)) x2 y2 (absX s (arg 4%nat)) (absY s (arg 5%nat))) smCube x2 y2
    else if op =? opc then
      let x2 := relVX s (arg 2%nat) in let y2 := relVY s (arg 3%nat) in
      emit s (RCubeTo (relVX s (arg 0%nat)) (relVY s (arg 1%nat)) x2 y2 (relVX s (arg 4%nat)) (relVY s (arg 5%nat))) smCube x2 y2
    else s.

Definition end_path (s : rstate T) : rstate T :=
  if r_disabled s then s
  else
    let s1 := emit_keep s RClose in
    emit_keep s1 (RDraw (r_x0 s) (r_y0 s) (r_x0 s + r_w s) (r_y0 s + r_h s) (r_paint s)).

Definition set_at {A} (l : list A) (i : Z) (x : A) : list A :=
  let k := Z.to_nat (i mod 64) in firstn k l ++ x :: skipn (S k) l.

(* arcs are supplied by Arc.v for the float instance (and by the real-number spec for proofs) *)
Definition rstep (arc : rstate T -> bool -> f32 -> f32 -> f32 -> bool -> bool -> f32 -> f32 -> rstate T)
  (s : rstate T) (c : call) : rstate T :=
  match c with
  | CReset vb pal => rreset s vb pal
  | CSetCSel v => upd_regs s (v mod 64) (r_nsel s) (r_creg s) (r_nreg s)
  | CSetNSel v => upd_regs s (r_csel s) (v mod 64) (r_creg s) (r_nreg s)
  | CSetCReg adj incr col =>
      let v := resolve (r_pal s) (r_creg s) col in
      upd_regs s (if incr then (r_csel s + 1) mod 64 else r_csel s) (r_nsel s)
               (set_at (r_creg s) (r_csel s - adj) v) (r_nreg s)
  | CSetNReg adj incr x =>
      upd_regs s (r_csel s) (if incr then (r_nsel s + 1) mod 64 else r_nsel s)
               (r_creg s) (set_at (r_nreg s) (r_nsel s - adj) x)
  | CSetLOD l0 l1 => upd_lod s l0 l1
  | CStartPath adj x y => start_path s adj x y
  | CDraw op a => rdraw s op a
  | CArc rel rx ry rot la sw x y => if r_disabled s then s else arc s rel rx ry rot la sw x y
  | CEndPath => end_path s
  end.

End Ops.

(* SF.v — IEEE-754 binary32/binary64 arithmetic on bit patterns, in Z.

   A float is its bit pattern (a Z).  Every operation is defined the way the
   standard defines it: decode the operands, compute the exact rational
   result, round to nearest (ties to even), encode.  Nothing here is proved;
   this file is executable definitions only.  It is the definition of float
   arithmetic that every model file uses; its agreement with the Go
   implementation on amd64 is what the correspondence check exercises
   bit-for-bit (see DESIGN.md, trusted base). *)

From Coq Require Import ZArith Bool List.
Import ListNotations.
Local Open Scope Z_scope.

(* 2^k by shifting (linear time; Z.pow multiplies k times) *)
Definition pow2 (k : Z) : Z := Z.shiftl 1 k.

Record fmt := { prec : Z; ebits : Z }.
Definition F32 : fmt := {| prec := 24; ebits := 8 |}.
Definition F64 : fmt := {| prec := 53; ebits := 11 |}.

Definition width (f : fmt) : Z := prec f + ebits f.
Definition bias (f : fmt) : Z := 2 ^ (ebits f - 1) - 1.
(* exponent of the least significant bit of a subnormal *)
Definition emin (f : fmt) : Z := 2 - 2 ^ (ebits f - 1) - (prec f - 1).
Definition emax_field (f : fmt) : Z := 2 ^ ebits f - 1.

(* decoded value: finite = (-1)^s * m * 2^e *)
Inductive fval := FNaN | FInf (s : bool) | FFin (s : bool) (m e : Z).

Definition sign_of (f : fmt) (b : Z) : bool := 0 <? b / 2 ^ (width f - 1).
Definition expo_of (f : fmt) (b : Z) : Z := (b / 2 ^ (prec f - 1)) mod 2 ^ ebits f.
Definition mant_of (f : fmt) (b : Z) : Z := b mod 2 ^ (prec f - 1).

Definition decode (f : fmt) (b : Z) : fval :=
  let s := sign_of f b in
  let ex := expo_of f b in
  let ma := mant_of f b in
  if ex =? emax_field f then (if ma =? 0 then FInf s else FNaN)
  else if ex =? 0 then FFin s ma (emin f)
  else FFin s (2 ^ (prec f - 1) + ma) (ex + emin f - 1).

(* the same decoding with shifts and masks (linear time); equal to decode, see proofs/SFProofs.v *)
Definition decode_fast (f : fmt) (b : Z) : fval :=
  let p1 := prec f - 1 in
  let s := 0 <? Z.shiftr b (width f - 1) in
  let ex := Z.land (Z.shiftr b p1) (Z.ones (ebits f)) in
  let ma := Z.land b (Z.ones p1) in
  if ex =? Z.ones (ebits f) then (if ma =? 0 then FInf s else FNaN)
  else if ex =? 0 then FFin s ma (emin f)
  else FFin s (pow2 p1 + ma) (ex + emin f - 1).

Definition sbit (f : fmt) (s : bool) : Z := if s then 2 ^ (width f - 1) else 0.
Definition inf_bits (f : fmt) (s : bool) : Z := sbit f s + emax_field f * 2 ^ (prec f - 1).
(* the default NaN produced by an invalid operation: sign set, quiet bit set (x86 SSE "real indefinite") *)
Definition nan_bits (f : fmt) : Z := 2 ^ (width f - 1) + emax_field f * 2 ^ (prec f - 1) + 2 ^ (prec f - 2).
(* a NaN operand is propagated with its quiet bit set (x86 SSE: the first NaN operand) *)
Definition quiet (f : fmt) (x : Z) : Z := Z.lor x (2 ^ (prec f - 2)).
Definition zero_bits (f : fmt) (s : bool) : Z := sbit f s.

(* encode a canonical (m, e): 0 <= m <= 2^prec, e >= emin, and m >= 2^(prec-1) or e = emin *)
Definition encode_canon (f : fmt) (s : bool) (m e : Z) : Z :=
  let '(m, e) := if m =? 2 ^ prec f then (2 ^ (prec f - 1), e + 1) else (m, e) in
  if m <? 2 ^ (prec f - 1) then sbit f s + m
  else
    let ex := e - emin f + 1 in
    if emax_field f <=? ex then inf_bits f s
    else sbit f s + ex * 2 ^ (prec f - 1) + (m - 2 ^ (prec f - 1)).

(* round-to-nearest-even of the positive rational n/d (n > 0, d > 0) *)
Definition rne_pos (f : fmt) (s : bool) (n d : Z) : Z :=
  let p := prec f in
  let l := Z.log2 n - Z.log2 d in
  let e0 := Z.max (emin f) (l - p) in
  let scale (e : Z) := if 0 <=? e then (n, d * pow2 e) else (n * pow2 (- e), d) in
  let '(na, da) := scale e0 in
  let '(q0, r0) := Z.div_eucl na da in
  let '(e, q, r, db) :=
    if pow2 p <=? q0 then
      let '(nb, db) := scale (e0 + 1) in
      let '(q1, r1) := Z.div_eucl nb db in (e0 + 1, q1, r1, db)
    else (e0, q0, r0, da) in
  let up := (db <? 2 * r) || ((db =? 2 * r) && Z.odd q) in
  encode_canon f s (if up then q + 1 else q) e.

(* round-to-nearest-even of the positive dyadic m * 2^e (m > 0) without division *)
Definition rne_dy_pos (f : fmt) (s : bool) (m e : Z) : Z :=
  let p := prec f in
  let l := Z.log2 m + e in                 (* floor(log2 value) *)
  let e0 := Z.max (emin f) (l - p + 1) in
  if e0 <=? e then encode_canon f s (Z.shiftl m (e - e0)) e0
  else
    let k := e0 - e in
    let q := Z.shiftr m k in
    let r := Z.land m (Z.ones k) in
    let half := pow2 (k - 1) in
    let up := (half <? r) || ((half =? r) && Z.odd q) in
    encode_canon f s (if up then q + 1 else q) e0.

Definition rne_dy (f : fmt) (s : bool) (m e : Z) : Z :=
  if m =? 0 then zero_bits f s else rne_dy_pos f s m e.

Definition rne_dy_signed (f : fmt) (zs : bool) (m e : Z) : Z :=
  if m =? 0 then zero_bits f zs
  else if m <? 0 then rne_dy_pos f true (- m) e else rne_dy_pos f false m e.

(* round the signed dyadic/rational  sgn * n / d ;  n >= 0.  zs = sign to give an exact zero *)
Definition rne (f : fmt) (s : bool) (n d : Z) : Z :=
  if n =? 0 then zero_bits f s else rne_pos f s n d.

(* exact signed rational n/d with d>0 ; zero gets sign zs *)
Definition rne_signed (f : fmt) (zs : bool) (n d : Z) : Z :=
  if n =? 0 then zero_bits f zs
  else if n <? 0 then rne_pos f true (- n) d else rne_pos f false n d.

Definition is_nan (f : fmt) (b : Z) : bool :=
  match decode f b with FNaN => true | _ => false end.
Definition is_finite (f : fmt) (b : Z) : bool :=
  match decode f b with FFin _ _ _ => true | _ => false end.

(* signed numerator / 2^k representation helpers *)
Definition sm (s : bool) (m : Z) : Z := if s then - m else m.

(* value of a finite as a fraction num/den with common exponent handling *)
Definition frac_of (m e : Z) : Z * Z := if 0 <=? e then (m * pow2 e, 1) else (m, pow2 (- e)).

Definition fadd (f : fmt) (x y : Z) : Z :=
  match decode_fast f x, decode_fast f y with
  | FNaN, _ => quiet f x
  | _, FNaN => quiet f y
  | FInf s1, FInf s2 => if Bool.eqb s1 s2 then inf_bits f s1 else nan_bits f
  | FInf s1, _ => inf_bits f s1
  | _, FInf s2 => inf_bits f s2
  | FFin s1 m1 e1, FFin s2 m2 e2 =>
      let e := Z.min e1 e2 in
      let M := sm s1 (Z.shiftl m1 (e1 - e)) + sm s2 (Z.shiftl m2 (e2 - e)) in
      let zs := s1 && s2 in
      rne_dy_signed f zs M e
  end.

Definition fneg (f : fmt) (x : Z) : Z :=
  if sign_of f x then x - 2 ^ (width f - 1) else x + 2 ^ (width f - 1).

Definition fabs (f : fmt) (x : Z) : Z :=
  if sign_of f x then x - 2 ^ (width f - 1) else x.

Definition fsub (f : fmt) (x y : Z) : Z :=
  if is_nan f x then quiet f x else if is_nan f y then quiet f y else fadd f x (fneg f y).

Definition fmul (f : fmt) (x y : Z) : Z :=
  match decode_fast f x, decode_fast f y with
  | FNaN, _ => quiet f x
  | _, FNaN => quiet f y
  | FInf s1, FInf s2 => inf_bits f (xorb s1 s2)
  | FInf s1, FFin s2 m2 _ => if m2 =? 0 then nan_bits f else inf_bits f (xorb s1 s2)
  | FFin s1 m1 _, FInf s2 => if m1 =? 0 then nan_bits f else inf_bits f (xorb s1 s2)
  | FFin s1 m1 e1, FFin s2 m2 e2 =>
      let s := xorb s1 s2 in
      rne_dy f s (m1 * m2) (e1 + e2)
  end.

Definition fdiv (f : fmt) (x y : Z) : Z :=
  match decode_fast f x, decode_fast f y with
  | FNaN, _ => quiet f x
  | _, FNaN => quiet f y
  | FInf s1, FInf s2 => nan_bits f
  | FInf s1, FFin s2 _ _ => inf_bits f (xorb s1 s2)
  | FFin s1 _ _, FInf s2 => zero_bits f (xorb s1 s2)
  | FFin s1 m1 e1, FFin s2 m2 e2 =>
      let s := xorb s1 s2 in
      if m2 =? 0 then (if m1 =? 0 then nan_bits f else inf_bits f s)
      else
        let '(n, d) := frac_of m1 (e1 - e2) in
        rne f s n (d * m2)
  end.

Definition fsqrt (f : fmt) (x : Z) : Z :=
  match decode_fast f x with
  | FNaN => quiet f x
  | FInf s => if s then nan_bits f else inf_bits f false
  | FFin s m e =>
      if m =? 0 then x
      else if s then nan_bits f
      else
        (* make the exponent even and the radicand large: S = m * 2^(2k + (e mod 2)) *)
        let par := e mod 2 in
        let k := prec f + 2 in
        let S := m * pow2 (2 * k + par) in
        let e' := (e - par) / 2 - k in
        let r := Z.sqrt S in
        let sticky := if r * r =? S then 0 else 1 in
        rne_dy f false (2 * r + sticky) (e' - 1)
  end.

(* comparisons (IEEE: NaN unordered, -0 = +0) *)
Inductive cmp := CLt | CEq | CGt | CUn.

Definition fcompare (f : fmt) (x y : Z) : cmp :=
  match decode f x, decode f y with
  | FNaN, _ | _, FNaN => CUn
  | FInf s1, FInf s2 => if Bool.eqb s1 s2 then CEq else if s1 then CLt else CGt
  | FInf s1, _ => if s1 then CLt else CGt
  | _, FInf s2 => if s2 then CGt else CLt
  | FFin s1 m1 e1, FFin s2 m2 e2 =>
      let e := Z.min e1 e2 in
      let a := sm s1 m1 * pow2 (e1 - e) in
      let b := sm s2 m2 * pow2 (e2 - e) in
      if a <? b then CLt else if a =? b then CEq else CGt
  end.

Definition flt f x y := match fcompare f x y with CLt => true | _ => false end.
Definition fle f x y := match fcompare f x y with CLt | CEq => true | _ => false end.
Definition feq f x y := match fcompare f x y with CEq => true | _ => false end.
Definition fgt f x y := flt f y x.
Definition fge f x y := fle f y x.

(* conversions *)
Definition of_Z (f : fmt) (i : Z) : Z := rne_dy_signed f false i 0.

Definition convert (f g : fmt) (x : Z) : Z :=
  match decode_fast f x with
  | FNaN =>
      (* sign kept, payload moved to the top of the new mantissa field, quiet bit set *)
      let pay := mant_of f x in
      let pay' := if prec g <? prec f then Z.shiftr pay (prec f - prec g) else Z.shiftl pay (prec g - prec f) in
      quiet g (sbit g (sign_of f x) + emax_field g * 2 ^ (prec g - 1) + pay')
  | FInf s => inf_bits g s
  | FFin s m e => rne_dy g s m e
  end.
Definition f32_to_f64 := convert F32 F64.
Definition f64_to_f32 := convert F64 F32.

(* floor / ceil / trunc as floats (sign of zero as Go's math.Floor/Ceil) *)
Definition ffloor (f : fmt) (x : Z) : Z :=
  match decode_fast f x with
  | FFin s m e =>
      if (0 <=? e) || (m =? 0) then x
      else
        let q := Z.shiftr (sm s m) (- e) in  (* arithmetic shift floors *)
        rne_dy_signed f s q 0
  | _ => x
  end.

Definition fceil (f : fmt) (x : Z) : Z := fneg f (ffloor f (fneg f x)).

(* truncation toward zero to an integer; None for NaN / Inf *)
Definition ftrunc (f : fmt) (x : Z) : option Z :=
  match decode_fast f x with
  | FFin s m e => Some (if 0 <=? e then sm s (Z.shiftl m e) else sm s (Z.shiftr m (- e)))
  | _ => None
  end.

(* exact integer test: Some i when the value is exactly the integer i *)
Definition exact_int (f : fmt) (x : Z) : option Z :=
  match decode f x with
  | FFin s m e =>
      if 0 <=? e then Some (sm s (m * 2 ^ e))
      else if m mod 2 ^ (- e) =? 0 then Some (sm s (m / 2 ^ (- e))) else None
  | _ => None
  end.

(* exact integer test of value * 2^k *)
Definition exact_int_scaled (f : fmt) (k : Z) (x : Z) : option Z :=
  match decode f x with
  | FFin s m e =>
      let e := e + k in
      if 0 <=? e then Some (sm s (m * 2 ^ e))
      else if m mod 2 ^ (- e) =? 0 then Some (sm s (m / 2 ^ (- e))) else None
  | _ => None
  end.

(* common constants *)
Definition b32_of_Z := of_Z F32.
Definition b64_of_Z := of_Z F64.

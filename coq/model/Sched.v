(* Sched.v — independent pipelines as step machines over a shared read-only environment (C18).
   A machine's step reads the environment and reads/writes only its own state. *)
From Coq Require Import List Arith Lia.
Import ListNotations.

Section Sched.
Context {Env St : Type}.
(* one step of machine i's program: None when the machine has finished *)
Context (step : Env -> St -> option St).

(* run machine i for one step inside the vector of machine states; the environment is only read *)
Definition sched_step (env : Env) (ms : list St) (i : nat) : list St :=
  match nth_error ms i with
  | None => ms
  | Some s =>
      match step env s with
      | None => ms
      | Some s' => firstn i ms ++ s' :: skipn (S i) ms
      end
  end.

Definition run_sched (env : Env) (ms : list St) (sched : list nat) : list St :=
  fold_left (sched_step env) sched ms.

(* a machine run alone: the steps the schedule gives it, in order *)
Fixpoint run_alone (env : Env) (s : St) (n : nat) : St :=
  match n with
  | O => s
  | S n' => match step env s with None => s | Some s' => run_alone env s' n' end
  end.
End Sched.

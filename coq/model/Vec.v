(* Vec.v — model of raster/vec.Rasterizer.Draw (raster/vec/rasterizer.go:40-44): the configured compositing
   operator is copied into the inner rasteriser for this Draw, then the field reverts to draw.Over. *)
From Coq Require Import List.
Import ListNotations.

Inductive drawop := OpOver | OpSrc.

(* the wrapper's DrawOp field; a Draw returns the operator it composited with and the new field *)
Definition vec_draw (field : drawop) : drawop * drawop := (field, OpOver).

Fixpoint vec_draws (field : drawop) (n : nat) : list drawop :=
  match n with
  | O => []
  | S k => let '(used, field') := vec_draw field in used :: vec_draws field' k
  end.

(* ArcAngles.v — step 4 of the arc conversion over the reals (C06): the start angle and the sweep computed by
   the code make the first segment start at the pen and the last one end at the arc's end point; every segment
   end lies on the ellipse; the sweep has the sign the sweep flag asks for and at most one turn. *)
From Coq Require Import Reals ZArith Bool List Lra Lia.
From IVG Require Import SF NumCodec Color Calls Render GoMath Arc ArcR.
Import ListNotations.
Local Open Scope R_scope.

Lemma sqrt_one : sqrt 1 = 1. Proof. exact sqrt_1. Qed.

(* the signed angle between two unit vectors: its cosine is their dot product, its sine their cross product *)
Lemma angle_unit ux uy vx vy : ux * ux + uy * uy = 1 -> vx * vx + vy * vy = 1 ->
  let th := angle_gen AR ux uy vx vy in
  cos th = ux * vx + uy * vy /\ sin th = ux * vy - uy * vx /\ - PI < th <= PI.
Proof.
  intros Hu Hv. unfold angle_gen, AR.
  cbn [a_add a_sub a_mul a_div a_neg a_sqrt a_gt a_zero a_one a_two a_le a_ge a_lt a_pi a_twopi a_acos a_cos a_sin].
  rewrite Hu, Hv, sqrt_1, Rmult_1_l. unfold Rdiv. rewrite Rinv_1, Rmult_1_r.
  set (d := ux * vx + uy * vy). set (k := ux * vy - uy * vx).
  assert (Hdk : d * d + k * k = 1).
  { unfold d, k. replace ((ux * vx + uy * vy) * (ux * vx + uy * vy) + (ux * vy - uy * vx) * (ux * vy - uy * vx))
      with ((ux * ux + uy * uy) * (vx * vx + vy * vy)) by ring. rewrite Hu, Hv. ring. }
  assert (Hd : -1 <= d <= 1) by (split; nra).
  assert (Hlt : (if Rlt_dec (ux * vy) (uy * vx) then true else false) = (if Rlt_dec k 0 then true else false)).
  { unfold k. destruct (Rlt_dec (ux * vy) (uy * vx)); destruct (Rlt_dec (ux * vy - uy * vx) 0); try reflexivity; lra. }
  rewrite Hlt. pose proof PI_RGT_0 as Hpi.
  destruct (Rle_dec d (- (1))) as [L|L].
  { assert (d = -1) by lra. assert (k = 0) by nra. destruct (Rlt_dec k 0); [lra|]. cbv iota.
    rewrite cos_PI, sin_PI. repeat split; lra. }
  destruct (Rge_dec d 1) as [G|G].
  { assert (d = 1) by lra. assert (k = 0) by nra. destruct (Rlt_dec k 0); [lra|]. cbv iota.
    rewrite cos_0, sin_0. repeat split; lra. }
  assert (Hd' : -1 <= d <= 1) by lra.
  assert (Hb : 0 < acos d < PI) by (apply acos_bound_lt; lra).
  assert (Hs : sin (acos d) = Rabs k).
  { rewrite sin_acos by exact Hd'. replace (1 - d²) with (k²) by (unfold Rsqr; lra). apply sqrt_Rsqr_abs. }
  destruct (Rlt_dec k 0) as [N|N]; cbv iota.
  - rewrite cos_neg, sin_neg, cos_acos, Hs by exact Hd'. rewrite Rabs_left by exact N. repeat split; lra.
  - rewrite cos_acos, Hs by exact Hd'. rewrite Rabs_right by lra. repeat split; lra.
Qed.

(* any point produced by the parameterisation lies on the ellipse with that centre, those radii and rotation *)
Theorem point_on_ellipse cx cy rx ry co si th : rx <> 0 -> ry <> 0 -> co * co + si * si = 1 ->
  let '(px, py) := arc_point_gen AR cx cy rx ry co si th in
  let X := co * (px - cx) + si * (py - cy) in
  let Y := - si * (px - cx) + co * (py - cy) in
  (X / rx) * (X / rx) + (Y / ry) * (Y / ry) = 1.
Proof.
  intros Hrx Hry Hcs. unfold arc_point_gen, AR. cbn [a_add a_sub a_mul a_cos a_sin]. cbv zeta.
  replace (co * (cx + co * (rx * cos th) - si * (ry * sin th) - cx) + si * (cy + si * (rx * cos th) + co * (ry * sin th) - cy))
    with ((co * co + si * si) * (rx * cos th)) by ring.
  replace (- si * (cx + co * (rx * cos th) - si * (ry * sin th) - cx) + co * (cy + si * (rx * cos th) + co * (ry * sin th) - cy))
    with ((co * co + si * si) * (ry * sin th)) by ring.
  rewrite Hcs, !Rmult_1_l. unfold Rdiv. rewrite !Rinv_r_simpl_m by assumption.
  pose proof (sin2_cos2 th) as H. unfold Rsqr in H. lra.
Qed.

Section Angles.
Variables x1 y1 x2 y2 Rx Ry co si : R.
Variables same sweep : bool.
Hypothesis HRx : 0 < Rx.
Hypothesis HRy : 0 < Ry.
Hypothesis Hcs : co * co + si * si = 1.
Hypothesis Hdist : x1 <> x2 \/ y1 <> y2.

Let c := arc_center_gen AR x1 y1 x2 y2 Rx Ry co si same.

Lemma radii_pos : 0 < ac_rx c /\ 0 < ac_ry c.
Proof.
  unfold c, arc_center_gen, AR. cbn [a_add a_sub a_mul a_div a_neg a_sqrt a_gt a_zero a_one a_two]. cbv zeta.
  match goal with |- context [if (if Rgt_dec ?chk 1 then true else false) then _ else _] => destruct (Rgt_dec chk 1) as [G|G] end;
    cbn [ac_rx ac_ry].
  - match goal with |- 0 < Rx * sqrt ?q /\ _ => assert (0 < sqrt q) by (apply sqrt_lt_R0; lra) end. split; nra.
  - split; assumption.
Qed.

Let th1 := fst (arc_angles_gen AR c sweep).
Let dth := snd (arc_angles_gen AR c sweep).

Let ax := ux x1 y1 x2 y2 Rx Ry co si same.
Let ay := uy x1 y1 x2 y2 Rx Ry co si same.
Let bx := vx x1 y1 x2 y2 Rx Ry co si same.
Let by_ := vy x1 y1 x2 y2 Rx Ry co si same.

Lemma units : ax * ax + ay * ay = 1 /\ bx * bx + by_ * by_ = 1.
Proof. apply unit_vectors; assumption. Qed.

Lemma th1_spec : cos th1 = ax /\ sin th1 = ay.
Proof.
  destruct units as [Ua _].
  assert (U0 : 1 * 1 + 0 * 0 = 1) by ring.
  pose proof (angle_unit 1 0 ax ay U0 Ua) as H. cbv zeta in H. destruct H as (Hc & Hs & _).
  change (cos (angle_gen AR 1 0 ax ay) = ax /\ sin (angle_gen AR 1 0 ax ay) = ay).
  rewrite Hc, Hs. split; ring.
Qed.

(* the sweep before the flag adjustment *)
Let d0 := angle_gen AR ax ay bx by_.

Lemma d0_spec : cos d0 = ax * bx + ay * by_ /\ sin d0 = ax * by_ - ay * bx /\ - PI < d0 <= PI.
Proof. destruct units as [Ua Ub]. exact (angle_unit ax ay bx by_ Ua Ub). Qed.

Lemma dth_cases : (dth = d0 \/ dth = d0 + 2 * PI \/ dth = d0 - 2 * PI) /\
  (sweep = true -> 0 <= dth <= 2 * PI) /\ (sweep = false -> - (2 * PI) <= dth <= 0).
Proof.
  destruct d0_spec as (_ & _ & Hb). pose proof PI_RGT_0 as Hpi.
  unfold dth, arc_angles_gen. cbn [snd]. cbn [AR a_one a_zero a_div a_sub a_neg a_add a_lt a_gt a_twopi].
  fold c. change ((ac_x1p c - ac_cxp c) / ac_rx c) with ax. change ((ac_y1p c - ac_cyp c) / ac_ry c) with ay.
  change ((- ac_x1p c - ac_cxp c) / ac_rx c) with bx. change ((- ac_y1p c - ac_cyp c) / ac_ry c) with by_.
  fold d0. destruct sweep.
  - destruct (Rlt_dec d0 0); (split; [auto|]); split; intros; try discriminate; lra.
  - destruct (Rgt_dec d0 0); (split; [auto|]); split; intros; try discriminate; lra.
Qed.

Lemma end_angle : cos (th1 + dth) = bx /\ sin (th1 + dth) = by_.
Proof.
  destruct th1_spec as [C1 S1]. destruct d0_spec as (Cd & Sd & _). destruct units as [Ua Ub].
  assert (Hper : cos (th1 + dth) = cos (th1 + d0) /\ sin (th1 + dth) = sin (th1 + d0)).
  { destruct dth_cases as ([E|[E|E]] & _); rewrite E.
    - split; reflexivity.
    - replace (th1 + (d0 + 2 * PI)) with (th1 + d0 + 2 * PI) by ring. rewrite (cos_plus (th1 + d0) (2 * PI)), (sin_plus (th1 + d0) (2 * PI)), cos_2PI, sin_2PI. split; ring.
    - replace (th1 + (d0 - 2 * PI)) with (th1 + d0 - 2 * PI) by ring. rewrite (cos_minus (th1 + d0) (2 * PI)), (sin_minus (th1 + d0) (2 * PI)), cos_2PI, sin_2PI. split; ring. }
  destruct Hper as [-> ->]. rewrite cos_plus, sin_plus, C1, S1, Cd, Sd. split.
  - replace (ax * (ax * bx + ay * by_) - ay * (ax * by_ - ay * bx)) with (bx * (ax * ax + ay * ay)) by ring. rewrite Ua. ring.
  - replace (ay * (ax * bx + ay * by_) + ax * (ax * by_ - ay * bx)) with (by_ * (ax * ax + ay * ay)) by ring. rewrite Ua. ring.
Qed.

(* the parameterisation starts at the pen and ends at the end point *)
Theorem arc_starts_and_ends :
  arc_point_gen AR (ac_cx c) (ac_cy c) (ac_rx c) (ac_ry c) co si th1 = (x1, y1) /\
  arc_point_gen AR (ac_cx c) (ac_cy c) (ac_rx c) (ac_ry c) co si (th1 + dth) = (x2, y2).
Proof.
  destruct radii_pos as [Prx Pry]. destruct th1_spec as [C1 S1]. destruct end_angle as [C2 S2].
  pose proof (start_point x1 y1 x2 y2 Rx Ry co si same Hcs) as SP. pose proof (end_point x1 y1 x2 y2 Rx Ry co si same Hcs) as EP.
  cbv zeta in SP, EP. fold c in SP, EP. destruct SP as [SPx SPy]. destruct EP as [EPx EPy].
  unfold arc_point_gen, AR. cbn [a_add a_sub a_mul a_cos a_sin]. rewrite C1, S1, C2, S2.
  unfold ax, ay, bx, by_, ux, uy, vx, vy. fold c.
  assert (E1 : ac_rx c * ((ac_x1p c - ac_cxp c) / ac_rx c) = ac_x1p c - ac_cxp c) by (field; lra).
  assert (E2 : ac_ry c * ((ac_y1p c - ac_cyp c) / ac_ry c) = ac_y1p c - ac_cyp c) by (field; lra).
  assert (E3 : ac_rx c * ((- ac_x1p c - ac_cxp c) / ac_rx c) = - ac_x1p c - ac_cxp c) by (field; lra).
  assert (E4 : ac_ry c * ((- ac_y1p c - ac_cyp c) / ac_ry c) = - ac_y1p c - ac_cyp c) by (field; lra).
  rewrite E1, E2, E3, E4. split; f_equal; lra.
Qed.

Theorem sweep_sign_and_extent :
  (sweep = true -> 0 <= dth <= 2 * PI) /\ (sweep = false -> - (2 * PI) <= dth <= 0).
Proof. exact (proj2 dth_cases). Qed.

(* ---- the large-arc flag ---- *)
(* the primed centre in terms of the signed square root t of step 2: t <= 0 when large = sweep, t >= 0 otherwise *)
Lemma centre_shape : exists t,
  ac_cxp c = t * ac_rx c * ac_y1p c / ac_ry c /\ ac_cyp c = - t * ac_ry c * ac_x1p c / ac_rx c /\
  (same = true -> t <= 0) /\ (same = false -> 0 <= t).
Proof.
  unfold c, arc_center_gen, AR. cbn [a_add a_sub a_mul a_div a_neg a_sqrt a_gt a_zero a_one a_two]. cbv zeta.
  match goal with |- context [if (if Rgt_dec ?chk 1 then true else false) then _ else _] => destruct (Rgt_dec chk 1) as [G|G] end;
    cbn [ac_rx ac_ry ac_cxp ac_cyp ac_x1p ac_y1p];
    match goal with |- context [if (if Rgt_dec ?a 0 then true else false) then sqrt ?a else 0] =>
      set (st := if (if Rgt_dec a 0 then true else false) then sqrt a else 0);
      assert (Hst : 0 <= st) by (unfold st; destruct (Rgt_dec a 0); [apply sqrt_pos|lra]) end;
    (exists (if same then - st else st); split; [reflexivity|]; split; [destruct same; unfold Rdiv; ring|];
     split; intros ->; lra).
Qed.

Lemma cross_sign : exists t, (same = true -> t <= 0) /\ (same = false -> 0 <= t) /\
  ax * by_ - ay * bx = 2 * t * (ac_x1p c * ac_x1p c / (ac_rx c * ac_rx c) + ac_y1p c * ac_y1p c / (ac_ry c * ac_ry c)).
Proof.
  destruct centre_shape as (t & Ex & Ey & T1 & T2). destruct radii_pos as [Prx Pry].
  exists t. split; [exact T1|]. split; [exact T2|].
  unfold ax, ay, bx, by_, ux, uy, vx, vy. fold c. rewrite Ex, Ey. field. split; lra.
Qed.

Lemma primed_nonzero : 0 < ac_x1p c * ac_x1p c / (ac_rx c * ac_rx c) + ac_y1p c * ac_y1p c / (ac_ry c * ac_ry c).
Proof.
  destruct radii_pos as [Prx Pry].
  assert (H0 : 0 < ac_x1p c * ac_x1p c + ac_y1p c * ac_y1p c).
  { pose proof (x1p_nonzero x1 y1 x2 y2 co si Hcs Hdist) as H. cbv zeta in H.
    unfold c, arc_center_gen, AR. cbn [a_add a_sub a_mul a_div a_neg a_sqrt a_gt a_zero a_one a_two]. cbv zeta.
    match goal with |- context [if (if Rgt_dec ?chk 1 then true else false) then _ else _] => destruct (Rgt_dec chk 1) end;
      cbn [ac_x1p ac_y1p]; exact H. }
  assert (A : 0 <= ac_x1p c * ac_x1p c / (ac_rx c * ac_rx c)) by (apply Rmult_le_pos; [nra|left; apply Rinv_0_lt_compat; nra]).
  assert (B : 0 <= ac_y1p c * ac_y1p c / (ac_ry c * ac_ry c)) by (apply Rmult_le_pos; [nra|left; apply Rinv_0_lt_compat; nra]).
  destruct (Req_dec (ac_x1p c) 0) as [Zx|Nx].
  - assert (0 < ac_y1p c * ac_y1p c) by (rewrite Zx in H0; lra).
    assert (0 < ac_y1p c * ac_y1p c / (ac_ry c * ac_ry c)) by (apply Rmult_lt_0_compat; [lra|apply Rinv_0_lt_compat; nra]). lra.
  - assert (0 < ac_x1p c * ac_x1p c) by nra.
    assert (0 < ac_x1p c * ac_x1p c / (ac_rx c * ac_rx c)) by (apply Rmult_lt_0_compat; [lra|apply Rinv_0_lt_compat; nra]). lra.
Qed.

(* the two unit vectors differ (the end points do), so the unadjusted sweep is not zero *)
Lemma d0_nonzero : d0 <> 0.
Proof.
  intros Z. destruct d0_spec as (Cd & Sd & _). rewrite Z, cos_0 in Cd. rewrite Z, sin_0 in Sd.
  destruct units as [Ua Ub].
  (* dot = 1 and cross = 0 with unit vectors: a = b *)
  assert (Hsq : (ax - bx) * (ax - bx) + (ay - by_) * (ay - by_) = 0).
  { replace ((ax - bx) * (ax - bx) + (ay - by_) * (ay - by_))
      with ((ax * ax + ay * ay) + (bx * bx + by_ * by_) - 2 * (ax * bx + ay * by_)) by ring. lra. }
  assert (Eab : ax = bx /\ ay = by_).
  { assert (0 <= (ax - bx) * (ax - bx)) by nra. assert (0 <= (ay - by_) * (ay - by_)) by nra.
    assert ((ax - bx) * (ax - bx) = 0) by lra. assert ((ay - by_) * (ay - by_) = 0) by lra.
    split; nra. }
  destruct Eab as [E1 E2]. destruct radii_pos as [Prx Pry].
  unfold ax, bx, ay, by_, ux, uy, vx, vy in E1, E2. fold c in E1, E2.
  assert (X0 : ac_x1p c = 0).
  { apply (Rmult_eq_compat_r (ac_rx c)) in E1. unfold Rdiv in E1. rewrite !Rmult_assoc, !Rinv_l, !Rmult_1_r in E1 by lra. lra. }
  assert (Y0 : ac_y1p c = 0).
  { apply (Rmult_eq_compat_r (ac_ry c)) in E2. unfold Rdiv in E2. rewrite !Rmult_assoc, !Rinv_l, !Rmult_1_r in E2 by lra. lra. }
  pose proof primed_nonzero as P. rewrite X0, Y0 in P. unfold Rdiv in P. rewrite !Rmult_0_l in P. lra.
Qed.

(* the large-arc flag selects the sweep of magnitude at least pi, its absence the one of at most pi *)
Theorem large_arc_flag (large : bool) : same = Bool.eqb large sweep ->
  (large = true -> PI <= Rabs dth) /\ (large = false -> Rabs dth <= PI).
Proof.
  intros Hsame. destruct cross_sign as (t & T1 & T2 & Cr). destruct d0_spec as (_ & Sd & Hb). pose proof primed_nonzero as Pz.
  pose proof d0_nonzero as Dz. pose proof PI_RGT_0 as Hpi.
  set (W := ac_x1p c * ac_x1p c / (ac_rx c * ac_rx c) + ac_y1p c * ac_y1p c / (ac_ry c * ac_ry c)) in *.
  assert (Hsin : sin d0 = 2 * t * W) by lra.
  (* the sign of d0 follows the sign of t *)
  assert (Hneg : t <= 0 -> d0 < 0 \/ d0 = PI).
  { intros Ht. destruct (Rlt_dec d0 0) as [L|L]; [left; exact L|right].
    destruct (Req_dec d0 PI) as [E|N]; [exact E|exfalso].
    assert (0 < d0 < PI) by lra. pose proof (sin_gt_0 d0 ltac:(lra) ltac:(lra)). nra. }
  assert (Hpos : 0 <= t -> 0 < d0).
  { intros Ht. destruct (Rlt_dec 0 d0) as [L|L]; [exact L|exfalso].
    assert (- PI < d0 < 0) by lra. pose proof (sin_lt_0_var d0 ltac:(lra) ltac:(lra)). nra. }
  (* the adjustment *)
  assert (Hd : dth = if sweep then (if Rlt_dec d0 0 then d0 + 2 * PI else d0) else (if Rgt_dec d0 0 then d0 - 2 * PI else d0)).
  { unfold dth, arc_angles_gen. cbn [snd]. cbn [AR a_one a_zero a_div a_sub a_neg a_add a_lt a_gt a_twopi].
    fold c. change ((ac_x1p c - ac_cxp c) / ac_rx c) with ax. change ((ac_y1p c - ac_cyp c) / ac_ry c) with ay.
    change ((- ac_x1p c - ac_cxp c) / ac_rx c) with bx. change ((- ac_y1p c - ac_cyp c) / ac_ry c) with by_.
    fold d0. destruct sweep; [destruct (Rlt_dec d0 0)|destruct (Rgt_dec d0 0)]; reflexivity. }
  rewrite Hd. destruct large, sweep; cbn [Bool.eqb] in Hsame; split; intros Hl; try discriminate.
  - (* large, sweep: t <= 0 *) destruct (Hneg (T1 Hsame)) as [L|E].
    + destruct (Rlt_dec d0 0); [|lra]. rewrite Rabs_pos_eq by lra. lra.
    + destruct (Rlt_dec d0 0); [lra|]. rewrite E, Rabs_pos_eq by lra. lra.
  - (* large, no sweep: t >= 0 *) pose proof (Hpos (T2 Hsame)) as P. destruct (Rgt_dec d0 0); [|lra].
    rewrite Rabs_left by lra. lra.
  - (* small, sweep: t >= 0 *) pose proof (Hpos (T2 Hsame)) as P. destruct (Rlt_dec d0 0); [lra|]. rewrite Rabs_pos_eq by lra. lra.
  - (* small, no sweep: t <= 0 *) destruct (Hneg (T1 Hsame)) as [L|E].
    + destruct (Rgt_dec d0 0); [lra|]. rewrite Rabs_left by lra. lra.
    + destruct (Rgt_dec d0 0); [|lra]. rewrite E. replace (PI - 2 * PI) with (- PI) by lra. rewrite Rabs_Ropp, Rabs_pos_eq by lra. lra.
Qed.

End Angles.

(* ArcCtrl.v — the control points of the cubic segments of an arc (C06).
   arc_ctrl_gen is the control-point computation of arcSegmentTo (render/render.go) written over abstract numeric
   operations; its float64 instance is literally what the model's Arc.arc_segment computes (arc_segment_ctrl, by
   reflexivity), and over the reals:
     - the first control point is the segment's start point plus t times the derivative of the ellipse parametrisation
       there, the second is the end point minus t times the derivative there (the control polygon is tangent to the
       ellipse at both ends), with t = 4/3 tan(delta/4);
     - the cubic's point at parameter 1/2 is the ellipse's point at the middle angle, so every segment passes through
       the ellipse at its two ends and in the middle.
   All in the unit frame of the ellipse (before rotation by phi and translation by the centre, which are affine and
   applied identically to all four points of a cubic). *)
From Coq Require Import Reals Lra ZArith Bool List.
From IVG Require Import SF NumCodec Color Calls Render GoMath Arc ArcR.
Import ListNotations.

Record ctrlops (T : Type) := mkCtrlOps { c_ops : arcops T; c_half : T; c_three : T; c_eight : T }.
Arguments c_ops {T}. Arguments c_half {T}. Arguments c_three {T}. Arguments c_eight {T}.

Definition arc_t_gen {T} (C : ctrlops T) (theta1 theta2 : T) : T :=
  let O := c_ops C in
  let hdt := a_mul O (a_sub O theta2 theta1) (c_half C) in
  let q := a_sin O (a_mul O hdt (c_half C)) in
  a_div O (a_mul O (a_mul O (c_eight C) q) q) (a_mul O (c_three C) (a_sin O hdt)).

(* (x1, y1, x2, y2): the two inner control points in the ellipse's own frame *)
Definition arc_ctrl_gen {T} (C : ctrlops T) (theta1 theta2 rx ry : T) : T * T * T * T :=
  let O := c_ops C in
  let t := arc_t_gen C theta1 theta2 in
  let cos1 := a_cos O theta1 in let sin1 := a_sin O theta1 in
  let cos2 := a_cos O theta2 in let sin2 := a_sin O theta2 in
  (a_mul O rx (a_sub O cos1 (a_mul O t sin1)),
   a_mul O ry (a_add O sin1 (a_mul O t cos1)),
   a_mul O rx (a_add O cos2 (a_mul O t sin2)),
   a_mul O ry (a_sub O sin2 (a_mul O t cos2))).

Definition C64 : ctrlops Z := mkCtrlOps Z A64 k_half k_three k_eight.
Definition CR : ctrlops R := mkCtrlOps R AR (/ 2)%R 3%R 8%R.

(* the model's segment uses exactly these control points *)
Lemma arc_segment_ctrl (s : S) cx cy theta1 theta2 rx ry cosphi sinphi :
  arc_segment s cx cy theta1 theta2 rx ry cosphi sinphi =
  let '(x1, y1, x2, y2) := arc_ctrl_gen C64 theta1 theta2 rx ry in
  let px (x y : Z) := absX N32 s (to32 (dsub (dadd cx (dmul cosphi x)) (dmul sinphi y))) in
  let py (x y : Z) := absY N32 s (to32 (dadd (dadd cy (dmul sinphi x)) (dmul cosphi y))) in
  let p3 := arc_point_gen A64 cx cy rx ry cosphi sinphi theta2 in
  emit_keep N32 s (RCubeTo (px x1 y1) (py x1 y1) (px x2 y2) (py x2 y2)
                           (absX N32 s (to32 (fst p3))) (absY N32 s (to32 (snd p3)))).
Proof.
  unfold arc_segment, arc_ctrl_gen, arc_t_gen, C64.
  cbn [c_ops c_half c_three c_eight A64 a_mul a_sub a_add a_div a_sin a_cos]. reflexivity.
Qed.

Local Open Scope R_scope.

Section CtrlR.
Variables theta1 theta2 rx ry : R.
Let h := (theta2 - theta1) / 2.
Hypothesis Hh : sin h <> 0.

Let t := arc_t_gen CR theta1 theta2.

Lemma t_value : t = 8 * sin (h / 2) * sin (h / 2) / (3 * sin h).
Proof.
  unfold t, arc_t_gen. cbn [CR c_ops c_half c_three c_eight AR a_mul a_sub a_sin a_div].
  unfold h. replace ((theta2 - theta1) * / 2) with ((theta2 - theta1) / 2) by (unfold Rdiv; ring).
  replace ((theta2 - theta1) / 2 * / 2) with ((theta2 - theta1) / 2 / 2) by (unfold Rdiv; ring). reflexivity.
Qed.

(* t = 4/3 tan(h/2) *)
Lemma sin_h_split : sin h = 2 * sin (h / 2) * cos (h / 2).
Proof. replace h with (2 * (h / 2)) at 1 by field. apply sin_2a. Qed.

Lemma cos_half_nonzero : cos (h / 2) <> 0.
Proof. intros Z. apply Hh. rewrite sin_h_split, Z. ring. Qed.

Theorem t_is_tan : t = 4 / 3 * tan (h / 2).
Proof.
  rewrite t_value. unfold tan. rewrite sin_h_split.
  assert (S : sin (h / 2) <> 0) by (intros Z; apply Hh; rewrite sin_h_split, Z; ring).
  pose proof cos_half_nonzero as Cn. field. split; assumption.
Qed.

(* the key identity:  3/4 t sin h = 1 - cos h *)
Lemma t_key : 3 * t * sin h = 4 * (1 - cos h).
Proof.
  rewrite t_value.
  assert (E : cos h = 1 - 2 * sin (h / 2) * sin (h / 2)).
  { replace h with (2 * (h / 2)) at 1 by field. apply cos_2a_sin. }
  rewrite E. field. exact Hh.
Qed.

(* the ellipse in its own frame, and the derivative of the parametrisation *)
Definition Px (a : R) := rx * cos a.   Definition Py (a : R) := ry * sin a.
Definition Dx (a : R) := - rx * sin a. Definition Dy (a : R) := ry * cos a.

Theorem ctrl_tangent :
  let '(x1, y1, x2, y2) := arc_ctrl_gen CR theta1 theta2 rx ry in
  x1 = Px theta1 + t * Dx theta1 /\ y1 = Py theta1 + t * Dy theta1 /\
  x2 = Px theta2 - t * Dx theta2 /\ y2 = Py theta2 - t * Dy theta2.
Proof.
  unfold arc_ctrl_gen. fold t. cbn [CR c_ops AR a_mul a_sub a_add a_cos a_sin].
  unfold Px, Py, Dx, Dy. repeat split; ring.
Qed.

Lemma sum_cos : cos theta1 + cos theta2 = 2 * cos ((theta1 + theta2) / 2) * cos h.
Proof.
  rewrite form1. unfold h.
  replace ((theta1 - theta2) / 2) with (- ((theta2 - theta1) / 2)) by field. rewrite cos_neg.
  replace ((theta1 + theta2) / 2) with ((theta1 + theta2) / 2) by reflexivity. ring.
Qed.

Lemma sum_sin : sin theta1 + sin theta2 = 2 * sin ((theta1 + theta2) / 2) * cos h.
Proof.
  rewrite form3. unfold h.
  replace ((theta1 - theta2) / 2) with (- ((theta2 - theta1) / 2)) by field. rewrite cos_neg. ring.
Qed.

Lemma diff_sin : sin theta2 - sin theta1 = 2 * cos ((theta1 + theta2) / 2) * sin h.
Proof.
  rewrite form4. unfold h. replace ((theta2 + theta1) / 2) with ((theta1 + theta2) / 2) by field. ring.
Qed.

Lemma diff_cos : cos theta1 - cos theta2 = 2 * sin ((theta1 + theta2) / 2) * sin h.
Proof.
  rewrite form2. unfold h.
  replace ((theta1 - theta2) / 2) with (- ((theta2 - theta1) / 2)) by field. rewrite sin_neg. ring.
Qed.

(* the Bezier point at parameter 1/2 is the ellipse point at the middle angle *)
Theorem ctrl_midpoint :
  let '(x1, y1, x2, y2) := arc_ctrl_gen CR theta1 theta2 rx ry in
  (Px theta1 + 3 * x1 + 3 * x2 + Px theta2) / 8 = Px ((theta1 + theta2) / 2) /\
  (Py theta1 + 3 * y1 + 3 * y2 + Py theta2) / 8 = Py ((theta1 + theta2) / 2).
Proof.
  unfold arc_ctrl_gen. fold t. cbn [CR c_ops AR a_mul a_sub a_add a_cos a_sin].
  unfold Px, Py. set (m := (theta1 + theta2) / 2).
  pose proof t_key as K. pose proof sum_cos as SC. pose proof sum_sin as SS. pose proof diff_sin as DS. pose proof diff_cos as DC.
  fold m in SC, SS, DS, DC.
  split.
  - replace ((rx * cos theta1 + 3 * (rx * (cos theta1 - t * sin theta1)) + 3 * (rx * (cos theta2 + t * sin theta2)) + rx * cos theta2) / 8)
      with (rx * (4 * (cos theta1 + cos theta2) + 3 * t * (sin theta2 - sin theta1)) / 8) by (unfold Rdiv; ring).
    rewrite SC, DS.
    replace (rx * (4 * (2 * cos m * cos h) + 3 * t * (2 * cos m * sin h)) / 8)
      with (rx * cos m * (4 * cos h + 3 * t * sin h) / 4) by (unfold Rdiv; field).
    rewrite K. field.
  - replace ((ry * sin theta1 + 3 * (ry * (sin theta1 + t * cos theta1)) + 3 * (ry * (sin theta2 - t * cos theta2)) + ry * sin theta2) / 8)
      with (ry * (4 * (sin theta1 + sin theta2) + 3 * t * (cos theta1 - cos theta2)) / 8) by (unfold Rdiv; ring).
    rewrite SS, DC.
    replace (ry * (4 * (2 * sin m * cos h) + 3 * t * (2 * sin m * sin h)) / 8)
      with (ry * sin m * (4 * cos h + 3 * t * sin h) / 4) by (unfold Rdiv; field).
    rewrite K. field.
Qed.
End CtrlR.

(* ArcProofs.v — structural facts about the float model of AbsArcTo / RelArcTo (C06). *)
From Coq Require Import ZArith Bool List Lia.
From IVG Require Import SF NumCodec Color Calls Render GoMath Arc RenderProofs.
Import ListNotations.
Local Open Scope Z_scope.

Definition is_cube (c : rcall f32) : bool := match c with RCubeTo _ _ _ _ _ _ => true | _ => false end.

Lemma arc_segment_log s cx cy t1 t2 rx ry cp sp :
  exists c, is_cube c = true /\ r_log (arc_segment s cx cy t1 t2 rx ry cp sp) = r_log s ++ [c].
Proof. unfold arc_segment. eexists. split; [|destruct s; reflexivity]. reflexivity. Qed.

Lemma arc_loop_log k : forall i n s cx cy t1 dt rx ry cp sp,
  exists l, length l = k /\ forallb is_cube l = true /\
            r_log (arc_loop k i n s cx cy t1 dt rx ry cp sp) = r_log s ++ l.
Proof.
  induction k as [|k IH]; intros; cbn [arc_loop].
  - exists []. rewrite app_nil_r. auto.
  - set (s1 := arc_segment s cx cy _ _ rx ry cp sp).
    destruct (arc_segment_log s cx cy (dadd t1 (ddiv (dmul dt (of_Z F64 i)) (of_Z F64 n))) (dadd t1 (ddiv (dmul dt (of_Z F64 (i + 1))) (of_Z F64 n))) rx ry cp sp) as (c & Hc & L1).
    destruct (IH (i + 1) n s1 cx cy t1 dt rx ry cp sp) as (l & Ll & Fl & L2).
    exists (c :: l). cbn [length forallb]. rewrite Hc, Fl, L2. fold s1 in L1. rewrite L1, <- app_assoc. auto.
Qed.

(* an arc with a zero (or negative-zero, or NaN) radius is a straight line to the mapped end point *)
Theorem arc_zero_radius s rx ry rot la sw x y :
  negb (fgt F64 (dabs (to64 rx)) d0 && fgt F64 (dabs (to64 ry)) d0) = true ->
  r_log (abs_arc s rx ry rot la sw x y) = r_log s ++ [RLineTo (absX N32 s x) (absY N32 s y)].
Proof.
  intros H. unfold abs_arc. rewrite H. destruct s; reflexivity.
Qed.

(* otherwise: n cubic segments and nothing else, n being the subdivision count of the centre parameterisation *)
Theorem arc_is_cubics s rx ry rot la sw x y :
  negb (fgt F64 (dabs (to64 rx)) d0 && fgt F64 (dabs (to64 ry)) d0) = false ->
  let s0 := set_pst_none s in
  let p := arc_params (to64 (unabsX N32 s0 (z_penx s0))) (to64 (unabsY N32 s0 (z_peny s0)))
                      (dabs (to64 rx)) (dabs (to64 ry)) rot la sw x y in
  exists l, length l = Z.to_nat (ap_n p) /\ forallb is_cube l = true /\
            r_log (abs_arc s rx ry rot la sw x y) = r_log s ++ l.
Proof.
  intros H. cbv zeta. unfold abs_arc. rewrite H. cbv zeta.
  match goal with |- context [arc_loop ?k ?i ?n ?s0 ?a ?b ?c ?d ?e ?f ?g ?h] =>
    destruct (arc_loop_log k i n s0 a b c d e f g h) as (l & Ll & Fl & L) end.
  exists l. split; [exact Ll|]. split; [exact Fl|]. rewrite L. destruct s; reflexivity.
Qed.

(* the relative form is the absolute form at the pen plus the scaled offset, converted back to viewBox space *)
Theorem rel_is_abs s rx ry rot la sw x y :
  arc32 s true rx ry rot la sw x y =
  abs_arc s rx ry rot la sw (unabsX N32 s (relVX N32 s x)) (unabsY N32 s (relVY N32 s y)).
Proof. reflexivity. Qed.

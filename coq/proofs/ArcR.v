(* ArcR.v — the endpoint-to-centre conversion of AbsArcTo over the reals (C06): both end points of an arc lie
   on the ellipse with the computed centre, the (possibly scaled-up) radii and the requested rotation. *)
From Coq Require Import Reals Lra ZArith Bool List.
From IVG Require Import SF NumCodec Color Calls Render GoMath Arc GeomR.
Import ListNotations.
Local Open Scope R_scope.

Definition AR : arcops R :=
  mkArcOps R Rplus Rminus Rmult Rdiv Ropp sqrt (fun x y => if Rgt_dec x y then true else false) 0 1 2
           (fun x y => if Rle_dec x y then true else false) (fun x y => if Rge_dec x y then true else false)
           (fun x y => if Rlt_dec x y then true else false) PI (2 * PI) acos cos sin.

Lemma quad_pos a b x y : 0 < a -> 0 < b -> 0 < x * x + y * y -> 0 < a * (x * x) + b * (y * y).
Proof.
  intros Ha Hb H. assert (0 <= x * x) by nra. assert (0 <= y * y) by nra.
  destruct (Req_dec (x * x) 0) as [Zx|Nx].
  - assert (0 < y * y) by lra. nra.
  - assert (0 < x * x) by lra. nra.
Qed.

Lemma sq_key X Y s : (X * X + Y * Y) * (1 + s * s) = 1 -> (X - s * Y) * (X - s * Y) + (Y + s * X) * (Y + s * X) = 1.
Proof. intros H. rewrite <- H. ring. Qed.

Section Center.
Variables x1 y1 x2 y2 Rx Ry co si : R.
Variable same : bool.
Hypothesis HRx : 0 < Rx.
Hypothesis HRy : 0 < Ry.
Hypothesis Hcs : co * co + si * si = 1.
Hypothesis Hdist : x1 <> x2 \/ y1 <> y2.

Let c := arc_center_gen AR x1 y1 x2 y2 Rx Ry co si same.

(* the unit vectors of step 4: start and end point in the unit-circle frame of the ellipse *)
Definition ux := (ac_x1p c - ac_cxp c) / ac_rx c.
Definition uy := (ac_y1p c - ac_cyp c) / ac_ry c.
Definition vx := (- ac_x1p c - ac_cxp c) / ac_rx c.
Definition vy := (- ac_y1p c - ac_cyp c) / ac_ry c.

Lemma x1p_nonzero :
  let hdx := (x1 - x2) / 2 in let hdy := (y1 - y2) / 2 in
  let x1p := co * hdx + si * hdy in let y1p := - si * hdx + co * hdy in
  0 < x1p * x1p + y1p * y1p.
Proof.
  cbv zeta. set (hdx := (x1 - x2) / 2). set (hdy := (y1 - y2) / 2).
  assert (E : (co * hdx + si * hdy) * (co * hdx + si * hdy) + (- si * hdx + co * hdy) * (- si * hdx + co * hdy)
              = (co * co + si * si) * (hdx * hdx + hdy * hdy)) by ring.
  rewrite E, Hcs, Rmult_1_l.
  assert (hdx <> 0 \/ hdy <> 0) as [H|H] by (unfold hdx, hdy; destruct Hdist; [left|right]; lra).
  - assert (0 < hdx * hdx) by (destruct (Rdichotomy _ _ H); nra). nra.
  - assert (0 < hdy * hdy) by (destruct (Rdichotomy _ _ H); nra). nra.
Qed.

Ltac open_center :=
  unfold c, arc_center_gen, AR;
  cbn [a_add a_sub a_mul a_div a_neg a_sqrt a_gt a_zero a_one a_two];
  set (hdx := (x1 - x2) / 2); set (hdy := (y1 - y2) / 2);
  set (x1p := co * hdx + si * hdy); set (y1p := - si * hdx + co * hdy).

(* the start and end points are recovered from the centre: rotate the primed offsets back by phi *)
Theorem start_point :
  ac_cx c + co * (ac_x1p c - ac_cxp c) - si * (ac_y1p c - ac_cyp c) = x1 /\
  ac_cy c + si * (ac_x1p c - ac_cxp c) + co * (ac_y1p c - ac_cyp c) = y1.
Proof.
  open_center.
  destruct (Rgt_dec _ 1); cbn [ac_cx ac_cy ac_x1p ac_y1p ac_cxp ac_cyp];
  (split; [ match goal with |- ?L = _ => replace L with ((x1 + x2) / 2 + (co * co + si * si) * hdx) by (unfold x1p, y1p; ring) end
          | match goal with |- ?L = _ => replace L with ((y1 + y2) / 2 + (co * co + si * si) * hdy) by (unfold x1p, y1p; ring) end ];
   rewrite Hcs; unfold hdx, hdy; lra).
Qed.

Theorem end_point :
  ac_cx c + co * (- ac_x1p c - ac_cxp c) - si * (- ac_y1p c - ac_cyp c) = x2 /\
  ac_cy c + si * (- ac_x1p c - ac_cxp c) + co * (- ac_y1p c - ac_cyp c) = y2.
Proof.
  open_center.
  destruct (Rgt_dec _ 1); cbn [ac_cx ac_cy ac_x1p ac_y1p ac_cxp ac_cyp];
  (split; [ match goal with |- ?L = _ => replace L with ((x1 + x2) / 2 - (co * co + si * si) * hdx) by (unfold x1p, y1p; ring) end
          | match goal with |- ?L = _ => replace L with ((y1 + y2) / 2 - (co * co + si * si) * hdy) by (unfold x1p, y1p; ring) end ];
   rewrite Hcs; unfold hdx, hdy; lra).
Qed.

(* the primed offsets divided by the radii are unit vectors: both end points lie on the ellipse *)
Lemma unit_core (X Y k s : R) : 0 < k -> X * X + Y * Y = k ->
  (k <= 1 -> (1 / k - 1 > 0 -> s * s = 1 / k - 1) /\ (~ 1 / k - 1 > 0 -> s = 0)) ->
  k <= 1 -> (X * X + Y * Y) * (1 + s * s) = 1.
Proof.
  intros Hk E H K. destruct (H K) as [H1 H2]. rewrite E.
  destruct (Rgt_dec (1 / k - 1) 0) as [G|G].
  - rewrite (H1 G). field. lra.
  - rewrite (H2 G).
    assert (I : / k * k = 1) by (apply Rinv_l; lra).
    assert (Ip : 0 < / k) by (apply Rinv_0_lt_compat; lra).
    assert (K1 : k = 1) by (unfold Rdiv in G; rewrite Rmult_1_l in G; nra).
    subst k. lra.
Qed.

Theorem unit_vectors : ux * ux + uy * uy = 1 /\ vx * vx + vy * vy = 1.
Proof.
  pose proof x1p_nonzero as NZ. cbv zeta in NZ.
  unfold ux, uy, vx, vy. open_center. fold hdx hdy in NZ. fold x1p y1p in NZ.
  set (k := x1p * x1p / (Rx * Rx) + y1p * y1p / (Ry * Ry)).
  assert (Kpos : 0 < k).
  { unfold k. assert (0 <= x1p * x1p / (Rx * Rx)) by (apply Rmult_le_pos; [nra|left; apply Rinv_0_lt_compat; nra]).
    assert (0 <= y1p * y1p / (Ry * Ry)) by (apply Rmult_le_pos; [nra|left; apply Rinv_0_lt_compat; nra]).
    destruct (Req_dec x1p 0) as [Zx|Nx].
    - assert (0 < y1p * y1p) by nra. assert (0 < y1p * y1p / (Ry * Ry)) by (apply Rmult_lt_0_compat; [lra|apply Rinv_0_lt_compat; nra]). lra.
    - assert (0 < x1p * x1p) by (destruct (Rdichotomy _ _ Nx); nra).
      assert (0 < x1p * x1p / (Rx * Rx)) by (apply Rmult_lt_0_compat; [lra|apply Rinv_0_lt_compat; nra]). lra. }
  destruct (Rgt_dec k 1) as [G|G]; cbn [ac_rx ac_ry ac_x1p ac_y1p ac_cxp ac_cyp].
  - (* radii scaled up by sqrt k: the centre is the midpoint (step2 = 0) *)
    set (q := sqrt k). assert (Q : q * q = k) by (apply sqrt_sqrt; lra). assert (Qp : 0 < q) by (apply sqrt_lt_R0; lra).
    assert (A0 : Rx * q * (Rx * q) * (Ry * q * (Ry * q)) / (Rx * q * (Rx * q) * (y1p * y1p) + Ry * q * (Ry * q) * (x1p * x1p)) - 1 = 0).
    { assert (D : Rx * q * (Rx * q) * (y1p * y1p) + Ry * q * (Ry * q) * (x1p * x1p) = Rx * Rx * (Ry * Ry) * (q * q) * k).
      { unfold k. field. split; lra. }
      rewrite D. replace (Rx * q * (Rx * q) * (Ry * q * (Ry * q))) with (Rx * Rx * (Ry * Ry) * (q * q) * (q * q)) by ring.
      rewrite !Q. field. repeat split; lra. }
    rewrite A0. destruct (Rgt_dec 0 0) as [B|B]; [lra|].
    assert (St : (if same then - 0 else 0) = 0) by (destruct same; lra). rewrite St.
    assert (U : x1p / (Rx * q) * (x1p / (Rx * q)) + y1p / (Ry * q) * (y1p / (Ry * q)) = 1).
    { replace (x1p / (Rx * q) * (x1p / (Rx * q)) + y1p / (Ry * q) * (y1p / (Ry * q))) with (k / (q * q)) by (unfold k; field; repeat split; lra).
      rewrite Q. field. lra. }
    split.
    + replace ((x1p - 0 * (Rx * q) * y1p / (Ry * q)) / (Rx * q)) with (x1p / (Rx * q)) by (field; repeat split; lra).
      replace ((y1p - - 0 * (Ry * q) * x1p / (Rx * q)) / (Ry * q)) with (y1p / (Ry * q)) by (field; repeat split; lra). exact U.
    + replace ((- x1p - 0 * (Rx * q) * y1p / (Ry * q)) / (Rx * q)) with (- (x1p / (Rx * q))) by (field; repeat split; lra).
      replace ((- y1p - - 0 * (Ry * q) * x1p / (Rx * q)) / (Ry * q)) with (- (y1p / (Ry * q))) by (field; repeat split; lra).
      rewrite <- U. ring.
  - (* radii large enough *)
    assert (K1 : k <= 1) by lra.
    set (a := Rx * Rx * (Ry * Ry) / (Rx * Rx * (y1p * y1p) + Ry * Ry * (x1p * x1p)) - 1).
    assert (Ea : a = 1 / k - 1).
    { unfold a, k. field. repeat split; try lra;
        match goal with |- ?e <> 0 =>
          assert (0 < e); [|lra];
          first [ replace e with (Ry * Ry * (x1p * x1p) + Rx * Rx * (y1p * y1p)) by ring
                | replace e with (Rx * Rx * (y1p * y1p) + Ry * Ry * (x1p * x1p)) by ring ];
          first [ apply quad_pos; nra | rewrite Rplus_comm; apply quad_pos; nra ]
        end. }
    set (st0 := if (if Rgt_dec a 0 then true else false) then sqrt a else 0).
    set (st := if same then - st0 else st0).
    assert (Sq : st * st = st0 * st0) by (unfold st; destruct same; ring).
    assert (S0 : (1 / k - 1 > 0 -> st * st = 1 / k - 1) /\ (~ 1 / k - 1 > 0 -> st = 0)).
    { rewrite <- Ea. split; intros H.
      - rewrite Sq. unfold st0. destruct (Rgt_dec a 0); [apply sqrt_sqrt; lra|contradiction].
      - unfold st, st0. destruct (Rgt_dec a 0); [contradiction|destruct same; lra]. }
    set (X := x1p / Rx). set (Y := y1p / Ry).
    assert (XY : X * X + Y * Y = k) by (unfold X, Y, k; field; split; lra).
    pose proof (unit_core X Y k st Kpos XY (fun _ => S0) K1) as U.
    split.
    + replace ((x1p - st * Rx * y1p / Ry) / Rx) with (X - st * Y) by (unfold X, Y; field; split; lra).
      replace ((y1p - - st * Ry * x1p / Rx) / Ry) with (Y + st * X) by (unfold X, Y; field; split; lra).
      apply sq_key. exact U.
    + replace ((- x1p - st * Rx * y1p / Ry) / Rx) with (- (X + st * Y)) by (unfold X, Y; field; split; lra).
      replace ((- y1p - - st * Ry * x1p / Rx) / Ry) with (- (Y - st * X)) by (unfold X, Y; field; split; lra).
      replace (- (X + st * Y) * - (X + st * Y) + - (Y - st * X) * - (Y - st * X)) with ((X * X + Y * Y) * (1 + st * st)) by ring.
      exact U.
Qed.
End Center.

(* relative arcs: the end point, in viewBox space, is the pen plus the given offset *)
Theorem rel_endpoint (inj : f32 -> R) (s : rstate R) (x : R) : r_scx s <> 0 ->
  unabsX (NR inj) s (relVX (NR inj) s x) = unabsX (NR inj) s (z_penx s) + x.
Proof.
  intros H. unfold unabsX, relVX, relX, NR. cbn [n_add n_sub n_mul n_div]. field. exact H.
Qed.

(* at most four segments: a sweep of at most one turn needs at most four pieces of (pi/2 + 0.001) *)
Theorem four_segments (d : R) : 0 <= d <= 2 * PI -> d / (PI / 2 + 1 / 1000) <= 4.
Proof.
  intros [H0 H1]. pose proof PI_RGT_0 as P.
  apply (Rmult_le_reg_r (PI / 2 + 1 / 1000)); [lra|].
  replace (d / (PI / 2 + 1 / 1000) * (PI / 2 + 1 / 1000)) with d by (field; lra). lra.
Qed.

(* AtR.v — Gradient.At over the reals (C15): the range search returns the piece-wise linear interpolation of
   the stops at the offset, the first / last colour outside them, and premultiplied colours.  The term is
   Gradient.at_core_gen, whose float64 instance is the one compared with render/gradient.go. *)
From Coq Require Import Reals ZArith Bool List Lia Lra.
From IVG Require Import SF NumCodec Color Calls Render Gradient ClampR.
Import ListNotations.
Local Open Scope R_scope.

Definition Rat : atops R :=
  mkAtOps R (fun a b => if Rle_dec a b then true else false) (fun a b => if Rlt_dec a b then true else false)
          (fun x => if Rle_dec 0 x then true else false) Rplus Rminus Rmult Rdiv 1 IZR (fun x => (Int_part x mod 65536)%Z).

Definition stopsR := list (R * rgba).
Fixpoint incr (l : stopsR) : Prop :=
  match l with
  | (o0, _) :: (((o1, _) :: _) as rest) => o0 < o1 /\ incr rest
  | _ => True
  end.

Definition interpR (o0 o1 t : R) (c0 c1 : rgba) : rgba64 := interp_gen Rat o0 o1 t (c64_of c0) (c64_of c1).

Lemma incr_tail a l : incr (a :: l) -> incr l.
Proof. destruct a as [o c]. destruct l as [|[o1 c1] l]; cbn; tauto. Qed.

Lemma incr_head_lt pre : forall o c o' c' post, incr ((o, c) :: pre ++ (o', c') :: post) -> o < o'.
Proof.
  induction pre as [|[p cp] pre IH]; intros o c o' c' post H; cbn [app] in H.
  - exact (proj1 H).
  - destruct H as [H1 H2]. change (incr ((p, cp) :: pre ++ (o', c') :: post)) in H2. specialize (IH _ _ _ _ _ H2). lra.
Qed.

(* the search returns the interpolation in the range that contains the offset *)
Theorem search_locates pre : forall oa ca ob cb post t last,
  incr (pre ++ (oa, ca) :: (ob, cb) :: post) -> (match pre with [] => oa <= t | _ => oa < t end) -> t <= ob ->
  search_gen Rat (pre ++ (oa, ca) :: (ob, cb) :: post) t last = interpR oa ob t ca cb.
Proof.
  induction pre as [|[p cp] pre IH]; intros oa ca ob cb post t last Hi Ha Hb.
  - cbn [app search_gen Rat t_le]. destruct (Rle_dec oa t); [|lra]. destruct (Rle_dec t ob); [|lra]. reflexivity.
  - assert (Hp : p < oa) by (apply (incr_head_lt pre p cp oa ca _ Hi)).
    cbn [app]. destruct pre as [|[p1 cp1] pre'].
    + cbn [app search_gen Rat t_le]. destruct (Rle_dec p t); destruct (Rle_dec t oa); try lra; cbn [andb];
        apply (IH oa ca ob cb post t last (incr_tail _ _ Hi)); lra.
    + assert (Hp1 : p1 <= oa).
      { pose proof (incr_tail _ _ Hi) as Hi'. cbn [app] in Hi'. pose proof (incr_head_lt pre' p1 cp1 oa ca _ Hi'). lra. }
      cbn [app search_gen Rat t_le]. destruct (Rle_dec p t); destruct (Rle_dec t p1); try lra; cbn [andb];
        apply (IH oa ca ob cb post t last (incr_tail _ _ Hi)); lra.
Qed.

(* beyond the last stop: the last colour *)
Theorem search_beyond stops : forall t last, Forall (fun s => fst s < t) stops -> search_gen Rat stops t last = last.
Proof.
  induction stops as [|[o0 c0] stops IH]; intros t last F; [reflexivity|].
  destruct stops as [|[o1 c1] rest]; [reflexivity|].
  pose proof (Forall_inv (Forall_inv_tail F)) as H1. cbn [fst] in H1.
  cbn [search_gen Rat t_le]. destruct (Rle_dec t o1); [lra|]. rewrite andb_false_r. apply IH, (Forall_inv_tail F).
Qed.

(* the three regimes of Gradient.At at an offset t >= 0 *)
Theorem at_before_first o0 c0 rest t : 0 <= t -> t < o0 -> at_core_gen Rat ((o0, c0) :: rest) t = c64_of c0.
Proof.
  intros H0 H1. unfold at_core_gen. cbn [Rat t_ge0 t_lt]. destruct (Rle_dec 0 t); [|lra]. cbn [negb].
  destruct (Rlt_dec t o0); [reflexivity|lra].
Qed.

Theorem at_in_range pre oa ca ob cb post t :
  incr (pre ++ (oa, ca) :: (ob, cb) :: post) -> 0 <= t -> (match pre with [] => oa <= t | _ => oa < t end) -> t <= ob ->
  at_core_gen Rat (pre ++ (oa, ca) :: (ob, cb) :: post) t = interpR oa ob t ca cb.
Proof.
  intros Hi H0 Ha Hb. pose proof (search_locates pre oa ca ob cb post t) as SL.
  unfold at_core_gen. cbn [Rat t_ge0 t_lt]. destruct (Rle_dec 0 t); [|lra]. cbn [negb].
  destruct pre as [|[p cp] pre'].
  - cbn [app] in *. destruct (Rlt_dec t oa); [lra|]. apply SL; assumption.
  - cbn [app] in *. assert (p < oa) by (apply (incr_head_lt pre' p cp oa ca _ Hi)).
    destruct (Rlt_dec t p); [lra|]. apply SL; assumption.
Qed.

Theorem at_after_last o0 c0 rest t : 0 <= t -> Forall (fun s => fst s < t) ((o0, c0) :: rest) ->
  at_core_gen Rat ((o0, c0) :: rest) t = c64_of (snd (List.last ((o0, c0) :: rest) (o0, c0))).
Proof.
  intros H0 F. unfold at_core_gen. cbn [Rat t_ge0 t_lt]. destruct (Rle_dec 0 t); [|lra]. cbn [negb].
  pose proof (Forall_inv F) as H1. cbn [fst] in H1. destruct (Rlt_dec t o0); [lra|]. apply search_beyond, F.
Qed.

(* no colour below zero (spread none maps outside offsets to -1) *)
Theorem at_negative stops t : t < 0 -> at_core_gen Rat stops t = c64_zero.
Proof. intros H. unfold at_core_gen. cbn [Rat t_ge0]. destruct (Rle_dec 0 t); [lra|reflexivity]. Qed.

(* ---------- the interpolated colour ---------- *)
Definition chR (o0 o1 t : R) (a b : Z) : Z := (Int_part ((1 - (t - o0) / (o1 - o0)) * IZR a + (t - o0) / (o1 - o0) * IZR b) mod 65536)%Z.

Lemma interpR_channels o0 o1 t c0 c1 :
  interpR o0 o1 t c0 c1 =
  mkC64 (chR o0 o1 t (c_r (c64_of c0)) (c_r (c64_of c1))) (chR o0 o1 t (c_g (c64_of c0)) (c_g (c64_of c1)))
        (chR o0 o1 t (c_b (c64_of c0)) (c_b (c64_of c1))) (chR o0 o1 t (c_a (c64_of c0)) (c_a (c64_of c1))).
Proof. reflexivity. Qed.

Lemma int_part_IZR z : Int_part (IZR z) = z.
Proof. apply (int_part_unique (IZR z) z 0); lra. Qed.

(* at a stop's own offset the colour is the stop's colour *)
Lemma chR_left o0 o1 a b : o0 < o1 -> (0 <= a < 65536)%Z -> chR o0 o1 o0 a b = a.
Proof.
  intros H Ha. unfold chR. replace ((o0 - o0) / (o1 - o0)) with 0 by (field; lra).
  replace ((1 - 0) * IZR a + 0 * IZR b) with (IZR a) by lra. rewrite int_part_IZR. apply Z.mod_small, Ha.
Qed.
Lemma chR_right o0 o1 a b : o0 < o1 -> (0 <= b < 65536)%Z -> chR o0 o1 o1 a b = b.
Proof.
  intros H Hb. unfold chR. replace ((o1 - o0) / (o1 - o0)) with 1 by (field; lra).
  replace ((1 - 1) * IZR a + 1 * IZR b) with (IZR b) by lra. rewrite int_part_IZR. apply Z.mod_small, Hb.
Qed.

Definition chan16 (c : rgba) : Prop := (0 <= cr c <= 255 /\ 0 <= cg c <= 255 /\ 0 <= cb c <= 255 /\ 0 <= ca c <= 255)%Z.

Theorem interp_at_stops o0 o1 c0 c1 : o0 < o1 -> chan16 c0 -> chan16 c1 ->
  interpR o0 o1 o0 c0 c1 = c64_of c0 /\ interpR o0 o1 o1 c0 c1 = c64_of c1.
Proof.
  intros H (A1 & A2 & A3 & A4) (B1 & B2 & B3 & B4). rewrite !interpR_channels. unfold c64_of. cbn [c_r c_g c_b c_a].
  split; f_equal; first [apply chR_left|apply chR_right]; try assumption; lia.
Qed.

(* between two stops every channel lies between the stops' channels and stays premultiplied *)
Lemma chR_bounds o0 o1 t a b : o0 < o1 -> o0 <= t <= o1 -> (0 <= a < 65536)%Z -> (0 <= b < 65536)%Z ->
  (Z.min a b <= chR o0 o1 t a b <= Z.max a b)%Z /\
  chR o0 o1 t a b = Int_part ((1 - (t - o0) / (o1 - o0)) * IZR a + (t - o0) / (o1 - o0) * IZR b).
Proof.
  intros H Ht Ha Hb. unfold chR. set (u := (t - o0) / (o1 - o0)).
  assert (Hu : 0 <= u <= 1).
  { unfold u. split; [apply Rmult_le_pos; [lra|left; apply Rinv_0_lt_compat; lra]|].
    apply (Rmult_le_reg_r (o1 - o0)); [lra|]. unfold Rdiv. rewrite Rmult_assoc, Rinv_l by lra. lra. }
  set (v := (1 - u) * IZR a + u * IZR b).
  assert (Hv : IZR (Z.min a b) <= v <= IZR (Z.max a b)).
  { pose proof (IZR_le _ _ (Z.le_min_l a b)). pose proof (IZR_le _ _ (Z.le_min_r a b)).
    pose proof (IZR_le _ _ (Z.le_max_l a b)). pose proof (IZR_le _ _ (Z.le_max_r a b)). unfold v. split; nra. }
  assert (Hi : (Z.min a b <= Int_part v <= Z.max a b)%Z).
  { split.
    - rewrite <- (int_part_IZR (Z.min a b)). apply trunc_mono. lra.
    - rewrite <- (int_part_IZR (Z.max a b)). apply trunc_mono. lra. }
  rewrite Z.mod_small by lia. split; [exact Hi|reflexivity].
Qed.

Theorem interp_premultiplied o0 o1 t c0 c1 : o0 < o1 -> o0 <= t <= o1 -> chan16 c0 -> chan16 c1 ->
  valid_premul c0 = true -> valid_premul c1 = true ->
  let c := interpR o0 o1 t c0 c1 in (c_r c <= c_a c /\ c_g c <= c_a c /\ c_b c <= c_a c)%Z.
Proof.
  intros H Ht (A1 & A2 & A3 & A4) (B1 & B2 & B3 & B4) V0 V1. cbv zeta. rewrite interpR_channels. cbn [c_r c_g c_b c_a c64_of].
  unfold valid_premul in V0, V1. apply andb_true_iff in V0 as [V0 V0b]. apply andb_true_iff in V0 as [V0r V0g].
  apply andb_true_iff in V1 as [V1 V1b]. apply andb_true_iff in V1 as [V1r V1g].
  apply Z.leb_le in V0r, V0g, V0b, V1r, V1g, V1b.
  assert (Hu : 0 <= (t - o0) / (o1 - o0) <= 1).
  { split; [apply Rmult_le_pos; [lra|left; apply Rinv_0_lt_compat; lra]|].
    apply (Rmult_le_reg_r (o1 - o0)); [lra|]. unfold Rdiv. rewrite Rmult_assoc, Rinv_l by lra. lra. }
  assert (K : forall x0 x1 a0 a1 : Z, (0 <= x0 <= 255)%Z -> (0 <= x1 <= 255)%Z -> (0 <= a0 <= 255)%Z -> (0 <= a1 <= 255)%Z ->
              (x0 <= a0)%Z -> (x1 <= a1)%Z -> (chR o0 o1 t (x0 * 257) (x1 * 257) <= chR o0 o1 t (a0 * 257) (a1 * 257))%Z).
  { intros x0 x1 a0 a1 Hx0 Hx1 Ha0 Ha1 L0 L1.
    destruct (chR_bounds o0 o1 t (x0 * 257) (x1 * 257) H Ht ltac:(lia) ltac:(lia)) as [_ ->].
    destruct (chR_bounds o0 o1 t (a0 * 257) (a1 * 257) H Ht ltac:(lia) ltac:(lia)) as [_ ->].
    apply trunc_mono. apply interp_premul; [exact Hu|apply IZR_le; lia|apply IZR_le; lia]. }
  repeat split; apply K; assumption.
Qed.

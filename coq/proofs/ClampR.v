(* ClampR.v — Spread.Clamp over the reals is the spread-mode definition (C15):
   none -> outside [0,1] is "no colour" (-1), pad -> clamp to [0,1], repeat -> fractional part,
   reflect -> triangle wave of period 2. *)
From Coq Require Import Reals Lra ZArith Bool Lia.
From IVG Require Import SF NumCodec Color Calls Render Gradient.
Local Open Scope R_scope.

Definition Rclamp : clampops R :=
  mkClampOps R (fun x => if Rle_dec 0 x then true else false) (fun x => if Rle_dec x 1 then true else false)
             0 1 (-1) Ropp Rminus frac_part (fun x => Z.odd (Int_part x)).

Definition clampR := clamp_gen Rclamp.

(* x = Int_part x + frac_part x, 0 <= frac_part x < 1 *)
Lemma int_frac x : x = IZR (Int_part x) + frac_part x /\ 0 <= frac_part x < 1.
Proof.
  destruct (base_fp x) as [H1 H2]. split; [unfold frac_part; lra|]. split; lra.
Qed.

(* the specification's triangle wave, written with the floor of x/2 *)
Definition tri (x : R) : R := 1 - Rabs (x - 2 * IZR (Int_part (x / 2)) - 1).

Lemma int_part_unique (x : R) (k : Z) (f : R) : x = IZR k + f -> 0 <= f < 1 -> Int_part x = k /\ frac_part x = f.
Proof.
  intros E F. destruct (int_frac x) as [E' F'].
  assert (K : Int_part x = k).
  { assert (H : IZR (Int_part x) - IZR k = f - frac_part x) by lra.
    rewrite <- minus_IZR in H.
    assert (B : -1 < IZR (Int_part x - k) < 1) by lra.
    destruct B as [B1 B2]. apply lt_IZR in B2. change (-1) with (IZR (-1)) in B1. apply lt_IZR in B1. lia. }
  split; [exact K|]. rewrite K in E'. lra.
Qed.

Lemma tri_nonneg y : 0 <= y ->
  tri y = if Z.odd (Int_part y) then 1 - frac_part y else frac_part y.
Proof.
  intros Hy. destruct (int_frac y) as [E [F0 F1]]. set (k := Int_part y) in *. set (f := frac_part y) in *.
  assert (Kn : (0 <= k)%Z).
  { destruct (Z_lt_le_dec k 0) as [L|L]; [|exact L]. exfalso.
    assert (IZR k <= -1) by (change (-1) with (IZR (-1)); apply IZR_le; lia). lra. }
  unfold tri. destruct (Z.odd k) eqn:O.
  - (* k = 2j+1 *)
    assert (J : exists j, k = (2 * j + 1)%Z) by (exists (k / 2)%Z; rewrite (Z.div_mod k 2) at 1 by lia; rewrite Zmod_odd, O; reflexivity).
    destruct J as [j J].
    assert (H2 : Int_part (y / 2) = j).
    { apply (int_part_unique (y / 2) j ((1 + f) / 2)); [|lra].
      rewrite E, J, plus_IZR, mult_IZR. lra. }
    rewrite H2. rewrite E at 1. rewrite J, plus_IZR, mult_IZR.
    replace (IZR 2 * IZR j + IZR 1 + f - 2 * IZR j - 1) with f by lra.
    rewrite Rabs_pos_eq by lra. reflexivity.
  - assert (J : exists j, k = (2 * j)%Z) by (exists (k / 2)%Z; rewrite (Z.div_mod k 2) at 1 by lia; rewrite Zmod_odd, O; lia).
    destruct J as [j J].
    assert (H2 : Int_part (y / 2) = j).
    { apply (int_part_unique (y / 2) j (f / 2)); [|lra].
      rewrite E, J, mult_IZR. lra. }
    rewrite H2. rewrite E at 1. rewrite J, mult_IZR.
    replace (IZR 2 * IZR j + f - 2 * IZR j - 1) with (f - 1) by lra.
    rewrite Rabs_left1 by lra. lra.
Qed.

Lemma tri_even x : tri (- x) = tri x.
Proof.
  (* the triangle wave is even; shown through its value on |x| *)
  assert (P : forall y, 0 <= y -> tri (- y) = tri y).
  { intros y Hy. destruct (Req_dec y 0) as [->|N]; [rewrite Ropp_0; reflexivity|].
    rewrite (tri_nonneg y Hy). destruct (int_frac y) as [E [F0 F1]].
    set (k := Int_part y) in *. set (f := frac_part y) in *.
    unfold tri.
    destruct (Req_dec f 0) as [Fz|Fnz].
    - (* y integer: -y/2 = -k/2 *)
      destruct (Z.odd k) eqn:O.
      + assert (J : exists j, k = (2 * j + 1)%Z) by (exists (k / 2)%Z; rewrite (Z.div_mod k 2) at 1 by lia; rewrite Zmod_odd, O; reflexivity).
        destruct J as [j J].
        assert (H2 : Int_part (- y / 2) = (- j - 1)%Z).
        { apply (int_part_unique (- y / 2) (- j - 1) (1 / 2)); [|lra].
          rewrite E, J, Fz, plus_IZR, mult_IZR, minus_IZR, opp_IZR. lra. }
        rewrite H2. rewrite E at 1. rewrite J, Fz, plus_IZR, mult_IZR, minus_IZR, opp_IZR.
        replace (- (IZR 2 * IZR j + IZR 1 + 0) - 2 * (- IZR j - IZR 1) - 1) with 0 by lra.
        rewrite Rabs_R0. lra.
      + assert (J : exists j, k = (2 * j)%Z) by (exists (k / 2)%Z; rewrite (Z.div_mod k 2) at 1 by lia; rewrite Zmod_odd, O; lia).
        destruct J as [j J].
        assert (H2 : Int_part (- y / 2) = (- j)%Z).
        { apply (int_part_unique (- y / 2) (- j) 0); [|lra]. rewrite E, J, Fz, mult_IZR, opp_IZR. lra. }
        rewrite H2. rewrite E at 1. rewrite J, Fz, mult_IZR, opp_IZR.
        replace (- (IZR 2 * IZR j + 0) - 2 * - IZR j - 1) with (-1) by lra.
        rewrite Rabs_left1 by lra. lra.
    - destruct (Z.odd k) eqn:O.
      + assert (J : exists j, k = (2 * j + 1)%Z) by (exists (k / 2)%Z; rewrite (Z.div_mod k 2) at 1 by lia; rewrite Zmod_odd, O; reflexivity).
        destruct J as [j J].
        assert (H2 : Int_part (- y / 2) = (- j - 1)%Z).
        { apply (int_part_unique (- y / 2) (- j - 1) ((1 - f) / 2)); [|lra].
          rewrite E, J, plus_IZR, mult_IZR, minus_IZR, opp_IZR. lra. }
        rewrite H2. rewrite E at 1. rewrite J, plus_IZR, mult_IZR, minus_IZR, opp_IZR.
        replace (- (IZR 2 * IZR j + IZR 1 + f) - 2 * (- IZR j - IZR 1) - 1) with (- f) by lra.
        rewrite Rabs_left1 by lra. lra.
      + assert (J : exists j, k = (2 * j)%Z) by (exists (k / 2)%Z; rewrite (Z.div_mod k 2) at 1 by lia; rewrite Zmod_odd, O; lia).
        destruct J as [j J].
        assert (H2 : Int_part (- y / 2) = (- j - 1)%Z).
        { apply (int_part_unique (- y / 2) (- j - 1) (1 - f / 2)); [|lra].
          rewrite E, J, mult_IZR, minus_IZR, opp_IZR. lra. }
        rewrite H2. rewrite E at 1. rewrite J, mult_IZR, minus_IZR, opp_IZR.
        replace (- (IZR 2 * IZR j + f) - 2 * (- IZR j - IZR 1) - 1) with (1 - f) by lra.
        rewrite Rabs_pos_eq by lra. lra. }
  destruct (Rle_dec 0 x) as [H|H]; [apply P; exact H|].
  rewrite <- (Ropp_involutive x) at 2. symmetry. apply P. lra.
Qed.

(* reflect: for every real x the clamped offset is the triangle wave of period 2 *)
Theorem clamp_reflect x : clampR 2 x = tri x.
Proof.
  unfold clampR, clamp_gen, Rclamp. cbn [k_ge0 k_le1 k_one k_sub k_frac k_odd k_neg Z.eqb Pos.eqb].
  destruct (Rle_dec 0 x) as [H0|H0].
  - destruct (Rle_dec x 1) as [H1|H1].
    + (* inside [0,1] the wave is the identity *)
      rewrite (tri_nonneg x H0). destruct (Req_dec x 1) as [->|N].
      * replace (Int_part 1) with 1%Z; [cbn; replace (frac_part 1) with 0; [lra|]|].
        -- symmetry. apply (int_part_unique 1 1 0); lra.
        -- symmetry. apply (int_part_unique 1 1 0); lra.
      * destruct (int_part_unique x 0 x) as [K F]; [lra|lra|]. rewrite K, F. reflexivity.
    + rewrite (tri_nonneg x H0). reflexivity.
  - rewrite <- tri_even. rewrite (tri_nonneg (- x)) by lra. reflexivity.
Qed.

Theorem clamp_pad x : clampR 1 x = if Rle_dec 0 x then (if Rle_dec x 1 then x else 1) else 0.
Proof.
  unfold clampR, clamp_gen, Rclamp. cbn [k_ge0 k_le1 k_one k_zero Z.eqb Pos.eqb].
  destruct (Rle_dec 0 x); [destruct (Rle_dec x 1)|]; reflexivity.
Qed.

Theorem clamp_repeat x : clampR 3 x = if Rle_dec 0 x then (if Rle_dec x 1 then x else frac_part x) else frac_part x.
Proof.
  unfold clampR, clamp_gen, Rclamp. cbn [k_ge0 k_le1 k_frac Z.eqb Pos.eqb].
  destruct (Rle_dec 0 x); [destruct (Rle_dec x 1)|]; reflexivity.
Qed.

Theorem clamp_none x : clampR 0 x = if Rle_dec 0 x then (if Rle_dec x 1 then x else -1) else -1.
Proof.
  unfold clampR, clamp_gen, Rclamp. cbn [k_ge0 k_le1 k_mone Z.eqb Pos.eqb].
  destruct (Rle_dec 0 x); [destruct (Rle_dec x 1)|]; reflexivity.
Qed.

(* every spread mode sends every offset into [0,1], or to "no colour" for spread none *)
Theorem clamp_range sp x : (sp = 1 \/ sp = 2 \/ sp = 3)%Z -> 0 <= clampR sp x <= 1.
Proof.
  intros [->|[->| ->]].
  - rewrite clamp_pad. destruct (Rle_dec 0 x); [destruct (Rle_dec x 1)|]; lra.
  - rewrite clamp_reflect. destruct (Rle_dec 0 x) as [H|H].
    + rewrite (tri_nonneg x H). destruct (int_frac x) as [_ [F0 F1]]. destruct (Z.odd _); lra.
    + rewrite <- tri_even, tri_nonneg by lra. destruct (int_frac (- x)) as [_ [F0 F1]]. destruct (Z.odd _); lra.
  - rewrite clamp_repeat. destruct (int_frac x) as [_ [F0 F1]].
    destruct (Rle_dec 0 x); [destruct (Rle_dec x 1)|]; lra.
Qed.

(* interpolation in premultiplied space keeps colours premultiplied: a convex combination of two
   stops with r <= a has r <= a, and so do the truncated channel values *)
Theorem interp_premul t r0 a0 r1 a1 : 0 <= t <= 1 -> r0 <= a0 -> r1 <= a1 ->
  (1 - t) * r0 + t * r1 <= (1 - t) * a0 + t * a1.
Proof. intros. nra. Qed.

Theorem trunc_mono x y : x <= y -> (Int_part x <= Int_part y)%Z.
Proof.
  intros H. destruct (int_frac x) as [Ex [Fx0 Fx1]]. destruct (int_frac y) as [Ey [Fy0 Fy1]].
  destruct (Z_le_gt_dec (Int_part x) (Int_part y)) as [L|G]; [exact L|]. exfalso.
  assert (IZR (Int_part y) + 1 <= IZR (Int_part x)).
  { rewrite <- (plus_IZR _ 1). apply IZR_le. lia. }
  lra.
Qed.

(* at a stop's offset the interpolated colour is that stop's colour; t = 0 and t = 1 *)
Theorem interp_endpoints c0 c1 : (1 - 0) * c0 + 0 * c1 = c0 /\ (1 - 1) * c0 + 1 * c1 = c1.
Proof. split; lra. Qed.

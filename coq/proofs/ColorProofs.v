(* Proofs about colours (C09). *)
From Coq Require Import ZArith Bool List Lia ZifyBool ZifyNat.
From IVG Require Import SF NumCodec Color NumBase Tables.
Import ListNotations.
Local Open Scope Z_scope.
Ltac Zify.zify_post_hook ::= Z.div_mod_to_equations.

Definition wf_chan (u : Z) : Prop := 0 <= u < 256.
Ltac solve_forall := repeat (apply Forall_cons; [unfold wf_chan in *; try assumption; lia|]); apply Forall_nil.
Definition wf_rgba (c : rgba) : Prop := wf_chan (cr c) /\ wf_chan (cg c) /\ wf_chan (cb c) /\ wf_chan (ca c).
Definition wf_color (c : color) : Prop :=
  match c with
  | CRGBA d => wf_rgba d
  | CPal i | CCReg i => 0 <= i < 64
  | CBlend t c0 c1 => wf_chan t /\ wf_chan c0 /\ wf_chan c1
  end.

(* the model's table is the one in color.go today *)
Lemma dc1_is_code_table : dc1 = Tables.dc1Table.
Proof. reflexivity. Qed.

(* ---- the 1 byte colour table of the specification ---- *)
Definition level (k : Z) : Z := nth (Z.to_nat k) Tables.dc1Table 0.   (* 0 -> 00, 1 -> 40, 2 -> 80, 3 -> c0, 4 -> ff *)

Definition spec_color1 (x : Z) : color :=
  if x <? 125 then CRGBA (mkRGBA (level (x / 25)) (level ((x / 5) mod 5)) (level (x mod 5)) 255)
  else if x =? 125 then CRGBA (mkRGBA 192 192 192 192)
  else if x =? 126 then CRGBA (mkRGBA 128 128 128 128)
  else if x =? 127 then CRGBA (mkRGBA 0 0 0 0)
  else if x <? 192 then CPal (x - 128)
  else CCReg (x - 192).

Definition color_eqb (a b : color) : bool :=
  match a, b with
  | CRGBA x, CRGBA y => rgba_eqb x y
  | CPal i, CPal j | CCReg i, CCReg j => i =? j
  | CBlend t a0 a1, CBlend u b0 b1 => (t =? u) && (a0 =? b0) && (a1 =? b1)
  | _, _ => false
  end.

Lemma rgba_eqb_eq x y : rgba_eqb x y = true -> x = y.
Proof.
  destruct x, y. unfold rgba_eqb. cbn. intros H.
  repeat (apply andb_prop in H; destruct H as [H ?]).
  f_equal; lia.
Qed.

Lemma color_eqb_eq a b : color_eqb a b = true -> a = b.
Proof.
  destruct a, b; cbn; try discriminate; intros H.
  - f_equal. apply rgba_eqb_eq. exact H.
  - f_equal. lia.
  - f_equal. lia.
  - repeat (apply andb_prop in H; destruct H as [H ?]). f_equal; lia.
Qed.

Lemma color1_table_sweep :
  forallb (fun x => color_eqb (decode_color1 x) (spec_color1 x)) (zrange 0 256) = true.
Proof. vm_compute. reflexivity. Qed.

Lemma color1_table x : 0 <= x < 256 -> decode_color1 x = spec_color1 x.
Proof.
  intros H. apply color_eqb_eq. pose proof color1_table_sweep as S. rewrite forallb_forall in S.
  apply S. apply zrange_in. lia.
Qed.

(* ---- encode / decode round trips ---- *)
Lemma is1u_values u : wf_chan u -> is1u u = true -> u = 0 \/ u = 64 \/ u = 128 \/ u = 192 \/ u = 255.
Proof. unfold wf_chan, is1u. intros H E. lia. Qed.

Lemma encode1_decode1 c x : wf_color c -> encode1 c = Some x -> 0 <= x < 256 /\ decode_color1 x = c.
Proof.
  destruct c as [d|i|i|t c0 c1]; cbn [encode1 wf_color].
  - intros W. destruct d as [r g b a]. unfold wf_rgba, wf_chan in W. cbn [cr cg cb ca] in *.
    destruct (negb (a =? 255)) eqn:A.
    + destruct (rgba_eqb _ (mkRGBA 0 0 0 0)) eqn:E0.
      { apply rgba_eqb_eq in E0. intros [= <-]. rewrite E0. split; [lia|reflexivity]. }
      destruct (rgba_eqb _ (mkRGBA 128 128 128 128)) eqn:E1.
      { apply rgba_eqb_eq in E1. intros [= <-]. rewrite E1. split; [lia|reflexivity]. }
      destruct (rgba_eqb _ (mkRGBA 192 192 192 192)) eqn:E2.
      { apply rgba_eqb_eq in E2. intros [= <-]. rewrite E2. split; [lia|reflexivity]. }
      discriminate.
    + destruct (is1 _) eqn:I; [|discriminate]. intros [= <-].
      unfold is1 in I. cbn [cr cg cb ca] in I.
      repeat (apply andb_prop in I; destruct I as [I ?]).
      assert (a = 255) by lia. subst a.
      destruct (is1u_values r) as [->|[->|[->|[->| ->]]]]; [unfold wf_chan; lia|assumption| | | | |];
      destruct (is1u_values g) as [->|[->|[->|[->| ->]]]]; try (unfold wf_chan; lia); try assumption;
      destruct (is1u_values b) as [->|[->|[->|[->| ->]]]]; try (unfold wf_chan; lia); try assumption;
      (split; [vm_compute; split; [discriminate|reflexivity]|vm_compute; reflexivity]).
  - intros W [= <-]. split; [lia|]. unfold decode_color1.
    replace (128 <=? i + 128) with true by lia. replace (192 <=? i + 128) with false by lia.
    f_equal. lia.
  - intros W [= <-]. split; [lia|]. unfold decode_color1.
    replace (128 <=? i + 192) with true by lia. replace (192 <=? i + 192) with true by lia.
    f_equal. lia.
  - discriminate.
Qed.

Lemma encode2_decode2 c l rest : wf_color c -> encode2 c = Some l ->
  Forall wf_chan l /\ dec_color2 (l ++ rest) = Some (c, 2%nat).
Proof.
  destruct c as [d| | |]; cbn [encode2]; try discriminate.
  destruct d as [r g b a]. cbn [wf_color]. unfold wf_rgba, wf_chan. cbn [cr cg cb ca]. intros W.
  destruct (is2 _) eqn:I; [|discriminate]. intros [= <-].
  unfold is2, is2u in I. cbn [cr cg cb ca] in I. repeat (apply andb_prop in I; destruct I as [I ?]).
  split; [solve_forall|].
  cbn [app dec_color2]. f_equal. f_equal. f_equal. f_equal; lia.
Qed.

(* every colour the encoder can be given is written in a form that decodes to exactly that colour *)
Theorem enc_dec_color c rest : wf_color c ->
  let '(base, bytes) := enc_color c in
  (base = 128 \/ base = 136 \/ base = 144 \/ base = 152 \/ base = 160) /\
  Forall wf_chan bytes /\
  dec_color_form ((base - 128) / 8) (bytes ++ rest) = Some (c, length bytes).
Proof.
  intros W. unfold enc_color.
  destruct (encode1 c) as [x|] eqn:E1.
  { destruct (encode1_decode1 c x W E1) as [R D]. split; [auto|]. split; [unfold wf_chan; solve_forall|].
    cbn. rewrite D. reflexivity. }
  destruct (encode2 c) as [l|] eqn:E2.
  { destruct (encode2_decode2 c l rest W E2) as [F D]. split; [auto|]. split; [exact F|].
    change ((136 - 128) / 8) with 1. unfold dec_color_form. cbn [Z.eqb].
    rewrite D. destruct c as [d| | |]; cbn in E2; try discriminate. destruct (is2 d); [|discriminate].
    injection E2 as <-. reflexivity. }
  destruct c as [d|i|i|t c0 c1]; cbn [encode1 encode2 encode3direct encode4 encode3indirect] in *.
  - destruct d as [r g b a]. cbn [wf_color] in W. unfold wf_rgba, wf_chan in W. cbn [cr cg cb ca] in *.
    destruct (is3 _) eqn:I3.
    + split; [auto|]. split; [solve_forall|].
      cbn. unfold is3 in I3. cbn in I3. f_equal. f_equal. f_equal. f_equal. lia.
    + split; [auto|]. split; [solve_forall|]. reflexivity.
  - discriminate.
  - discriminate.
  - cbn [wf_color] in W. destruct W as (Wt & W0 & W1). split; [auto 10|]. split; [solve_forall|]. reflexivity.
Qed.

(* the 2, 3 and 4 byte forms decode as the specification's tables say, for every byte pattern *)
Lemma color2_table x y rest :
  dec_color2 (x :: y :: rest) = Some (CRGBA (mkRGBA (17 * (x / 16)) (17 * (x mod 16)) (17 * (y / 16)) (17 * (y mod 16))), 2%nat).
Proof. reflexivity. Qed.
Lemma color3direct_table x y z rest : dec_color3direct (x :: y :: z :: rest) = Some (CRGBA (mkRGBA x y z 255), 3%nat).
Proof. reflexivity. Qed.
Lemma color4_table x y z w rest : dec_color4 (x :: y :: z :: w :: rest) = Some (CRGBA (mkRGBA x y z w), 4%nat).
Proof. reflexivity. Qed.
Lemma color3indirect_table x y z rest : dec_color3indirect (x :: y :: z :: rest) = Some (CBlend x y z, 3%nat).
Proof. reflexivity. Qed.

(* a colour operand cut short by end of input is an error (n == 0), never read past the end *)
Definition color_width (k : Z) : nat :=
  if k =? 0 then 1%nat else if k =? 1 then 2%nat else if k =? 3 then 4%nat else 3%nat.

Lemma color_truncated k b : 0 <= k <= 4 ->
  (dec_color_form k b = None <-> (length b < color_width k)%nat).
Proof.
  intros H. assert (K : k = 0 \/ k = 1 \/ k = 2 \/ k = 3 \/ k = 4) by lia.
  destruct K as [->|[->|[->|[->| ->]]]].
  - change (dec_color_form 0 b) with (dec_color1 b). change (color_width 0) with 1%nat.
    destruct b as [|x r]; cbn [dec_color1 length]; split; intros; try discriminate; try lia; reflexivity.
  - change (dec_color_form 1 b) with (dec_color2 b). change (color_width 1) with 2%nat.
    destruct b as [|x [|y r]]; cbn [dec_color2 length]; split; intros; try discriminate; try lia; reflexivity.
  - change (dec_color_form 2 b) with (dec_color3direct b). change (color_width 2) with 3%nat.
    destruct b as [|x [|y [|z r]]]; cbn [dec_color3direct length]; split; intros; try discriminate; try lia; reflexivity.
  - change (dec_color_form 3 b) with (dec_color4 b). change (color_width 3) with 4%nat.
    destruct b as [|x [|y [|z [|w r]]]]; cbn [dec_color4 length]; split; intros; try discriminate; try lia; reflexivity.
  - change (dec_color_form 4 b) with (dec_color3indirect b). change (color_width 4) with 3%nat.
    destruct b as [|x [|y [|z r]]]; cbn [dec_color3indirect length]; split; intros; try discriminate; try lia; reflexivity.
Qed.

(* ---- blending ---- *)
Lemma blend_chan_range t x0 x1 : wf_chan t -> wf_chan x0 -> wf_chan x1 ->
  blend_chan t x0 x1 = ((255 - t) * x0 + t * x1 + 128) / 255 /\ wf_chan (blend_chan t x0 x1).
Proof. unfold wf_chan, blend_chan. intros. split; nia || lia. Qed.

Lemma blend_t0 x0 x1 : wf_chan x0 -> blend_chan 0 x0 x1 = x0.
Proof. unfold wf_chan, blend_chan. intros. lia. Qed.

Lemma blend_t255 x0 x1 : wf_chan x1 -> blend_chan 255 x0 x1 = x1.
Proof. unfold wf_chan, blend_chan. intros. lia. Qed.

Lemma blend_mono t x0 x1 a0 a1 : wf_chan t -> wf_chan x0 -> wf_chan x1 -> wf_chan a0 -> wf_chan a1 ->
  x0 <= a0 -> x1 <= a1 -> blend_chan t x0 x1 <= blend_chan t a0 a1.
Proof.
  intros Wt W0 W1 Wa0 Wa1 H0 H1.
  destruct (blend_chan_range t x0 x1 Wt W0 W1) as [-> _].
  destruct (blend_chan_range t a0 a1 Wt Wa0 Wa1) as [-> _].
  unfold wf_chan in *. apply Z.div_le_mono; nia.
Qed.

Definition wf_regs (l : list rgba) : Prop := length l = 64%nat /\ Forall wf_rgba l.

Lemma reg_at_wf l i : wf_regs l -> wf_rgba (reg_at l i).
Proof.
  intros [L F]. unfold reg_at. rewrite Forall_forall in F. apply F. apply nth_In.
  rewrite L. assert (0 <= i mod 64 < 64) by lia. lia.
Qed.

Lemma resolve_simple_wf pal creg x : wf_regs pal -> wf_regs creg -> 0 <= x < 256 ->
  wf_rgba (resolve_simple pal creg (decode_color1 x)).
Proof.
  intros Wp Wc Hx. rewrite color1_table by assumption. unfold spec_color1.
  destruct (x <? 125) eqn:A.
  - cbn [resolve_simple]. unfold wf_rgba, wf_chan, level. cbn [cr cg cb ca].
    assert (H1 : 0 <= x / 25 < 5) by lia. assert (H2 : 0 <= (x / 5) mod 5 < 5) by lia. assert (H3 : 0 <= x mod 5 < 5) by lia.
    assert (L : forall k, 0 <= k < 5 -> 0 <= nth (Z.to_nat k) Tables.dc1Table 0 < 256).
    { intros k Hk. assert (K : k = 0 \/ k = 1 \/ k = 2 \/ k = 3 \/ k = 4) by lia.
      destruct K as [->|[->|[->|[->| ->]]]]; vm_compute; split; discriminate || reflexivity. }
    repeat split; try apply L; try assumption; lia.
  - destruct (x =? 125); [cbn; unfold wf_rgba, wf_chan; cbn; lia|].
    destruct (x =? 126); [cbn; unfold wf_rgba, wf_chan; cbn; lia|].
    destruct (x =? 127); [cbn; unfold wf_rgba, wf_chan; cbn; lia|].
    destruct (x <? 192); cbn [resolve_simple]; apply reg_at_wf; assumption.
Qed.

(* Resolve of a blend: the formula, per channel, on the resolved one-byte operands *)
Theorem blend_formula pal creg t c0 c1 :
  let a := resolve_simple pal creg (decode_color1 c0) in
  let b := resolve_simple pal creg (decode_color1 c1) in
  resolve pal creg (CBlend t c0 c1) =
  mkRGBA (blend_chan t (cr a) (cr b)) (blend_chan t (cg a) (cg b)) (blend_chan t (cb a) (cb b)) (blend_chan t (ca a) (ca b)).
Proof. reflexivity. Qed.

Theorem blend_endpoints pal creg c0 c1 : wf_regs pal -> wf_regs creg -> wf_chan c0 -> wf_chan c1 ->
  resolve pal creg (CBlend 0 c0 c1) = resolve_simple pal creg (decode_color1 c0) /\
  resolve pal creg (CBlend 255 c0 c1) = resolve_simple pal creg (decode_color1 c1).
Proof.
  intros Wp Wc W0 W1.
  pose proof (resolve_simple_wf pal creg c0 Wp Wc W0) as (A1 & A2 & A3 & A4).
  pose proof (resolve_simple_wf pal creg c1 Wp Wc W1) as (B1 & B2 & B3 & B4).
  cbn [resolve]. split.
  - rewrite !blend_t0 by assumption. destruct (resolve_simple pal creg (decode_color1 c0)); reflexivity.
  - rewrite !blend_t255 by assumption. destruct (resolve_simple pal creg (decode_color1 c1)); reflexivity.
Qed.

(* premultiplied operands never blend to a non-premultiplied colour *)
Theorem blend_premul pal creg t c0 c1 : wf_regs pal -> wf_regs creg -> wf_chan t -> wf_chan c0 -> wf_chan c1 ->
  valid_premul (resolve_simple pal creg (decode_color1 c0)) = true ->
  valid_premul (resolve_simple pal creg (decode_color1 c1)) = true ->
  valid_premul (resolve pal creg (CBlend t c0 c1)) = true /\ wf_rgba (resolve pal creg (CBlend t c0 c1)).
Proof.
  intros Wp Wc Wt W0 W1 P0 P1.
  pose proof (resolve_simple_wf pal creg c0 Wp Wc W0) as (A1 & A2 & A3 & A4).
  pose proof (resolve_simple_wf pal creg c1 Wp Wc W1) as (B1 & B2 & B3 & B4).
  cbn [resolve]. set (a := resolve_simple pal creg (decode_color1 c0)) in *.
  set (b := resolve_simple pal creg (decode_color1 c1)) in *.
  unfold valid_premul in *. cbn [cr cg cb ca].
  apply andb_prop in P0 as [P0 P0b]. apply andb_prop in P0 as [P0r P0g].
  apply andb_prop in P1 as [P1 P1b]. apply andb_prop in P1 as [P1r P1g].
  split.
  - rewrite !andb_true_iff, !Z.leb_le. repeat split; apply blend_mono; try assumption; lia.
  - unfold wf_rgba. cbn [cr cg cb ca]. repeat split; apply blend_chan_range; assumption.
Qed.

(* gradient parameters round trip through the nonsensical colour that encodes them *)
Theorem gradient_roundtrip cbase nbase sh sp ns :
  0 <= cbase < 64 -> 0 <= nbase < 64 -> 0 <= sh < 2 -> 0 <= sp < 4 -> 0 <= ns < 64 ->
  let c := encode_gradient cbase nbase sh sp ns in
  decode_gradient c = mkGP cbase nbase sh sp ns /\ valid_gradient c = true /\ valid_premul c = false /\ wf_rgba c.
Proof.
  intros H1 H2 H3 H4 H5 c. subst c.
  unfold encode_gradient, decode_gradient, valid_gradient, valid_premul, wf_rgba, wf_chan.
  cbn [cr cg Color.cb ca].
  split; [f_equal; lia|]. split; [lia|]. split; lia.
Qed.

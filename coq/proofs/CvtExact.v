(* CvtExact.v — widening a float32 to a float64 is exact (used by the arc code, the gradient set-up and quantize, which all
   compute in float64 on float32 inputs): from the rounding specification of the soft-float.  Also the general statement
   that rounding a dyadic whose discarded bits are all zero loses nothing (round_exact). *)
From Coq Require Import ZArith Bool List Lia ZifyBool ZifyNat.
From IVG Require Import SF NumCodec NumBase SFProofs SFRound.
Import ListNotations.
Local Open Scope Z_scope.

(* rounding is exact when no non-zero bit is dropped *)
Lemma round_exact f m e b : fmt_ok f -> 0 < m -> b <= e -> b <= emin f ->
  (round_exp f m e <= e \/ m mod 2 ^ (round_exp f m e - e) = 0) ->
  round_int f m e * 2 ^ (round_exp f m e - b) = m * 2 ^ (e - b).
Proof.
  intros Hf Hm Hbe Hb Ex.
  pose proof (round_int_spec f m e Hf Hm) as S. cbv zeta in S. destruct S as (He0 & HQ & Hc & Hex & Hrd).
  set (e0 := round_exp f m e) in *. set (Q := round_int f m e) in *.
  destruct (Z_le_gt_dec e0 e) as [L|G].
  - specialize (Hex L). rewrite Z.pow_0_r, Z.mul_1_r in Hex. rewrite Hex.
    rewrite <- Z.mul_assoc, <- Z.pow_add_r by lia. do 2 f_equal. lia.
  - destruct Ex as [Ex|Ex]; [lia|].
    assert (G' : e < e0) by lia. specialize (Hrd G'). cbv zeta in Hrd. destruct Hrd as [Near _].
    set (k := e0 - e) in *. assert (Hk : 0 < k) by (unfold k; lia).
    assert (Pk : 0 < 2 ^ k) by (apply Z.pow_pos_nonneg; lia).
    assert (Hm' : m = (m / 2 ^ k) * 2 ^ k) by (pose proof (Z.div_mod m (2 ^ k)); lia).
    set (q := m / 2 ^ k) in *.
    assert (HQ' : Q = q).
    { rewrite Hm' in Near. replace (q * 2 ^ k - Q * 2 ^ k) with ((q - Q) * 2 ^ k) in Near by ring.
      rewrite Z.abs_mul, (Z.abs_eq (2 ^ k)) in Near by lia.
      assert (Z.abs (q - Q) = 0 \/ 1 <= Z.abs (q - Q)) as [Z0|Z1] by lia; [lia|]. exfalso. nia. }
    rewrite HQ'. rewrite Hm' at 1. rewrite <- Z.mul_assoc, <- Z.pow_add_r by lia. do 2 f_equal. unfold k. lia.
Qed.

(* float32 -> float64 keeps the value: m * 2^e, written with the common offset 2^(e+1074) *)
Theorem f32_to_f64_exact x s m e : wf_f32 x -> decode F32 x = FFin s m e ->
  exists M E, decode F64 (f32_to_f64 x) = FFin s M E /\ -1074 <= E /\ M * 2 ^ (E + 1074) = m * 2 ^ (e + 1074).
Proof.
  intros W D. pose proof (decode32_fin _ _ _ _ W D) as [Hm He].
  unfold f32_to_f64, convert. rewrite decode_fast32 by (unfold wf_f32 in W; lia). rewrite D.
  unfold rne_dy. destruct (m =? 0) eqn:Z0.
  - assert (m = 0) by lia. subst m. exists 0, (-1074). split; [destruct s; vm_compute; reflexivity|]. lia.
  - assert (Hm' : 0 < m) by lia.
    pose proof (rne_dy_pos_correct F64 s m e F64_ok Hm') as C. cbv zeta in C.
    change (emin F64) with (-1074) in C. change (emax_field F64) with 2047 in C.
    assert (Hlog : 0 <= Z.log2 m <= 23).
    { split; [apply Z.log2_nonneg|]. assert (Z.log2 m < 24); [|lia]. apply Z.log2_lt_pow2; [lia|]. change (2 ^ 24) with 16777216. lia. }
    assert (He0 : round_exp F64 m e <= e).
    { unfold round_exp. change (emin F64) with (-1074). change (prec F64) with 53. lia. }
    pose proof (round_exact F64 m e (-1074) F64_ok Hm' ltac:(lia) ltac:(cbn; lia) (or_introl He0)) as X.
    destruct C as [[_ Co]|(M & E & Dg & Val & HM & HE & _)].
    + exfalso. unfold round_exp in Co, He0. change (emin F64) with (-1074) in *. change (prec F64) with 53 in *.
      destruct (round_int F64 m e =? 2 ^ 53); lia.
    + exists M, E. split; [exact Dg|]. split; [lia|].
      replace (E + 1074) with (E - -1074) by lia. rewrite Val.
      replace (e + 1074) with (e - -1074) by lia. exact X.
Qed.

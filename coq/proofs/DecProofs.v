(* DecProofs.v — structural facts about the decoder model: every line carries exactly the bytes
   consumed (C11), every call is charged to a consumed byte (C02), no panic / fuel exhaustion (C02),
   nothing is delivered before the metadata is complete (C02, C13). *)
From Coq Require Import ZArith Bool List Lia.
From IVG Require Import SF NumCodec Color Calls Decoder NumBase.
Import ListNotations.
Local Open Scope Z_scope.

Definition item_bytes (i : item) : list byte := match i with ILine b _ => b | ICall _ => [] end.
Definition lbytes (l : list item) : list byte := flat_map item_bytes l.
Definition ncalls (l : list item) : nat := length (calls_of l).

Lemma lbytes_app a b : lbytes (a ++ b) = lbytes a ++ lbytes b.
Proof. unfold lbytes. apply flat_map_app. Qed.
Lemma calls_of_app a b : calls_of (a ++ b) = calls_of a ++ calls_of b.
Proof. unfold calls_of. apply flat_map_app. Qed.
Lemma ncalls_app a b : ncalls (a ++ b) = (ncalls a + ncalls b)%nat.
Proof. unfold ncalls. rewrite calls_of_app, app_length. reflexivity. Qed.

Lemma dec_natural_len b u n : dec_natural b = Some (u, n) -> (1 <= n <= length b)%nat.
Proof.
  intros H. destruct (dec_natural_some b u n H) as (E & L & _). split; [|exact L].
  rewrite E. unfold natural_width. destruct b; [lia|].
  destruct (_ =? 0); [lia|]. destruct (_ =? 0); lia.
Qed.

(* a decoder f : bytes -> option (value * n) is well-behaved when 1 <= n <= length *)
Definition good_dec {A} (f : list byte -> option (A * nat)) : Prop :=
  forall b x n, f b = Some (x, n) -> (1 <= n <= length b)%nat.

Lemma good_real : good_dec dec_real.
Proof.
  intros b x n. unfold dec_real. destruct (dec_natural b) as [[u k]|] eqn:E; [|discriminate].
  pose proof (dec_natural_len b u k E). destruct k as [|[|[|[|[|k]]]]]; intros [= <- <-]; assumption.
Qed.
Lemma good_coord : good_dec dec_coordinate.
Proof.
  intros b x n. unfold dec_coordinate. destruct (dec_natural b) as [[u k]|] eqn:E; [|discriminate].
  pose proof (dec_natural_len b u k E). destruct k as [|[|[|k]]]; intros [= <- <-]; assumption.
Qed.
Lemma good_zto : good_dec dec_zero_to_one.
Proof.
  intros b x n. unfold dec_zero_to_one. destruct (dec_natural b) as [[u k]|] eqn:E; [|discriminate].
  pose proof (dec_natural_len b u k E). destruct k as [|[|[|k]]]; intros [= <- <-]; assumption.
Qed.
Lemma good_color k : good_dec (dec_color_form k).
Proof.
  intros b x n. unfold dec_color_form.
  destruct (k =? 0); [|destruct (k =? 1); [|destruct (k =? 2); [|destruct (k =? 3)]]];
  unfold dec_color1, dec_color2, dec_color3direct, dec_color4, dec_color3indirect;
  destruct b as [|a [|a1 [|a2 [|a3 r]]]]; try discriminate; intros [= <- <-]; cbn [length]; lia.
Qed.

(* ---- the three facts, for each reader ----
   P1: the bytes of the lines emitted are a prefix of the input, followed by the rest returned;
   P2: calls <= bytes of lines. *)

Lemma read_num_ok {dec mk b its x r} : good_dec dec ->
  read_num dec mk b = Some (its, x, r) -> b = lbytes its ++ r /\ ncalls its = 0%nat /\ (1 <= length (lbytes its))%nat.
Proof.
  intros G. unfold read_num. destruct (dec b) as [[v n]|] eqn:E; [|discriminate]. intros [= <- <- <-].
  pose proof (G b v n E) as L. cbn. rewrite app_nil_r. split; [symmetry; apply firstn_skipn|].
  split; [reflexivity|]. rewrite firstn_length. lia.
Qed.

Lemma read_coords_ok k : forall b its r,
  read_coords k b = (its, r) ->
  ncalls its = 0%nat /\
  match r with
  | Some (xs, rest) => b = lbytes its ++ rest /\ length xs = k /\ (k <= length (lbytes its))%nat
  | None => exists t, b = lbytes its ++ t
  end.
Proof.
  induction k as [|k IH]; intros b its r; cbn [read_coords].
  - intros [= <- <-]. cbn. auto.
  - destruct (read_num dec_coordinate PNum b) as [[[it x] b1]|] eqn:E.
    + destruct (read_num_ok good_coord E) as (B & C & L).
      destruct (read_coords k b1) as [its' r'] eqn:E2. specialize (IH b1 its' r' E2) as [C' R'].
      intros [= <- <-]. rewrite ncalls_app, lbytes_app, C, C'. split; [reflexivity|].
      destruct r' as [[xs rest]|].
      * destruct R' as (B' & Lx & Lb). rewrite B, B', app_assoc, app_length. cbn [length]. repeat split; lia.
      * destruct R' as [t B']. exists t. rewrite B, B', app_assoc. reflexivity.
    + intros [= <- <-]. split; [reflexivity|]. exists b. reflexivity.
Qed.

(* the bytes of the emitted lines are a prefix of the input; on success the rest is what is returned *)
Definition pref (b : list byte) (its : list item) (rest : option (list byte)) : Prop :=
  match rest with
  | Some r => b = lbytes its ++ r
  | None => exists t, b = lbytes its ++ t
  end.

Lemma pref_seq b i1 b1 i2 r : b = lbytes i1 ++ b1 -> pref b1 i2 r -> pref b (i1 ++ i2) r.
Proof.
  intros B P. unfold pref in *. rewrite lbytes_app. destruct r as [r|].
  - rewrite B, P, app_assoc. reflexivity.
  - destruct P as [t P]. exists t. rewrite B, P, app_assoc. reflexivity.
Qed.

Lemma pref_fail b i1 b1 : b = lbytes i1 ++ b1 -> pref b i1 None.
Proof. intros B. exists b1. exact B. Qed.

Lemma pref_nil b : pref b [] None.
Proof. exists b. reflexivity. Qed.

Lemma read_coords_pref k b its r : read_coords k b = (its, r) ->
  pref b its (option_map snd r) /\ ncalls its = 0%nat /\ (forall xs rest, r = Some (xs, rest) -> length xs = k /\ (k <= length (lbytes its))%nat).
Proof.
  intros E. destruct (read_coords_ok k b its r E) as [C R]. split; [|split; [exact C|]].
  - destruct r as [[xs rest]|]; cbn; [apply R|exact R].
  - intros xs rest ->. destruct R as (_ & A & B). split; assumption.
Qed.

Lemma draw_rep_pref op k b its r : draw_rep op k b = (its, r) -> pref b its r.
Proof.
  unfold draw_rep. destruct (read_coords k b) as [its0 r0] eqn:E.
  destruct (read_coords_pref k b its0 r0 E) as (P & _ & _). destruct r0 as [[xs rest]|]; intros [= <- <-].
  - cbn in P. unfold pref. rewrite lbytes_app. cbn. rewrite app_nil_r. exact P.
  - exact P.
Qed.

Lemma draw_rep_calls op k b its r : (1 <= k)%nat -> draw_rep op k b = (its, r) ->
  (ncalls its <= 1)%nat /\ (ncalls its <= length (lbytes its))%nat.
Proof.
  intros K. unfold draw_rep. destruct (read_coords k b) as [its0 r0] eqn:E.
  destruct (read_coords_pref k b its0 r0 E) as (_ & C & L). destruct r0 as [[xs rest]|]; intros [= <- <-].
  - destruct (L xs rest eq_refl) as [_ Lb]. rewrite ncalls_app, lbytes_app, app_length, C. cbn. lia.
  - rewrite C. lia.
Qed.

Lemma arc_rep_pref rel b its r : arc_rep rel b = (its, r) -> pref b its r.
Proof.
  unfold arc_rep.
  destruct (read_coords 2 b) as [its0 r0] eqn:E0. destruct (read_coords_pref 2 b its0 r0 E0) as (P0 & _ & _).
  destruct r0 as [[xs b1]|]; [|intros [= <- <-]; exact P0]. cbn in P0.
  destruct xs as [|rx [|ry [|? ?]]]; try (intros [= <- <-]; eapply pref_fail; exact P0).
  destruct (read_num dec_zero_to_one PAngle b1) as [[[its1 rot] b2]|] eqn:E1;
    [|intros [= <- <-]; eapply pref_fail; exact P0].
  destruct (read_num_ok good_zto E1) as (B1 & _ & _).
  destruct (dec_natural b2) as [[fl n]|] eqn:E2.
  2:{ intros [= <- <-]. eapply pref_seq; [exact P0|]. eapply pref_fail. exact B1. }
  destruct (read_coords 2 (skipn n b2)) as [its2 r2] eqn:E3. destruct (read_coords_pref 2 _ its2 r2 E3) as (P2 & _ & _).
  assert (B2 : b2 = lbytes [ILine (firstn n b2) (PFlags fl)] ++ skipn n b2) by (cbn; rewrite app_nil_r; symmetry; apply firstn_skipn).
  assert (Pall : forall tl res, pref (skipn n b2) tl res -> pref b (its0 ++ its1 ++ ILine (firstn n b2) (PFlags fl) :: tl) res).
  { intros tl res Q. eapply pref_seq; [exact P0|]. eapply pref_seq; [exact B1|].
    change (ILine (firstn n b2) (PFlags fl) :: tl) with ([ILine (firstn n b2) (PFlags fl)] ++ tl).
    eapply pref_seq; [exact B2|exact Q]. }
  destruct r2 as [[ys b4]|]; cbn in P2.
  - destruct ys as [|x [|y [|? ?]]]; intros [= <- <-]; try (apply Pall; eapply pref_fail; exact P2).
    apply Pall. unfold pref. rewrite lbytes_app. cbn. rewrite app_nil_r. exact P2.
  - intros [= <- <-]. apply Pall. exact P2.
Qed.

Lemma arc_rep_calls rel b its r : arc_rep rel b = (its, r) ->
  (ncalls its <= 1)%nat /\ (ncalls its <= length (lbytes its))%nat.
Proof.
  unfold arc_rep.
  destruct (read_coords 2 b) as [its0 r0] eqn:E0. destruct (read_coords_pref 2 b its0 r0 E0) as (_ & C0 & L0).
  destruct r0 as [[xs b1]|]; [|intros [= <- <-]; rewrite C0; lia].
  destruct (L0 xs b1 eq_refl) as [_ Lb0].
  destruct xs as [|rx [|ry [|? ?]]]; try (intros [= <- <-]; rewrite C0; lia).
  destruct (read_num dec_zero_to_one PAngle b1) as [[[its1 rot] b2]|] eqn:E1; [|intros [= <- <-]; rewrite C0; lia].
  destruct (read_num_ok good_zto E1) as (_ & C1 & _).
  destruct (dec_natural b2) as [[fl n]|] eqn:E2; [|intros [= <- <-]; rewrite ncalls_app, C0, C1; lia].
  destruct (read_coords 2 (skipn n b2)) as [its2 r2] eqn:E3. destruct (read_coords_pref 2 _ its2 r2 E3) as (_ & C2 & _).
  assert (N : forall tl, ncalls (its0 ++ its1 ++ ILine (firstn n b2) (PFlags fl) :: tl) = ncalls tl).
  { intros tl. rewrite !ncalls_app, C0, C1. unfold ncalls. cbn. reflexivity. }
  assert (Lb : forall tl, (2 <= length (lbytes (its0 ++ its1 ++ ILine (firstn n b2) (PFlags fl) :: tl)))%nat).
  { intros tl. rewrite lbytes_app, app_length. lia. }
  destruct r2 as [[ys b4]|].
  - destruct ys as [|x [|y [|? ?]]]; intros [= <- <-]; rewrite N; try rewrite ncalls_app; rewrite ?C2;
      try (pose proof (Lb its2); lia).
    pose proof (Lb (its2 ++ [ICall (CArc rel rx ry rot (negb (fl mod 2 =? 0)) (negb ((fl / 2) mod 2 =? 0)) x y)])).
    unfold ncalls at 2. cbn. lia.
  - intros [= <- <-]. rewrite N, C2. lia.
Qed.

(* repetitions *)
Lemma reps_pref k : forall first op one b its r,
  (forall b its r, one b = (its, r) -> pref b its r) ->
  reps first k op one b = (its, r) -> pref b its r.
Proof.
  induction k as [|k IH]; intros first op one b its r H; cbn [reps].
  - intros [= <- <-]. reflexivity.
  - destruct (one b) as [its1 [b'|]] eqn:E.
    + destruct (reps false k op one b') as [its' r'] eqn:E2. intros [= <- <-].
      pose proof (H b its1 (Some b') E) as H1. specialize (IH false op one b' its' r' H E2).
      assert (Hp : b = lbytes ((if first then [] else [ILine [] (PImplicit op)]) ++ its1) ++ b').
      { rewrite lbytes_app. destruct first; cbn; exact H1. }
      rewrite app_assoc. eapply pref_seq; [exact Hp|exact IH].
    + intros [= <- <-]. destruct (H b its1 None E) as [t H1]. exists t.
      rewrite lbytes_app. destruct first; cbn; exact H1.
Qed.

Lemma reps_calls k : forall first op one b its r,
  (forall b its r, one b = (its, r) -> (ncalls its <= 1)%nat /\ (ncalls its <= length (lbytes its))%nat) ->
  reps first k op one b = (its, r) -> (ncalls its <= k)%nat /\ (ncalls its <= length (lbytes its))%nat.
Proof.
  induction k as [|k IH]; intros first op one b its r H; cbn [reps].
  - intros [= <- <-]. cbn. lia.
  - destruct (one b) as [its1 [b'|]] eqn:E.
    + destruct (reps false k op one b') as [its' r'] eqn:E2. intros [= <- <-].
      destruct (H b its1 (Some b') E) as [A1 A2]. destruct (IH false op one b' its' r' H E2) as [B1 B2].
      rewrite !ncalls_app, !lbytes_app, !app_length.
      assert (Z0 : ncalls (if first then [] else [ILine [] (PImplicit op)]) = 0%nat) by (destruct first; reflexivity).
      rewrite Z0. lia.
    + intros [= <- <-]. destruct (H b its1 None E) as [A1 A2].
      rewrite !ncalls_app, !lbytes_app, !app_length.
      assert (Z0 : ncalls (if first then [] else [ILine [] (PImplicit op)]) = 0%nat) by (destruct first; reflexivity).
      rewrite Z0. lia.
Qed.

(* ---- instruction steps ---- *)
Lemma ncalls_line b p its : ncalls (ILine b p :: its) = ncalls its.
Proof. reflexivity. Qed.
Lemma ncalls_call c its : ncalls (ICall c :: its) = S (ncalls its).
Proof. reflexivity. Qed.
Lemma lbytes_line b p its : lbytes (ILine b p :: its) = b ++ lbytes its.
Proof. reflexivity. Qed.
Lemma lbytes_call c its : lbytes (ICall c :: its) = lbytes its.
Proof. reflexivity. Qed.
Lemma ncalls_nil : ncalls [] = 0%nat. Proof. reflexivity. Qed.
Lemma lbytes_nil : lbytes [] = []. Proof. reflexivity. Qed.
Ltac cnt := repeat first [rewrite ncalls_app | rewrite lbytes_app | rewrite ncalls_line | rewrite ncalls_call
                         | rewrite lbytes_line | rewrite lbytes_call | rewrite ncalls_nil | rewrite lbytes_nil | rewrite app_length];
            cbn [length app]; try lia.

Definition step_rest (r : step_res) : option (list byte) :=
  match r with StepOk _ b => Some b | StepErr _ => None end.

Lemma cons_pref opcode p its b r : pref b its r -> pref (opcode :: b) (ILine [opcode] p :: its) r.
Proof.
  intros P. change (ILine [opcode] p :: its) with ([ILine [opcode] p] ++ its).
  eapply pref_seq; [|exact P]. reflexivity.
Qed.

Lemma pref_call b its r c : pref b its (Some r) -> pref b (its ++ [ICall c]) (Some r).
Proof. unfold pref. rewrite lbytes_app. cbn. rewrite app_nil_r. auto. Qed.

Definition head_is_opcode (opcode : Z) (its : list item) (r : step_res) : Prop :=
  match r with StepOk _ _ => exists p tl, its = ILine [opcode] p :: tl | StepErr _ => True end.
Ltac hd := unfold head_is_opcode; try exact I; do 2 eexists; reflexivity.

Lemma styling_step_pref opcode b its r : styling_step opcode b = (its, r) ->
  pref (opcode :: b) its (step_rest r) /\ (ncalls its <= length (lbytes its))%nat /\ head_is_opcode opcode its r.
Proof.
  unfold styling_step. cbv zeta beta.
  destruct (opcode <? 64); [intros [= <- <-]; split; [reflexivity|split; [cnt|hd]]|].
  destruct (opcode <? 128); [intros [= <- <-]; split; [reflexivity|split; [cnt|hd]]|].
  destruct (opcode <? 168).
  { destruct (dec_color_form _ b) as [[c n]|] eqn:E; intros [= <- <-].
    - pose proof (good_color _ b c n E) as L. split; [|split; [cnt|hd]].
      cbn. rewrite app_nil_r. f_equal. symmetry. apply firstn_skipn.
    - split; [exists b; reflexivity|split; [cnt|hd]]. }
  destruct (opcode <? 192).
  { set (dec := if _ =? 0 then dec_real else if _ =? 1 then dec_coordinate else dec_zero_to_one).
    assert (G : good_dec dec).
    { unfold dec. destruct (_ =? 0); [apply good_real|]. destruct (_ =? 1); [apply good_coord|apply good_zto]. }
    destruct (dec b) as [[f n]|] eqn:E; intros [= <- <-].
    - pose proof (G b f n E) as L. split; [|split; [cnt|hd]].
      cbn. rewrite app_nil_r. f_equal. symmetry. apply firstn_skipn.
    - split; [exists b; reflexivity|split; [cnt|hd]]. }
  destruct (opcode <? 199).
  { destruct (read_coords 2 b) as [its0 r0] eqn:E. destruct (read_coords_pref 2 b its0 r0 E) as (P & C & L).
    destruct r0 as [[xs b']|].
    - cbn in P. destruct xs as [|x [|y [|? ?]]]; intros [= <- <-].
      + split; [apply cons_pref; eapply pref_fail; exact P|split; [cnt|hd]].
      + split; [apply cons_pref; eapply pref_fail; exact P|split; [cnt|hd]].
      + split; [apply cons_pref; apply pref_call; exact P|split; [cnt|hd]].
      + split; [apply cons_pref; eapply pref_fail; exact P|split; [cnt|hd]].
    - intros [= <- <-]. split; [apply cons_pref; exact P|split; [cnt|hd]]. }
  destruct (opcode =? 199).
  { destruct (read_num dec_real PNum b) as [[[it0 l0] b1]|] eqn:E0.
    - destruct (read_num_ok good_real E0) as (B0 & C0 & L0).
      destruct (read_num dec_real PNum b1) as [[[it1 l1] b2]|] eqn:E1.
      + destruct (read_num_ok good_real E1) as (B1 & C1 & L1). intros [= <- <-]. split.
        * apply cons_pref. eapply pref_seq; [exact B0|]. apply pref_call. exact B1.
        * split; [cnt|hd].
      + intros [= <- <-]. split; [apply cons_pref; eapply pref_fail; exact B0|split; [cnt|hd]].
    - intros [= <- <-]. split; [exists b; reflexivity|split; [cnt|hd]]. }
  intros [= <- <-]. split; [exists (opcode :: b); reflexivity|split; [cnt|hd]].
Qed.

Lemma drawing_step_pref opcode b its r : drawing_step opcode b = (its, r) ->
  pref (opcode :: b) its (step_rest r) /\ (ncalls its <= length (lbytes its))%nat /\ head_is_opcode opcode its r.
Proof.
  unfold drawing_step, draw_group. cbv zeta beta.
  destruct (opcode <? 224).
  { set (cfg := if _ <? 2 then _ else _). destruct cfg as [[op ncoords] nreps] eqn:Ecfg.
    set (one := if op =? opA then arc_rep false else if op =? opa then arc_rep true else draw_rep op ncoords).
    assert (K : op = opA \/ op = opa \/ (1 <= ncoords)%nat).
    { unfold cfg in Ecfg.
      repeat match type of Ecfg with (if ?c then _ else _) = _ => destruct c end;
      injection Ecfg as <- <- <-; auto; right; right; lia. }
    assert (Hp : forall b its r, one b = (its, r) -> pref b its r).
    { intros b0 i0 r0. unfold one. destruct (op =? opA); [apply arc_rep_pref|].
      destruct (op =? opa); [apply arc_rep_pref|apply draw_rep_pref]. }
    assert (Hc : forall b its r, one b = (its, r) -> (ncalls its <= 1)%nat /\ (ncalls its <= length (lbytes its))%nat).
    { intros b0 i0 r0. unfold one. destruct (op =? opA) eqn:EA; [apply arc_rep_calls|].
      destruct (op =? opa) eqn:Ea; [apply arc_rep_calls|]. apply draw_rep_calls.
      destruct K as [->|[->|K]]; [discriminate|discriminate|exact K]. }
    destruct (reps true (Z.to_nat nreps) op one b) as [its0 r0] eqn:E.
    pose proof (reps_pref _ _ _ _ _ _ _ Hp E) as P. destruct (reps_calls _ _ _ _ _ _ _ Hc E) as [_ C].
    destruct r0 as [b'|]; intros [= <- <-]; (split; [apply cons_pref; exact P|split; [cnt|hd]]). }
  destruct (opcode =? 225); [intros [= <- <-]; split; [reflexivity|split; [cnt|hd]]|].
  assert (S : forall op k, (1 <= k)%nat ->
     (match draw_rep op k b with
      | (its0, Some b') => (ILine [opcode] (PSimple op) :: its0, StepOk true b')
      | (its0, None) => (ILine [opcode] (PSimple op) :: its0, StepErr EInvalidNumber)
      end) = (its, r) -> pref (opcode :: b) its (step_rest r) /\ (ncalls its <= length (lbytes its))%nat /\ head_is_opcode opcode its r).
  { intros op k K. destruct (draw_rep op k b) as [its0 r0] eqn:E.
    pose proof (draw_rep_pref _ _ _ _ _ E) as P. destruct (draw_rep_calls _ _ _ _ _ K E) as [_ C].
    destruct r0 as [b'|]; intros [= <- <-]; (split; [apply cons_pref; exact P|split; [cnt|hd]]). }
  destruct (opcode =? 226); [apply S; lia|]. destruct (opcode =? 227); [apply S; lia|].
  destruct (opcode =? 230); [apply S; lia|]. destruct (opcode =? 231); [apply S; lia|].
  destruct (opcode =? 232); [apply S; lia|]. destruct (opcode =? 233); [apply S; lia|].
  intros [= <- <-]. split; [exists (opcode :: b); reflexivity|split; [cnt|hd]].
Qed.

Definition outcome_ok (o : outcome) : Prop := match o with Done | Fail _ => True | _ => False end.

Lemma dec_ops_ok fuel : forall drawing b its o, (length b <= fuel)%nat ->
  dec_ops fuel drawing b = (its, o) ->
  outcome_ok o /\ (ncalls its <= length (lbytes its))%nat /\
  (o = Done -> lbytes its = b) /\ (exists t, b = lbytes its ++ t).
Proof.
  induction fuel as [|fuel IH]; intros drawing b its o L; destruct b as [|opcode rest]; cbn [dec_ops].
  - intros [= <- <-]. cbn. repeat split; auto. exists []. reflexivity.
  - cbn in L. lia.
  - intros [= <- <-]. cbn. repeat split; auto. exists []. reflexivity.
  - cbn in L.
    assert (St : forall its r, (if drawing then drawing_step else styling_step) opcode rest = (its, r) ->
                 pref (opcode :: rest) its (step_rest r) /\ (ncalls its <= length (lbytes its))%nat /\ head_is_opcode opcode its r).
    { intros i r. destruct drawing; [apply drawing_step_pref|apply styling_step_pref]. }
    destruct ((if drawing then drawing_step else styling_step) opcode rest) as [its1 r1] eqn:E.
    destruct (St its1 r1 eq_refl) as (P & C & Hd). destruct r1 as [e|d b'].
    + intros [= <- <-]. cbn in P. repeat split; auto. discriminate.
    + cbn in P. destruct (dec_ops fuel d b') as [its' o'] eqn:E2. intros [= <- <-].
      assert (Lb : (length b' <= fuel)%nat).
      { destruct Hd as (p & tl & ->). rewrite lbytes_line in P. cbn [app] in P.
        injection P as P. apply (f_equal (@length byte)) in P. rewrite app_length in P. lia. }
      destruct (IH d b' its' o' Lb E2) as (O & C' & D & [t T]).
      rewrite ncalls_app, lbytes_app, app_length. repeat split; try assumption; try lia.
      * intros Ho. rewrite (D Ho). symmetry. exact P.
      * exists t. rewrite P, T, app_assoc. reflexivity.
Qed.

(* ---- metadata ---- *)
Lemma read_palette_ok k : forall i form pal b its r,
  read_palette k i form pal b = (its, r) ->
  ncalls its = 0%nat /\
  match r with
  | Some (_, rest) => b = lbytes its ++ rest
  | None => exists t, b = lbytes its ++ t
  end.
Proof.
  induction k as [|k IH]; intros i form pal b its r; cbn [read_palette].
  - intros [= <- <-]. split; reflexivity.
  - destruct (dec_color_form _ b) as [[c n]|] eqn:E.
    + destruct (read_palette k (S i) form _ (skipn n b)) as [its' r'] eqn:E2. intros [= <- <-].
      destruct (IH _ _ _ _ _ _ E2) as [C R]. split; [exact C|].
      assert (B : b = firstn n b ++ skipn n b) by (symmetry; apply firstn_skipn).
      destruct r' as [[p rest]|].
      * rewrite lbytes_line, <- app_assoc, <- R. exact B.
      * destruct R as [t R]. exists t. rewrite lbytes_line, <- app_assoc, <- R. exact B.
    + intros [= <- <-]. split; [reflexivity|]. exists b. reflexivity.
Qed.

Definition chunk_rest (r : chunk_res) : option (list byte) :=
  match r with ChunkOk _ b _ => Some b | ChunkErr _ => None end.

Ltac c3 := split; [try reflexivity; try cnt|split; [|try discriminate]].
Ltac c4 := split; [try reflexivity; try cnt|split; [|split; try discriminate]].

Lemma dec_chunk_ok minmid m b its r : dec_chunk minmid m b = (its, r) ->
  ncalls its = 0%nat /\ pref b its (chunk_rest r) /\
  (forall m' b' mid, r = ChunkOk m' b' mid -> (length b' < length b)%nat).
Proof.
  unfold dec_chunk.
  destruct (dec_natural b) as [[len n]|] eqn:E0; [|intros [= <- <-]; c3; apply pref_nil].
  pose proof (dec_natural_len b len n E0) as L0.
  assert (B0 : b = lbytes [ILine (firstn n b) (PChunkLen len)] ++ skipn n b) by (cbn; rewrite app_nil_r; symmetry; apply firstn_skipn).
  assert (Lsk : (length (skipn n b) < length b)%nat) by (rewrite skipn_length; lia).
  set (b1 := skipn n b) in *.
  destruct (dec_natural b1) as [[mid n1]|] eqn:E1; [|intros [= <- <-]; c3; eapply pref_fail; exact B0].
  pose proof (dec_natural_len b1 mid n1 E1) as L1.
  destruct (2 <=? mid); [intros [= <- <-]; c3; eapply pref_fail; exact B0|].
  destruct (mid <? minmid); [intros [= <- <-]; c3; eapply pref_fail; exact B0|].
  assert (B1 : b1 = lbytes [ILine (firstn n1 b1) (PMid mid)] ++ skipn n1 b1) by (cbn; rewrite app_nil_r; symmetry; apply firstn_skipn).
  set (b2 := skipn n1 b1) in *.
  assert (L2 : (length b2 <= length b1)%nat) by (unfold b2; rewrite skipn_length; lia).
  assert (Hd : forall tl res, pref b2 tl res ->
           pref b (ILine (firstn n b) (PChunkLen len) :: ILine (firstn n1 b1) (PMid mid) :: tl) res).
  { intros tl res Q.
    change (ILine (firstn n b) (PChunkLen len) :: ILine (firstn n1 b1) (PMid mid) :: tl)
      with ([ILine (firstn n b) (PChunkLen len)] ++ [ILine (firstn n1 b1) (PMid mid)] ++ tl).
    eapply pref_seq; [exact B0|]. eapply pref_seq; [exact B1|exact Q]. }
  destruct (mid =? 0).
  - destruct (read_coords 4 b2) as [its0 r0] eqn:E2. destruct (read_coords_pref 4 b2 its0 r0 E2) as (P & C & _).
    destruct r0 as [[xs b']|].
    + cbn in P.
      assert (Lb' : (length b' <= length b2)%nat) by (apply (f_equal (@length byte)) in P; rewrite app_length in P; lia).
      destruct xs as [|x0 [|y0 [|x1 [|y1 [|? ?]]]]];
        try (intros [= <- <-]; c3; apply Hd; eapply pref_fail; exact P).
      destruct (viewbox_invalid _); [intros [= <- <-]; c3; apply Hd; eapply pref_fail; exact P|].
      destruct (_ =? _); intros [= <- <-].
      * split; [cnt|split; [apply Hd; exact P|]]. intros m' b'' mid' [= _ <- _]. lia.
      * c3. apply Hd; eapply pref_fail; exact P.
    + intros [= <- <-]. c3. apply Hd; exact P.
  - destruct b2 as [|h b3] eqn:Eb2.
    + intros [= <- <-]. c3. apply Hd; apply pref_nil.
    + destruct (read_palette _ 0 _ (m_pal m) b3) as [its0 r0] eqn:E2.
      destruct (read_palette_ok _ _ _ _ _ _ _ E2) as [C R].
      assert (Hd2 : forall tl res, pref b3 tl res ->
               pref b (ILine (firstn n b) (PChunkLen len) :: ILine (firstn n1 b1) (PMid mid) :: ILine [h] (PPalHdr (1 + h mod 64) (1 + h / 64)) :: tl) res).
      { intros tl res Q. apply Hd. change (ILine [h] (PPalHdr (1 + h mod 64) (1 + h / 64)) :: tl) with ([ILine [h] (PPalHdr (1 + h mod 64) (1 + h / 64))] ++ tl).
        eapply pref_seq; [|exact Q]. reflexivity. }
      destruct r0 as [[pal b']|].
      * assert (Lb' : (length b' <= length b3)%nat) by (apply (f_equal (@length byte)) in R; rewrite app_length in R; lia).
        destruct (_ =? _); intros [= <- <-].
        -- split; [cnt|split; [apply Hd2; exact R|]]. intros m' b'' mid' [= _ <- _]. cbn [length] in L2. lia.
        -- c3. apply Hd2; eapply pref_fail; exact R.
      * intros [= <- <-]. c3. apply Hd2; exact R.
Qed.

Definition chunks_rest (r : chunks_res) : option (list byte) :=
  match r with ChunksOk _ b => Some b | ChunksErr _ => None end.

Lemma dec_chunks_ok fuel : forall n minmid m b its r, (length b < fuel)%nat ->
  dec_chunks fuel n minmid m b = (its, r) ->
  ncalls its = 0%nat /\ pref b its (chunks_rest r) /\ r <> ChunksErr OutOfFuel /\ r <> ChunksErr Panic.
Proof.
  induction fuel as [|fuel IH]; intros n minmid m b its r L; [lia|]. cbn [dec_chunks].
  destruct (n <=? 0); [intros [= <- <-]; c4; reflexivity|].
  destruct (dec_chunk minmid m b) as [its1 r1] eqn:E. destruct (dec_chunk_ok _ _ _ _ _ E) as (C & P & Lt).
  destruct r1 as [e|m' b' mid].
  - intros [= <- <-]. c4. exact P.
  - destruct (dec_chunks fuel (n - 1) (mid + 1) m' b') as [its' r'] eqn:E2. intros [= <- <-].
    specialize (Lt m' b' mid eq_refl).
    assert (Lf : (length b' < fuel)%nat) by lia.
    destruct (IH _ _ _ _ _ _ Lf E2) as (C' & P' & N1 & N2).
    split; [cnt|split; [eapply pref_seq; [exact P|exact P']|split; [exact N1|exact N2]]].
Qed.

Lemma has_prefix_magic b : has_prefix magic b = true -> exists t, b = magic ++ t /\ firstn 4 b = magic /\ skipn 4 b = t.
Proof.
  unfold magic. destruct b as [|a [|a1 [|a2 [|a3 t]]]]; cbn [has_prefix]; intros H.
  - discriminate.
  - destruct (137 =? a); discriminate.
  - destruct (137 =? a); [destruct (73 =? a1)|]; discriminate.
  - destruct (137 =? a); [destruct (73 =? a1); [destruct (86 =? a2)|]|]; discriminate.
  - destruct (137 =? a) eqn:E0; [|discriminate]. destruct (73 =? a1) eqn:E1; [|discriminate].
    destruct (86 =? a2) eqn:E2; [|discriminate]. destruct (71 =? a3) eqn:E3; [|discriminate].
    apply Z.eqb_eq in E0, E1, E2, E3. subst. exists t. split; [reflexivity|split; reflexivity].
Qed.

Lemma dec_metadata_ok b its r : dec_metadata b = (its, r) ->
  ncalls its = 0%nat /\ pref b its (chunks_rest r) /\ r <> ChunksErr OutOfFuel /\ r <> ChunksErr Panic.
Proof.
  unfold dec_metadata. destruct (has_prefix magic b) eqn:M; cbn [negb].
  2:{ intros [= <- <-]. c4. apply pref_nil. }
  destruct (has_prefix_magic b M) as (t & B & F & Sk). rewrite F, Sk.
  destruct (dec_natural t) as [[nc n]|] eqn:E.
  2:{ intros [= <- <-]. c4. exists t. rewrite lbytes_line, lbytes_nil, app_nil_r. exact B. }
  destruct (dec_chunks _ nc 0 default_meta (skipn n t)) as [its1 r1] eqn:E2. intros [= <- <-].
  assert (Lf : (length (skipn n t) < S (length (skipn n t)))%nat) by lia.
  destruct (dec_chunks_ok _ _ _ _ _ _ _ Lf E2) as (C & P & N1 & N2).
  split; [cnt|split; [|split; [exact N1|exact N2]]].
  change (ILine magic PMagic :: ILine (firstn n t) (PNChunks nc) :: its1)
    with ([ILine magic PMagic] ++ [ILine (firstn n t) (PNChunks nc)] ++ its1).
  apply (pref_seq b [ILine magic PMagic] t); [exact B|].
  apply (pref_seq t [ILine (firstn n t) (PNChunks nc)] (skipn n t)); [rewrite lbytes_line, lbytes_nil, app_nil_r; symmetry; apply firstn_skipn|exact P].
Qed.

Lemma dec_chunks_err fuel : forall n minmid m b its o,
  dec_chunks fuel n minmid m b = (its, ChunksErr o) -> o <> Done.
Proof.
  induction fuel as [|fuel IH]; intros n minmid m b its o; cbn [dec_chunks].
  - destruct (n <=? 0); intros [= _ <-]; discriminate.
  - destruct (n <=? 0); [discriminate|].
    destruct (dec_chunk minmid m b) as [i1 [e|m1 b1 mid]]; [intros [= _ <-]; discriminate|].
    destruct (dec_chunks fuel (n - 1) (mid + 1) m1 b1) as [i2 r2] eqn:E. intros [= _ ->]. eapply IH; exact E.
Qed.

Lemma dec_metadata_err b its o : dec_metadata b = (its, ChunksErr o) -> o <> Done.
Proof.
  unfold dec_metadata. destruct (negb _); [intros [= _ <-]; discriminate|].
  destruct (dec_natural _) as [[nc n]|]; [|intros [= _ <-]; discriminate].
  destruct (dec_chunks _ _ _ _ _) as [i r] eqn:E. intros [= _ ->]. eapply dec_chunks_err; exact E.
Qed.

(* ================= theorems about the whole of decode ================= *)

Definition opts_in_range (os : list dopt) : Prop :=
  Forall (fun o => match o with OColorAt i _ => 0 <= i < 64 | _ => True end) os.

Lemma apply_opts_some os : forall m, opts_in_range os -> exists m', apply_opts os m = Some m'.
Proof.
  induction os as [|o r IH]; intros m F; [exists m; reflexivity|].
  inversion F as [|? ? Ho Fr]; subst. destruct o as [p|i c]; cbn [apply_opts].
  - apply IH; assumption.
  - replace ((0 <=? i) && (i <? 64)) with true by lia. apply IH; assumption.
Qed.

(* C02: no panic and no fuel exhaustion, for every byte string *)
Theorem decode_no_panic os b : opts_in_range os -> outcome_ok (snd (decode_items os b)).
Proof.
  intros F. unfold decode_items. destruct (dec_metadata b) as [its r] eqn:E.
  destruct (dec_metadata_ok _ _ _ E) as (_ & _ & N1 & N2). destruct r as [o|m rest].
  - cbn. destruct o; try exact I; congruence.
  - destruct (apply_opts_some os m F) as [m' ->].
    destruct (dec_ops (length rest) false rest) as [its' o] eqn:E2. cbn.
    apply (dec_ops_ok _ _ _ _ _ (le_n _) E2).
Qed.

(* C02 / C13: nothing is delivered before the metadata is complete; the first call is Reset *)
Theorem nothing_before_metadata os b :
  let cs := fst (decode_calls os b) in
  cs = [] \/ exists vb pal tl m rest its, cs = CReset vb pal :: tl /\ dec_metadata b = (its, ChunksOk m rest).
Proof.
  unfold decode_calls, decode_items. destruct (dec_metadata b) as [its r] eqn:E.
  destruct (dec_metadata_ok _ _ _ E) as (C & _). destruct r as [o|m rest].
  - left. cbn. unfold ncalls in C. destruct (calls_of its); [reflexivity|discriminate].
  - destruct (apply_opts os m) as [m'|].
    + destruct (dec_ops (length rest) false rest) as [its' o]. right. cbn.
      rewrite calls_of_app. unfold ncalls in C. destruct (calls_of its); [|discriminate]. cbn.
      do 6 eexists. split; reflexivity.
    + left. cbn. unfold ncalls in C. destruct (calls_of its); [reflexivity|discriminate].
Qed.

(* C02: every delivered call is charged to a distinct consumed input byte *)
Theorem calls_le_bytes os b : (length (fst (decode_calls os b)) <= length b)%nat.
Proof.
  unfold decode_calls, decode_items. destruct (dec_metadata b) as [its r] eqn:E.
  destruct (dec_metadata_ok _ _ _ E) as (C & P & _). unfold ncalls in C. destruct r as [o|m rest].
  - cbn. rewrite C. lia.
  - cbn in P. destruct (apply_opts os m) as [m'|]; [|cbn; rewrite C; lia].
    destruct (dec_ops (length rest) false rest) as [its' o] eqn:E2.
    destruct (dec_ops_ok _ _ _ _ _ (le_n _) E2) as (_ & C' & _ & [t T]). cbn.
    rewrite calls_of_app. cbn. rewrite app_length, C. cbn.
    (* the Reset is charged to the magic identifier *)
    assert (Lm : (4 <= length (lbytes its))%nat).
    { unfold dec_metadata in E. destruct (has_prefix magic b) eqn:M; cbn [negb] in E; [|discriminate].
      destruct (has_prefix_magic b M) as (t0 & _ & F & Sk). rewrite F, Sk in E.
      destruct (dec_natural t0) as [[nc n]|]; [|discriminate].
      destruct (dec_chunks _ _ _ _ _) as [i1 r1]. injection E as <- _. rewrite lbytes_line, app_length. cbn. lia. }
    unfold ncalls in C'. rewrite P, app_length, T, app_length. unfold calls_of in *. lia.
Qed.

(* C11: on success the bytes of the listing's lines, in order, are exactly the input *)
Theorem lines_cover_input os b its : decode_items os b = (its, Done) -> lbytes its = b.
Proof.
  unfold decode_items. destruct (dec_metadata b) as [its0 r] eqn:E.
  destruct (dec_metadata_ok _ _ _ E) as (_ & P & _). destruct r as [o|m rest].
  - intros [= <- ->]. exfalso. exact (dec_metadata_err _ _ _ E eq_refl).
  - cbn in P. destruct (apply_opts os m) as [m'|]; [|intros [= _ H]; discriminate].
    destruct (dec_ops (length rest) false rest) as [its' o] eqn:E2. intros [= <- ->].
    destruct (dec_ops_ok _ _ _ _ _ (le_n _) E2) as (_ & _ & D & _).
    rewrite lbytes_app, lbytes_call, (D eq_refl). symmetry. exact P.
Qed.

(* ================= C13 / C14: metadata results and palette options ================= *)

Lemma sanitize_valid p : Forall (fun c => valid_premul c = true) (sanitize_palette p).
Proof.
  unfold sanitize_palette. apply Forall_forall. intros c H. apply in_map_iff in H as (x & <- & _).
  destruct (valid_premul x) eqn:E; [exact E|reflexivity].
Qed.

Lemma sanitize_id p : Forall (fun c => valid_premul c = true) p -> sanitize_palette p = p.
Proof.
  unfold sanitize_palette. induction p as [|c r IH]; intros F; [reflexivity|].
  inversion F as [|? ? Hc Fr]; subst. cbn. rewrite Hc, IH by assumption. reflexivity.
Qed.

Lemma sanitize_length p : length (sanitize_palette p) = length p.
Proof. unfold sanitize_palette. apply map_length. Qed.

Lemma sanitize_nth p : forall i, (i < length p)%nat ->
  nth i (sanitize_palette p) opaque_black = let c := nth i p opaque_black in if valid_premul c then c else opaque_black.
Proof.
  unfold sanitize_palette. induction p as [|c r IH]; intros i L; [cbn in L; lia|].
  destruct i as [|i]; [reflexivity|]. cbn [map nth]. apply IH. cbn in L. lia.
Qed.

(* a valid premultiplied colour is never a gradient *)
Lemma premul_not_gradient c : 0 <= cb c -> valid_premul c = true -> valid_gradient c = false.
Proof. unfold valid_premul, valid_gradient. intros. lia. Qed.

Lemma set_nth_length {A} (l : list A) i x : (i < length l)%nat -> length (set_nth l i x) = length l.
Proof. intros L. unfold set_nth. rewrite app_length. cbn [length]. rewrite firstn_length_le, skipn_length by lia. lia. Qed.

Lemma set_nth_same {A} (l : list A) i x d : (i < length l)%nat -> nth i (set_nth l i x) d = x.
Proof.
  intros L. unfold set_nth. rewrite app_nth2; rewrite firstn_length_le by lia; [|lia].
  rewrite Nat.sub_diag. reflexivity.
Qed.

Lemma set_nth_other {A} (l : list A) i j x d : i <> j -> (i < length l)%nat -> nth j (set_nth l i x) d = nth j l d.
Proof.
  intros N L. unfold set_nth. destruct (Nat.lt_ge_cases j i) as [Hlt|Hge].
  - rewrite app_nth1 by (rewrite firstn_length_le; lia).
    rewrite <- (firstn_skipn i l) at 2. rewrite app_nth1 by (rewrite firstn_length_le; lia). reflexivity.
  - rewrite app_nth2 by (rewrite firstn_length_le; lia). rewrite firstn_length_le by lia.
    destruct (j - i)%nat as [|k] eqn:E; [lia|]. cbn [nth].
    rewrite <- (firstn_skipn (S i) l) at 2. rewrite app_nth2; rewrite firstn_length_le by lia; [|lia].
    f_equal. lia.
Qed.

(* the palette options are a left fold over the suggested palette *)
Definition apply_one (m : option meta) (o : dopt) : option meta :=
  match m with
  | None => None
  | Some m =>
      match o with
      | OPalette p => Some (mkMeta (m_vb m) p)
      | OColorAt i c =>
          if (0 <=? i) && (i <? 64) then Some (mkMeta (m_vb m) (set_nth (m_pal m) (Z.to_nat i) c)) else None
      end
  end.

Lemma fold_none os : fold_left apply_one os None = None.
Proof. induction os as [|o r IH]; [reflexivity|exact IH]. Qed.

Lemma opts_fold os : forall m, apply_opts os m = fold_left apply_one os (Some m).
Proof.
  induction os as [|o r IH]; intros m; [reflexivity|]. cbn [apply_opts fold_left apply_one].
  destruct o as [p|i c]; [apply IH|].
  destruct ((0 <=? i) && (i <? 64)); [apply IH|]. symmetry. apply fold_none.
Qed.

(* the palette handed to Reset: options folded over the suggested palette, then sanitised *)
Theorem reset_palette os b its m rest m' :
  dec_metadata b = (its, ChunksOk m rest) -> apply_opts os m = Some m' ->
  exists tl, fst (decode_calls os b) = CReset (m_vb m') (sanitize_palette (m_pal m')) :: tl.
Proof.
  intros E A. unfold decode_calls, decode_items. rewrite E, A.
  destruct (dec_ops (length rest) false rest) as [its' o]. cbn [fst].
  destruct (dec_metadata_ok _ _ _ E) as (C & _). unfold ncalls in C.
  rewrite calls_of_app. destruct (calls_of its); [|discriminate]. cbn. eexists. reflexivity.
Qed.

(* metadata-only decoding validates exactly what Decode validates and returns the same viewBox *)
Theorem viewbox_only_agrees b :
  match dec_metadata b with
  | (_, ChunksOk m _) => decode_viewbox b = (m_vb m, Done) /\
                         exists vb pal tl, fst (decode_calls [] b) = CReset vb pal :: tl /\ vb = m_vb m
  | (_, ChunksErr o) => snd (decode_viewbox b) = o /\ decode_calls [] b = ([], o)
  end.
Proof.
  unfold decode_viewbox, decode_calls, decode_items. destruct (dec_metadata b) as [its r] eqn:E.
  destruct (dec_metadata_ok _ _ _ E) as (C & _). unfold ncalls in C. destruct r as [o|m rest].
  - split; [reflexivity|]. cbn. destruct (calls_of its); [reflexivity|discriminate].
  - split; [reflexivity|]. cbn [apply_opts].
    destruct (dec_ops (length rest) false rest) as [its' o]. cbn [fst].
    rewrite calls_of_app. destruct (calls_of its); [|discriminate]. cbn. do 3 eexists. split; reflexivity.
Qed.

(* no chunks: the defaults *)
Theorem metadata_defaults rest :
  dec_metadata (magic ++ 0 :: rest) = ([ILine magic PMagic; ILine [0] (PNChunks 0)], ChunksOk default_meta rest).
Proof. reflexivity. Qed.

(* a viewBox chunk is accepted only if the box is not inverted and all four numbers are finite *)
Theorem viewbox_accept minmid m b its m' b' : dec_chunk minmid m b = (its, ChunkOk m' b' 0) ->
  viewbox_invalid (m_vb m') = false /\ m_pal m' = m_pal m.
Proof.
  unfold dec_chunk. destruct (dec_natural b) as [[len n]|]; [|discriminate].
  destruct (dec_natural (skipn n b)) as [[mid n1]|]; [|discriminate].
  destruct (2 <=? mid); [discriminate|]. destruct (mid <? minmid); [discriminate|].
  destruct (mid =? 0) eqn:M.
  - destruct (read_coords 4 _) as [i0 [[xs bb]|]]; [|discriminate].
    destruct xs as [|x0 [|y0 [|x1 [|y1 [|? ?]]]]]; try discriminate.
    destruct (viewbox_invalid _) eqn:V; [discriminate|]. destruct (Z.of_nat (length bb) =? _); [|discriminate].
    intros H; inversion H; subst. cbn. split; [exact V|reflexivity].
  - destruct (skipn n1 _) as [|h b3]; [discriminate|].
    destruct (read_palette _ _ _ _ _) as [i0 [[pal bb]|]]; [|discriminate].
    destruct (Z.of_nat (length bb) =? _); [|discriminate]. intros H; inversion H; subst. discriminate.
Qed.

(* the palette reader: N+1 explicit entries, each sanitised; the others untouched *)
Lemma read_palette_spec k : forall i form pal b its pal' rest,
  (i + k <= length pal)%nat ->
  read_palette k i form pal b = (its, Some (pal', rest)) ->
  length pal' = length pal /\
  (forall j, (j < i \/ i + k <= j)%nat -> nth j pal' opaque_black = nth j pal opaque_black) /\
  (forall j, (i <= j < i + k)%nat -> valid_premul (nth j pal' opaque_black) = true).
Proof.
  induction k as [|k IH]; intros i form pal b its pal' rest L; cbn [read_palette].
  - intros [= _ <- _]. split; [reflexivity|]. split; [reflexivity|]. intros j H; lia.
  - destruct (dec_color_form _ b) as [[c n]|]; [|discriminate].
    destruct (read_palette k (S i) form _ (skipn n b)) as [its' [[p r]|]] eqn:E; [|discriminate].
    intros [= _ <- _].
    assert (Ls : length (set_nth pal i (fst (color_rgba c))) = length pal) by (apply set_nth_length; lia).
    assert (Lk : (S i + k <= length (set_nth pal i (fst (color_rgba c))))%nat) by (rewrite Ls; lia).
    destruct (IH _ _ _ _ _ _ _ Lk E) as (Lp & Ho & Hv).
    split; [rewrite Lp; exact Ls|]. split.
    + intros j Hj. rewrite Ho by lia. apply set_nth_other; lia.
    + intros j Hj. destruct (Nat.eq_dec j i) as [->|N].
      * rewrite Ho by lia. rewrite set_nth_same by lia.
        unfold color_rgba. destruct c as [d| | |]; try reflexivity. destruct (valid_premul d) eqn:V; [exact V|reflexivity].
      * apply Hv. lia.
Qed.

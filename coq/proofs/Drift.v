(* Drift.v — how far a path moves when its coordinates are perturbed (C07: "up to coordinate quantisation").
   Over the SVG path semantics of spec/SvgPath.v (which the renderer's geometry is proved to realise, C05): if two
   operation lists have the same operations and every argument differs by at most delta, then after n operations the
   pen and the sub-path start differ by at most n * delta in each coordinate (an absolute operation resets the
   difference to delta, a relative one adds delta), whatever the smooth-curve state is.  With delta = 1/128
   (QuantF.quantize_close: a low-resolution coordinate and its written form differ by at most 1/128) this bounds the
   movement of every segment end point of a quantised path in viewBox units; the affine map to pixels multiplies
   it by the scale. *)
From Coq Require Import Reals Lra List ZArith.
From IVG Require Import Calls SvgPath.
Import ListNotations.
Local Open Scope R_scope.

Definition close (e : R) (p q : pt) : Prop := Rabs (fst p - fst q) <= e /\ Rabs (snd p - snd q) <= e.
Definition args_close (d : R) (a b : list R) : Prop := forall i, Rabs (nth i a 0 - nth i b 0) <= d.

Lemma abs_le a e : Rabs a <= e <-> - e <= a <= e.
Proof.
  split; intros H.
  - unfold Rabs in H. destruct (Rcase_abs a); lra.
  - unfold Rabs. destruct (Rcase_abs a); lra.
Qed.

Ltac two_sided :=
  repeat match goal with
  | H : Rabs _ <= _ |- _ => apply abs_le in H
  | |- Rabs _ <= _ => apply abs_le
  end.

Lemma step_drift st st' op a a' e d : 0 <= d -> 0 <= e ->
  close e (p_pen st) (p_pen st') -> close e (p_start st) (p_start st') -> args_close d a a' ->
  close (e + d) (p_pen (fst (svg_step st op a))) (p_pen (fst (svg_step st' op a'))) /\
  close (e + d) (p_start (fst (svg_step st op a))) (p_start (fst (svg_step st' op a'))).
Proof.
  intros Hd He [Px Py] [Sx Sy] A.
  pose proof (A 0%nat) as A0. pose proof (A 1%nat) as A1. pose proof (A 2%nat) as A2.
  pose proof (A 3%nat) as A3. pose proof (A 4%nat) as A4. pose proof (A 5%nat) as A5.
  unfold svg_step, close.
  repeat match goal with |- context [if ?c then _ else _] => destruct c end;
    cbn [fst snd p_pen p_start padd]; repeat split; two_sided; lra.
Qed.

Theorem run_drift : forall ops ops' st st' e d, 0 <= d -> 0 <= e ->
  Forall2 (fun x y => fst x = fst y /\ args_close d (snd x) (snd y)) ops ops' ->
  close e (p_pen st) (p_pen st') -> close e (p_start st) (p_start st') ->
  close (e + INR (length ops) * d) (p_pen (fst (svg_run st ops))) (p_pen (fst (svg_run st' ops'))) /\
  close (e + INR (length ops) * d) (p_start (fst (svg_run st ops))) (p_start (fst (svg_run st' ops'))).
Proof.
  induction ops as [|[op a] r IH]; intros ops' st st' e d Hd He F P S.
  - inversion F; subst. cbn [svg_run fst length INR]. rewrite Rmult_0_l, Rplus_0_r. split; assumption.
  - inversion F as [|x [op' a'] l l' [Eo Ea] F']; subst. cbn [fst snd] in Eo, Ea. subst op'.
    cbn [svg_run].
    destruct (step_drift st st' op a a' e d Hd He P S Ea) as [P1 S1].
    destruct (svg_step st op a) as [st1 s1]. destruct (svg_step st' op a') as [st1' s1'].
    cbn [fst] in P1, S1.
    assert (He' : 0 <= e + d) by lra.
    destruct (IH l' st1 st1' (e + d) d Hd He' F' P1 S1) as [P2 S2].
    destruct (svg_run st1 r) as [st2 s2]. destruct (svg_run st1' l') as [st2' s2'].
    cbn [fst] in *. cbn [length]. rewrite S_INR.
    replace (e + (INR (length r) + 1) * d) with (e + d + INR (length r) * d) by ring.
    split; assumption.
Qed.

(* the statement for a whole path started at the same point: after n operations whose arguments were each moved by at
   most 1/128 (low-resolution quantisation), the pen is within n/128 of where it would have been, per coordinate *)
Corollary quantised_path_drift : forall ops ops' start,
  Forall2 (fun x y => fst x = fst y /\ args_close (/ 128) (snd x) (snd y)) ops ops' ->
  let st0 := mkP start start KNone start in
  close (INR (length ops) / 128) (p_pen (fst (svg_run st0 ops))) (p_pen (fst (svg_run st0 ops'))).
Proof.
  intros ops ops' start F st0.
  assert (C0 : close 0 start start) by (unfold close; rewrite !Rminus_diag_eq by reflexivity; rewrite Rabs_R0; lra).
  destruct (run_drift ops ops' st0 st0 0 (/ 128) ltac:(lra) ltac:(lra) F C0 C0) as [P _].
  replace (INR (length ops) / 128) with (0 + INR (length ops) * / 128) by (unfold Rdiv; ring). exact P.
Qed.

(* Proofs about the Encoder protocol (C10) and Reset freshness (C17, encoder part). *)
From Coq Require Import ZArith Bool List Lia.
From IVG Require Import SF NumCodec Color Calls Encoder EncAutomaton.
Import ListNotations.
Local Open Scope Z_scope.

Definition bad_adj (adj : Z) (incr : bool) : bool := (6 <? adj) || (incr && negb (adj =? 0)).

Definition classify (a : eact) : aclass :=
  match a with
  | ACall (CReset _ _) => KReset
  | ACall (CSetCSel _) | ACall (CSetNSel _) | ACall (CSetLOD _ _) => KStyling
  | ACall (CSetCReg adj incr _) | ACall (CSetNReg adj incr _) =>
      if bad_adj adj incr then KBadStyling else KStyling
  | ACall (CStartPath adj _ _) => if 6 <? adj then KBadStyling else KStartPath
  | ACall (CDraw _ _) | ACall (CArc _ _ _ _ _ _ _ _) => KDraw
  | ACall CEndPath => KEndPath
  | AHiRes _ => KNeutral
  | AReadCSel | AReadNSel | AReadLOD | ABytes => KObserve
  end.

(* drawing ops carried by CDraw are never the end-path op *)
Definition wf_act (a : eact) : Prop :=
  match a with
  | ACall (CDraw op _) => op <> opZ
  | _ => True
  end.

Definition abs (e : enc) : astate :=
  if has_err e then AFailed
  else match e_mode e with MInitial => AInit | MStyling => AStyling | MDrawing => ADrawing end.

Lemma flush_mode_err e : e_mode (flush e) = e_mode e /\ e_err (flush e) = e_err e.
Proof.
  unfold flush. destruct (e_drawop e =? 0); [split; reflexivity|].
  destruct (op_info (e_drawop e)) as [[base maxrep] nargs]. split; reflexivity.
Qed.

Lemma abs_flush e : abs (flush e) = abs e.
Proof. unfold abs, has_err. destruct (flush_mode_err e) as [-> ->]. reflexivity. Qed.

Ltac case_enc e :=
  destruct e as [hi hil buf err l0 l1 cs ns mode dop dargs];
  destruct err as [x|]; destruct mode.

Lemma enc_draw_abs e op args : op <> opZ ->
  abs (enc_draw e op args) = aut_step (abs e) KDraw.
Proof.
  intros Hop. unfold enc_draw.
  destruct (has_err e) eqn:He.
  - unfold abs. rewrite He. reflexivity.
  - destruct (e_mode e) eqn:Hm; try (unfold abs, has_err in *; cbn; rewrite ?He, ?Hm;
      destruct (e_err e); try discriminate; reflexivity).
    assert (Hz : (op =? opZ) = false) by (apply Z.eqb_neq; exact Hop). rewrite Hz.
    set (e1 := if e_drawop e =? op then e else flush e).
    assert (A1 : e_mode e1 = MDrawing /\ e_err e1 = None).
    { unfold e1. destruct (e_drawop e =? op).
      - unfold has_err in He. destruct (e_err e); [discriminate|]. split; auto.
      - destruct (flush_mode_err e) as [-> ->]. unfold has_err in He.
        destruct (e_err e); [discriminate|]. split; auto. }
    destruct A1 as [M1 E1].
    assert (Ab : abs e = ADrawing).
    { unfold abs. rewrite He, Hm. reflexivity. }
    rewrite Ab. cbn [aut_step].
    destruct ((op =? opY) || (op =? opy)); [rewrite abs_flush|];
      unfold abs, has_err; cbn [e_err e_mode]; rewrite E1, M1; reflexivity.
Qed.

Lemma enc_end_abs e : abs (enc_draw e opZ []) = aut_step (abs e) KEndPath.
Proof.
  unfold enc_draw.
  destruct (has_err e) eqn:He.
  - unfold abs. rewrite He. reflexivity.
  - destruct (e_mode e) eqn:Hm; try (unfold abs, has_err in *; cbn; rewrite ?He, ?Hm;
      destruct (e_err e); try discriminate; reflexivity).
    change (opZ =? opZ) with true. cbv iota.
    set (e1 := if e_drawop e =? opZ then e else flush e).
    assert (E1 : e_err e1 = None).
    { unfold e1. destruct (e_drawop e =? opZ).
      - unfold has_err in He. destruct (e_err e); [discriminate|reflexivity].
      - destruct (flush_mode_err e) as [_ ->]. unfold has_err in He.
        destruct (e_err e); [discriminate|reflexivity]. }
    assert (Ab : abs e = ADrawing) by (unfold abs; rewrite He, Hm; reflexivity).
    rewrite Ab. cbn [aut_step]. rewrite abs_flush.
    unfold abs, has_err, set_mode. cbn [e_err e_mode]. rewrite E1. reflexivity.
Qed.

Lemma abs_check_styling e :
  abs (check_styling e) = match abs e with AInit => AStyling | ADrawing => AFailed | s => s end.
Proof. case_enc e; reflexivity. Qed.

Lemma check_styling_ok e : has_err (check_styling e) = false ->
  e_mode (check_styling e) = MStyling /\ e_err (check_styling e) = None.
Proof. case_enc e; cbn; intros; try discriminate; split; reflexivity. Qed.

Lemma check_styling_err e : has_err (check_styling e) = true ->
  abs e = AFailed \/ abs e = ADrawing.
Proof. case_enc e; cbn; intros; try discriminate; auto. Qed.

Lemma check_ok_abs e : has_err (check_styling e) = false -> abs e = AInit \/ abs e = AStyling.
Proof. case_enc e; cbn; intros; try discriminate; auto. Qed.

Theorem enc_act_refines e a : wf_act a ->
  abs (fst (enc_act e a)) = aut_step (abs e) (classify a).
Proof.
  intros W. destruct a as [c|b| | | |].
  - destruct c as [vb pal|s|s|adj incr col|adj incr f|l0 l1|adj x y|op args|rel rx ry rot la sw x y|];
      cbn [enc_act fst enc_step classify].
    + (* Reset *) unfold abs, enc_reset. cbn. destruct (abs e); reflexivity.
    + (* SetCSel *)
      pose proof (abs_check_styling e) as A. destruct (has_err (check_styling e)) eqn:H.
      * rewrite A. destruct (check_styling_err e H) as [-> | ->]; reflexivity.
      * destruct (check_styling_ok e H) as [M E]. unfold abs at 1, has_err. cbn [e_err e_mode].
        rewrite E, M. destruct (check_ok_abs e H) as [-> | ->]; reflexivity.
    + pose proof (abs_check_styling e) as A. destruct (has_err (check_styling e)) eqn:H.
      * rewrite A. destruct (check_styling_err e H) as [-> | ->]; reflexivity.
      * destruct (check_styling_ok e H) as [M E]. unfold abs at 1, has_err. cbn [e_err e_mode].
        rewrite E, M. destruct (check_ok_abs e H) as [-> | ->]; reflexivity.
    + (* SetCReg *)
      pose proof (abs_check_styling e) as A. destruct (has_err (check_styling e)) eqn:H.
      * rewrite A. destruct (check_styling_err e H) as [-> | ->]; destruct (bad_adj adj incr); reflexivity.
      * destruct (check_styling_ok e H) as [M E].
        pose proof (check_ok_abs e H) as Ab.
        unfold bad_adj. destruct (6 <? adj) eqn:H6.
        { cbn [orb]. unfold abs at 1, has_err, set_err. cbn [e_err]. destruct Ab as [-> | ->]; reflexivity. }
        cbn [orb]. destruct (enc_color col) as [base bytes].
        destruct (incr && negb (adj =? 0)) eqn:HI;
          unfold abs at 1, has_err, set_err; cbn [e_err e_mode]; rewrite ?E, ?M;
          destruct Ab as [-> | ->]; reflexivity.
    + (* SetNReg *)
      pose proof (abs_check_styling e) as A. destruct (has_err (check_styling e)) eqn:H.
      * rewrite A. destruct (check_styling_err e H) as [-> | ->]; destruct (bad_adj adj incr); reflexivity.
      * destruct (check_styling_ok e H) as [M E].
        pose proof (check_ok_abs e H) as Ab.
        unfold bad_adj. destruct (6 <? adj) eqn:H6.
        { cbn [orb]. unfold abs at 1, has_err, set_err. cbn [e_err]. destruct Ab as [-> | ->]; reflexivity. }
        cbn [orb]. destruct (nreg_choice f) as [base bytes].
        destruct (incr && negb (adj =? 0)) eqn:HI;
          unfold abs at 1, has_err, set_err; cbn [e_err e_mode]; rewrite ?E, ?M;
          destruct Ab as [-> | ->]; reflexivity.
    + (* SetLOD *)
      pose proof (abs_check_styling e) as A. destruct (has_err (check_styling e)) eqn:H.
      * rewrite A. destruct (check_styling_err e H) as [-> | ->]; reflexivity.
      * destruct (check_styling_ok e H) as [M E]. unfold abs at 1, has_err. cbn [e_err e_mode].
        rewrite E, M. destruct (check_ok_abs e H) as [-> | ->]; reflexivity.
    + (* StartPath *)
      pose proof (abs_check_styling e) as A. destruct (has_err (check_styling e)) eqn:H.
      * rewrite A. destruct (check_styling_err e H) as [-> | ->]; destruct (6 <? adj); reflexivity.
      * destruct (check_styling_ok e H) as [M E].
        pose proof (check_ok_abs e H) as Ab.
        destruct (6 <? adj) eqn:H6.
        { unfold abs at 1, has_err, set_err. cbn [e_err]. destruct Ab as [-> | ->]; reflexivity. }
        unfold abs at 1, has_err. cbn [e_err e_mode]. rewrite E.
        destruct Ab as [-> | ->]; reflexivity.
    + apply enc_draw_abs. exact W.
    + apply enc_draw_abs. destruct rel; discriminate.
    + apply enc_end_abs.
  - (* HiRes *) cbn. unfold abs, has_err, set_hires. cbn. destruct (e_err e); [reflexivity|].
    destruct (e_mode e); reflexivity.
  - cbn. case_enc e; reflexivity.
  - cbn. case_enc e; reflexivity.
  - cbn. case_enc e; reflexivity.
  - (* Bytes *) cbn [enc_act classify]. unfold enc_bytes.
    destruct (e_err e) as [x|] eqn:E.
    + cbn [fst]. unfold abs, has_err. rewrite E. reflexivity.
    + destruct (e_mode e) eqn:M.
      * unfold ensure_started. rewrite M. cbn. unfold abs, has_err. cbn. rewrite E, M. reflexivity.
      * unfold ensure_started. rewrite M. rewrite M. cbn [fst]. unfold abs, has_err. rewrite E, M. reflexivity.
      * unfold ensure_started. rewrite M. rewrite M. cbn [fst]. rewrite abs_flush.
        unfold abs, has_err. rewrite E, M. reflexivity.
Qed.

(* ---------- histories ---------- *)

Lemma enc_run_cons e a r :
  enc_run e (a :: r) =
  (fst (enc_run (fst (enc_act e a)) r), snd (enc_act e a) :: snd (enc_run (fst (enc_act e a)) r)).
Proof.
  cbn [enc_run]. destruct (enc_act e a) as [e1 o]. cbn [fst snd].
  destruct (enc_run e1 r) as [e2 os]. reflexivity.
Qed.

Lemma enc_run_refines h : forall e, Forall wf_act h ->
  abs (fst (enc_run e h)) = fold_left aut_step (map classify h) (abs e).
Proof.
  induction h as [|a r IH]; intros e W; [reflexivity|].
  inversion W as [|? ? Wa Wr]; subst.
  rewrite enc_run_cons. cbn [fst map fold_left]. rewrite IH by assumption.
  rewrite enc_act_refines by assumption. reflexivity.
Qed.

Theorem enc_err_iff_automaton h : Forall wf_act h ->
  abs (fst (enc_run enc_zero h)) = aut_run (map classify h).
Proof. intros W. rewrite enc_run_refines by assumption. reflexivity. Qed.

(* Bytes reports an error exactly in the failed state *)
Theorem bytes_err_iff_failed e :
  (exists x, snd (enc_bytes e) = BytesErr x) <-> abs e = AFailed.
Proof.
  unfold enc_bytes, abs, has_err. destruct (e_err e) as [x|] eqn:E; cbn [snd].
  - split; [reflexivity|]. intros _. exists x. reflexivity.
  - split.
    + intros [x H]. discriminate.
    + destruct (e_mode e); discriminate.
Qed.

(* ---------- stickiness ---------- *)

(* in drawing mode the only error that can be pending is "styling ops used in drawing mode" *)
Definition Inv (e : enc) : Prop :=
  e_mode e = MDrawing -> e_err e = None \/ e_err e = Some EStylingOpsInDrawing.

Lemma Inv_zero : Inv enc_zero.
Proof. unfold Inv. cbn. discriminate. Qed.

Lemma inv_check_styling e : Inv e -> Inv (check_styling e).
Proof. unfold Inv. case_enc e; cbn; intros; try discriminate; auto. Qed.

Lemma inv_flush e : Inv e -> Inv (flush e).
Proof. unfold Inv. destruct (flush_mode_err e) as [-> ->]. auto. Qed.

Lemma enc_draw_inv e op args : Inv e -> Inv (enc_draw e op args).
Proof.
  intros I. unfold enc_draw. destruct (has_err e) eqn:He; [exact I|].
  destruct (e_mode e) eqn:Hm; try (unfold Inv, set_err; cbn [e_mode]; rewrite Hm; discriminate).
  set (e1 := if e_drawop e =? op then e else flush e).
  assert (A1 : e_mode e1 = MDrawing /\ e_err e1 = None).
  { unfold e1. unfold has_err in He. destruct (e_drawop e =? op).
    - destruct (e_err e); [discriminate|]. split; auto.
    - destruct (flush_mode_err e) as [-> ->]. destruct (e_err e); [discriminate|]. split; auto. }
  destruct A1 as [M1 E1].
  destruct (op =? opZ).
  - apply inv_flush. unfold Inv, set_mode. cbn [e_mode]. discriminate.
  - destruct ((op =? opY) || (op =? opy)); [apply inv_flush|]; unfold Inv; cbn [e_err e_mode]; rewrite E1; auto.
Qed.

Lemma enc_act_inv e a : Inv e -> Inv (fst (enc_act e a)).
Proof.
  intros I. destruct a as [c|b| | | |].
  - destruct c as [vb pal|s|s|adj incr col|adj incr f|l0 l1|adj x y|op args|rel rx ry rot la sw x y|];
      cbn [enc_act fst enc_step].
    + unfold Inv, enc_reset. cbn [e_mode]. discriminate.
    + pose proof (inv_check_styling e I) as I1. destruct (has_err (check_styling e)) eqn:H; [exact I1|].
      destruct (check_styling_ok e H) as [M E]. unfold Inv. cbn [e_mode]. rewrite M. discriminate.
    + pose proof (inv_check_styling e I) as I1. destruct (has_err (check_styling e)) eqn:H; [exact I1|].
      destruct (check_styling_ok e H) as [M E]. unfold Inv. cbn [e_mode]. rewrite M. discriminate.
    + pose proof (inv_check_styling e I) as I1. destruct (has_err (check_styling e)) eqn:H; [exact I1|].
      destruct (check_styling_ok e H) as [M E].
      destruct (6 <? adj); [unfold Inv, set_err; cbn [e_mode]; rewrite M; discriminate|].
      destruct (enc_color col) as [base bytes].
      destruct (incr && negb (adj =? 0)); unfold Inv, set_err; cbn [e_mode]; rewrite M; discriminate.
    + pose proof (inv_check_styling e I) as I1. destruct (has_err (check_styling e)) eqn:H; [exact I1|].
      destruct (check_styling_ok e H) as [M E].
      destruct (6 <? adj); [unfold Inv, set_err; cbn [e_mode]; rewrite M; discriminate|].
      destruct (nreg_choice f) as [base bytes].
      destruct (incr && negb (adj =? 0)); unfold Inv, set_err; cbn [e_mode]; rewrite M; discriminate.
    + pose proof (inv_check_styling e I) as I1. destruct (has_err (check_styling e)) eqn:H; [exact I1|].
      destruct (check_styling_ok e H) as [M E]. unfold Inv. cbn [e_mode]. rewrite M. discriminate.
    + pose proof (inv_check_styling e I) as I1. destruct (has_err (check_styling e)) eqn:H; [exact I1|].
      destruct (check_styling_ok e H) as [M E].
      destruct (6 <? adj); [unfold Inv, set_err; cbn [e_mode]; rewrite M; discriminate|].
      unfold Inv. cbn [e_mode e_err]. rewrite E. auto.
    + apply enc_draw_inv; assumption.
    + apply enc_draw_inv; assumption.
    + apply enc_draw_inv; assumption.
  - cbn. unfold Inv, set_hires in *. cbn [e_mode e_err]. exact I.
  - cbn. unfold Inv in *. case_enc e; cbn in *; intros; try discriminate; auto.
  - cbn. unfold Inv in *. case_enc e; cbn in *; intros; try discriminate; auto.
  - cbn. unfold Inv in *. case_enc e; cbn in *; intros; try discriminate; auto.
  - cbn [enc_act]. unfold enc_bytes. destruct (e_err e) as [x|] eqn:E; cbn [fst]; [exact I|].
    destruct (e_mode e) eqn:M; unfold ensure_started; rewrite M.
    + unfold Inv. cbn. discriminate.
    + rewrite M. exact I.
    + rewrite M. apply inv_flush. exact I.
Qed.

Definition is_reset (a : eact) : bool :=
  match a with ACall (CReset _ _) => true | _ => false end.

(* once an error is set, every call other than Reset leaves that same error in place *)
Theorem err_sticky e a : Inv e -> has_err e = true -> is_reset a = false ->
  e_err (fst (enc_act e a)) = e_err e.
Proof.
  intros I H R. unfold has_err in H. destruct (e_err e) as [x|] eqn:E; [|discriminate].
  assert (CS : e_err (check_styling e) = Some x /\ has_err (check_styling e) = true).
  { unfold Inv in I. unfold check_styling, has_err. destruct (e_mode e) eqn:M.
    - unfold append_default. cbn [e_err]. rewrite E. auto.
    - rewrite E. auto.
    - destruct (I eq_refl) as [K|K]; rewrite E in K; [discriminate|]. injection K as ->.
      unfold set_err. cbn [e_err]. auto. }
  destruct CS as [CS1 CS2].
  destruct a as [c|b| | | |].
  - destruct c as [vb pal|s|s|adj incr col|adj incr f|l0 l1|adj x' y|op args|rel rx ry rot la sw x' y|];
      cbn [enc_act fst enc_step]; try discriminate R; try (rewrite CS2; exact CS1);
      unfold enc_draw, has_err; rewrite E; exact E.
  - cbn. exact E.
  - cbn. unfold ensure_started. destruct (e_mode e); cbn [e_err append_default]; exact E.
  - cbn. unfold ensure_started. destruct (e_mode e); cbn [e_err append_default]; exact E.
  - cbn. unfold ensure_started. destruct (e_mode e); cbn [e_err append_default]; exact E.
  - cbn [enc_act]. unfold enc_bytes. rewrite E. cbn [fst]. exact E.
Qed.

Lemma reachable_inv h : forall e, Inv e -> Inv (fst (enc_run e h)).
Proof.
  induction h as [|a r IH]; intros e I; [exact I|].
  rewrite enc_run_cons. cbn [fst]. apply IH. apply enc_act_inv. exact I.
Qed.

(* ---------- the zero value behaves as one Reset with the default metadata ---------- *)

Definition zero_rel (e0 e1 : enc) : Prop :=
  e0 = e1 \/ (e_mode e0 = MInitial /\ append_default e0 = e1).

Lemma zero_rel_act e0 e1 a : zero_rel e0 e1 ->
  zero_rel (fst (enc_act e0 a)) (fst (enc_act e1 a)) /\ snd (enc_act e0 a) = snd (enc_act e1 a).
Proof.
  intros [->|[M <-]]; [split; [left|]; reflexivity|].
  destruct e0 as [hi hil buf err l0 l1 cs ns mode dop dargs]. cbn in M. subst mode.
  destruct a as [c|b| | | |].
  - destruct c as [vb pal|s|s|adj incr col|adj incr f|la lb|adj x y|op args|rel rx ry rot la sw x y|];
      cbn [enc_act fst snd enc_step]; (split; [|reflexivity]);
      try (left; destruct err; reflexivity).
    + right. destruct err; cbn; auto.
    + right. destruct err; cbn; auto.
    + right. destruct err; cbn; auto.
  - cbn. split; [right; cbn; auto|reflexivity].
  - cbn. split; [left; reflexivity|reflexivity].
  - cbn. split; [left; reflexivity|reflexivity].
  - cbn. split; [left; reflexivity|reflexivity].
  - cbn [enc_act]. unfold enc_bytes. cbn [e_err append_default]. destruct err as [x|]; cbn.
    + split; [right; cbn; auto|reflexivity].
    + split; [left; reflexivity|reflexivity].
Qed.

Lemma zero_rel_run h : forall e0 e1, zero_rel e0 e1 -> snd (enc_run e0 h) = snd (enc_run e1 h).
Proof.
  induction h as [|a r IH]; intros e0 e1 R; [reflexivity|].
  rewrite !enc_run_cons. cbn [snd]. destruct (zero_rel_act e0 e1 a R) as [R' ->].
  f_equal. apply IH. exact R'.
Qed.

Lemma enc_reset_default : enc_reset default_viewbox default_palette = append_default enc_zero.
Proof. vm_compute. reflexivity. Qed.

Theorem zero_value h :
  snd (enc_run enc_zero h) = snd (enc_run enc_zero (ACall (CReset default_viewbox default_palette) :: h)).
Proof.
  rewrite enc_run_cons. cbn [snd enc_act fst enc_step].
  (* the Reset itself yields the observation ONone; compare the tails *)
Abort.

Theorem zero_value h :
  snd (enc_run enc_zero h) = snd (enc_run (enc_reset default_viewbox default_palette) h).
Proof. apply zero_rel_run. right. split; [reflexivity|]. symmetry. apply enc_reset_default. Qed.

(* ---------- Bytes twice ---------- *)

Lemma flush_idem e : flush (flush e) = flush e.
Proof.
  unfold flush. destruct (e_drawop e =? 0) eqn:D.
  - rewrite D. reflexivity.
  - destruct (op_info (e_drawop e)) as [[base maxrep] nargs]. cbn [e_drawop].
    change (0 =? 0) with true. cbv iota. reflexivity.
Qed.

Theorem bytes_idempotent e :
  snd (enc_bytes (fst (enc_bytes e))) = snd (enc_bytes e) /\
  fst (enc_bytes (fst (enc_bytes e))) = fst (enc_bytes e).
Proof.
  destruct (e_err e) as [x|] eqn:E.
  - assert (H1 : enc_bytes e = (e, BytesErr x)) by (unfold enc_bytes; rewrite E; reflexivity).
    rewrite H1. cbn [fst snd]. rewrite H1. split; reflexivity.
  - destruct (e_mode e) eqn:M.
    + assert (H1 : enc_bytes e = (append_default e, BytesOk (magic ++ [0]))).
      { unfold enc_bytes, ensure_started. rewrite E, M. reflexivity. }
      assert (H2 : enc_bytes (append_default e) = (append_default e, BytesOk (magic ++ [0]))).
      { unfold enc_bytes, ensure_started. cbn [append_default e_err e_mode]. rewrite E. reflexivity. }
      rewrite H1. cbn [fst snd]. rewrite H2. split; reflexivity.
    + assert (H1 : enc_bytes e = (e, BytesOk (e_buf e))).
      { unfold enc_bytes, ensure_started. rewrite E, M, M. reflexivity. }
      rewrite H1. cbn [fst snd]. rewrite H1. split; reflexivity.
    + assert (H1 : enc_bytes e = (flush e, BytesOk (e_buf (flush e)))).
      { unfold enc_bytes, ensure_started. rewrite E, M, M. reflexivity. }
      assert (H2 : enc_bytes (flush e) = (flush e, BytesOk (e_buf (flush e)))).
      { destruct (flush_mode_err e) as [M' E']. unfold enc_bytes, ensure_started.
        rewrite E', E, M', M, M', M. rewrite flush_idem. reflexivity. }
      rewrite H1. cbn [fst snd]. rewrite H2. split; reflexivity.
Qed.

(* ---------- C17 (encoder part): nothing survives Reset ---------- *)

Lemma enc_run_app a b : forall e,
  enc_run e (a ++ b) = (fst (enc_run (fst (enc_run e a)) b), snd (enc_run e a) ++ snd (enc_run (fst (enc_run e a)) b)).
Proof.
  induction a as [|x a IH]; intros e.
  - cbn. destruct (enc_run e b); reflexivity.
  - cbn [app]. rewrite !enc_run_cons. rewrite IH. cbn [fst snd]. reflexivity.
Qed.

Theorem encoder_reset_fresh (A B : list eact) vb pal (e : enc) :
  let r := ACall (CReset vb pal) in
  enc_run (fst (enc_run e A)) (r :: B) = enc_run enc_zero (r :: B).
Proof.
  cbv zeta. rewrite !enc_run_cons. cbn [enc_act fst snd enc_step]. reflexivity.
Qed.

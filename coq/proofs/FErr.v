(* FErr.v — relative-error algebra on top of the standard model (SFReal.v), specialised to float32:
   each operation whose exact result stays in the normal range returns  exact * (1 + d), |d| <= u = 2^-24;
   additions and subtractions do so unconditionally (a subnormal sum is exact).  Errors compose through
   products and quotients. *)
From Coq Require Import ZArith Reals Lia Lra Bool.
From Flocq Require Import Core.Zaux Core.Raux.
From IVG Require Import SF SFProofs SFRound SFReal.
Local Open Scope R_scope.

(* a is b up to relative error eps *)
Definition rel (a b eps : R) : Prop := exists d, a = b * (1 + d) /\ Rabs d <= eps.

Lemma rel_refl a : rel a a 0.
Proof. exists 0. split; [ring|rewrite Rabs_R0; lra]. Qed.

Lemma rel_weaken a b e1 e2 : rel a b e1 -> e1 <= e2 -> rel a b e2.
Proof. intros (d & H & B) L. exists d. split; [exact H|lra]. Qed.

Lemma rel_of_abs a b eps : 0 <= eps -> Rabs (a - b) <= eps * Rabs b -> rel a b eps.
Proof.
  intros He H. destruct (Req_dec b 0) as [Z|NZ].
  - subst b. rewrite Rabs_R0, Rmult_0_r, Rminus_0_r in H. assert (a = 0).
    { destruct (Req_dec a 0) as [E|NE]; [exact E|]. pose proof (Rabs_pos_lt a NE). lra. }
    subst a. exists 0. split; [ring|rewrite Rabs_R0; lra].
  - exists ((a - b) / b). split; [field; exact NZ|].
    unfold Rdiv. rewrite Rabs_mult, Rabs_inv. pose proof (Rabs_pos_lt b NZ).
    apply Rmult_le_reg_r with (Rabs b); [lra|]. rewrite Rmult_assoc, Rinv_l, Rmult_1_r by lra. exact H.
Qed.

Lemma rel_abs a b eps : rel a b eps -> Rabs (a - b) <= eps * Rabs b.
Proof.
  intros (d & -> & B). replace (b * (1 + d) - b) with (d * b) by ring. rewrite Rabs_mult.
  apply Rmult_le_compat_r; [apply Rabs_pos|exact B].
Qed.

Lemma rel_mul a b c d e1 e2 : rel a b e1 -> rel c d e2 -> rel (a * c) (b * d) (e1 + e2 + e1 * e2).
Proof.
  intros (d1 & -> & B1) (d2 & -> & B2). exists (d1 + d2 + d1 * d2). split; [ring|].
  pose proof (Rabs_pos d1). pose proof (Rabs_pos d2).
  eapply Rle_trans; [apply Rabs_triang|]. eapply Rle_trans; [apply Rplus_le_compat_r, Rabs_triang|].
  rewrite Rabs_mult. assert (Rabs d1 * Rabs d2 <= e1 * e2) by (apply Rmult_le_compat; lra). lra.
Qed.

Lemma rel_div a b c d e1 e2 : rel a b e1 -> rel c d e2 -> e2 < 1 -> d <> 0 ->
  rel (a / c) (b / d) ((e1 + e2) / (1 - e2)).
Proof.
  intros (d1 & -> & B1) (d2 & -> & B2) L NZ. pose proof (Rabs_pos d1). pose proof (Rabs_pos d2).
  assert (N2 : 1 + d2 <> 0). { pose proof (Rle_abs (- d2)) as Q. rewrite Rabs_Ropp in Q. lra. }
  assert (P2 : 1 - e2 <= Rabs (1 + d2)).
  { pose proof (Rle_abs (- d2)) as Q. rewrite Rabs_Ropp in Q. rewrite Rabs_pos_eq by lra. lra. }
  exists ((d1 - d2) / (1 + d2)). split; [field; split; assumption|].
  unfold Rdiv at 1. rewrite Rabs_mult, Rabs_inv.
  assert (T : Rabs (d1 - d2) <= e1 + e2).
  { unfold Rminus. eapply Rle_trans; [apply Rabs_triang|]. rewrite Rabs_Ropp. lra. }
  unfold Rdiv. apply Rmult_le_compat; [apply Rabs_pos|left; apply Rinv_0_lt_compat; lra|exact T|].
  apply Rinv_le_contravar; lra.
Qed.

(* rounding composes: r = v (1 + d), v = w (1 + e) *)
Lemma rel_trans a b c e1 e2 : rel a b e1 -> rel b c e2 -> rel a c (e1 + e2 + e1 * e2).
Proof.
  intros (d1 & -> & B1) (d2 & -> & B2). exists (d2 + d1 + d2 * d1). split; [ring|].
  pose proof (Rabs_pos d1). pose proof (Rabs_pos d2).
  eapply Rle_trans; [apply Rabs_triang|]. eapply Rle_trans; [apply Rplus_le_compat_r, Rabs_triang|].
  rewrite Rabs_mult. assert (Rabs d2 * Rabs d1 <= e2 * e1) by (apply Rmult_le_compat; lra). lra.
Qed.

Lemma rel_bound a b eps : rel a b eps -> Rabs a <= (1 + eps) * Rabs b.
Proof.
  intros (d & -> & B). rewrite Rabs_mult. rewrite (Rmult_comm (Rabs b)). apply Rmult_le_compat_r; [apply Rabs_pos|].
  eapply Rle_trans; [apply Rabs_triang|]. rewrite Rabs_R1. lra.
Qed.

Lemma rel_lower a b eps : rel a b eps -> eps <= 1 -> (1 - eps) * Rabs b <= Rabs a.
Proof.
  intros (d & -> & B) L. rewrite Rabs_mult, (Rmult_comm (Rabs b)). apply Rmult_le_compat_r; [apply Rabs_pos|].
  pose proof (Rabs_triang_inv 1 (- d)). rewrite Rabs_R1, Rabs_Ropp in H. replace (1 - - d) with (1 + d) in H by ring. lra.
Qed.

Lemma rel_sign a b eps : rel a b eps -> eps < 1 -> 0 < b -> 0 < a.
Proof.
  intros (d & -> & B) L P. apply Rmult_lt_0_compat; [exact P|]. pose proof (Rle_abs (- d)). rewrite Rabs_Ropp in H. lra.
Qed.

(* ---------- float32 ---------- *)
Definition u32 : R := / 16777216.
Definition wf32 (x : Z) : Prop := (0 <= x < 2 ^ 32)%Z.
Definition fin32 := finite F32.
Definition V (x : Z) : R := B2R F32 x.

Lemma u32_eq : u_ F32 = u32.
Proof. reflexivity. Qed.
Lemma bias32 : b2 (bias F32) = IZR (2 ^ 127).
Proof. reflexivity. Qed.
Lemma norm32 : b2 (emin F32 + prec F32 - 1) = / IZR (2 ^ 126).
Proof. reflexivity. Qed.
Lemma eta32 : eta_ F32 = / IZR (2 ^ 150).
Proof. reflexivity. Qed.

(* the rounded result as a relative error when the exact result is in the normal range (or zero) *)
Lemma rounds_rel r v : rounds_to F32 r v -> (/ IZR (2 ^ 126) <= Rabs v) -> fin32 r /\ rel (V r) v u32.
Proof.
  intros (Fi & _ & Hn) Hv. split; [exact Fi|]. rewrite norm32 in Hn. specialize (Hn Hv). rewrite u32_eq in Hn.
  apply rel_of_abs; [unfold u32; lra|exact Hn].
Qed.

Lemma rounds_abs r v : rounds_to F32 r v -> fin32 r /\ Rabs (V r - v) <= u32 * Rabs v + / IZR (2 ^ 150).
Proof. intros (Fi & Ha & _). split; [exact Fi|]. rewrite u32_eq, eta32 in Ha. exact Ha. Qed.

(* ---------- float32 operations on good floats (bit patterns in range, finite) ---------- *)
From IVG Require Import SFReal2.
Local Open Scope Z_scope.

Lemma zero_bits32_range s : 0 <= zero_bits F32 s < 2 ^ 32.
Proof. destruct s; [change (0 <= 2147483648 < 4294967296)|change (0 <= 0 < 4294967296)]; lia. Qed.

Lemma rne_dy_signed32_range zs M e : 0 <= rne_dy_signed F32 zs M e < 2 ^ 32.
Proof.
  unfold rne_dy_signed. destruct (M =? 0) eqn:E0; [apply zero_bits32_range|].
  destruct (M <? 0) eqn:E; apply rne_dy_pos32_range; lia.
Qed.

Lemma rne_pos32_range s n d : 0 < n -> 0 < d -> 0 <= rne_pos F32 s n d < 2 ^ 32.
Proof.
  intros Hn Hd. rewrite (rne_pos_is_round F32 s n d F32_ok).
  pose proof (qint_spec F32 n d F32_ok Hn Hd) as S. cbv zeta in S. destruct S as (He & HQ & _).
  apply encode_canon32_range; [exact HQ|exact He].
Qed.

Lemma rne32_range s n d : 0 <= n -> 0 < d -> 0 <= rne F32 s n d < 2 ^ 32.
Proof.
  intros Hn Hd. unfold rne. destruct (n =? 0) eqn:E; [apply zero_bits32_range|apply rne_pos32_range; lia].
Qed.

Definition gf (x : Z) : Prop := wf32 x /\ fin32 x.

Lemma wf32_width x : wf32 x -> 0 <= x < 2 ^ width F32. Proof. intros H; exact H. Qed.

Lemma fadd32_range x y : wf32 x -> wf32 y -> fin32 x -> fin32 y -> wf32 (fadd F32 x y).
Proof.
  intros [Hx _] [Hy _] (s1 & m1 & e1 & D1) (s2 & m2 & e2 & D2).
  rewrite (fadd_finite F32 x y _ _ _ _ _ _ Hx Hy ltac:(cbn; lia) ltac:(cbn; lia) D1 D2). apply rne_dy_signed32_range.
Qed.

Lemma fmul32_range x y : wf32 x -> wf32 y -> fin32 x -> fin32 y -> wf32 (fmul F32 x y).
Proof.
  intros [Hx _] [Hy _] (s1 & m1 & e1 & D1) (s2 & m2 & e2 & D2).
  rewrite (fmul_finite F32 x y _ _ _ _ _ _ Hx Hy ltac:(cbn; lia) ltac:(cbn; lia) D1 D2). apply rne_dy32_range.
  pose proof (decode_fin_nonneg _ _ _ _ _ F32_ok D1). pose proof (decode_fin_nonneg _ _ _ _ _ F32_ok D2). nia.
Qed.

Lemma fdiv32_range x y : wf32 x -> wf32 y -> fin32 x -> fin32 y -> V y <> 0%R -> wf32 (fdiv F32 x y).
Proof.
  intros [Hx _] [Hy _] (s1 & m1 & e1 & D1) (s2 & m2 & e2 & D2) Hy0.
  pose proof (decode_fin_nonneg _ _ _ _ _ F32_ok D1). pose proof (decode_fin_nonneg _ _ _ _ _ F32_ok D2).
  assert (m2 <> 0). { intros ->. apply Hy0. unfold V. rewrite (B2R_fin _ _ _ _ _ D2). ring. }
  rewrite (fdiv_finite F32 x y _ _ _ _ _ _ Hx Hy ltac:(cbn; lia) ltac:(cbn; lia) D1 D2 H1).
  unfold frac_of. destruct (0 <=? e1 - e2) eqn:C.
  - apply Z.leb_le in C. rewrite pow2_eq by lia. apply rne32_range; [|lia].
    apply Z.mul_nonneg_nonneg; [lia|apply Z.pow_nonneg; lia].
  - apply Z.leb_gt in C. rewrite pow2_eq by lia. apply rne32_range; [lia|].
    apply Z.mul_pos_pos; [apply pow_pos2; lia|lia].
Qed.

Local Open Scope R_scope.
Definition big : R := IZR (2 ^ 127).

(* the four operations on good floats whose exact result is below 2^127 *)
Lemma add32 x y : gf x -> gf y -> Rabs (V x + V y) < big ->
  gf (fadd F32 x y) /\ rel (V (fadd F32 x y)) (V x + V y) u32.
Proof.
  intros [Wx Fx] [Wy Fy] Hov.
  destruct (fadd_R_rel F32 x y F32_ok (proj1 Wx) (proj1 Wy) Fx Fy Hov) as [Fi Er].
  split; [split; [apply fadd32_range; assumption|exact Fi]|].
  apply rel_of_abs; [unfold u32; lra|rewrite <- u32_eq; exact Er].
Qed.

Lemma sub32 x y : gf x -> gf y -> Rabs (V x - V y) < big ->
  gf (fsub F32 x y) /\ rel (V (fsub F32 x y)) (V x - V y) u32.
Proof.
  intros [Wx Fx] [Wy Fy] Hov.
  destruct (fsub_R_rel F32 x y F32_ok (proj1 Wx) Wy Fx Fy Hov) as [Fi Er].
  split; [split; [|exact Fi]|apply rel_of_abs; [unfold u32; lra|rewrite <- u32_eq; exact Er]].
  unfold fsub, is_nan. destruct Fx as (s1 & m1 & e1 & D1). destruct Fy as (s2 & m2 & e2 & D2). rewrite D1, D2.
  destruct (decode_fneg F32 y F32_ok Wy) as [Rn Dn]. rewrite D2 in Dn.
  apply fadd32_range; [exact Wx|exact Rn|exists s1, m1, e1; exact D1|exists (negb s2), m2, e2; exact Dn].
Qed.

Lemma neg32 x : gf x -> gf (fneg F32 x) /\ V (fneg F32 x) = - V x.
Proof.
  intros [Wx Fx]. destruct (decode_fneg F32 x F32_ok Wx) as [Rn _]. destruct (fneg_R F32 x F32_ok Wx Fx) as [Fn Vn].
  split; [split; [exact Rn|exact Fn]|exact Vn].
Qed.

Lemma mul32 x y : gf x -> gf y -> Rabs (V x * V y) < big ->
  gf (fmul F32 x y) /\ Rabs (V (fmul F32 x y) - V x * V y) <= u32 * Rabs (V x * V y) + / IZR (2 ^ 150) /\
  (/ IZR (2 ^ 126) <= Rabs (V x * V y) -> rel (V (fmul F32 x y)) (V x * V y) u32).
Proof.
  intros [Wx Fx] [Wy Fy] Hov.
  pose proof (fmul_R F32 x y F32_ok (proj1 Wx) (proj1 Wy) Fx Fy Hov) as R.
  destruct (rounds_abs _ _ R) as [Fi Ea].
  split; [split; [apply fmul32_range; assumption|exact Fi]|]. split; [exact Ea|].
  intros Hn. exact (proj2 (rounds_rel _ _ R Hn)).
Qed.

Lemma div32 x y : gf x -> gf y -> V y <> 0 -> Rabs (V x / V y) < big ->
  gf (fdiv F32 x y) /\ Rabs (V (fdiv F32 x y) - V x / V y) <= u32 * Rabs (V x / V y) + / IZR (2 ^ 150) /\
  (/ IZR (2 ^ 126) <= Rabs (V x / V y) -> rel (V (fdiv F32 x y)) (V x / V y) u32).
Proof.
  intros [Wx Fx] [Wy Fy] Hy0 Hov.
  pose proof (fdiv_R F32 x y F32_ok (proj1 Wx) (proj1 Wy) Fx Fy Hy0 Hov) as R.
  destruct (rounds_abs _ _ R) as [Fi Ea].
  split; [split; [apply fdiv32_range; assumption|exact Fi]|]. split; [exact Ea|].
  intros Hn. exact (proj2 (rounds_rel _ _ R Hn)).
Qed.

Lemma ofZ32 i : Rabs (IZR i) < big -> gf (of_Z F32 i) /\ rel (V (of_Z F32 i)) (IZR i) u32.
Proof.
  intros Hov. destruct (of_Z_R F32 i F32_ok Hov) as [Fi Er].
  split; [split; [apply rne_dy_signed32_range|exact Fi]|apply rel_of_abs; [unfold u32; lra|rewrite <- u32_eq; exact Er]].
Qed.

Lemma lt32 x y : gf x -> gf y -> (flt F32 x y = true <-> V x < V y).
Proof. intros [_ Fx] [_ Fy]. apply flt_R; [exact F32_ok|exact Fx|exact Fy]. Qed.

(* FitF.v — float32 error of ViewBox.AspectMeet / AspectSlice (C12): the rectangle ivg.go computes in float32 is
   within a few units of float32 rounding, relative to the size of the result, of the rectangle the same formulas
   give in real arithmetic (whose properties are FitR.meet_spec / slice_spec). *)
From Coq Require Import ZArith Reals Lia Lra Bool.
From Flocq Require Import Core.Raux.
From IVG Require Import SF NumCodec SFProofs SFRound SFReal SFReal2 FErr Mag Fit FitR.
Local Open Scope R_scope.

Definition eta2 : R := 2 * / IZR (2 ^ 150).

Lemma Rabs_le_both x a : - a <= x <= a -> Rabs x <= a.
Proof. intros H. apply Rabs_le. exact H. Qed.

(* ---------- one axis: min = (d - w) * a, max = min + w ---------- *)
Section Tail.
Variables (d w a : Z) (W M e : R).
Hypothesis Gd : gf d.
Hypothesis Gw : gf w.
Hypothesis Ga : gf a.
Hypothesis Ha : 0 <= V a <= 1.
Hypothesis HD : 0 <= V d <= M.
Hypothesis HW : 0 <= W <= M.
Hypothesis HM : M <= 2 ^ 100.
Hypothesis Rw : rel (V w) W e.
Hypothesis He : 0 <= e <= 16 * u32.

Let mn := fmul F32 (fsub F32 d w) a.
Let mx := fadd F32 mn w.

Theorem tail_err :
  gf mn /\ gf mx /\
  Rabs (V mn - (V d - W) * V a) <= 48 * u32 * M + eta2 /\
  Rabs (V mx - ((V d - W) * V a + W)) <= 48 * u32 * M + eta2.
Proof.
  pose proof u32_small as [U0 U1]. unfold eta2.
  assert (M0 : 0 <= M) by lra.
  assert (B100 : 2 ^ 100 * 4 <= 2 ^ 126).
  { replace 4 with (2 ^ 2) by (cbn; lra). rewrite <- pow_add. apply pow2_mono. lia. }
  pose proof (rel_abs _ _ _ Rw) as Aw. rewrite (Rabs_pos_eq W) in Aw by lra.
  pose proof (rel_bound _ _ _ Rw) as Bw. rewrite (Rabs_pos_eq W) in Bw by lra.
  assert (eM : e * W <= e * M) by (apply Rmult_le_compat_l; lra).
  (* s = d - w *)
  assert (Sb : Rabs (V d - V w) <= 3 * M).
  { eapply Rle_trans; [apply Rabs_triang|]. rewrite Rabs_Ropp, (Rabs_pos_eq (V d)) by lra. nra. }
  assert (Ov1 : Rabs (V d - V w) < big).
  { apply (mag_lt_big _ 126); [|lia]. nra. }
  destruct (sub32 d w Gd Gw Ov1) as [Gs Rs]. set (s := fsub F32 d w) in *.
  pose proof (rel_abs _ _ _ Rs) as As.
  assert (Es : Rabs (V s - (V d - W)) <= 20 * u32 * M).
  { replace (V s - (V d - W)) with ((V s - (V d - V w)) + - (V w - W)) by ring.
    eapply Rle_trans; [apply Rabs_triang|]. rewrite Rabs_Ropp. nra. }
  assert (Sv : Rabs (V s) <= 3 * M).
  { replace (V s) with ((V s - (V d - W)) + (V d - W)) by ring. eapply Rle_trans; [apply Rabs_triang|].
    assert (Rabs (V d - W) <= M) by (apply Rabs_le_both; lra). nra. }
  (* mn = s * a *)
  assert (Pa : Rabs (V s * V a) <= 3 * M).
  { rewrite Rabs_mult, (Rabs_pos_eq (V a)) by lra. pose proof (Rabs_pos (V s)). nra. }
  assert (Ov2 : Rabs (V s * V a) < big) by (apply (mag_lt_big _ 126); [nra|lia]).
  destruct (mul32 s a Gs Ga Ov2) as (Gn & En & _). fold mn in Gn, En.
  assert (Emn : Rabs (V mn - (V d - W) * V a) <= 24 * u32 * M + / IZR (2 ^ 150)).
  { replace (V mn - (V d - W) * V a) with ((V mn - V s * V a) + (V s - (V d - W)) * V a) by ring.
    eapply Rle_trans; [apply Rabs_triang|]. rewrite (Rabs_mult (V s - (V d - W))), (Rabs_pos_eq (V a)) by lra.
    pose proof (Rabs_pos (V s - (V d - W))). nra. }
  split; [exact Gn|].
  (* mx = mn + w *)
  assert (MNb : Rabs ((V d - W) * V a) <= M).
  { rewrite Rabs_mult, (Rabs_pos_eq (V a)) by lra. assert (Rabs (V d - W) <= M) by (apply Rabs_le_both; lra).
    pose proof (Rabs_pos (V d - W)). nra. }
  set (eta := / IZR (2 ^ 150)) in *.
  assert (Eta : 0 < eta <= 1).
  { unfold eta. split; [apply Rinv_0_lt_compat, IZR_lt; lia|].
    rewrite <- Rinv_1. apply Rinv_le_contravar; [lra|]. apply IZR_le. lia. }
  assert (Mnv : Rabs (V mn) <= 2 * M + eta).
  { replace (V mn) with ((V mn - (V d - W) * V a) + (V d - W) * V a) by ring. eapply Rle_trans; [apply Rabs_triang|]. nra. }
  assert (Sum : Rabs (V mn + V w) <= 5 * M + eta).
  { eapply Rle_trans; [apply Rabs_triang|]. nra. }
  assert (Ov3 : Rabs (V mn + V w) < big).
  { apply (mag_lt_big _ 126); [|lia]. pose proof (pow2_ge1 100). nra. }
  destruct (add32 mn w Gn Gw Ov3) as [Gx Rx]. fold mx in Gx, Rx. split; [exact Gx|].
  pose proof (rel_abs _ _ _ Rx) as Ax.
  split; [nra|].
  replace (V mx - ((V d - W) * V a + W)) with ((V mx - (V mn + V w)) + (V mn - (V d - W) * V a) + (V w - W)) by ring.
  eapply Rle_trans; [apply Rabs_triang|]. eapply Rle_trans; [apply Rplus_le_compat_r, Rabs_triang|].
  assert (T1 : u32 * Rabs (V mn + V w) <= 5 * (u32 * M) + eta).
  { apply Rle_trans with (u32 * (5 * M + eta)); [apply Rmult_le_compat_l; lra|]. nra. }
  assert (T3 : e * W <= 16 * (u32 * M)) by nra.
  assert (T0 : 0 <= u32 * M) by nra.
  lra.
Qed.
End Tail.

(* ---------- the constrained dimension: aspect ratio, comparison, candidate sizes ---------- *)
Lemma eps_div e : 0 <= e <= / 100 -> (0 + e) / (1 - e) <= e + 2 * (e * e).
Proof.
  intros [H0 H1]. apply Rmult_le_reg_r with (1 - e); [lra|].
  unfold Rdiv. rewrite Rmult_assoc, Rinv_l, Rmult_1_r by lra. nra.
Qed.

Section Choose.
Variables (minx miny maxx maxy dx dy : Z).
Hypothesis Gminx : gf minx.
Hypothesis Gminy : gf miny.
Hypothesis Gmaxx : gf maxx.
Hypothesis Gmaxy : gf maxy.
Hypothesis Gdx : gf dx.
Hypothesis Gdy : gf dy.
Let VW := V maxx - V minx.
Let VH := V maxy - V miny.
Let DX := V dx.
Let DY := V dy.
Hypothesis Mw : mag VW 30.
Hypothesis Mh : mag VH 30.
Hypothesis Mdx : mag DX 30.
Hypothesis Mdy : mag DY 30.
Hypothesis Pw : 0 < VW.
Hypothesis Ph : 0 < VH.
Hypothesis Pdx : 0 < DX.
Hypothesis Pdy : 0 < DY.

Let A := VW / VH.
Let vbar := fdiv F32 (fsub F32 maxx minx) (fsub F32 maxy miny).
Let q := fdiv F32 dx dy.
Let wy1 := fdiv F32 dx vbar.        (* height when the width is the constraint *)
Let wx2 := fmul F32 dy vbar.        (* width when the height is the constraint *)

Lemma vbar_err : gf vbar /\ rel (V vbar) A (9 / 2 * u32) /\ mag (V vbar) 61 /\ 0 < V vbar.
Proof.
  pose proof u32_small as [U0 U1].
  assert (Ov1 : Rabs (V maxx - V minx) < big) by (apply (mag_lt_big _ 30); [apply Mw|lia]).
  assert (Ov2 : Rabs (V maxy - V miny) < big) by (apply (mag_lt_big _ 30); [apply Mh|lia]).
  destruct (sub32 maxx minx Gmaxx Gminx Ov1) as [G1 R1]. destruct (sub32 maxy miny Gmaxy Gminy Ov2) as [G2 R2].
  fold VW in R1. fold VH in R2.
  pose proof (mag_rel _ _ _ _ R1 ltac:(lra) Mw) as M1. pose proof (mag_rel _ _ _ _ R2 ltac:(lra) Mh) as M2.
  destruct (div32m _ _ _ _ G1 G2 M1 M2 ltac:(lia)) as [Gv Rv]. fold vbar in Gv, Rv.
  pose proof (rel_div _ _ _ _ _ _ R1 R2 ltac:(lra) ltac:(lra)) as Rq. fold A in Rq.
  assert (De : (u32 + u32) / (1 - u32) <= 3 * u32).
  { apply Rmult_le_reg_r with (1 - u32); [lra|]. unfold Rdiv. rewrite Rmult_assoc, Rinv_l, Rmult_1_r by lra. nra. }
  pose proof (rel_trans _ _ _ _ _ Rv (rel_weaken _ _ _ _ Rq De)) as Rt.
  assert (Rf : rel (V vbar) A (9 / 2 * u32)) by (apply (rel_weaken _ _ _ _ Rt); nra).
  assert (MA : mag A 60) by (apply (mag_div _ _ 30 30); assumption).
  assert (PA : 0 < A) by (unfold A; apply Rdiv_lt_0_compat; lra).
  split; [exact Gv|]. split; [exact Rf|]. split; [exact (mag_rel _ _ _ _ Rf ltac:(lra) MA)|].
  apply (rel_sign _ _ _ Rf); lra.
Qed.

Lemma q_err : gf q /\ rel (V q) (DX / DY) u32.
Proof. exact (div32m _ _ _ _ Gdx Gdy Mdx Mdy ltac:(lia)). Qed.

Lemma wy1_err : gf wy1 /\ rel (V wy1) (DX / A) (6 * u32).
Proof.
  pose proof u32_small as [U0 U1]. destruct vbar_err as (Gv & Rv & Mv & Pv).
  destruct (div32m _ _ _ _ Gdx Gv Mdx Mv ltac:(lia)) as [G R]. fold wy1 in G, R. split; [exact G|].
  assert (PA : A <> 0) by (unfold A; apply Rgt_not_eq, Rdiv_lt_0_compat; lra).
  pose proof (rel_div _ _ _ _ _ _ (rel_refl DX) Rv ltac:(lra) PA) as Rq.
  pose proof (eps_div (9 / 2 * u32) ltac:(lra)) as De.
  pose proof (rel_trans _ _ _ _ _ R (rel_weaken _ _ _ _ Rq De)) as Rt.
  apply (rel_weaken _ _ _ _ Rt). nra.
Qed.

Lemma wx2_err : gf wx2 /\ rel (V wx2) (DY * A) (6 * u32).
Proof.
  pose proof u32_small as [U0 U1]. destruct vbar_err as (Gv & Rv & Mv & Pv).
  destruct (mul32m _ _ _ _ Gdy Gv Mdy Mv ltac:(lia)) as [G R]. fold wx2 in G, R. split; [exact G|].
  pose proof (rel_mul _ _ _ _ _ _ (rel_refl DY) Rv) as Rq.
  pose proof (rel_trans _ _ _ _ _ R Rq) as Rt.
  apply (rel_weaken _ _ _ _ Rt). nra.
Qed.

(* the float comparison and the real comparison can only disagree when the two aspect ratios are within 6u *)
Lemma narrow_mismatch_1 : V q < V vbar -> ~ (DX / DY < A) -> rel DX (DY * A) (6 * u32) /\ rel (DX / A) DY (6 * u32).
Proof.
  intros HF HR. pose proof u32_small as [U0 U1].
  destruct vbar_err as (_ & (dA & EA & BA) & _ & _). destruct q_err as (_ & (dq & Eq & Bq)).
  assert (PA : 0 < A) by (unfold A; apply Rdiv_lt_0_compat; lra).
  set (r := DX / DY / A). assert (Er : DX / DY = r * A) by (unfold r; field; split; lra).
  assert (R1 : 1 <= r).
  { apply Rnot_lt_le in HR. rewrite Er in HR. nra. }
  rewrite EA, Eq, Er in HF.
  pose proof (Rabs_le_inv _ _ BA) as [A1 A2]. pose proof (Rabs_le_inv _ _ Bq) as [Q1 Q2].
  assert (R2 : r * (1 + dq) < 1 + dA) by nra.
  assert (R3 : r - 1 <= 6 * u32) by nra.
  split; exists (r - 1).
  - split; [unfold r; field; split; lra|rewrite Rabs_pos_eq; lra].
  - split; [unfold r; field; split; lra|rewrite Rabs_pos_eq; lra].
Qed.

Lemma narrow_mismatch_2 : ~ (V q < V vbar) -> DX / DY < A -> rel (DY * A) DX (7 * u32) /\ rel DY (DX / A) (7 * u32).
Proof.
  intros HF HR. pose proof u32_small as [U0 U1].
  destruct vbar_err as (_ & (dA & EA & BA) & _ & _). destruct q_err as (_ & (dq & Eq & Bq)).
  assert (PA : 0 < A) by (unfold A; apply Rdiv_lt_0_compat; lra).
  set (r := DX / DY / A). assert (Er : DX / DY = r * A) by (unfold r; field; split; lra).
  assert (R0 : 0 < r) by (unfold r; apply Rdiv_lt_0_compat; [apply Rdiv_lt_0_compat|]; lra).
  assert (R1 : r < 1) by (rewrite Er in HR; nra).
  apply Rnot_lt_le in HF. rewrite EA, Eq, Er in HF.
  pose proof (Rabs_le_inv _ _ BA) as [A1 A2]. pose proof (Rabs_le_inv _ _ Bq) as [Q1 Q2].
  assert (R2 : 1 + dA <= r * (1 + dq)) by nra.
  assert (R3 : 1 - r <= 6 * u32) by nra.
  (* 1 / r - 1 <= 7u *)
  assert (R4 : / r - 1 <= 7 * u32).
  { apply Rmult_le_reg_r with r; [exact R0|]. rewrite Rmult_minus_distr_r, Rinv_l by lra. nra. }
  assert (R5 : 0 <= / r - 1).
  { apply Rmult_le_reg_r with r; [exact R0|]. rewrite Rmult_minus_distr_r, Rinv_l by lra. nra. }
  split; exists (/ r - 1).
  - split; [unfold r; field; repeat split; lra|rewrite Rabs_pos_eq; lra].
  - split; [unfold r; field; repeat split; lra|rewrite Rabs_pos_eq; lra].
Qed.
End Choose.

Lemma ratio_lt a b c : 0 < a -> 0 < b -> 0 < c -> a / b < c -> a / c <= b.
Proof.
  intros Ha Hb Hc H. assert (E : a = a / b * b) by (field; lra).
  assert (L : a < c * b) by (rewrite E at 1; apply Rmult_lt_compat_r; lra).
  apply Rmult_le_reg_r with c; [exact Hc|]. unfold Rdiv. rewrite Rmult_assoc, Rinv_l, Rmult_1_r by lra. lra.
Qed.

Lemma ratio_ge a b c : 0 < b -> 0 < c -> ~ (a / b < c) -> b * c <= a.
Proof.
  intros Hb Hc H. apply Rnot_lt_le in H. assert (E : a = a / b * b) by (field; lra).
  rewrite E. rewrite Rmult_comm. apply Rmult_le_compat_r; lra.
Qed.

Lemma rel_sym a b e : rel a b e -> 0 <= e <= / 100 -> rel b a (e + 2 * (e * e)).
Proof.
  intros (d & E & B) [H0 H1]. pose proof (Rabs_le_inv _ _ B) as [D1 D2].
  exists (/ (1 + d) - 1). split; [rewrite E; field; lra|].
  assert (P : 0 < 1 + d) by lra.
  apply Rabs_le. split.
  - apply Rmult_le_reg_r with (1 + d); [exact P|]. rewrite Rmult_minus_distr_r, Rinv_l by lra. nra.
  - apply Rmult_le_reg_r with (1 + d); [exact P|]. rewrite Rmult_minus_distr_r, Rinv_l by lra. nra.
Qed.

Lemma ratio_lt2 a b c : 0 < a -> 0 < b -> 0 < c -> a / b < c -> a <= b * c.
Proof.
  intros Ha Hb Hc H. assert (E : a = a / b * b) by (field; lra).
  rewrite E at 1. rewrite (Rmult_comm b c). left. apply Rmult_lt_compat_r; lra.
Qed.

Lemma ratio_ge2 a b c : 0 < b -> 0 < c -> ~ (a / b < c) -> b <= a / c.
Proof.
  intros Hb Hc H. pose proof (ratio_ge a b c Hb Hc H).
  apply Rmult_le_reg_r with c; [exact Hc|]. unfold Rdiv. rewrite Rmult_assoc, Rinv_l, Rmult_1_r by lra. lra.
Qed.

(* ---------- the whole function ---------- *)
Section Aspect.
Variables (minx miny maxx maxy dx dy ax ay : Z).
Hypothesis Gminx : gf minx.
Hypothesis Gminy : gf miny.
Hypothesis Gmaxx : gf maxx.
Hypothesis Gmaxy : gf maxy.
Hypothesis Gdx : gf dx.
Hypothesis Gdy : gf dy.
Hypothesis Gax : gf ax.
Hypothesis Gay : gf ay.
Let VW := V maxx - V minx.
Let VH := V maxy - V miny.
Let DX := V dx.
Let DY := V dy.
Hypothesis Mw : mag VW 30.
Hypothesis Mh : mag VH 30.
Hypothesis Mdx : mag DX 30.
Hypothesis Mdy : mag DY 30.
Hypothesis Pw : 0 < VW.
Hypothesis Ph : 0 < VH.
Hypothesis Pdx : 0 < DX.
Hypothesis Pdy : 0 < DY.
Hypothesis Hax : 0 <= V ax <= 1.
Hypothesis Hay : 0 <= V ay <= 1.

Let A := VW / VH.

(* closeness of two rectangles: x coordinates relative to Mx, y coordinates relative to My *)
Definition close4 (f : f32 * f32 * f32 * f32) (r : R * R * R * R) (Mx My : R) : Prop :=
  let '(mnx, mny, mxx, mxy) := f in let '(MNX, MNY, MXX, MXY) := r in
  gf mnx /\ gf mny /\ gf mxx /\ gf mxy /\
  Rabs (V mnx - MNX) <= 48 * u32 * Mx + eta2 /\ Rabs (V mxx - MXX) <= 48 * u32 * Mx + eta2 /\
  Rabs (V mny - MNY) <= 48 * u32 * My + eta2 /\ Rabs (V mxy - MXY) <= 48 * u32 * My + eta2.

Lemma both_axes wx wy W H Mx My :
  gf wx -> gf wy -> rel (V wx) W (16 * u32) -> rel (V wy) H (16 * u32) ->
  0 <= W <= Mx -> DX <= Mx -> Mx <= 2 ^ 100 -> 0 <= H <= My -> DY <= My -> My <= 2 ^ 100 ->
  close4 (fmul F32 (fsub F32 dx wx) ax, fmul F32 (fsub F32 dy wy) ay,
          fadd F32 (fmul F32 (fsub F32 dx wx) ax) wx, fadd F32 (fmul F32 (fsub F32 dy wy) ay) wy)
         ((DX - W) * V ax, (DY - H) * V ay, (DX - W) * V ax + W, (DY - H) * V ay + H) Mx My.
Proof.
  intros Gwx Gwy Rx Ry HW HDx HMx HH HDy HMy. pose proof u32_small as [U0 U1].
  assert (Dx : 0 <= V dx <= Mx) by (fold DX; lra). assert (Dy : 0 <= V dy <= My) by (fold DY; lra).
  assert (He : 0 <= 16 * u32 <= 16 * u32) by lra.
  destruct (tail_err dx wx ax W Mx (16 * u32) Gdx Gwx Gax Hax Dx HW HMx Rx He) as (G1 & G2 & E1 & E2).
  destruct (tail_err dy wy ay H My (16 * u32) Gdy Gwy Gay Hay Dy HH HMy Ry He) as (G3 & G4 & E3 & E4).
  unfold close4. fold DX DY in E1, E2, E3, E4.
  split; [exact G1|]. split; [exact G3|]. split; [exact G2|]. split; [exact G4|].
  split; [exact E1|]. split; [exact E2|]. split; [exact E3|exact E4].
Qed.

Lemma mag30_100 x : mag x 30 -> 0 < x -> x <= 2 ^ 100.
Proof. intros [_ B] P. rewrite Rabs_pos_eq in B by lra. pose proof (pow2_mono 30 100 ltac:(lia)). lra. Qed.

Lemma A_facts : 0 < A /\ mag A 60 /\ DY * A <= 2 ^ 100 /\ DX / A <= 2 ^ 100.
Proof.
  assert (PA : 0 < A) by (unfold A; apply Rdiv_lt_0_compat; lra).
  assert (MA : mag A 60) by (apply (mag_div _ _ 30 30); assumption).
  split; [exact PA|]. split; [exact MA|]. split.
  - destruct (mag_mul _ _ _ _ Mdy MA) as [_ B]. rewrite Rabs_pos_eq in B by nra.
    pose proof (pow2_mono (30 + 60) 100 ltac:(lia)). lra.
  - destruct (mag_div _ _ _ _ Mdx MA) as [_ B]. rewrite Rabs_pos_eq in B by (left; apply Rdiv_lt_0_compat; lra).
    pose proof (pow2_mono (30 + 60) 100 ltac:(lia)). lra.
Qed.

(* AspectMeet: every coordinate of the float32 result is within 48 * 2^-24 of the target size (+ 2^-149) of the
   coordinate the same formulas give over the reals *)
Theorem meet_float_error :
  close4 (aspect_meet F32ops minx miny maxx maxy dx dy ax ay)
         (aspect_meet Rops (V minx) (V miny) (V maxx) (V maxy) DX DY (V ax) (V ay)) DX DY.
Proof.
  pose proof u32_small as [U0 U1]. destruct A_facts as (PA & MA & BA1 & BA2).
  pose proof (mag30_100 _ Mdx Pdx) as BX. pose proof (mag30_100 _ Mdy Pdy) as BY.
  assert (T := vbar_err minx miny maxx maxy dx dy). repeat (specialize (T ltac:(assumption))). destruct T as (Gv & Rv & Mv & Pv).
  assert (T := q_err minx miny maxx maxy dx dy). repeat (specialize (T ltac:(assumption))). destruct T as (Gq & Rq).
  assert (T := wy1_err minx miny maxx maxy dx dy). repeat (specialize (T ltac:(assumption))). destruct T as (Gy1 & Ry1).
  assert (T := wx2_err minx miny maxx maxy dx dy). repeat (specialize (T ltac:(assumption))). destruct T as (Gx2 & Rx2).
  assert (MM1 := narrow_mismatch_1 minx miny maxx maxy dx dy). repeat (specialize (MM1 ltac:(assumption))).
  assert (MM2 := narrow_mismatch_2 minx miny maxx maxy dx dy). repeat (specialize (MM2 ltac:(assumption))).
  unfold aspect_meet, aspect, vb_size, F32ops, Rops. cbn [t_add t_sub t_mul t_div t_lt]. fold VW VH A.
  set (vbar := fdiv F32 (fsub F32 maxx minx) (fsub F32 maxy miny)) in *. set (q := fdiv F32 dx dy) in *.
  pose proof (lt32 q vbar Gq Gv) as LT.
  assert (X1 : DX / A * A = DX) by (field; lra).
  destruct (flt F32 q vbar) eqn:NF; destruct (Rlt_dec (DX / DY) A) as [NR|NR]; cbn [xorb].
  - (* both narrow: width is the constraint *)
    assert (HH : DX / A <= DY) by (apply ratio_lt; assumption).
    assert (H0 : 0 <= DX / A) by (left; apply Rdiv_lt_0_compat; lra).
    apply both_axes; try assumption; try lra.
    + apply (rel_weaken _ _ 0); [apply rel_refl|lra].
    + apply (rel_weaken _ _ _ _ Ry1). lra.
  - (* float narrow, real not *)
    destruct (MM1 (proj1 LT eq_refl) NR) as [M1 M2].
    assert (HW : DY * A <= DX) by (apply ratio_ge; assumption).
    apply both_axes; try assumption; try lra; try nra.
    + apply (rel_weaken _ _ _ _ M1). lra.
    + pose proof (rel_trans _ _ _ _ _ Ry1 M2) as T. apply (rel_weaken _ _ _ _ T). nra.
  - (* real narrow, float not *)
    assert (NF' : ~ (V q < V vbar)) by (intros C; apply LT in C; congruence).
    destruct (MM2 NF' NR) as [M1 M2].
    assert (HH : DX / A <= DY) by (apply ratio_lt; assumption).
    assert (H0 : 0 <= DX / A) by (left; apply Rdiv_lt_0_compat; lra).
    apply both_axes; try assumption; try lra.
    + pose proof (rel_trans _ _ _ _ _ Rx2 M1) as T. apply (rel_weaken _ _ _ _ T). nra.
    + apply (rel_weaken _ _ _ _ M2). lra.
  - (* both wide: height is the constraint *)
    assert (HW : DY * A <= DX) by (apply ratio_ge; assumption).
    apply both_axes; try assumption; try lra; try nra.
    + apply (rel_weaken _ _ _ _ Rx2). lra.
    + apply (rel_weaken _ _ 0); [apply rel_refl|lra].
Qed.
(* AspectSlice: the same, relative to the size of the (covering) result *)
Theorem slice_float_error :
  let r := aspect_slice Rops (V minx) (V miny) (V maxx) (V maxy) DX DY (V ax) (V ay) in
  let '(MNX, MNY, MXX, MXY) := r in
  close4 (aspect_slice F32ops minx miny maxx maxy dx dy ax ay) r (MXX - MNX) (MXY - MNY).
Proof.
  pose proof u32_small as [U0 U1]. destruct A_facts as (PA & MA & BA1 & BA2).
  pose proof (mag30_100 _ Mdx Pdx) as BX. pose proof (mag30_100 _ Mdy Pdy) as BY.
  assert (T := vbar_err minx miny maxx maxy dx dy). repeat (specialize (T ltac:(assumption))). destruct T as (Gv & Rv & Mv & Pv).
  assert (T := q_err minx miny maxx maxy dx dy). repeat (specialize (T ltac:(assumption))). destruct T as (Gq & Rq).
  assert (T := wy1_err minx miny maxx maxy dx dy). repeat (specialize (T ltac:(assumption))). destruct T as (Gy1 & Ry1).
  assert (T := wx2_err minx miny maxx maxy dx dy). repeat (specialize (T ltac:(assumption))). destruct T as (Gx2 & Rx2).
  assert (MM1 := narrow_mismatch_1 minx miny maxx maxy dx dy). repeat (specialize (MM1 ltac:(assumption))).
  assert (MM2 := narrow_mismatch_2 minx miny maxx maxy dx dy). repeat (specialize (MM2 ltac:(assumption))).
  unfold aspect_slice, aspect, vb_size, F32ops, Rops. cbn [t_add t_sub t_mul t_div t_lt]. fold VW VH A.
  set (vbar := fdiv F32 (fsub F32 maxx minx) (fsub F32 maxy miny)) in *. set (q := fdiv F32 dx dy) in *.
  pose proof (lt32 q vbar Gq Gv) as LT.
  assert (E6 : 6 * u32 + 2 * (6 * u32 * (6 * u32)) <= 7 * u32) by nra.
  assert (E7 : 7 * u32 + 2 * (7 * u32 * (7 * u32)) <= 8 * u32) by nra.
  destruct (flt F32 q vbar) eqn:NF; destruct (Rlt_dec (DX / DY) A) as [NR|NR]; cbn [xorb].
  - (* both narrow: the height is kept, the width overflows *)
    assert (HW : DX <= DY * A) by (apply ratio_lt2; assumption).
    replace ((DX - DY * A) * V ax + DY * A - (DX - DY * A) * V ax) with (DY * A) by ring.
    replace ((DY - DY) * V ay + DY - (DY - DY) * V ay) with DY by ring.
    apply both_axes; try assumption; try lra; try nra.
    + apply (rel_weaken _ _ _ _ Rx2). lra.
    + apply (rel_weaken _ _ 0); [apply rel_refl|lra].
  - (* float narrow, real not *)
    destruct (MM1 (proj1 LT eq_refl) NR) as [M1 M2].
    assert (HH : DY <= DX / A) by (apply ratio_ge2; assumption).
    assert (H0 : 0 <= DX / A) by (left; apply Rdiv_lt_0_compat; lra).
    replace ((DX - DX) * V ax + DX - (DX - DX) * V ax) with DX by ring.
    replace ((DY - DX / A) * V ay + DX / A - (DY - DX / A) * V ay) with (DX / A) by ring.
    apply both_axes; try assumption; try lra.
    + pose proof (rel_sym _ _ _ M1 ltac:(lra)) as S1. pose proof (rel_trans _ _ _ _ _ Rx2 (rel_weaken _ _ _ _ S1 E6)) as T.
      apply (rel_weaken _ _ _ _ T). nra.
    + pose proof (rel_sym _ _ _ M2 ltac:(lra)) as S2. apply (rel_weaken _ _ _ _ S2). lra.
  - (* real narrow, float not *)
    assert (NF' : ~ (V q < V vbar)) by (intros C; apply LT in C; congruence).
    destruct (MM2 NF' NR) as [M1 M2].
    assert (HW : DX <= DY * A) by (apply ratio_lt2; assumption).
    replace ((DX - DY * A) * V ax + DY * A - (DX - DY * A) * V ax) with (DY * A) by ring.
    replace ((DY - DY) * V ay + DY - (DY - DY) * V ay) with DY by ring.
    apply both_axes; try assumption; try lra; try nra.
    + pose proof (rel_sym _ _ _ M1 ltac:(lra)) as S1. apply (rel_weaken _ _ _ _ S1). lra.
    + pose proof (rel_sym _ _ _ M2 ltac:(lra)) as S2. pose proof (rel_trans _ _ _ _ _ Ry1 (rel_weaken _ _ _ _ S2 E7)) as T.
      apply (rel_weaken _ _ _ _ T). nra.
  - (* both wide: the width is kept, the height overflows *)
    assert (HH : DY <= DX / A) by (apply ratio_ge2; assumption).
    assert (H0 : 0 <= DX / A) by (left; apply Rdiv_lt_0_compat; lra).
    replace ((DX - DX) * V ax + DX - (DX - DX) * V ax) with DX by ring.
    replace ((DY - DX / A) * V ay + DX / A - (DY - DX / A) * V ay) with (DX / A) by ring.
    apply both_axes; try assumption; try lra.
    + apply (rel_weaken _ _ 0); [apply rel_refl|lra].
    + apply (rel_weaken _ _ _ _ Ry1). lra.
Qed.
End Aspect.

Print Assumptions meet_float_error.
Print Assumptions slice_float_error.

(* FitR.v — the aspect-fitting formulas of ivg.go over the reals (C12). *)
From Coq Require Import Reals Lra Lia Bool.
From IVG Require Import Fit.
Local Open Scope R_scope.

Definition Rops : fitops R :=
  mkFit R Rplus Rminus Rmult Rdiv (fun x y => if Rlt_dec x y then true else false).

Lemma div_lt_cross a b c d : 0 < b -> 0 < d -> (a / b < c / d <-> a * d < c * b).
Proof.
  intros Hb Hd. split; intros H.
  - apply (Rmult_lt_compat_r (b * d)) in H; [|nra]. 
    replace (a / b * (b * d)) with (a * d) in H by (field; lra).
    replace (c / d * (b * d)) with (c * b) in H by (field; lra). exact H.
  - apply (Rmult_lt_reg_r (b * d)); [nra|].
    replace (a / b * (b * d)) with (a * d) by (field; lra).
    replace (c / d * (b * d)) with (c * b) by (field; lra). exact H.
Qed.

Theorem meet_spec minx miny maxx maxy dx dy ax ay :
  minx < maxx -> miny < maxy -> 0 < dx -> 0 < dy -> 0 <= ax <= 1 -> 0 <= ay <= 1 ->
  let vw := maxx - minx in let vh := maxy - miny in
  let '(mnx, mny, mxx, mxy) := aspect_meet Rops minx miny maxx maxy dx dy ax ay in
  let w := mxx - mnx in let h := mxy - mny in
  w * vh = h * vw /\
  0 <= mnx /\ mxx <= dx /\ 0 <= mny /\ mxy <= dy /\
  (w = dx \/ h = dy) /\
  mnx = (dx - w) * ax /\ mny = (dy - h) * ay.
Proof.
  intros Hw Hh Hdx Hdy Hax Hay vw vh.
  assert (Pw : 0 < vw) by (unfold vw; lra). assert (Ph : 0 < vh) by (unfold vh; lra).
  unfold aspect_meet, aspect, vb_size, Rops. cbn [t_add t_sub t_mul t_div t_lt].
  fold vw vh.
  destruct (Rlt_dec (dx / dy) (vw / vh)) as [L|L]; cbn [xorb].
  - apply (proj1 (div_lt_cross dx dy vw vh Hdy Ph)) in L.
    assert (E : dx / (vw / vh) = dx * vh / vw) by (field; split; lra).
    rewrite E. set (hh := dx * vh / vw).
    assert (Hhh : hh * vw = dx * vh) by (unfold hh; field; lra).
    assert (Hlt : hh < dy) by (apply (Rmult_lt_reg_r vw); [lra|]; rewrite Hhh; lra).
    assert (Hpos : 0 < hh) by (unfold hh; apply Rdiv_lt_0_compat; nra).
    repeat split; try nra; try (left; lra).
  - apply Rnot_lt_le in L.
    assert (L' : dy * vw <= dx * vh).
    { destruct (Rle_lt_dec (dy * vw) (dx * vh)) as [K|K]; [exact K|].
      exfalso. apply (Rlt_not_le _ _ (proj2 (div_lt_cross dx dy vw vh Hdy Ph) ltac:(lra))). exact L. }
    set (ww := dy * (vw / vh)).
    assert (Hww : ww * vh = dy * vw) by (unfold ww; field; lra).
    assert (Hle : ww <= dx) by (apply (Rmult_le_reg_r vh); [lra|]; rewrite Hww; lra).
    assert (Hpos : 0 < ww) by (unfold ww; apply Rmult_lt_0_compat; [lra|apply Rdiv_lt_0_compat; lra]).
    repeat split; try nra; try (right; lra).
Qed.

Theorem slice_spec minx miny maxx maxy dx dy ax ay :
  minx < maxx -> miny < maxy -> 0 < dx -> 0 < dy -> 0 <= ax <= 1 -> 0 <= ay <= 1 ->
  let vw := maxx - minx in let vh := maxy - miny in
  let '(mnx, mny, mxx, mxy) := aspect_slice Rops minx miny maxx maxy dx dy ax ay in
  let w := mxx - mnx in let h := mxy - mny in
  w * vh = h * vw /\
  mnx <= 0 /\ dx <= mxx /\ mny <= 0 /\ dy <= mxy /\
  (w = dx \/ h = dy) /\
  mnx = (dx - w) * ax /\ mny = (dy - h) * ay.
Proof.
  intros Hw Hh Hdx Hdy Hax Hay vw vh.
  assert (Pw : 0 < vw) by (unfold vw; lra). assert (Ph : 0 < vh) by (unfold vh; lra).
  unfold aspect_slice, aspect, vb_size, Rops. cbn [t_add t_sub t_mul t_div t_lt].
  fold vw vh.
  destruct (Rlt_dec (dx / dy) (vw / vh)) as [L|L]; cbn [xorb].
  - apply (proj1 (div_lt_cross dx dy vw vh Hdy Ph)) in L.
    set (ww := dy * (vw / vh)).
    assert (Hww : ww * vh = dy * vw) by (unfold ww; field; lra).
    assert (Hgt : dx < ww) by (apply (Rmult_lt_reg_r vh); [lra|]; rewrite Hww; lra).
    repeat split; try nra; try (right; lra).
  - apply Rnot_lt_le in L.
    assert (L' : dy * vw <= dx * vh).
    { destruct (Rle_lt_dec (dy * vw) (dx * vh)) as [K|K]; [exact K|].
      exfalso. apply (Rlt_not_le _ _ (proj2 (div_lt_cross dx dy vw vh Hdy Ph) ltac:(lra))). exact L. }
    assert (E : dx / (vw / vh) = dx * vh / vw) by (field; split; lra).
    rewrite E. set (hh := dx * vh / vw).
    assert (Hhh : hh * vw = dx * vh) by (unfold hh; field; lra).
    assert (Hge : dy <= hh) by (apply (Rmult_le_reg_r vw); [lra|]; rewrite Hhh; lra).
    repeat split; try nra; try (left; lra).
Qed.

Theorem size_spec minx miny maxx maxy : vb_size Rops minx miny maxx maxy = (maxx - minx, maxy - miny).
Proof. reflexivity. Qed.

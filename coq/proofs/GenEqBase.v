(* GenEqBase.v / GenEqNum.v / GenEqColor.v / GenEqGeom.v — the Gallina functions regenerated from /repo's Go source (gen/GoSrc.v, by harness/gosrc.go)
   compute the same functions as the hand-written model.  These are the obligations that break when
   the source of a translated function is edited: the property theorems (about the model) are then
   no longer theorems about what the source says. *)
From Coq Require Import ZArith Bool List Lia ZifyBool ZifyNat.
From IVG Require Import SF NumCodec Color GoSem NumBase.
Import ListNotations.
Local Open Scope Z_scope.
Ltac Zify.zify_post_hook ::= Z.div_mod_to_equations.
Local Opaque Z.mul Z.add Z.div Z.modulo Z.pow.

(* ---------- bitwise or of disjoint bit ranges is addition ---------- *)

Lemma land_low_high n a b : 0 <= n -> 0 <= a < 2 ^ n -> b mod 2 ^ n = 0 -> Z.land a b = 0.
Proof.
  intros Hn Ha Hb. apply Z.bits_inj'. intros k Hk. rewrite Z.land_spec, Z.bits_0.
  destruct (Z.ltb_spec k n) as [L|L].
  - assert (E : Z.testbit b k = false).
    { rewrite <- (Z.mod_pow2_bits_low b n k) by lia. rewrite Hb. apply Z.bits_0. }
    rewrite E. apply andb_false_r.
  - assert (E : Z.testbit a k = false).
    { destruct (Z.eq_dec a 0) as [->|Nz]; [apply Z.bits_0|].
      apply Z.bits_above_log2; [lia|]. apply Z.log2_lt_pow2; [lia|].
      apply Z.lt_le_trans with (2 ^ n); [lia|]. apply Z.pow_le_mono_r; lia. }
    rewrite E. reflexivity.
Qed.

Lemma lor_low_high n a b : 0 <= n -> 0 <= a < 2 ^ n -> b mod 2 ^ n = 0 -> Z.lor a b = a + b.
Proof.
  intros Hn Ha Hb. pose proof (land_low_high n a b Hn Ha Hb) as L.
  rewrite <- Z.lxor_lor by exact L. symmetry. apply Z.add_nocarry_lxor. exact L.
Qed.

Lemma lor_high_low n a b : 0 <= n -> a mod 2 ^ n = 0 -> 0 <= b < 2 ^ n -> Z.lor a b = a + b.
Proof. intros. rewrite Z.lor_comm, Z.add_comm. apply (lor_low_high n); assumption. Qed.

Ltac pows :=
  change (2 ^ 1) with 2 in *; change (2 ^ 2) with 4 in *; change (2 ^ 4) with 16 in *;
  change (2 ^ 6) with 64 in *; change (2 ^ 7) with 128 in *; change (2 ^ 8) with 256 in *;
  change (2 ^ 16) with 65536 in *; change (2 ^ 23) with 8388608 in *; change (2 ^ 24) with 16777216 in *;
  change (2 ^ 31) with 2147483648 in *; change (2 ^ 32) with 4294967296 in *;
  change (2 ^ 63) with 9223372036854775808 in *; change (2 ^ 64) with 18446744073709551616 in *.

Ltac side := pows; lia.

(* rewrite every Z.lor whose operands occupy disjoint bit ranges (split at one of the usual positions) into + *)
Ltac lor_add :=
  repeat match goal with
  | |- context [Z.lor ?a ?b] =>
      first [ rewrite (lor_high_low 1 a b) by side | rewrite (lor_low_high 1 a b) by side
            | rewrite (lor_high_low 2 a b) by side | rewrite (lor_low_high 2 a b) by side
            | rewrite (lor_high_low 4 a b) by side | rewrite (lor_low_high 4 a b) by side
            | rewrite (lor_high_low 6 a b) by side | rewrite (lor_low_high 6 a b) by side
            | rewrite (lor_high_low 7 a b) by side | rewrite (lor_low_high 7 a b) by side
            | rewrite (lor_high_low 8 a b) by side | rewrite (lor_low_high 8 a b) by side
            | rewrite (lor_high_low 16 a b) by side | rewrite (lor_low_high 16 a b) by side
            | rewrite (lor_high_low 23 a b) by side | rewrite (lor_low_high 23 a b) by side
            | rewrite (lor_high_low 24 a b) by side | rewrite (lor_low_high 24 a b) by side ]
  end.

Ltac unwrap := unfold wrapu, wraps in *; pows.

Lemma wf_bytes_cons x r : wf_bytes (x :: r) -> 0 <= x < 256 /\ wf_bytes r.
Proof. intros W. inversion W. split; assumption. Qed.


(* GenEqColor.v — color.go and the colour operand codecs: translated source = model *)
From Coq Require Import ZArith Bool List Lia ZifyBool ZifyNat.
From IVG Require Import SF NumCodec Color GoSem Tables GoSrc NumBase ColorProofs GenEqBase.
Import ListNotations.
Local Open Scope Z_scope.
Ltac Zify.zify_post_hook ::= Z.div_mod_to_equations.
Local Opaque Z.mul Z.add Z.div Z.modulo Z.pow.

(* ---------- colours ---------- *)

Definition wf_gcolor (c : gcolor) : Prop :=
  0 <= gtyp c <= 3 /\ wf_rgba (gdata c) /\ ((gtyp c = 1 \/ gtyp c = 2) -> cr (gdata c) < 64).

Theorem go_PaletteIndexColor_eq i : abs_color (go_ivg_PaletteIndexColor i) = palette_index_color i.
Proof. first [reflexivity | cbv beta zeta delta [go_ivg_PaletteIndexColor palette_index_color abs_color]; cbn; unwrap; f_equal; lia]. Qed.
Theorem go_CRegColor_eq i : abs_color (go_ivg_CRegColor i) = creg_color i.
Proof. first [reflexivity | cbv beta zeta delta [go_ivg_CRegColor creg_color abs_color]; cbn; unwrap; f_equal; lia]. Qed.
Theorem go_RGBAColor_eq d : abs_color (go_ivg_RGBAColor d) = CRGBA d.
Proof. reflexivity. Qed.
Theorem go_BlendColor_eq t c0 c1 : abs_color (go_ivg_BlendColor t c0 c1) = CBlend t c0 c1.
Proof. reflexivity. Qed.

Lemma go_DecodeColor1_sweep :
  forallb (fun x => color_eqb (abs_color (go_ivg_DecodeColor1 x)) (decode_color1 x)
                    && (gtyp (go_ivg_DecodeColor1 x) <? 3) && (0 <=? gtyp (go_ivg_DecodeColor1 x)))
          (zrange 0 256) = true.
Proof. vm_compute. reflexivity. Qed.

Theorem go_DecodeColor1_eq x : 0 <= x < 256 -> abs_color (go_ivg_DecodeColor1 x) = decode_color1 x.
Proof.
  intros H. pose proof go_DecodeColor1_sweep as S. rewrite forallb_forall in S.
  specialize (S x (zrange_in 0 256 x ltac:(lia))).
  apply andb_prop in S. destruct S as [S _]. apply andb_prop in S. destruct S as [S _].
  apply color_eqb_eq. exact S.
Qed.

Lemma go_DecodeColor1_typ x : 0 <= x < 256 -> 0 <= gtyp (go_ivg_DecodeColor1 x) < 3.
Proof.
  intros H. pose proof go_DecodeColor1_sweep as S. rewrite forallb_forall in S.
  specialize (S x (zrange_in 0 256 x ltac:(lia))).
  apply andb_prop in S. destruct S as [S S2]. apply andb_prop in S. destruct S as [_ S1]. lia.
Qed.

(* reflexivity when the source is written as the model is; otherwise arithmetic on the boolean expressions *)
Theorem go_Is1_eq c : wf_rgba c -> go_ivg_Is1 c = is1 c.
Proof. intros (Hr & Hg & Hb & Ha). unfold wf_chan in *. first [reflexivity | cbv beta zeta delta [go_ivg_Is1 is1 is1u]; unwrap; lia]. Qed.
(* Color.Is1: a direct RGBA colour whose channels are all 1-byte-form levels; never an indirect colour *)
Definition color_is1 (c : color) : bool := match c with CRGBA d => is1 d | _ => false end.
Theorem go_Color_Is1_eq c : wf_gcolor c -> go_ivg_Color_Is1 c = color_is1 (abs_color c).
Proof.
  intros (Ht & Wd & _). unfold go_ivg_Color_Is1, abs_color, color_is1.
  destruct (gtyp c =? 0) eqn:E0; cbn [andb].
  - apply go_Is1_eq; exact Wd.
  - destruct (gtyp c =? 1); [reflexivity|]. destruct (gtyp c =? 2); reflexivity.
Qed.
Theorem go_Is2_eq c : wf_rgba c -> go_ivg_Is2 c = is2 c.
Proof. intros (Hr & Hg & Hb & Ha). unfold wf_chan in *. first [reflexivity | cbv beta zeta delta [go_ivg_Is2 is2 is2u]; unwrap; lia]. Qed.
Theorem go_Is3_eq c : wf_rgba c -> go_ivg_Is3 c = is3 c.
Proof. intros (Hr & Hg & Hb & Ha). unfold wf_chan in *. first [reflexivity | cbv beta zeta delta [go_ivg_Is3 is3]; unwrap; lia]. Qed.
Theorem go_ValidAlphaPremulColor_eq c : wf_rgba c -> go_ivg_ValidAlphaPremulColor c = valid_premul c.
Proof. intros (Hr & Hg & Hb & Ha). unfold wf_chan in *. first [reflexivity | cbv beta zeta delta [go_ivg_ValidAlphaPremulColor valid_premul]; unwrap; lia]. Qed.
Theorem go_ValidGradient_eq c : wf_rgba c -> go_ivg_ValidGradient c = valid_gradient c.
Proof.
  intros (_ & _ & Hb & _). unfold wf_chan in Hb. unfold go_ivg_ValidGradient, valid_gradient.
  f_equal. destruct (128 <=? cb c) eqn:E; lia.
Qed.

Definition enc1_result (o : option Z) : Z * bool := match o with Some x => (x, true) | None => (0, false) end.
Definition encl_result (z : list Z) (o : option (list Z)) : list Z * bool :=
  match o with Some l => (l, true) | None => (z, false) end.

Lemma gtyp_cases c : 0 <= gtyp c <= 3 -> gtyp c = 0 \/ gtyp c = 1 \/ gtyp c = 2 \/ gtyp c = 3.
Proof. lia. Qed.

Theorem go_Encode1_eq c : wf_gcolor c -> go_ivg_Color_Encode1 c = enc1_result (encode1 (abs_color c)).
Proof.
  intros W. pose proof (proj1 (proj2 W)) as Wd. destruct W as (Ht & (Hr & Hg & Hb & Ha) & Hi). unfold wf_chan in *.
  unfold go_ivg_Color_Encode1, abs_color, encode1, enc1_result.
  destruct (gtyp_cases c Ht) as [E|[E|[E|E]]]; rewrite E; cbn [Z.eqb Pos.eqb].
  - destruct (ca (gdata c) =? 255) eqn:A; cbn [negb].
    + rewrite go_Is1_eq by exact Wd. destruct (is1 (gdata c)) eqn:I; [|reflexivity]. unwrap. f_equal. lia.
    + destruct (rgba_eqb (gdata c) (mkRGBA 0 0 0 0)); [reflexivity|].
      destruct (rgba_eqb (gdata c) (mkRGBA 128 128 128 128)); [reflexivity|].
      destruct (rgba_eqb (gdata c) (mkRGBA 192 192 192 192)); reflexivity.
  - try rewrite (lor_low_high 7) by (pows; lia). unwrap. first [reflexivity | f_equal; lia].
  - try rewrite (lor_low_high 6) by (pows; lia). unwrap. first [reflexivity | f_equal; lia].
  - reflexivity.
Qed.

Theorem go_Encode2_eq c : wf_gcolor c -> go_ivg_Color_Encode2 c = encl_result [0; 0] (encode2 (abs_color c)).
Proof.
  intros W. pose proof (proj1 (proj2 W)) as Wd. destruct W as (Ht & (Hr & Hg & Hb & Ha) & Hi). unfold wf_chan in *.
  unfold go_ivg_Color_Encode2, go_ivg_Color_Is2, abs_color, encode2, encl_result. rewrite go_Is2_eq by exact Wd.
  destruct (gtyp_cases c Ht) as [E|[E|[E|E]]]; rewrite E; cbn [Z.eqb Pos.eqb andb]; try reflexivity.
  destruct (is2 (gdata c)); [|reflexivity]. unwrap.
  rewrite !(lor_high_low 4) by (pows; lia). f_equal. f_equal; [lia|]. f_equal. lia.
Qed.

Theorem go_Encode3Direct_eq c : wf_gcolor c ->
  go_ivg_Color_Encode3Direct c = encl_result [0; 0; 0] (encode3direct (abs_color c)).
Proof.
  intros W. pose proof (proj1 (proj2 W)) as Wd. destruct W as (Ht & _). unfold go_ivg_Color_Encode3Direct, go_ivg_Color_Is3, abs_color, encode3direct, encl_result.
  rewrite go_Is3_eq by exact Wd.
  destruct (gtyp_cases c Ht) as [E|[E|[E|E]]]; rewrite E; cbn [Z.eqb Pos.eqb andb]; try reflexivity.
  destruct (is3 (gdata c)); reflexivity.
Qed.

Theorem go_Encode4_eq c : wf_gcolor c ->
  go_ivg_Color_Encode4 c = encl_result [0; 0; 0; 0] (encode4 (abs_color c)).
Proof.
  intros (Ht & _). unfold go_ivg_Color_Encode4, abs_color, encode4, encl_result.
  destruct (gtyp_cases c Ht) as [E|[E|[E|E]]]; rewrite E; reflexivity.
Qed.

Theorem go_Encode3Indirect_eq c : wf_gcolor c ->
  go_ivg_Color_Encode3Indirect c = encl_result [0; 0; 0] (encode3indirect (abs_color c)).
Proof.
  intros (Ht & _). unfold go_ivg_Color_Encode3Indirect, abs_color, encode3indirect, encl_result.
  destruct (gtyp_cases c Ht) as [E|[E|[E|E]]]; rewrite E; reflexivity.
Qed.

Theorem go_Color_RGBA_eq c : wf_gcolor c -> go_ivg_Color_RGBA c = color_rgba (abs_color c).
Proof.
  intros W. pose proof (proj1 (proj2 W)) as Wd. destruct W as (Ht & _). unfold go_ivg_Color_RGBA, abs_color, color_rgba. rewrite go_ValidAlphaPremulColor_eq by exact Wd.
  destruct (gtyp_cases c Ht) as [E|[E|[E|E]]]; rewrite E; cbn [Z.eqb Pos.eqb negb orb]; try reflexivity.
  destruct (valid_premul (gdata c)); reflexivity.
Qed.

(* the colour operand decoders of decode/buffer.go *)
Definition col_result (p : gcolor * Z) : option (color * nat) :=
  if snd p =? 0 then None else Some (abs_color (fst p), Z.to_nat (snd p)).

Theorem go_decodeColor1_eq b : wf_bytes b -> col_result (go_decode_buffer_decodeColor1 b) = dec_color1 b.
Proof.
  intros W. unfold go_decode_buffer_decodeColor1, dec_color1, col_result.
  destruct b as [|x r]; [reflexivity|]. cbn [length nth].
  replace (Z.of_nat (S (length r)) <? 1) with false by lia. cbn [fst snd Z.eqb].
  rewrite go_DecodeColor1_eq; [reflexivity|]. inversion W; assumption.
Qed.

Theorem go_decodeColor2_eq b : wf_bytes b -> col_result (go_decode_buffer_decodeColor2 b) = dec_color2 b.
Proof.
  intros W. unfold go_decode_buffer_decodeColor2, dec_color2, col_result.
  destruct b as [|x [|y r]]; try reflexivity. cbn [length nth].
  replace (Z.of_nat (S (S (length r))) <? 2) with false by lia. cbn [fst snd Z.eqb].
  assert (Hb : 0 <= x < 256 /\ 0 <= y < 256).
  { apply wf_bytes_cons in W. destruct W as [Hx W]. apply wf_bytes_cons in W. destruct W as [Hy W]. lia. }
  rewrite go_RGBAColor_eq. unwrap. change (Z.to_nat 2) with 2%nat. f_equal. f_equal. f_equal. f_equal; lia.
Qed.

Theorem go_decodeColor3Direct_eq b : col_result (go_decode_buffer_decodeColor3Direct b) = dec_color3direct b.
Proof.
  unfold go_decode_buffer_decodeColor3Direct, dec_color3direct, col_result.
  destruct b as [|x [|y [|z r]]]; try reflexivity. cbn [length nth].
  replace (Z.of_nat (S (S (S (length r)))) <? 3) with false by lia. reflexivity.
Qed.

Theorem go_decodeColor4_eq b : col_result (go_decode_buffer_decodeColor4 b) = dec_color4 b.
Proof.
  unfold go_decode_buffer_decodeColor4, dec_color4, col_result.
  destruct b as [|x [|y [|z [|w r]]]]; try reflexivity. cbn [length nth].
  replace (Z.of_nat (S (S (S (S (length r))))) <? 4) with false by lia. reflexivity.
Qed.

Theorem go_decodeColor3Indirect_eq b : col_result (go_decode_buffer_decodeColor3Indirect b) = dec_color3indirect b.
Proof.
  unfold go_decode_buffer_decodeColor3Indirect, dec_color3indirect, col_result.
  destruct b as [|x [|y [|z r]]]; try reflexivity. cbn [length nth].
  replace (Z.of_nat (S (S (S (length r)))) <? 3) with false by lia. reflexivity.
Qed.

(* the colour operand encoders of encode/buffer.go: the form's bytes, or the form's opaque black *)
Theorem go_encodeColor1_eq b c : wf_gcolor c ->
  go_encode_buffer_encodeColor1 b c = b ++ [match encode1 (abs_color c) with Some x => x | None => 0 end].
Proof.
  intros W. unfold go_encode_buffer_encodeColor1. rewrite go_Encode1_eq by exact W.
  destruct (encode1 (abs_color c)); reflexivity.
Qed.

(* gradient parameter packing *)
Theorem go_EncodeGradient_eq cBase nBase shape spread nStops :
  go_ivg_EncodeGradient cBase nBase shape spread nStops = encode_gradient cBase nBase shape spread nStops.
Proof.
  unfold go_ivg_EncodeGradient, encode_gradient. unwrap.
  rewrite (lor_high_low 1 2) by (pows; lia).
  rewrite !(lor_low_high 6) by (pows; lia). f_equal; lia.
Qed.

Theorem go_DecodeGradient_eq c :
  go_ivg_DecodeGradient c =
  let g := decode_gradient c in (gp_cbase g, gp_nbase g, gp_shape g, gp_spread g, gp_nstops g).
Proof. first [reflexivity | cbv beta zeta delta [go_ivg_DecodeGradient decode_gradient gp_cbase gp_nbase gp_shape gp_spread gp_nstops]; unwrap; repeat (f_equal; try lia)]. Qed.

(* Color.Resolve *)
Lemma go_Resolve_simple fuel c pal creg : 0 <= gtyp c < 3 ->
  go_ivg_Color_Resolve (S fuel) c pal creg = resolve_simple pal creg (abs_color c).
Proof.
  intros Ht. cbn [go_ivg_Color_Resolve]. unfold abs_color, resolve_simple, reg_at,
    go_ivg_Color_rgba, go_ivg_Color_paletteIndex, go_ivg_Color_cReg.
  assert (E : gtyp c = 0 \/ gtyp c = 1 \/ gtyp c = 2) by lia.
  destruct E as [E|[E|E]]; rewrite E; reflexivity.
Qed.

Lemma go_blend_chan t x0 x1 : 0 <= t < 256 -> 0 <= x0 < 256 -> 0 <= x1 < 256 ->
  wrapu 8 (wrapu 32 (wrapu 32 (wrapu 32 (wrapu 32 (wrapu 8 (255 - t)) * wrapu 32 x0) +
                               wrapu 32 (wrapu 32 t * wrapu 32 x1)) + 128) / 255) = blend_chan t x0 x1.
Proof.
  intros Ht H0 H1. unfold blend_chan. unwrap.
  assert (P0 : 0 <= (255 - t) * x0 <= 255 * 255) by nia.
  assert (P1 : 0 <= t * x1 <= 255 * 255) by nia.
  replace ((255 - t) mod 256) with (255 - t) by lia.
  replace ((255 - t) mod 4294967296) with (255 - t) by lia.
  replace (x0 mod 4294967296) with x0 by lia. replace (x1 mod 4294967296) with x1 by lia.
  replace (t mod 4294967296) with t by lia.
  set (a := (255 - t) * x0) in *. set (b := t * x1) in *.
  replace (a mod 4294967296) with a by lia. replace (b mod 4294967296) with b by lia.
  replace ((a + b) mod 4294967296) with (a + b) by lia.
  replace ((a + b + 128) mod 4294967296) with (a + b + 128) by lia. reflexivity.
Qed.

Theorem go_Resolve_eq fuel c pal creg : wf_gcolor c -> wf_regs pal -> wf_regs creg ->
  go_ivg_Color_Resolve (S (S fuel)) c pal creg = resolve pal creg (abs_color c).
Proof.
  intros (Ht & (Hr & Hg & Hb & Ha) & Hi) Wp Wc. unfold wf_chan in *.
  destruct (Z.eq_dec (gtyp c) 3) as [E|N].
  2:{ rewrite go_Resolve_simple by lia. unfold abs_color.
      assert (E : gtyp c = 0 \/ gtyp c = 1 \/ gtyp c = 2) by lia.
      destruct E as [E|[E|E]]; rewrite E; reflexivity. }
  remember (S fuel) as f1 eqn:Ef.
  cbn [go_ivg_Color_Resolve]. unfold abs_color. rewrite E. cbn [Z.eqb Pos.eqb resolve].
  unfold go_ivg_Color_blend. subst f1.
  rewrite !go_Resolve_simple by (apply go_DecodeColor1_typ; lia).
  rewrite !go_DecodeColor1_eq by lia.
  assert (W0 : wf_rgba (resolve_simple pal creg (decode_color1 (cg (gdata c))))).
  { apply resolve_simple_wf; try assumption; lia. }
  assert (W1 : wf_rgba (resolve_simple pal creg (decode_color1 (cb (gdata c))))).
  { apply resolve_simple_wf; try assumption; lia. }
  destruct W0 as (A1 & A2 & A3 & A4). destruct W1 as (B1 & B2 & B3 & B4). unfold wf_chan in *.
  rewrite !go_blend_chan by lia. reflexivity.
Qed.


Theorem go_encodeColor2_eq b c : wf_gcolor c ->
  go_encode_buffer_encodeColor2 b c = b ++ match encode2 (abs_color c) with Some l => l | None => [0; 15] end.
Proof.
  intros W. unfold go_encode_buffer_encodeColor2. rewrite go_Encode2_eq by exact W.
  unfold encode2. destruct (abs_color c) as [d|i|i|t c0 c1]; try reflexivity. destruct (is2 d); reflexivity.
Qed.

Theorem go_encodeColor3Direct_eq b c : wf_gcolor c ->
  go_encode_buffer_encodeColor3Direct b c = b ++ match encode3direct (abs_color c) with Some l => l | None => [0; 0; 0] end.
Proof.
  intros W. unfold go_encode_buffer_encodeColor3Direct. rewrite go_Encode3Direct_eq by exact W.
  unfold encode3direct. destruct (abs_color c) as [d|i|i|t c0 c1]; try reflexivity. destruct (is3 d); reflexivity.
Qed.

Theorem go_encodeColor4_eq b c : wf_gcolor c ->
  go_encode_buffer_encodeColor4 b c = b ++ match encode4 (abs_color c) with Some l => l | None => [0; 0; 0; 255] end.
Proof.
  intros W. unfold go_encode_buffer_encodeColor4. rewrite go_Encode4_eq by exact W.
  unfold encode4. destruct (abs_color c) as [d|i|i|t c0 c1]; reflexivity.
Qed.

Theorem go_encodeColor3Indirect_eq b c : wf_gcolor c ->
  go_encode_buffer_encodeColor3Indirect b c = b ++ match encode3indirect (abs_color c) with Some l => l | None => [0; 0; 0] end.
Proof.
  intros W. unfold go_encode_buffer_encodeColor3Indirect. rewrite go_Encode3Indirect_eq by exact W.
  unfold encode3indirect. destruct (abs_color c) as [d|i|i|t c0 c1]; reflexivity.
Qed.

(* GenEqFloat.v — facts about the soft-float needed by GenEqNum.v (proved with transparent Z operations) *)
From Coq Require Import ZArith Bool List Lia ZifyBool ZifyNat.
From IVG Require Import SF NumCodec NumBase SFProofs.
Import ListNotations.
Local Open Scope Z_scope.

Lemma lor_bound n a b : 0 <= n -> 0 <= a < 2 ^ n -> 0 <= b < 2 ^ n -> 0 <= Z.lor a b < 2 ^ n.
Proof.
  intros Hn Ha Hb. assert (N : 0 <= Z.lor a b) by (apply Z.lor_nonneg; lia). split; [exact N|].
  assert (P : 0 < 2 ^ n) by (apply Z.pow_pos_nonneg; lia).
  destruct (Z.eq_dec (Z.lor a b) 0) as [->|NZ]; [exact P|].
  assert (Pn : 0 < n).
  { destruct (Z.eq_dec n 0) as [->|]; [|lia]. change (2 ^ 0) with 1 in *.
    assert (a = 0) by lia. assert (b = 0) by lia. subst. exfalso. apply NZ. reflexivity. }
  apply Z.log2_lt_pow2; [lia|]. rewrite Z.log2_lor by lia.
  apply Z.max_lub_lt.
  - destruct (Z.eq_dec a 0) as [->|]; [change (Z.log2 0) with 0|apply Z.log2_lt_pow2]; lia.
  - destruct (Z.eq_dec b 0) as [->|]; [change (Z.log2 0) with 0|apply Z.log2_lt_pow2]; lia.
Qed.

Lemma fmul_wf32 x y : wf_f32 x -> wf_f32 y -> wf_f32 (fmul F32 x y).
Proof.
  unfold wf_f32. intros Hx Hy. unfold fmul.
  assert (Q : forall z, 0 <= z < 4294967296 -> 0 <= quiet F32 z < 4294967296).
  { intros z Hz. unfold quiet. change (2 ^ (prec F32 - 2)) with 4194304. change 4294967296 with (2 ^ 32).
    apply lor_bound; [lia| |]; change (2 ^ 32) with 4294967296; lia. }
  destruct (decode_fast F32 x) as [|s1|s1 m1 e1] eqn:D1; [apply Q; exact Hx| |];
  destruct (decode_fast F32 y) as [|s2|s2 m2 e2] eqn:D2; try (apply Q; assumption).
  - destruct (xorb s1 s2); vm_compute; split; congruence.
  - destruct (m2 =? 0); [vm_compute; split; congruence|]. destruct (xorb s1 s2); vm_compute; split; congruence.
  - destruct (m1 =? 0); [vm_compute; split; congruence|]. destruct (xorb s1 s2); vm_compute; split; congruence.
  - change 4294967296 with (2 ^ 32). apply rne_dy32_range.
    pose proof (decode_fast_fin F32 x _ _ _ ltac:(cbn; lia) D1). pose proof (decode_fast_fin F32 y _ _ _ ltac:(cbn; lia) D2). nia.
Qed.

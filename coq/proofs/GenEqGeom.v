(* GenEqGeom.v — ViewBox fitting, Spread.Clamp, affine helpers: translated source = model *)
From Coq Require Import ZArith Bool List Lia ZifyBool ZifyNat.
From IVG Require Import SF NumCodec Color Calls Render Gradient Fit Generator GoSem Tables GoSrc NumBase GenEqBase.
Import ListNotations.
Local Open Scope Z_scope.
Ltac Zify.zify_post_hook ::= Z.div_mod_to_equations.
Local Opaque Z.mul Z.add Z.div Z.modulo Z.pow.

(* ---------- ViewBox.Size / AspectMeet / AspectSlice (ivg.go) ---------- *)

Theorem go_ViewBox_Size_eq v :
  go_ivg_ViewBox_Size v = vb_size F32ops (vminx v) (vminy v) (vmaxx v) (vmaxy v).
Proof. reflexivity. Qed.

Theorem go_AspectMeet_eq v dx dy ax ay :
  go_ivg_ViewBox_AspectMeet v dx dy ax ay =
  aspect_meet F32ops (vminx v) (vminy v) (vmaxx v) (vmaxy v) dx dy ax ay.
Proof.
  unfold go_ivg_ViewBox_AspectMeet, aspect_meet, aspect, go_ivg_ViewBox_Size, vb_size. cbn [F32ops t_add t_sub t_mul t_div t_lt].
  destruct (flt F32 (fdiv F32 dx dy) _); reflexivity.
Qed.

Theorem go_AspectSlice_eq v dx dy ax ay :
  go_ivg_ViewBox_AspectSlice v dx dy ax ay =
  aspect_slice F32ops (vminx v) (vminy v) (vmaxx v) (vmaxy v) dx dy ax ay.
Proof.
  unfold go_ivg_ViewBox_AspectSlice, aspect_slice, aspect, go_ivg_ViewBox_Size, vb_size. cbn [F32ops t_add t_sub t_mul t_div t_lt].
  destruct (flt F32 (fdiv F32 dx dy) _); reflexivity.
Qed.

(* ---------- Spread.Clamp (render/gradient.go) ---------- *)

Lemma d_one_bits : d_one = 4607182418800017408. Proof. vm_compute. reflexivity. Qed.
Lemma d_mone_bits : d_mone = 13830554455654793216. Proof. vm_compute. reflexivity. Qed.

Lemma go_even_int x : ((f2int 64 F64 x) mod 2 =? 0) = negb (odd_int x).
Proof.
  unfold f2int, odd_int. change (64 - 1) with 63.
  destruct (ftrunc F64 x) as [i|].
  - destruct ((- 2 ^ 63 <=? i) && (i <? 2 ^ 63)) eqn:R.
    + destruct (Z.abs i <? 2 ^ 63) eqn:A.
      * rewrite Zmod_even. rewrite <- Z.negb_even. destruct (Z.even i); reflexivity.
      * assert (i = - 2 ^ 63) by lia. subst i. reflexivity.
    + replace (Z.abs i <? 2 ^ 63) with false by lia. reflexivity.
  - reflexivity.
Qed.

Theorem go_Clamp_eq s x : go_render_Spread_Clamp s x = clamp s x.
Proof.
  unfold go_render_Spread_Clamp, clamp, clamp_gen. cbn [F64clamp k_ge0 k_le1 k_zero k_one k_mone k_neg k_sub k_frac k_odd].
  rewrite !go_even_int. rewrite <- d_one_bits, <- d_mone_bits. unfold frac, d_zero.
  destruct (fge F64 x 0); destruct (fle F64 x d_one); destruct (s =? 1); destruct (s =? 2); destruct (s =? 3);
    try reflexivity; destruct (odd_int _); reflexivity.
Qed.

(* ---------- generate.Translate / MulAff3 ---------- *)

Theorem go_Translate_eq x y : go_generate_Translate x y = translate x y.
Proof. reflexivity. Qed.

Theorem go_MulAff3_eq x y a : go_generate_MulAff3 x y a = mul_aff3 x y a.
Proof. reflexivity. Qed.

(* ---------- generate.Scale / Concat (a range loop translated as a fold) ---------- *)

Theorem go_Scale2_eq sx sy : go_generate_Scale [sx; sy] = scale2 sx sy.
Proof. reflexivity. Qed.
Theorem go_Scale1_eq sxy : go_generate_Scale [sxy] = scale2 sxy sxy.
Proof. reflexivity. Qed.
Theorem go_Scale0_eq : go_generate_Scale [] = aff_id.
Proof. reflexivity. Qed.

Theorem go_Concat_eq affs : go_generate_Concat affs = concat affs.
Proof.
  unfold go_generate_Concat, concat, concat_gen.
  destruct affs as [|a [|b r]].
  - reflexivity.
  - reflexivity.
  - cbn [length]. replace (Z.of_nat (S (S (length r))) =? 0) with false by lia.
    replace (Z.of_nat (S (S (length r))) =? 1) with false by lia. reflexivity.
Qed.

(* GenEqNum.v — number codecs of encode/buffer.go and decode/buffer.go: translated source = model *)
From Coq Require Import ZArith Bool List Lia ZifyBool ZifyNat.
From IVG Require Import SF NumCodec Color Calls Decoder GoSem Tables GoSrc NumBase NumProofs SFProofs NumSweepD Mul64 GenEqBase GenEqFloat QuantEq QuantTiny.
Import ListNotations.
Local Open Scope Z_scope.
Ltac Zify.zify_post_hook ::= Z.div_mod_to_equations.
Local Opaque Z.mul Z.add Z.div Z.modulo Z.pow.

(* ---------- naturals ---------- *)

Theorem go_encodeNatural_eq b u : 0 <= u < 4294967296 ->
  go_encode_buffer_encodeNatural b u = b ++ enc_natural u.
Proof.
  intros H. unfold go_encode_buffer_encodeNatural, enc_natural, le16, le32. unwrap.
  destruct (u <? 128) eqn:E1; [f_equal; f_equal; lia|].
  destruct (u <? 16384) eqn:E2; lor_add; f_equal; repeat (f_equal; try lia).
Qed.

Definition nat_result (o : option (Z * nat)) : Z * Z :=
  match o with Some (u, n) => (u, Z.of_nat n) | None => (0, 0) end.

Theorem go_decodeNatural_eq b : wf_bytes b ->
  go_decode_buffer_decodeNatural b = nat_result (dec_natural b).
Proof.
  intros W. unfold go_decode_buffer_decodeNatural, dec_natural, nat_result.
  destruct b as [|x r]; [reflexivity|].
  assert (Hx : 0 <= x < 256) by (inversion W; assumption).
  cbn [length nth]. unwrap.
  replace (Z.of_nat (S (length r)) <? 1) with false by lia.
  destruct (x mod 2 =? 0) eqn:E1; [f_equal; lia|].
  replace (x / 2 mod 2 * 2 =? 0) with ((x / 2) mod 2 =? 0) by lia.
  destruct ((x / 2) mod 2 =? 0) eqn:E2.
  - destruct r as [|y r]; cbn [length nth].
    + replace (Z.of_nat 1 >=? 2) with false by lia. reflexivity.
    + assert (Hy : 0 <= y < 256) by (inversion W as [|? ? ? W2]; inversion W2; assumption).
      replace (Z.of_nat (S (S (length r))) >=? 2) with true by lia.
      lor_add. f_equal. lia.
  - destruct r as [|y [|z [|w r]]]; cbn [length nth];
      try (match goal with |- context [?a >=? 4] => replace (a >=? 4) with false by lia end; reflexivity).
    assert (Hb : 0 <= y < 256 /\ 0 <= z < 256 /\ 0 <= w < 256).
    { inversion W as [|? ? ? W2]; inversion W2 as [|? ? ? W3]; inversion W3 as [|? ? ? W4]; inversion W4.
      unfold wf_byte in *. lia. }
    match goal with |- context [?a >=? 4] => replace (a >=? 4) with true by lia end.
    lor_add. f_equal. lia.
Qed.

(* ---------- 4-byte reals ---------- *)

Lemma lor_3 x : 0 <= x -> Z.lor x 3 = x / 4 * 4 + 3.
Proof.
  intros H. rewrite (Z.div_mod x 4) at 1 by lia.
  rewrite <- (lor_high_low 2 (4 * (x / 4)) (x mod 4)) by side.
  rewrite <- Z.lor_assoc.
  assert (E : Z.lor (x mod 4) 3 = 3).
  { assert (R : x mod 4 = 0 \/ x mod 4 = 1 \/ x mod 4 = 2 \/ x mod 4 = 3) by lia.
    destruct R as [->|[->|[->| ->]]]; reflexivity. }
  rewrite E. rewrite (lor_high_low 2) by side. lia.
Qed.

Theorem go_encode4ByteReal_eq b f : wf_f32 f ->
  go_encode_buffer_encode4ByteReal b f = b ++ enc_real4 f.
Proof.
  unfold wf_f32. intros H. unfold go_encode_buffer_encode4ByteReal, enc_real4, round4, le32. unwrap.
  destruct (f mod 8388608 <? 8388606) eqn:E.
  - replace ((f mod 8388608 + 2) mod 4294967296) with (f mod 8388608 + 2) by lia.
    rewrite (lor_high_low 23 (f / 8388608 * 8388608)) by side.
    rewrite lor_3 by lia. f_equal. repeat (f_equal; try lia).
  - rewrite (lor_high_low 23 (f / 8388608 * 8388608)) by side.
    rewrite lor_3 by lia. f_equal. repeat (f_equal; try lia).
Qed.

(* ---------- decoders of reals, coordinates, zero-to-one ---------- *)

Definition num_result (o : option (Z * nat)) : Z * Z :=
  match o with Some (f, n) => (f, Z.of_nat n) | None => (0, 0) end.

Lemma c64_bits : c64 = 1115684864. Proof. vm_compute. reflexivity. Qed.
Lemma c120_bits : c120 = 1123024896. Proof. vm_compute. reflexivity. Qed.
Lemma c15120_bits : c15120 = 1181499392. Proof. vm_compute. reflexivity. Qed.

Lemma dec_natural_cases b u n : wf_bytes b -> dec_natural b = Some (u, n) ->
  (n = 1%nat /\ 0 <= u < 128) \/ (n = 2%nat /\ 0 <= u < 16384) \/ (n = 4%nat /\ 0 <= u < 1073741824).
Proof.
  intros W. unfold dec_natural. destruct b as [|x r]; [discriminate|].
  assert (Hx : 0 <= x < 256) by (inversion W; assumption).
  destruct (x mod 2 =? 0) eqn:E1; [intros [= <- <-]; left; split; [reflexivity|lia]|].
  destruct ((x / 2) mod 2 =? 0) eqn:E2.
  - destruct r as [|y r]; [discriminate|].
    assert (Hy : 0 <= y < 256) by (inversion W as [|? ? ? W2]; inversion W2; assumption).
    intros [= <- <-]. right; left. split; [reflexivity|]. clear E1 E2. lia.
  - destruct r as [|y [|z [|w r]]]; try discriminate.
    assert (Hb : 0 <= y < 256 /\ 0 <= z < 256 /\ 0 <= w < 256).
    { inversion W as [|? ? ? W2]; inversion W2 as [|? ? ? W3]; inversion W3 as [|? ? ? W4]; inversion W4.
      unfold wf_byte in *. lia. }
    intros [= <- <-]. right; right. split; [reflexivity|]. clear E1 E2. lia.
Qed.

Theorem go_decodeReal_eq b : wf_bytes b ->
  go_decode_buffer_decodeReal b = num_result (dec_real b).
Proof.
  intros W. unfold go_decode_buffer_decodeReal, dec_real. rewrite go_decodeNatural_eq by exact W.
  destruct (dec_natural b) as [[u n]|] eqn:D; [|reflexivity].
  destruct (dec_natural_cases b u n W D) as [[-> Hu]|[[-> Hu]|[-> Hu]]]; cbn; unfold clear2; unwrap; reflexivity.
Qed.

Theorem go_decodeCoordinate_eq b : wf_bytes b ->
  go_decode_buffer_decodeCoordinate b = num_result (dec_coordinate b).
Proof.
  intros W. unfold go_decode_buffer_decodeCoordinate, dec_coordinate. rewrite go_decodeNatural_eq by exact W.
  destruct (dec_natural b) as [[u n]|] eqn:D; [|reflexivity].
  destruct (dec_natural_cases b u n W D) as [[-> Hu]|[[-> Hu]|[-> Hu]]]; cbn [nat_result num_result Z.of_nat Pos.of_succ_nat Pos.succ Z.eqb Pos.eqb];
    rewrite ?c64_bits; unfold clear2; unwrap.
  - do 2 f_equal. lia.
  - do 3 f_equal. lia.
  - reflexivity.
Qed.

Theorem go_decodeZeroToOne_eq b : wf_bytes b ->
  go_decode_buffer_decodeZeroToOne b = num_result (dec_zero_to_one b).
Proof.
  intros W. unfold go_decode_buffer_decodeZeroToOne, dec_zero_to_one. rewrite go_decodeNatural_eq by exact W.
  destruct (dec_natural b) as [[u n]|] eqn:D; [|reflexivity].
  destruct (dec_natural_cases b u n W D) as [[-> Hu]|[[-> Hu]|[-> Hu]]]; cbn [nat_result num_result Z.of_nat Pos.of_succ_nat Pos.succ Z.eqb Pos.eqb];
    rewrite ?c120_bits, ?c15120_bits; unfold clear2; unwrap; reflexivity.
Qed.


(* ---------- the float encoders ---------- *)

Lemma ftrunc_exact x i : wf_f32 x -> exact_int F32 x = Some i -> ftrunc F32 x = Some i.
Proof.
  intros W. unfold ftrunc, exact_int. rewrite decode_fast32 by (unfold wf_f32 in W; lia).
  destruct (decode F32 x) as [| |s m e] eqn:D; try discriminate.
  pose proof (decode32_fin _ _ _ _ W D) as [Hm He].
  destruct (0 <=? e) eqn:E.
  - intros [= <-]. f_equal. f_equal. rewrite Z.shiftl_mul_pow2 by lia. reflexivity.
  - destruct (m mod 2 ^ (- e) =? 0); [|discriminate]. intros [= <-]. f_equal. f_equal.
    rewrite Z.shiftr_div_pow2 by lia. reflexivity.
Qed.

(* the encoder's test  u := uint32(g); float32(u) == g && u < B  decides "g is an integer in [0,B)" *)
Lemma short_test g B : wf_f32 g -> 0 < B <= 16384 ->
  let u := wrapu 32 (f2int 64 F32 g) in
  match in_range 0 B (exact_int F32 g) with
  | Some i => u = i /\ (feq F32 (of_Z F32 u) g && (u <? B)) = true
  | None => (feq F32 (of_Z F32 u) g && (u <? B)) = false
  end.
Proof.
  intros W HB u.
  destruct (in_range 0 B (exact_int F32 g)) as [i|] eqn:R.
  - apply in_range_some in R as [E Ri].
    assert (U : u = i).
    { unfold u, f2int. rewrite (ftrunc_exact g i W E). unfold wrapu. pows.
      replace ((- 2 ^ (64 - 1) <=? i) && (i <? 2 ^ (64 - 1))) with true; [lia|].
      change (2 ^ (64 - 1)) with 9223372036854775808. lia. }
    split; [exact U|]. rewrite U.
    assert (RS : real_short g = Some i).
    { unfold real_short. rewrite E. apply in_range_intro. lia. }
    destruct (real_exact g i [] W RS) as (_ & _ & Q). rewrite Q. cbn [andb]. lia.
  - destruct (feq F32 (of_Z F32 u) g && (u <? B)) eqn:T; [exfalso|reflexivity].
    apply andb_prop in T as [Q Lt].
    assert (Hu : 0 <= u < 16384) by (unfold u, wrapu in *; pows; lia).
    pose proof (good_int_spec _ _ _ (real_short_value u Hu)) as [Wg [Fg Ig]].
    pose proof (feq_finite_r _ _ Fg Q) as Fin.
    apply (feq_ival _ _ Wg W Fg Fin) in Q.
    assert (E : exact_int F32 g = Some u).
    { rewrite exact_int_is_scaled. apply ival_exact_int_scaled; try assumption; [lia|]. rewrite <- Q. exact Ig. }
    rewrite E in R. rewrite in_range_intro in R by lia. discriminate.
Qed.

Theorem go_encodeReal_eq b f : wf_f32 f ->
  go_encode_buffer_encodeReal b f = (b ++ enc_real f, Z.of_nat (length (enc_real f))).
Proof.
  intros W. unfold go_encode_buffer_encodeReal, enc_real, real_short.
  pose proof (short_test f 16384 W ltac:(lia)) as T. cbn zeta in T.
  destruct (in_range 0 16384 (exact_int F32 f)) as [i|] eqn:R.
  - destruct T as [U T]. rewrite T. rewrite U.
    apply in_range_some in R as [_ Ri]. unfold enc_short, le16. unwrap.
    destruct (i <? 128) eqn:E1; [cbn [length]; f_equal; f_equal; f_equal; lia|].
    lor_add. cbn [length]. f_equal. f_equal. repeat (f_equal; try lia).
  - rewrite T. rewrite go_encode4ByteReal_eq by exact W. reflexivity.
Qed.
Lemma wf_c15120 : wf_f32 c15120. Proof. vm_compute. split; congruence. Qed.

Theorem go_encodeZeroToOne_eq b f : wf_f32 f ->
  go_encode_buffer_encodeZeroToOne b f = (b ++ enc_zero_to_one f, Z.of_nat (length (enc_zero_to_one f))).
Proof.
  intros W. unfold go_encode_buffer_encodeZeroToOne, enc_zero_to_one, zto_short.
  rewrite <- c15120_bits.
  pose proof (short_test (fmul F32 f c15120) 15120 (fmul_wf32 _ _ W wf_c15120) ltac:(lia)) as T. cbn zeta in T.
  destruct (in_range 0 15120 (exact_int F32 (fmul F32 f c15120))) as [i|] eqn:R.
  - destruct T as [U T]. rewrite T. rewrite U.
    apply in_range_some in R as [_ Ri]. unfold le16. unwrap.
    destruct (i mod 126 =? 0) eqn:E1; [cbn [length]; f_equal; f_equal; f_equal; lia|].
    lor_add. cbn [length]. f_equal. f_equal. repeat (f_equal; try lia).
  - rewrite T. rewrite go_encode4ByteReal_eq by exact W. reflexivity.
Qed.

Theorem go_encodeAngle_eq b f : wf_f32 f ->
  go_encode_buffer_encodeAngle b f = (b ++ enc_angle f, Z.of_nat (length (enc_angle f))).
Proof.
  intros W. assert (Wn : wf_f32 (angle_norm f)).
  { unfold wf_f32, angle_norm. change 4294967296 with (2 ^ 32). apply f64_to_f32_range. }
  unfold go_encode_buffer_encodeAngle, enc_angle.
  change (f64_to_f32 (fsub F64 (f32_to_f64 f) (ffloor F64 (f32_to_f64 f)))) with (angle_norm f).
  apply go_encodeZeroToOne_eq. exact Wn.
Qed.

(* ---------- encodeCoordinate ---------- *)

Lemma ofZ_value i : -8192 <= i <= 8192 -> good_int 0 (of_Z F32 i) i = true.
Proof.
  intros H. pose proof sweep_ofZ_ok as S. rewrite forallb_forall in S.
  specialize (S (i + 8192)). replace (i + 8192 - 8192) with i in S by lia. apply S.
  apply zrange_in. rewrite Z2Nat.id by lia. lia.
Qed.

(* the encoder's test  i := int32(g); lo <= i && i < hi && float32(i) == g  decides "g is an integer in [lo,hi)" *)
Lemma int_test g lo hi : wf_f32 g -> -8192 <= lo -> hi <= 8192 ->
  let i := f2int 32 F32 g in
  match in_range lo hi (exact_int F32 g) with
  | Some j => i = j /\ (((lo <=? i) && (i <? hi)) && feq F32 (of_Z F32 i) g) = true
  | None => (((lo <=? i) && (i <? hi)) && feq F32 (of_Z F32 i) g) = false
  end.
Proof.
  intros W Hlo Hhi i.
  destruct (in_range lo hi (exact_int F32 g)) as [j|] eqn:R.
  - apply in_range_some in R as [E Rj].
    assert (U : i = j).
    { unfold i, f2int. rewrite (ftrunc_exact g j W E).
      change (2 ^ (32 - 1)) with 2147483648.
      match goal with |- (if ?c then _ else _) = _ => replace c with true by lia end. reflexivity. }
    split; [exact U|]. rewrite U.
    pose proof (good_int_spec _ _ _ (ofZ_value j ltac:(lia))) as [Wg [Fg Ig]].
    rewrite exact_int_is_scaled in E. apply exact_int_scaled_ival in E as [Ff Iv]; [|assumption|lia].
    assert (Q : feq F32 (of_Z F32 j) g = true) by (apply feq_ival; try assumption; lia).
    rewrite Q. lia.
  - destruct (((lo <=? i) && (i <? hi)) && feq F32 (of_Z F32 i) g) eqn:T; [exfalso|reflexivity].
    apply andb_prop in T as [Rg Q].
    assert (Hi : lo <= i < hi) by lia.
    pose proof (good_int_spec _ _ _ (ofZ_value i ltac:(lia))) as [Wg [Fg Ig]].
    pose proof (feq_finite_r _ _ Fg Q) as Fin.
    apply (feq_ival _ _ Wg W Fg Fin) in Q.
    assert (E : exact_int F32 g = Some i).
    { rewrite exact_int_is_scaled. apply ival_exact_int_scaled; try assumption; [lia|]. rewrite <- Q. exact Ig. }
    rewrite E in R. rewrite in_range_intro in R by lia. discriminate.
Qed.

Lemma in_range_mul64 f : wf_f32 f ->
  in_range (-8192) 8192 (exact_int F32 (fmul F32 f c64)) = coord_short2 f.
Proof.
  intros W. unfold coord_short2.
  destruct (in_range (-8192) 8192 (exact_int F32 (fmul F32 f c64))) as [i|] eqn:R1.
  - apply in_range_some in R1 as [E Ri]. apply (exact_mul64 f i W ltac:(lia)) in E.
    rewrite E. symmetry. apply in_range_intro. exact Ri.
  - destruct (in_range (-8192) 8192 (exact_int_scaled F32 6 f)) as [i|] eqn:R2; [|reflexivity].
    apply in_range_some in R2 as [E Ri]. apply (exact_mul64 f i W ltac:(lia)) in E.
    rewrite E in R1. rewrite in_range_intro in R1 by exact Ri. discriminate.
Qed.

Theorem go_encodeCoordinate_eq b f : wf_f32 f ->
  go_encode_buffer_encodeCoordinate b f = (b ++ enc_coordinate f, Z.of_nat (length (enc_coordinate f))).
Proof.
  intros W. unfold go_encode_buffer_encodeCoordinate, enc_coordinate, coord_short1.
  rewrite <- c64_bits.
  pose proof (int_test f (-64) 64 W ltac:(lia) ltac:(lia)) as T1. cbv zeta in T1.
  destruct (in_range (-64) 64 (exact_int F32 f)) as [i|] eqn:R1.
  - destruct T1 as [U T1]. rewrite T1. rewrite U.
    apply in_range_some in R1 as [_ Ri]. unwrap. cbn [length]. f_equal. f_equal. f_equal. lia.
  - rewrite T1.
    pose proof (int_test (fmul F32 f c64) (-8192) 8192 (fmul_wf32 _ _ W wf_c64) ltac:(lia) ltac:(lia)) as T2. cbv zeta in T2.
    rewrite (in_range_mul64 f W) in T2.
    destruct (coord_short2 f) as [i|] eqn:R2.
    + destruct T2 as [U T2]. rewrite T2. rewrite U.
      unfold coord_short2 in R2. apply in_range_some in R2 as [_ Ri]. unfold le16. unwrap.
      lor_add. cbn [length]. f_equal. f_equal. repeat (f_equal; try lia).
    + rewrite T2. rewrite go_encode4ByteReal_eq by exact W. reflexivity.
Qed.

(* ---------- decode.isNaNOrInfinity (the viewBox validity test's building block) ---------- *)

Lemma land_expo_mask f : 0 <= f -> Z.land f 2139095040 = ((f / 8388608) mod 256) * 8388608.
Proof.
  intros H. change 2139095040 with (Z.shiftl (Z.ones 8) 23).
  change 8388608 with (2 ^ 23). change 256 with (2 ^ 8).
  rewrite <- Z.shiftr_div_pow2, <- Z.land_ones, <- Z.shiftl_mul_pow2 by lia.
  apply Z.bits_inj'. intros k Hk.
  rewrite Z.land_spec. rewrite !Z.shiftl_spec by lia.
  destruct (Z.ltb_spec k 23) as [L|L].
  - rewrite !(Z.testbit_neg_r _ (k - 23)) by lia. apply andb_false_r.
  - rewrite Z.land_spec. rewrite Z.shiftr_spec by lia. replace (k - 23 + 23) with k by lia. reflexivity.
Qed.

Theorem go_isNaNOrInfinity_eq f : wf_f32 f -> go_decode_isNaNOrInfinity f = negb (is_finite F32 f).
Proof.
  unfold wf_f32. intros W. unfold go_decode_isNaNOrInfinity. rewrite land_expo_mask by lia.
  unfold is_finite, decode, expo_of, emax_field. change (prec F32 - 1) with 23. change (ebits F32) with 8.
  change (2 ^ 23) with 8388608. change (2 ^ 8) with 256.
  destruct ((f / 8388608) mod 256 =? 256 - 1) eqn:E.
  - destruct (mant_of F32 f =? 0); cbn [negb]; lia.
  - destruct ((f / 8388608) mod 256 =? 0); cbn [negb]; lia.
Qed.

(* ... which is the test the decoder model applies to each viewBox bound *)
Theorem go_isNaNOrInfinity_model f : wf_f32 f -> go_decode_isNaNOrInfinity f = Decoder.is_nan_or_inf f.
Proof.
  unfold wf_f32. intros W. unfold go_decode_isNaNOrInfinity, Decoder.is_nan_or_inf. rewrite land_expo_mask by lia.
  destruct ((f / 8388608) mod 256 =? 255) eqn:E; lia.
Qed.

(* ---------- Encoder.quantize: the guard ---------- *)
(* The translated quantize and the model take the same decision on when to quantise (low resolution and
   -128 <= coord < 128) and both leave every other coordinate untouched.  The quantised value itself is computed in
   float64 by the source and stated on exact integers by the model; that part is tied by the correspondence run only. *)
Lemma cm128_bits : cm128 = 3271557120. Proof. vm_compute. reflexivity. Qed.
Lemma c128_bits : c128 = 1124073472. Proof. vm_compute. reflexivity. Qed.

Theorem go_quantize_untouched hires f :
  (negb hires && fle F32 cm128 f && flt F32 f c128) = false ->
  go_encode_Encoder_quantize hires f = f /\ quantize hires f = f.
Proof.
  intros G. unfold go_encode_Encoder_quantize, quantize. rewrite <- cm128_bits, <- c128_bits.
  rewrite G. rewrite <- andb_assoc in G. rewrite G. split; reflexivity.
Qed.

(* ---------- Encoder.quantize: the quantised value (float64 chain of the source = the model's exact statement) ---------- *)
Theorem go_quantize_eq f : wf_f32 f -> fle F32 cm128 f = true -> flt F32 f c128 = true ->
  2 ^ 114 <= Z.abs (ival32 f) ->
  go_encode_Encoder_quantize false f = quantize false f.
Proof.
  intros W L1 L2 Hmag.
  destruct (quant_range f W L1 L2) as [Ff Hr].
  unfold is_finite in Ff. destruct (decode F32 f) as [| |s m e] eqn:D; try discriminate.
  pose proof (decode32_fin _ _ _ _ W D) as [Hm He].
  rewrite (ival32_fin _ _ _ _ D) in Hmag, Hr.
  assert (P0 : 0 < 2 ^ (e + 149)) by (apply Z.pow_pos_nonneg; lia).
  assert (Habs : Z.abs (sm s m * 2 ^ (e + 149)) = m * 2 ^ (e + 149)).
  { destruct s; unfold sm; [rewrite Z.mul_opp_l, Z.abs_opp|]; apply Z.abs_eq; nia. }
  rewrite Habs in Hmag.
  assert (Hup : m * 2 ^ (e + 149) <= 2 ^ 156).
  { change (2 ^ 156) with (128 * 2 ^ 149). destruct s; unfold sm in Hr; lia. }
  unfold go_encode_Encoder_quantize, quantize. rewrite <- cm128_bits, <- c128_bits, <- c64_bits.
  cbn [negb andb]. rewrite L1, L2. cbn [andb].
  rewrite (quant_chain f s m e W D (conj Hmag Hup)).
  unfold quant_k. rewrite (ival32_fin _ _ _ _ D). reflexivity.
Qed.

(* non-zero coordinates below 2^-35: the float64 sum is inexact, but floors to +0, which is the model's value *)
Theorem go_quantize_tiny f : wf_f32 f -> fle F32 cm128 f = true -> flt F32 f c128 = true ->
  0 < Z.abs (ival32 f) < 2 ^ 114 ->
  go_encode_Encoder_quantize false f = quantize false f.
Proof.
  intros W L1 L2 Hmag.
  destruct (quant_range f W L1 L2) as [Ff Hr].
  unfold is_finite in Ff. destruct (decode F32 f) as [| |s m e] eqn:D; try discriminate.
  pose proof (decode32_fin _ _ _ _ W D) as [Hm He].
  rewrite (ival32_fin _ _ _ _ D) in Hmag.
  assert (P0 : 0 < 2 ^ (e + 149)) by (apply Z.pow_pos_nonneg; lia).
  assert (Habs : Z.abs (sm s m * 2 ^ (e + 149)) = m * 2 ^ (e + 149)).
  { destruct s; unfold sm; [rewrite Z.mul_opp_l, Z.abs_opp|]; apply Z.abs_eq; nia. }
  rewrite Habs in Hmag.
  assert (Hm0 : 0 < m) by (destruct (Z.eq_dec m 0) as [Zm|Zm]; [rewrite Zm, Z.mul_0_l in Hmag; lia|lia]).
  unfold go_encode_Encoder_quantize, quantize. rewrite <- cm128_bits, <- c128_bits, <- c64_bits.
  cbn [negb andb]. rewrite L1, L2. cbn [andb].
  rewrite (quant_chain_tiny f s m e W D Hm0 (proj2 Hmag)).
  assert (K : quant_k f = 0).
  { unfold quant_k. rewrite (ival32_fin _ _ _ _ D). apply Z.div_small.
    set (I := m * 2 ^ (e + 149)) in *.
    assert (HI : sm s m * 2 ^ (e + 149) = sm s I) by (destruct s; unfold sm, I; lia). rewrite HI.
    change (2 ^ 149) with (2 ^ 148 * 2). change (2 ^ 114) with 20769187434139310514121985316880384 in Hmag.
    change (2 ^ 148) with 356811923176489970264571492362373784095686656.
    destruct s; unfold sm; lia. }
  rewrite K. reflexivity.
Qed.

(* a finite float32 whose value is zero is one of the two zeros *)
Lemma zero_bits32 f s e : wf_f32 f -> decode F32 f = FFin s 0 e -> f = 0 \/ f = 2147483648.
Proof.
  unfold wf_f32, decode, expo_of, mant_of, sign_of, emax_field, emin, F32. cbn [prec ebits].
  change (2 ^ (24 - 1)) with 8388608. change (2 ^ 8) with 256. change (2 ^ (8 - 1)) with 128.
  intros H.
  destruct (_ =? 256 - 1) eqn:E1; [destruct (_ =? 0); discriminate|].
  destruct ((f / 8388608) mod 256 =? 0) eqn:E2; intros K; inversion K; subst; lia.
Qed.

(* Encoder.quantize as written in the source = the model's quantize, for every float32 it quantises *)
Theorem go_quantize_all f : wf_f32 f -> fle F32 cm128 f = true -> flt F32 f c128 = true ->
  go_encode_Encoder_quantize false f = quantize false f.
Proof.
  intros W L1 L2.
  destruct (Z_lt_le_dec (Z.abs (ival32 f)) (2 ^ 114)) as [Hs|Hb]; [|apply go_quantize_eq; assumption].
  destruct (Z.eq_dec (ival32 f) 0) as [Hz|Hnz]; [|apply go_quantize_tiny; try assumption; lia].
  destruct (quant_range f W L1 L2) as [Ff _].
  unfold is_finite in Ff. destruct (decode F32 f) as [| |s m e] eqn:D; try discriminate.
  pose proof (decode32_fin _ _ _ _ W D) as [Hm He].
  rewrite (ival32_fin _ _ _ _ D) in Hz.
  assert (P0 : 0 < 2 ^ (e + 149)) by (apply Z.pow_pos_nonneg; lia).
  assert (Hm0 : m = 0) by (destruct s; unfold sm in Hz; nia).
  subst m. destruct (zero_bits32 f s e W D) as [->| ->]; vm_compute; reflexivity.
Qed.


(* GenEqRender.v — the Renderer's selector / LOD setters and its viewBox-to-pixel helpers (render/render.go),
   translated from the source with the receiver's fields as parameters: translated source = model *)
From Coq Require Import ZArith Bool List Lia ZifyBool.
From IVG Require Import SF NumCodec Color Calls Render Arc GoSem Tables GoSrc GenEqBase ColorProofs GenEqColor.
Ltac Zify.zify_post_hook ::= Z.div_mod_to_equations.
Import ListNotations.
Local Open Scope Z_scope.

Section RenderTie.
Variable arc : rstate f32 -> bool -> f32 -> f32 -> f32 -> bool -> bool -> f32 -> f32 -> rstate f32.
Variable s : rstate f32.

Theorem go_SetCSel_eq v : r_csel (rstep N32 arc s (CSetCSel v)) = go_render_Renderer_SetCSel (r_csel s) v.
Proof. first [reflexivity | cbn [rstep upd_regs r_csel]; cbv beta zeta delta [go_render_Renderer_SetCSel]; unwrap; lia]. Qed.
Theorem go_SetNSel_eq v : r_nsel (rstep N32 arc s (CSetNSel v)) = go_render_Renderer_SetNSel (r_nsel s) v.
Proof. first [reflexivity | cbn [rstep upd_regs r_nsel]; cbv beta zeta delta [go_render_Renderer_SetNSel]; unwrap; lia]. Qed.
Theorem go_SetLOD_eq a b :
  (r_lod0 (rstep N32 arc s (CSetLOD a b)), r_lod1 (rstep N32 arc s (CSetLOD a b))) =
  go_render_Renderer_SetLOD (r_lod0 s) (r_lod1 s) a b.
Proof. reflexivity. Qed.
End RenderTie.

Theorem go_CSel_eq (s : rstate f32) : go_render_Renderer_CSel (r_csel s) = r_csel s. Proof. reflexivity. Qed.
Theorem go_NSel_eq (s : rstate f32) : go_render_Renderer_NSel (r_nsel s) = r_nsel s. Proof. reflexivity. Qed.

Theorem go_absX_eq (s : rstate f32) x : go_render_Renderer_absX (r_bx s) (r_scx s) x = absX N32 s x.
Proof. reflexivity. Qed.
Theorem go_absY_eq (s : rstate f32) y : go_render_Renderer_absY (r_by s) (r_scy s) y = absY N32 s y.
Proof. reflexivity. Qed.
Theorem go_relX_eq (s : rstate f32) x : go_render_Renderer_relX (r_scx s) x = relX N32 s x.
Proof. reflexivity. Qed.
Theorem go_relY_eq (s : rstate f32) y : go_render_Renderer_relY (r_scy s) y = relY N32 s y.
Proof. reflexivity. Qed.
Theorem go_unabsX_eq (s : rstate f32) x : go_render_Renderer_unabsX (r_bx s) (r_scx s) x = unabsX N32 s x.
Proof. reflexivity. Qed.
Theorem go_unabsY_eq (s : rstate f32) y : go_render_Renderer_unabsY (r_by s) (r_scy s) y = unabsY N32 s y.
Proof. reflexivity. Qed.
Theorem go_absVec2_eq (s : rstate f32) x y :
  go_render_Renderer_absVec2 (r_bx s) (r_by s) (r_scx s) (r_scy s) x y = (absX N32 s x, absY N32 s y).
Proof. reflexivity. Qed.

(* ---------- register writes: addressed modulo 64 as selector minus ADJ, resolved when stored, post-increment ---------- *)

Lemma mod256_64 x : (x mod 256) mod 64 = x mod 64.
Proof. lia. Qed.

Section RegTie.
Variable arc : rstate f32 -> bool -> f32 -> f32 -> f32 -> bool -> bool -> f32 -> f32 -> rstate f32.
Variable s : rstate f32.

Theorem go_SetNReg_eq adj incr x :
  (r_nreg (rstep N32 arc s (CSetNReg adj incr x)), r_nsel (rstep N32 arc s (CSetNReg adj incr x))) =
  go_render_Renderer_SetNReg (r_nreg s) (r_nsel s) adj incr x.
Proof.
  cbn [rstep upd_regs r_nreg r_nsel]. unfold go_render_Renderer_SetNReg, go_list_set, set_at. unwrap.
  rewrite !mod256_64. destruct incr; reflexivity.
Qed.

Theorem go_SetCReg_eq adj incr c : wf_gcolor c -> wf_regs (r_pal s) -> wf_regs (r_creg s) ->
  (r_creg (rstep N32 arc s (CSetCReg adj incr (abs_color c))), r_csel (rstep N32 arc s (CSetCReg adj incr (abs_color c)))) =
  go_render_Renderer_SetCReg (r_creg s) (r_csel s) (r_pal s) adj incr c.
Proof.
  intros Wc Wp Wr. cbn [rstep upd_regs r_creg r_csel]. unfold go_render_Renderer_SetCReg, go_list_set, set_at. unwrap.
  rewrite !mod256_64. rewrite (go_Resolve_eq 6 c (r_pal s) (r_creg s) Wc Wp Wr). destruct incr; reflexivity.
Qed.
End RegTie.

(* GeomR.v — the renderer's geometry over the reals: every drawing call emits the SVG meaning of the
   operation, mapped by the affine map that takes the viewBox onto the target rectangle (C05). *)
From Coq Require Import Reals Lra ZArith Bool List.
From IVG Require Import SF NumCodec Color Calls Render SvgPath.
Import ListNotations.
Local Open Scope R_scope.

(* the real-number instance of the renderer's arithmetic; inj gives the real value of a float32 *)
Definition NR (inj : f32 -> R) : numops R := mkNum R Rplus Rminus Rmult Rdiv Ropp inj IZR.

Section Geom.
Context (inj : f32 -> R) (inj0 : inj 0%Z = 0).
Let N := NR inj.
Definition SR := rstate R.

(* the affine map of a renderer state *)
Definition Amap (s : SR) (p : pt) : pt := (r_scx s * (fst p + r_bx s), r_scy s * (snd p + r_by s)).

Definition seg_call (s : SR) (g : seg) : rcall R :=
  match g with
  | SMove p => RMoveTo (fst (Amap s p)) (snd (Amap s p))
  | SLine p => RLineTo (fst (Amap s p)) (snd (Amap s p))
  | SQuad c p => RQuadTo (fst (Amap s c)) (snd (Amap s c)) (fst (Amap s p)) (snd (Amap s p))
  | SCube c1 c2 p => RCubeTo (fst (Amap s c1)) (snd (Amap s c1)) (fst (Amap s c2)) (snd (Amap s c2)) (fst (Amap s p)) (snd (Amap s p))
  | SClose => RClose
  end.

Definition kind_code (k : ckind) : Z := match k with KNone => 0%Z | KQuad => 1%Z | KCube => 2%Z end.

(* the renderer state s represents the abstract path state st *)
Definition repr (s : SR) (st : pstate) : Prop :=
  r_disabled s = false /\
  (z_penx s, z_peny s) = Amap s (p_pen st) /\
  (z_firstx s, z_firsty s) = Amap s (p_start st) /\
  r_pst s = kind_code (p_kind st) /\
  (p_kind st <> KNone -> (r_psx s, r_psy s) = Amap s (p_ctrl st)).

Definition same_map (s s2 : SR) : Prop :=
  r_scx s2 = r_scx s /\ r_bx s2 = r_bx s /\ r_scy s2 = r_scy s /\ r_by s2 = r_by s.

Definition is_path_op (op : Z) : bool :=
  existsb (Z.eqb op) [opL; opl; opH; oph; opV; opv; opQ; opq; opT; opt; opC; opc; opS; ops; opY; opy].

Ltac pair_eq := f_equal; cbn [fst snd]; lra.

Lemma pair_inj (a b c d : R) : (a, b) = (c, d) -> a = c /\ b = d.
Proof. intros H; inversion H; auto. Qed.

Definition step_ok (s : SR) (st : pstate) (op : Z) (a : list f32) : Prop :=
  let s2 := rdraw N s op a in
  let '(st2, segs) := svg_step st op (map inj a) in
  r_log s2 = r_log s ++ map (seg_call s) segs /\ repr s2 st2 /\ same_map s s2 /\
  r_x0 s2 = r_x0 s /\ r_y0 s2 = r_y0 s /\ r_w s2 = r_w s /\ r_h s2 = r_h s /\ r_paint s2 = r_paint s.

Ltac solve_verb :=
  intros s st a (D & Pen & First & Kd & Ctl);
  apply pair_inj in Pen as [Px Py]; apply pair_inj in First as [Fx Fy];
  assert (G : forall i, nth i (map inj a) 0 = inj (nth i a 0%Z)) by (intros i; rewrite <- inj0; apply map_nth);
  unfold step_ok, rdraw; rewrite D;
  unfold svg_step; cbn [Z.eqb Pos.eqb opL opl opH oph opV opv opQ opq opT opt opC opc opS ops opY opy];
  cbv beta iota zeta;
  rewrite ?G;
  unfold smooth_pt, smQuad, smCube, smNone; rewrite ?Kd;
  try (destruct (p_kind st) eqn:Ek; cbn [kind_code Z.eqb Pos.eqb negb]; cbv beta iota zeta);
  unfold repr, same_map, emit_keep, emit, Amap, seg_call, reflect, padd, absX, absY, relVX, relVY, relX, relY, f, two, N, NR;
  cbn [n_add n_sub n_mul n_div n_neg n_of32 n_ofZ r_x0 r_y0 r_w r_h r_scx r_bx r_scy r_by r_vb r_pal r_lod0 r_lod1 r_csel r_nsel
       r_disabled r_pst r_psx r_psy r_paint r_creg r_nreg z_penx z_peny z_firstx z_firsty r_log
       p_pen p_start p_kind p_ctrl fst snd map app kind_code];
  try (let C := fresh "C" in
       assert (C : (r_psx s, r_psy s) = Amap s (p_ctrl st)) by (apply Ctl; congruence);
       apply pair_inj in C; destruct C as [C1 C2]; unfold Amap in C1, C2; cbn [fst snd] in C1, C2;
       rewrite ?C1, ?C2);
  unfold Amap in *; cbn [fst snd] in *;
  repeat split; try reflexivity; try (intros; discriminate); try congruence;
  try (f_equal; first [rewrite Px|rewrite Py|rewrite Fx|rewrite Fy|idtac]; lra);
  try (f_equal; f_equal; lra);
  try (intros _; f_equal; lra);
  rewrite <- ?app_assoc; cbn [app];
  rewrite ?Px, ?Py, ?Fx, ?Fy;
  try (f_equal; f_equal; f_equal; ring);
  try (f_equal; f_equal; f_equal; f_equal; ring).

Lemma step_opL : forall s st a, repr s st -> step_ok s st opL a.
Proof. solve_verb. Qed.
Lemma step_opl : forall s st a, repr s st -> step_ok s st opl a.
Proof. solve_verb. Qed.
Lemma step_opH : forall s st a, repr s st -> step_ok s st opH a.
Proof. solve_verb. Qed.
Lemma step_oph : forall s st a, repr s st -> step_ok s st oph a.
Proof. solve_verb. Qed.
Lemma step_opV : forall s st a, repr s st -> step_ok s st opV a.
Proof. solve_verb. Qed.
Lemma step_opv : forall s st a, repr s st -> step_ok s st opv a.
Proof. solve_verb. Qed.
Lemma step_opQ : forall s st a, repr s st -> step_ok s st opQ a.
Proof. solve_verb. Qed.
Lemma step_opq : forall s st a, repr s st -> step_ok s st opq a.
Proof. solve_verb. Qed.
Lemma step_opT : forall s st a, repr s st -> step_ok s st opT a.
Proof. solve_verb. Qed.
Lemma step_opt : forall s st a, repr s st -> step_ok s st opt a.
Proof. solve_verb. Qed.
Lemma step_opC : forall s st a, repr s st -> step_ok s st opC a.
Proof. solve_verb. Qed.
Lemma step_opc : forall s st a, repr s st -> step_ok s st opc a.
Proof. solve_verb. Qed.
Lemma step_opS : forall s st a, repr s st -> step_ok s st opS a.
Proof. solve_verb. Qed.
Lemma step_ops : forall s st a, repr s st -> step_ok s st ops a.
Proof. solve_verb. Qed.
Lemma step_opY : forall s st a, repr s st -> step_ok s st opY a.
Proof. solve_verb. Qed.
Lemma step_opy : forall s st a, repr s st -> step_ok s st opy a.
Proof. solve_verb. Qed.

Theorem draw_step (s : SR) (st : pstate) (op : Z) (a : list f32) :
  repr s st -> is_path_op op = true -> step_ok s st op a.
Proof.
  intros R Op. unfold is_path_op in Op. cbn [existsb] in Op.
  repeat match type of Op with
         | (Z.eqb op ?k || _)%bool = true =>
             let E := fresh "E" in
             destruct (Z.eqb op k) eqn:E; [apply Z.eqb_eq in E; subst op; clear Op|cbn [orb] in Op]
         | false = true => discriminate Op
         end.
  - apply step_opL; exact R.
  - apply step_opl; exact R.
  - apply step_opH; exact R.
  - apply step_oph; exact R.
  - apply step_opV; exact R.
  - apply step_opv; exact R.
  - apply step_opQ; exact R.
  - apply step_opq; exact R.
  - apply step_opT; exact R.
  - apply step_opt; exact R.
  - apply step_opC; exact R.
  - apply step_opc; exact R.
  - apply step_opS; exact R.
  - apply step_ops; exact R.
  - apply step_opY; exact R.
  - apply step_opy; exact R.
Qed.

Lemma amap_same s s2 p : same_map s s2 -> Amap s2 p = Amap s p.
Proof. intros (A & B & C & D). unfold Amap. rewrite A, B, C, D. reflexivity. Qed.

Lemma seg_call_same s s2 g : same_map s s2 -> seg_call s2 g = seg_call s g.
Proof. intros H. destruct g; unfold seg_call; rewrite ?(amap_same s s2 _ H); reflexivity. Qed.

(* a run of drawing calls inside an enabled path *)
Theorem draw_run ops : forall (s : SR) (st : pstate),
  repr s st -> forallb (fun o => is_path_op (fst o)) ops = true ->
  let s2 := fold_left (fun s o => rdraw N s (fst o) (snd o)) ops s in
  let '(st2, segs) := svg_run st (map (fun o => (fst o, map inj (snd o))) ops) in
  r_log s2 = r_log s ++ map (seg_call s) segs /\ repr s2 st2 /\ same_map s s2 /\
  r_x0 s2 = r_x0 s /\ r_y0 s2 = r_y0 s /\ r_w s2 = r_w s /\ r_h s2 = r_h s /\ r_paint s2 = r_paint s.
Proof.
  induction ops as [|[op a] r IH]; intros s st Rp W.
  - cbn. rewrite app_nil_r. split; [reflexivity|]. split; [exact Rp|]. unfold same_map. auto 10.
  - cbn [forallb fst] in W. apply andb_prop in W as [W1 W2].
    cbn [fold_left map fst snd svg_run].
    pose proof (draw_step s st op a Rp W1) as H1. unfold step_ok in H1. cbv zeta in H1.
    destruct (svg_step st op (map inj a)) as [st1 sg1].
    destruct H1 as (L1 & R1 & M1 & X0 & Y0 & Wd & Hd & Pa).
    specialize (IH (rdraw N s op a) st1 R1 W2). cbv zeta in IH.
    destruct (svg_run st1 _) as [st2 sg2].
    destruct IH as (L2 & R2 & M2 & X2 & Y2 & W2' & H2 & P2).
    rewrite L2, L1, map_app, <- app_assoc.
    assert (E : map (seg_call (rdraw N s op a)) sg2 = map (seg_call s) sg2).
    { apply map_ext. intros g. apply seg_call_same. exact M1. }
    rewrite E. split; [reflexivity|]. split; [exact R2|].
    destruct M1 as (A1 & B1 & C1 & D1); destruct M2 as (A2 & B2 & C2 & D2).
    unfold same_map. repeat split; congruence.
Qed.

(* the whole of a drawn path: Reset, move to the mapped start, the mapped segments, close, draw over the rectangle *)
Theorem geometry (s : SR) (x y : f32) (ops : list (Z * list f32)) :
  r_disabled s = false ->
  forallb (fun o => is_path_op (fst o)) ops = true ->
  let s1 := emit_keep N (emit N s (RReset (r_w s) (r_h s)) 0%Z (r_psx s) (r_psy s))
                      (RMoveTo (absX N s (inj x)) (absY N s (inj y))) in
  let s2 := fold_left (fun s o => rdraw N s (fst o) (snd o)) ops s1 in
  r_log (end_path N s2) =
  r_log s ++ RReset (r_w s) (r_h s)
    :: map (seg_call s) (svg_path (inj x, inj y) (map (fun o => (fst o, map inj (snd o))) ops))
    ++ [RDraw (r_x0 s) (r_y0 s) (r_x0 s + r_w s)%Z (r_y0 s + r_h s)%Z (r_paint s)].
Proof.
  intros D W. cbv zeta.
  set (s1 := emit_keep N (emit N s (RReset (r_w s) (r_h s)) 0%Z (r_psx s) (r_psy s)) (RMoveTo (absX N s (inj x)) (absY N s (inj y)))).
  assert (R1 : repr s1 (mkP (inj x, inj y) (inj x, inj y) KNone (inj x, inj y))).
  { unfold repr, s1, emit_keep, emit, Amap, absX, absY, N, NR. cbn. rewrite D. repeat split; try reflexivity. intros H; contradiction. }
  assert (M1 : same_map s s1) by (unfold same_map, s1, emit_keep, emit; cbn; auto).
  pose proof (draw_run ops s1 _ R1 W) as H. cbv zeta in H.
  unfold svg_path.
  destruct (svg_run _ _) as [st2 segs]. destruct H as (L2 & R2 & M2 & X2 & Y2 & W2 & H2 & P2).
  destruct R2 as (D2 & _). unfold end_path. rewrite D2. unfold emit_keep at 1 2. unfold emit. cbn [r_log].
  rewrite L2. unfold s1 at 1. unfold emit_keep, emit. cbn [r_log].
  cbn [map snd]. rewrite map_app. cbn [map seg_call].
  assert (E : map (seg_call s1) segs = map (seg_call s) segs).
  { apply map_ext. intros g. apply seg_call_same. exact M1. }
  rewrite E, X2, Y2, W2, H2, P2.
  unfold s1, emit_keep, emit, Amap, absX, absY, N, NR. cbn.
  rewrite <- !app_assoc. cbn [app]. reflexivity.
Qed.

(* the affine map takes the viewBox onto the target rectangle (independent x and y scale) *)
Theorem amap_corners (s : SR) vb pal : inj (vmaxx vb) <> inj (vminx vb) -> inj (vmaxy vb) <> inj (vminy vb) ->
  let s1 := rreset N s vb pal in
  Amap s1 (inj (vminx vb), inj (vminy vb)) = (0, 0) /\
  Amap s1 (inj (vmaxx vb), inj (vmaxy vb)) = (IZR (r_w s), IZR (r_h s)).
Proof.
  intros Hx Hy. unfold rreset, Amap, N, NR. cbn. split; f_equal; field; lra.
Qed.
End Geom.

(* GradGeomR.v — the generator's gradient helpers over the reals realise the requested geometry (C19),
   and the discrete facts about SetGradient. *)
From Coq Require Import Reals Lra ZArith Bool List Lia.
From IVG Require Import SF NumCodec Color Calls Generator VMSpec.
Import ListNotations.

Section RealGeometry.
Local Open Scope R_scope.

Definition GR : genops R := mkGenOps R Rplus Rminus Rmult Rdiv Ropp 0 1 (fun x => / sqrt x).

(* apply a 2x3 matrix *)
Definition apply (m : list R) (x y : R) : R * R :=
  (nth 0 m 0 * x + nth 1 m 0 * y + nth 2 m 0, nth 3 m 0 * x + nth 4 m 0 * y + nth 5 m 0).

(* linear: offset 0 at (x1,y1), 1 at (x2,y2), constant along perpendiculars to the axis *)
Theorem linear_geometry x1 y1 x2 y2 : (x2 - x1) * (x2 - x1) + (y2 - y1) * (y2 - y1) <> 0 ->
  let m := linear_matrix_gen GR x1 y1 x2 y2 in
  fst (apply m x1 y1) = 0 /\ fst (apply m x2 y2) = 1 /\
  forall x y t, fst (apply m (x - t * (y2 - y1)) (y + t * (x2 - x1))) = fst (apply m x y).
Proof.
  intros D. unfold linear_matrix_gen, apply, GR. cbn [o_add o_sub o_mul o_div o_neg o_zero o_one nth fst].
  repeat split; intros; field; exact D.
Qed.

(* circular: 0 at the centre, 1 on the circle through centre + radius vector *)
Theorem circular_geometry cx cy rx ry : 0 < rx * rx + ry * ry ->
  let m := circular_matrix_gen GR cx cy rx ry in
  apply m cx cy = (0, 0) /\
  let '(gx, gy) := apply m (cx + rx) (cy + ry) in gx * gx + gy * gy = 1.
Proof.
  intros D. unfold circular_matrix_gen, apply, GR. cbn [o_add o_sub o_mul o_div o_neg o_zero o_one o_invsqrt nth fst snd].
  set (r2 := rx * rx + ry * ry) in *. assert (S : 0 < sqrt r2) by (apply sqrt_lt_R0; exact D).
  split.
  - f_equal; field; lra.
  - set (i := / sqrt r2).
    assert (Hi : i * i * r2 = 1).
    { unfold i. rewrite <- Rinv_mult. rewrite sqrt_sqrt by lra. apply Rinv_l. lra. }
    replace ((i * (cx + rx) + 0 * (cy + ry) + - cx * i) * (i * (cx + rx) + 0 * (cy + ry) + - cx * i) +
             (0 * (cx + rx) + i * (cy + ry) + - cy * i) * (0 * (cx + rx) + i * (cy + ry) + - cy * i))
      with (i * i * r2) by (unfold r2; ring).
    exact Hi.
Qed.

(* elliptical: the two axis end points map to (1,0) and (0,1), the centre to the origin *)
Theorem elliptical_geometry cx cy rx ry sx sy : rx * sy - sx * ry <> 0 ->
  let m := elliptical_matrix_gen GR cx cy rx ry sx sy in
  apply m cx cy = (0, 0) /\ apply m (cx + rx) (cy + ry) = (1, 0) /\ apply m (cx + sx) (cy + sy) = (0, 1).
Proof.
  intros D. unfold elliptical_matrix_gen, apply, GR. cbn [o_add o_sub o_mul o_div o_neg o_zero o_one nth fst snd].
  repeat split; f_equal; field; exact D.
Qed.
End RealGeometry.

Local Open Scope Z_scope.
Ltac Zify.zify_post_hook ::= Z.div_mod_to_equations.

(* ---- SetGradient: rejections happen before anything is written ---- *)
Theorem too_many_stops csel nsel sh sp stops tr : (58 < length stops)%nat ->
  set_gradient csel nsel sh sp stops tr = inl GTooManyStops.
Proof.
  intros L. unfold set_gradient. replace (58 <? Z.of_nat (length stops)) with true by lia. reflexivity.
Qed.

Theorem csel_in_stop_range csel nsel sh sp stops tr : (length stops <= 58)%nat -> 0 <= csel < 64 ->
  (exists i, 0 <= i < Z.of_nat (length stops) /\ (10 + i) mod 64 = csel) ->
  set_gradient csel nsel sh sp stops tr = inl GCSelUsed.
Proof.
  intros L C (i & Hi & E). unfold set_gradient. replace (58 <? Z.of_nat (length stops)) with false by lia.
  set (n := Z.of_nat (length stops)) in *.
  replace (csel mod 256) with csel by lia. replace ((csel + 64) mod 256) with (csel + 64) by lia.
  assert (K : ((10 <=? csel) && (csel <? 10 + n) || (10 <=? csel + 64) && (csel + 64 <? 10 + n)) = true).
  { assert (10 + i < 64 \/ 64 <= 10 + i) as [A|A] by lia; [assert (csel = 10 + i) by lia|assert (csel = 10 + i - 64) by lia]; lia. }
  rewrite K. reflexivity.
Qed.

Theorem accepted_writes csel nsel sh sp stops tr : (length stops <= 58)%nat -> 0 <= csel < 64 ->
  (forall i, 0 <= i < Z.of_nat (length stops) -> (10 + i) mod 64 <> csel) ->
  exists calls, set_gradient csel nsel sh sp stops tr = inr calls /\
    (* the gradient value goes to CREG[CSEL] and names exactly the registers used *)
    hd_error calls = Some (CSetCReg 0 false (CRGBA (encode_gradient 10 10 sh sp (Z.of_nat (length stops))))) /\
    (* the selectors are left as they were *)
    (exists mid, calls = mid ++ [CSetCSel csel; CSetNSel nsel]) /\
    length calls = (3 + Nat.min 6 (length tr) + 2 * length stops + 2)%nat.
Proof.
  intros L C N. unfold set_gradient. replace (58 <? Z.of_nat (length stops)) with false by lia.
  set (n := Z.of_nat (length stops)) in *.
  replace (csel mod 256) with csel by lia. replace ((csel + 64) mod 256) with (csel + 64) by lia.
  assert (K : ((10 <=? csel) && (csel <? 10 + n) || (10 <=? csel + 64) && (csel + 64 <? 10 + n)) = false).
  { destruct ((10 <=? csel) && (csel <? 10 + n)) eqn:A.
    - exfalso. apply (N (csel - 10)); lia.
    - destruct ((10 <=? csel + 64) && (csel + 64 <? 10 + n)) eqn:B; [|reflexivity].
      exfalso. apply (N (csel + 54)); lia. }
  rewrite K. eexists. split; [reflexivity|]. split; [reflexivity|]. split.
  - eexists. rewrite !app_assoc. reflexivity.
  - rewrite !app_length, map_length, combine_length, seq_length. cbn [length].
    assert (F : forall l : list genstop, length (flat_map (fun s => [CSetCReg 0 true (CRGBA (gs_color s)); CSetNReg 0 true (gs_offset s)]) l) = (2 * length l)%nat).
    { induction l as [|a l IH]; [reflexivity|]. cbn [flat_map app length]. rewrite IH. lia. }
    rewrite F. lia.
Qed.

(* ---- the register layout SetGradient produces, on the specification's machine ---- *)
Definition vm_run (m : vm) (l : list call) : vm := fold_left vm_step l m.

Definition stop_calls (stops : list genstop) : list call :=
  flat_map (fun s => [CSetCReg 0 true (CRGBA (gs_color s)); CSetNReg 0 true (gs_offset s)]) stops.

Lemma stops_run stops : forall m k k',
  (length stops <= 64)%nat -> v_csel m = k mod 64 -> v_nsel m = k' mod 64 ->
  let m' := vm_run m (stop_calls stops) in
  let n := Z.of_nat (length stops) in
  v_csel m' = (k + n) mod 64 /\ v_nsel m' = (k' + n) mod 64 /\
  (forall j, (j < length stops)%nat ->
     v_creg m' (k + Z.of_nat j) = gs_color (nth j stops (mkGS 0 (mkRGBA 0 0 0 0))) /\
     v_nreg m' (k' + Z.of_nat j) = gs_offset (nth j stops (mkGS 0 (mkRGBA 0 0 0 0)))) /\
  (forall idx, (forall j, 0 <= j < n -> (k + j) mod 64 <> idx mod 64) -> v_creg m' idx = v_creg m idx) /\
  (forall idx, (forall j, 0 <= j < n -> (k' + j) mod 64 <> idx mod 64) -> v_nreg m' idx = v_nreg m idx) /\
  v_lod0 m' = v_lod0 m /\ v_lod1 m' = v_lod1 m /\ (forall i, v_pal m' i = v_pal m i).
Proof.
  induction stops as [|s r IH]; intros m k k' L Hc Hn; cbv zeta.
  - cbn [length vm_run stop_calls flat_map fold_left Z.of_nat]. rewrite !Z.add_0_r.
    split; [exact Hc|]. split; [exact Hn|]. split; [intros j0 H0; cbn in H0; lia|].
    split; [intros; reflexivity|]. split; [intros; reflexivity|]. split; [reflexivity|]. split; [reflexivity|intros; reflexivity].
  - cbn [length] in L. unfold vm_run, stop_calls. cbn [flat_map app fold_left].
    set (m1 := vm_step (vm_step m (CSetCReg 0 true (CRGBA (gs_color s)))) (CSetNReg 0 true (gs_offset s))).
    assert (C1 : v_csel m1 = (k + 1) mod 64) by (unfold m1; cbn; rewrite Hc; lia).
    assert (N1 : v_nsel m1 = (k' + 1) mod 64) by (unfold m1; cbn; rewrite Hn; lia).
    assert (Lr : (length r <= 64)%nat) by lia.
    specialize (IH m1 (k + 1) (k' + 1) Lr C1 N1). cbv zeta in IH. unfold vm_run, stop_calls in IH.
    destruct IH as (A1 & A2 & A3 & A4 & A5 & A6 & A7 & A8).
    assert (R1c : forall idx, v_creg m1 idx = if idx mod 64 =? k mod 64 then gs_color s else v_creg m idx).
    { intros idx. unfold m1. cbn. unfold upd. rewrite Hc, Z.sub_0_r. replace ((k mod 64) mod 64) with (k mod 64) by lia. reflexivity. }
    assert (R1n : forall idx, v_nreg m1 idx = if idx mod 64 =? k' mod 64 then gs_offset s else v_nreg m idx).
    { intros idx. unfold m1. cbn. unfold upd. rewrite Hn, Z.sub_0_r. replace ((k' mod 64) mod 64) with (k' mod 64) by lia. reflexivity. }
    cbn [length]. rewrite Nat2Z.inj_succ.
    split; [rewrite A1; f_equal; lia|]. split; [rewrite A2; f_equal; lia|]. split.
    + intros j Hj. destruct j as [|j].
      * cbn [nth]. rewrite !Z.add_0_r. split.
        -- rewrite A4; [rewrite R1c; replace (k mod 64 =? k mod 64) with true by lia; reflexivity|].
           intros j0 Hj0. lia.
        -- rewrite A5; [rewrite R1n; replace (k' mod 64 =? k' mod 64) with true by lia; reflexivity|].
           intros j0 Hj0. lia.
      * cbn [nth]. destruct (A3 j ltac:(lia)) as [B1 B2]. split.
        -- rewrite <- B1. f_equal. lia.
        -- rewrite <- B2. f_equal. lia.
    + split; [|split; [|split; [|split]]].
      * intros idx H. rewrite A4; [rewrite R1c; replace (idx mod 64 =? k mod 64) with false; [reflexivity|]|].
        -- specialize (H 0 ltac:(lia)). rewrite Z.add_0_r in H. lia.
        -- intros j Hj. specialize (H (j + 1) ltac:(lia)). replace (k + (j + 1)) with (k + 1 + j) in H by lia. exact H.
      * intros idx H. rewrite A5; [rewrite R1n; replace (idx mod 64 =? k' mod 64) with false; [reflexivity|]|].
        -- specialize (H 0 ltac:(lia)). rewrite Z.add_0_r in H. lia.
        -- intros j Hj. specialize (H (j + 1) ltac:(lia)). replace (k' + (j + 1)) with (k' + 1 + j) in H by lia. exact H.
      * rewrite A6. reflexivity.
      * rewrite A7. reflexivity.
      * intros i. rewrite A8. reflexivity.
Qed.

(* the whole of an accepted SetGradient, run on the specification's machine *)
Theorem gradient_layout m sh sp stops (tr : list f32) :
  let csel := v_csel m in let nsel := v_nsel m in
  0 <= csel < 64 -> 0 <= nsel < 64 -> (length stops <= 58)%nat -> length tr = 6%nat ->
  (forall i, 0 <= i < Z.of_nat (length stops) -> (10 + i) mod 64 <> csel) ->
  exists calls, set_gradient csel nsel sh sp stops tr = inr calls /\
  let m' := vm_run m calls in
  let n := Z.of_nat (length stops) in
  (* CSEL and NSEL are left as they were *)
  v_csel m' = csel /\ v_nsel m' = nsel /\
  (* the gradient value is in CREG[CSEL] and names CBASE = NBASE = 10, the stop count, shape and spread *)
  v_creg m' csel = encode_gradient 10 10 sh sp n /\
  (* stop i: colour in CREG[10+i], offset in NREG[10+i] (indices modulo 64) *)
  (forall j, (j < length stops)%nat ->
     v_creg m' (10 + Z.of_nat j) = gs_color (nth j stops (mkGS 0 (mkRGBA 0 0 0 0))) /\
     v_nreg m' (10 + Z.of_nat j) = gs_offset (nth j stops (mkGS 0 (mkRGBA 0 0 0 0)))) /\
  (* the matrix in the six number registers below NBASE *)
  (forall k, (k < 6)%nat -> v_nreg m' (4 + Z.of_nat k) = nth k tr 0).
Proof.
  intros csel nsel C N L T Hn.
  assert (K : forall csel0, csel0 = csel ->
     ((10 <=? csel0 mod 256) && (csel0 mod 256 <? 10 + Z.of_nat (length stops)) || (10 <=? (csel0 + 64) mod 256) && ((csel0 + 64) mod 256 <? 10 + Z.of_nat (length stops))) = false).
  { intros c0 ->. replace (csel mod 256) with csel by lia. replace ((csel + 64) mod 256) with (csel + 64) by lia.
    destruct ((10 <=? csel) && (csel <? 10 + Z.of_nat (length stops))) eqn:A.
    - exfalso. apply (Hn (csel - 10)); lia.
    - destruct ((10 <=? csel + 64) && (csel + 64 <? 10 + Z.of_nat (length stops))) eqn:B; [|reflexivity].
      exfalso. apply (Hn (csel + 54)); lia. }
  unfold set_gradient. replace (58 <? Z.of_nat (length stops)) with false by lia. rewrite (K csel eq_refl).
  eexists. split; [reflexivity|]. cbv zeta.
  destruct tr as [|t0 [|t1 [|t2 [|t3 [|t4 [|t5 [|? ?]]]]]]]; try discriminate T.
  unfold vm_run. rewrite !fold_left_app. cbn [fold_left seq combine map app].
  (* the machine after the gradient value, the selectors and the six matrix registers *)
  set (m0 := vm_step (vm_step (vm_step (vm_step (vm_step (vm_step (vm_step (vm_step (vm_step m _) _) _) _) _) _) _) _) _).
  assert (C0 : v_csel m0 = 10 mod 64) by reflexivity.
  assert (N0 : v_nsel m0 = 10 mod 64) by reflexivity.
  pose proof (stops_run stops m0 10 10 ltac:(lia) C0 N0) as S. cbv zeta in S.
  unfold vm_run, stop_calls in S. destruct S as (S1 & S2 & S3 & S4 & S5 & S6 & S7 & S8).
  set (m1 := fold_left vm_step (flat_map _ stops) m0) in *.
  cbn [fold_left vm_step v_csel v_nsel v_creg v_nreg].
  replace (csel mod 64) with csel by lia. replace (nsel mod 64) with nsel by lia.
  split; [reflexivity|]. split; [reflexivity|]. split.
  - rewrite S4.
    + unfold m0. cbn [vm_step v_creg v_csel]. unfold upd. fold csel. rewrite Z.sub_0_r.
      replace (csel mod 64 =? csel mod 64) with true by lia. reflexivity.
    + intros j Hj. specialize (Hn j Hj). lia.
  - split; [exact S3|].
    intros k Hk. rewrite S5.
    + unfold m0. cbn [vm_step v_nreg v_nsel]. unfold upd.
      assert (k = 0 \/ k = 1 \/ k = 2 \/ k = 3 \/ k = 4 \/ k = 5)%nat as [->|[->|[->|[->|[->| ->]]]]] by lia; reflexivity.
    + intros j Hj. assert (0 <= Z.of_nat k < 6) by lia. lia.
Qed.

(* Grammar.v — the decoder accepts exactly the strings of the FFV0 grammar (spec/FFV0.v) and delivers exactly
   the operations the grammar assigns (C03). *)
From Coq Require Import ZArith Bool List Lia ZifyBool.
From IVG Require Import SF NumCodec Color Calls Decoder NumBase NumProofs ColorProofs DecProofs RoundTrip MetaRT Transcode FFV0.
Import ListNotations.
Local Open Scope Z_scope.
Ltac Zify.zify_post_hook ::= Z.div_mod_to_equations.
Local Opaque Z.mul Z.add Z.div Z.modulo Z.pow.

(* rewrite with an equation whose left side is f a (b) up to the byte/Z and f32/Z aliases *)
Ltac rwc H :=
  match type of H with
  | ?f ?a ?b = _ => match goal with |- context [f ?a' ?b'] => change (f a' b') with (f a b); rewrite H end
  | ?f ?a = _ => match goal with |- context [f ?a'] => change (f a') with (f a); rewrite H end
  end.

Lemma firstn_app_len {A} (a b : list A) : firstn (length a) (a ++ b) = a.
Proof. rewrite firstn_app, Nat.sub_diag, firstn_all. cbn [firstn]. apply app_nil_r. Qed.

(* ---------- numbers ---------- *)
Lemma nat_sound b u n : dec_natural b = Some (u, n) -> nat_enc (firstn n b) u /\ length (firstn n b) = n.
Proof.
  unfold dec_natural. destruct b as [|x r]; [discriminate|].
  destruct (x mod 2 =? 0) eqn:E1.
  - intros [= <- <-]. cbn [firstn length]. split; [apply NE1; lia|reflexivity].
  - destruct ((x / 2) mod 2 =? 0) eqn:E2.
    + destruct r as [|y r]; [discriminate|]. intros [= <- <-]. cbn [firstn length]. split; [apply NE2; lia|reflexivity].
    + destruct r as [|y [|z [|w r]]]; try discriminate. intros [= <- <-]. cbn [firstn length]. split; [apply NE4; lia|reflexivity].
Qed.

Lemma nat_complete bs u rest : nat_enc bs u -> dec_natural (bs ++ rest) = Some (u, length bs).
Proof.
  intros H. destruct H as [x H|x y H|x y z w H]; cbn [app dec_natural length].
  - assert (x mod 2 =? 0 = true) as -> by lia. reflexivity.
  - assert (x mod 2 =? 0 = false) as -> by lia. assert ((x / 2) mod 2 =? 0 = true) as -> by lia. reflexivity.
  - assert (x mod 2 =? 0 = false) as -> by lia. assert ((x / 2) mod 2 =? 0 = false) as -> by lia. reflexivity.
Qed.

Lemma nat_enc_len bs u : nat_enc bs u -> length bs = 1%nat \/ length bs = 2%nat \/ length bs = 4%nat.
Proof. intros [ | | ]; cbn; auto. Qed.

Lemma real_sound b f n : dec_real b = Some (f, n) -> real_enc (firstn n b) f /\ length (firstn n b) = n.
Proof.
  unfold dec_real. destruct (dec_natural b) as [[u k]|] eqn:N; [|discriminate].
  destruct (nat_sound _ _ _ N) as [E L]. destruct (nat_enc_len _ _ E) as [L1|[L1|L1]]; rewrite L in L1; subst k; intros [= <- <-].
  - split; [apply RE_short; [exact E|lia]|exact L].
  - split; [apply RE_short; [exact E|lia]|exact L].
  - split; [apply RE_4; [exact E|exact L]|exact L].
Qed.

Lemma real_complete bs f rest : real_enc bs f -> dec_real (bs ++ rest) = Some (f, length bs).
Proof.
  intros [bs' u E L|bs' u E L]; unfold dec_real; rewrite (nat_complete _ _ rest E).
  - destruct (nat_enc_len _ _ E) as [L1|[L1|L1]]; rewrite L1 in *; try reflexivity; lia.
  - rewrite L. reflexivity.
Qed.

Lemma coord_sound b f n : dec_coordinate b = Some (f, n) -> coord_enc (firstn n b) f /\ length (firstn n b) = n.
Proof.
  unfold dec_coordinate. destruct (dec_natural b) as [[u k]|] eqn:N; [|discriminate].
  destruct (nat_sound _ _ _ N) as [E L]. destruct (nat_enc_len _ _ E) as [L1|[L1|L1]]; rewrite L in L1; subst k; intros [= <- <-].
  - split; [apply CE1; assumption|exact L].
  - split; [apply CE2; assumption|exact L].
  - split; [apply CE4; assumption|exact L].
Qed.

Lemma coord_complete bs f rest : coord_enc bs f -> dec_coordinate (bs ++ rest) = Some (f, length bs).
Proof.
  intros [bs' u E L|bs' u E L|bs' u E L]; unfold dec_coordinate; rewrite (nat_complete _ _ rest E), L; reflexivity.
Qed.

Lemma zto_sound b f n : dec_zero_to_one b = Some (f, n) -> zto_enc (firstn n b) f /\ length (firstn n b) = n.
Proof.
  unfold dec_zero_to_one. destruct (dec_natural b) as [[u k]|] eqn:N; [|discriminate].
  destruct (nat_sound _ _ _ N) as [E L]. destruct (nat_enc_len _ _ E) as [L1|[L1|L1]]; rewrite L in L1; subst k; intros [= <- <-].
  - split; [apply ZE1; assumption|exact L].
  - split; [apply ZE2; assumption|exact L].
  - split; [apply ZE4; assumption|exact L].
Qed.

Lemma zto_complete bs f rest : zto_enc bs f -> dec_zero_to_one (bs ++ rest) = Some (f, length bs).
Proof.
  intros [bs' u E L|bs' u E L|bs' u E L]; unfold dec_zero_to_one; rewrite (nat_complete _ _ rest E), L; reflexivity.
Qed.

(* ---------- colours ---------- *)
Lemma color1_eq x : 0 <= x < 256 -> decode_color1 x = color1 x.
Proof. intros H. rewrite (color1_table x H). reflexivity. Qed.

Lemma color_sound k b c n : 0 <= k <= 4 -> wf_bytes b -> dec_color_form k b = Some (c, n) ->
  color_enc k (firstn n b) c /\ length (firstn n b) = n.
Proof.
  intros Hk W. unfold dec_color_form.
  destruct (k =? 0) eqn:K0.
  { assert (k = 0) as -> by lia. unfold dec_color1. destruct b as [|x b]; [discriminate|]. intros [= <- <-].
    destruct (wf_bytes_cons _ _ W) as [Hx _]. rewrite (color1_eq x Hx). split; [constructor|reflexivity]. }
  destruct (k =? 1) eqn:K1.
  { assert (k = 1) as -> by lia. unfold dec_color2. destruct b as [|x [|y b]]; try discriminate. intros [= <- <-].
    split; [constructor|reflexivity]. }
  destruct (k =? 2) eqn:K2.
  { assert (k = 2) as -> by lia. unfold dec_color3direct. destruct b as [|x [|y [|z b]]]; try discriminate. intros [= <- <-].
    split; [constructor|reflexivity]. }
  destruct (k =? 3) eqn:K3.
  { assert (k = 3) as -> by lia. unfold dec_color4. destruct b as [|x [|y [|z [|w b]]]]; try discriminate. intros [= <- <-].
    split; [constructor|reflexivity]. }
  assert (k = 4) as -> by lia. unfold dec_color3indirect. destruct b as [|x [|y [|z b]]]; try discriminate. intros [= <- <-].
  split; [constructor|reflexivity].
Qed.

Lemma color_complete k bs c rest : wf_bytes bs -> color_enc k bs c -> dec_color_form k (bs ++ rest) = Some (c, length bs).
Proof.
  intros W H. destruct H; unfold dec_color_form; cbn [Z.eqb Pos.eqb app length].
  - destruct (wf_bytes_cons _ _ W) as [Hx _]. unfold dec_color1. rewrite (color1_eq x Hx). reflexivity.
  - reflexivity.
  - reflexivity.
  - reflexivity.
  - reflexivity.
Qed.

(* ---------- coordinate lists ---------- *)
Lemma split_firstn {A} n (b : list A) : b = firstn n b ++ skipn n b.
Proof. symmetry. apply firstn_skipn. Qed.

Lemma coords_sound k : forall b its xs rest, read_coords k b = (its, Some (xs, rest)) ->
  exists bs, b = bs ++ rest /\ coords_enc k bs xs /\ calls_of its = [].
Proof.
  induction k as [|k IH]; intros b its xs rest; cbn [read_coords].
  - intros [= <- <- <-]. exists []. split; [reflexivity|]. split; [constructor|reflexivity].
  - unfold read_num. destruct (dec_coordinate b) as [[x n]|] eqn:D; [|discriminate]. cbv beta iota zeta.
    match goal with |- context [read_coords k ?t] => destruct (read_coords k t) as [its' r'] eqn:E end.
    destruct r' as [[xs' b2]|]; [|discriminate]. intros [= <- <- <-].
    destruct (coord_sound _ _ _ D) as [Ce _]. destruct (IH _ _ _ _ E) as (bs & Eb & Cs & Cc).
    exists (firstn n b ++ bs). split; [rewrite <- app_assoc, <- Eb; apply split_firstn|].
    split; [constructor; assumption|]. cbn [app calls_of flat_map]. exact Cc.
Qed.

Lemma coords_complete k bs xs : coords_enc k bs xs -> forall rest,
  exists its, read_coords k (bs ++ rest) = (its, Some (xs, rest)) /\ calls_of its = [].
Proof.
  induction 1 as [|k b x bs xs Hc Hcs IH]; intros rest.
  - exists []. split; reflexivity.
  - cbn [read_coords]. unfold read_num. rewrite <- app_assoc, (coord_complete _ _ _ Hc), skipn_app_len.
    destruct (IH rest) as (its & E & C). rewrite E. eexists. split; [reflexivity|]. cbn [app calls_of flat_map]. exact C.
Qed.

Lemma coords_wf k bs xs : coords_enc k bs xs -> length xs = k.
Proof. induction 1; cbn; auto. Qed.

(* ---------- styling instructions ---------- *)
Lemma styling_sound opcode b its d' b' : 0 <= opcode < 256 -> wf_bytes b ->
  styling_step opcode b = (its, StepOk d' b') ->
  exists bs c, opcode :: b = bs ++ b' /\ calls_of its = [c] /\ styling bs c d'.
Proof.
  intros Ho W. unfold styling_step. cbv zeta beta.
  destruct (opcode <? 64) eqn:E64.
  { intros [= <- <- <-]. exists [opcode], (CSetCSel (opcode mod 64)). split; [reflexivity|]. split; [reflexivity|].
    replace (opcode mod 64) with opcode by lia. apply S_CSel. lia. }
  destruct (opcode <? 128) eqn:E128.
  { intros [= <- <- <-]. exists [opcode], (CSetNSel (opcode mod 64)). split; [reflexivity|]. split; [reflexivity|].
    replace (opcode mod 64) with (opcode - 64) by lia. apply S_NSel. lia. }
  destruct (opcode <? 168) eqn:E168.
  { destruct (dec_color_form _ b) as [[c n]|] eqn:E; [|discriminate]. intros [= <- <- <-].
    assert (Hk : 0 <= (opcode - 128) / 8 <= 4) by lia.
    destruct (color_sound _ _ _ _ Hk W E) as [Ce _].
    exists (opcode :: firstn n b), (CSetCReg (adj_of opcode) (incr_of opcode) c).
    split; [cbn [app]; f_equal; apply split_firstn|]. split; [reflexivity|]. apply S_CReg; [lia|exact Ce]. }
  destruct (opcode <? 192) eqn:E192.
  { destruct ((opcode - 168) / 8 =? 0) eqn:T0; [|destruct ((opcode - 168) / 8 =? 1) eqn:T1].
    - destruct (dec_real b) as [[f n]|] eqn:E; [|discriminate]. intros [= <- <- <-].
      destruct (real_sound _ _ _ E) as [Re _].
      exists (opcode :: firstn n b), (CSetNReg (adj_of opcode) (incr_of opcode) f).
      split; [cbn [app]; f_equal; apply split_firstn|]. split; [reflexivity|]. apply S_NReg_real; [lia|exact Re].
    - destruct (dec_coordinate b) as [[f n]|] eqn:E; [|discriminate]. intros [= <- <- <-].
      destruct (coord_sound _ _ _ E) as [Re _].
      exists (opcode :: firstn n b), (CSetNReg (adj_of opcode) (incr_of opcode) f).
      split; [cbn [app]; f_equal; apply split_firstn|]. split; [reflexivity|]. apply S_NReg_coord; [lia|exact Re].
    - destruct (dec_zero_to_one b) as [[f n]|] eqn:E; [|discriminate]. intros [= <- <- <-].
      destruct (zto_sound _ _ _ E) as [Re _].
      exists (opcode :: firstn n b), (CSetNReg (adj_of opcode) (incr_of opcode) f).
      split; [cbn [app]; f_equal; apply split_firstn|]. split; [reflexivity|]. apply S_NReg_zto; [lia|exact Re]. }
  destruct (opcode <? 199) eqn:E199.
  { destruct (read_coords 2 b) as [its0 r0] eqn:E. destruct r0 as [[xs b2]|]; [|discriminate].
    destruct (coords_sound _ _ _ _ _ E) as (bs & Eb & Cs & Cc).
    destruct xs as [|x [|y [|? ?]]]; try discriminate. intros [= <- <- <-].
    inversion Cs as [|? bx ? bs1 ? Hx Cs1]; subst. inversion Cs1 as [|? by_ ? bs2 ? Hy Cs2]; subst. inversion Cs2; subst.
    exists (opcode :: bx ++ by_), (CStartPath (opcode mod 8) x y).
    split; [cbn [app]; rewrite app_nil_r, <- app_assoc; reflexivity|].
    split; [cbn [calls_of flat_map app]; fold (calls_of (its0 ++ [ICall (CStartPath (opcode mod 8) x y)])); rewrite calls_of_app, Cc; reflexivity|].
    replace (opcode mod 8) with (opcode - 192) by lia. apply S_Start; [lia|assumption|assumption]. }
  destruct (opcode =? 199) eqn:E199'.
  { unfold read_num. destruct (dec_real b) as [[l0 n0]|] eqn:E0; [|discriminate]. cbv beta iota zeta.
    match goal with |- context [dec_real ?t] => destruct (dec_real t) as [[l1 n1]|] eqn:E1 end; [|discriminate]. intros [= <- <- <-].
    destruct (real_sound _ _ _ E0) as [R0 _]. destruct (real_sound _ _ _ E1) as [R1 _].
    assert (opcode = 199) as -> by lia.
    exists (199 :: firstn n0 b ++ firstn n1 (skipn n0 b)), (CSetLOD l0 l1).
    split; [cbn [app]; f_equal; rewrite <- app_assoc, <- split_firstn; apply split_firstn|].
    split; [reflexivity|]. apply S_LOD; assumption. }
  discriminate.
Qed.

Lemma styling_complete bs c d' : styling bs c d' -> wf_bytes bs -> forall rest,
  exists opcode tl its, bs = opcode :: tl /\ styling_step opcode (tl ++ rest) = (its, StepOk d' rest) /\ calls_of its = [c].
Proof.
  intros H W rest. destruct H as [op Ho|op Ho|op bs c Ho Hc|op bs f Ho Hr|op bs f Ho Hr|op bs f Ho Hr|op bx by_ x y Ho Hx Hy|b0 b1 l0 l1 H0 H1].
  - exists op, [], [ILine [op] (PSetCSel (op mod 64)); ICall (CSetCSel (op mod 64))]. split; [reflexivity|].
    unfold styling_step. assert (op <? 64 = true) as -> by lia. replace (op mod 64) with op by lia. split; reflexivity.
  - exists op, [], [ILine [op] (PSetNSel (op mod 64)); ICall (CSetNSel (op mod 64))]. split; [reflexivity|].
    unfold styling_step. assert (op <? 64 = false) as -> by lia. assert (op <? 128 = true) as -> by lia.
    replace (op mod 64) with (op - 64) by lia. split; reflexivity.
  - destruct (wf_bytes_cons _ _ W) as [_ Wb]. exists op, bs. eexists. split; [reflexivity|].
    unfold styling_step. assert (op <? 64 = false) as -> by lia. assert (op <? 128 = false) as -> by lia.
    assert (op <? 168 = true) as -> by lia. cbv zeta. pose proof (color_complete _ _ _ rest Wb Hc) as Dc. rwc Dc. rewrite skipn_app_len.
    split; reflexivity.
  - exists op, bs. eexists. split; [reflexivity|].
    unfold styling_step. assert (op <? 64 = false) as -> by lia. assert (op <? 128 = false) as -> by lia.
    assert (op <? 168 = false) as -> by lia. assert (op <? 192 = true) as -> by lia. cbv zeta.
    assert ((op - 168) / 8 =? 0 = true) as -> by lia. pose proof (real_complete _ _ rest Hr) as Dc. rwc Dc. rewrite skipn_app_len. split; reflexivity.
  - exists op, bs. eexists. split; [reflexivity|].
    unfold styling_step. assert (op <? 64 = false) as -> by lia. assert (op <? 128 = false) as -> by lia.
    assert (op <? 168 = false) as -> by lia. assert (op <? 192 = true) as -> by lia. cbv zeta.
    assert ((op - 168) / 8 =? 0 = false) as -> by lia. assert ((op - 168) / 8 =? 1 = true) as -> by lia.
    pose proof (coord_complete _ _ rest Hr) as Dc. rwc Dc. rewrite skipn_app_len. split; reflexivity.
  - exists op, bs. eexists. split; [reflexivity|].
    unfold styling_step. assert (op <? 64 = false) as -> by lia. assert (op <? 128 = false) as -> by lia.
    assert (op <? 168 = false) as -> by lia. assert (op <? 192 = true) as -> by lia. cbv zeta.
    assert ((op - 168) / 8 =? 0 = false) as -> by lia. assert ((op - 168) / 8 =? 1 = false) as -> by lia.
    pose proof (zto_complete _ _ rest Hr) as Dc. rwc Dc. rewrite skipn_app_len. split; reflexivity.
  - assert (Cs : coords_enc 2 (bx ++ by_ ++ []) [x; y]) by (repeat constructor; assumption).
    rewrite app_nil_r in Cs. destruct (coords_complete _ _ _ Cs rest) as (its & E & C).
    exists op, (bx ++ by_), (ILine [op] (PStartPath (op mod 8)) :: its ++ [ICall (CStartPath (op mod 8) x y)]). split; [reflexivity|].
    unfold styling_step. assert (op <? 64 = false) as -> by lia. assert (op <? 128 = false) as -> by lia.
    assert (op <? 168 = false) as -> by lia. assert (op <? 192 = false) as -> by lia. assert (op <? 199 = true) as -> by lia.
    rewrite E. split; [reflexivity|].
    cbn [calls_of flat_map app]. fold (calls_of (its ++ [ICall (CStartPath (op mod 8) x y)])). rewrite calls_of_app, C.
    replace (op mod 8) with (op - 192) by lia. reflexivity.
  - exists 199, (b0 ++ b1). eexists. split; [reflexivity|].
    unfold styling_step. cbn [Z.ltb Z.eqb Z.compare Pos.compare Pos.compare_cont Pos.eqb].
    unfold read_num. rewrite <- app_assoc, (real_complete _ _ _ H0), skipn_app_len, (real_complete _ _ _ H1), skipn_app_len.
    split; reflexivity.
Qed.

(* ---------- drawing instructions ---------- *)
Lemma draw_rep_sound op k b its b' : op <> opA -> op <> opa -> draw_rep op k b = (its, Some b') ->
  exists bs c, b = bs ++ b' /\ calls_of its = [c] /\ rep_enc op k bs c.
Proof.
  intros NA Na. unfold draw_rep. destruct (read_coords k b) as [its0 r0] eqn:E.
  destruct r0 as [[xs rest]|]; [|discriminate]. intros [= <- <-].
  destruct (coords_sound _ _ _ _ _ E) as (bs & Eb & Cs & Cc).
  exists bs, (CDraw op xs). split; [exact Eb|]. split; [rewrite calls_of_app, Cc; reflexivity|].
  apply RP_draw; assumption.
Qed.

Lemma arc_rep_sound rel k b its b' : arc_rep rel b = (its, Some b') ->
  exists bs c, b = bs ++ b' /\ calls_of its = [c] /\ rep_enc (if rel then opa else opA) k bs c.
Proof.
  unfold arc_rep.
  destruct (read_coords 2 b) as [its0 r0] eqn:E0. destruct r0 as [[xs b1]|]; [|discriminate].
  destruct (coords_sound _ _ _ _ _ E0) as (bs0 & Eb0 & Cs0 & Cc0).
  destruct xs as [|rx [|ry [|? ?]]]; try discriminate.
  unfold read_num. destruct (dec_zero_to_one b1) as [[rot n1]|] eqn:E1; [|discriminate]. cbv beta iota zeta.
  match goal with |- context [dec_natural ?t] => destruct (dec_natural t) as [[fl n]|] eqn:E2 end; [|discriminate].
  match goal with |- context [read_coords 2 ?t] => destruct (read_coords 2 t) as [its2 r2] eqn:E3 end.
  destruct r2 as [[ys b4]|]; [|discriminate].
  destruct (coords_sound _ _ _ _ _ E3) as (bs2 & Eb2 & Cs2 & Cc2).
  destruct ys as [|x [|y [|? ?]]]; try discriminate. intros [= <- <-].
  destruct (zto_sound _ _ _ E1) as [Ze _]. destruct (nat_sound _ _ _ E2) as [Ne _].
  inversion Cs0 as [|? brx ? t0 ? Hrx Cs0']; subst. inversion Cs0' as [|? bry ? t1 ? Hry Cs0'']; subst. inversion Cs0''; subst.
  inversion Cs2 as [|? bx ? t2 ? Hx Cs2']; subst. inversion Cs2' as [|? by_ ? t3 ? Hy Cs2'']; subst. inversion Cs2''; subst.
  exists (brx ++ bry ++ firstn n1 b1 ++ firstn n (skipn n1 b1) ++ bx ++ by_).
  eexists. split; [|split].
  - rewrite !app_nil_r in *. rewrite <- !app_assoc. f_equal. f_equal.
    rewrite (split_firstn n1 b1) at 1. f_equal. rewrite (split_firstn n (skipn n1 b1)) at 1. f_equal.
    rewrite Eb2, <- app_assoc. reflexivity.
  - rewrite !calls_of_app, Cc0. cbn [calls_of flat_map app].
    fold (calls_of (its2 ++ [ICall (CArc rel rx ry rot (negb (fl mod 2 =? 0)) (negb ((fl / 2) mod 2 =? 0)) x y)])).
    rewrite calls_of_app, Cc2. reflexivity.
  - destruct rel.
    + exact (RP_arc opa k brx bry _ _ bx by_ rx ry rot fl x y (or_intror eq_refl) Hrx Hry Ze Ne Hx Hy).
    + exact (RP_arc opA k brx bry _ _ bx by_ rx ry rot fl x y (or_introl eq_refl) Hrx Hry Ze Ne Hx Hy).
Qed.

Lemma one_sound op k b its b' : one_of op k b = (its, Some b') ->
  exists bs c, b = bs ++ b' /\ calls_of its = [c] /\ rep_enc op k bs c.
Proof.
  unfold one_of. destruct (op =? opA) eqn:EA.
  { apply Z.eqb_eq in EA. subst op. apply (arc_rep_sound false). }
  destruct (op =? opa) eqn:Ea.
  { apply Z.eqb_eq in Ea. subst op. apply (arc_rep_sound true). }
  apply draw_rep_sound; lia.
Qed.

Lemma reps_sound op k n : forall first b its b', reps first n op (one_of op k) b = (its, Some b') ->
  exists bs, b = bs ++ b' /\ reps_enc op k n bs (calls_of its).
Proof.
  induction n as [|n IH]; intros first b its b'; cbn [reps].
  - intros [= <- <-]. exists []. split; [reflexivity|constructor].
  - destruct (one_of op k b) as [its1 [b1|]] eqn:E; [|discriminate].
    destruct (reps false n op (one_of op k) b1) as [its2 r2] eqn:E2. intros [= <- ->].
    destruct (one_sound _ _ _ _ _ E) as (bs1 & c & Eb1 & C1 & R1). destruct (IH _ _ _ _ E2) as (bs2 & Eb2 & R2).
    exists (bs1 ++ bs2). split; [rewrite <- app_assoc, <- Eb2; exact Eb1|].
    rewrite !calls_of_app, C1. assert (calls_of (if first then [] else [ILine [] (PImplicit op)]) = []) as -> by (destruct first; reflexivity).
    cbn [app]. constructor; assumption.
Qed.

Lemma hdr_run_header opcode : 0 <= opcode < 224 ->
  let '(op, nc, nreps) := hdr opcode in run_header opcode op nc nreps.
Proof.
  intros H. unfold hdr. cbv zeta.
  repeat match goal with |- context [if ?c then _ else _] => let E := fresh "E" in destruct c eqn:E end.
  all: match goal with
       | |- run_header _ opL _ ?r => replace r with (opcode + 1) by lia; apply RH_L; lia
       | |- run_header _ opl _ ?r => replace r with (opcode - 31) by lia; apply RH_l; lia
       | |- run_header _ opT _ ?r => replace r with (opcode - 63) by lia; apply RH_T; lia
       | |- run_header _ opt _ ?r => replace r with (opcode - 79) by lia; apply RH_t; lia
       | |- run_header _ opQ _ ?r => replace r with (opcode - 95) by lia; apply RH_Q; lia
       | |- run_header _ opq _ ?r => replace r with (opcode - 111) by lia; apply RH_q; lia
       | |- run_header _ opS _ ?r => replace r with (opcode - 127) by lia; apply RH_S; lia
       | |- run_header _ ops _ ?r => replace r with (opcode - 143) by lia; apply RH_s; lia
       | |- run_header _ opC _ ?r => replace r with (opcode - 159) by lia; apply RH_C; lia
       | |- run_header _ opc _ ?r => replace r with (opcode - 175) by lia; apply RH_c; lia
       | |- run_header _ opA _ ?r => replace r with (opcode - 191) by lia; apply RH_A; lia
       | |- run_header _ opa _ ?r => replace r with (opcode - 207) by lia; apply RH_a; lia
       end.
Qed.

Lemma run_header_hdr opc op k rc : run_header opc op k rc -> hdr opc = (op, k, rc) /\ 0 <= opc < 224 /\ 1 <= rc.
Proof.
  intros H. pose proof H as H'. destruct H'; (split; [|lia]); unfold hdr; cbv zeta;
    repeat match goal with |- context [if ?c then _ else _] => let E := fresh "E" in destruct c eqn:E; try lia end;
    f_equal; lia.
Qed.

Lemma drawing_sound opcode b its d' b' : 0 <= opcode < 256 ->
  drawing_step opcode b = (its, StepOk d' b') ->
  exists bs, opcode :: b = bs ++ b' /\ drawing bs (calls_of its) d'.
Proof.
  intros Ho. destruct (opcode <? 224) eqn:E224.
  { rewrite (drawing_step_hdr _ _ E224). pose proof (hdr_run_header opcode ltac:(lia)) as RH.
    destruct (hdr opcode) as [[op nc] nreps].
    destruct (reps true (Z.to_nat nreps) op (one_of op nc) b) as [its0 r0] eqn:E.
    destruct r0 as [b1|]; [|discriminate]. intros [= <- <- <-].
    destruct (reps_sound _ _ _ _ _ _ _ E) as (bs & Eb & R).
    exists (opcode :: bs). split; [cbn [app]; f_equal; exact Eb|].
    cbn [calls_of flat_map app]. fold (calls_of its0). apply (D_run opcode op nc nreps); assumption. }
  unfold drawing_step, draw_group. rewrite E224.
  destruct (opcode =? 225) eqn:E225.
  { intros [= <- <- <-]. assert (opcode = 225) as -> by lia. exists [225]. split; [reflexivity|]. apply D_end. }
  assert (S : forall op k, simple_op opcode op k ->
     (match draw_rep op k b with
      | (its0, Some b') => (ILine [opcode] (PSimple op) :: its0, StepOk true b')
      | (its0, None) => (ILine [opcode] (PSimple op) :: its0, StepErr EInvalidNumber)
      end) = (its, StepOk d' b') -> exists bs, opcode :: b = bs ++ b' /\ drawing bs (calls_of its) d').
  { intros op k So. unfold draw_rep. destruct (read_coords k b) as [its0 r0] eqn:E.
    destruct r0 as [[xs b1]|]; [|discriminate]. intros [= <- <- <-].
    destruct (coords_sound _ _ _ _ _ E) as (bs & Eb & Cs & Cc).
    exists (opcode :: bs). split; [cbn [app]; f_equal; exact Eb|].
    cbn [calls_of flat_map app]. fold (calls_of (its0 ++ [ICall (CDraw op xs)])). rewrite calls_of_app, Cc.
    apply (D_simple opcode op k); assumption. }
  cbv zeta.
  destruct (opcode =? 226) eqn:E226; [assert (opcode = 226) as -> by lia; apply S; constructor|].
  destruct (opcode =? 227) eqn:E227; [assert (opcode = 227) as -> by lia; apply S; constructor|].
  destruct (opcode =? 230) eqn:E230; [assert (opcode = 230) as -> by lia; apply S; constructor|].
  destruct (opcode =? 231) eqn:E231; [assert (opcode = 231) as -> by lia; apply S; constructor|].
  destruct (opcode =? 232) eqn:E232; [assert (opcode = 232) as -> by lia; apply S; constructor|].
  destruct (opcode =? 233) eqn:E233; [assert (opcode = 233) as -> by lia; apply S; constructor|].
  discriminate.
Qed.

(* completeness for drawing *)
Lemma rep_complete op k bs c : rep_enc op k bs c -> forall rest,
  exists its, one_of op k (bs ++ rest) = (its, Some rest) /\ calls_of its = [c].
Proof.
  intros H rest. destruct H as [bs xs NA Na Cs|brx bry brot bfl bx by_ rx ry rot fl x y Hop Hrx Hry Hrot Hfl Hx Hy].
  - unfold one_of. assert (op =? opA = false) as -> by lia. assert (op =? opa = false) as -> by lia.
    unfold draw_rep. destruct (coords_complete _ _ _ Cs rest) as (its & E & C). rewrite E.
    eexists. split; [reflexivity|]. rewrite calls_of_app, C. reflexivity.
  - assert (Hone : one_of op k = arc_rep (op =? opa)).
    { unfold one_of. destruct Hop as [->| ->]; reflexivity. }
    rewrite Hone. unfold arc_rep.
    assert (Cs0 : coords_enc 2 (brx ++ bry ++ []) [rx; ry]) by (repeat constructor; assumption). rewrite app_nil_r in Cs0.
    assert (Cs2 : coords_enc 2 (bx ++ by_ ++ []) [x; y]) by (repeat constructor; assumption). rewrite app_nil_r in Cs2.
    destruct (coords_complete _ _ _ Cs0 (brot ++ bfl ++ bx ++ by_ ++ rest)) as (its0 & E0 & C0).
    destruct (coords_complete _ _ _ Cs2 rest) as (its2 & E2 & C2).
    rewrite <- !app_assoc in *. rewrite E0. unfold read_num.
    pose proof (zto_complete _ _ (bfl ++ bx ++ by_ ++ rest) Hrot) as Dz. rwc Dz. rewrite skipn_app_len.
    pose proof (nat_complete _ _ (bx ++ by_ ++ rest) Hfl) as Dn. rwc Dn. rewrite skipn_app_len. rewrite E2.
    eexists. split; [reflexivity|].
    unfold calls_of in *. rewrite !flat_map_app. cbn [flat_map app]. rewrite flat_map_app, C0, C2. reflexivity.
Qed.

Lemma reps_complete op k n bs cs : reps_enc op k n bs cs -> forall first rest,
  exists its, reps first n op (one_of op k) (bs ++ rest) = (its, Some rest) /\ calls_of its = cs.
Proof.
  induction 1 as [|n b c bs cs Hr Hrs IH]; intros first rest.
  - exists []. split; reflexivity.
  - cbn [reps]. rewrite <- app_assoc. destruct (rep_complete _ _ _ _ Hr (bs ++ rest)) as (its1 & E1 & C1). rewrite E1.
    destruct (IH false rest) as (its2 & E2 & C2). rewrite E2.
    eexists. split; [reflexivity|]. rewrite !calls_of_app, C1, C2. destruct first; reflexivity.
Qed.

Lemma drawing_complete bs cs d' : drawing bs cs d' -> forall rest,
  exists opcode tl its, bs = opcode :: tl /\ drawing_step opcode (tl ++ rest) = (its, StepOk d' rest) /\ calls_of its = cs.
Proof.
  intros H rest. destruct H as [opc op k rc bs cs RH R| |opc op k bs xs So Cs].
  - destruct (run_header_hdr _ _ _ _ RH) as (Hh & Hr & Hrc).
    destruct (reps_complete _ _ _ _ _ R true rest) as (its & E & C).
    exists opc, bs. eexists. split; [reflexivity|].
    assert (E224 : opc <? 224 = true) by lia. rewrite (drawing_step_hdr _ _ E224), Hh, E. split; [reflexivity|].
    cbn [calls_of flat_map app]. exact C.
  - exists 225, []. eexists. split; [reflexivity|]. split; reflexivity.
  - destruct (coords_complete _ _ _ Cs rest) as (its & E & C).
    exists opc, bs. eexists. split; [reflexivity|].
    rewrite (simple_step opc op k) by (destruct So; cbn; tauto).
    unfold draw_rep. rewrite E. split; [reflexivity|].
    unfold calls_of in *. cbn [flat_map app]. rewrite flat_map_app, C. reflexivity.
Qed.

(* ---------- the instruction stream ---------- *)
Lemma prog_sound fuel : forall d b its, wf_bytes b -> dec_ops fuel d b = (its, Done) -> prog d b (calls_of its).
Proof.
  induction fuel as [|fuel IH]; intros d b its W; destruct b as [|opcode rest]; cbn [dec_ops];
    try (intros [= <-]; apply P_nil); try discriminate.
  destruct ((if d then drawing_step else styling_step) opcode rest) as [its1 r1] eqn:E.
  destruct (wf_bytes_cons _ _ W) as [Ho Wr].
  destruct r1 as [e|d1 b1]; [discriminate|].
  destruct (dec_ops fuel d1 b1) as [its2 o2] eqn:E2. intros [= <- ->].
  rewrite calls_of_app. destruct d.
  - destruct (drawing_sound _ _ _ _ _ Ho E) as (bs & Eb & Dr). rewrite Eb in *.
    apply wf_bytes_app in W as [_ W1]. apply P_drawing with (d' := d1); [exact Dr|exact (IH _ _ _ W1 E2)].
  - destruct (styling_sound _ _ _ _ _ Ho Wr E) as (bs & c & Eb & Cc & St). rewrite Eb in *. rewrite Cc.
    apply wf_bytes_app in W as [_ W1]. cbn [app]. apply P_styling with (d' := d1); [exact St|exact (IH _ _ _ W1 E2)].
Qed.

Lemma prog_complete d b cs : prog d b cs -> wf_bytes b -> run d b = (cs, Done).
Proof.
  induction 1 as [d|bs c d' rest cs St Pr IH|bs cs1 d' rest cs Dr Pr IH]; intros W.
  - apply run_nil.
  - apply wf_bytes_app in W as [Wb Wr]. destruct (styling_complete _ _ _ St Wb rest) as (opcode & tl & its & -> & E & C).
    cbn [app]. refine (eq_trans (run_step_pre false _ _ _ _ _ E) _). rewrite C, (IH Wr). reflexivity.
  - apply wf_bytes_app in W as [Wb Wr]. destruct (drawing_complete _ _ _ Dr rest) as (opcode & tl & its & -> & E & C).
    cbn [app]. refine (eq_trans (run_step_pre true _ _ _ _ _ E) _). rewrite C, (IH Wr). reflexivity.
Qed.

(* ---------- metadata ---------- *)
Lemma form_norm h : 0 <= h < 256 -> (if h / 64 <? 3 then h / 64 else 3) = h / 64.
Proof. intros H. destruct (h / 64 <? 3) eqn:E; lia. Qed.

Lemma palette_entry_eq c : fst (color_rgba c) = palette_entry c.
Proof. destruct c as [d| | |]; try reflexivity. cbn. destruct (valid_premul d); reflexivity. Qed.

Lemma read_palette_sound form : 0 <= form <= 3 -> forall k i P b its P' rest, wf_bytes b -> (i + k <= length P)%nat ->
  read_palette k i form P b = (its, Some (P', rest)) ->
  exists bs ex, b = bs ++ rest /\ pal_colors form k bs ex /\ P' = overlay P i ex.
Proof.
  intros Hf. induction k as [|k IH]; intros i P b its P' rest W L; cbn [read_palette].
  - intros [= _ <- <-]. exists [], []. split; [reflexivity|]. split; [constructor|].
    unfold overlay. cbn [app length]. rewrite Nat.add_0_r, firstn_skipn. reflexivity.
  - assert (Hn : (if form <? 3 then form else 3) = form) by (destruct (form <? 3) eqn:E; lia). rewrite Hn.
    destruct (dec_color_form form b) as [[c n]|] eqn:D; [|discriminate].
    match goal with |- context [read_palette k ?a ?f ?p ?t] => destruct (read_palette k a f p t) as [its' r'] eqn:E end.
    destruct r' as [[p r]|]; [|discriminate]. intros [= _ <- <-].
    assert (W' : wf_bytes (skipn n b)) by (rewrite (split_firstn n b) in W; apply wf_bytes_app in W; tauto).
    assert (L' : (S i + k <= length (set_nth P i (fst (color_rgba c))))%nat) by (rewrite set_nth_length; lia).
    destruct (IH _ _ _ _ _ _ W' L' E) as (bs & ex & Eb & Pc & Ep).
    destruct (color_sound form b c n ltac:(lia) W D) as [Ce _].
    exists (firstn n b ++ bs), (palette_entry c :: ex). split; [rewrite <- app_assoc; etransitivity; [apply (split_firstn n b)|f_equal; exact Eb]|].
    split; [constructor; assumption|]. rewrite Ep, palette_entry_eq. apply overlay_step.
    assert (Lex : length ex = k).
    { clear - Pc. induction Pc; cbn; auto. }
    lia.
Qed.

Lemma read_palette_complete form k bs ex : 0 <= form <= 3 -> pal_colors form k bs ex -> wf_bytes bs ->
  forall i P rest, (i + k <= length P)%nat ->
  exists its, read_palette k i form P (bs ++ rest) = (its, Some (overlay P i ex, rest)) /\ calls_of its = [].
Proof.
  intros Hf H. induction H as [|k b c bs cs Hc Hcs IH]; intros W i P rest L.
  - exists []. cbn [read_palette app]. unfold overlay. cbn [app length]. rewrite Nat.add_0_r, firstn_skipn. split; reflexivity.
  - apply wf_bytes_app in W as [Wb Wbs]. cbn [read_palette].
    assert (Hn : (if form <? 3 then form else 3) = form) by (destruct (form <? 3) eqn:E; lia). rewrite Hn.
    rewrite <- app_assoc. pose proof (color_complete _ _ _ (bs ++ rest) Wb Hc) as Dc. rwc Dc. rewrite skipn_app_len.
    assert (L' : (S i + k <= length (set_nth P i (fst (color_rgba c))))%nat) by (rewrite set_nth_length; lia).
    destruct (IH Wbs (S i) _ rest L') as (its & E & C). rewrite E.
    assert (Lex : length cs = k) by (clear - Hcs; induction Hcs; cbn; auto).
    eexists. split.
    { rewrite palette_entry_eq, overlay_step by lia. reflexivity. }
    cbn [calls_of flat_map app]. exact C.
Qed.

Lemma vb_invalid_eq v : vb_invalid v = viewbox_invalid v.
Proof. reflexivity. Qed.

Lemma length_app_eq {A} (a b c : list A) (len : Z) : a = b ++ c ->
  Z.of_nat (length c) =? Z.of_nat (length a) - len = true -> len = Z.of_nat (length b).
Proof. intros -> H. rewrite app_length in H. lia. Qed.

Lemma chunk_sound minmid m b its m' b' mid : wf_bytes b -> m_pal m = default_palette ->
  dec_chunk minmid m b = (its, ChunkOk m' b' mid) ->
  calls_of its = [] /\ minmid <= mid /\
  exists c, b = c ++ b' /\
    ((mid = 0 /\ vb_chunk c (m_vb m') /\ m_pal m' = m_pal m) \/
     (mid = 1 /\ pal_chunk c (m_pal m') /\ m_vb m' = m_vb m)).
Proof.
  intros W Hp. unfold dec_chunk.
  destruct (dec_natural b) as [[len n]|] eqn:N0; [|discriminate]. cbv beta iota zeta.
  pose proof (dec_natural_rest _ _ _ W N0) as W1. destruct (nat_sound _ _ _ N0) as [Ne0 _].
  match goal with |- context [dec_natural ?t] => destruct (dec_natural t) as [[mid0 n1]|] eqn:N1 end; [|discriminate].
  pose proof (dec_natural_rest _ _ _ W1 N1) as W2. destruct (nat_sound _ _ _ N1) as [Ne1 _].
  destruct (dec_natural_bound _ _ _ W1 N1) as [[_ Rm]|[[_ Rm]|[_ Rm]]];
  (destruct (2 <=? mid0) eqn:E2; [discriminate|]; destruct (mid0 <? minmid) eqn:Em; [discriminate|];
   destruct (mid0 =? 0) eqn:E0;
   [ match goal with |- context [read_coords 4 ?t] => destruct (read_coords 4 t) as [i0 r0] eqn:E end;
     destruct r0 as [[xs bb]|]; [|discriminate];
     destruct (coords_sound _ _ _ _ _ E) as (bs & Eb & Cs & Cc);
     destruct xs as [|x0 [|y0 [|x1 [|y1 [|? ?]]]]]; try discriminate;
     match goal with |- context [viewbox_invalid ?v] => destruct (viewbox_invalid v) eqn:V end; [discriminate|];
     match goal with |- context [Z.eqb ?a ?b] => destruct (Z.eqb a b) eqn:Ew end; [|discriminate];
     intros [= <- <- <- <-]; assert (mid0 = 0) as -> by lia;
     split; [cbn [calls_of flat_map app]; exact Cc|]; split; [lia|];
     exists (firstn n b ++ firstn n1 (skipn n b) ++ bs); split;
     [ rewrite <- !app_assoc; etransitivity; [apply (split_firstn n b)|]; f_equal;
       etransitivity; [apply (split_firstn n1 (skipn n b))|]; f_equal; exact Eb
     | left; split; [reflexivity|]; split; [|reflexivity];
       inversion Cs as [|? b0 ? t0 ? H0 Cs1]; subst; inversion Cs1 as [|? b1 ? t1 ? H1 Cs2]; subst;
       inversion Cs2 as [|? b2 ? t2 ? H2 Cs3]; subst; inversion Cs3 as [|? b3 ? t3 ? H3 Cs4]; subst; inversion Cs4; subst;
       rewrite app_nil_r in *; cbn [m_vb];
       apply VBC; try assumption;
       assert (Hl : len = Z.of_nat (length (firstn n1 (skipn n b) ++ b0 ++ b1 ++ b2 ++ b3)));
       [ apply (length_app_eq (skipn n b) _ bb len); [|exact Ew];
         rewrite <- app_assoc; etransitivity; [apply (split_firstn n1 (skipn n b))|]; f_equal; exact Eb
       | subst len; exact Ne0 ] ]
   | match goal with |- context [match ?t with [] => _ | _ :: _ => _ end] => destruct t as [|h b3] eqn:Eb3 end; [discriminate|];
     match goal with |- context [read_palette ?a ?i ?f ?p ?t] => destruct (read_palette a i f p t) as [i0 r0] eqn:E end;
     destruct r0 as [[pal bb]|]; [|discriminate];
     match goal with |- context [Z.eqb ?a ?b] => destruct (Z.eqb a b) eqn:Ew end; [|discriminate];
     intros [= <- <- <- <-]; assert (mid0 = 1) as -> by lia;
     assert (W23 : wf_bytes (h :: b3)) by (rewrite <- Eb3; exact W2);
     destruct (wf_bytes_cons _ _ W23) as [Hh W3];
     assert (Hc : (0 + Z.to_nat (1 + h mod 64) <= length (m_pal m))%nat) by (rewrite Hp; unfold default_palette; rewrite repeat_length; lia);
     destruct (read_palette_sound (h / 64) ltac:(lia) _ _ _ _ _ _ _ W3 Hc E) as (bs & ex & Eb & Pc & Ep);
     split; [cbn [calls_of flat_map app]; fold (calls_of i0); pose proof (proj1 (read_palette_ok _ _ _ _ _ _ _ E)) as Hn0; unfold ncalls in Hn0; destruct (calls_of i0); [reflexivity|discriminate]|]; split; [lia|];
     exists (firstn n b ++ firstn n1 (skipn n b) ++ h :: bs); split;
     [ rewrite <- !app_assoc; etransitivity; [apply (split_firstn n b)|]; f_equal;
       etransitivity; [apply (split_firstn n1 (skipn n b))|]; f_equal; etransitivity; [exact Eb3|]; cbn [app]; f_equal; exact Eb
     | right; split; [reflexivity|]; split; [|reflexivity]; cbn [m_pal]; rewrite Ep, Hp;
       assert (Lex : length ex = Z.to_nat (1 + h mod 64)) by (clear - Pc; induction Pc; cbn; auto);
       unfold overlay; cbn [firstn app Nat.add]; rewrite Lex; unfold default_palette; rewrite skipn_repeat;
       replace (64 - Z.to_nat (1 + h mod 64))%nat with (63 - Z.to_nat (h mod 64))%nat by lia;
       apply PLC; try assumption;
       assert (Hl : len = Z.of_nat (length (firstn n1 (skipn n b) ++ h :: bs)));
       [ apply (length_app_eq (skipn n b) _ bb len); [|exact Ew];
         rewrite <- app_assoc; etransitivity; [apply (split_firstn n1 (skipn n b))|]; f_equal; etransitivity; [exact Eb3|]; cbn [app]; f_equal; exact Eb
       | subst len; exact Ne0 ] ] ]).
Qed.

Lemma vb_chunk_complete c vb : vb_chunk c vb -> forall minmid m rest, minmid <= 0 ->
  exists its, dec_chunk minmid m (c ++ rest) = (its, ChunkOk (mkMeta vb (m_pal m)) rest 0) /\ calls_of its = [].
Proof.
  intros H minmid m rest Hmin. destruct H as [bl bmid b0 b1 b2 b3 x0 y0 x1 y1 Hmid H0 H1 H2 H3 Hl V].
  unfold dec_chunk. rewrite <- !app_assoc.
  pose proof (nat_complete _ _ (bmid ++ b0 ++ b1 ++ b2 ++ b3 ++ rest) Hl) as Dl. rwc Dl. cbv beta iota zeta. rewrite skipn_app_len.
  pose proof (nat_complete _ _ (b0 ++ b1 ++ b2 ++ b3 ++ rest) Hmid) as Dm. rwc Dm. cbv beta iota zeta. rewrite skipn_app_len.
  change (2 <=? 0) with false. cbv iota. assert (0 <? minmid = false) as -> by lia. change (0 =? 0) with true. cbv iota.
  assert (Cs : coords_enc 4 (b0 ++ b1 ++ b2 ++ b3 ++ []) [x0; y0; x1; y1]) by (repeat constructor; assumption).
  rewrite app_nil_r in Cs. destruct (coords_complete _ _ _ Cs rest) as (its & E & C).
  rewrite <- !app_assoc in E. rewrite E. rewrite <- vb_invalid_eq, V.
  assert (Hw : Z.of_nat (length rest) =? Z.of_nat (length (bmid ++ b0 ++ b1 ++ b2 ++ b3 ++ rest)) - Z.of_nat (length (bmid ++ b0 ++ b1 ++ b2 ++ b3)) = true)
    by (rewrite !app_length; lia).
  rewrite Hw. eexists. split; [reflexivity|]. cbn [calls_of flat_map app]. exact C.
Qed.

Lemma pal_colors_len form n bs ex : pal_colors form n bs ex -> length ex = n.
Proof. induction 1; cbn; auto. Qed.

Lemma pal_chunk_complete c pal : pal_chunk c pal -> wf_bytes c -> forall minmid m rest, minmid <= 1 -> m_pal m = default_palette ->
  exists its, dec_chunk minmid m (c ++ rest) = (its, ChunkOk (mkMeta (m_vb m) pal) rest 1) /\ calls_of its = [].
Proof.
  intros H W minmid m rest Hmin Hp. destruct H as [bl bmid h bs ex Hmid Hh Pc Hl].
  apply wf_bytes_app in W as [_ W]. apply wf_bytes_app in W as [_ W]. destruct (wf_bytes_cons _ _ W) as [_ Wbs].
  unfold dec_chunk. rewrite <- !app_assoc.
  pose proof (nat_complete _ _ (bmid ++ (h :: bs) ++ rest) Hl) as Dl. rwc Dl. cbv beta iota zeta. rewrite skipn_app_len.
  pose proof (nat_complete _ _ ((h :: bs) ++ rest) Hmid) as Dm. rwc Dm. cbv beta iota zeta. rewrite skipn_app_len.
  change (2 <=? 1) with false. cbv iota. assert (1 <? minmid = false) as -> by lia. change (1 =? 0) with false. cbv iota.
  cbn [app]. rewrite Hp.
  assert (Lc : (0 + Z.to_nat (1 + h mod 64) <= length default_palette)%nat) by (unfold default_palette; rewrite repeat_length; lia).
  assert (Hf : 0 <= h / 64 <= 3) by lia.
  destruct (read_palette_complete _ _ _ _ Hf Pc Wbs 0%nat default_palette rest Lc) as (its & E & C). rewrite E.
  assert (Hw : Z.of_nat (length rest) =? Z.of_nat (length (bmid ++ h :: bs ++ rest)) - Z.of_nat (length (bmid ++ h :: bs)) = true)
    by (rewrite !app_length; cbn [length]; rewrite app_length; lia).
  match goal with |- context [Z.eqb ?a ?b] => replace (Z.eqb a b) with true by (symmetry; exact Hw) end.
  assert (Ho : overlay default_palette 0 ex = ex ++ repeat opaque_black (63 - Z.to_nat (h mod 64))).
  { unfold overlay. cbn [firstn app Nat.add]. rewrite (pal_colors_len _ _ _ _ Pc). unfold default_palette. rewrite skipn_repeat.
    f_equal. f_equal. lia. }
  rewrite Ho. eexists. split; [reflexivity|]. cbn [calls_of flat_map app]. exact C.
Qed.

Lemma magic_prefix t : has_prefix magic (magic ++ t) = true /\ firstn 4 (magic ++ t) = magic /\ skipn 4 (magic ++ t) = t.
Proof. repeat split. Qed.

Lemma dec_chunks_zero f mm m b : dec_chunks f 0 mm m b = ([], ChunksOk m b).
Proof. destruct f; reflexivity. Qed.

Lemma calls_line bs p l : calls_of (ILine bs p :: l) = calls_of l.
Proof. reflexivity. Qed.

Lemma metadata_sound b its m rest : wf_bytes b -> dec_metadata b = (its, ChunksOk m rest) ->
  calls_of its = [] /\ exists md, b = magic ++ md ++ rest /\ metadata md (m_vb m) (m_pal m).
Proof.
  intros W. unfold dec_metadata. destruct (has_prefix magic b) eqn:Hm; [|discriminate]. cbn [negb].
  destruct (has_prefix_magic _ Hm) as (t & -> & F4 & S4). rewrite F4, S4. cbv beta iota zeta.
  apply wf_bytes_app in W as [_ Wt].
  destruct (dec_natural t) as [[nc n]|] eqn:N; [|discriminate]. cbv beta iota zeta.
  pose proof (dec_natural_rest _ _ _ Wt N) as W1. destruct (nat_sound _ _ _ N) as [Ne _].
  assert (Hnc : 0 <= nc) by (destruct (dec_natural_bound _ _ _ Wt N) as [[_ R]|[[_ R]|[_ R]]]; lia).
  set (t1 := skipn n t) in *.
  assert (Et : t = firstn n t ++ t1) by apply split_firstn.
  destruct (dec_chunks (S (length t1)) nc 0 default_meta t1) as [its1 r1] eqn:E. intros [= <- ->].
  cbn [dec_chunks] in E. destruct (nc <=? 0) eqn:C0.
  { injection E as <- <- <-. split; [reflexivity|]. exists (firstn n t). split; [rewrite <- Et; reflexivity|].
    assert (nc = 0) as -> by lia. apply MD_none, Ne. }
  destruct (dec_chunk 0 default_meta t1) as [i1 [e|m1 b1 mid1]] eqn:E1; [discriminate|].
  destruct (chunk_sound 0 default_meta t1 i1 m1 b1 mid1 W1 eq_refl E1) as (Cc1 & _ & c1 & Eb1 & K1).
  assert (W1' : wf_bytes (c1 ++ b1)) by (rewrite <- Eb1; exact W1).
  assert (Wb1 : wf_bytes b1) by (apply wf_bytes_app in W1'; tauto).
  destruct (dec_chunks (length t1) (nc - 1) (mid1 + 1) m1 b1) as [i2 r2] eqn:E2. cbv beta iota zeta in E. injection E as <- ->.
  destruct (length t1) as [|f1] eqn:Lf; cbn [dec_chunks] in E2; destruct (nc - 1 <=? 0) eqn:C1.
  - injection E2 as <- <- <-. assert (nc = 1) as -> by lia. split; [rewrite !calls_line, calls_of_app, Cc1; reflexivity|].
    exists (firstn n t ++ c1). split; [rewrite <- app_assoc, <- Eb1; rewrite <- Et; reflexivity|].
    destruct K1 as [(-> & Vc & Pe)|(-> & Pc & Ve)].
    + rewrite Pe. apply MD_vb; assumption.
    + rewrite Ve. apply MD_pal; assumption.
  - discriminate.
  - injection E2 as <- <- <-. assert (nc = 1) as -> by lia. split; [rewrite !calls_line, calls_of_app, Cc1; reflexivity|].
    exists (firstn n t ++ c1). split; [rewrite <- app_assoc, <- Eb1; rewrite <- Et; reflexivity|].
    destruct K1 as [(-> & Vc & Pe)|(-> & Pc & Ve)].
    + rewrite Pe. apply MD_vb; assumption.
    + rewrite Ve. apply MD_pal; assumption.
  - destruct (dec_chunk (mid1 + 1) m1 b1) as [i3 [e|m2 b2 mid2]] eqn:E3; [discriminate|].
    assert (Hp1 : m_pal m1 = default_palette /\ mid1 = 0 /\ vb_chunk c1 (m_vb m1)).
    { destruct K1 as [(-> & Vc & Pe)|(-> & Pc & Ve)]; [auto|].
      exfalso. unfold dec_chunk in E3. destruct (dec_natural b1) as [[l3 n3]|]; [|discriminate].
      cbv beta iota zeta in E3. match type of E3 with context [dec_natural ?t] => destruct (dec_natural t) as [[md3 n4]|] end; [|discriminate].
      destruct (2 <=? md3) eqn:A; [discriminate|]. destruct (md3 <? 1 + 1) eqn:B; [discriminate|]. lia. }
    destruct Hp1 as (Hp1 & -> & Vc1).
    destruct (chunk_sound _ _ _ _ _ _ _ Wb1 Hp1 E3) as (Cc3 & Hmid2 & c2 & Eb2 & K2).
    destruct (dec_chunks f1 (nc - 1 - 1) (mid2 + 1) m2 b2) as [i4 r4] eqn:E4. cbv beta iota zeta in E2. injection E2 as <- ->.
    destruct K2 as [(-> & _)|(-> & Pc2 & Ve2)]; [lia|].
    destruct f1 as [|f2]; cbn [dec_chunks] in E4; destruct (nc - 1 - 1 <=? 0) eqn:C2.
    + injection E4 as <- <- <-. assert (nc = 2) as -> by lia.
      split; [rewrite !calls_line, !calls_of_app, Cc1, Cc3; reflexivity|].
      exists (firstn n t ++ c1 ++ c2). split; [rewrite <- !app_assoc, <- Eb2, <- Eb1, <- Et; reflexivity|].
      rewrite Ve2. apply MD_both; assumption.
    + discriminate.
    + injection E4 as <- <- <-. assert (nc = 2) as -> by lia.
      split; [rewrite !calls_line, !calls_of_app, Cc1, Cc3; reflexivity|].
      exists (firstn n t ++ c1 ++ c2). split; [rewrite <- !app_assoc, <- Eb2, <- Eb1, <- Et; reflexivity|].
      rewrite Ve2. apply MD_both; assumption.
    + exfalso. destruct (dec_chunk (1 + 1) m2 b2) as [i5 [e|m3 b3 mid3]] eqn:E5; [discriminate|].
      unfold dec_chunk in E5. destruct (dec_natural b2) as [[l3 n3]|]; [|discriminate].
      cbv beta iota zeta in E5. match type of E5 with context [dec_natural ?t] => destruct (dec_natural t) as [[md3 n4]|] end; [|discriminate].
      destruct (2 <=? md3) eqn:A; [discriminate|]. destruct (md3 <? 1 + 1) eqn:B; [discriminate|]. lia.
Qed.

Lemma nat_enc_nonempty bs u : nat_enc bs u -> (1 <= length bs)%nat.
Proof. intros [ | | ]; cbn; lia. Qed.

Lemma metadata_complete md vb pal : metadata md vb pal -> wf_bytes md -> forall rest,
  exists its, dec_metadata (magic ++ md ++ rest) = (its, ChunksOk (mkMeta vb pal) rest) /\ calls_of its = [].
Proof.
  intros H W rest. unfold dec_metadata.
  destruct (magic_prefix (md ++ rest)) as (Hp & F4 & S4). rewrite Hp, F4, S4. cbn [negb]. cbv beta iota zeta.
  destruct H as [bn Hn|bn c vb Hn Hc|bn c pal Hn Hc|bn c0 c1 vb pal Hn Hc0 Hc1].
  - pose proof (nat_complete _ _ rest Hn) as Dn. rwc Dn. cbv beta iota zeta. rewrite skipn_app_len.
    cbn [dec_chunks Z.leb Z.compare]. eexists. split; reflexivity.
  - rewrite <- app_assoc. pose proof (nat_complete _ _ (c ++ rest) Hn) as Dn. rwc Dn. cbv beta iota zeta. rewrite skipn_app_len.
    destruct (vb_chunk_complete _ _ Hc 0 default_meta rest ltac:(lia)) as (its & E & C).
    cbn [dec_chunks Z.leb Z.compare Pos.compare]. rewrite E. replace (1 - 1) with 0 by lia. rewrite dec_chunks_zero.
    eexists. split; [reflexivity|]. rewrite !calls_line, app_nil_r. exact C.
  - rewrite <- app_assoc. pose proof (nat_complete _ _ (c ++ rest) Hn) as Dn. rwc Dn. cbv beta iota zeta. rewrite skipn_app_len.
    apply wf_bytes_app in W as [_ Wc].
    destruct (pal_chunk_complete _ _ Hc Wc 0 default_meta rest ltac:(lia) eq_refl) as (its & E & C).
    cbn [dec_chunks Z.leb Z.compare Pos.compare]. rewrite E. replace (1 - 1) with 0 by lia. rewrite dec_chunks_zero.
    eexists. split; [reflexivity|]. rewrite !calls_line, app_nil_r. exact C.
  - rewrite <- !app_assoc. pose proof (nat_complete _ _ (c0 ++ c1 ++ rest) Hn) as Dn. rwc Dn. cbv beta iota zeta. rewrite skipn_app_len.
    apply wf_bytes_app in W as [_ W]. apply wf_bytes_app in W as [_ Wc1].
    destruct (vb_chunk_complete _ _ Hc0 0 default_meta (c1 ++ rest) ltac:(lia)) as (its0 & E0 & C0).
    destruct (pal_chunk_complete _ _ Hc1 Wc1 (0 + 1) (mkMeta vb (m_pal default_meta)) rest ltac:(lia) eq_refl) as (its1 & E1 & C1).
    assert (Hl : exists f, length (c0 ++ c1 ++ rest) = S f).
    { destruct Hc0 as [bl ? ? ? ? ? ? ? ? ? ? ? ? ? ? Hbl ?]. pose proof (nat_enc_nonempty _ _ Hbl).
      rewrite !app_length. destruct (length bl); [lia|]. eexists. reflexivity. }
    destruct Hl as [f ->].
    cbn [dec_chunks Z.leb Z.compare Pos.compare]. rewrite E0. replace (2 - 1) with 1 by lia.
    cbn [dec_chunks Z.leb Z.compare Pos.compare]. rewrite E1. replace (1 - 1) with 0 by lia. rewrite dec_chunks_zero.
    eexists. split; [reflexivity|]. rewrite !calls_line, !calls_of_app, C0, C1. reflexivity.
Qed.

Lemma valid_black : valid_premul opaque_black = true. Proof. reflexivity. Qed.

Lemma metadata_pal_valid md vb pal : metadata md vb pal -> Forall (fun c => valid_premul c = true) pal.
Proof.
  assert (Hd : Forall (fun c => valid_premul c = true) default_palette).
  { unfold default_palette. apply Forall_forall. intros c I. apply repeat_spec in I. subst. reflexivity. }
  assert (Hpc : forall c pal, pal_chunk c pal -> Forall (fun c => valid_premul c = true) pal).
  { intros c pal0 [bl bmid h bs ex _ _ Pc _]. apply Forall_app. split.
    - clear - Pc. induction Pc as [|n b0 c0 bs0 cs0 Hc Hcs IH]; constructor; [|exact IH].
      unfold palette_entry. destruct c0 as [d| | |]; try reflexivity. destruct (valid_premul d) eqn:V; [exact V|reflexivity].
    - apply Forall_forall. intros c' I. apply repeat_spec in I. subst. reflexivity. }
  intros [ | | |]; eauto.
Qed.

(* ---------- C03: the decoder is the grammar ---------- *)
Theorem decoder_sound b cs : wf_bytes b -> decode_calls [] b = (cs, Done) -> ffv0 b cs.
Proof.
  intros W. unfold decode_calls, decode_items.
  destruct (dec_metadata b) as [its r] eqn:Em. destruct r as [o|m rest].
  { intros [= _ ->]. exfalso. exact (dec_metadata_err _ _ _ Em eq_refl). }
  destruct (metadata_sound _ _ _ _ W Em) as (C & md & Eb & Md).
  destruct (dec_metadata_wf _ _ _ _ W Em) as [_ Wr].
  cbn [apply_opts m_vb m_pal].
  destruct (dec_ops (length rest) false rest) as [its' o] eqn:Eo. intros [= <- ->].
  rewrite calls_of_app, C. cbn [app calls_of flat_map]. fold (calls_of its').
  rewrite (sanitize_id _ (metadata_pal_valid _ _ _ Md)). rewrite Eb.
  apply FFV0; [exact Md|exact (prog_sound _ _ _ _ Wr Eo)].
Qed.

Theorem decoder_complete b cs : wf_bytes b -> ffv0 b cs -> decode_calls [] b = (cs, Done).
Proof.
  intros W H. destruct H as [md code vb pal cs Md Pr].
  apply wf_bytes_app in W as [_ W]. apply wf_bytes_app in W as [Wmd Wc].
  destruct (metadata_complete _ _ _ Md Wmd code) as (its & Em & C).
  pose proof (prog_complete _ _ _ Pr Wc) as R. unfold run in R.
  unfold decode_calls, decode_items. rwc Em. cbn [apply_opts m_vb m_pal].
  destruct (dec_ops (length code) false code) as [its' o]. injection R as R1 ->.
  rewrite calls_of_app, C. cbn [app calls_of flat_map]. fold (calls_of its'). rewrite R1.
  rewrite (sanitize_id _ (metadata_pal_valid _ _ _ Md)). reflexivity.
Qed.

Theorem decoder_is_grammar b cs : wf_bytes b -> (decode_calls [] b = (cs, Done) <-> ffv0 b cs).
Proof. intros W. split; [apply decoder_sound, W|apply decoder_complete, W]. Qed.

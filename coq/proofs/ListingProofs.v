(* ListingProofs.v — the operations announced by the lines of a (successful) decoding are exactly the
   operations delivered (C11). *)
From Coq Require Import ZArith Bool List Lia.
From IVG Require Import SF NumCodec Color Calls Decoder DecProofs Listing.
Import ListNotations.
Local Open Scope Z_scope.
Ltac Zify.zify_post_hook ::= Z.div_mod_to_equations.
Local Opaque Z.add Z.mul Z.modulo Z.div.

Definition payloads (its : list item) : list payload :=
  flat_map (fun i => match i with ILine _ p => [p] | ICall _ => [] end) its.

Lemma payloads_app a b : payloads (a ++ b) = payloads a ++ payloads b.
Proof. apply flat_map_app. Qed.

Definition runl (l : list payload) (st : pend * list call) := fold_left lstep l st.

Lemma runl_app a b st : runl (a ++ b) st = runl b (runl a st).
Proof. apply fold_left_app. Qed.

Lemma read_coords_S k b :
  read_coords (S k) b =
  match read_num dec_coordinate PNum b with
  | None => ([], None)
  | Some (it, x, b1) =>
      let '(its, r) := read_coords k b1 in
      (it ++ its, match r with None => None | Some (xs, b2) => Some (x :: xs, b2) end)
  end.
Proof. reflexivity. Qed.

Lemma coords_feed k : forall b its xs rest mk acc out extra,
  read_coords k b = (its, Some (xs, rest)) ->
  runl (payloads its) (PNums mk (k + S extra) acc, out) = (PNums mk (S extra) (acc ++ xs), out).
Proof.
  induction k as [|k IH]; intros b its xs rest mk acc out extra; cbn [read_coords].
  - intros [= <- <- _]. cbn. rewrite app_nil_r. reflexivity.
  - unfold read_num. destruct (dec_coordinate b) as [[x n]|]; [|discriminate].
    destruct (read_coords k (skipn n b)) as [its' [[xs' r']|]] eqn:E; [|discriminate].
    intros [= <- <- _]. cbn [app payloads flat_map]. fold (payloads its').
    change (runl (PNum x :: payloads its') (PNums mk (S k + S extra) acc, out))
      with (runl (payloads its') (lstep (PNums mk (S (k + S extra)) acc, out) (PNum x))).
    cbn [lstep]. replace (k + S extra)%nat with (S (k + extra)) by lia.
    replace (S (k + extra)) with (k + S extra)%nat by lia.
    rewrite (IH _ _ _ _ mk (acc ++ [x]) out extra E). rewrite <- app_assoc. reflexivity.
Qed.

Lemma coords_finish k : forall b its xs rest mk acc out,
  read_coords (S k) b = (its, Some (xs, rest)) ->
  runl (payloads its) (PNums mk (S k) acc, out) = (PIdle, out ++ [mk (acc ++ xs)]).
Proof.
  induction k as [|k IH]; intros b its xs rest mk acc out.
  - cbn [read_coords]. unfold read_num. destruct (dec_coordinate b) as [[x n]|]; [|discriminate].
    cbn [app]. intros [= <- <- _]. cbn. reflexivity.
  - rewrite read_coords_S. unfold read_num. destruct (dec_coordinate b) as [[x n]|]; [|discriminate].
    destruct (read_coords (S k) (skipn n b)) as [its' [[xs' r']|]] eqn:E; [|discriminate].
    intros [= <- <- _]. cbn [app payloads flat_map]. fold (payloads its').
    change (runl (PNum x :: payloads its') (PNums mk (S (S k)) acc, out))
      with (runl (payloads its') (lstep (PNums mk (S (S k)) acc, out) (PNum x))).
    cbn [lstep]. rewrite (IH _ _ _ _ mk (acc ++ [x]) out E). rewrite <- app_assoc. reflexivity.
Qed.

Lemma coords_len k : forall b its xs rest, read_coords k b = (its, Some (xs, rest)) -> length xs = k.
Proof. intros b its xs rest E. destruct (read_coords_pref k b its _ E) as (_ & _ & L). apply (L xs rest eq_refl). Qed.

Lemma calls_coords k b its r : read_coords k b = (its, r) -> calls_of its = [].
Proof.
  intros E. destruct (read_coords_pref k b its r E) as (_ & C & _). unfold ncalls in C.
  destruct (calls_of its); [reflexivity|discriminate].
Qed.

Lemma runl_calls_only its : forall st, payloads its = [] -> runl (payloads its) st = st.
Proof. intros st ->. reflexivity. Qed.

(* one successful repetition of a drawing op, starting from the state after its instruction line *)
Lemma draw_rep_run op k b its b' out : (k = op_arity op) -> op <> opA -> op <> opa -> (1 <= k)%nat ->
  draw_rep op k b = (its, Some b') ->
  runl (payloads its) (PNums (CDraw op) k [], out) = (PIdle, out ++ calls_of its) /\ length (calls_of its) = 1%nat.
Proof.
  intros K NA Na L. unfold draw_rep. destruct (read_coords k b) as [its0 [[xs rest]|]] eqn:E; [|discriminate].
  intros [= <- <-]. rewrite payloads_app, calls_of_app, (calls_coords _ _ _ _ E). cbn [payloads flat_map calls_of app].
  rewrite app_nil_r. destruct k as [|k]; [lia|]. rewrite (coords_finish _ _ _ _ _ _ _ _ E). split; reflexivity.
Qed.

Lemma arc_rep_run rel b its b' out :
  arc_rep rel b = (its, Some b') ->
  runl (payloads its) (PArcS rel 0 [] 0, out) = (PIdle, out ++ calls_of its) /\ length (calls_of its) = 1%nat.
Proof.
  unfold arc_rep. destruct (read_coords 2 b) as [its0 [[xs b1]|]] eqn:E0; [|discriminate].
  destruct xs as [|rx [|ry [|? ?]]]; try discriminate.
  unfold read_num. destruct (dec_zero_to_one b1) as [[rot n1]|]; [|discriminate].
  destruct (dec_natural (skipn n1 b1)) as [[fl n2]|]; [|discriminate].
  destruct (read_coords 2 (skipn n2 (skipn n1 b1))) as [its2 [[ys b4]|]] eqn:E2; [|discriminate].
  destruct ys as [|x [|y [|? ?]]]; try discriminate. intros [= <- <-].
  (* unfold the two coordinate pairs *)
  cbn [read_coords] in E0, E2. unfold read_num in E0, E2.
  destruct (dec_coordinate b) as [[a0 m0]|]; [|discriminate].
  destruct (dec_coordinate (skipn m0 b)) as [[a1 m1]|]; [|discriminate]. injection E0 as <- <- <- _.
  destruct (dec_coordinate (skipn n2 (skipn n1 b1))) as [[c0 k0]|]; [|discriminate].
  destruct (dec_coordinate (skipn k0 _)) as [[c1 k1]|]; [|discriminate]. injection E2 as <- <- <- _.
  cbn. split; reflexivity.
Qed.

Lemma start_op_draw op : op <> opA -> op <> opa -> start_op op = PNums (CDraw op) (op_arity op) [].
Proof.
  intros NA Na. unfold start_op. apply Z.eqb_neq in NA, Na. rewrite NA, Na. reflexivity.
Qed.

(* repetitions: the first one runs from the state after the PDrawOp line, later ones after a PImplicit line *)
Lemma reps_run k : forall op one b its b' out,
  (forall b its b' out, one b = (its, Some b') ->
     runl (payloads its) (start_op op, out) = (PIdle, out ++ calls_of its)) ->
  reps false k op one b = (its, Some b') ->
  runl (payloads its) (PIdle, out) = (PIdle, out ++ calls_of its).
Proof.
  induction k as [|k IH]; intros op one b its b' out H; cbn [reps].
  - intros [= <- _]. cbn. rewrite app_nil_r. reflexivity.
  - destruct (one b) as [its1 [b1|]] eqn:E; [|discriminate].
    destruct (reps false k op one b1) as [its' [b2|]] eqn:E2; [|discriminate]. intros [= <- _].
    change (payloads (ILine [] (PImplicit op) :: its1 ++ its')) with (PImplicit op :: payloads (its1 ++ its')).
    change (calls_of (ILine [] (PImplicit op) :: its1 ++ its')) with (calls_of (its1 ++ its')).
    rewrite !payloads_app, !calls_of_app.
    change (runl (PImplicit op :: payloads its1 ++ payloads its') (PIdle, out))
      with (runl (payloads its1 ++ payloads its') (start_op op, out)).
    rewrite runl_app, (H _ _ _ _ E), (IH _ _ _ _ _ _ H E2), app_assoc. reflexivity.
Qed.

Lemma reps_run_first k op one b its b' out :
  (forall b its b' out, one b = (its, Some b') ->
     runl (payloads its) (start_op op, out) = (PIdle, out ++ calls_of its)) ->
  reps true (S k) op one b = (its, Some b') ->
  runl (payloads its) (start_op op, out) = (PIdle, out ++ calls_of its).
Proof.
  intros H. cbn [reps]. destruct (one b) as [its1 [b1|]] eqn:E; [|discriminate].
  destruct (reps false k op one b1) as [its' [b2|]] eqn:E2; [|discriminate]. intros [= <- _].
  cbn [app]. rewrite !payloads_app, !calls_of_app.
  rewrite runl_app, (H _ _ _ _ E), (reps_run _ _ _ _ _ _ _ H E2), app_assoc. reflexivity.
Qed.

Lemma op_arity_vals : op_arity opL = 2%nat /\ op_arity opl = 2%nat /\ op_arity opT = 2%nat /\ op_arity opt = 2%nat /\
  op_arity opQ = 4%nat /\ op_arity opq = 4%nat /\ op_arity opS = 4%nat /\ op_arity ops = 4%nat /\
  op_arity opC = 6%nat /\ op_arity opc = 6%nat /\ op_arity opY = 2%nat /\ op_arity opy = 2%nat /\
  op_arity opH = 1%nat /\ op_arity oph = 1%nat /\ op_arity opV = 1%nat /\ op_arity opv = 1%nat.
Proof. vm_compute. repeat split. Qed.

Lemma styling_step_run opcode b its d b' out : styling_step opcode b = (its, StepOk d b') ->
  runl (payloads its) (PIdle, out) = (PIdle, out ++ calls_of its).
Proof.
  unfold styling_step. cbv zeta beta.
  destruct (opcode <? 64); [intros [= <- _ _]; reflexivity|].
  destruct (opcode <? 128); [intros [= <- _ _]; reflexivity|].
  destruct (opcode <? 168).
  { destruct (dec_color_form _ b) as [[c n]|]; [|discriminate]. intros [= <- _ _]. reflexivity. }
  destruct (opcode <? 192).
  { destruct ((if _ =? 0 then dec_real else if _ =? 1 then dec_coordinate else dec_zero_to_one) b) as [[f n]|]; [|discriminate].
    intros [= <- _ _]. reflexivity. }
  destruct (opcode <? 199).
  { destruct (read_coords 2 b) as [its0 [[xs bb]|]] eqn:E; [|discriminate].
    destruct xs as [|x [|y [|? ?]]]; try discriminate. intros [= <- _ _].
    change (payloads (ILine [opcode] (PStartPath (opcode mod 8)) :: its0 ++ [ICall (CStartPath (opcode mod 8) x y)]))
      with (PStartPath (opcode mod 8) :: payloads (its0 ++ [ICall (CStartPath (opcode mod 8) x y)])).
    change (calls_of (ILine [opcode] (PStartPath (opcode mod 8)) :: its0 ++ [ICall (CStartPath (opcode mod 8) x y)]))
      with (calls_of (its0 ++ [ICall (CStartPath (opcode mod 8) x y)])).
    rewrite payloads_app, calls_of_app, (calls_coords _ _ _ _ E). cbn [payloads flat_map calls_of app]. rewrite app_nil_r.
    change (runl (PStartPath (opcode mod 8) :: payloads its0) (PIdle, out))
      with (runl (payloads its0) (PNums (fun xs => CStartPath (opcode mod 8) (nth 0 xs 0) (nth 1 xs 0)) 2 [], out)).
    rewrite (coords_finish _ _ _ _ _ _ _ _ E). reflexivity. }
  destruct (opcode =? 199).
  { unfold read_num. destruct (dec_real b) as [[l0 n0]|]; [|discriminate].
    destruct (dec_real (skipn n0 b)) as [[l1 n1]|]; [|discriminate]. intros [= <- _ _]. reflexivity. }
  discriminate.
Qed.

Lemma drawing_step_run opcode b its d b' out : drawing_step opcode b = (its, StepOk d b') ->
  runl (payloads its) (PIdle, out) = (PIdle, out ++ calls_of its).
Proof.
  unfold drawing_step, draw_group. cbv zeta beta.
  destruct (opcode <? 224).
  { set (cfg := if _ <? 2 then _ else _). destruct cfg as [[op ncoords] nreps] eqn:Ecfg.
    assert (K : (op = opA \/ op = opa \/ (op <> opA /\ op <> opa /\ ncoords = op_arity op /\ (1 <= ncoords)%nat)) /\ 1 <= nreps).
    { unfold cfg in Ecfg.
      repeat match type of Ecfg with (if ?c then _ else _) = _ => destruct c end;
      injection Ecfg as <- <- <-; (split; [|lia]); auto;
      right; right; (split; [discriminate|split; [discriminate|split; [reflexivity|lia]]]). }
    destruct K as [K Kn].
    set (one := if op =? opA then arc_rep false else if op =? opa then arc_rep true else draw_rep op ncoords).
    assert (H : forall b its b' out, one b = (its, Some b') ->
                runl (payloads its) (start_op op, out) = (PIdle, out ++ calls_of its)).
    { intros b0 i0 b0' o0. unfold one, start_op. destruct K as [->|[->|(NA & Na & Ar & L1)]].
      - change (opA =? opA) with true. cbv iota. intros E. apply (arc_rep_run _ _ _ _ _ E).
      - change (opa =? opA) with false. change (opa =? opa) with true. cbv iota. intros E. apply (arc_rep_run _ _ _ _ _ E).
      - assert (EA : (op =? opA) = false) by (apply Z.eqb_neq; exact NA).
        assert (Ea : (op =? opa) = false) by (apply Z.eqb_neq; exact Na). rewrite EA, Ea.
        intros E. rewrite <- Ar. apply (draw_rep_run op ncoords b0 i0 b0' o0 Ar NA Na L1 E). }
    destruct (reps true (Z.to_nat nreps) op one b) as [its0 [bb|]] eqn:E; [|discriminate]. intros [= <- _ _].
    destruct (Z.to_nat nreps) as [|k] eqn:Ek; [lia|].
    change (payloads (ILine [opcode] (PDrawOp op nreps) :: its0)) with (PDrawOp op nreps :: payloads its0).
    change (calls_of (ILine [opcode] (PDrawOp op nreps) :: its0)) with (calls_of its0).
    change (runl (PDrawOp op nreps :: payloads its0) (PIdle, out)) with (runl (payloads its0) (start_op op, out)).
    apply (reps_run_first _ _ _ _ _ _ _ H E). }
  destruct (opcode =? 225); [intros [= <- _ _]; reflexivity|].
  assert (S : forall op k, op <> opA -> op <> opa -> op <> opZ -> k = op_arity op -> (1 <= k)%nat ->
     (match draw_rep op k b with
      | (its0, Some b') => (ILine [opcode] (PSimple op) :: its0, StepOk true b')
      | (its0, None) => (ILine [opcode] (PSimple op) :: its0, StepErr EInvalidNumber)
      end) = (its, StepOk d b') -> runl (payloads its) (PIdle, out) = (PIdle, out ++ calls_of its)).
  { intros op k NA Na NZ Ar L1. destruct (draw_rep op k b) as [its0 [bb|]] eqn:E; [|discriminate]. intros [= <- _ _].
    change (payloads (ILine [opcode] (PSimple op) :: its0)) with (PSimple op :: payloads its0).
    change (calls_of (ILine [opcode] (PSimple op) :: its0)) with (calls_of its0).
    assert (EZ : (op =? opZ) = false) by (apply Z.eqb_neq; exact NZ).
    change (runl (PSimple op :: payloads its0) (PIdle, out)) with (runl (payloads its0) (lstep (PIdle, out) (PSimple op))).
    cbn [lstep]. rewrite EZ. rewrite (start_op_draw op NA Na), <- Ar.
    apply (draw_rep_run op k b its0 bb out Ar NA Na L1 E). }
  destruct (opcode =? 226); [apply S; try discriminate; try reflexivity; lia|].
  destruct (opcode =? 227); [apply S; try discriminate; try reflexivity; lia|].
  destruct (opcode =? 230); [apply S; try discriminate; try reflexivity; lia|].
  destruct (opcode =? 231); [apply S; try discriminate; try reflexivity; lia|].
  destruct (opcode =? 232); [apply S; try discriminate; try reflexivity; lia|].
  destruct (opcode =? 233); [apply S; try discriminate; try reflexivity; lia|].
  discriminate.
Qed.

(* the listing of the instruction part announces exactly the calls delivered *)
Theorem listing_matches_calls fuel : forall drawing b its out,
  dec_ops fuel drawing b = (its, Done) ->
  runl (payloads its) (PIdle, out) = (PIdle, out ++ calls_of its).
Proof.
  induction fuel as [|fuel IH]; intros drawing b its out; destruct b as [|opcode rest]; cbn [dec_ops].
  - intros [= <-]. cbn. rewrite app_nil_r. reflexivity.
  - discriminate.
  - intros [= <-]. cbn. rewrite app_nil_r. reflexivity.
  - destruct ((if drawing then drawing_step else styling_step) opcode rest) as [its1 [e|d b']] eqn:E; [discriminate|].
    destruct (dec_ops fuel d b') as [its' o'] eqn:E2. intros [= <- ->].
    rewrite payloads_app, calls_of_app, runl_app.
    assert (R1 : runl (payloads its1) (PIdle, out) = (PIdle, out ++ calls_of its1)).
    { destruct drawing; [eapply drawing_step_run|eapply styling_step_run]; exact E. }
    rewrite R1, (IH _ _ _ _ E2), app_assoc. reflexivity.
Qed.

(* whole decode: metadata lines, then Reset, then the instruction listing that matches the calls *)
Theorem disasm_calls os b its : decode_items os b = (its, Done) ->
  exists mits vb pal iits,
    its = mits ++ ICall (CReset vb pal) :: iits /\ calls_of mits = [] /\
    calls_of its = CReset vb pal :: calls_of iits /\
    read_listing (payloads iits) = (PIdle, calls_of iits).
Proof.
  unfold decode_items. destruct (dec_metadata b) as [its0 r] eqn:E.
  destruct (dec_metadata_ok _ _ _ E) as (C & _). unfold ncalls in C.
  assert (C0 : calls_of its0 = []) by (destruct (calls_of its0); [reflexivity|discriminate]).
  destruct r as [o|m rest]; [intros [= <- ->]; exfalso; exact (dec_metadata_err _ _ _ E eq_refl)|].
  destruct (apply_opts os m) as [m'|]; [|discriminate].
  destruct (dec_ops (length rest) false rest) as [its' o] eqn:E2. intros [= <- ->].
  exists its0, (m_vb m'), (sanitize_palette (m_pal m')), its'. split; [reflexivity|]. split; [exact C0|].
  split; [rewrite calls_of_app, C0; reflexivity|]. apply (listing_matches_calls _ _ _ _ [] E2).
Qed.

(* Disassemble succeeds exactly when Decode (with no options) accepts, and fails with the same error *)
Theorem disasm_accepts_iff b : snd (disassemble b) = snd (decode_calls [] b).
Proof.
  unfold disassemble, decode_calls. destruct (decode_items [] b) as [its o]. destruct o; reflexivity.
Qed.

Theorem disasm_bytes b lines : disassemble b = (Some lines, Done) -> concat (map fst lines) = b.
Proof.
  unfold disassemble. destruct (decode_items [] b) as [its o] eqn:E. destruct o; try discriminate.
  intros [= <-]. rewrite <- (lines_cover_input _ _ _ E).
  clear E. induction its as [|i r IH]; [reflexivity|]. destruct i as [bb p|c]; cbn.
  - unfold lines_of in IH. rewrite IH. reflexivity.
  - exact IH.
Qed.

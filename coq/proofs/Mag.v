(* Mag.v — magnitude classes for float32 error analysis:  mag x k  says  2^-k <= |x| <= 2^k.
   Products and quotients add the exponents, a relative perturbation adds one; below k = 126 a value is in the
   normal range of float32 and far from overflow, so multiplications and divisions round with relative error u. *)
From Coq Require Import ZArith Reals Lia Lra Bool.
From IVG Require Import SF SFProofs SFRound SFReal SFReal2 FErr.
Local Open Scope R_scope.

Definition mag (x : R) (k : nat) : Prop := / 2 ^ k <= Rabs x <= 2 ^ k.

Lemma pow2_pos k : 0 < 2 ^ k. Proof. apply pow_lt. lra. Qed.
Lemma pow2_ge1 k : 1 <= 2 ^ k. Proof. apply pow_R1_Rle. lra. Qed.
Lemma pow2_mono k j : (k <= j)%nat -> 2 ^ k <= 2 ^ j. Proof. intros H. apply Rle_pow; [lra|exact H]. Qed.

Lemma mag_weaken x k j : (k <= j)%nat -> mag x k -> mag x j.
Proof.
  intros H [A B]. pose proof (pow2_mono k j H). pose proof (pow2_pos k). split; [|lra].
  apply Rle_trans with (/ 2 ^ k); [apply Rinv_le_contravar; lra|exact A].
Qed.

Lemma mag_nz x k : mag x k -> x <> 0.
Proof. intros [A _] Z. subst x. rewrite Rabs_R0 in A. pose proof (Rinv_0_lt_compat _ (pow2_pos k)). lra. Qed.

Lemma mag_mul x y k j : mag x k -> mag y j -> mag (x * y) (k + j).
Proof.
  intros [A B] [C D]. unfold mag. rewrite Rabs_mult, pow_add.
  pose proof (pow2_pos k). pose proof (pow2_pos j). pose proof (Rinv_0_lt_compat _ H). pose proof (Rinv_0_lt_compat _ H0).
  rewrite Rinv_mult. split; apply Rmult_le_compat; lra.
Qed.

Lemma mag_inv x k : mag x k -> mag (/ x) k.
Proof.
  intros [A B]. pose proof (pow2_pos k). pose proof (Rinv_0_lt_compat _ H).
  assert (0 < Rabs x) by lra. unfold mag. rewrite Rabs_inv. split.
  - apply Rinv_le_contravar; lra.
  - rewrite <- (Rinv_inv (2 ^ k)). apply Rinv_le_contravar; lra.
Qed.

Lemma mag_div x y k j : mag x k -> mag y j -> mag (x / y) (k + j).
Proof. intros Hx Hy. apply mag_mul; [exact Hx|apply mag_inv, Hy]. Qed.

Lemma mag_rel a b e k : rel a b e -> e <= / 2 -> mag b k -> mag a (S k).
Proof.
  intros R He [A B]. pose proof (rel_bound _ _ _ R). pose proof (rel_lower _ _ _ R ltac:(lra)).
  pose proof (pow2_pos k). pose proof (Rinv_0_lt_compat _ H1). pose proof (Rabs_pos b).
  unfold mag. cbn [pow]. rewrite Rinv_mult. split; nra.
Qed.

Lemma mag_opp x k : mag x k -> mag (- x) k.
Proof. unfold mag. rewrite Rabs_Ropp. auto. Qed.

Lemma pow2_IZR k : 2 ^ k = IZR (2 ^ Z.of_nat k).
Proof. rewrite <- pow_IZR. reflexivity. Qed.

Lemma mag_big x k : mag x k -> (k <= 126)%nat -> Rabs x < big /\ / IZR (2 ^ 126) <= Rabs x.
Proof.
  intros [A B] H. pose proof (pow2_mono k 126 H) as M. pose proof (pow2_pos k).
  assert (E : 2 ^ 126 = IZR (2 ^ 126)) by (rewrite (pow2_IZR 126); reflexivity). split.
  - unfold big. apply Rle_lt_trans with (2 ^ 126); [lra|]. rewrite E. apply IZR_lt. reflexivity.
  - rewrite <- E. apply Rle_trans with (/ 2 ^ k); [apply Rinv_le_contravar; lra|exact A].
Qed.

Lemma mag_lt_big x k : Rabs x <= 2 ^ k -> (k <= 126)%nat -> Rabs x < big.
Proof.
  intros B H. pose proof (pow2_mono k 126 H) as M.
  assert (E : 2 ^ 126 = IZR (2 ^ 126)) by (rewrite (pow2_IZR 126); reflexivity).
  unfold big. apply Rle_lt_trans with (2 ^ 126); [lra|]. rewrite E. apply IZR_lt. reflexivity.
Qed.

(* operations on good floats of bounded magnitude *)
Lemma div32m a b k j : gf a -> gf b -> mag (V a) k -> mag (V b) j -> (k + j <= 126)%nat ->
  gf (fdiv F32 a b) /\ rel (V (fdiv F32 a b)) (V a / V b) u32.
Proof.
  intros Ga Gb Ma Mb H. pose proof (mag_div _ _ _ _ Ma Mb) as Mq. destruct (mag_big _ _ Mq H) as [Ov Nr].
  destruct (div32 a b Ga Gb (mag_nz _ _ Mb) Ov) as (G & _ & R). split; [exact G|exact (R Nr)].
Qed.

Lemma mul32m a b k j : gf a -> gf b -> mag (V a) k -> mag (V b) j -> (k + j <= 126)%nat ->
  gf (fmul F32 a b) /\ rel (V (fmul F32 a b)) (V a * V b) u32.
Proof.
  intros Ga Gb Ma Mb H. pose proof (mag_mul _ _ _ _ Ma Mb) as Mq. destruct (mag_big _ _ Mq H) as [Ov Nr].
  destruct (mul32 a b Ga Gb Ov) as (G & _ & R). split; [exact G|exact (R Nr)].
Qed.

Lemma u32_small : 0 < u32 <= / 1000000.
Proof. unfold u32. lra. Qed.

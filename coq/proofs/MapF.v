(* MapF.v — float32 error of the viewBox-to-pixel map as render.go computes it (C05):
     scale = float32(w) / (max - min),  bias = -min,  abs(x) = scale * (x + bias)
   For a viewBox side of at least 2^-40, coordinates of magnitude at most 2^40 and a raster size of at most 2^24,
   the computed pixel coordinate is within  7 * 2^-24  (relative) + 2^-150 of the exact affine image
     w / (max - min) * (x - min). *)
From Coq Require Import ZArith Reals Lia Lra Bool.
From IVG Require Import SF SFProofs SFRound SFReal SFReal2 FErr.
Local Open Scope R_scope.

Definition P40 : R := 1099511627776.
Definition P24 : R := 16777216.

Lemma big_val : big = 170141183460469231731687303715884105728.
Proof. reflexivity. Qed.

Lemma div_eps e : 0 <= e <= / 4 -> (e + e) / (1 - e) <= 3 * e.
Proof.
  intros [H0 H1]. apply Rmult_le_reg_r with (1 - e); [lra|].
  unfold Rdiv. rewrite Rmult_assoc, Rinv_l, Rmult_1_r by lra. nra.
Qed.

Lemma Rabs_le_div a b A B : Rabs a <= A -> B <= Rabs b -> 0 < B -> Rabs (a / b) <= A / B.
Proof.
  intros Ha Hb HB. unfold Rdiv. rewrite Rabs_mult, Rabs_inv.
  apply Rmult_le_compat; [apply Rabs_pos|left; apply Rinv_0_lt_compat; lra|exact Ha|apply Rinv_le_contravar; lra].
Qed.

Lemma Rabs_ge_div a b A B : A <= Rabs a -> Rabs b <= B -> 0 <= A -> 0 < Rabs b -> A / B <= Rabs (a / b).
Proof.
  intros Ha Hb HA Hb0. unfold Rdiv. rewrite Rabs_mult, Rabs_inv.
  apply Rmult_le_compat; [exact HA|left; apply Rinv_0_lt_compat; lra|exact Ha|apply Rinv_le_contravar; lra].
Qed.

Section Map.
Variables (w : Z) (mn mx x : Z).
Hypothesis Gmn : gf mn.
Hypothesis Gmx : gf mx.
Hypothesis Gx : gf x.
Hypothesis Hw : (1 <= w <= 2 ^ 24)%Z.
Hypothesis Hsize : / P40 <= V mx - V mn.
Hypothesis Bmn : Rabs (V mn) <= P40.
Hypothesis Bmx : Rabs (V mx) <= P40.
Hypothesis Bx : Rabs (V x) <= P40.

Let sc := fdiv F32 (of_Z F32 w) (fsub F32 mx mn).
Let bx := fneg F32 mn.
Let r := fmul F32 sc (fadd F32 x bx).
Let S := IZR w / (V mx - V mn).
Let T := V x - V mn.

Lemma w_bounds : 1 <= IZR w <= P24.
Proof. destruct Hw as [A B]. apply IZR_le in A. apply IZR_le in B. change (IZR (2 ^ 24)) with P24 in B. lra. Qed.

Theorem scale_err : gf sc /\ rel (V sc) S (9 / 2 * u32).
Proof.
  pose proof w_bounds as [W1 W2]. unfold P24, P40 in *.
  assert (U : u32 = / 16777216) by reflexivity.
  (* d = max - min *)
  assert (Ov1 : Rabs (V mx - V mn) < big).
  { rewrite big_val. eapply Rle_lt_trans; [apply Rabs_triang|]. rewrite Rabs_Ropp. lra. }
  destruct (sub32 mx mn Gmx Gmn Ov1) as [Gd Rd].
  assert (Dp : 0 < V mx - V mn) by lra.
  assert (Dub : V mx - V mn <= 2 * 1099511627776).
  { pose proof (Rle_abs (V mx)). pose proof (Rle_abs (- V mn)). rewrite Rabs_Ropp in H0. lra. }
  pose proof (rel_bound _ _ _ Rd) as Dhi. pose proof (rel_lower _ _ _ Rd ltac:(lra)) as Dlo.
  rewrite (Rabs_pos_eq (V mx - V mn)) in Dhi, Dlo by lra.
  (* float32(w) *)
  assert (Ov2 : Rabs (IZR w) < big) by (rewrite big_val, Rabs_pos_eq; lra).
  destruct (ofZ32 w Ov2) as [Gw Rw].
  pose proof (rel_bound _ _ _ Rw) as Whi. pose proof (rel_lower _ _ _ Rw ltac:(lra)) as Wlo.
  rewrite (Rabs_pos_eq (IZR w)) in Whi, Wlo by lra.
  (* the quotient *)
  set (d := fsub F32 mx mn) in *. set (wf := of_Z F32 w) in *.
  assert (Dnz : V d <> 0).
  { intros Z. rewrite Z, Rabs_R0 in Dlo. nra. }
  assert (Dabs : 0 < Rabs (V d)) by (apply Rabs_pos_lt; exact Dnz).
  assert (Qhi : Rabs (V wf / V d) <= (2 * 16777216) / (/ (2 * 1099511627776))).
  { apply Rabs_le_div; [nra|nra|lra]. }
  assert (Qlo : (/ 2) / (4 * 1099511627776) <= Rabs (V wf / V d)).
  { apply Rabs_ge_div; [nra|nra|lra|exact Dabs]. }
  assert (Ov3 : Rabs (V wf / V d) < big) by (rewrite big_val; lra).
  destruct (div32 wf d Gw Gd Dnz Ov3) as (Gs & _ & Rs).
  assert (Nr : / IZR (2 ^ 126) <= Rabs (V wf / V d)).
  { eapply Rle_trans; [|exact Qlo]. change (IZR (2 ^ 126)) with 85070591730234615865843651857942052864. lra. }
  specialize (Rs Nr). fold sc in Gs, Rs. split; [exact Gs|].
  (* wf / d  against  w / D *)
  pose proof (rel_div _ _ _ _ _ _ Rw Rd ltac:(lra) ltac:(lra)) as Rq.
  pose proof (div_eps u32 ltac:(lra)) as De.
  pose proof (rel_weaken _ _ _ _ Rq De) as Rq'.
  pose proof (rel_trans _ _ _ _ _ Rs Rq') as Rt. fold S in Rt.
  apply (rel_weaken _ _ _ _ Rt). rewrite U. lra.
Qed.

Theorem map_err : gf r /\ Rabs (V r - S * T) <= 7 * u32 * Rabs (S * T) + / IZR (2 ^ 150).
Proof.
  destruct scale_err as [Gs Rs]. pose proof w_bounds as [W1 W2]. unfold P24, P40 in *.
  assert (U : u32 = / 16777216) by reflexivity.
  (* x + (-min) *)
  destruct (neg32 mn Gmn) as [Gb Vb]. fold bx in Gb, Vb.
  assert (Ov1 : Rabs (V x + V bx) < big).
  { rewrite big_val, Vb. eapply Rle_lt_trans; [apply Rabs_triang|]. rewrite Rabs_Ropp. lra. }
  destruct (add32 x bx Gx Gb Ov1) as [Gt Rt]. rewrite Vb in Rt. fold (V x - V mn) in Rt. fold T in Rt.
  set (t := fadd F32 x bx) in *.
  assert (Tb : Rabs T <= 2 * 1099511627776).
  { unfold T. eapply Rle_trans; [apply Rabs_triang|]. rewrite Rabs_Ropp. lra. }
  assert (Sp : 0 < S) by (unfold S; apply Rdiv_lt_0_compat; lra).
  assert (Sb : S <= 16777216 * 1099511627776).
  { unfold S. apply Rmult_le_reg_r with (V mx - V mn); [lra|].
    unfold Rdiv. rewrite Rmult_assoc, Rinv_l, Rmult_1_r by lra. nra. }
  pose proof (rel_bound _ _ _ Rs) as Shi. rewrite (Rabs_pos_eq S) in Shi by lra.
  pose proof (rel_bound _ _ _ Rt) as Thi.
  assert (Ov2 : Rabs (V sc * V t) < big).
  { rewrite Rabs_mult, big_val. pose proof (Rabs_pos (V sc)). pose proof (Rabs_pos (V t)).
    assert (Rabs (V sc) * Rabs (V t) <= (2 * (16777216 * 1099511627776)) * (2 * (2 * 1099511627776))).
    { apply Rmult_le_compat; nra. }
    lra. }
  destruct (mul32 sc t Gs Gt Ov2) as (Gr & Ea & _). fold r in Gr, Ea. split; [exact Gr|].
  pose proof (rel_mul _ _ _ _ _ _ Rs Rt) as Rp. set (ep := 9 / 2 * u32 + u32 + 9 / 2 * u32 * u32) in Rp.
  pose proof (rel_abs _ _ _ Rp) as Ap. pose proof (rel_bound _ _ _ Rp) as Bp.
  replace (V r - S * T) with ((V r - V sc * V t) + (V sc * V t - S * T)) by ring.
  eapply Rle_trans; [apply Rabs_triang|].
  assert (Ub : 0 < u32 <= / 1000) by (rewrite U; lra).
  assert (Ep : ep <= 56 / 10 * u32). { unfold ep. clear - Ub. nra. }
  pose proof (Rabs_pos (S * T)) as P0.
  assert (u32 * Rabs (V sc * V t) <= u32 * ((1 + ep) * Rabs (S * T))) by (apply Rmult_le_compat_l; [rewrite U; lra|exact Bp]).
  assert (ep * Rabs (S * T) + u32 * ((1 + ep) * Rabs (S * T)) <= 7 * u32 * Rabs (S * T)).
  { replace (ep * Rabs (S * T) + u32 * ((1 + ep) * Rabs (S * T))) with ((ep + u32 * (1 + ep)) * Rabs (S * T)) by ring.
    apply Rmult_le_compat_r; [exact P0|]. clear - Ub Ep. nra. }
  lra.
Qed.
End Map.

Print Assumptions map_err.

(* ---------- the statement on the renderer model: float32 instance against the real instance ---------- *)
From IVG Require Import NumCodec Color Calls Render GeomR.

Lemma V_zero : V 0%Z = 0.
Proof. unfold V, B2R. change (decode F32 0) with (FFin false 0 (-149)). cbn [sm]. ring. Qed.

Section OnModel.
Variables (s : rstate f32) (sR : rstate R) (vb : viewbox) (pal : list rgba) (x y : f32).
Hypothesis Ew : r_w sR = r_w s.
Hypothesis Eh : r_h sR = r_h s.
Hypothesis Hw : (1 <= r_w s <= 2 ^ 24)%Z.
Hypothesis Hh : (1 <= r_h s <= 2 ^ 24)%Z.
Hypothesis Gvb : gf (vminx vb) /\ gf (vminy vb) /\ gf (vmaxx vb) /\ gf (vmaxy vb).
Hypothesis Gxy : gf x /\ gf y.
Hypothesis Hsx : / P40 <= V (vmaxx vb) - V (vminx vb).
Hypothesis Hsy : / P40 <= V (vmaxy vb) - V (vminy vb).
Hypothesis Bvb : Rabs (V (vminx vb)) <= P40 /\ Rabs (V (vminy vb)) <= P40 /\ Rabs (V (vmaxx vb)) <= P40 /\ Rabs (V (vmaxy vb)) <= P40.
Hypothesis Bxy : Rabs (V x) <= P40 /\ Rabs (V y) <= P40.

Let s1 := rreset N32 s vb pal.
Let s1R := rreset (NR V) sR vb pal.

(* the pixel coordinates the float32 renderer computes for an absolute viewBox point are within 7 * 2^-24 (relative)
   plus 2^-150 of the exact affine image computed by the real-number instance of the same definition *)
Theorem abs_point_error :
  let px := absX N32 s1 x in let py := absY N32 s1 y in
  let ex := absX (NR V) s1R (V x) in let ey := absY (NR V) s1R (V y) in
  gf px /\ gf py /\
  Rabs (V px - ex) <= 7 * u32 * Rabs ex + / IZR (2 ^ 150) /\
  Rabs (V py - ey) <= 7 * u32 * Rabs ey + / IZR (2 ^ 150).
Proof.
  destruct Gvb as (G1 & G2 & G3 & G4). destruct Gxy as (G5 & G6).
  destruct Bvb as (B1 & B2 & B3 & B4). destruct Bxy as (B5 & B6).
  cbv zeta.
  pose proof (map_err (r_w s) (vminx vb) (vmaxx vb) x G1 G3 G5 Hw Hsx B1 B3 B5) as [Gx Ex].
  pose proof (map_err (r_h s) (vminy vb) (vmaxy vb) y G2 G4 G6 Hh Hsy B2 B4 B6) as [Gy Ey].
  assert (RX : absX (NR V) s1R (V x) = IZR (r_w s) / (V (vmaxx vb) - V (vminx vb)) * (V x - V (vminx vb))).
  { unfold absX, s1R, rreset. cbn. rewrite Ew. ring. }
  assert (RY : absY (NR V) s1R (V y) = IZR (r_h s) / (V (vmaxy vb) - V (vminy vb)) * (V y - V (vminy vb))).
  { unfold absY, s1R, rreset. cbn. rewrite Eh. ring. }
  rewrite RX, RY. split; [exact Gx|]. split; [exact Gy|]. split; [exact Ex|exact Ey].
Qed.
End OnModel.

Print Assumptions abs_point_error.

(* MdParse.v — mdicons.ParsePathData parses its dialect into exactly the operations the path spells (C20).
   As for the generator (PathParse.v) the dialect is a printer over a structured path. *)
From Coq Require Import ZArith Bool List Lia ZifyBool.
From IVG Require Import SF NumCodec Color Calls Generator PathData.
Import ListNotations.
Local Open Scope Z_scope.

(* ---------- structured converter paths ---------- *)
(* a number: optional sign, integer digits, optional fraction; preceded by any number of spaces *)
(* a number: leading spaces, sign, integer digits, optional fraction, optional exponent (letter e / E, sign, digits) *)
Record mnum := mkMnum { mn_sp : nat; mn_sign : list Z; mn_int : list Z; mn_frac : option (list Z);
                        mn_exp : option (Z * list Z * list Z) }.
Definition mexp_str (n : mnum) : str :=
  match mn_exp n with Some (c, sg, ds) => c :: sg ++ ds | None => [] end.
Definition mmant (n : mnum) : str :=
  mn_sign n ++ mn_int n ++ match mn_frac n with Some f => cDOT :: f | None => [] end.
Definition mtok (n : mnum) : str := mmant n ++ mexp_str n.
Definition print_mnum (n : mnum) : str := repeat cSP (mn_sp n) ++ mtok n.
Definition print_mnums (l : list mnum) : str := flat_map print_mnum l.

Inductive mcmd :=
| MCmd (sp : nat) (v : Z) (g : list mnum) (gs : list (list mnum))   (* spaces, verb letter, first group, repeated groups *)
| MZ (sp : nat) (z : Z).                                            (* spaces, z or Z *)

Definition print_mcmd (c : mcmd) : str :=
  match c with
  | MCmd sp v g gs => repeat cSP sp ++ v :: print_mnums g ++ flat_map print_mnums gs
  | MZ sp z => repeat cSP sp ++ [z]
  end.
Definition print_mpath (cs : list mcmd) (trailing_sp : nat) : str := flat_map print_mcmd cs ++ repeat cSP trailing_sp.

(* ---------- which structured paths are in the dialect ---------- *)
Definition all_digits (l : str) : bool := forallb is_digit l.
Definition sign_ok (l : str) : bool := match l with [] => true | [c] => (c =? cPLUS) || (c =? cMINUS) | _ => false end.
Definition mnum_shape0 (n : mnum) : bool :=
  sign_ok (mn_sign n) && all_digits (mn_int n) &&
  match mn_frac n with
  | Some f => all_digits f && (negb (length (mn_int n) =? 0)%nat || negb (length f =? 0)%nat)
  | None => negb (length (mn_int n) =? 0)%nat
  end &&
  match mn_exp n with
  | Some (c, sg, ds) => is_e c && sign_ok sg && all_digits ds && negb (length ds =? 0)%nat
  | None => true
  end.
(* ... and it is a decimal literal (always true for this shape; kept as a check instead of a lemma) *)
Definition mnum_shape (n : mnum) : bool :=
  mnum_shape0 n && match lit_f32 (mtok n) with Some _ => true | None => false end.
(* the byte after a number must not continue it *)
Definition mfollow_ok (n : mnum) (R : str) : bool :=
  match R with
  | [] => true
  | c :: _ =>
      negb (is_digit c) &&
      match mn_exp n with
      | Some _ => true
      | None => negb (is_expo c) && match mn_frac n with Some _ => true | None => negb (c =? cDOT) end
      end
  end.
(* a repeated group must not start with a space-free letter: its first byte (after spaces) is sign, digit or dot *)
Fixpoint mnums_ok (l : list mnum) (R : str) : bool :=
  match l with
  | [] => true
  | n :: l' => mnum_shape n && mfollow_ok n (print_mnums l' ++ R) && mnums_ok l' R
  end.
Fixpoint mgroups_ok (k : nat) (gs : list (list mnum)) (R : str) : bool :=
  match gs with
  | [] => true
  | g :: gs' => (length g =? k)%nat && mnums_ok g (flat_map print_mnums gs' ++ R) && mgroups_ok k gs' R
  end.
Definition is_move (v : Z) : bool := (v =? 77) || (v =? 109).
Definition mcmd_ok (c : mcmd) (R : str) : bool :=
  match c with
  | MCmd _ v g gs =>
      match md_arity v with
      | Some k => (0 <? k)%nat && mgroups_ok k (g :: gs) R && (negb (is_move v) || (length gs =? 0)%nat)
      | None => false
      end
  | MZ _ z => (z =? 90) || (z =? 122)
  end.
Fixpoint mcmds_ok (cs : list mcmd) (R : str) : bool :=
  match cs with
  | [] => true
  | c :: cs' => mcmd_ok c (flat_map print_mcmd cs' ++ R) && mcmds_ok cs' R
  end.
Definition mpath_ok (cs : list mcmd) (tsp : nat) : bool :=
  match cs with
  | MCmd 0 77 _ [] :: _ => mcmds_ok cs (repeat cSP tsp)
  | _ => false
  end.

(* ---------- what the structure prescribes ---------- *)
Definition mval (n : mnum) : f32 := match lit_f32 (mtok n) with Some x => x | None => 0 end.
Definition mvals (g : list mnum) : list f32 := map mval g.
Definition is_rel (v : Z) : bool := ch v 97 122.
Definition mgroup_calls (adj : Z) (size ox oy outsize : f32) (started : bool) (v : Z) (g : list mnum) : list call :=
  md_call v started adj (md_norm (length g) v size ox oy outsize (is_rel v) (mvals g)).
Definition mcmd_calls (adj : Z) (size ox oy outsize : f32) (started : bool) (c : mcmd) : list call :=
  match c with
  | MCmd _ v g gs => mgroup_calls adj size ox oy outsize started v g ++ flat_map (mgroup_calls adj size ox oy outsize true v) gs
  | MZ _ _ => []
  end.
Definition mpath_calls (adj : Z) (size ox oy outsize : f32) (cs : list mcmd) : list call :=
  match cs with
  | c :: rest => mcmd_calls adj size ox oy outsize false c ++ flat_map (mcmd_calls adj size ox oy outsize true) rest
  | [] => []
  end.

(* ---------- tokens ---------- *)
Lemma md_digits_app l : forall acc R, all_digits l = true -> match R with c :: _ => is_digit c = false | [] => True end ->
  md_digits (l ++ R) acc = (rev acc ++ l, R).
Proof.
  induction l as [|c l IH]; intros acc R D F; cbn [app md_digits].
  - rewrite app_nil_r. destruct R as [|c R]; [reflexivity|]. cbn [md_digits]. rewrite F. reflexivity.
  - cbn [all_digits forallb] in D. apply andb_true_iff in D as [Dc D]. rewrite Dc.
    rewrite (IH (c :: acc) R D F). cbn [rev]. rewrite <- app_assoc. reflexivity.
Qed.

Definition split_sign (l : str) : str * str :=
  match l with c :: r => if (c =? cPLUS) || (c =? cMINUS) then ([c], r) else ([], l) | [] => ([], []) end.
Lemma md_mantissa_unfold l : md_mantissa l =
  let '(sg, l1) := split_sign l in
  let '(ip, l2) := md_digits l1 [] in
  match l2 with
  | c :: r => if c =? cDOT then let '(fp, l3) := md_digits r [] in (sg ++ ip ++ [cDOT] ++ fp, l3) else (sg ++ ip, l2)
  | [] => (sg ++ ip, [])
  end.
Proof. reflexivity. Qed.

(* the mantissa part, followed by anything that does not continue it *)
Definition mant_follow_ok (n : mnum) (R : str) : bool :=
  match R with
  | [] => true
  | c :: _ => negb (is_digit c) && match mn_frac n with Some _ => true | None => negb (c =? cDOT) end
  end.

Lemma md_mantissa_app n R : mnum_shape n = true -> mant_follow_ok n R = true -> md_mantissa (mmant n ++ R) = (mmant n, R).
Proof.
  intros Sh Fo. unfold mnum_shape in Sh. apply andb_true_iff in Sh as [Sh _]. unfold mnum_shape0 in Sh.
  apply andb_true_iff in Sh as [Sh _]. apply andb_true_iff in Sh as [Sh Hfr]. apply andb_true_iff in Sh as [Hs Hi].
  unfold mmant. rewrite md_mantissa_unfold.
  rewrite <- !app_assoc.
  set (T := mn_int n ++ match mn_frac n with Some f => cDOT :: f | None => [] end ++ R).
  (* first character after the sign is a digit or a dot, never a sign *)
  assert (HT : match T with c :: _ => (c =? cPLUS) || (c =? cMINUS) = false | [] => True end).
  { unfold T. destruct (mn_int n) as [|d ds] eqn:Ei.
    - destruct (mn_frac n) as [f|]; [cbn; reflexivity|cbn in Hfr; discriminate].
    - cbn [app]. cbn [all_digits forallb] in Hi. apply andb_true_iff in Hi as [Hd _].
      unfold is_digit, ch, cPLUS, cMINUS in *. lia. }
  assert (Hsg : split_sign (mn_sign n ++ T) = (mn_sign n, T)).
  { unfold split_sign. destruct (mn_sign n) as [|c [|? ?]]; try discriminate.
    - cbn [app]. destruct T as [|c T0]; [reflexivity|]. rewrite HT. reflexivity.
    - cbn [sign_ok] in Hs. cbn [app]. rewrite Hs. reflexivity. }
  rewrite Hsg. unfold T. clear Hsg HT T.
  destruct (mn_frac n) as [f|] eqn:Ef.
  - apply andb_true_iff in Hfr as [Hf _].
    rewrite (md_digits_app (mn_int n) [] _ Hi); [|cbn; reflexivity]. cbn [rev app].
    assert (cDOT =? cDOT = true) as -> by reflexivity.
    rewrite (md_digits_app f [] R Hf); [cbn [rev app]; reflexivity|].
    unfold mant_follow_ok in Fo. rewrite Ef in Fo. destruct R as [|c R]; [exact I|]. apply andb_true_iff in Fo as [Fo _].
    apply negb_true_iff in Fo. exact Fo.
  - cbn [app]. unfold mant_follow_ok in Fo. rewrite Ef in Fo.
    rewrite (md_digits_app (mn_int n) [] R Hi).
    + cbn [rev app]. rewrite !app_nil_r. destruct R as [|c R]; [reflexivity|].
      apply andb_true_iff in Fo as [_ Fo]. apply negb_true_iff in Fo. rewrite Fo. reflexivity.
    + destruct R as [|c R]; [exact I|]. apply andb_true_iff in Fo as [Fo _]. apply negb_true_iff in Fo. exact Fo.
Qed.

Lemma is_e_not_digit c : is_e c = true -> is_digit c = false /\ (c =? cDOT) = false /\ is_expo c = true.
Proof. unfold is_e, is_expo, is_e, is_digit, ch, cDOT. intros H. repeat split; lia. Qed.

Lemma md_token_app n R : mnum_shape n = true -> mfollow_ok n R = true -> md_token (mtok n ++ R) = (mtok n, R).
Proof.
  intros Sh Fo. pose proof Sh as Sh0. unfold mnum_shape in Sh0. apply andb_true_iff in Sh0 as [Sh0 _]. unfold mnum_shape0 in Sh0.
  apply andb_true_iff in Sh0 as [_ Hex].
  unfold mtok, md_token, mexp_str. rewrite <- app_assoc.
  destruct (mn_exp n) as [[[c sg] ds]|] eqn:Ee.
  - apply andb_true_iff in Hex as [Hex Hne]. apply andb_true_iff in Hex as [Hex Hds]. apply andb_true_iff in Hex as [Hc Hsg].
    destruct (is_e_not_digit c Hc) as (Nd & Ndot & Ex).
    rewrite (md_mantissa_app n ((c :: sg ++ ds) ++ R) Sh).
    2:{ unfold mant_follow_ok. cbn [app]. rewrite Nd, Ndot. destruct (mn_frac n); reflexivity. }
    cbn [app]. rewrite Ex.
    (* the sign and the digits of the exponent *)
    assert (Hd1 : match ds ++ R with d :: _ => (d =? cPLUS) || (d =? cMINUS) = false | [] => True end).
    { destruct ds as [|d ds']; [cbn in Hne; discriminate|]. cbn [app]. cbn [all_digits forallb] in Hds.
      apply andb_true_iff in Hds as [Hd _]. unfold is_digit, ch, cPLUS, cMINUS in *. lia. }
    assert (Hfollow : match R with x :: _ => is_digit x = false | [] => True end).
    { unfold mfollow_ok in Fo. rewrite Ee in Fo. destruct R as [|x R']; [exact I|].
      apply andb_true_iff in Fo as [Fo _]. apply negb_true_iff in Fo. exact Fo. }
    destruct sg as [|g [|? ?]]; try discriminate.
    + cbn [app]. destruct (ds ++ R) as [|d T] eqn:ET.
      * destruct ds; [cbn in Hne; discriminate|discriminate ET].
      * rewrite Hd1. rewrite <- ET. rewrite (md_digits_app ds [] R Hds Hfollow). cbn [rev app]. reflexivity.
    + cbn [sign_ok] in Hsg. cbn [app]. rewrite Hsg.
      rewrite (md_digits_app ds [] R Hds Hfollow). cbn [rev app]. reflexivity.
  - cbn [app]. rewrite !app_nil_r.
    unfold mfollow_ok in Fo. rewrite Ee in Fo.
    rewrite (md_mantissa_app n R Sh).
    2:{ unfold mant_follow_ok. destruct R as [|x R']; [reflexivity|]. apply andb_true_iff in Fo as [F1 F2].
        apply andb_true_iff in F2 as [_ F3]. rewrite F1, F3. reflexivity. }
    destruct R as [|x R']; [reflexivity|].
    apply andb_true_iff in Fo as [_ F2]. apply andb_true_iff in F2 as [F2 _]. apply negb_true_iff in F2. rewrite F2. reflexivity.
Qed.

(* ---------- scanning a group ---------- *)
Lemma skip_sp_repeat k : forall R, match R with c :: _ => c =? cSP = false | [] => True end ->
  md_skip_sp (repeat cSP k ++ R) = R.
Proof.
  induction k as [|k IH]; intros R H; cbn [repeat app].
  - destruct R as [|c R]; [reflexivity|]. cbn [md_skip_sp]. rewrite H. reflexivity.
  - cbn [md_skip_sp]. change (cSP =? cSP) with true. cbv iota. apply IH, H.
Qed.

Lemma mtok_first n R : mnum_shape n = true ->
  exists c T, mtok n ++ R = c :: T /\ c =? cSP = false /\ ch c 65 90 = false /\ ch c 97 122 = false.
Proof.
  intros Sh. unfold mnum_shape in Sh. apply andb_true_iff in Sh as [Sh _]. unfold mnum_shape0 in Sh.
  apply andb_true_iff in Sh as [Sh _].
  apply andb_true_iff in Sh as [Sh Hfr]. apply andb_true_iff in Sh as [Hs Hi]. unfold mtok, mmant. rewrite <- !app_assoc.
  destruct (mn_sign n) as [|c [|? ?]]; try discriminate.
  - destruct (mn_int n) as [|d ds].
    + destruct (mn_frac n) as [f|]; [|cbn in Hfr; discriminate]. cbn [app]. exists cDOT. eexists. split; [reflexivity|]. repeat split.
    + cbn [app]. cbn [all_digits forallb] in Hi. apply andb_true_iff in Hi as [Hd _]. exists d. eexists. split; [reflexivity|].
      unfold is_digit, ch, cSP in *. repeat split; lia.
  - cbn [sign_ok] in Hs. cbn [app]. exists c. eexists. split; [reflexivity|]. unfold ch, cSP, cPLUS, cMINUS in *. repeat split; lia.
Qed.

Lemma mval_some n : mnum_shape n = true -> lit_f32 (mtok n) = Some (mval n).
Proof.
  intros Sh. unfold mnum_shape in Sh. apply andb_true_iff in Sh as [_ Sh]. unfold mval.
  destruct (lit_f32 (mtok n)); [reflexivity|discriminate].
Qed.

Lemma skipn_skipn2 {A} (a b : nat) : forall l : list A, skipn a (skipn b l) = skipn (b + a) l.
Proof.
  induction b as [|b IH]; intros l; [reflexivity|]. destruct l as [|x l]; [rewrite !skipn_nil; reflexivity|].
  cbn [skipn Nat.add]. apply IH.
Qed.

Lemma md_scan_ok g : forall i args R, mnums_ok g R = true -> (i + length g <= length args)%nat ->
  md_scan (length g) i args (print_mnums g ++ R) = (firstn i args ++ mvals g ++ skipn (i + length g) args, R).
Proof.
  induction g as [|n g IH]; intros i args R Ok L.
  - replace (i + length (@nil mnum))%nat with i by (cbn; lia). cbn [length md_scan print_mnums flat_map app mvals map]. rewrite firstn_skipn. reflexivity.
  - cbn [mnums_ok] in Ok. apply andb_true_iff in Ok as [Ok Og]. apply andb_true_iff in Ok as [Sh Fo].
    cbn [length md_scan print_mnums flat_map]. fold (print_mnums g). unfold print_mnum at 1. rewrite <- !app_assoc.
    destruct (mtok_first n (print_mnums g ++ R) Sh) as (c & T & ET & Hsp & _).
    assert (Hskip : md_skip_sp (md_skip_sp (repeat cSP (mn_sp n) ++ mtok n ++ print_mnums g ++ R)) = mtok n ++ print_mnums g ++ R).
    { rewrite skip_sp_repeat by (rewrite ET; exact Hsp). rewrite ET. cbn [md_skip_sp]. rewrite Hsp. reflexivity. }
    rewrite Hskip, (md_token_app n _ Sh Fo), (mval_some n Sh).
    cbn [length] in L. rewrite (IH (S i) _ R Og).
    2:{ rewrite app_length. cbn [length]. rewrite firstn_length, skipn_length. lia. }
    f_equal. cbn [mvals map].
    assert (Li : length (firstn i args) = i) by (rewrite firstn_length; lia).
    rewrite firstn_app, Li. replace (S i - i)%nat with 1%nat by lia. rewrite (firstn_all2 (n := S i)) by lia.
    cbn [firstn]. rewrite <- app_assoc. cbn [app]. f_equal. f_equal. f_equal.
    rewrite skipn_app, Li, (skipn_all2 (n := S i + length g)) by lia. cbn [app].
    replace (S i + length g - i)%nat with (S (length g)) by lia.
    change (skipn (S (length g)) (mval n :: skipn (S i) args)) with (skipn (length g) (skipn (S i) args)).
    rewrite skipn_skipn2. f_equal. lia.
Qed.

(* ---------- normalize and the call depend only on the operands just read ---------- *)
Lemma combine_app {A B} (a : list A) (c : list B) : forall b d, length a = length c ->
  combine (a ++ b) (c ++ d) = combine a c ++ combine b d.
Proof.
  revert c. induction a as [|x a IH]; intros [|y c] b d L; cbn in L; try lia; [reflexivity|].
  cbn [app combine]. rewrite IH by lia. reflexivity.
Qed.

Lemma md_norm_tail n op size ox oy outsize (rel : bool) junk : forall k, (n <= k)%nat ->
  map (fun '(i, x) =>
         if (i <? n)%nat then
           let x := fmul F32 x (fdiv F32 outsize size) in
           if rel then x else
             let x := fsub F32 x (fdiv F32 outsize (of_Z F32 2)) in
             if negb (n =? 1)%nat then fsub F32 x (if Nat.even i then ox else oy)
             else if op =? 72 then fsub F32 x ox else if op =? 86 then fsub F32 x oy else x
         else x) (combine (seq k (length junk)) junk) = junk.
Proof.
  induction junk as [|x junk IH]; intros k L; [reflexivity|]. cbn [length seq combine map].
  assert ((k <? n)%nat = false) as -> by (apply Nat.ltb_ge; lia). rewrite IH by lia. reflexivity.
Qed.

Lemma md_norm_app n op size ox oy outsize rel vals junk : length vals = n ->
  md_norm n op size ox oy outsize rel (vals ++ junk) = md_norm n op size ox oy outsize rel vals ++ junk.
Proof.
  intros L. unfold md_norm. rewrite app_length, seq_app, combine_app by (rewrite seq_length; reflexivity).
  rewrite map_app. f_equal. cbn [Nat.add]. rewrite L. apply md_norm_tail. lia.
Qed.

Lemma md_norm_length n op size ox oy outsize rel a : length (md_norm n op size ox oy outsize rel a) = length a.
Proof. unfold md_norm. rewrite map_length, combine_length, seq_length. lia. Qed.

Lemma md_call_app op st adj a junk : md_arity op = Some (length a) -> md_call op st adj (a ++ junk) = md_call op st adj a.
Proof.
  intros Ha. unfold md_call.
  destruct (op =? 77) eqn:E77.
  { assert (op = 77) as -> by lia. cbn in Ha. injection Ha as Ha. destruct a as [|x [|y [|? ?]]]; try discriminate. reflexivity. }
  destruct (op =? 109) eqn:E109.
  { assert (op = 109) as -> by lia. cbn in Ha. injection Ha as Ha. destruct a as [|x [|y [|? ?]]]; try discriminate. reflexivity. }
  destruct ((op =? 90) || (op =? 122)); [reflexivity|]. rewrite Ha.
  rewrite firstn_app, Nat.sub_diag, firstn_all. cbn [firstn]. rewrite app_nil_r. reflexivity.
Qed.

Lemma arity_letter v k : md_arity v = Some k -> (ch v 65 90 = true /\ is_rel v = false) \/ (ch v 65 90 = false /\ ch v 97 122 = true /\ is_rel v = true).
Proof.
  unfold md_arity, is_rel, ch.
  repeat match goal with |- context [v =? ?c] => let E := fresh "E" in destruct (v =? c) eqn:E; [assert (v = c) as -> by lia; intros _; cbn; auto|] end.
  cbn. discriminate.
Qed.

(* ---------- the verb loop ---------- *)
Lemma loop_spaces k : forall fuel adj size ox oy outsize st op rel args R,
  md_loop (k + fuel) adj size ox oy outsize st op rel args (repeat cSP k ++ R) =
  md_loop fuel adj size ox oy outsize (match k with O => st | _ => true end) op rel args R.
Proof.
  induction k as [|k IH]; intros; [reflexivity|].
  cbn [Nat.add repeat app md_loop]. change (cSP =? cSP) with true. cbv iota. rewrite IH. destruct k; reflexivity.
Qed.

Lemma step_verb fuel adj size ox oy outsize st op0 rel0 args v k g R :
  md_arity v = Some k -> length g = k -> mnums_ok g R = true -> length args = 6%nat -> (k <= 6)%nat ->
  exists args2, length args2 = 6%nat /\
  md_loop (S fuel) adj size ox oy outsize st op0 rel0 args (v :: print_mnums g ++ R) =
  let '(cs', ok) := md_loop fuel adj size ox oy outsize true v (is_rel v) args2 R in
  (mgroup_calls adj size ox oy outsize st v g ++ cs', ok).
Proof.
  intros Ha Lg Ok La Lk.
  exists (md_norm k v size ox oy outsize (is_rel v) (mvals g ++ skipn k args)).
  split; [rewrite md_norm_length, app_length, skipn_length; unfold mvals; rewrite map_length; lia|].
  cbn [md_loop].
  assert (Hsp : v =? cSP = false).
  { destruct (arity_letter v k Ha) as [[H _]|[_ [H _]]]; unfold ch, cSP in *; lia. }
  rewrite Hsp.
  assert (Hfin : forall (r : bool),
    (match md_arity v with
     | Some n =>
         let '(args1, l2) := md_scan n 0 args (print_mnums g ++ R) in
         let args2 := md_norm n v size ox oy outsize r args1 in
         let cs := md_call v st adj args2 in
         let '(cs', ok) := md_loop fuel adj size ox oy outsize true v r args2 l2 in (cs ++ cs', ok)
     | None => ([], false)
     end) =
    (let '(cs', ok) := md_loop fuel adj size ox oy outsize true v r (md_norm k v size ox oy outsize r (mvals g ++ skipn k args)) R in
     (md_call v st adj (md_norm (length g) v size ox oy outsize r (mvals g)) ++ cs', ok))).
  { intros r. rewrite Ha. rewrite <- Lg at 1. rewrite (md_scan_ok g 0 args R Ok) by lia. cbn [firstn app Nat.add]. cbv zeta.
    rewrite Lg. destruct (md_loop fuel adj size ox oy outsize true v r _ R) as [cs' ok].
    rewrite md_norm_app by (unfold mvals; rewrite map_length; exact Lg).
    rewrite md_call_app; [reflexivity|]. rewrite md_norm_length. unfold mvals. rewrite map_length, Lg. exact Ha. }
  unfold mgroup_calls.
  destruct (arity_letter v k Ha) as [[H1 H2]|[H1 [H2 H3]]]; rewrite H1.
  - rewrite H2. apply Hfin.
  - rewrite H2, H3. apply Hfin.
Qed.

Definition unsp (n : mnum) : mnum := mkMnum 0 (mn_sign n) (mn_int n) (mn_frac n) (mn_exp n).
Definition first_sp (g : list mnum) : nat := match g with n :: _ => mn_sp n | [] => 0%nat end.
Definition unsp_group (g : list mnum) : list mnum := match g with n :: r => unsp n :: r | [] => [] end.

Lemma unsp_facts g R : print_mnums g = repeat cSP (first_sp g) ++ print_mnums (unsp_group g) /\
  mvals (unsp_group g) = mvals g /\ mnums_ok (unsp_group g) R = mnums_ok g R /\ length (unsp_group g) = length g.
Proof.
  destruct g as [|n g]; [repeat split|]. cbn [first_sp unsp_group print_mnums flat_map mvals map mnums_ok length].
  unfold print_mnum at 1 2. cbn [mn_sp unsp repeat app]. rewrite <- app_assoc. repeat split.
Qed.

Lemma step_implicit fuel adj size ox oy outsize op args k g R :
  md_arity op = Some k -> (0 < k)%nat -> length g = k -> mnums_ok g R = true -> length args = 6%nat -> (k <= 6)%nat ->
  exists args2, length args2 = 6%nat /\
  md_loop (first_sp g + S fuel) adj size ox oy outsize true op (is_rel op) args (print_mnums g ++ R) =
  let '(cs', ok) := md_loop fuel adj size ox oy outsize true op (is_rel op) args2 R in
  (mgroup_calls adj size ox oy outsize true op g ++ cs', ok).
Proof.
  intros Ha Hk Lg Ok La Lk.
  destruct (unsp_facts g R) as (Ep & Ev & Eo & El). rewrite <- Eo in Ok.
  exists (md_norm k op size ox oy outsize (is_rel op) (mvals g ++ skipn k args)).
  split; [rewrite md_norm_length, app_length, skipn_length; unfold mvals; rewrite map_length; lia|].
  rewrite Ep, <- app_assoc, loop_spaces.
  assert (Hst : (match first_sp g with O => true | _ => true end) = true) by (destruct (first_sp g); reflexivity). rewrite Hst.
  destruct g as [|n0 g']; [cbn in Lg; lia|]. cbn [unsp_group] in *.
  assert (Sh : mnum_shape (unsp n0) = true).
  { cbn [mnums_ok] in Ok. apply andb_true_iff in Ok as [Ok _]. apply andb_true_iff in Ok as [Sh _]. exact Sh. }
  cbn [print_mnums flat_map]. fold (print_mnums g'). unfold print_mnum at 1. cbn [mn_sp unsp repeat app]. rewrite <- app_assoc.
  destruct (mtok_first (unsp n0) (print_mnums g' ++ R) Sh) as (c & T & ET & Hsp & Hup & Hlo).
  cbn [md_loop]. rewrite ET, Hsp, Hup, Hlo, Ha. rewrite <- ET.
  assert (Epr : mtok (unsp n0) ++ print_mnums g' ++ R = print_mnums (unsp n0 :: g') ++ R).
  { cbn [print_mnums flat_map]. unfold print_mnum at 1. cbn [mn_sp unsp repeat app]. rewrite <- app_assoc. reflexivity. }
  rewrite Epr. rewrite <- Lg at 1. rewrite <- El at 1.
  rewrite (md_scan_ok (unsp n0 :: g') 0 args R Ok) by (rewrite El; lia). cbn [firstn app Nat.add]. cbv zeta.
  rewrite El, Lg, Ev.
  destruct (md_loop fuel adj size ox oy outsize true op (is_rel op) _ R) as [cs' ok].
  unfold mgroup_calls. rewrite md_norm_app by (unfold mvals; rewrite map_length; exact Lg).
  rewrite md_call_app; [rewrite Lg; reflexivity|]. rewrite md_norm_length. unfold mvals. rewrite map_length, Lg. exact Ha.
Qed.

Definition iters_groups (gs : list (list mnum)) : nat := fold_right (fun g a => first_sp g + 1 + a)%nat 0%nat gs.

Lemma groups_loop adj size ox oy outsize op k gs : md_arity op = Some k -> (0 < k)%nat -> (k <= 6)%nat ->
  forall fuel args R, mgroups_ok k gs R = true -> length args = 6%nat ->
  exists args2, length args2 = 6%nat /\
  md_loop (iters_groups gs + fuel) adj size ox oy outsize true op (is_rel op) args (flat_map print_mnums gs ++ R) =
  let '(cs', ok) := md_loop fuel adj size ox oy outsize true op (is_rel op) args2 R in
  (flat_map (mgroup_calls adj size ox oy outsize true op) gs ++ cs', ok).
Proof.
  intros Ha Hk Lk. induction gs as [|g gs IH]; intros fuel args R Ok La.
  - exists args. split; [exact La|]. cbn [iters_groups fold_right flat_map app Nat.add].
    destruct (md_loop fuel adj size ox oy outsize true op (is_rel op) args R). reflexivity.
  - cbn [mgroups_ok] in Ok. apply andb_true_iff in Ok as [Ok Ogs]. apply andb_true_iff in Ok as [Lg Og]. apply Nat.eqb_eq in Lg.
    cbn [iters_groups fold_right flat_map]. fold (iters_groups gs). rewrite <- app_assoc.
    destruct (step_implicit (iters_groups gs + fuel) adj size ox oy outsize op args k g (flat_map print_mnums gs ++ R) Ha Hk Lg Og La Lk) as (a1 & La1 & E1).
    replace (first_sp g + 1 + iters_groups gs + fuel)%nat with (first_sp g + S (iters_groups gs + fuel))%nat by lia.
    rewrite E1. destruct (IH fuel a1 R Ogs La1) as (a2 & La2 & E2). rewrite E2.
    exists a2. split; [exact La2|]. destruct (md_loop fuel adj size ox oy outsize true op (is_rel op) a2 R). rewrite <- app_assoc. reflexivity.
Qed.

Definition sp_of (c : mcmd) : nat := match c with MCmd sp _ _ _ => sp | MZ sp _ => sp end.
Definition iters_c (c : mcmd) : nat :=
  match c with MCmd sp _ _ gs => (sp + 1 + iters_groups gs)%nat | MZ sp _ => (sp + 1)%nat end.

Lemma arity_le6 v k : md_arity v = Some k -> (k <= 6)%nat.
Proof.
  unfold md_arity. repeat match goal with |- context [if ?c then _ else _] => destruct c end; intros [= <-]; lia.
Qed.

Lemma cmd_loop adj size ox oy outsize c : forall fuel st op0 rel0 args R,
  mcmd_ok c R = true -> length args = 6%nat -> (st = true \/ sp_of c = 0%nat) ->
  exists op1 rel1 args2, length args2 = 6%nat /\
  md_loop (iters_c c + fuel) adj size ox oy outsize st op0 rel0 args (print_mcmd c ++ R) =
  let '(cs', ok) := md_loop fuel adj size ox oy outsize true op1 rel1 args2 R in
  (mcmd_calls adj size ox oy outsize st c ++ cs', ok).
Proof.
  intros fuel st op0 rel0 args R Ok La Hst. destruct c as [sp v g gs|sp z].
  - cbn [mcmd_ok] in Ok. destruct (md_arity v) as [k|] eqn:Ha; [|discriminate].
    apply andb_true_iff in Ok as [Ok _]. apply andb_true_iff in Ok as [Hk Ok]. apply Nat.ltb_lt in Hk.
    cbn [mgroups_ok] in Ok. apply andb_true_iff in Ok as [Ok Ogs]. apply andb_true_iff in Ok as [Lg Og]. apply Nat.eqb_eq in Lg.
    pose proof (arity_le6 v k Ha) as Lk.
    cbn [iters_c print_mcmd mcmd_calls]. rewrite <- !app_assoc. cbn [app].
    replace (sp + 1 + iters_groups gs + fuel)%nat with (sp + S (iters_groups gs + fuel))%nat by lia.
    rewrite loop_spaces.
    assert (Hst' : (match sp with O => st | _ => true end) = st).
    { destruct Hst as [->|H0]; [destruct sp; reflexivity|cbn in H0; subst sp; reflexivity]. }
    rewrite Hst'. rewrite <- app_assoc.
    destruct (step_verb (iters_groups gs + fuel) adj size ox oy outsize st op0 rel0 args v k g (flat_map print_mnums gs ++ R) Ha Lg Og La Lk) as (a1 & La1 & E1).
    rewrite E1. destruct (groups_loop adj size ox oy outsize v k gs Ha Hk Lk fuel a1 R Ogs La1) as (a2 & La2 & E2). rewrite E2.
    exists v, (is_rel v), a2. split; [exact La2|]. destruct (md_loop fuel adj size ox oy outsize true v (is_rel v) a2 R). rewrite <- app_assoc. reflexivity.
  - cbn [mcmd_ok] in Ok. cbn [iters_c print_mcmd mcmd_calls app]. rewrite <- app_assoc. cbn [app].
    replace (sp + 1 + fuel)%nat with (sp + S fuel)%nat by lia. rewrite loop_spaces. cbn [md_loop].
    assert (Hz : z = 90 \/ z = 122) by lia.
    exists z, (is_rel z), (md_norm 0 z size ox oy outsize (is_rel z) args). split; [rewrite md_norm_length; exact La|].
    destruct Hz as [-> | ->]; cbn [Z.eqb Pos.eqb cSP ch Z.leb Z.compare Pos.compare Pos.compare_cont andb md_arity orb md_scan];
      destruct (md_loop fuel adj size ox oy outsize true _ _ _ R); reflexivity.
Qed.

Definition iters_cs (cs : list mcmd) : nat := fold_right (fun c a => iters_c c + a)%nat 0%nat cs.

Lemma cmds_loop adj size ox oy outsize cs : forall fuel st op0 rel0 args tsp,
  mcmds_ok cs (repeat cSP tsp) = true -> length args = 6%nat ->
  (st = true \/ match cs with c :: _ => sp_of c = 0%nat | [] => True end) ->
  md_loop (iters_cs cs + (tsp + fuel)) adj size ox oy outsize st op0 rel0 args (flat_map print_mcmd cs ++ repeat cSP tsp) =
  (match cs with
   | c :: rest => mcmd_calls adj size ox oy outsize st c ++ flat_map (mcmd_calls adj size ox oy outsize true) rest
   | [] => []
   end, true).
Proof.
  induction cs as [|c cs IH]; intros fuel st op0 rel0 args tsp Ok La Hst.
  - cbn [iters_cs fold_right flat_map app Nat.add]. rewrite <- (app_nil_r (repeat cSP tsp)), loop_spaces.
    destruct fuel; reflexivity.
  - cbn [mcmds_ok] in Ok. apply andb_true_iff in Ok as [Oc Ocs].
    cbn [iters_cs fold_right flat_map]. fold (iters_cs cs). rewrite <- app_assoc, <- Nat.add_assoc.
    assert (Hst' : st = true \/ sp_of c = 0%nat) by (destruct Hst; auto).
    destruct (cmd_loop adj size ox oy outsize c (iters_cs cs + (tsp + fuel)) st op0 rel0 args _ Oc La Hst') as (op1 & rel1 & a1 & La1 & E).
    rewrite E. rewrite (IH fuel true op1 rel1 a1 tsp Ocs La1 (or_introl eq_refl)).
    destruct cs; reflexivity.
Qed.

(* every iteration consumes at least one byte *)
Lemma iters_groups_le k gs R : (0 < k)%nat -> mgroups_ok k gs R = true -> (iters_groups gs <= length (flat_map print_mnums gs))%nat.
Proof.
  intros Hk. revert R. induction gs as [|g gs IH]; intros R Ok; [cbn; lia|].
  cbn [mgroups_ok] in Ok. apply andb_true_iff in Ok as [Ok Ogs]. apply andb_true_iff in Ok as [Lg Og]. apply Nat.eqb_eq in Lg.
  cbn [iters_groups fold_right flat_map]. fold (iters_groups gs). rewrite app_length. specialize (IH R Ogs).
  destruct g as [|n g]; [cbn in Lg; lia|]. cbn [first_sp print_mnums flat_map]. rewrite app_length. unfold print_mnum. rewrite app_length, repeat_length.
  cbn [mnums_ok] in Og. apply andb_true_iff in Og as [Og _]. apply andb_true_iff in Og as [Sh _].
  destruct (mtok_first n [] Sh) as (c & T & ET & _). rewrite app_nil_r in ET. rewrite ET. cbn [length]. lia.
Qed.

Lemma iters_c_le c R : mcmd_ok c R = true -> (iters_c c <= length (print_mcmd c))%nat.
Proof.
  destruct c as [sp v g gs|sp z]; intros Ok; cbn [iters_c print_mcmd]; rewrite app_length, repeat_length; [|cbn; lia].
  cbn [mcmd_ok] in Ok. destruct (md_arity v) as [k|]; [|discriminate].
  apply andb_true_iff in Ok as [Ok _]. apply andb_true_iff in Ok as [Hk Ok]. apply Nat.ltb_lt in Hk.
  cbn [mgroups_ok] in Ok. apply andb_true_iff in Ok as [_ Ogs].
  cbn [length]. rewrite app_length. pose proof (iters_groups_le k gs R Hk Ogs). lia.
Qed.

Lemma iters_cs_le cs R : mcmds_ok cs R = true -> (iters_cs cs <= length (flat_map print_mcmd cs))%nat.
Proof.
  induction cs as [|c cs IH]; intros Ok; [cbn; lia|]. cbn [mcmds_ok] in Ok. apply andb_true_iff in Ok as [Oc Ocs].
  cbn [iters_cs fold_right flat_map]. fold (iters_cs cs). rewrite app_length. pose proof (iters_c_le c _ Oc). specialize (IH Ocs). lia.
Qed.

(* ParsePathData on a path of the dialect (without the optional final z, which TrimSuffix removes) *)
Theorem md_loop_correct adj size ox oy outsize cs tsp : mpath_ok cs tsp = true ->
  let d := print_mpath cs tsp in
  md_loop (S (length d)) adj size ox oy outsize false 0 false (repeat 0 6) d = (mpath_calls adj size ox oy outsize cs, true).
Proof.
  intros Ok d. unfold mpath_ok in Ok. destruct cs as [|[sp v g gs|sp z] rest]; try discriminate.
  destruct sp; [|discriminate].
  assert (Ok' : mcmds_ok (MCmd 0 v g gs :: rest) (repeat cSP tsp) = true).
  { destruct v; try discriminate. repeat (destruct p; try discriminate). destruct gs; [exact Ok|discriminate]. }
  pose proof (iters_cs_le _ _ Ok') as Li.
  assert (Hf : exists fuel, S (length d) = (iters_cs (MCmd 0 v g gs :: rest) + (tsp + fuel))%nat).
  { exists (S (length d) - iters_cs (MCmd 0 v g gs :: rest) - tsp)%nat. unfold d, print_mpath. rewrite app_length, repeat_length. lia. }
  destruct Hf as [fuel ->]. unfold d, print_mpath.
  rewrite (cmds_loop adj size ox oy outsize _ fuel false 0 false (repeat 0 6) tsp Ok' eq_refl (or_intror eq_refl)).
  reflexivity.
Qed.

Lemma trim_z_snoc d : trim_z (d ++ [122]) = d.
Proof. unfold trim_z. rewrite rev_app_distr. cbn [rev app]. apply rev_involutive. Qed.

Lemma trim_z_other d c : c <> 122 -> trim_z (d ++ [c]) = d ++ [c].
Proof.
  intros H. unfold trim_z. rewrite rev_app_distr. cbn [rev app]. destruct c; try reflexivity.
  repeat (destruct p; try reflexivity). congruence.
Qed.

(* with the optional trailing z *)
Theorem md_parse_path_data_correct adj size ox oy outsize cs tsp : mpath_ok cs tsp = true ->
  md_parse_path_data (print_mpath cs tsp ++ [122]) adj size ox oy outsize = (mpath_calls adj size ox oy outsize cs, true).
Proof.
  intros Ok. unfold md_parse_path_data. rewrite trim_z_snoc. apply md_loop_correct, Ok.
Qed.

(* MdProofs.v — the Material Design converter's opacity registers and circles (C20). *)
From Coq Require Import ZArith Bool List Lia.
From IVG Require Import SF NumCodec Color Calls Generator PathData.
Import ListNotations.
Local Open Scope Z_scope.

(* no opacity, or opacity 1: the current colour register, no call *)
Lemma opacity_none adjs : md_opacity adjs None = ([], 0, adjs).
Proof. reflexivity. Qed.
Lemma opacity_one adjs o : feq F32 o k1 = true -> md_opacity adjs (Some o) = ([], 0, adjs).
Proof. intros H. unfold md_opacity. rewrite H. reflexivity. Qed.

(* an opacity seen before: its register is reused, nothing is emitted *)
Lemma opacity_reused adjs o a : feq F32 o k1 = false -> adj_lookup adjs o = Some a ->
  md_opacity adjs (Some o) = ([], a, adjs).
Proof. intros H L. unfold md_opacity. rewrite H, L. reflexivity. Qed.

(* a new opacity: the next register is set to blend(t, transparent, first palette colour), t = trunc(255 o) *)
Lemma opacity_new adjs o : feq F32 o k1 = false -> adj_lookup adjs o = None ->
  let a := (Z.of_nat (length adjs) + 1) mod 256 in
  let t := match ftrunc F32 (fmul F32 o c255) with Some i => i mod 256 | None => 0 end in
  md_opacity adjs (Some o) = ([CSetCReg a false (CBlend t 127 128)], a, adjs ++ [(o, a)]).
Proof. intros H L. unfold md_opacity. rewrite H, L. reflexivity. Qed.

Lemma lookup_app adjs o a : feq F32 o o = true -> adj_lookup adjs o = None -> adj_lookup (adjs ++ [(o, a)]) o = Some a.
Proof.
  intros Hr. induction adjs as [|[k v] adjs IH]; cbn [adj_lookup app]; intros L.
  - rewrite Hr. reflexivity.
  - destruct (feq F32 k o); [discriminate|]. apply IH, L.
Qed.

(* one register per distinct opacity: whatever happened before, the second path with the same (non-NaN)
   opacity gets the same register and sets nothing *)
Theorem opacity_one_register adjs o : feq F32 o k1 = false -> feq F32 o o = true ->
  let '(_, a1, adjs1) := md_opacity adjs (Some o) in
  md_opacity adjs1 (Some o) = ([], a1, adjs1).
Proof.
  intros H Hr. destruct (adj_lookup adjs o) as [a|] eqn:L.
  - rewrite (opacity_reused adjs o a H L). apply opacity_reused; assumption.
  - rewrite (opacity_new adjs o H L). cbv zeta. apply opacity_reused; [exact H|]. apply lookup_app; assumption.
Qed.

(* registers already handed out are never changed by later paths *)
Theorem opacity_table_grows adjs opacity : exists ext, snd (md_opacity adjs opacity) = adjs ++ ext.
Proof.
  unfold md_opacity. destruct (negb _); [|exists []; cbn; rewrite app_nil_r; reflexivity].
  destruct (adj_lookup adjs _); [exists []; cbn; rewrite app_nil_r; reflexivity|].
  eexists. cbn [snd]. reflexivity.
Qed.

(* circles: three calls each, in order; only the very first move can be a StartPath *)
Lemma circles_fold adj size ox oy outsize cs : forall need acc,
  snd (fold_left (fun (st : bool * list call) c => (false, snd st ++ md_circle adj size ox oy outsize (fst st) c)) cs (need, acc)) =
  acc ++ match cs with
         | [] => []
         | c :: cs' => md_circle adj size ox oy outsize need c ++ flat_map (md_circle adj size ox oy outsize false) cs'
         end.
Proof.
  induction cs as [|c cs IH]; intros need acc; cbn [fold_left snd fst].
  - rewrite app_nil_r. reflexivity.
  - rewrite IH. rewrite <- app_assoc. destruct cs; cbn [flat_map]; rewrite ?app_nil_r; reflexivity.
Qed.

Theorem circles_calls adj size ox oy outsize need cs :
  md_circles adj size ox oy outsize need cs =
  match cs with
  | [] => []
  | c :: cs' => md_circle adj size ox oy outsize need c ++ flat_map (md_circle adj size ox oy outsize false) cs'
  end.
Proof. unfold md_circles. rewrite circles_fold. reflexivity. Qed.

(* a circle is a move to its left-most point and two relative arcs with equal radii, rotation 0,
   small-arc, positive sweep, going 2r to the right and 2r back *)
Theorem circle_shape adj size ox oy outsize need c :
  exists mv r, md_circle adj size ox oy outsize need c =
    [mv; CArc true r r 0 false true (fmul F32 c2 r) 0; CArc true r r 0 false true (fmul F32 (fneg F32 c2) r) 0]
    /\ r = fdiv F32 (fmul F32 (ci_r c) outsize) size
    /\ match mv with
       | CStartPath a _ _ => need = true /\ a = adj
       | CDraw op [_; _] => need = false /\ op = opY
       | _ => False
       end.
Proof.
  unfold md_circle. eexists _, _. split; [reflexivity|]. split; [reflexivity|].
  destruct need; auto.
Qed.

(* the whole of ParsePath: register call (if any), the path's calls, the circles, one EndPath *)
Theorem parse_path_shape adjs opacity d size ox oy outsize circles :
  let '(pre, adj, adjs') := md_opacity adjs opacity in
  let '(pcalls, ok) := match d with [] => ([], true) | _ => md_parse_path_data d adj size ox oy outsize end in
  ok = true ->
  md_parse_path adjs opacity d size ox oy outsize circles =
  (pre ++ pcalls ++ md_circles adj size ox oy outsize (match d with [] => true | _ => false end) circles ++ [CEndPath],
   adjs', true).
Proof.
  unfold md_parse_path. destruct (md_opacity adjs opacity) as [[pre adj] adjs'].
  destruct d as [|c d].
  - intros _. reflexivity.
  - destruct (md_parse_path_data (c :: d) adj size ox oy outsize) as [cs ok]. intros ->. reflexivity.
Qed.

(* MetaRT.v — the metadata section written by Encoder.Reset is read back as the same viewBox (each
   coordinate in its written form) and the same suggested palette (C01, C09 palette round trip). *)
From Coq Require Import ZArith Bool List Lia ZifyBool.
From IVG Require Import SF NumCodec Color Calls Decoder Encoder NumBase NumProofs ColorProofs DecProofs EncProofs RoundTrip.
Import ListNotations.
Local Open Scope Z_scope.
Ltac Zify.zify_post_hook ::= Z.div_mod_to_equations.
Local Opaque Z.mul Z.add Z.div Z.modulo Z.pow.

(* ---------- palettes ---------- *)
Lemma explicit_tail p : skipn (explicit_count p) p = repeat opaque_black (length p - explicit_count p).
Proof.
  induction p as [|c r IH]; [reflexivity|]. cbn [explicit_count].
  destruct (explicit_count r) as [|k] eqn:E.
  - cbn [skipn] in IH. rewrite Nat.sub_0_r in IH.
    destruct (rgba_eqb c opaque_black) eqn:B.
    + apply rgba_eqb_eq in B. subst c. cbn [skipn length]. rewrite Nat.sub_0_r. cbn [repeat]. f_equal. exact IH.
    + cbn [skipn length]. replace (S (length r) - 1)%nat with (length r) by lia. exact IH.
  - cbn [skipn length]. replace (S (length r) - S (S k))%nat with (length r - S k)%nat by lia. exact IH.
Qed.

Lemma explicit_le p : (explicit_count p <= length p)%nat.
Proof.
  induction p as [|c r IH]; [cbn; lia|]. cbn [explicit_count length].
  destruct (explicit_count r); [destruct (rgba_eqb c opaque_black); lia|lia].
Qed.

Lemma explicit_zero p : explicit_count p = 0%nat -> p = repeat opaque_black (length p).
Proof. intros E. pose proof (explicit_tail p) as T. rewrite E in T. cbn [skipn] in T. rewrite Nat.sub_0_r in T. exact T. Qed.

Lemma pal_eqb_false_count pal : length pal = 64%nat -> pal_eqb pal default_palette = false -> (1 <= explicit_count pal)%nat.
Proof.
  intros L B. destruct (explicit_count pal) eqn:E; [|lia].
  apply explicit_zero in E. rewrite L in E. rewrite E in B. vm_compute in B. discriminate.
Qed.

Lemma skipn_skipn' {A} (a b : nat) : forall l : list A, skipn a (skipn b l) = skipn (b + a) l.
Proof.
  induction b as [|b IH]; intros l; [reflexivity|]. destruct l as [|x l]; [rewrite !skipn_nil; reflexivity|].
  cbn [skipn Nat.add]. apply IH.
Qed.

Definition overlay (P : list rgba) (i : nat) (ex : list rgba) : list rgba :=
  firstn i P ++ ex ++ skipn (i + length ex) P.

Lemma overlay_step P i c ex : (i + S (length ex) <= length P)%nat ->
  overlay (set_nth P i c) (S i) ex = overlay P i (c :: ex).
Proof.
  intros L. unfold overlay, set_nth.
  assert (Li : length (firstn i P) = i) by (rewrite firstn_length; lia).
  replace (S i) with (length (firstn i P) + 1)%nat at 1 by lia.
  rewrite firstn_app_2. cbn [firstn]. rewrite <- app_assoc. cbn [app]. f_equal. f_equal.
  cbn [length]. replace (S i + length ex)%nat with (length (firstn i P) + S (length ex))%nat by lia.
  rewrite skipn_app, skipn_all2 by lia. cbn [app].
  replace (length (firstn i P) + S (length ex) - length (firstn i P))%nat with (S (length ex)) by lia.
  change (skipn (S (length ex)) (c :: skipn (S i) P)) with (skipn (length ex) (skipn (S i) P)).
  rewrite skipn_skipn'. f_equal. f_equal. lia.
Qed.

(* reading back a run of palette entries each written by encf, whose form is decoded by dec_color_form k *)
Lemma read_palette_enc (encf : rgba -> list byte) (k form : Z) :
  (if form <? 3 then form else 3) = k ->
  forall ex i P rest,
  Forall (fun c => valid_premul c = true /\ forall t, dec_color_form k (encf c ++ t) = Some (CRGBA c, length (encf c))) ex ->
  (i + length ex <= length P)%nat ->
  exists its, read_palette (length ex) i form P (flat_map encf ex ++ rest) = (its, Some (overlay P i ex, rest)) /\ calls_of its = [].
Proof.
  intros Hk. induction ex as [|c ex IH]; intros i P rest F L.
  - exists []. cbn [length read_palette flat_map app]. unfold overlay. cbn [app length].
    rewrite Nat.add_0_r, firstn_skipn. split; reflexivity.
  - pose proof (Forall_inv F) as [Vc Dc]. pose proof (Forall_inv_tail F) as Fr.
    cbn [length read_palette flat_map]. rewrite Hk, <- app_assoc, Dc, skipn_app_len.
    cbn [length] in L.
    assert (L' : (S i + length ex <= length (set_nth P i (fst (color_rgba (CRGBA c)))))%nat) by (rewrite set_nth_length; lia).
    destruct (IH (S i) _ rest Fr L') as (its & E & C). rewrite E.
    eexists. split.
    { unfold color_rgba. rewrite Vc. cbn [fst]. rewrite overlay_step by lia. reflexivity. }
    cbn [calls_of flat_map app]. exact C.
Qed.

Definition wf_pal (pal : list rgba) : Prop :=
  length pal = 64%nat /\ Forall (fun c => wf_rgba c /\ valid_premul c = true) pal.

Lemma Forall_firstn {A} (P : A -> Prop) k : forall l, Forall P l -> Forall P (firstn k l).
Proof.
  induction k as [|k IH]; intros l F; [constructor|]. destruct l as [|x l]; [constructor|].
  cbn [firstn]. constructor; [exact (Forall_inv F)|apply IH, (Forall_inv_tail F)].
Qed.

Lemma map_flat_single {A B} (f : A -> B) l : map f l = flat_map (fun x => [f x]) l.
Proof. induction l as [|x l IH]; cbn [map flat_map app]; [reflexivity|]. rewrite IH. reflexivity. Qed.

Lemma skipn_repeat {A} (x : A) k n : skipn k (repeat x n) = repeat x (n - k).
Proof.
  revert n. induction k as [|k IH]; intros n; [rewrite Nat.sub_0_r; reflexivity|].
  destruct n as [|n]; [reflexivity|]. cbn [repeat skipn]. rewrite IH. reflexivity.
Qed.

Lemma build_forall (ex : list rgba) (Q : rgba -> Prop) (g : rgba -> bool) :
  Forall (fun c => wf_rgba c /\ valid_premul c = true) ex -> forallb g ex = true ->
  (forall c, wf_rgba c -> valid_premul c = true -> g c = true -> Q c) -> Forall Q ex.
Proof.
  intros F G H. rewrite forallb_forall in G. rewrite Forall_forall in F |- *.
  intros c I. destruct (F c I) as [W V]. apply H; auto.
Qed.

Lemma palette_chunk_decode pal rest : wf_pal pal -> (1 <= explicit_count pal)%nat ->
  exists h body, palette_chunk pal = h :: body /\ 0 <= h < 256 /\
    exists its, read_palette (Z.to_nat (1 + h mod 64)) 0 (h / 64) default_palette (body ++ rest) = (its, Some (pal, rest))
                /\ calls_of its = [].
Proof.
  intros [L F] K. pose proof (explicit_le pal) as Kle. rewrite L in Kle.
  set (k := explicit_count pal) in *. set (ex := firstn k pal).
  assert (Lex : length ex = k) by (unfold ex; rewrite firstn_length; lia).
  assert (Fex : Forall (fun c => wf_rgba c /\ valid_premul c = true) ex) by (apply Forall_firstn, F).
  assert (Hov : overlay default_palette 0 ex = pal).
  { unfold overlay. cbn [firstn app Nat.add]. rewrite Lex. unfold default_palette. rewrite skipn_repeat.
    transitivity (firstn k pal ++ skipn k pal); [|apply firstn_skipn]. fold ex. f_equal. unfold k. rewrite explicit_tail, L. reflexivity. }
  assert (Hnb : forall f, 0 <= f <= 3 ->
            let h := ((Z.of_nat k - 1) mod 256) mod 64 + 64 * f in
            0 <= h < 256 /\ Z.to_nat (1 + h mod 64) = length ex /\ h / 64 = f) by (intros f Hf; cbv zeta; rewrite Lex; lia).
  unfold palette_chunk. fold k. fold ex.
  destruct (forallb enc1_ok ex) eqn:E1; [|destruct (forallb is2 ex) eqn:E2; [|destruct (forallb is3 ex) eqn:E3]].
  - destruct (Hnb 0 ltac:(lia)) as (Hh & Hc & Hf). cbv zeta in Hh, Hc, Hf.
    replace (((Z.of_nat k - 1) mod 256) mod 64) with (((Z.of_nat k - 1) mod 256) mod 64 + 64 * 0) by lia.
    eexists _, _. split; [reflexivity|]. split; [exact Hh|]. rewrite Hc, Hf, map_flat_single.
    replace (Some (pal, rest)) with (Some (overlay default_palette 0 ex, rest)) by (rewrite Hov; reflexivity).
    apply (read_palette_enc (fun c => [match encode1 (CRGBA c) with Some x => x | None => 0 end]) 0 0 eq_refl);
      [|rewrite Lex; unfold default_palette; rewrite repeat_length; lia].
    apply (build_forall ex _ enc1_ok Fex E1). intros c W V G. split; [exact V|]. intros t.
    unfold enc1_ok in G. apply andb_true_iff in G as [_ G].
    destruct (encode1 (CRGBA c)) as [x|] eqn:Ex; [|discriminate].
    destruct (encode1_decode1 (CRGBA c) x W Ex) as [_ D].
    unfold dec_color_form. cbn [Z.eqb app dec_color1 length]. rewrite D. reflexivity.
  - destruct (Hnb 1 ltac:(lia)) as (Hh & Hc & Hf). cbv zeta in Hh, Hc, Hf.
    replace (((Z.of_nat k - 1) mod 256) mod 64 + 64) with (((Z.of_nat k - 1) mod 256) mod 64 + 64 * 1) by lia.
    eexists _, _. split; [reflexivity|]. split; [exact Hh|]. rewrite Hc, Hf.
    replace (Some (pal, rest)) with (Some (overlay default_palette 0 ex, rest)) by (rewrite Hov; reflexivity).
    apply (read_palette_enc (fun c => match encode2 (CRGBA c) with Some l => l | None => [] end) 1 1 eq_refl);
      [|rewrite Lex; unfold default_palette; rewrite repeat_length; lia].
    apply (build_forall ex _ is2 Fex E2). intros c W V G. split; [exact V|]. intros t.
    assert (Ex : encode2 (CRGBA c) = Some [(cr c / 17) * 16 + cg c / 17; (cb c / 17) * 16 + ca c / 17]) by (cbn [encode2]; rewrite G; reflexivity).
    rewrite Ex. destruct (encode2_decode2 (CRGBA c) _ t W Ex) as [_ D].
    exact D.
  - destruct (Hnb 2 ltac:(lia)) as (Hh & Hc & Hf). cbv zeta in Hh, Hc, Hf.
    replace (((Z.of_nat k - 1) mod 256) mod 64 + 128) with (((Z.of_nat k - 1) mod 256) mod 64 + 64 * 2) by lia.
    eexists _, _. split; [reflexivity|]. split; [exact Hh|]. rewrite Hc, Hf.
    replace (Some (pal, rest)) with (Some (overlay default_palette 0 ex, rest)) by (rewrite Hov; reflexivity).
    apply (read_palette_enc (fun c => [cr c; cg c; cb c]) 2 2 eq_refl);
      [|rewrite Lex; unfold default_palette; rewrite repeat_length; lia].
    apply (build_forall ex _ is3 Fex E3). intros c W V G. split; [exact V|]. intros t.
    unfold dec_color_form. cbn [Z.eqb app]. rewrite color3direct_table. unfold is3 in G.
    destruct c as [r g b a]. cbn [cr cg cb ca length] in *. assert (a = 255) by lia. subst a. reflexivity.
  - destruct (Hnb 3 ltac:(lia)) as (Hh & Hc & Hf). cbv zeta in Hh, Hc, Hf.
    replace (((Z.of_nat k - 1) mod 256) mod 64 + 192) with (((Z.of_nat k - 1) mod 256) mod 64 + 64 * 3) by lia.
    eexists _, _. split; [reflexivity|]. split; [exact Hh|]. rewrite Hc, Hf.
    replace (Some (pal, rest)) with (Some (overlay default_palette 0 ex, rest)) by (rewrite Hov; reflexivity).
    apply (read_palette_enc (fun c => [cr c; cg c; cb c; ca c]) 3 3 eq_refl);
      [|rewrite Lex; unfold default_palette; rewrite repeat_length; lia].
    rewrite Forall_forall in Fex |- *. intros c I. destruct (Fex c I) as [W V]. split; [exact V|]. intros t.
    unfold dec_color_form. cbn [Z.eqb app]. rewrite color4_table. destruct c. reflexivity.
Qed.

(* ---------- chunks ---------- *)
Definition wf_vb (v : viewbox) : Prop := wf_f32 (vminx v) /\ wf_f32 (vminy v) /\ wf_f32 (vmaxx v) /\ wf_f32 (vmaxy v).

Lemma enc_natural_len u : (length (enc_natural u) <= 4)%nat.
Proof. unfold enc_natural, le16, le32. destruct (u <? 128); [cbn; lia|]. destruct (u <? 16384); cbn; lia. Qed.

Lemma flat_len_le {A B} (f : A -> list B) n l : (forall x, length (f x) <= n)%nat -> (length (flat_map f l) <= n * length l)%nat.
Proof.
  intros H. induction l as [|x l IH]; [cbn; lia|]. cbn [flat_map length]. rewrite app_length. specialize (H x). lia.
Qed.

Lemma palette_chunk_len pal : length pal = 64%nat -> (length (palette_chunk pal) <= 257)%nat.
Proof.
  intros L. pose proof (explicit_le pal) as K. rewrite L in K. unfold palette_chunk.
  set (ex := firstn (explicit_count pal) pal).
  assert (Lex : (length ex <= 64)%nat) by (unfold ex; rewrite firstn_length; lia).
  destruct (forallb enc1_ok ex); [cbn [length]; rewrite map_length; lia|].
  destruct (forallb is2 ex).
  { cbn [length]. apply Nat.le_trans with (S (4 * length ex)); [apply le_n_S, flat_len_le|lia].
    intros x. cbn [encode2]. destruct (is2 x); cbn; lia. }
  destruct (forallb is3 ex).
  { cbn [length]. apply Nat.le_trans with (S (4 * length ex)); [apply le_n_S, flat_len_le|lia]. intros; cbn; lia. }
  cbn [length]. apply Nat.le_trans with (S (4 * length ex)); [apply le_n_S, flat_len_le|lia]. intros; cbn; lia.
Qed.

Lemma dec_natural_app u rest : 0 <= u < 1073741824 ->
  dec_natural (enc_natural u ++ rest) = Some (u, length (enc_natural u)).
Proof. apply nat_roundtrip. Qed.

Lemma vb_chunk_decode vb m minmid rest : wf_vb vb -> viewbox_invalid (qvb vb) = false -> minmid <= 0 ->
  let alt := enc_natural 0 ++ enc_coordinate (vminx vb) ++ enc_coordinate (vminy vb)
             ++ enc_coordinate (vmaxx vb) ++ enc_coordinate (vmaxy vb) in
  exists its, dec_chunk minmid m ((enc_natural (Z.of_nat (length alt)) ++ alt) ++ rest)
              = (its, ChunkOk (mkMeta (qvb vb) (m_pal m)) rest 0) /\ calls_of its = [].
Proof.
  intros (W0 & W1 & W2 & W3) V Hmin alt.
  assert (Lalt : 0 <= Z.of_nat (length alt) < 1073741824).
  { unfold alt. rewrite !app_length. pose proof (enc_natural_len 0).
    pose proof (enc_coordinate_len (vminx vb)). pose proof (enc_coordinate_len (vminy vb)).
    pose proof (enc_coordinate_len (vmaxx vb)). pose proof (enc_coordinate_len (vmaxy vb)). lia. }
  unfold dec_chunk. rewrite <- app_assoc, (dec_natural_app _ _ Lalt). cbv iota beta zeta. rewrite skipn_app_len.
  set (cs := enc_coordinate (vminx vb) ++ enc_coordinate (vminy vb) ++ enc_coordinate (vmaxx vb) ++ enc_coordinate (vmaxy vb)) in *.
  assert (Ha : alt ++ rest = enc_natural 0 ++ cs ++ rest) by (unfold alt; rewrite <- app_assoc; reflexivity).
  rewrite Ha. rewrite (dec_natural_app 0) by lia. cbv iota beta zeta. rewrite skipn_app_len.
  change (2 <=? 0) with false. cbv iota. assert (0 <? minmid = false) as -> by lia. change (0 =? 0) with true. cbv iota.
  destruct (read_coords_app [vminx vb; vminy vb; vmaxx vb; vmaxy vb] rest) as (its & E & C);
    [repeat (apply Forall_cons; [assumption|]); apply Forall_nil|].
  cbn [length encs flat_map map] in E. rewrite app_nil_r, <- !app_assoc in E.
  unfold cs. rewrite <- !app_assoc. rewrite E.
  fold (qvb vb). rewrite V.
  assert (Hw : Z.of_nat (length rest) =? Z.of_nat (length (enc_natural 0 ++ cs ++ rest)) - Z.of_nat (length alt) = true)
    by (rewrite <- Ha, app_length; lia).
  unfold cs in Hw. rewrite <- !app_assoc in Hw. rewrite Hw.
  eexists. split; [reflexivity|]. cbn [calls_of flat_map app]. exact C.
Qed.

Lemma pal_chunk_decode pal m minmid rest : wf_pal pal -> (1 <= explicit_count pal)%nat -> minmid <= 1 ->
  m_pal m = default_palette ->
  let alt := enc_natural 1 ++ palette_chunk pal in
  exists its, dec_chunk minmid m ((enc_natural (Z.of_nat (length alt)) ++ alt) ++ rest)
              = (its, ChunkOk (mkMeta (m_vb m) pal) rest 1) /\ calls_of its = [].
Proof.
  intros Wp K Hmin Hm alt.
  assert (Lalt : 0 <= Z.of_nat (length alt) < 1073741824).
  { unfold alt. rewrite app_length. pose proof (enc_natural_len 1). pose proof (palette_chunk_len pal (proj1 Wp)). lia. }
  unfold dec_chunk. rewrite <- app_assoc, (dec_natural_app _ _ Lalt). cbv iota beta zeta. rewrite skipn_app_len.
  destruct (palette_chunk_decode pal rest Wp K) as (h & body & Epc & Hh & its & E & C).
  assert (Ha : alt ++ rest = enc_natural 1 ++ h :: body ++ rest) by (unfold alt; rewrite Epc, <- app_assoc; reflexivity).
  rewrite Ha. rewrite (dec_natural_app 1) by lia. cbv iota beta zeta. rewrite skipn_app_len.
  change (2 <=? 1) with false. cbv iota. assert (1 <? minmid = false) as -> by lia. change (1 =? 0) with false. cbv iota.
  rewrite Hm, E.
  assert (Hw : Z.of_nat (length rest) =? Z.of_nat (length (enc_natural 1 ++ h :: body ++ rest)) - Z.of_nat (length alt) = true)
    by (rewrite <- Ha, app_length; lia).
  rewrite Hw. eexists. split; [reflexivity|]. cbn [calls_of flat_map app]. exact C.
Qed.

Lemma pal_eqb_eq a : forall b, pal_eqb a b = true -> a = b.
Proof.
  induction a as [|x a IH]; intros [|y b] H; cbn [pal_eqb] in H; try discriminate; [reflexivity|].
  apply andb_true_iff in H as [H1 H2]. apply rgba_eqb_eq in H1. subst. f_equal. apply IH, H2.
Qed.

(* the metadata written by Reset, read back *)
Definition meta_of (vb : viewbox) (pal : list rgba) : meta :=
  mkMeta (if vb_is_default vb then default_viewbox else qvb vb) pal.

Lemma meta_roundtrip vb pal rest : wf_vb vb -> viewbox_invalid (qvb vb) = false -> wf_pal pal ->
  exists its, dec_metadata (e_buf (enc_reset vb pal) ++ rest) = (its, ChunksOk (meta_of vb pal) rest) /\ calls_of its = [].
Proof.
  intros Wv V Wp. unfold enc_reset. cbn [e_buf]. unfold meta_of.
  set (mcvb := negb (vb_is_default vb)). set (mcpal := negb (pal_eqb pal default_palette)).
  set (n := (if mcvb then 1 else 0) + (if mcpal then 1 else 0)).
  assert (Hn : 0 <= n < 1073741824) by (unfold n; destruct mcvb, mcpal; lia).
  unfold dec_metadata. rewrite <- !app_assoc.
  assert (Hp : forall t, has_prefix magic (magic ++ t) = true) by (intros t; reflexivity). rewrite Hp. cbn [negb].
  assert (Hs : forall t, skipn 4 (magic ++ t) = t) by (intros t; reflexivity). rewrite Hs.
  rewrite (dec_natural_app n _ Hn). cbv iota beta zeta. rewrite skipn_app_len.
  set (c1 := if mcvb then _ else []). set (c2 := if mcpal then _ else []).
  assert (Hne : forall u, (1 <= length (enc_natural u))%nat).
  { intros u. unfold enc_natural, le16, le32. destruct (u <? 128); [cbn; lia|]. destruct (u <? 16384); cbn; lia. }
  assert (Hz : forall f mm m b, dec_chunks f 0 mm m b = ([], ChunksOk m b)) by (intros [|f] mm m0 b; reflexivity).
  assert (Hchunks : exists its, forall fuel, (length (c1 ++ c2 ++ rest) < fuel)%nat ->
            dec_chunks fuel n 0 default_meta (c1 ++ c2 ++ rest)
            = (its, ChunksOk (mkMeta (if vb_is_default vb then default_viewbox else qvb vb) pal) rest) /\ calls_of its = []).
  { unfold n, c1, c2, mcvb, mcpal.
    destruct (vb_is_default vb) eqn:Dv; destruct (pal_eqb pal default_palette) eqn:Dp; cbn [negb].
    - apply pal_eqb_eq in Dp. subst pal. exists []. intros fuel Hf. destruct fuel; split; reflexivity.
    - destruct (pal_chunk_decode pal default_meta 0 rest Wp (pal_eqb_false_count pal (proj1 Wp) Dp) ltac:(lia) eq_refl) as (its & E & C).
      cbv zeta in E. exists (its ++ []). intros [|fuel] Hf; [lia|]. cbn [app].
      replace (0 + 1) with 1 by lia. cbn [dec_chunks Z.leb Z.compare]. rewrite E.
      replace (1 - 1) with 0 by lia. rewrite Hz. rewrite app_nil_r. split; [reflexivity|exact C].
    - apply pal_eqb_eq in Dp. subst pal.
      destruct (vb_chunk_decode vb default_meta 0 rest Wv V ltac:(lia)) as (its & E & C).
      cbv zeta in E. exists (its ++ []). intros [|fuel] Hf; [lia|]. change ([] ++ rest) with rest.
      replace (1 + 0) with 1 by lia. cbn [dec_chunks Z.leb Z.compare]. rewrite E.
      replace (1 - 1) with 0 by lia. rewrite Hz. rewrite app_nil_r. split; [reflexivity|exact C].
    - destruct (vb_chunk_decode vb default_meta 0 ((enc_natural (Z.of_nat (length (enc_natural 1 ++ palette_chunk pal))) ++ enc_natural 1 ++ palette_chunk pal) ++ rest) Wv V ltac:(lia)) as (its1 & E1 & C1).
      destruct (pal_chunk_decode pal (mkMeta (qvb vb) (m_pal default_meta)) (0 + 1) rest Wp
                  (pal_eqb_false_count pal (proj1 Wp) Dp) ltac:(lia) eq_refl) as (its2 & E2 & C2).
      cbv zeta in E1, E2.
      exists (its1 ++ its2 ++ []). intros fuel Hf.
      assert (Hf2 : (2 <= fuel)%nat).
      { rewrite !app_length in Hf. match type of Hf with (length (enc_natural ?u) + _ + _ < _)%nat => pose proof (Hne u) end. lia. }
      destruct fuel as [|[|fuel]]; try lia.
      replace (1 + 1) with 2 by lia. cbn [dec_chunks Z.leb Z.compare]. rewrite E1.
      replace (2 - 1) with 1 by lia. cbn [dec_chunks Z.leb Z.compare]. rewrite E2.
      replace (1 - 1) with 0 by lia.
      rewrite Hz. split; [reflexivity|]. rewrite !calls_of_app, C1, C2. reflexivity. }
  destruct Hchunks as (its & Hc).
  assert (Hfuel : (length (c1 ++ c2 ++ rest) < S (length (c1 ++ c2 ++ rest)))%nat) by lia.
  destruct (Hc _ Hfuel) as [E C]. rewrite E.
  eexists. split; [reflexivity|]. cbn [calls_of flat_map app]. exact C.
Qed.

(* ---------- the round trip ---------- *)
Theorem encode_decode e0 vb pal body :
  wf_vb vb -> viewbox_invalid (qvb vb) = false -> wf_pal pal -> wf_acts false body ->
  exists b, snd (enc_bytes (fst (enc_run e0 (ACall (CReset vb pal) :: body)))) = BytesOk b /\
            decode_calls [] b = (CReset (m_vb (meta_of vb pal)) pal :: expect false false body, Done).
Proof.
  intros Wv V Wp Wb. rewrite enc_run_cons. cbn [enc_act fst enc_step].
  assert (HI : RInv (enc_reset vb pal) []) by (repeat split).
  destruct (body_roundtrip body (enc_reset vb pal) [] HI Wb) as (out & Eo & R).
  exists (e_buf (enc_reset vb pal) ++ out). split; [exact Eo|].
  destruct (meta_roundtrip vb pal out Wv V Wp) as (its & Em & Cm).
  unfold decode_calls, decode_items. rewrite Em. cbn [apply_opts m_vb m_pal meta_of].
  rewrite (sanitize_id pal) by (eapply Forall_impl; [|exact (proj2 Wp)]; intros c [_ Hc]; exact Hc).
  unfold run in R. cbn [dmode e_mode enc_reset e_hires e_hires_l map app] in R.
  destruct (dec_ops (length out) false out) as [its' o]. injection R as R1 R2. subst o.
  rewrite calls_of_app, Cm. cbn [calls_of flat_map app]. fold (calls_of its'). rewrite R1. reflexivity.
Qed.

(* ---------- what the written-and-read-back forms are ---------- *)
Lemma q_coord_spec f : wf_f32 f ->
  (exists i, coord_short1 f = Some i /\ q_coord f = of_Z F32 i /\ feq F32 (q_coord f) f = true) \/
  (exists i, coord_short1 f = None /\ coord_short2 f = Some i /\ q_coord f = fdiv F32 (of_Z F32 i) c64 /\ feq F32 (q_coord f) f = true) \/
  (coord_short1 f = None /\ coord_short2 f = None /\ q_coord f = round4_val f).
Proof.
  intros W. unfold q_coord. destruct (coord_short1 f) as [i|] eqn:S1.
  - left. exists i. destruct (coord_exact1 f i [] W S1) as (_ & _ & Q). auto.
  - destruct (coord_short2 f) as [i|] eqn:S2.
    + right; left. exists i. destruct (coord_exact2 f i [] W S1 S2) as (_ & _ & Q). auto.
    + right; right. auto.
Qed.

Lemma q_real_spec f : wf_f32 f ->
  (exists u, real_short f = Some u /\ q_real f = of_Z F32 u /\ feq F32 (q_real f) f = true) \/
  (real_short f = None /\ q_real f = round4_val f).
Proof.
  intros W. unfold q_real. destruct (real_short f) as [u|] eqn:S.
  - left. exists u. destruct (real_exact f u [] W S) as (_ & _ & Q). auto.
  - right. auto.
Qed.

(* low resolution: a coordinate in [-128,128) comes back as the nearest multiple of 1/64, exactly *)
Lemma qc_lowres f : wf_f32 f -> fle F32 cm128 f = true -> flt F32 f c128 = true ->
  let q := quantize false f in
  qc false f = q \/ feq F32 (qc false f) q = true.
Proof.
  intros W L U q. pose proof (quantize_nearest f W L U) as H. cbv zeta in H.
  destruct H as (Kr & _ & Wq & Fq & Iq). fold q in Wq, Fq, Iq.
  unfold qc. fold q. destruct (q_coord_spec q Wq) as [(i & _ & _ & Q)|[(i & _ & _ & _ & Q)|(S1 & S2 & Eq)]]; [right; exact Q|right; exact Q|].
  left. rewrite Eq.
  assert (Hk : quant_k f = 8192).
  { destruct (Z.eq_dec (quant_k f) 8192) as [E|N]; [exact E|]. exfalso.
    assert (R' : 0 <= quant_k f + 8192 <= 16384) by lia.
    pose proof (good_int_spec _ _ _ (coord2_value' (quant_k f + 8192) R')) as [Wg [Fg Ig]].
    replace (quant_k f + 8192 - 8192) with (quant_k f) in * by lia.
    assert (Hq : q = fdiv F32 (of_Z F32 (quant_k f)) c64).
    { unfold q, quantize. rewrite L, U. reflexivity. }
    rewrite <- Hq in *.
    assert (E : exact_int_scaled F32 6 q = Some (quant_k f)) by (apply ival_exact_int_scaled; try assumption; lia).
    unfold coord_short2 in S2. rewrite E, in_range_intro in S2 by lia. discriminate. }
  assert (Hq : q = c128).
  { unfold q, quantize. rewrite L, U. cbn [negb andb]. rewrite Hk. vm_compute. reflexivity. }
  rewrite Hq. vm_compute. reflexivity.
Qed.

(* Mul64.v — multiplying a float32 by 64 (= 2^6) is exact: from the rounding specification of the soft-float
   (SFRound.rne_dy_pos_correct / round_int_spec).  Needed to relate the source's test
   `i := int32(f*64); float32(i) == f*64` (encode/buffer.go) to the model's "f*64 is an integer". *)
From Coq Require Import ZArith Bool List Lia ZifyBool ZifyNat.
From IVG Require Import SF NumCodec NumBase SFProofs SFRound.
Import ListNotations.
Local Open Scope Z_scope.

Lemma c64_decode : decode F32 c64 = FFin false 8388608 (-17).
Proof. vm_compute. reflexivity. Qed.

Lemma wf_c64 : wf_f32 c64. Proof. vm_compute. split; congruence. Qed.

Lemma pow2_split a b : 0 <= a -> 0 <= b -> 2 ^ (a + b) = 2 ^ a * 2 ^ b.
Proof. intros. apply Z.pow_add_r; assumption. Qed.

(* the rounded integer of m * 2^23 at exponent e - 17, times its unit, is the exact value m * 2^(e + 6) *)
Lemma round_mul64_exact m e : 0 < m < 16777216 -> -149 <= e ->
  let M := m * 8388608 in let E := e - 17 in
  round_int F32 M E * 2 ^ (round_exp F32 M E + 149) = m * 2 ^ (e + 155).
Proof.
  intros Hm He M E.
  assert (HM : 0 < M) by (unfold M; lia).
  pose proof (round_int_spec F32 M E F32_ok HM) as S. cbv zeta in S.
  destruct S as (He0 & HQ & Hc & Hex & Hrd).
  set (e0 := round_exp F32 M E) in *. set (Q := round_int F32 M E) in *.
  change (emin F32) with (-149) in *.
  assert (Hlog : Z.log2 M = Z.log2 m + 23).
  { unfold M. change 8388608 with (2 ^ 23). rewrite Z.log2_mul_pow2 by lia. lia. }
  assert (Hl : 0 <= Z.log2 m <= 23).
  { split; [apply Z.log2_nonneg|]. assert (Z.log2 m < 24); [|lia]. apply Z.log2_lt_pow2; [lia|]. change (2 ^ 24) with 16777216. lia. }
  assert (He0v : e0 = Z.max (-149) (Z.log2 m + e - 17)).
  { unfold e0, round_exp. rewrite Hlog. change (emin F32) with (-149). change (prec F32) with 24. unfold E. lia. }
  destruct (Z_le_gt_dec e0 E) as [L|G].
  - specialize (Hex L). rewrite Z.pow_0_r, Z.mul_1_r in Hex. rewrite Hex.
    unfold M. change 8388608 with (2 ^ 23).
    rewrite <- !Z.mul_assoc. f_equal.
    rewrite <- !Z.pow_add_r by (unfold E in *; lia). f_equal. unfold E. lia.
  - assert (G' : E < e0) by lia. specialize (Hrd G'). cbv zeta in Hrd. destruct Hrd as [Near _].
    set (k := e0 - E) in *.
    assert (Hk : 0 < k <= 23) by (unfold k, E in *; lia).
    assert (Pk : 0 < 2 ^ k) by (apply Z.pow_pos_nonneg; lia).
    assert (HMk : M = (m * 2 ^ (23 - k)) * 2 ^ k).
    { unfold M. change 8388608 with (2 ^ 23). rewrite <- Z.mul_assoc, <- Z.pow_add_r by lia. do 2 f_equal. lia. }
    assert (HQ' : Q = m * 2 ^ (23 - k)).
    { set (q := m * 2 ^ (23 - k)) in *. rewrite HMk in Near.
      replace (q * 2 ^ k - Q * 2 ^ k) with ((q - Q) * 2 ^ k) in Near by ring.
      rewrite Z.abs_mul, (Z.abs_eq (2 ^ k)) in Near by lia.
      assert (Z.abs (q - Q) = 0 \/ 1 <= Z.abs (q - Q)) as [Z0|Z1] by lia; [lia|]. exfalso. nia. }
    rewrite HQ'. rewrite <- Z.mul_assoc. f_equal.
    rewrite <- Z.pow_add_r by lia. f_equal. unfold k, E. lia.
Qed.

Lemma zero_bits_decode s : decode F32 (zero_bits F32 s) = FFin s 0 (-149).
Proof. destruct s; vm_compute; reflexivity. Qed.

Lemma inf_bits_decode s : decode F32 (inf_bits F32 s) = FInf s.
Proof. destruct s; vm_compute; reflexivity. Qed.

(* f * 64 for a finite f: overflow to infinity (only for huge f), or a finite float with exactly 64 times the value *)
Lemma fmul64_finite f s m e : wf_f32 f -> decode F32 f = FFin s m e ->
  let g := fmul F32 f c64 in
  (g = inf_bits F32 s /\ 121 <= Z.log2 m + e) \/
  (wf_f32 g /\ is_finite F32 g = true /\ ival32 g = 64 * ival32 f).
Proof.
  intros W D g.
  pose proof (decode32_fin _ _ _ _ W D) as [Hm He].
  assert (Eg : g = rne_dy F32 s (m * 8388608) (e + -17)).
  { assert (H1 : 0 <= f) by (unfold wf_f32 in W; lia).
    assert (H2 : 0 <= c64) by (pose proof wf_c64 as Wc; unfold wf_f32 in Wc; lia).
    assert (H3 : 1 <= prec F32) by (cbn; lia). assert (H4 : 0 <= ebits F32) by (cbn; lia).
    unfold g. rewrite (fmul_finite F32 f c64 s m e false 8388608 (-17) H1 H2 H3 H4 D c64_decode).
    rewrite xorb_false_r. reflexivity. }
  rewrite (ival32_fin _ _ _ _ D).
  unfold rne_dy in Eg. destruct (m * 8388608 =? 0) eqn:Z0.
  - right. assert (m = 0) by lia. subst m. rewrite Eg.
    split; [destruct s; vm_compute; split; congruence|].
    split; [unfold is_finite; rewrite zero_bits_decode; reflexivity|].
    rewrite (ival32_fin _ _ _ _ (zero_bits_decode s)). destruct s; cbn; reflexivity.
  - assert (Hm' : 0 < m < 16777216) by lia.
    assert (HM : 0 < m * 8388608) by lia.
    pose proof (rne_dy_pos_correct F32 s (m * 8388608) (e + -17) F32_ok HM) as C. cbv zeta in C.
    pose proof (round_mul64_exact m e Hm' ltac:(lia)) as X. cbv zeta in X.
    replace (e - 17) with (e + -17) in X by lia.
    set (e0 := round_exp F32 (m * 8388608) (e + -17)) in *.
    set (Q := round_int F32 (m * 8388608) (e + -17)) in *.
    change (emin F32) with (-149) in C. change (emax_field F32) with 255 in C.
    destruct C as [[Ci Co]|(M' & E' & Dg & Val & HM' & HE' & _)].
    + left. split; [rewrite Eg; exact Ci|].
      assert (104 <= e0) by (destruct (Q =? 2 ^ prec F32); lia).
      assert (He0v : e0 = Z.max (-149) (Z.log2 (m * 8388608) + (e + -17) - 24 + 1)) by reflexivity.
      assert (Hlog : Z.log2 (m * 8388608) = Z.log2 m + 23).
      { change 8388608 with (2 ^ 23). rewrite Z.log2_mul_pow2 by lia. lia. }
      lia.
    + right. rewrite <- Eg in Dg.
      assert (Wg : wf_f32 g).
      { rewrite Eg. unfold wf_f32. change 4294967296 with (2 ^ 32). apply rne_dy_pos32_range. exact HM. }
      split; [exact Wg|]. split; [unfold is_finite; rewrite Dg; reflexivity|].
      rewrite (ival32_fin _ _ _ _ Dg).
      replace (E' - -149) with (E' + 149) in Val by lia. replace (e0 - -149) with (e0 + 149) in Val by lia.
      rewrite X in Val.
      replace (e + 155) with (6 + (e + 149)) in Val by lia. rewrite (Z.pow_add_r 2 6 (e + 149)) in Val by lia.
      change (2 ^ 6) with 64 in Val.
      destruct s; unfold sm; lia.
Qed.

(* a NaN stays a NaN when its quiet bit is set *)
Lemma quiet_nan f : wf_f32 f -> decode F32 f = FNaN -> decode F32 (quiet F32 f) = FNaN.
Proof.
  unfold wf_f32. intros W D.
  assert (Hq : 0 <= quiet F32 f) by (unfold quiet; apply Z.lor_nonneg; change (2 ^ (prec F32 - 2)) with 4194304; lia).
  rewrite <- decode_fast32 by exact Hq. rewrite <- decode_fast32 in D by lia.
  unfold decode_fast in *. unfold quiet.
  change (prec F32 - 1) with 23 in *. change (prec F32 - 2) with 22. change (ebits F32) with 8 in *. change (width F32 - 1) with 31 in *.
  rewrite Z.shiftr_lor. change (Z.shiftr (2 ^ 22) 23) with 0. rewrite Z.lor_0_r.
  destruct (Z.land (Z.shiftr f 23) (Z.ones 8) =? Z.ones 8) eqn:E1.
  - rewrite Z.land_lor_distr_l. change (Z.land (2 ^ 22) (Z.ones 23)) with (2 ^ 22).
    destruct (Z.lor (Z.land f (Z.ones 23)) (2 ^ 22) =? 0) eqn:E2; [|reflexivity].
    apply Z.eqb_eq in E2. apply Z.lor_eq_0_iff in E2. destruct E2 as [_ E2]. discriminate E2.
  - destruct (Z.land (Z.shiftr f 23) (Z.ones 8) =? 0); discriminate D.
Qed.

Lemma fmul64_nonfinite f : wf_f32 f -> is_finite F32 f = false -> is_finite F32 (fmul F32 f c64) = false.
Proof.
  intros W N. unfold is_finite in *.
  assert (H0 : 0 <= f) by (unfold wf_f32 in W; lia).
  assert (Hc : 0 <= c64) by (pose proof wf_c64 as Wc; unfold wf_f32 in Wc; lia).
  unfold fmul. rewrite (decode_fast32 f H0), (decode_fast32 c64 Hc), c64_decode.
  destruct (decode F32 f) as [|s|s m e] eqn:D; [|destruct s; vm_compute; reflexivity|discriminate].
  rewrite (quiet_nan f W D). reflexivity.
Qed.

(* the decision "f*64 is an integer i" can be taken on the float32 product *)
Lemma exact_mul64 f i : wf_f32 f -> -8192 <= i <= 8192 ->
  (exact_int F32 (fmul F32 f c64) = Some i <-> exact_int_scaled F32 6 f = Some i).
Proof.
  intros W Hi.
  destruct (is_finite F32 f) eqn:Ff.
  - unfold is_finite in Ff. destruct (decode F32 f) as [| |s m e] eqn:D; try discriminate.
    pose proof (decode32_fin _ _ _ _ W D) as [Hm He].
    destruct (fmul64_finite f s m e W D) as [[Gi Big]|(Wg & Fg & Iv)].
    + (* overflow: the product is infinite, and f is far too large for f*64 to be within 8192 *)
      split; intros H.
      * rewrite Gi in H. unfold exact_int in H. rewrite inf_bits_decode in H. discriminate.
      * exfalso. apply exact_int_scaled_ival in H as [_ Iv]; [|assumption|lia].
        rewrite (ival32_fin _ _ _ _ D) in Iv.
        assert (Pm : 2 ^ Z.log2 m <= m).
        { destruct (Z.eq_dec m 0) as [->|]; [change (Z.log2 0) with 0 in Big; lia|]. apply Z.log2_spec. lia. }
        assert (Hl : 0 <= Z.log2 m) by apply Z.log2_nonneg.
        assert (P1 : 0 < 2 ^ (e + 149)) by (apply Z.pow_pos_nonneg; lia).
        assert (B : 2 ^ (Z.log2 m) * 2 ^ (e + 149) * 64 <= 8192 * 2 ^ 149).
        { assert (A : m * 2 ^ (e + 149) * 64 <= 8192 * 2 ^ 149) by (destruct s; unfold sm in Iv; nia). nia. }
        rewrite <- Z.pow_add_r in B by lia. change 64 with (2 ^ 6) in B. rewrite <- Z.pow_add_r in B by lia.
        change 8192 with (2 ^ 13) in B. rewrite <- Z.pow_add_r in B by lia.
        apply Z.pow_le_mono_r_iff in B; lia.
    + split; intros H.
      * rewrite exact_int_is_scaled in H. apply exact_int_scaled_ival in H as [_ Iv']; [|assumption|lia].
        apply ival_exact_int_scaled; try assumption; [lia|unfold is_finite; rewrite D; reflexivity|].
        rewrite Z.pow_0_r, Z.mul_1_r in Iv'. change (2 ^ 6) with 64. lia.
      * apply exact_int_scaled_ival in H as [_ Iv']; [|assumption|lia].
        rewrite exact_int_is_scaled. apply ival_exact_int_scaled; try assumption; [lia|].
        rewrite Z.pow_0_r, Z.mul_1_r. change (2 ^ 6) with 64 in Iv'. lia.
  - pose proof (fmul64_nonfinite f W Ff) as Fg. unfold is_finite in *.
    split; intros H; exfalso.
    + unfold exact_int in H. destruct (decode F32 (fmul F32 f c64)); discriminate.
    + unfold exact_int_scaled in H. destruct (decode F32 f); discriminate.
Qed.

(* Proofs about the number codecs (C08). Stdlib style. *)
From Coq Require Import ZArith Bool List Lia ZifyBool ZifyNat.
From IVG Require Import SF NumCodec.
Import ListNotations.
Local Open Scope Z_scope.
Ltac Zify.zify_post_hook ::= Z.div_mod_to_equations.
Local Opaque Z.mul Z.add Z.div Z.modulo Z.pow.

Definition wf_byte (b : Z) : Prop := 0 <= b < 256.
Definition wf_bytes (l : list Z) : Prop := Forall wf_byte l.
Definition wf_f32 (b : Z) : Prop := 0 <= b < 4294967296.

(* ---------- naturals ---------- *)

Lemma enc_natural_wf u : 0 <= u < 4294967296 -> wf_bytes (enc_natural u).
Proof.
  intros H. unfold enc_natural, le16, le32, wf_bytes.
  destruct (u <? 128) eqn:?; [repeat constructor; unfold wf_byte; lia|].
  destruct (u <? 16384) eqn:?; repeat constructor; unfold wf_byte; lia.
Qed.

Lemma nat_roundtrip u rest : 0 <= u < 1073741824 ->
  dec_natural (enc_natural u ++ rest) = Some (u, length (enc_natural u)).
Proof.
  intros H. unfold enc_natural, le16, le32.
  destruct (u <? 128) eqn:E1.
  - cbn [app dec_natural length].
    replace ((2 * u) mod 2 =? 0) with true by lia.
    f_equal. f_equal. lia.
  - destruct (u <? 16384) eqn:E2.
    + cbn [app dec_natural length].
      replace (((4 * u + 1) mod 256) mod 2 =? 0) with false by lia.
      replace ((((4 * u + 1) mod 256) / 2) mod 2 =? 0) with true by lia.
      f_equal. f_equal. lia.
    + cbn [app dec_natural length].
      set (v := (4 * u + 3) mod 4294967296).
      assert (Hv : v = 4 * u + 3) by (unfold v; lia).
      replace ((v mod 256) mod 2 =? 0) with false by lia.
      replace (((v mod 256) / 2) mod 2 =? 0) with false by lia.
      f_equal. f_equal. lia.
Qed.

(* width announced by the tag bits of the first byte *)
Definition natural_width (b : list Z) : nat :=
  match b with
  | [] => 1
  | x :: _ => if x mod 2 =? 0 then 1 else if (x / 2) mod 2 =? 0 then 2 else 4
  end.

Lemma dec_natural_none b : dec_natural b = None <-> (length b < natural_width b)%nat.
Proof.
  unfold dec_natural, natural_width. destruct b as [|x r]; cbn [length]; [split; [lia|auto]|].
  destruct (x mod 2 =? 0); [split; [discriminate|lia]|].
  destruct ((x / 2) mod 2 =? 0).
  - destruct r; cbn [length]; split; try discriminate; try lia; auto.
  - destruct r as [|y [|z [|w r]]]; cbn [length]; split; try discriminate; try lia; auto.
Qed.

Lemma dec_natural_some b u n : dec_natural b = Some (u, n) ->
  n = natural_width b /\ (n <= length b)%nat /\
  forall t, dec_natural (firstn n b ++ t) = Some (u, n).
Proof.
  unfold dec_natural, natural_width. destruct b as [|x r]; [discriminate|].
  destruct (x mod 2 =? 0) eqn:E1.
  - intros H; inversion H; subst. cbn [length firstn app]. repeat split; try lia.
    intros t. now rewrite E1.
  - destruct ((x / 2) mod 2 =? 0) eqn:E2.
    + destruct r as [|y r]; [discriminate|]. intros H; inversion H; subst.
      cbn [length firstn app]. repeat split; try lia. intros t. now rewrite E1, E2.
    + destruct r as [|y [|z [|w r]]]; try discriminate. intros H; inversion H; subst.
      cbn [length firstn app]. repeat split; try lia. intros t. now rewrite E1, E2.
Qed.

Lemma dec_natural_bound b u n : wf_bytes b -> dec_natural b = Some (u, n) ->
  (n = 1%nat /\ 0 <= u < 128) \/ (n = 2%nat /\ 0 <= u < 16384) \/ (n = 4%nat /\ 0 <= u < 1073741824).
Proof.
  unfold dec_natural, wf_bytes. intros W. destruct b as [|x r]; [discriminate|].
  inversion W as [|? ? Hx Wr]; subst. unfold wf_byte in *.
  destruct (x mod 2 =? 0) eqn:E1.
  - intros [= <- <-]. left. lia.
  - destruct ((x / 2) mod 2 =? 0) eqn:E2.
    + destruct r as [|y r]; [discriminate|]. inversion Wr; subst. unfold wf_byte in *.
      intros [= <- <-]. right; left. lia.
    + destruct r as [|y [|z [|w r]]]; try discriminate.
      inversion Wr as [|? ? Hy Wr1]; subst. inversion Wr1 as [|? ? Hz Wr2]; subst.
      inversion Wr2 as [|? ? Hw _]; subst. unfold wf_byte in *.
      intros [= <- <-]. right; right. lia.
Qed.

(* the encoder's form is the shortest form in which the decoder yields u *)
Lemma nat_shortest b u n : wf_bytes b -> dec_natural b = Some (u, n) ->
  (length (enc_natural u) <= n)%nat.
Proof.
  intros W H. pose proof (dec_natural_bound b u n W H) as B.
  unfold enc_natural, le16, le32.
  destruct (u <? 128) eqn:?; [cbn [length]; lia|].
  destruct (u <? 16384) eqn:?; cbn [length]; lia.
Qed.

(* ---------- 4-byte reals ---------- *)

Definition round4_val (b : Z) : Z := (round4 b / 4) * 4.

Lemma dec_real4 b rest : wf_f32 b ->
  dec_real (enc_real4 b ++ rest) = Some (round4_val b, 4%nat).
Proof.
  unfold wf_f32, dec_real, enc_real4, le32, round4_val, round4, clear2. intros H.
  cbn [app dec_natural].
  set (v := b mod 8388608).
  set (v' := if v <? 8388606 then v + 2 else v).
  set (u' := b / 8388608 * 8388608 + v').
  assert (Hv' : 0 <= v' < 8388608) by (unfold v', v; destruct (_ <? _) eqn:?; lia).
  assert (Hu' : 0 <= u' < 4294967296) by (unfold u'; lia).
  set (w := u' / 4 * 4 + 3).
  replace ((w mod 256) mod 2 =? 0) with false by (unfold w; lia).
  replace (((w mod 256) / 2) mod 2 =? 0) with false by (unfold w; lia).
  f_equal. f_equal. unfold w. lia.
Qed.

Lemma round4_spec b : wf_f32 b ->
  let b' := round4_val b in
  wf_f32 b' /\
  b' / 8388608 = b / 8388608 /\                  (* sign and exponent fields unchanged *)
  b' mod 4 = 0 /\
  -3 <= b' mod 8388608 - b mod 8388608 <= 2 /\   (* mantissa moves by at most 3 units *)
  (b mod 4 = 0 -> b' = b) /\
  (b mod 8388608 = 0 -> b' = b).                 (* zeros and infinities are fixed *)
Proof.
  unfold wf_f32, round4_val, round4. intros H. cbv zeta.
  destruct (b mod 8388608 <? 8388606) eqn:E; repeat split; lia.
Qed.

(* ---------- value theory for finite binary32 ---------- *)

Lemma decode32_fin x s m e : wf_f32 x -> decode F32 x = FFin s m e ->
  0 <= m < 16777216 /\ -149 <= e <= 104.
Proof.
  unfold wf_f32, decode, expo_of, mant_of, emax_field, emin, F32. cbn [prec ebits].
  change (2 ^ (24 - 1)) with 8388608. change (2 ^ 8) with 256. change (2 ^ (8 - 1)) with 128.
  intros H.
  destruct (_ =? 256 - 1) eqn:E1; [destruct (_ =? 0); discriminate|].
  destruct ((x / 8388608) mod 256 =? 0) eqn:E2; intros K; inversion K; subst; lia.
Qed.

Lemma ival32_fin x s m e : decode F32 x = FFin s m e -> ival32 x = sm s m * 2 ^ (e + 149).
Proof. unfold ival32. now intros ->. Qed.

Lemma pow2_spec k : 0 <= k -> pow2 k = 2 ^ k.
Proof. intros H. unfold pow2. rewrite Z.shiftl_1_l. reflexivity. Qed.

Lemma pow2_pos k : 0 <= k -> 0 < 2 ^ k.
Proof. intros. apply Z.pow_pos_nonneg; lia. Qed.

Lemma fcompare_ival x y s1 m1 e1 s2 m2 e2 : wf_f32 x -> wf_f32 y ->
  decode F32 x = FFin s1 m1 e1 -> decode F32 y = FFin s2 m2 e2 ->
  fcompare F32 x y = match ival32 x ?= ival32 y with Lt => CLt | Eq => CEq | Gt => CGt end.
Proof.
  intros Wx Wy Dx Dy.
  pose proof (decode32_fin _ _ _ _ Wx Dx) as [Hm1 He1].
  pose proof (decode32_fin _ _ _ _ Wy Dy) as [Hm2 He2].
  rewrite (ival32_fin _ _ _ _ Dx), (ival32_fin _ _ _ _ Dy).
  unfold fcompare. rewrite Dx, Dy.
  rewrite !pow2_spec by lia.
  set (e := Z.min e1 e2).
  set (a := sm s1 m1 * 2 ^ (e1 - e)). set (b := sm s2 m2 * 2 ^ (e2 - e)).
  assert (Ha : sm s1 m1 * 2 ^ (e1 + 149) = a * 2 ^ (e + 149)).
  { unfold a. rewrite <- Z.mul_assoc, <- Z.pow_add_r by (unfold e; lia). f_equal. f_equal. lia. }
  assert (Hb : sm s2 m2 * 2 ^ (e2 + 149) = b * 2 ^ (e + 149)).
  { unfold b. rewrite <- Z.mul_assoc, <- Z.pow_add_r by (unfold e; lia). f_equal. f_equal. lia. }
  rewrite Ha, Hb.
  assert (HP : 0 < 2 ^ (e + 149)) by (apply pow2_pos; unfold e; lia).
  set (P := 2 ^ (e + 149)) in *.
  destruct (Z.compare_spec (a * P) (b * P)) as [Q|Q|Q];
    destruct (a <? b) eqn:L; destruct (a =? b) eqn:Q2; try reflexivity; exfalso; nia.
Qed.

Lemma sm_mul s a b : sm s (a * b) = sm s a * b.
Proof. destruct s; unfold sm; lia. Qed.

Lemma exact_int_scaled_ival k x i : wf_f32 x -> 0 <= k <= 149 ->
  exact_int_scaled F32 k x = Some i -> is_finite F32 x = true /\ ival32 x * 2 ^ k = i * 2 ^ 149.
Proof.
  intros W Hk. unfold exact_int_scaled, is_finite.
  destruct (decode F32 x) as [| |s m e] eqn:D; try discriminate.
  pose proof (decode32_fin _ _ _ _ W D) as [Hm He].
  rewrite (ival32_fin _ _ _ _ D). split; [reflexivity|].
  destruct (0 <=? e + k) eqn:E.
  - injection H as <-. rewrite sm_mul.
    rewrite <- !Z.mul_assoc. f_equal. rewrite <- !Z.pow_add_r by lia. f_equal. lia.
  - destruct (m mod 2 ^ (- (e + k)) =? 0) eqn:M; [|discriminate]. injection H as <-.
    set (j := - (e + k)) in *. assert (Hj : 0 < j <= 149) by (unfold j; lia).
    assert (P : 0 < 2 ^ j) by (apply pow2_pos; lia).
    assert (Hq : m = (m / 2 ^ j) * 2 ^ j) by (apply Z.eqb_eq in M; lia).
    rewrite Hq at 1. rewrite sm_mul. rewrite <- !Z.mul_assoc. f_equal.
    rewrite <- !Z.pow_add_r by lia. f_equal. unfold j. lia.
Qed.

Lemma ival_exact_int_scaled k x i : wf_f32 x -> 0 <= k <= 149 ->
  is_finite F32 x = true -> ival32 x * 2 ^ k = i * 2 ^ 149 -> exact_int_scaled F32 k x = Some i.
Proof.
  intros W Hk. unfold exact_int_scaled, is_finite.
  destruct (decode F32 x) as [| |s m e] eqn:D; try discriminate. intros _.
  pose proof (decode32_fin _ _ _ _ W D) as [Hm He].
  rewrite (ival32_fin _ _ _ _ D). intros H.
  destruct (0 <=? e + k) eqn:E.
  - f_equal. rewrite sm_mul.
    assert (P : 0 < 2 ^ 149) by (apply pow2_pos; lia).
    apply (Z.mul_reg_r _ _ (2 ^ 149)); [lia|]. rewrite <- H.
    rewrite <- !Z.mul_assoc. f_equal. rewrite <- !Z.pow_add_r by lia. f_equal. lia.
  - set (j := - (e + k)) in *. assert (Hj : 0 < j <= 149) by (unfold j; lia).
    assert (P : 0 < 2 ^ j) by (apply pow2_pos; lia).
    assert (P2 : 0 < 2 ^ (e + 149 + k)) by (apply pow2_pos; lia).
    assert (H' : sm s m * 2 ^ (e + 149 + k) = i * (2 ^ j * 2 ^ (e + 149 + k))).
    { rewrite <- Z.pow_add_r by lia. replace (j + (e + 149 + k)) with 149 by (unfold j; lia).
      rewrite <- H. rewrite <- Z.mul_assoc, <- Z.pow_add_r by lia. reflexivity. }
    assert (H2 : sm s m = i * 2 ^ j) by nia.
    assert (M : m mod 2 ^ j = 0).
    { destruct s; unfold sm in H2.
      - replace m with ((- i) * 2 ^ j) by lia. apply Z.mod_mul. lia.
      - rewrite H2. apply Z.mod_mul. lia. }
    rewrite M. cbn [Z.eqb]. f_equal.
    destruct s; unfold sm in *.
    + replace m with ((- i) * 2 ^ j) by lia. rewrite Z.div_mul by lia. lia.
    + rewrite H2. rewrite Z.div_mul by lia. reflexivity.
Qed.

Lemma exact_int_is_scaled x : exact_int F32 x = exact_int_scaled F32 0 x.
Proof.
  unfold exact_int, exact_int_scaled. destruct (decode F32 x); try reflexivity.
  now rewrite Z.add_0_r.
Qed.

Lemma in_range_some lo hi o i : in_range lo hi o = Some i -> o = Some i /\ lo <= i < hi.
Proof.
  unfold in_range. destruct o as [j|]; [|discriminate].
  destruct ((lo <=? j) && (j <? hi)) eqn:E; [|discriminate]. intros [= ->]. split; [reflexivity|lia].
Qed.

Lemma in_range_intro lo hi i : lo <= i < hi -> in_range lo hi (Some i) = Some i.
Proof. intros H. unfold in_range. replace ((lo <=? i) && (i <? hi)) with true by lia. reflexivity. Qed.

Lemma feq_ival x y : wf_f32 x -> wf_f32 y -> is_finite F32 x = true -> is_finite F32 y = true ->
  (feq F32 x y = true <-> ival32 x = ival32 y).
Proof.
  intros Wx Wy. unfold is_finite, feq.
  destruct (decode F32 x) as [| |s1 m1 e1] eqn:Dx; try discriminate.
  destruct (decode F32 y) as [| |s2 m2 e2] eqn:Dy; try discriminate. intros _ _.
  rewrite (fcompare_ival _ _ _ _ _ _ _ _ Wx Wy Dx Dy).
  destruct (Z.compare_spec (ival32 x) (ival32 y)); split; try discriminate; try lia; auto.
Qed.

Lemma feq_finite_r x y : is_finite F32 x = true -> feq F32 x y = true -> is_finite F32 y = true.
Proof.
  unfold is_finite, feq, fcompare.
  destruct (decode F32 x); try discriminate. destruct (decode F32 y); try discriminate; auto.
  destruct s0; discriminate.
Qed.

(* ---------- finite sweeps (computed by the kernel) ---------- *)

Definition zrange (lo : Z) (n : nat) : list Z := map (fun i => lo + Z.of_nat i) (seq 0 n).

Lemma zrange_in lo n i : lo <= i < lo + Z.of_nat n -> In i (zrange lo n).
Proof.
  intros H. unfold zrange. apply in_map_iff. exists (Z.to_nat (i - lo)). split; [lia|].
  apply in_seq. lia.
Qed.

Definition good_int (k : Z) (v : f32) (i : Z) : bool :=
  (0 <=? v) && (v <? 4294967296) && is_finite F32 v && (ival32 v * 2 ^ k =? i * 2 ^ 149).


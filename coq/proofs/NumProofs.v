(* Proofs about the number codecs (C08). Stdlib style. *)
From Coq Require Import ZArith Bool List Lia ZifyBool ZifyNat.
From IVG Require Import SF NumCodec NumBase NumSweepA NumSweepB NumSweepC.
Import ListNotations.
Local Open Scope Z_scope.
Ltac Zify.zify_post_hook ::= Z.div_mod_to_equations.
Local Opaque Z.mul Z.add Z.div Z.modulo Z.pow.

Lemma good_int_spec k v i : good_int k v i = true ->
  wf_f32 v /\ is_finite F32 v = true /\ ival32 v * 2 ^ k = i * 2 ^ 149.
Proof.
  unfold good_int, wf_f32. intros H.
  apply andb_prop in H as [H H4]. apply andb_prop in H as [H H3]. apply andb_prop in H as [H1 H2].
  repeat split; try assumption; lia.
Qed.

Lemma real_short_value u : 0 <= u < 16384 -> good_int 0 (of_Z F32 u) u = true.
Proof.
  intros H. pose proof sweep_real_ok as S. rewrite forallb_forall in S. apply S.
  apply zrange_in. try rewrite Z2Nat.id; lia.
Qed.

Lemma coord1_value u : 0 <= u < 128 -> good_int 0 (of_Z F32 (u - 64)) (u - 64) = true.
Proof.
  intros H. pose proof sweep_coord1_ok as S. rewrite forallb_forall in S. apply S.
  apply zrange_in. try rewrite Z2Nat.id; lia.
Qed.

Lemma coord2_value u : 0 <= u < 16384 ->
  good_int 6 (fdiv F32 (of_Z F32 (u - 8192)) c64) (u - 8192) = true.
Proof.
  intros H. pose proof sweep_coord2_ok as S. rewrite forallb_forall in S. apply S.
  apply zrange_in. try rewrite Z2Nat.id; lia.
Qed.

(* ---------- reals ---------- *)

Lemma enc_short_natural u : 0 <= u < 16384 -> enc_short u = enc_natural u.
Proof.
  intros H. unfold enc_short, enc_natural. destruct (u <? 128); [reflexivity|].
  replace (u <? 16384) with true by lia. reflexivity.
Qed.

Lemma enc_short_len u : (length (enc_short u) <= 2)%nat.
Proof. unfold enc_short, le16. destruct (u <? 128); cbn [length]; lia. Qed.

Lemma dec_real_short u rest : 0 <= u < 16384 ->
  dec_real (enc_short u ++ rest) = Some (of_Z F32 u, length (enc_short u)).
Proof.
  intros H. unfold dec_real. rewrite enc_short_natural by lia.
  rewrite nat_roundtrip by lia.
  unfold enc_natural, le16. destruct (u <? 128); [reflexivity|].
  replace (u <? 16384) with true by lia. reflexivity.
Qed.

(* when a short form is chosen, the decoded value is numerically equal to the input *)
Lemma real_exact f u rest : wf_f32 f -> real_short f = Some u ->
  enc_real f = enc_short u /\
  dec_real (enc_real f ++ rest) = Some (of_Z F32 u, length (enc_real f)) /\
  feq F32 (of_Z F32 u) f = true.
Proof.
  intros W H. unfold enc_real. rewrite H.
  apply in_range_some in H as [E R]. rewrite exact_int_is_scaled in E.
  apply exact_int_scaled_ival in E as [Ff Iv]; [|assumption|lia].
  split; [reflexivity|]. split; [apply dec_real_short; assumption|].
  pose proof (good_int_spec _ _ _ (real_short_value u R)) as [Wg [Fg Ig]].
  apply feq_ival; try assumption. lia.
Qed.

Lemma enc_real4_len f : length (enc_real4 f) = 4%nat.
Proof. reflexivity. Qed.

Lemma enc_real_len f : (length (enc_real f) <= 4)%nat.
Proof.
  unfold enc_real. destruct (real_short f); [pose proof (enc_short_len z); lia|].
  rewrite enc_real4_len. lia.
Qed.

(* the form chosen is the shortest one in which some code decodes to a value equal to f *)
Lemma real_shortest f b g n : wf_f32 f -> wf_bytes b ->
  dec_real b = Some (g, n) -> feq F32 g f = true -> (length (enc_real f) <= n)%nat.
Proof.
  intros W Wb D Q. unfold dec_real in D.
  destruct (dec_natural b) as [[u k]|] eqn:N; [|discriminate].
  destruct (dec_natural_bound _ _ _ Wb N) as [[-> R]|[[-> R]|[-> R]]].
  - injection D as <- <-.
    assert (R' : 0 <= u < 16384) by lia.
    pose proof (good_int_spec _ _ _ (real_short_value u R')) as [Wg [Fg Ig]].
    pose proof (feq_finite_r _ _ Fg Q) as Ff.
    apply feq_ival in Q; try assumption.
    assert (E : exact_int F32 f = Some u).
    { rewrite exact_int_is_scaled. apply ival_exact_int_scaled; try assumption; lia. }
    unfold enc_real, real_short. rewrite E, in_range_intro by lia.
    unfold enc_short. replace (u <? 128) with true by lia. cbn [length]. lia.
  - injection D as <- <-.
    pose proof (good_int_spec _ _ _ (real_short_value u R)) as [Wg [Fg Ig]].
    pose proof (feq_finite_r _ _ Fg Q) as Ff.
    apply feq_ival in Q; try assumption.
    assert (E : exact_int F32 f = Some u).
    { rewrite exact_int_is_scaled. apply ival_exact_int_scaled; try assumption; lia. }
    unfold enc_real, real_short. rewrite E, in_range_intro by lia. apply enc_short_len.
  - injection D as <- <-. apply enc_real_len.
Qed.

Lemma round4_val_wf f : wf_f32 f -> wf_f32 (round4_val f).
Proof. intros W. apply (round4_spec f W). Qed.

Lemma round4_val_idem f : wf_f32 f -> round4_val (round4_val f) = round4_val f.
Proof.
  intros W. pose proof (round4_spec f W) as (W' & _ & M & _).
  pose proof (round4_spec _ W') as K. cbv zeta in K.
  destruct K as (_ & _ & _ & _ & K & _). apply K. exact M.
Qed.

(* re-encoding a decoded real neither changes its value nor makes it longer *)
Lemma real_reencode_stable f g n : wf_f32 f -> dec_real (enc_real f) = Some (g, n) ->
  exists g' n', dec_real (enc_real g) = Some (g', n') /\ (n' <= n)%nat /\
                (g' = g \/ feq F32 g' g = true).
Proof.
  intros W D. rewrite <- (app_nil_r (enc_real f)) in D.
  destruct (real_short f) as [u|] eqn:S.
  - destruct (real_exact f u [] W S) as (E & D' & Q). rewrite D' in D. injection D as <- <-.
    apply in_range_some in S as [_ R].
    pose proof (good_int_spec _ _ _ (real_short_value u R)) as [Wg [Fg Ig]].
    assert (S' : real_short (of_Z F32 u) = Some u).
    { unfold real_short. rewrite exact_int_is_scaled.
      rewrite (ival_exact_int_scaled 0 _ u Wg) by (try assumption; lia). apply in_range_intro; lia. }
    destruct (real_exact _ u [] Wg S') as (E' & D'' & _).
    rewrite app_nil_r in D''. exists (of_Z F32 u), (length (enc_real (of_Z F32 u))).
    split; [exact D''|]. split; [rewrite E, E'; lia|]. left; reflexivity.
  - unfold enc_real in D. rewrite S in D. rewrite dec_real4 in D by assumption.
    injection D as <- <-. pose proof (round4_val_wf f W) as Wg.
    destruct (real_short (round4_val f)) as [u|] eqn:S'.
    + destruct (real_exact _ u [] Wg S') as (E' & D'' & Q). rewrite app_nil_r in D''.
      exists (of_Z F32 u), (length (enc_real (round4_val f))). split; [exact D''|].
      split; [apply enc_real_len|]. right; exact Q.
    + exists (round4_val f), 4%nat. unfold enc_real. rewrite S'.
      rewrite <- (app_nil_r (enc_real4 _)), dec_real4 by assumption.
      rewrite round4_val_idem by assumption. split; [reflexivity|]. split; [lia|]. left; reflexivity.
Qed.

(* ---------- coordinates ---------- *)

Lemma coord2_value' u : 0 <= u <= 16384 ->
  good_int 6 (fdiv F32 (of_Z F32 (u - 8192)) c64) (u - 8192) = true.
Proof.
  intros H. pose proof sweep_coord2_ok as S. rewrite forallb_forall in S. apply S.
  apply zrange_in. rewrite Z2Nat.id; lia.
Qed.

Lemma dec_coordinate_1 i rest : -64 <= i < 64 ->
  dec_coordinate ([2 * (i + 64)] ++ rest) = Some (of_Z F32 i, 1%nat).
Proof.
  intros H. unfold dec_coordinate. cbn [app dec_natural].
  replace ((2 * (i + 64)) mod 2 =? 0) with true by lia.
  replace (2 * (i + 64) / 2 - 64) with i by lia. reflexivity.
Qed.

Lemma dec_coordinate_2 i rest : -8192 <= i < 8192 ->
  dec_coordinate (le16 (4 * (i + 8192) + 1) ++ rest) = Some (fdiv F32 (of_Z F32 i) c64, 2%nat).
Proof.
  intros H. unfold dec_coordinate, le16. cbn [app dec_natural].
  set (v := 4 * (i + 8192) + 1).
  replace ((v mod 256) mod 2 =? 0) with false by (unfold v; lia).
  replace (((v mod 256) / 2) mod 2 =? 0) with true by (unfold v; lia).
  replace ((v mod 256 + 256 * (v / 256)) / 4 - 8192) with i by (unfold v; lia). reflexivity.
Qed.

Lemma dec_coordinate_4 b rest : wf_f32 b ->
  dec_coordinate (enc_real4 b ++ rest) = Some (round4_val b, 4%nat).
Proof.
  intros W. pose proof (dec_real4 b rest W) as D. unfold dec_real in D. unfold dec_coordinate.
  destruct (dec_natural (enc_real4 b ++ rest)) as [[u n]|]; [|discriminate].
  destruct n as [|[|[|[|[|n]]]]]; try (injection D as D1 D2; discriminate).
  exact D.
Qed.

Lemma coord_exact1 f i rest : wf_f32 f -> coord_short1 f = Some i ->
  enc_coordinate f = [2 * (i + 64)] /\
  dec_coordinate (enc_coordinate f ++ rest) = Some (of_Z F32 i, 1%nat) /\
  feq F32 (of_Z F32 i) f = true.
Proof.
  intros W H. unfold enc_coordinate. rewrite H.
  apply in_range_some in H as [E R]. rewrite exact_int_is_scaled in E.
  apply exact_int_scaled_ival in E as [Ff Iv]; [|assumption|lia].
  split; [reflexivity|]. split; [apply dec_coordinate_1; assumption|].
  assert (R' : 0 <= i + 64 < 128) by lia.
  pose proof (good_int_spec _ _ _ (coord1_value (i + 64) R')) as [Wg [Fg Ig]].
  replace (i + 64 - 64) with i in * by lia.
  apply feq_ival; try assumption. lia.
Qed.

Lemma coord_exact2 f i rest : wf_f32 f -> coord_short1 f = None -> coord_short2 f = Some i ->
  enc_coordinate f = le16 (4 * (i + 8192) + 1) /\
  dec_coordinate (enc_coordinate f ++ rest) = Some (fdiv F32 (of_Z F32 i) c64, 2%nat) /\
  feq F32 (fdiv F32 (of_Z F32 i) c64) f = true.
Proof.
  intros W H1 H. unfold enc_coordinate. rewrite H1, H.
  apply in_range_some in H as [E R].
  apply exact_int_scaled_ival in E as [Ff Iv]; [|assumption|lia].
  split; [reflexivity|]. split; [apply dec_coordinate_2; assumption|].
  assert (R' : 0 <= i + 8192 <= 16384) by lia.
  pose proof (good_int_spec _ _ _ (coord2_value' (i + 8192) R')) as [Wg [Fg Ig]].
  replace (i + 8192 - 8192) with i in * by lia.
  apply feq_ival; try assumption.
  assert (P : 0 < 2 ^ 6) by (apply pow2_pos; lia). nia.
Qed.

Lemma enc_coordinate_len f : (length (enc_coordinate f) <= 4)%nat.
Proof.
  unfold enc_coordinate, le16, enc_real4, le32. destruct (coord_short1 f); [cbn [length]; lia|].
  destruct (coord_short2 f); cbn [length]; lia.
Qed.

Lemma coord_shortest f b g n : wf_f32 f -> wf_bytes b ->
  dec_coordinate b = Some (g, n) -> feq F32 g f = true -> (length (enc_coordinate f) <= n)%nat.
Proof.
  intros W Wb D Q. unfold dec_coordinate in D.
  destruct (dec_natural b) as [[u k]|] eqn:N; [|discriminate].
  destruct (dec_natural_bound _ _ _ Wb N) as [[-> R]|[[-> R]|[-> R]]].
  - injection D as <- <-.
    pose proof (good_int_spec _ _ _ (coord1_value u R)) as [Wg [Fg Ig]].
    pose proof (feq_finite_r _ _ Fg Q) as Ff.
    apply feq_ival in Q; try assumption.
    assert (E : exact_int F32 f = Some (u - 64)).
    { rewrite exact_int_is_scaled. apply ival_exact_int_scaled; try assumption; lia. }
    unfold enc_coordinate, coord_short1. rewrite E, in_range_intro by lia. cbn [length]. lia.
  - injection D as <- <-.
    assert (R' : 0 <= u <= 16384) by lia.
    pose proof (good_int_spec _ _ _ (coord2_value' u R')) as [Wg [Fg Ig]].
    pose proof (feq_finite_r _ _ Fg Q) as Ff.
    apply feq_ival in Q; try assumption.
    assert (E : exact_int_scaled F32 6 f = Some (u - 8192)).
    { apply ival_exact_int_scaled; try assumption; lia. }
    unfold enc_coordinate, coord_short2. rewrite E, in_range_intro by lia.
    destruct (coord_short1 f); unfold le16; cbn [length]; lia.
  - injection D as <- <-. apply enc_coordinate_len.
Qed.

Lemma le32_wf v : 0 <= v < 4294967296 -> wf_bytes (le32 v).
Proof. intros H. unfold le32, wf_bytes, wf_byte. repeat apply Forall_cons; try apply Forall_nil; lia. Qed.

Lemma round4_range f : wf_f32 f -> 0 <= round4 f < 4294967296.
Proof.
  unfold wf_f32, round4. intros H. cbv zeta.
  destruct (f mod 8388608 <? 8388606) eqn:E; lia.
Qed.

Lemma enc_coordinate_wf f : wf_f32 f -> wf_bytes (enc_coordinate f).
Proof.
  intros W. unfold enc_coordinate.
  destruct (coord_short1 f) as [i|] eqn:S1.
  - apply in_range_some in S1 as [_ R]. unfold wf_bytes, wf_byte.
    apply Forall_cons; [lia|apply Forall_nil].
  - destruct (coord_short2 f) as [i|] eqn:S2.
    + apply in_range_some in S2 as [_ R]. unfold le16, wf_bytes, wf_byte.
      repeat apply Forall_cons; try apply Forall_nil; lia.
    + apply le32_wf, round4_range; assumption.
Qed.

Lemma coord_reencode_stable f g n : wf_f32 f -> dec_coordinate (enc_coordinate f) = Some (g, n) ->
  exists g' n', dec_coordinate (enc_coordinate g) = Some (g', n') /\ (n' <= n)%nat /\
                (g' = g \/ feq F32 g' g = true).
Proof.
  intros W D. rewrite <- (app_nil_r (enc_coordinate f)) in D.
  (* whatever form g is re-encoded in, decoding yields a value equal to g and the
     re-encoding is no longer than any code that decodes to g, in particular enc f *)
  assert (Wb : wf_bytes (enc_coordinate f ++ [])).
  { rewrite app_nil_r. apply enc_coordinate_wf; assumption. }
  assert (Wg : wf_f32 g).
  { destruct (coord_short1 f) as [i|] eqn:S1.
    - destruct (coord_exact1 f i [] W S1) as (_ & D' & _). rewrite D' in D. injection D as <- <-.
      apply in_range_some in S1 as [_ R]. assert (R' : 0 <= i + 64 < 128) by lia.
      pose proof (good_int_spec _ _ _ (coord1_value _ R')) as [Wg _].
      replace (i + 64 - 64) with i in Wg by lia. exact Wg.
    - destruct (coord_short2 f) as [i|] eqn:S2.
      + destruct (coord_exact2 f i [] W S1 S2) as (_ & D' & _). rewrite D' in D. injection D as <- <-.
        apply in_range_some in S2 as [_ R]. assert (R' : 0 <= i + 8192 <= 16384) by lia.
        pose proof (good_int_spec _ _ _ (coord2_value' _ R')) as [Wg _].
        replace (i + 8192 - 8192) with i in Wg by lia. exact Wg.
      + unfold enc_coordinate in D. rewrite S1, S2 in D. rewrite dec_coordinate_4 in D by assumption.
        injection D as <- <-. apply round4_val_wf; assumption. }
  destruct (coord_short1 g) as [i|] eqn:T1.
  - destruct (coord_exact1 g i [] Wg T1) as (E' & D' & Q). rewrite app_nil_r in D'.
    exists (of_Z F32 i), 1%nat. split; [exact D'|]. split; [|right; exact Q].
    pose proof (dec_natural_some (enc_coordinate f ++ [])) as K.
    unfold dec_coordinate in D. destruct (dec_natural (enc_coordinate f ++ [])) as [[u k]|] eqn:N; [|discriminate].
    destruct (dec_natural_bound _ _ _ Wb N) as [[-> _]|[[-> _]|[-> _]]]; injection D as _ <-; lia.
  - destruct (coord_short2 g) as [i|] eqn:T2.
    + destruct (coord_exact2 g i [] Wg T1 T2) as (E' & D' & Q). rewrite app_nil_r in D'.
      exists (fdiv F32 (of_Z F32 i) c64), 2%nat. split; [exact D'|]. split; [|right; exact Q].
      (* n >= 2: otherwise g would have a 1-byte form *)
      pose proof (coord_shortest g _ g n Wg Wb D) as L.
      assert (Qg : feq F32 g g = true).
      { apply feq_ival; try assumption; try reflexivity;
        apply in_range_some in T2 as [E _]; apply exact_int_scaled_ival in E as [Ff _]; try assumption; lia. }
      specialize (L Qg). rewrite E' in L. unfold le16 in L. cbn [length] in L. exact L.
    + (* g has no short form: then f had none either and g = round4_val f is a fixed point *)
      destruct (coord_short1 f) as [i|] eqn:S1.
      { exfalso. destruct (coord_exact1 f i [] W S1) as (_ & D' & _). rewrite D' in D. injection D as <- <-.
        apply in_range_some in S1 as [_ R]. assert (R' : 0 <= i + 64 < 128) by lia.
        pose proof (good_int_spec _ _ _ (coord1_value _ R')) as [_ [Fg Ig]].
        replace (i + 64 - 64) with i in * by lia.
        assert (E : exact_int F32 (of_Z F32 i) = Some i).
        { rewrite exact_int_is_scaled. apply ival_exact_int_scaled; try assumption; lia. }
        unfold coord_short1 in T1. rewrite E, in_range_intro in T1 by lia. discriminate. }
      destruct (coord_short2 f) as [i|] eqn:S2.
      { exfalso. destruct (coord_exact2 f i [] W S1 S2) as (_ & D' & _). rewrite D' in D. injection D as <- <-.
        apply in_range_some in S2 as [_ R]. assert (R' : 0 <= i + 8192 <= 16384) by lia.
        pose proof (good_int_spec _ _ _ (coord2_value' _ R')) as [_ [Fg Ig]].
        replace (i + 8192 - 8192) with i in * by lia.
        assert (E : exact_int_scaled F32 6 (fdiv F32 (of_Z F32 i) c64) = Some i).
        { apply ival_exact_int_scaled; try assumption; lia. }
        unfold coord_short2 in T2. rewrite E, in_range_intro in T2 by lia. discriminate. }
      unfold enc_coordinate in D. rewrite S1, S2 in D. rewrite dec_coordinate_4 in D by assumption.
      injection D as <- <-.
      exists (round4_val f), 4%nat. unfold enc_coordinate. rewrite T1, T2.
      rewrite <- (app_nil_r (enc_real4 _)), dec_coordinate_4 by (apply round4_val_wf; assumption).
      rewrite round4_val_idem by assumption. split; [reflexivity|]. split; [lia|]. left; reflexivity.
Qed.

(* ---------- quantize ---------- *)

Lemma dec_cm128 : decode F32 cm128 = FFin true 8388608 (-16).
Proof. vm_compute. reflexivity. Qed.
Lemma dec_c128 : decode F32 c128 = FFin false 8388608 (-16).
Proof. vm_compute. reflexivity. Qed.
Lemma ival_cm128 : ival32 cm128 = -128 * 2 ^ 149.
Proof. vm_compute. reflexivity. Qed.
Lemma ival_c128 : ival32 c128 = 128 * 2 ^ 149.
Proof. vm_compute. reflexivity. Qed.
Lemma wf_cm128 : wf_f32 cm128.
Proof. assert (E : cm128 = 3271557120) by (vm_compute; reflexivity). rewrite E. unfold wf_f32. lia. Qed.
Lemma wf_c128 : wf_f32 c128.
Proof. assert (E : c128 = 1124073472) by (vm_compute; reflexivity). rewrite E. unfold wf_f32. lia. Qed.

Lemma quant_range f : wf_f32 f -> fle F32 cm128 f = true -> flt F32 f c128 = true ->
  is_finite F32 f = true /\ -128 * 2 ^ 149 <= ival32 f < 128 * 2 ^ 149.
Proof.
  intros W L1 L2.
  assert (Ff : is_finite F32 f = true).
  { unfold is_finite, fle, flt, fcompare in *. rewrite dec_cm128 in L1. rewrite dec_c128 in L2.
    destruct (decode F32 f) as [| [|] |]; try discriminate; reflexivity. }
  split; [assumption|].
  unfold is_finite in Ff. destruct (decode F32 f) as [| |s m e] eqn:D; try discriminate.
  unfold fle in L1. rewrite (fcompare_ival _ _ _ _ _ _ _ _ wf_cm128 W dec_cm128 D) in L1.
  unfold flt in L2. rewrite (fcompare_ival _ _ _ _ _ _ _ _ W wf_c128 D dec_c128) in L2.
  rewrite ival_cm128 in L1. rewrite ival_c128 in L2.
  destruct (Z.compare_spec (-128 * 2 ^ 149) (ival32 f)); try discriminate;
  destruct (Z.compare_spec (ival32 f) (128 * 2 ^ 149)); try discriminate; lia.
Qed.

(* In low resolution, for -128 <= f < 128, the result is k/64 with
   k <= f*64 + 1/2 < k+1 : the nearest multiple of 1/64, ties upward. *)
Lemma quantize_nearest f : wf_f32 f -> fle F32 cm128 f = true -> flt F32 f c128 = true ->
  let k := quant_k f in
  let q := quantize false f in
  -8192 <= k <= 8192 /\
  k * 2 ^ 149 <= ival32 f * 64 + 2 ^ 148 < (k + 1) * 2 ^ 149 /\
  wf_f32 q /\ is_finite F32 q = true /\ ival32 q * 64 = k * 2 ^ 149.
Proof.
  intros W L1 L2 k q. destruct (quant_range f W L1 L2) as [Ff R].
  assert (P : 0 < 2 ^ 149) by (apply pow2_pos; lia).
  assert (H2 : 2 ^ 149 = 2 * 2 ^ 148) by (change 149 with (1 + 148); rewrite Z.pow_add_r by lia; reflexivity).
  assert (K : k * 2 ^ 149 <= ival32 f * 64 + 2 ^ 148 < (k + 1) * 2 ^ 149).
  { unfold k, quant_k. set (N := ival32 f * 64 + 2 ^ 148).
    pose proof (Z.div_mod N (2 ^ 149) ltac:(lia)) as E.
    pose proof (Z.mod_pos_bound N (2 ^ 149) P) as B. nia. }
  assert (Kr : -8192 <= k <= 8192) by nia.
  split; [exact Kr|]. split; [exact K|].
  assert (Hq : q = fdiv F32 (of_Z F32 k) c64).
  { unfold q, quantize. rewrite L1, L2. reflexivity. }
  assert (R' : 0 <= k + 8192 <= 16384) by lia.
  pose proof (good_int_spec _ _ _ (coord2_value' _ R')) as [Wg [Fg Ig]].
  replace (k + 8192 - 8192) with k in * by lia. rewrite Hq.
  split; [exact Wg|]. split; [exact Fg|].
  change (2 ^ 6) with 64 in Ig. exact Ig.
Qed.

Lemma quantize_identity hires f :
  hires = true \/ fle F32 cm128 f = false \/ flt F32 f c128 = false -> quantize hires f = f.
Proof.
  unfold quantize. intros [->|[->| ->]]; [reflexivity| |]; rewrite ?andb_false_r; reflexivity.
Qed.

(* ---------- SetNReg: shortest of the three encodings, ties in the order real, coordinate, zero-to-one ---------- *)

Lemma nreg_shortest f :
  let op := fst (nreg_choice f) in
  let b := snd (nreg_choice f) in
  let n1 := length (enc_real f) in
  let n2 := length (enc_coordinate f) in
  let n3 := length (enc_zero_to_one f) in
  length b = Nat.min n1 (Nat.min n2 n3) /\
  (op = 168 /\ b = enc_real f /\ (n1 <= n2)%nat /\ (n1 <= n3)%nat \/
   op = 176 /\ b = enc_coordinate f /\ (n2 < n1)%nat /\ (n2 <= n3)%nat \/
   op = 184 /\ b = enc_zero_to_one f /\ (n3 < n1)%nat /\ (n3 < n2)%nat).
Proof.
  unfold nreg_choice. cbv zeta. cbn [snd fst].
  destruct (Nat.ltb_spec (length (enc_coordinate f)) (length (enc_real f))) as [A|A]; cbn [snd fst].
  - destruct (Nat.ltb_spec (length (enc_zero_to_one f)) (length (enc_coordinate f))) as [B|B]; cbn [snd fst].
    + split; [lia|]. right; right. repeat split; lia.
    + split; [lia|]. right; left. repeat split; lia.
  - destruct (Nat.ltb_spec (length (enc_zero_to_one f)) (length (enc_real f))) as [B|B]; cbn [snd fst].
    + split; [lia|]. right; right. repeat split; lia.
    + split; [lia|]. left. repeat split; lia.
Qed.

(* zero-to-one: which form is chosen *)
Lemma zto_form f :
  match zto_short f with
  | Some u => 0 <= u < 15120 /\
              (u mod 126 = 0 -> enc_zero_to_one f = [2 * (u / 126)]) /\
              (u mod 126 <> 0 -> enc_zero_to_one f = le16 (4 * u + 1))
  | None => enc_zero_to_one f = enc_real4 f
  end.
Proof.
  unfold enc_zero_to_one. destruct (zto_short f) as [u|] eqn:S; [|reflexivity].
  apply in_range_some in S as [_ R]. split; [exact R|].
  destruct (u mod 126 =? 0) eqn:M; split; intros; try reflexivity; lia.
Qed.

Lemma dec_zero_to_one_forms u rest : 0 <= u < 15120 ->
  (u mod 126 = 0 -> dec_zero_to_one ([2 * (u / 126)] ++ rest) =
                    Some (fdiv F32 (of_Z F32 (u / 126)) c120, 1%nat)) /\
  dec_zero_to_one (le16 (4 * u + 1) ++ rest) = Some (fdiv F32 (of_Z F32 u) c15120, 2%nat).
Proof.
  intros H. split.
  - intros M. unfold dec_zero_to_one. cbn [app dec_natural].
    replace ((2 * (u / 126)) mod 2 =? 0) with true by lia.
    replace (2 * (u / 126) / 2) with (u / 126) by lia. reflexivity.
  - unfold dec_zero_to_one, le16. cbn [app dec_natural]. set (v := 4 * u + 1).
    replace ((v mod 256) mod 2 =? 0) with false by (unfold v; lia).
    replace (((v mod 256) / 2) mod 2 =? 0) with true by (unfold v; lia).
    replace ((v mod 256 + 256 * (v / 256)) / 4) with u by (unfold v; lia). reflexivity.
Qed.

(* Proofs about the number codecs (C08). Stdlib style. *)
From Coq Require Import ZArith Bool List Lia ZifyBool ZifyNat.
From IVG Require Import SF NumCodec NumBase.
Import ListNotations.
Local Open Scope Z_scope.
Ltac Zify.zify_post_hook ::= Z.div_mod_to_equations.
Local Opaque Z.mul Z.add Z.div Z.modulo Z.pow.

Lemma sweep_coord1_ok :
  forallb (fun u => good_int 0 (of_Z F32 (u - 64)) (u - 64)) (zrange 0 128) = true.
Proof. vm_compute. reflexivity. Qed.


(* float32(i) is exact for the integers -8192 .. 8192 (kernel sweep) *)
From Coq Require Import ZArith Bool List Lia ZifyBool ZifyNat.
From IVG Require Import SF NumCodec NumBase.
Import ListNotations.
Local Open Scope Z_scope.

Lemma sweep_ofZ_ok :
  forallb (fun u => good_int 0 (of_Z F32 (u - 8192)) (u - 8192)) (zrange 0 (Z.to_nat 16385)) = true.
Proof. vm_compute. reflexivity. Qed.

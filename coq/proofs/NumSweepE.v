(* narrowing the float64 of an integer -8192 .. 8192 gives the float32 of that integer (kernel sweep) *)
From Coq Require Import ZArith Bool List.
From IVG Require Import SF NumCodec NumBase.
Import ListNotations.
Local Open Scope Z_scope.

Lemma sweep_narrow_ok :
  forallb (fun u => f64_to_f32 (of_Z F64 (u - 8192)) =? of_Z F32 (u - 8192)) (zrange 0 (Z.to_nat 16385)) = true.
Proof. vm_compute. reflexivity. Qed.

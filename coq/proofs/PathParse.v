(* PathParse.v — generate.SetPathData parses the dialect it supports into exactly the operations the path
   spells (C20).  The dialect is given by a printer over a structured path (commands, operand groups,
   numbers with their separators); the theorem says that the model of SetPathData, run on the printed
   string, makes the calls the structure prescribes. *)
From Coq Require Import ZArith Bool List Lia ZifyBool.
From IVG Require Import SF NumCodec Color Calls Generator PathData.
Import ListNotations.
Local Open Scope Z_scope.

(* ---------- the structured path ---------- *)
Record num := mkNum { n_tok : str; n_sep : str }.       (* a decimal literal and the separators after it *)
Inductive cmd :=
| Cmd (v : Z) (g : list num) (gs : list (list num))     (* a verb, its first operand group, repeated groups *)
| CmdZ (z : Z).                                         (* z or Z *)

Definition print_num (n : num) : str := n_tok n ++ n_sep n.
Definition print_nums (l : list num) : str := flat_map print_num l.
Definition print_cmd (c : cmd) : str :=
  match c with
  | Cmd v g gs => v :: print_nums g ++ flat_map print_nums gs
  | CmdZ z => [z]
  end.
Definition print_path (cs : list cmd) : str := flat_map print_cmd cs ++ [122].

(* ---------- which structured paths are in the dialect ---------- *)
Definition is_sep (c : Z) : bool := (c =? cSP) || (c =? cCOMMA).
Definition dd (x : Z) : bool := is_digit x || (x =? cDOT).
Definition ndots (l : str) : nat := length (filter (fun x => x =? cDOT) l).
Definition tok_ok (tok : str) : bool := match lit_f64_f32 tok with Some _ => true | None => false end.
Definition tok_val (tok : str) : f32 := match lit_f64_f32 tok with Some x => x | None => 0 end.

(* the byte after a number (and its separators): not a separator; and with no separator at all it must
   end the number by itself: a sign, a letter, or a dot when the number already has one *)
Definition follow_ok (n : num) (c : Z) : bool :=
  negb (is_sep c) &&
  match n_sep n with
  | [] => negb (is_digit c) && (negb (c =? cDOT) || (0 <? ndots (n_tok n))%nat)
  | _ => true
  end.

Fixpoint nums_ok (l : list num) (R : str) : bool :=
  match l with
  | [] => true
  | n :: l' => tok_ok (n_tok n) && forallb is_sep (n_sep n) &&
               match print_nums l' ++ R with c :: _ => follow_ok n c | [] => false end && nums_ok l' R
  end.

Fixpoint groups_ok (n : nat) (gs : list (list num)) (R : str) : bool :=
  match gs with
  | [] => true
  | g :: gs' => (length g =? n)%nat && nums_ok g (flat_map print_nums gs' ++ R) && groups_ok n gs' R
  end.

Definition cmd_ok (c : cmd) (R : str) : bool :=
  match c with
  | Cmd v g gs => match arity_of v with
                  | Some n => (0 <? n)%nat && groups_ok n (g :: gs) R
                  | None => false
                  end
  | CmdZ z => (z =? 90) || (z =? 122)
  end.

Fixpoint cmds_ok (cs : list cmd) (R : str) : bool :=
  match cs with
  | [] => true
  | c :: cs' => cmd_ok c (flat_map print_cmd cs' ++ R) && cmds_ok cs' R
  end.

Definition path_ok (cs : list cmd) : bool :=
  match cs with
  | Cmd v _ _ :: _ => ((v =? 77) || (v =? 109)) && cmds_ok cs [122]
  | _ => false
  end.

(* ---------- what the structure prescribes ---------- *)
Definition demote (v : Z) : Z := if v =? 77 then 76 else if v =? 109 then 108 else v.
Definition vals (g : list num) : list f32 := map (fun n => tok_val (n_tok n)) g.
Definition group_calls (tr : option aff3) (adj : Z) (verb : Z) (g : list num) : list call :=
  pd_call verb adj (norm_args tr (length g) verb (vals g)).
Definition cmd_calls (tr : option aff3) (adj : Z) (c : cmd) : list call :=
  match c with
  | Cmd v g gs => group_calls tr adj v g ++ flat_map (group_calls tr adj (demote v)) gs
  | CmdZ _ => []
  end.
(* the first move starts the path ('@' = 64 is the generator's marker for it: absolute, with the register
   adjustment), its repeated groups are lines, then every command in turn, then the path is ended once *)
Definition path_calls (tr : option aff3) (adj : Z) (cs : list cmd) : list call :=
  match cs with
  | Cmd v g gs :: rest =>
      group_calls tr adj 64 g ++ flat_map (group_calls tr adj (demote v)) gs
      ++ flat_map (cmd_calls tr adj) rest ++ [CEndPath]
  | _ => []
  end.

(* ---------- scanning ---------- *)
Lemma literal_shape c tl : literal (c :: tl) <> None ->
  forallb dd tl = true /\ ((if (c =? cDOT)%Z then 1 else 0) + ndots tl <= 1)%nat.
Proof.
  unfold literal.
  destruct (c =? cMINUS) eqn:E1; [|destruct (c =? cPLUS) eqn:E2].
  - destruct (dec_digits tl 0 0 false false) as [[n k] seen].
    destruct (forallb _ tl) eqn:F; [|cbn; congruence].
    destruct (Nat.leb _ 1) eqn:D; [|cbn; congruence].
    intros _. split; [first [exact F|reflexivity]|].
    assert (c =? cDOT = false) as -> by (unfold cMINUS, cDOT in *; lia).
    apply Nat.leb_le in D. exact D.
  - destruct (dec_digits tl 0 0 false false) as [[n k] seen].
    destruct (forallb _ tl) eqn:F; [|cbn; congruence].
    destruct (Nat.leb _ 1) eqn:D; [|cbn; congruence].
    intros _. split; [first [exact F|reflexivity]|].
    assert (c =? cDOT = false) as -> by (unfold cPLUS, cDOT in *; lia).
    apply Nat.leb_le in D. exact D.
  - destruct (dec_digits (c :: tl) 0 0 false false) as [[n k] seen].
    destruct (forallb _ (c :: tl)) eqn:F; [|cbn; congruence].
    destruct (Nat.leb _ 1) eqn:D; [|cbn; congruence].
    intros _. cbn [forallb] in F. apply andb_true_iff in F as [_ F]. split; [exact F|].
    apply Nat.leb_le in D. cbn [filter] in D. unfold ndots. destruct (c =? cDOT); cbn [length] in D; lia.
Qed.

Definition stop_ok (k : nat) (R : str) : bool :=
  match R with c :: _ => negb (is_digit c) && (negb (c =? cDOT) || (0 <? k)%nat) | [] => false end.

Lemma scan_tok_app l : forall (nd : nat) acc R,
  forallb dd l = true -> (nd + ndots l <= 1)%nat -> stop_ok (nd + ndots l) R = true ->
  scan_tok (l ++ R) (Z.of_nat nd) acc = (rev acc ++ l, R).
Proof.
  induction l as [|c l IH]; intros nd acc R F D HS.
  - cbn [app]. rewrite app_nil_r. unfold ndots in HS; cbn [filter length] in HS. rewrite Nat.add_0_r in HS.
    destruct R as [|c R]; [discriminate|]. cbn [stop_ok] in HS. apply andb_true_iff in HS as [S1 S2].
    cbn [scan_tok]. apply negb_true_iff in S1. rewrite S1.
    destruct (c =? cDOT) eqn:E; [|reflexivity].
    cbn [negb orb] in S2. apply Nat.ltb_lt in S2.
    assert (Z.of_nat nd =? 0 = false) as -> by lia. reflexivity.
  - cbn [forallb] in F. apply andb_true_iff in F as [Fc F].
    cbn [app scan_tok]. unfold dd in Fc.
    unfold ndots in D, HS; cbn [filter] in D, HS; fold (ndots l) in D, HS.
    destruct (is_digit c) eqn:Ed.
    + assert (c =? cDOT = false) as Edot by (clear - Ed; unfold is_digit, ch, cDOT in *; lia).
      rewrite Edot in D, HS. fold (ndots l) in D, HS.
      rewrite (IH nd (c :: acc) R F D HS). cbn [rev]. rewrite <- app_assoc. reflexivity.
    + cbn [orb] in Fc. rewrite Fc in D, HS |- *. cbn [length] in D, HS. fold (ndots l) in D, HS.
      assert (nd = 0%nat) as -> by lia. cbn [Z.of_nat Z.eqb andb].
      change 1 with (Z.of_nat 1).
      rewrite (IH 1%nat (c :: acc) R F); [cbn [rev]; rewrite <- app_assoc; reflexivity|lia|].
      replace (1 + ndots l)%nat with (0 + Datatypes.S (ndots l))%nat by lia. exact HS.
Qed.

Lemma skip_seps_app sep : forall R, forallb is_sep sep = true ->
  match R with c :: _ => negb (is_sep c) | [] => true end = true -> skip_seps (sep ++ R) = R.
Proof.
  induction sep as [|c sep IH]; intros R F H.
  - cbn [app]. destruct R as [|c R]; [reflexivity|]. cbn [skip_seps]. unfold is_sep in H.
    apply negb_true_iff in H. rewrite H. reflexivity.
  - cbn [forallb] in F. apply andb_true_iff in F as [Fc F]. cbn [app skip_seps].
    unfold is_sep in Fc. rewrite Fc. apply IH; assumption.
Qed.

Lemma tok_ok_literal tok : tok_ok tok = true -> literal tok <> None.
Proof. unfold tok_ok, lit_f64_f32. destruct (literal tok) as [[[? ?] ?]|]; [congruence|discriminate]. Qed.

Lemma tok_ok_val tok : tok_ok tok = true -> lit_f64_f32 tok = Some (tok_val tok).
Proof. unfold tok_ok, tok_val. destruct (lit_f64_f32 tok); [reflexivity|discriminate]. Qed.

Lemma tok_ok_cons tok : tok_ok tok = true -> exists c tl, tok = c :: tl.
Proof. destruct tok as [|c tl]; [discriminate|]. eauto. Qed.

Lemma scan_nums_ok l : forall R, nums_ok l R = true ->
  scan_nums (length l) (print_nums l ++ R) = ScanOk (vals l) R.
Proof.
  induction l as [|n l IH]; intros R H; [reflexivity|].
  cbn [nums_ok] in H. apply andb_true_iff in H as [H Hl]. apply andb_true_iff in H as [H Hf].
  apply andb_true_iff in H as [Ht Hs].
  destruct (tok_ok_cons _ Ht) as (c & tl & Etok).
  destruct (literal_shape c tl) as [Fdd Dn]; [rewrite <- Etok; apply tok_ok_literal, Ht|].
  cbn [length print_nums flat_map]. unfold print_num at 1. rewrite Etok.
  fold (print_nums l). rewrite <- !app_assoc. cbn [app scan_nums].
  destruct (print_nums l ++ R) as [|c1 R1] eqn:ER; [discriminate|].
  assert (Hstop : stop_ok ((if c =? cDOT then 1 else 0) + ndots tl) (n_sep n ++ c1 :: R1) = true).
  { unfold follow_ok in Hf. apply andb_true_iff in Hf as [Hf1 Hf2].
    destruct (n_sep n) as [|s0 ss] eqn:Es.
    - cbn [app stop_ok]. rewrite Etok in Hf2. unfold ndots in Hf2 |- *. cbn [filter] in Hf2.
      destruct (c =? cDOT); cbn [length] in Hf2; exact Hf2.
    - cbn [app stop_ok]. cbn [forallb] in Hs. apply andb_true_iff in Hs as [Hs0 _].
      unfold is_sep, cSP, cCOMMA in Hs0. unfold is_digit, ch, cDOT.
      destruct (s0 =? 46) eqn:E46; [lia|]. cbn [negb orb]. rewrite andb_true_r. lia. }
  replace (if c =? cDOT then 1 else 0) with (Z.of_nat (if c =? cDOT then 1 else 0)) by (destruct (c =? cDOT); reflexivity).
  rewrite (scan_tok_app tl _ [] _ Fdd Dn Hstop). cbn [rev app].
  destruct (n_sep n ++ c1 :: R1) as [|x xs] eqn:Ex; [destruct (n_sep n); discriminate|]. rewrite <- Ex.
  rewrite <- Etok, (tok_ok_val _ Ht).
  rewrite skip_seps_app; [|exact Hs|apply andb_true_iff in Hf as [Hf1 _]; exact Hf1].
  rewrite <- ER, (IH R Hl). reflexivity.
Qed.

(* ---------- the verb loop ---------- *)
Lemma tok_first_no_verb tok : tok_ok tok = true ->
  exists c tl, tok = c :: tl /\ arity_of c = None /\ c <> 122.
Proof.
  intros H. destruct tok as [|c tl]; [discriminate|]. exists c, tl. split; [reflexivity|].
  assert (Hc : c = cMINUS \/ c = cPLUS \/ dd c = true).
  { pose proof (tok_ok_literal _ H) as L. unfold literal in L.
    destruct (c =? cMINUS) eqn:E1; [left; lia|]. destruct (c =? cPLUS) eqn:E2; [right; left; lia|].
    right; right. destruct (dec_digits (c :: tl) 0 0 false false) as [[n k] seen].
    destruct (forallb _ (c :: tl)) eqn:F; [|cbn in L; congruence].
    cbn [forallb] in F. apply andb_true_iff in F as [F _]. exact F. }
  unfold arity_of. unfold dd, is_digit, ch, cMINUS, cPLUS, cDOT in Hc.
  assert (c < 65) by lia.
  repeat match goal with |- context [c =? ?k] => let E := fresh in destruct (c =? k) eqn:E; [lia|]; clear E end.
  cbn. split; [reflexivity|lia].
Qed.

Lemma demote_idem v : demote (demote v) = demote v.
Proof. unfold demote. destruct (v =? 77) eqn:A; [reflexivity|]. destruct (v =? 109) eqn:B; [reflexivity|]. rewrite A, B. reflexivity. Qed.

Lemma demote_nonzero v n : arity_of v = Some n -> demote v =? 0 = false.
Proof.
  intros H. unfold demote. destruct (v =? 77); [reflexivity|]. destruct (v =? 109); [reflexivity|].
  destruct (v =? 0) eqn:E; [|reflexivity]. apply Z.eqb_eq in E. subst v. discriminate.
Qed.

Lemma arity_demote v n : arity_of v = Some n -> arity_of (demote v) = Some n.
Proof.
  unfold demote. destruct (v =? 77) eqn:A; [apply Z.eqb_eq in A; subst v; intros H; exact H|].
  destruct (v =? 109) eqn:B; [apply Z.eqb_eq in B; subst v; intros H; exact H|]. auto.
Qed.

(* one iteration on an explicit verb with its first group *)
Lemma step_explicit fuel tr adj start pn pv v n g R :
  arity_of v = Some n -> (0 < n)%nat -> length g = n -> nums_ok g R = true ->
  spd_loop (S fuel) tr adj start pn pv (v :: print_nums g ++ R) =
  let '(cs', o) := spd_loop fuel tr adj false n (demote v) R in
  (group_calls tr adj (if start then 64 else v) g ++ cs', o).
Proof.
  intros Ha Hn Hl Hok. cbn [spd_loop].
  assert (Hne : match v :: print_nums g ++ R with [122] => true | _ => false end = false).
  { destruct (print_nums g ++ R) eqn:E; [|destruct (v =? 122) eqn:E1; [apply Z.eqb_eq in E1; subst v|];
      [discriminate Ha || (cbv in Ha; injection Ha as <-; lia)|]].
    - destruct g as [|n0 g]; [cbn in Hl; lia|]. cbn [nums_ok] in Hok.
      apply andb_true_iff in Hok as [Hok _]. apply andb_true_iff in Hok as [Hok _]. apply andb_true_iff in Hok as [Ht _].
      destruct (tok_ok_cons _ Ht) as (c & tl & Etok). cbn [print_nums flat_map] in E. unfold print_num in E.
      rewrite Etok in E. discriminate.
    - destruct v; try reflexivity. destruct p; try reflexivity; repeat (destruct p; try reflexivity); discriminate. }
  rewrite Hne, Ha. cbn [negb].
  rewrite <- Hl, (scan_nums_ok g R Hok).
  unfold group_calls, demote. rewrite Hl.
  destruct (spd_loop fuel tr adj false n _ R) as [cs' o]. reflexivity.
Qed.

(* one iteration on a repeated operand group (no verb letter) *)
Lemma step_implicit fuel tr adj pv n g R :
  (0 < n)%nat -> length g = n -> nums_ok g R = true -> pv =? 0 = false ->
  spd_loop (S fuel) tr adj false n pv (print_nums g ++ R) =
  let '(cs', o) := spd_loop fuel tr adj false n (demote pv) R in
  (group_calls tr adj pv g ++ cs', o).
Proof.
  intros Hn Hl Hok Hpv.
  destruct g as [|n0 g]; [cbn in Hl; lia|].
  assert (Ht : tok_ok (n_tok n0) = true).
  { cbn [nums_ok] in Hok. apply andb_true_iff in Hok as [Hok _]. apply andb_true_iff in Hok as [Hok _].
    apply andb_true_iff in Hok as [Ht _]. exact Ht. }
  destruct (tok_first_no_verb _ Ht) as (c & tl & Etok & Har & Hz).
  assert (Ed : print_nums (n0 :: g) ++ R = c :: (tl ++ n_sep n0 ++ print_nums g ++ R)).
  { cbn [print_nums flat_map]. unfold print_num at 1. rewrite Etok. rewrite <- !app_assoc. reflexivity. }
  cbn [spd_loop]. rewrite Ed.
  assert (Hne : match c :: (tl ++ n_sep n0 ++ print_nums g ++ R) with [122] => true | _ => false end = false).
  { destruct (tl ++ n_sep n0 ++ print_nums g ++ R); [|destruct c; try reflexivity; repeat (destruct p; try reflexivity)].
    destruct (c =? 122) eqn:E; [lia|]. destruct c; try reflexivity. repeat (destruct p; try reflexivity). lia. }
  rewrite Hne, Har, Hpv. rewrite <- Ed.
  rewrite <- Hl, (scan_nums_ok (n0 :: g) R Hok).
  unfold group_calls, demote. rewrite Hl.
  destruct (spd_loop fuel tr adj false n _ R) as [cs' o]. reflexivity.
Qed.

Lemma step_z fuel tr adj pn pv z R : (z =? 90) || (z =? 122) = true -> R <> [] ->
  spd_loop (S fuel) tr adj false pn pv (z :: R) = spd_loop fuel tr adj false 0 z R.
Proof.
  intros Hz HR. cbn [spd_loop].
  assert (Hne : match z :: R with [122] => true | _ => false end = false).
  { destruct R; [congruence|]. destruct z; try reflexivity. repeat (destruct p; try reflexivity). }
  rewrite Hne.
  assert (Ha : arity_of z = Some 0%nat).
  { apply orb_true_iff in Hz as [E|E]; apply Z.eqb_eq in E; subst z; reflexivity. }
  rewrite Ha. cbn [scan_nums].
  assert (Hd : (if z =? 77 then 76 else if z =? 109 then 108 else z) = z).
  { apply orb_true_iff in Hz as [E|E]; apply Z.eqb_eq in E; subst z; reflexivity. }
  rewrite Hd.
  assert (Hc : pd_call z adj (norm_args tr 0 z []) = []).
  { apply orb_true_iff in Hz as [E|E]; apply Z.eqb_eq in E; subst z; destruct tr; reflexivity. }
  rewrite Hc. destruct (spd_loop fuel tr adj false 0 z R) as [cs' o]. reflexivity.
Qed.

Lemma step_end fuel tr adj st pn pv : spd_loop (S fuel) tr adj st pn pv [122] = ([CEndPath], PDOk).
Proof. reflexivity. Qed.

(* the repeated groups of one command *)
Lemma loop_groups gs : forall fuel tr adj pv n R,
  (0 < n)%nat -> groups_ok n gs R = true -> pv =? 0 = false -> demote pv = pv ->
  spd_loop (length gs + fuel) tr adj false n pv (flat_map print_nums gs ++ R) =
  let '(cs', o) := spd_loop fuel tr adj false n pv R in
  (flat_map (group_calls tr adj pv) gs ++ cs', o).
Proof.
  induction gs as [|g gs IH]; intros fuel tr adj pv n R Hn Hok Hpv Hd.
  - cbn [length flat_map app Nat.add]. destruct (spd_loop fuel tr adj false n pv R). reflexivity.
  - cbn [groups_ok] in Hok. apply andb_true_iff in Hok as [Hok Hgs]. apply andb_true_iff in Hok as [Hl Hg].
    apply Nat.eqb_eq in Hl.
    cbn [length flat_map Nat.add]. rewrite <- app_assoc.
    rewrite (step_implicit _ tr adj pv n g _ Hn Hl Hg Hpv). rewrite Hd.
    rewrite (IH fuel tr adj pv n R Hn Hgs Hpv Hd).
    destruct (spd_loop fuel tr adj false n pv R) as [cs' o]. rewrite <- app_assoc. reflexivity.
Qed.

Definition iters (c : cmd) : nat := match c with Cmd _ _ gs => S (length gs) | CmdZ _ => 1 end.
Definition iters_all (cs : list cmd) : nat := fold_right (fun c a => iters c + a)%nat 0%nat cs.

Lemma loop_cmd c : forall fuel tr adj start pn pv R,
  cmd_ok c R = true -> R <> [] -> (start = true -> exists v g gs, c = Cmd v g gs) ->
  exists n' pv',
  spd_loop (iters c + fuel) tr adj start pn pv (print_cmd c ++ R) =
  let '(cs', o) := spd_loop fuel tr adj false n' pv' R in
  ((match c with
    | Cmd v g gs => group_calls tr adj (if start then 64 else v) g ++ flat_map (group_calls tr adj (demote v)) gs
    | CmdZ _ => []
    end) ++ cs', o).
Proof.
  intros fuel tr adj start pn pv R Hok HR Hst. destruct c as [v g gs|z].
  - cbn [cmd_ok] in Hok. destruct (arity_of v) as [n|] eqn:Ha; [|discriminate].
    apply andb_true_iff in Hok as [Hn Hok]. apply Nat.ltb_lt in Hn.
    cbn [groups_ok] in Hok. apply andb_true_iff in Hok as [Hok Hgs]. apply andb_true_iff in Hok as [Hl Hg].
    apply Nat.eqb_eq in Hl.
    exists n, (demote v). cbn [iters print_cmd Nat.add]. rewrite <- !app_comm_cons, <- app_assoc.
    rewrite (step_explicit _ tr adj start pn pv v n g _ Ha Hn Hl Hg).
    rewrite (loop_groups gs fuel tr adj (demote v) n R Hn Hgs (demote_nonzero v n Ha) (demote_idem v)).
    destruct (spd_loop fuel tr adj false n (demote v) R) as [cs' o]. rewrite <- app_assoc. reflexivity.
  - destruct start; [destruct (Hst eq_refl) as (? & ? & ? & ?); discriminate|].
    cbn [cmd_ok] in Hok. exists 0%nat, z. cbn [iters print_cmd Nat.add app].
    rewrite (step_z fuel tr adj pn pv z R Hok HR).
    destruct (spd_loop fuel tr adj false 0 z R) as [cs' o]. reflexivity.
Qed.

Lemma loop_cmds cs : forall fuel tr adj pn pv,
  cmds_ok cs [122] = true ->
  spd_loop (iters_all cs + S fuel) tr adj false pn pv (flat_map print_cmd cs ++ [122]) =
  (flat_map (cmd_calls tr adj) cs ++ [CEndPath], PDOk).
Proof.
  induction cs as [|c cs IH]; intros fuel tr adj pn pv Hok.
  - reflexivity.
  - cbn [cmds_ok] in Hok. apply andb_true_iff in Hok as [Hc Hcs].
    cbn [flat_map iters_all fold_right]. fold (iters_all cs). rewrite <- app_assoc, <- Nat.add_assoc.
    destruct (loop_cmd c (iters_all cs + S fuel) tr adj false pn pv _ Hc) as (n' & pv' & E).
    { destruct (flat_map print_cmd cs); discriminate. }
    { discriminate. }
    rewrite E, (IH fuel tr adj n' pv' Hcs). cbn [flat_map]. destruct c; cbn [cmd_calls]; rewrite <- ?app_assoc; reflexivity.
Qed.

Lemma spd_fuel_mono : forall fuel tr adj st pn pv d cs,
  spd_loop fuel tr adj st pn pv d = (cs, PDOk) -> forall k, spd_loop (k + fuel) tr adj st pn pv d = (cs, PDOk).
Proof.
  induction fuel as [|fuel IH]; intros tr adj st pn pv d cs H k; [discriminate|].
  rewrite Nat.add_succ_r. cbn [spd_loop] in H |- *.
  destruct (match d with [122] => true | _ => false end); [exact H|].
  destruct d as [|v r]; [discriminate|].
  destruct (match arity_of v with Some n => (n, v, false, false) | None => (pn, pv, true, pv =? 0) end) as [[[n verb] implicit] bad].
  destruct bad; [discriminate|].
  destruct (scan_nums n (if implicit then v :: r else r)) as [xs d2| |]; try discriminate.
  destruct (spd_loop fuel tr adj false n _ d2) as [cs' o] eqn:E.
  destruct o; try (injection H as _ H; discriminate).
  rewrite (IH _ _ _ _ _ _ _ E k). exact H.
Qed.

Lemma group_nonempty n g R : (0 < n)%nat -> length g = n -> nums_ok g R = true -> (1 <= length (print_nums g))%nat.
Proof.
  intros Hn Hl Hok. destruct g as [|n0 g]; [cbn in Hl; lia|].
  cbn [nums_ok] in Hok. apply andb_true_iff in Hok as [Hok _]. apply andb_true_iff in Hok as [Hok _].
  apply andb_true_iff in Hok as [Ht _]. destruct (tok_ok_cons _ Ht) as (c & tl & E).
  cbn [print_nums flat_map]. unfold print_num. rewrite E. cbn [app length]. lia.
Qed.

Lemma groups_len n gs : forall R, (0 < n)%nat -> groups_ok n gs R = true ->
  (length gs <= length (flat_map print_nums gs))%nat.
Proof.
  induction gs as [|g gs IH]; intros R Hn Hok; [cbn; lia|].
  cbn [groups_ok] in Hok. apply andb_true_iff in Hok as [Hok Hgs]. apply andb_true_iff in Hok as [Hl Hg].
  apply Nat.eqb_eq in Hl. cbn [flat_map length]. rewrite app_length.
  pose proof (group_nonempty n g _ Hn Hl Hg). pose proof (IH R Hn Hgs). lia.
Qed.

Lemma iters_le c R : cmd_ok c R = true -> (iters c <= length (print_cmd c))%nat.
Proof.
  destruct c as [v g gs|z]; intros Hok; [|cbn; lia].
  cbn [cmd_ok] in Hok. destruct (arity_of v) as [n|]; [|discriminate].
  apply andb_true_iff in Hok as [Hn Hok]. apply Nat.ltb_lt in Hn.
  cbn [groups_ok] in Hok. apply andb_true_iff in Hok as [_ Hgs].
  cbn [iters print_cmd length]. rewrite app_length. pose proof (groups_len n gs R Hn Hgs). lia.
Qed.

Lemma iters_all_le cs : forall R, cmds_ok cs R = true -> (iters_all cs <= length (flat_map print_cmd cs))%nat.
Proof.
  induction cs as [|c cs IH]; intros R Hok; [cbn; lia|].
  cbn [cmds_ok] in Hok. apply andb_true_iff in Hok as [Hc Hcs].
  cbn [iters_all fold_right flat_map]. fold (iters_all cs). rewrite app_length.
  pose proof (iters_le c _ Hc). pose proof (IH R Hcs). lia.
Qed.

(* SetPathData on a path of the dialect makes exactly the calls the path spells *)
Theorem set_path_data_correct tr adj cs : path_ok cs = true ->
  set_path_data tr (print_path cs) adj = (path_calls tr adj cs, PDOk).
Proof.
  intros Hok. unfold path_ok in Hok. destruct cs as [|[v g gs|z] rest]; try discriminate.
  apply andb_true_iff in Hok as [Hv Hok].
  pose proof (iters_all_le _ _ Hok) as Hlen.
  cbn [cmds_ok] in Hok. apply andb_true_iff in Hok as [Hc Hrest].
  unfold set_path_data, print_path.
  set (d := flat_map print_cmd (Cmd v g gs :: rest) ++ [122]).
  assert (Hfuel : exists k, S (length d) = (k + (iters (Cmd v g gs) + (iters_all rest + 1)))%nat).
  { exists (S (length d) - (iters (Cmd v g gs) + (iters_all rest + 1)))%nat.
    unfold d. rewrite app_length. cbn [length].
    cbn [iters_all fold_right] in Hlen. fold (iters_all rest) in Hlen. lia. }
  destruct Hfuel as [k ->].
  apply spd_fuel_mono.
  unfold d. cbn [flat_map]. rewrite <- app_assoc.
  destruct (loop_cmd (Cmd v g gs) (iters_all rest + 1) tr adj true 0 0 _ Hc) as (n' & pv' & E).
  { destruct (flat_map print_cmd rest); discriminate. }
  { eauto. }
  rewrite E. replace (iters_all rest + 1)%nat with (iters_all rest + S 0)%nat by lia.
  rewrite (loop_cmds rest 0 tr adj n' pv' Hrest).
  unfold path_calls. rewrite <- !app_assoc. reflexivity.
Qed.

(* the canonical printer — one space after every number — always lands in the dialect *)
Definition spaced (toks : list str) : list num := map (fun t => mkNum t [cSP]) toks.

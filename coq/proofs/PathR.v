(* PathR.v — the affine helpers and normalize over the reals (C20): the same polymorphic terms the float
   model runs (concat_gen, mul_aff3_gen, norm_args_gen), instantiated at R. *)
From Coq Require Import Reals List ZArith Bool Lra.
From IVG Require Import SF NumCodec Color Calls Generator PathData GradGeomR.
Import ListNotations.
Local Open Scope R_scope.

Definition applyR (p : R * R) (a : list R) : R * R := mul_aff3_gen GR (fst p) (snd p) a.

(* Concat of two transforms is composition: first a, then b *)
Lemma concat2_compose a b x y :
  mul_aff3_gen GR x y (concat2_gen GR a b) = applyR (mul_aff3_gen GR x y a) b.
Proof.
  unfold applyR, mul_aff3_gen, concat2_gen, at_gen; cbn [GR o_add o_mul o_zero nth fst snd].
  f_equal; ring.
Qed.

Lemma id_apply x y : mul_aff3_gen GR x y (aff_id_gen GR) = (x, y).
Proof. unfold mul_aff3_gen, aff_id_gen, at_gen; cbn [GR o_add o_mul o_zero o_one nth]. f_equal; ring. Qed.

Lemma fold_concat2 l : forall acc x y,
  mul_aff3_gen GR x y (fold_left (concat2_gen GR) l acc) = fold_left applyR l (mul_aff3_gen GR x y acc).
Proof.
  induction l as [|a l IH]; intros acc x y; cbn [fold_left]; [reflexivity|].
  rewrite IH, concat2_compose. reflexivity.
Qed.

(* Concat(a1, ..., an) applied to a point is a1, then a2, ... then an applied in turn — for every n,
   including the n = 1 shortcut that returns its argument unchanged *)
Theorem concat_is_composition l x y :
  mul_aff3_gen GR x y (concat_gen GR l) = fold_left applyR l (x, y).
Proof.
  unfold concat_gen. destruct l as [|a [|b l]].
  - apply id_apply.
  - reflexivity.
  - rewrite fold_concat2, id_apply. reflexivity.
Qed.

(* Translate and Scale *)
Lemma translate_apply tx ty x y : mul_aff3_gen GR x y [1; 0; tx; 0; 1; ty] = (x + tx, y + ty).
Proof. unfold mul_aff3_gen, at_gen; cbn [GR o_add o_mul o_zero nth]. f_equal; ring. Qed.
Lemma scale_apply sx sy x y : mul_aff3_gen GR x y [sx; 0; 0; 0; sy; 0] = (x * sx, y * sy).
Proof. unfold mul_aff3_gen, at_gen; cbn [GR o_add o_mul o_zero nth]. f_equal; ring. Qed.

(* ---- normalize, for a scale-and-translate transform [sx 0 tx; 0 sy ty] ---- *)
Section Norm.
Variables sx sy tx ty : R.
Let t := [sx; 0; tx; 0; sy; ty].
Definition fullT (x y : R) : R * R := (x * sx + tx, y * sy + ty).
Definition scaleT (x y : R) : R * R := (x * sx, y * sy).
Definition trT (verb : Z) : R -> R -> R * R := if is_lower verb then scaleT else fullT.

Ltac lst := repeat (match goal with |- _ :: _ = _ :: _ => apply (f_equal2 cons); [ring|] end); reflexivity.
Ltac norm_tac :=
  unfold norm_args_gen, trT, fullT, scaleT, mul_aff3_gen, at_gen, t;
  cbn [GR o_add o_mul o_zero nth fst snd];
  match goal with |- context [is_lower ?v] => destruct (is_lower v) end;
  cbn; lst.

(* absolute operands get the full transform, relative operands the scale only: every operand pair *)
Theorem norm_pairs2 verb a0 a1 :
  norm_args_gen GR (Some t) 2 verb [a0; a1] =
  let '(x, y) := trT verb a0 a1 in [x; y].
Proof. norm_tac. Qed.

Theorem norm_pairs4 verb a0 a1 a2 a3 :
  norm_args_gen GR (Some t) 4 verb [a0; a1; a2; a3] =
  let '(x0, y0) := trT verb a0 a1 in let '(x1, y1) := trT verb a2 a3 in [x0; y0; x1; y1].
Proof. norm_tac. Qed.

Theorem norm_pairs6 verb a0 a1 a2 a3 a4 a5 :
  norm_args_gen GR (Some t) 6 verb [a0; a1; a2; a3; a4; a5] =
  let '(x0, y0) := trT verb a0 a1 in let '(x1, y1) := trT verb a2 a3 in let '(x2, y2) := trT verb a4 a5 in
  [x0; y0; x1; y1; x2; y2].
Proof. norm_tac. Qed.

(* arcs: radii get the scale, rotation and flags are untouched, the end point is transformed like any pair *)
Theorem norm_arc verb rx ry rot la sw x y :
  norm_args_gen GR (Some t) 7 verb [rx; ry; rot; la; sw; x; y] =
  let '(ex, ey) := trT verb x y in [rx * sx; ry * sy; rot; la; sw; ex; ey].
Proof. norm_tac. Qed.

(* H / V take one coordinate *)
Theorem norm_H x : norm_args_gen GR (Some t) 1 72 [x] = [x * sx + tx].
Proof. unfold norm_args_gen, mul_aff3_gen, at_gen, t; cbn. lst. Qed.
Theorem norm_h x : norm_args_gen GR (Some t) 1 104 [x] = [x * sx].
Proof. unfold norm_args_gen, mul_aff3_gen, at_gen, t; cbn. lst. Qed.
Theorem norm_V y : norm_args_gen GR (Some t) 1 86 [y] = [y * sy + ty].
Proof. unfold norm_args_gen, mul_aff3_gen, at_gen, t; cbn. lst. Qed.
Theorem norm_v y : norm_args_gen GR (Some t) 1 118 [y] = [y * sy].
Proof. unfold norm_args_gen, mul_aff3_gen, at_gen, t; cbn. lst. Qed.
End Norm.

(* without a transform nothing changes *)
Theorem norm_none n verb (a : list R) : norm_args_gen GR None n verb a = a.
Proof. reflexivity. Qed.

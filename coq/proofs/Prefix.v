(* Prefix.v — decoding is monotone in the input: the calls delivered for a prefix of an input are a prefix of
   the calls delivered for the whole input (C02). *)
From Coq Require Import ZArith Bool List Lia ZifyBool.
From IVG Require Import SF NumCodec Color Calls Decoder NumBase DecProofs RoundTrip.
Import ListNotations.
Local Open Scope Z_scope.
Ltac Zify.zify_post_hook ::= Z.div_mod_to_equations.
Local Opaque Z.mul Z.add Z.div Z.modulo Z.pow.

Definition is_prefix {A} (a b : list A) : Prop := exists c, b = a ++ c.
Lemma prefix_refl {A} (a : list A) : is_prefix a a. Proof. exists []. rewrite app_nil_r. reflexivity. Qed.
Lemma prefix_nil {A} (a : list A) : is_prefix [] a. Proof. exists a. reflexivity. Qed.
Lemma prefix_app {A} (a b c : list A) : is_prefix b c -> is_prefix (a ++ b) (a ++ c).
Proof. intros [d ->]. exists d. rewrite app_assoc. reflexivity. Qed.
Lemma prefix_app_r {A} (a b : list A) : is_prefix a (a ++ b). Proof. exists b. reflexivity. Qed.
Lemma prefix_trans {A} (a b c : list A) : is_prefix a b -> is_prefix b c -> is_prefix a c.
Proof. intros [d ->] [e ->]. exists (d ++ e). rewrite app_assoc. reflexivity. Qed.

(* ---------- operand readers: success does not depend on what follows ---------- *)
Definition ext_stable {A} (dec : list byte -> option (A * nat)) : Prop :=
  forall b x n t, dec b = Some (x, n) -> dec (b ++ t) = Some (x, n).

Lemma skipn_app_le {A} n (b t : list A) : (n <= length b)%nat -> skipn n (b ++ t) = skipn n b ++ t.
Proof. intros L. rewrite skipn_app. replace (n - length b)%nat with 0%nat by lia. reflexivity. Qed.
Lemma firstn_app_le {A} n (b t : list A) : (n <= length b)%nat -> firstn n (b ++ t) = firstn n b.
Proof. intros L. rewrite firstn_app. replace (n - length b)%nat with 0%nat by lia. cbn. apply app_nil_r. Qed.

Lemma ext_natural : ext_stable dec_natural.
Proof.
  intros b u n t D. destruct (dec_natural_some _ _ _ D) as (_ & L & S).
  rewrite <- (firstn_skipn n b), <- app_assoc. apply S.
Qed.
Lemma ext_real : ext_stable dec_real.
Proof. intros b x n t. unfold dec_real. destruct (dec_natural b) as [[u k]|] eqn:E; [|discriminate]. rewrite (ext_natural _ _ _ t E). auto. Qed.
Lemma ext_coord : ext_stable dec_coordinate.
Proof. intros b x n t. unfold dec_coordinate. destruct (dec_natural b) as [[u k]|] eqn:E; [|discriminate]. rewrite (ext_natural _ _ _ t E). auto. Qed.
Lemma ext_zto : ext_stable dec_zero_to_one.
Proof. intros b x n t. unfold dec_zero_to_one. destruct (dec_natural b) as [[u k]|] eqn:E; [|discriminate]. rewrite (ext_natural _ _ _ t E). auto. Qed.
Lemma ext_color k : ext_stable (dec_color_form k).
Proof.
  intros b x n t. unfold dec_color_form.
  destruct (k =? 0); [|destruct (k =? 1); [|destruct (k =? 2); [|destruct (k =? 3)]]];
  unfold dec_color1, dec_color2, dec_color3direct, dec_color4, dec_color3indirect;
  destruct b as [|a [|a1 [|a2 [|a3 r]]]]; try discriminate; cbn [app]; auto.
Qed.

Lemma read_num_ext dec mk b its x r t : ext_stable dec -> good_dec dec ->
  read_num dec mk b = Some (its, x, r) -> read_num dec mk (b ++ t) = Some (its, x, r ++ t).
Proof.
  intros E G. unfold read_num. destruct (dec b) as [[v n]|] eqn:D; [|discriminate]. intros [= <- <- <-].
  rewrite (E _ _ _ t D). pose proof (G _ _ _ D) as L. rewrite firstn_app_le, skipn_app_le by lia. reflexivity.
Qed.

Lemma read_coords_ext k : forall b its xs r t, read_coords k b = (its, Some (xs, r)) ->
  read_coords k (b ++ t) = (its, Some (xs, r ++ t)).
Proof.
  induction k as [|k IH]; intros b its xs r t; cbn [read_coords].
  - intros [= <- <- <-]. reflexivity.
  - destruct (read_num dec_coordinate PNum b) as [[[it x] b1]|] eqn:E; [|discriminate].
    rewrite (read_num_ext _ _ _ _ _ _ t ext_coord good_coord E).
    destruct (read_coords k b1) as [its' r'] eqn:E2. destruct r' as [[xs' b2]|]; [|discriminate].
    intros [= <- <- <-]. rewrite (IH _ _ _ _ t E2). reflexivity.
Qed.

Lemma read_coords_nocalls k b its r : read_coords k b = (its, r) -> calls_of its = [].
Proof.
  intros E. destruct (read_coords_ok _ _ _ _ E) as [C _]. unfold ncalls in C. destruct (calls_of its); [reflexivity|discriminate].
Qed.

(* ---------- one repetition ---------- *)
Definition rep_local (one : list byte -> list item * option (list byte)) : Prop :=
  (forall b its r t, one b = (its, Some r) -> one (b ++ t) = (its, Some (r ++ t))) /\
  (forall b its, one b = (its, None) -> calls_of its = []).

Lemma draw_rep_local op k : rep_local (draw_rep op k).
Proof.
  split.
  - intros b its r t. unfold draw_rep. destruct (read_coords k b) as [its0 r0] eqn:E.
    destruct r0 as [[xs b']|]; [|discriminate]. intros [= <- <-]. rewrite (read_coords_ext _ _ _ _ _ t E). reflexivity.
  - intros b its. unfold draw_rep. destruct (read_coords k b) as [its0 r0] eqn:E.
    destruct r0 as [[xs b']|]; [discriminate|]. intros [= <-]. exact (read_coords_nocalls _ _ _ _ E).
Qed.

Lemma arc_rep_local rel : rep_local (arc_rep rel).
Proof.
  split.
  - intros b its r t. unfold arc_rep.
    destruct (read_coords 2 b) as [its0 r0] eqn:E0. destruct r0 as [[xs b1]|]; [|discriminate].
    rewrite (read_coords_ext _ _ _ _ _ t E0).
    destruct xs as [|rx [|ry [|? ?]]]; try discriminate.
    destruct (read_num dec_zero_to_one PAngle b1) as [[[its1 rot] b2]|] eqn:E1; [|discriminate].
    rewrite (read_num_ext _ _ _ _ _ _ t ext_zto good_zto E1).
    destruct (dec_natural b2) as [[fl n]|] eqn:E2; [|discriminate].
    rewrite (ext_natural _ _ _ t E2). pose proof (dec_natural_len _ _ _ E2) as Ln.
    rewrite firstn_app_le, skipn_app_le by lia.
    destruct (read_coords 2 (skipn n b2)) as [its2 r2] eqn:E3. destruct r2 as [[ys b4]|]; [|discriminate].
    rewrite (read_coords_ext _ _ _ _ _ t E3).
    destruct ys as [|x [|y [|? ?]]]; try discriminate. intros [= <- <-]. reflexivity.
  - intros b its E. destruct (arc_rep_calls _ _ _ _ E) as [_ C]. pose proof (arc_rep_pref _ _ _ _ E) as P.
    (* a failing arc repetition has emitted lines only *)
    unfold arc_rep in E.
    destruct (read_coords 2 b) as [its0 r0] eqn:E0. pose proof (read_coords_nocalls _ _ _ _ E0) as C0.
    destruct r0 as [[xs b1]|]; [|injection E as <-; exact C0].
    destruct xs as [|rx [|ry [|? ?]]]; try (injection E as <-; exact C0).
    destruct (read_num dec_zero_to_one PAngle b1) as [[[its1 rot] b2]|] eqn:E1; [|injection E as <-; exact C0].
    assert (C1 : calls_of its1 = []).
    { unfold read_num in E1. destruct (dec_zero_to_one b1) as [[v n]|]; [|discriminate]. injection E1 as <- _ _. reflexivity. }
    destruct (dec_natural b2) as [[fl n]|] eqn:E2; [|injection E as <-; rewrite calls_of_app, C0, C1; reflexivity].
    destruct (read_coords 2 (skipn n b2)) as [its2 r2] eqn:E3. pose proof (read_coords_nocalls _ _ _ _ E3) as C2.
    destruct r2 as [[ys b4]|].
    + destruct ys as [|x [|y [|? ?]]]; try discriminate; injection E as <-;
        rewrite !calls_of_app, C0, C1; cbn [calls_of flat_map app]; exact C2.
    + injection E as <-. rewrite !calls_of_app, C0, C1. cbn [calls_of flat_map app]. exact C2.
Qed.

(* ---------- runs of repetitions ---------- *)
Lemma reps_ext k : forall first op one b its r t, rep_local one ->
  reps first k op one b = (its, Some r) -> reps first k op one (b ++ t) = (its, Some (r ++ t)).
Proof.
  induction k as [|k IH]; intros first op one b its r t L; cbn [reps].
  - intros [= <- <-]. reflexivity.
  - destruct (one b) as [its1 [b1|]] eqn:E; [|discriminate].
    rewrite (proj1 L _ _ _ t E).
    destruct (reps false k op one b1) as [its2 r2] eqn:E2. intros [= <- ->]. rewrite (IH _ _ _ _ _ _ t L E2). reflexivity.
Qed.

Lemma reps_fail_prefix k : forall first op one b its t, rep_local one ->
  reps first k op one b = (its, None) -> is_prefix (calls_of its) (calls_of (fst (reps first k op one (b ++ t)))).
Proof.
  induction k as [|k IH]; intros first op one b its t L; cbn [reps]; [discriminate|].
  destruct (one b) as [its1 [b1|]] eqn:E.
  - rewrite (proj1 L _ _ _ t E).
    destruct (reps false k op one b1) as [its2 r2] eqn:E2. intros [= <- ->].
    pose proof (IH _ _ _ _ _ t L E2) as P. destruct (reps false k op one (b1 ++ t)) as [its3 r3]. cbn [fst] in *.
    rewrite !calls_of_app. apply prefix_app, prefix_app, P.
  - intros [= <-]. rewrite calls_of_app, (proj2 L _ _ E), app_nil_r.
    assert (calls_of (if first then [] else [ILine [] (PImplicit op)]) = []) as -> by (destruct first; reflexivity).
    apply prefix_nil.
Qed.

(* ---------- instructions ---------- *)
Definition step_ext (step : Z -> list byte -> list item * step_res) : Prop :=
  forall opcode b its d b' t, step opcode b = (its, StepOk d b') -> step opcode (b ++ t) = (its, StepOk d (b' ++ t)).

Lemma styling_step_ext : step_ext styling_step.
Proof.
  intros opcode b its d b' t. unfold styling_step. cbv zeta beta.
  destruct (opcode <? 64); [intros [= <- <- <-]; reflexivity|].
  destruct (opcode <? 128); [intros [= <- <- <-]; reflexivity|].
  destruct (opcode <? 168).
  { destruct (dec_color_form _ b) as [[c n]|] eqn:E; [|discriminate]. intros [= <- <- <-].
    rewrite (ext_color _ _ _ _ t E). pose proof (good_color _ _ _ _ E) as L.
    rewrite firstn_app_le, skipn_app_le by lia. reflexivity. }
  destruct (opcode <? 192).
  { set (dec := if _ =? 0 then dec_real else if _ =? 1 then dec_coordinate else dec_zero_to_one).
    assert (G : good_dec dec /\ ext_stable dec).
    { unfold dec. destruct (_ =? 0); [split; [apply good_real|apply ext_real]|].
      destruct (_ =? 1); [split; [apply good_coord|apply ext_coord]|split; [apply good_zto|apply ext_zto]]. }
    destruct (dec b) as [[f n]|] eqn:E; [|discriminate]. intros [= <- <- <-].
    rewrite (proj2 G _ _ _ t E). pose proof (proj1 G _ _ _ E) as L.
    rewrite firstn_app_le, skipn_app_le by lia. reflexivity. }
  destruct (opcode <? 199).
  { destruct (read_coords 2 b) as [its0 r0] eqn:E. destruct r0 as [[xs b2]|]; [|discriminate].
    rewrite (read_coords_ext _ _ _ _ _ t E).
    destruct xs as [|x [|y [|? ?]]]; try discriminate. intros [= <- <- <-]. reflexivity. }
  destruct (opcode =? 199).
  { destruct (read_num dec_real PNum b) as [[[it0 l0] b1]|] eqn:E0; [|discriminate].
    rewrite (read_num_ext _ _ _ _ _ _ t ext_real good_real E0).
    destruct (read_num dec_real PNum b1) as [[[it1 l1] b2]|] eqn:E1; [|discriminate].
    rewrite (read_num_ext _ _ _ _ _ _ t ext_real good_real E1). intros [= <- <- <-]. reflexivity. }
  discriminate.
Qed.

Lemma styling_err_nocalls opcode b its e : styling_step opcode b = (its, StepErr e) -> calls_of its = [].
Proof.
  unfold styling_step. cbv zeta beta.
  destruct (opcode <? 64); [discriminate|]. destruct (opcode <? 128); [discriminate|].
  destruct (opcode <? 168); [destruct (dec_color_form _ b) as [[c n]|]; [discriminate|intros [= <- _]; reflexivity]|].
  destruct (opcode <? 192).
  { match goal with |- context [(if ?c then dec_real else ?x) b] => destruct ((if c then dec_real else x) b) as [[f n]|] end;
      [discriminate|intros [= <- _]; reflexivity]. }
  destruct (opcode <? 199).
  { destruct (read_coords 2 b) as [its0 r0] eqn:E. pose proof (read_coords_nocalls _ _ _ _ E) as C.
    destruct r0 as [[xs b2]|]; [|intros [= <- _]; exact C].
    destruct xs as [|x [|y [|? ?]]]; try discriminate; intros [= <- _]; exact C. }
  destruct (opcode =? 199).
  { unfold read_num. destruct (dec_real b) as [[l0 n0]|]; [|intros [= <- _]; reflexivity]. cbv beta iota zeta.
    match goal with |- context [dec_real ?x] => destruct (dec_real x) as [[l1 n1]|] end; [discriminate|intros [= <- _]; reflexivity]. }
  intros [= <- _]. reflexivity.
Qed.

Lemma one_of_local op nc : rep_local (one_of op nc).
Proof. unfold one_of. destruct (op =? opA); [apply arc_rep_local|]. destruct (op =? opa); [apply arc_rep_local|apply draw_rep_local]. Qed.

Lemma drawing_step_ext : step_ext drawing_step.
Proof.
  intros opcode b its d b' t. destruct (opcode <? 224) eqn:E224.
  { rewrite !(drawing_step_hdr _ _ E224). destruct (hdr opcode) as [[op nc] nreps].
    destruct (reps true (Z.to_nat nreps) op (one_of op nc) b) as [its0 r0] eqn:E. destruct r0 as [b1|]; [|discriminate].
    intros [= <- <- <-]. rewrite (reps_ext _ _ _ _ _ _ _ t (one_of_local op nc) E). reflexivity. }
  unfold drawing_step, draw_group. rewrite E224.
  destruct (opcode =? 225); [intros [= <- <- <-]; reflexivity|].
  assert (S : forall op k,
     (match draw_rep op k b with
      | (its0, Some b') => (ILine [opcode] (PSimple op) :: its0, StepOk true b')
      | (its0, None) => (ILine [opcode] (PSimple op) :: its0, StepErr EInvalidNumber)
      end) = (its, StepOk d b') ->
     (match draw_rep op k (b ++ t) with
      | (its0, Some b') => (ILine [opcode] (PSimple op) :: its0, StepOk true b')
      | (its0, None) => (ILine [opcode] (PSimple op) :: its0, StepErr EInvalidNumber)
      end) = (its, StepOk d (b' ++ t))).
  { intros op k. destruct (draw_rep op k b) as [its0 [b1|]] eqn:E; [|discriminate]. intros [= <- <- <-].
    rewrite (proj1 (draw_rep_local op k) _ _ _ t E). reflexivity. }
  cbv zeta.
  destruct (opcode =? 226); [apply S|]. destruct (opcode =? 227); [apply S|].
  destruct (opcode =? 230); [apply S|]. destruct (opcode =? 231); [apply S|].
  destruct (opcode =? 232); [apply S|]. destruct (opcode =? 233); [apply S|]. discriminate.
Qed.

(* a failing drawing instruction has delivered a prefix of what it delivers when more input follows *)
Lemma drawing_err_prefix opcode b its e t : drawing_step opcode b = (its, StepErr e) ->
  is_prefix (calls_of its) (calls_of (fst (drawing_step opcode (b ++ t)))).
Proof.
  destruct (opcode <? 224) eqn:E224.
  { rewrite !(drawing_step_hdr _ _ E224). destruct (hdr opcode) as [[op nc] nreps].
    destruct (reps true (Z.to_nat nreps) op (one_of op nc) b) as [its0 r0] eqn:E. destruct r0 as [b1|]; [discriminate|].
    intros [= <- _]. pose proof (reps_fail_prefix _ _ _ _ _ _ t (one_of_local op nc) E) as P.
    destruct (reps true (Z.to_nat nreps) op (one_of op nc) (b ++ t)) as [its1 [b2|]]; cbn [fst calls_of flat_map app] in *; exact P. }
  unfold drawing_step, draw_group. rewrite E224.
  destruct (opcode =? 225); [discriminate|].
  assert (S : forall op k,
     (match draw_rep op k b with
      | (its0, Some b') => (ILine [opcode] (PSimple op) :: its0, StepOk true b')
      | (its0, None) => (ILine [opcode] (PSimple op) :: its0, StepErr EInvalidNumber)
      end) = (its, StepErr e) -> calls_of its = []).
  { intros op k. destruct (draw_rep op k b) as [its0 [b1|]] eqn:E; [discriminate|]. intros [= <- _].
    cbn [calls_of flat_map app]. exact (proj2 (draw_rep_local op k) _ _ E). }
  cbv zeta.
  destruct (opcode =? 226); [intros H; rewrite (S _ _ H); apply prefix_nil|].
  destruct (opcode =? 227); [intros H; rewrite (S _ _ H); apply prefix_nil|].
  destruct (opcode =? 230); [intros H; rewrite (S _ _ H); apply prefix_nil|].
  destruct (opcode =? 231); [intros H; rewrite (S _ _ H); apply prefix_nil|].
  destruct (opcode =? 232); [intros H; rewrite (S _ _ H); apply prefix_nil|].
  destruct (opcode =? 233); [intros H; rewrite (S _ _ H); apply prefix_nil|].
  intros [= <- _]. apply prefix_nil.
Qed.

(* ---------- the instruction stream ---------- *)
Lemma dec_ops_prefix fuel : forall f2 d b t, (length b <= fuel)%nat -> (length (b ++ t) <= f2)%nat ->
  is_prefix (calls_of (fst (dec_ops fuel d b))) (calls_of (fst (dec_ops f2 d (b ++ t)))).
Proof.
  induction fuel as [|fuel IH]; intros f2 d b t L1 L2; destruct b as [|opcode rest].
  - cbn. apply prefix_nil.
  - cbn in L1. lia.
  - cbn. apply prefix_nil.
  - cbn [length app] in L1, L2. destruct f2 as [|f2]; [lia|]. cbn [dec_ops app].
    destruct ((if d then drawing_step else styling_step) opcode rest) as [its1 r1] eqn:E.
    destruct r1 as [e|d1 b1].
    + cbn [fst].
      destruct d.
      * pose proof (drawing_err_prefix _ _ _ _ t E) as P.
        destruct (drawing_step opcode (rest ++ t)) as [its2 [e2|d2 b2]]; cbn [fst] in *; [exact P|].
        destruct (dec_ops f2 d2 b2) as [its3 o3]. cbn [fst]. rewrite calls_of_app.
        eapply prefix_trans; [exact P|apply prefix_app_r].
      * rewrite (styling_err_nocalls _ _ _ _ E). apply prefix_nil.
    + assert (E' : (if d then drawing_step else styling_step) opcode (rest ++ t) = (its1, StepOk d1 (b1 ++ t))).
      { destruct d; [apply drawing_step_ext, E|apply styling_step_ext, E]. }
      rewrite E'. pose proof (step_shrinks d _ _ _ _ _ E) as Sh. pose proof (step_shrinks d _ _ _ _ _ E') as Sh'.
      assert (P : is_prefix (calls_of (fst (dec_ops fuel d1 b1))) (calls_of (fst (dec_ops f2 d1 (b1 ++ t))))).
      { apply IH; lia. }
      destruct (dec_ops fuel d1 b1) as [its2 o2]. destruct (dec_ops f2 d1 (b1 ++ t)) as [its3 o3]. cbn [fst] in *.
      rewrite !calls_of_app. apply prefix_app, P.
Qed.

(* ---------- metadata: success does not depend on what follows ---------- *)
Lemma read_palette_ext k : forall i form pal b its pal' r t, read_palette k i form pal b = (its, Some (pal', r)) ->
  read_palette k i form pal (b ++ t) = (its, Some (pal', r ++ t)).
Proof.
  induction k as [|k IH]; intros i form pal b its pal' r t; cbn [read_palette].
  - intros [= <- <- <-]. reflexivity.
  - destruct (dec_color_form _ b) as [[c n]|] eqn:D; [|discriminate].
    rewrite (ext_color _ _ _ _ t D). pose proof (good_color _ _ _ _ D) as L.
    rewrite firstn_app_le, skipn_app_le by lia.
    destruct (read_palette k (S i) form _ (skipn n b)) as [its' r'] eqn:E. destruct r' as [[p r0]|]; [|discriminate].
    intros [= <- <- <-]. rewrite (IH _ _ _ _ _ _ _ t E). reflexivity.
Qed.

Lemma dec_chunk_ext minmid m b its m' b' mid t : dec_chunk minmid m b = (its, ChunkOk m' b' mid) ->
  dec_chunk minmid m (b ++ t) = (its, ChunkOk m' (b' ++ t) mid).
Proof.
  unfold dec_chunk.
  destruct (dec_natural b) as [[len n]|] eqn:N0; [|discriminate]. rewrite (ext_natural _ _ _ t N0).
  pose proof (dec_natural_len _ _ _ N0) as L0. cbv beta iota zeta. rewrite firstn_app_le, skipn_app_le by lia.
  destruct (dec_natural (skipn n b)) as [[mid0 n1]|] eqn:N1; [|discriminate]. rewrite (ext_natural _ _ _ t N1).
  pose proof (dec_natural_len _ _ _ N1) as L1. rewrite firstn_app_le, skipn_app_le by lia.
  destruct (2 <=? mid0); [discriminate|]. destruct (mid0 <? minmid); [discriminate|].
  destruct (mid0 =? 0).
  - destruct (read_coords 4 (skipn n1 (skipn n b))) as [i0 r0] eqn:E. destruct r0 as [[xs bb]|]; [|discriminate].
    rewrite (read_coords_ext _ _ _ _ _ t E).
    destruct xs as [|x0 [|y0 [|x1 [|y1 [|? ?]]]]]; try discriminate.
    destruct (viewbox_invalid _); [discriminate|].
    destruct (Z.of_nat (length bb) =? Z.of_nat (length (skipn n b)) - len) eqn:Ew; [|discriminate].
    assert (Ew' : Z.of_nat (length (bb ++ t)) =? Z.of_nat (length (skipn n b ++ t)) - len = true) by (rewrite !app_length; lia).
    rewrite Ew'. intros [= <- <- <- <-]. reflexivity.
  - destruct (skipn n1 (skipn n b)) as [|h b3] eqn:Eb; [discriminate|]. cbn [app].
    destruct (read_palette _ 0 _ (m_pal m) b3) as [i0 r0] eqn:E. destruct r0 as [[pal bb]|]; [|discriminate].
    rewrite (read_palette_ext _ _ _ _ _ _ _ _ t E).
    destruct (Z.of_nat (length bb) =? Z.of_nat (length (skipn n b)) - len) eqn:Ew; [|discriminate].
    assert (Ew' : Z.of_nat (length (bb ++ t)) =? Z.of_nat (length (skipn n b ++ t)) - len = true) by (rewrite !app_length; lia).
    rewrite Ew'. intros [= <- <- <- <-]. reflexivity.
Qed.

Lemma dec_chunks_ext fuel : forall f2 n minmid m b its m' rest t, (fuel <= f2)%nat ->
  dec_chunks fuel n minmid m b = (its, ChunksOk m' rest) ->
  dec_chunks f2 n minmid m (b ++ t) = (its, ChunksOk m' (rest ++ t)).
Proof.
  induction fuel as [|fuel IH]; intros f2 n minmid m b its m' rest t Lf; cbn [dec_chunks].
  - destruct (n <=? 0) eqn:C; [|discriminate]. intros [= <- <- <-]. destruct f2; cbn [dec_chunks]; rewrite C; reflexivity.
  - destruct (n <=? 0) eqn:C.
    + intros [= <- <- <-]. destruct f2; cbn [dec_chunks]; rewrite C; reflexivity.
    + destruct f2 as [|f2]; [lia|]. cbn [dec_chunks]. rewrite C.
      destruct (dec_chunk minmid m b) as [its1 [e|m1 b1 mid]] eqn:E; [discriminate|].
      rewrite (dec_chunk_ext _ _ _ _ _ _ _ t E).
      destruct (dec_chunks fuel (n - 1) (mid + 1) m1 b1) as [its2 r2] eqn:E2. intros [= <- ->].
      rewrite (IH f2 _ _ _ _ _ _ _ t ltac:(lia) E2). reflexivity.
Qed.

Lemma has_prefix_app p : forall b t, has_prefix p b = true -> has_prefix p (b ++ t) = true.
Proof.
  induction p as [|x p IH]; intros b t; [reflexivity|]. destruct b as [|y b]; [discriminate|]. cbn [has_prefix app].
  intros H. apply andb_true_iff in H as [H1 H2]. rewrite H1. apply IH, H2.
Qed.

Lemma dec_metadata_ext b its m rest t : dec_metadata b = (its, ChunksOk m rest) ->
  dec_metadata (b ++ t) = (its, ChunksOk m (rest ++ t)).
Proof.
  unfold dec_metadata. destruct (has_prefix magic b) eqn:Hm; [|discriminate]. rewrite (has_prefix_app _ _ t Hm). cbn [negb].
  destruct (has_prefix_magic _ Hm) as (b0 & -> & F4 & S4).
  assert (L4 : (4 <= length (magic ++ b0))%nat) by (rewrite app_length; cbn; lia).
  rewrite (firstn_app_le 4 (magic ++ b0) t L4), (skipn_app_le 4 (magic ++ b0) t L4). cbv beta iota zeta.
  set (b1 := skipn 4 (magic ++ b0)).
  destruct (dec_natural b1) as [[nc n]|] eqn:N; [|discriminate]. rewrite (ext_natural _ _ _ t N).
  pose proof (dec_natural_len _ _ _ N) as Ln. cbv beta iota zeta.
  rewrite (firstn_app_le n b1 t (proj2 Ln)), (skipn_app_le n b1 t (proj2 Ln)).
  destruct (dec_chunks (S (length (skipn n b1))) nc 0 default_meta (skipn n b1)) as [its1 r1] eqn:E. intros [= <- ->].
  assert (Lf : (S (length (skipn n b1)) <= S (length (skipn n b1 ++ t)))%nat) by (rewrite app_length; lia).
  rewrite (dec_chunks_ext _ _ _ _ _ _ _ _ _ t Lf E).
  reflexivity.
Qed.

(* ---------- C02: the calls for a prefix are a prefix of the calls for the whole ---------- *)
Theorem decode_prefix_monotone os b t : is_prefix (fst (decode_calls os b)) (fst (decode_calls os (b ++ t))).
Proof.
  unfold decode_calls, decode_items.
  destruct (dec_metadata b) as [its r] eqn:Em. destruct (dec_metadata_ok _ _ _ Em) as (C & _).
  assert (Cn : calls_of its = []) by (unfold ncalls in C; destruct (calls_of its); [reflexivity|discriminate]).
  destruct r as [o|m rest].
  { cbn [fst]. rewrite Cn. apply prefix_nil. }
  rewrite (dec_metadata_ext _ _ _ _ t Em).
  destruct (apply_opts os m) as [m1|]; [|cbn [fst]; rewrite Cn; apply prefix_nil].
  pose proof (dec_ops_prefix (length rest) (length (rest ++ t)) false rest t (le_n _) (le_n _)) as P.
  destruct (dec_ops (length rest) false rest) as [i1 o1]. destruct (dec_ops (length (rest ++ t)) false (rest ++ t)) as [i2 o2].
  cbn [fst] in *. rewrite !calls_of_app. apply prefix_app. cbn [calls_of flat_map app]. fold (calls_of i1). fold (calls_of i2).
  destruct P as [c ->]. exists c. reflexivity.
Qed.

Corollary decode_truncation_prefix os b k : is_prefix (fst (decode_calls os (firstn k b))) (fst (decode_calls os b)).
Proof. rewrite <- (firstn_skipn k b) at 2. apply decode_prefix_monotone. Qed.

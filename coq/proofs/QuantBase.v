(* QuantBase.v — Encoder.quantize as written in the source (float64: floor(float64(c)*64 + 0.5), then float32(.)/64)
   computes the model's quantised value floor(c*64 + 1/2)/64, for coordinates that are zero or at least 2^-35 in magnitude
   (for smaller non-zero coordinates the float64 sum is not exact; both sides give 0 there: QuantTiny.v). *)
From Coq Require Import ZArith Bool List Lia ZifyBool ZifyNat.
From IVG Require Import SF NumCodec NumBase SFProofs SFRound CvtExact.
Import ListNotations.
Local Open Scope Z_scope.

(* exact rounding in float64, with all values expressed in units of 2^-1200 *)
Lemma rne64_exact s m e : 0 < m -> -1200 <= e -> Z.log2 m + e < 1000 ->
  (round_exp F64 m e <= e \/ m mod 2 ^ (round_exp F64 m e - e) = 0) ->
  exists M E, decode F64 (rne_dy_pos F64 s m e) = FFin s M E /\ -1074 <= E /\
              M * 2 ^ (E + 1200) = m * 2 ^ (e + 1200) /\ 0 <= M < 2 ^ 53 /\ (2 ^ 52 <= M \/ E = -1074).
Proof.
  intros Hm He Hno Ex.
  pose proof (rne_dy_pos_correct F64 s m e F64_ok Hm) as C. cbv zeta in C.
  change (emin F64) with (-1074) in C. change (emax_field F64) with 2047 in C. change (prec F64) with 53 in C.
  pose proof (round_exact F64 m e (-1200) F64_ok Hm He ltac:(cbn; lia) Ex) as X.
  assert (He0 : round_exp F64 m e = Z.max (-1074) (Z.log2 m + e - 52)).
  { unfold round_exp. change (emin F64) with (-1074). change (prec F64) with 53. lia. }
  destruct C as [[_ Co]|(M & E & Dg & Val & HM & HE & Hc)].
  - exfalso. destruct (round_int F64 m e =? 2 ^ 53); lia.
  - exists M, E. split; [exact Dg|]. split; [lia|]. split.
    2:{ split; [lia|]. destruct Hc as [Hc|Hc]; [left; change (2 ^ (53 - 1)) with (2 ^ 52) in Hc; exact Hc|right; exact Hc]. }
    replace (E + 1200) with ((E - -1074) + 126) by lia. rewrite Z.pow_add_r by lia. rewrite Z.mul_assoc, Val.
    rewrite <- Z.mul_assoc, <- Z.pow_add_r by lia.
    replace (round_exp F64 m e - -1074 + 126) with (round_exp F64 m e - -1200) by lia. rewrite X.
    first [reflexivity | f_equal; f_equal; lia].
Qed.

Lemma pow2_gt0 k : 0 <= k -> 0 < 2 ^ k.
Proof. intros. apply Z.pow_pos_nonneg; lia. Qed.

Lemma log2_le_of_lt m k : 0 < m -> m < 2 ^ k -> 0 <= k -> Z.log2 m < k.
Proof. intros. apply Z.log2_lt_pow2; assumption. Qed.

(* step 1: widening, with the canonical form of the result *)
Lemma cvt_canon x s m e : wf_f32 x -> decode F32 x = FFin s m e -> 0 < m ->
  exists M E, decode F64 (f32_to_f64 x) = FFin s M E /\ -1074 <= E /\
              M * 2 ^ (E + 1200) = m * 2 ^ (e + 1200) /\ 0 <= M < 2 ^ 53 /\ (2 ^ 52 <= M \/ E = -1074).
Proof.
  intros W D Hm. pose proof (decode32_fin _ _ _ _ W D) as [Hm' He].
  unfold f32_to_f64, convert. rewrite decode_fast32 by (unfold wf_f32 in W; lia). rewrite D.
  unfold rne_dy. replace (m =? 0) with false by lia.
  assert (Hlog : 0 <= Z.log2 m <= 23).
  { split; [apply Z.log2_nonneg|]. assert (Z.log2 m < 24); [|lia]. apply Z.log2_lt_pow2; [lia|]. change (2 ^ 24) with 16777216. lia. }
  apply rne64_exact; try lia.
  left. unfold round_exp. change (emin F64) with (-1074). change (prec F64) with 53. lia.
Qed.

Lemma d64_decode : decode F64 4634204016564240384 = FFin false 4503599627370496 (-46).
Proof. vm_compute. reflexivity. Qed.
Lemma dhalf_decode : decode F64 4602678819172646912 = FFin false 4503599627370496 (-53).
Proof. vm_compute. reflexivity. Qed.

(* step 2: times 64 in float64 *)
Lemma mul64_d c s M E : 0 <= c -> decode F64 c = FFin s M E -> 0 < M < 2 ^ 53 -> -1074 <= E -> Z.log2 M + E < 900 ->
  exists M2 E2, decode F64 (fmul F64 c 4634204016564240384) = FFin s M2 E2 /\ -1074 <= E2 /\
                M2 * 2 ^ (E2 + 1200) = M * 2 ^ (E + 1206) /\ 0 <= M2 < 2 ^ 53 /\ (2 ^ 52 <= M2 \/ E2 = -1074).
Proof.
  intros Hc D HM HE Hno.
  rewrite (fmul_finite F64 c 4634204016564240384 s M E false 4503599627370496 (-46) Hc ltac:(lia) ltac:(cbn; lia) ltac:(cbn; lia) D d64_decode).
  rewrite xorb_false_r. unfold rne_dy. change 4503599627370496 with (2 ^ 52).
  assert (P52 : 0 < 2 ^ 52) by (apply pow2_gt0; lia).
  replace (M * 2 ^ 52 =? 0) with false by nia.
  assert (Hl : 0 <= Z.log2 M <= 52).
  { split; [apply Z.log2_nonneg|]. assert (Z.log2 M < 53); [|lia]. apply Z.log2_lt_pow2; lia. }
  assert (Hlog : Z.log2 (M * 2 ^ 52) = Z.log2 M + 52) by (rewrite Z.log2_mul_pow2 by lia; lia).
  assert (A1 : 0 < M * 2 ^ 52) by nia.
  assert (A2 : -1200 <= E + -46) by lia.
  assert (A3 : Z.log2 (M * 2 ^ 52) + (E + -46) < 1000) by (rewrite Hlog; lia).
  assert (A4 : round_exp F64 (M * 2 ^ 52) (E + -46) <= E + -46 \/
               (M * 2 ^ 52) mod 2 ^ (round_exp F64 (M * 2 ^ 52) (E + -46) - (E + -46)) = 0).
  { unfold round_exp. change (emin F64) with (-1074). change (prec F64) with 53. rewrite Hlog.
    set (e0 := Z.max (-1074) (Z.log2 M + 52 + (E + -46) - 53 + 1)).
    destruct (Z_le_gt_dec e0 (E + -46)) as [L|G]; [left; exact L|right].
    assert (Hk : 0 < e0 - (E + -46) <= 52) by (unfold e0 in *; lia).
    replace (2 ^ 52) with (2 ^ (52 - (e0 - (E + -46))) * 2 ^ (e0 - (E + -46))) by (rewrite <- Z.pow_add_r by lia; f_equal; lia).
    rewrite Z.mul_assoc. apply Z.mod_mul. assert (0 < 2 ^ (e0 - (E + -46))) by (apply pow2_gt0; lia). lia. }
  destruct (rne64_exact s (M * 2 ^ 52) (E + -46) A1 A2 A3 A4) as (M2 & E2 & Dg & HE2 & Val & HM2 & Hc2).
  - exists M2, E2. split; [exact Dg|]. split; [exact HE2|]. split; [|split; assumption].
    rewrite Val. rewrite <- Z.mul_assoc, <- Z.pow_add_r by lia. f_equal. f_equal. lia.
Qed.

Lemma sm_abs A : sm (A <? 0) (Z.abs A) = A.
Proof. unfold sm. destruct (A <? 0) eqn:E; lia. Qed.

Lemma div_pow2_mod A j k : 0 <= k <= j -> (A * 2 ^ j) mod 2 ^ k = 0.
Proof.
  intros H. replace (2 ^ j) with (2 ^ (j - k) * 2 ^ k) by (rewrite <- Z.pow_add_r by lia; f_equal; lia).
  rewrite Z.mul_assoc. apply Z.mod_mul. assert (0 < 2 ^ k) by (apply pow2_gt0; lia). lia.
Qed.

(* step 3: adding one half, for 2^-29 <= |w| < 2^13 whose mantissa comes from a 24-bit one *)
Lemma add_half w s M2 E2 m j : 0 <= w -> decode F64 w = FFin s M2 E2 -> M2 = m * 2 ^ j -> 29 <= j -> 0 < m ->
  2 ^ 52 <= M2 < 2 ^ 53 -> -81 <= E2 <= -39 ->
  let T := sm s M2 * 2 ^ (E2 + 1200) + 2 ^ 1199 in
  exists sy My Ey, decode F64 (fadd F64 w 4602678819172646912) = FFin sy My Ey /\ -1074 <= Ey /\
                   sm sy My * 2 ^ (Ey + 1200) = T /\ 0 <= My < 2 ^ 53 /\ sy = (T <? 0) /\ (My = 0 \/ 2 ^ 52 <= My \/ Ey = -1074).
Proof.
  intros Hw D HMj Hj Hm HM HE T.
  rewrite (fadd_finite F64 w 4602678819172646912 s M2 E2 false 4503599627370496 (-53) Hw ltac:(lia) ltac:(cbn; lia) ltac:(cbn; lia) D dhalf_decode).
  rewrite andb_false_r. change 4503599627370496 with (2 ^ 52).
  set (ea := Z.min E2 (-53)).
  set (A := sm s (M2 * 2 ^ (E2 - ea)) + sm false (2 ^ 52 * 2 ^ (-53 - ea))).
  assert (Hea : -81 <= ea <= -53) by (unfold ea; lia).
  assert (HT : T = A * 2 ^ (ea + 1200)).
  { assert (P1 : 2 ^ (E2 - ea) * 2 ^ (ea + 1200) = 2 ^ (E2 + 1200)) by (rewrite <- Z.pow_add_r by (unfold ea; lia); f_equal; lia).
    assert (P2 : 2 ^ 52 * 2 ^ (-53 - ea) * 2 ^ (ea + 1200) = 2 ^ 1199) by (rewrite <- !Z.pow_add_r by lia; f_equal; lia).
    unfold T, A. cbn [sm]. rewrite sm_mul, Z.mul_add_distr_r, <- Z.mul_assoc, P1, P2. reflexivity. }
  (* A is a multiple of 2^29 *)
  assert (HA29 : exists A', A = A' * 2 ^ 29).
  { exists (sm s (m * 2 ^ (j - 29) * 2 ^ (E2 - ea)) + 2 ^ (52 + (-53 - ea) - 29)).
    assert (Q1 : m * 2 ^ j * 2 ^ (E2 - ea) = m * 2 ^ (j - 29) * 2 ^ (E2 - ea) * 2 ^ 29).
    { replace (2 ^ j) with (2 ^ (j - 29) * 2 ^ 29) by (rewrite <- Z.pow_add_r by lia; f_equal; lia). ring. }
    assert (Q2 : 2 ^ 52 * 2 ^ (-53 - ea) = 2 ^ (52 + (-53 - ea) - 29) * 2 ^ 29) by (rewrite <- !Z.pow_add_r by lia; f_equal; lia).
    unfold A. cbn [sm]. rewrite HMj, Q1, Q2, sm_mul. ring. }
  destruct HA29 as [A' HA'].
  rewrite rne_dy_signed_cases.
  destruct (A =? 0) eqn:Z0.
  - apply Z.eqb_eq in Z0. exists false, 0, (-1074). split; [vm_compute; reflexivity|]. split; [lia|].
    assert (T0 : T = 0) by (rewrite HT, Z0; apply Z.mul_0_l).
    split; [rewrite T0; cbn [sm]; apply Z.mul_0_l|]. split; [lia|]. split; [rewrite T0; reflexivity|left; reflexivity].
  - apply Z.eqb_neq in Z0. assert (HAabs : 0 < Z.abs A) by (apply Z.abs_pos; exact Z0).
    (* size of A *)
    assert (HAub : Z.abs A < 2 ^ 81).
    { unfold A. cbn [sm].
      assert (P1 : 0 < 2 ^ (E2 - ea)) by (apply pow2_gt0; unfold ea; lia).
      assert (B1 : M2 * 2 ^ (E2 - ea) < 2 ^ 53 * 2 ^ 14).
      { apply Z.lt_le_trans with (2 ^ 53 * 2 ^ (E2 - ea)); [nia|]. apply Z.mul_le_mono_nonneg_l; [lia|].
        apply Z.pow_le_mono_r; unfold ea; lia. }
      assert (B2 : 2 ^ 52 * 2 ^ (-53 - ea) <= 2 ^ 52 * 2 ^ 28).
      { apply Z.mul_le_mono_nonneg_l; [lia|]. apply Z.pow_le_mono_r; lia. }
      assert (0 <= M2 * 2 ^ (E2 - ea)) by nia.
      assert (0 < 2 ^ 52 * 2 ^ (-53 - ea)) by (apply Z.mul_pos_pos; apply pow2_gt0; lia).
      change (2 ^ 53 * 2 ^ 14) with (2 ^ 67) in B1. change (2 ^ 52 * 2 ^ 28) with (2 ^ 80) in B2.
      assert (2 ^ 67 + 2 ^ 80 < 2 ^ 81) by (vm_compute; reflexivity).
      destruct s; unfold sm; lia. }
    assert (Hlog : 0 <= Z.log2 (Z.abs A) <= 80).
    { split; [apply Z.log2_nonneg|]. assert (Z.log2 (Z.abs A) < 81); [|lia]. apply Z.log2_lt_pow2; lia. }
    assert (A3 : Z.log2 (Z.abs A) + ea < 1000) by lia.
    assert (A4 : round_exp F64 (Z.abs A) ea <= ea \/ Z.abs A mod 2 ^ (round_exp F64 (Z.abs A) ea - ea) = 0).
    { unfold round_exp. change (emin F64) with (-1074). change (prec F64) with 53.
      set (e0 := Z.max (-1074) (Z.log2 (Z.abs A) + ea - 53 + 1)).
      destruct (Z_le_gt_dec e0 ea) as [L|G]; [left; exact L|right].
      assert (Hk : 0 < e0 - ea <= 29) by (unfold e0 in *; lia).
      rewrite HA'. rewrite Z.abs_mul. rewrite (Z.abs_eq (2 ^ 29)) by (apply Z.pow_nonneg; lia).
      apply div_pow2_mod. lia. }
    destruct (rne64_exact (A <? 0) (Z.abs A) ea HAabs ltac:(lia) A3 A4) as (My & Ey & Dg & HEy & Val & HMy & Hcy).
    exists (A <? 0), My, Ey.
    assert (Dsel : decode F64 (if A <? 0 then rne_dy_pos F64 true (- A) ea else rne_dy_pos F64 false A ea) = FFin (A <? 0) My Ey).
    { destruct (A <? 0) eqn:Sg.
      - replace (- A) with (Z.abs A) by lia. exact Dg.
      - replace A with (Z.abs A) at 1 by lia. exact Dg. }
    assert (P2k : 0 < 2 ^ (ea + 1200)) by (apply pow2_gt0; lia).
    split; [exact Dsel|]. split; [exact HEy|]. split; [|split; [exact HMy|split]].
    + rewrite HT. rewrite <- (sm_abs A) at 2. unfold sm. destruct (A <? 0); rewrite ?Z.mul_opp_l; rewrite Val; reflexivity.
    + rewrite HT. destruct (A <? 0) eqn:Sg; symmetry; [apply Z.ltb_lt|apply Z.ltb_ge]; nia.
    + right. exact Hcy.
Qed.

(* ---------- bit patterns are non-negative ---------- *)
Lemma sbit_nonneg f s : 0 <= sbit f s.
Proof. unfold sbit. destruct s; [apply Z.pow_nonneg; lia|lia]. Qed.

Lemma encode_canon_nonneg f s m e : fmt_ok f -> 0 <= m -> emin f <= e -> 0 <= encode_canon f s m e.
Proof.
  intros [Hp He] Hm Hee. unfold encode_canon.
  assert (P : 0 < 2 ^ (prec f - 1)) by (apply pow2_gt0; lia).
  pose proof (sbit_nonneg f s) as Sb.
  assert (Em : 0 <= emax_field f) by (unfold emax_field; assert (0 < 2 ^ ebits f) by (apply pow2_gt0; lia); lia).
  destruct (m =? 2 ^ prec f).
  - destruct (2 ^ (prec f - 1) <? 2 ^ (prec f - 1)); [lia|].
    destruct (emax_field f <=? e + 1 - emin f + 1); [unfold inf_bits; nia|nia].
  - destruct (m <? 2 ^ (prec f - 1)) eqn:L; [lia|].
    destruct (emax_field f <=? e - emin f + 1); [unfold inf_bits; nia|nia].
Qed.

Lemma rne_dy_signed_nonneg f zs M e : fmt_ok f -> 0 <= rne_dy_signed f zs M e.
Proof.
  intros Hf. rewrite rne_dy_signed_cases.
  assert (G : forall s m, 0 < m -> 0 <= rne_dy_pos f s m e).
  { intros s m Hm. rewrite (rne_dy_pos_is_round f s m e Hm).
    pose proof (round_int_spec f m e Hf Hm) as S. cbv zeta in S. destruct S as (He0 & HQ & _).
    apply encode_canon_nonneg; [exact Hf|lia|exact He0]. }
  destruct (M =? 0) eqn:Z0; [apply sbit_nonneg|].
  destruct (M <? 0) eqn:N; apply G; lia.
Qed.

(* QuantEq.v — Encoder.quantize as written in the source = the model's quantize (see QuantBase.v for the float64 steps) *)
From Coq Require Import ZArith Bool List Lia ZifyBool ZifyNat.
From IVG Require Import SF NumCodec NumBase SFProofs SFRound CvtExact NumSweepE QuantBase.
Import ListNotations.
Local Open Scope Z_scope.

Lemma narrow_int K : -8192 <= K <= 8192 -> f64_to_f32 (of_Z F64 K) = of_Z F32 K.
Proof.
  intros H. pose proof sweep_narrow_ok as S. rewrite forallb_forall in S.
  specialize (S (K + 8192)). replace (K + 8192 - 8192) with K in S by lia.
  apply Z.eqb_eq. apply S. apply zrange_in. rewrite Z2Nat.id by lia. lia.
Qed.

(* steps 4 and 5: floor in float64, then narrowing *)
Lemma floor_narrow y sy My Ey T : 0 <= y -> decode F64 y = FFin sy My Ey -> -1074 <= Ey ->
  sm sy My * 2 ^ (Ey + 1200) = T -> 0 <= My < 2 ^ 53 -> sy = (T <? 0) -> (My = 0 \/ 2 ^ 52 <= My \/ Ey = -1074) ->
  -8192 * 2 ^ 1200 <= T < 8193 * 2 ^ 1200 ->
  f64_to_f32 (ffloor F64 y) = of_Z F32 (T / 2 ^ 1200).
Proof.
  intros Hy D HEy Val HMy Hsy Hc HT.
  assert (P1200 : 0 < 2 ^ 1200) by (apply pow2_gt0; lia).
  unfold ffloor. rewrite decode_fast64 by exact Hy. rewrite D.
  destruct (Z.eq_dec My 0) as [Z0|NZ].
  - subst My. replace ((0 <=? Ey) || (0 =? 0)) with true by (rewrite orb_true_r; reflexivity).
    assert (T0 : T = 0) by (rewrite <- Val; destruct sy; cbn [sm]; lia).
    rewrite T0 in Hsy. cbn in Hsy. subst sy. rewrite T0. rewrite Z.div_0_l by lia.
    unfold f64_to_f32, convert. rewrite decode_fast64 by exact Hy. rewrite D. reflexivity.
  - assert (Hneg : Ey < 0).
    { destruct Hc as [Hc|[Hc|Hc]]; [contradiction| |lia].
      assert (B : My * 2 ^ (Ey + 1200) < 2 ^ 1214).
      { assert (8193 * 2 ^ 1200 < 2 ^ 1214) by (change (2 ^ 1214) with (2 ^ 14 * 2 ^ 1200); lia).
        assert (8192 * 2 ^ 1200 < 2 ^ 1214) by (change (2 ^ 1214) with (2 ^ 14 * 2 ^ 1200); lia).
        destruct sy; cbn [sm] in Val; lia. }
      assert (B2 : 2 ^ 52 * 2 ^ (Ey + 1200) < 2 ^ 1214).
      { assert (0 < 2 ^ (Ey + 1200)) by (apply pow2_gt0; lia). nia. }
      rewrite <- Z.pow_add_r in B2 by lia. apply Z.pow_lt_mono_r_iff in B2; lia. }
    replace ((0 <=? Ey) || (My =? 0)) with false by lia.
    set (K := Z.shiftr (sm sy My) (- Ey)).
    assert (HK : K = T / 2 ^ 1200).
    { unfold K. rewrite Z.shiftr_div_pow2 by lia. rewrite <- Val.
      replace (2 ^ 1200) with (2 ^ (- Ey) * 2 ^ (Ey + 1200)) by (rewrite <- Z.pow_add_r by lia; f_equal; lia).
      rewrite Z.div_mul_cancel_r; [reflexivity| |].
      - assert (0 < 2 ^ (- Ey)) by (apply pow2_gt0; lia). lia.
      - assert (0 < 2 ^ (Ey + 1200)) by (apply pow2_gt0; lia). lia. }
    assert (HKr : -8192 <= K <= 8192).
    { rewrite HK. split.
      - apply Z.div_le_lower_bound; lia.
      - assert (T / 2 ^ 1200 < 8193); [apply Z.div_lt_upper_bound; lia|lia]. }
    rewrite <- HK.
    destruct (Z.eq_dec K 0) as [K0|KN].
    + rewrite K0. assert (Tnn : 0 <= T).
      { rewrite K0 in HK. symmetry in HK. apply Z.div_small_iff in HK; lia. }
      replace (T <? 0) with false in Hsy by lia. subst sy. vm_compute. reflexivity.
    + assert (E : rne_dy_signed F64 sy K 0 = of_Z F64 K).
      { unfold of_Z. rewrite !rne_dy_signed_cases. replace (K =? 0) with false by lia. reflexivity. }
      rewrite E. apply narrow_int. exact HKr.
Qed.

From IVG Require Import NumSweepA NumSweepB NumSweepC NumProofs.

(* the float64 computation of the source, for a finite float32 of magnitude in [2^-35, 128] *)
Lemma quant_chain f s m e : wf_f32 f -> decode F32 f = FFin s m e ->
  2 ^ 114 <= m * 2 ^ (e + 149) <= 2 ^ 156 ->
  f64_to_f32 (ffloor F64 (fadd F64 (fmul F64 (f32_to_f64 f) 4634204016564240384) 4602678819172646912)) =
  of_Z F32 ((sm s m * 2 ^ (e + 149) * 64 + 2 ^ 148) / 2 ^ 149).
Proof.
  intros W D Hmag. pose proof (decode32_fin _ _ _ _ W D) as [Hm He].
  assert (P0 : 0 < 2 ^ (e + 149)) by (apply pow2_gt0; lia).
  assert (P114 : 0 < 2 ^ 114) by (apply pow2_gt0; lia).
  assert (Hm0 : 0 < m).
  { destruct (Z.eq_dec m 0) as [Zm|Zm]; [exfalso; rewrite Zm, Z.mul_0_l in Hmag; lia|lia]. }
  destruct (cvt_canon f s m e W D Hm0) as (M & E & Dc & HE & Vc & HMc & Cc).
  (* the converted value is not subnormal and its exponent is small *)
  assert (Hc0 : 0 <= f32_to_f64 f).
  { unfold f32_to_f64, convert. rewrite decode_fast32 by (unfold wf_f32 in W; lia). rewrite D.
    unfold rne_dy. destruct (m =? 0); [apply sbit_nonneg|].
    rewrite (rne_dy_pos_is_round F64 s m e Hm0).
    pose proof (round_int_spec F64 m e F64_ok Hm0) as S. cbv zeta in S. destruct S as (He0 & HQ & _).
    apply encode_canon_nonneg; [exact F64_ok|lia|exact He0]. }
  assert (PE : 0 < 2 ^ (E + 1200)) by (apply pow2_gt0; lia).
  assert (Pe : 0 < 2 ^ (e + 1200)) by (apply pow2_gt0; lia).
  assert (HM0 : 0 < M).
  { destruct (Z.eq_dec M 0) as [Zm|Zm]; [exfalso; rewrite Zm, Z.mul_0_l in Vc; clear Hmag P114; nia|lia]. }
  assert (Hval : m * 2 ^ (e + 1200) = (m * 2 ^ (e + 149)) * 2 ^ 1051).
  { rewrite <- Z.mul_assoc, <- Z.pow_add_r by lia. do 2 f_equal. lia. }
  assert (Hlo : 2 ^ 1165 <= M * 2 ^ (E + 1200) <= 2 ^ 1207).
  { rewrite Vc, Hval. change (2 ^ 1165) with (2 ^ 114 * 2 ^ 1051). change (2 ^ 1207) with (2 ^ 156 * 2 ^ 1051).
    assert (0 <= 2 ^ 1051) by (apply Z.pow_nonneg; lia).
    split; apply Z.mul_le_mono_nonneg_r; lia. }
  assert (HlogME : Z.log2 M + E < 900).
  { assert (Z.log2 M < 53) by (apply Z.log2_lt_pow2; lia).
    assert (B : 2 ^ (E + 1200) <= 2 ^ 1207).
    { apply Z.le_trans with (M * 2 ^ (E + 1200)); [|lia]. rewrite <- (Z.mul_1_l (2 ^ (E + 1200))) at 1.
      apply Z.mul_le_mono_nonneg_r; lia. }
    apply Z.pow_le_mono_r_iff in B; lia. }
  destruct (mul64_d (f32_to_f64 f) s M E Hc0 Dc ltac:(lia) HE HlogME) as (M2 & E2 & Dw & HE2 & Vw & HM2 & Cw).
  set (w := fmul F64 (f32_to_f64 f) 4634204016564240384) in *.
  assert (PE2 : 0 < 2 ^ (E2 + 1200)) by (apply pow2_gt0; lia).
  assert (Vw' : M2 * 2 ^ (E2 + 1200) = m * 2 ^ (e + 1206)).
  { rewrite Vw. replace (E + 1206) with ((E + 1200) + 6) by lia. rewrite Z.pow_add_r by lia.
    rewrite Z.mul_assoc, Vc. rewrite <- Z.mul_assoc, <- Z.pow_add_r by lia. do 2 f_equal. lia. }
  assert (Hw2 : 2 ^ 1171 <= M2 * 2 ^ (E2 + 1200) <= 2 ^ 1213).
  { rewrite Vw. replace (E + 1206) with ((E + 1200) + 6) by lia. rewrite Z.pow_add_r by lia.
    change (2 ^ 1171) with (2 ^ 1165 * 2 ^ 6). change (2 ^ 1213) with (2 ^ 1207 * 2 ^ 6).
    rewrite Z.mul_assoc. split; apply Z.mul_le_mono_nonneg_r; try lia; apply Z.pow_nonneg; lia. }
  assert (HM2c : 2 ^ 52 <= M2).
  { destruct Cw as [Cw|Cw]; [exact Cw|]. exfalso. subst E2. change (-1074 + 1200) with 126 in Hw2.
    assert (H : M2 * 2 ^ 126 < 2 ^ 53 * 2 ^ 126) by (apply Z.mul_lt_mono_pos_r; [apply pow2_gt0; lia|lia]).
    change (2 ^ 53 * 2 ^ 126) with (2 ^ 179) in H.
    assert (2 ^ 179 < 2 ^ 1171) by (apply Z.pow_lt_mono_r; lia). lia. }
  assert (HE2r : -81 <= E2 <= -39).
  { split.
    - assert (B : 2 ^ 1171 < 2 ^ 53 * 2 ^ (E2 + 1200)).
      { apply Z.le_lt_trans with (M2 * 2 ^ (E2 + 1200)); [lia|]. apply Z.mul_lt_mono_pos_r; lia. }
      rewrite <- Z.pow_add_r in B by lia.
      apply Z.pow_lt_mono_r_iff in B; lia.
    - assert (B : 2 ^ 52 * 2 ^ (E2 + 1200) <= 2 ^ 1213).
      { apply Z.le_trans with (M2 * 2 ^ (E2 + 1200)); [|lia]. apply Z.mul_le_mono_nonneg_r; lia. }
      rewrite <- Z.pow_add_r in B by lia.
      apply Z.pow_le_mono_r_iff in B; lia. }
  (* M2 comes from the 24-bit mantissa *)
  assert (Hj : 29 <= e + 6 - E2).
  { assert (B : 2 ^ 52 * 2 ^ (E2 + 1200) < 2 ^ 24 * 2 ^ (e + 1206)).
    { apply Z.le_lt_trans with (M2 * 2 ^ (E2 + 1200)); [apply Z.mul_le_mono_nonneg_r; lia|]. rewrite Vw'.
      apply Z.mul_lt_mono_pos_r; [apply pow2_gt0; lia|]. change (2 ^ 24) with 16777216. lia. }
    rewrite <- !Z.pow_add_r in B by lia. apply Z.pow_lt_mono_r_iff in B; lia. }
  assert (HMj : M2 = m * 2 ^ (e + 6 - E2)).
  { apply (Z.mul_reg_r _ _ (2 ^ (E2 + 1200))); [lia|]. rewrite Vw'.
    rewrite <- Z.mul_assoc, <- Z.pow_add_r by lia. do 2 f_equal. lia. }
  assert (Hw0 : 0 <= w).
  { unfold w. rewrite (fmul_finite F64 (f32_to_f64 f) 4634204016564240384 s M E false 4503599627370496 (-46) Hc0 ltac:(lia) ltac:(cbn; lia) ltac:(cbn; lia) Dc d64_decode).
    unfold rne_dy. destruct (M * 4503599627370496 =? 0); [apply sbit_nonneg|].
    assert (Q : 0 < M * 4503599627370496) by lia.
    rewrite (rne_dy_pos_is_round F64 _ _ _ Q).
    pose proof (round_int_spec F64 _ (E + -46) F64_ok Q) as S. cbv zeta in S. destruct S as (He0 & HQ & _).
    apply encode_canon_nonneg; [exact F64_ok|lia|exact He0]. }
  destruct (add_half w s M2 E2 m (e + 6 - E2) Hw0 Dw HMj Hj Hm0 ltac:(lia) HE2r) as (sy & My & Ey & Dy & HEy & Vy & HMy & Hsy & Cy).
  set (y := fadd F64 w 4602678819172646912) in *.
  assert (Hy0 : 0 <= y).
  { unfold y. rewrite (fadd_finite F64 w 4602678819172646912 s M2 E2 false 4503599627370496 (-53) Hw0 ltac:(lia) ltac:(cbn; lia) ltac:(cbn; lia) Dw dhalf_decode).
    apply rne_dy_signed_nonneg. exact F64_ok. }
  set (T := sm s M2 * 2 ^ (E2 + 1200) + 2 ^ 1199) in *.
  assert (HTv : T = (sm s m * 2 ^ (e + 149) * 64 + 2 ^ 148) * 2 ^ 1051).
  { assert (E1 : sm s M2 * 2 ^ (E2 + 1200) = sm s m * 2 ^ (e + 149) * 64 * 2 ^ 1051).
    { rewrite <- sm_mul. rewrite Vw'. rewrite sm_mul. rewrite <- !Z.mul_assoc. f_equal.
      change 64 with (2 ^ 6). rewrite <- !Z.pow_add_r by lia. f_equal. lia. }
    assert (E2' : 2 ^ 1199 = 2 ^ 148 * 2 ^ 1051) by (rewrite <- Z.pow_add_r by lia; reflexivity).
    unfold T. rewrite E1, E2'. ring. }
  assert (HTr : -8192 * 2 ^ 1200 <= T < 8193 * 2 ^ 1200).
  { rewrite HTv. change (2 ^ 1200) with (2 ^ 149 * 2 ^ 1051). assert (0 < 2 ^ 1051) by (apply pow2_gt0; lia).
    change (2 ^ 156) with (128 * 2 ^ 149) in Hmag. assert (0 < 2 ^ 149) by (apply pow2_gt0; lia).
    rewrite <- sm_mul.
    set (P := 2 ^ 1051) in *. set (U := 2 ^ 149) in *. set (I := m * 2 ^ (e + 149)) in *.
    assert (HU : 2 ^ 148 * 2 = U) by reflexivity. set (Hf := 2 ^ 148) in *.
    assert (HI : 0 < I <= 128 * U) by lia.
    assert (HJ : -8192 * U <= sm s I * 64 + Hf < 8193 * U) by (destruct s; unfold sm; lia).
    rewrite !Z.mul_assoc. split; [apply Z.mul_le_mono_nonneg_r; lia|apply Z.mul_lt_mono_pos_r; lia]. }
  rewrite (floor_narrow y sy My Ey T Hy0 Dy HEy Vy HMy Hsy Cy HTr).
  f_equal. rewrite HTv. change (2 ^ 1200) with (2 ^ 149 * 2 ^ 1051).
  rewrite Z.div_mul_cancel_r; [reflexivity| |]; assert (0 < 2 ^ 149) by (apply pow2_gt0; lia); assert (0 < 2 ^ 1051) by (apply pow2_gt0; lia); lia.
Qed.

(* QuantF.v — how far an absolute point moves in pixel space when its coordinates go through the low-resolution
   coordinate quantisation of the encoder (C07): at most scale / 128 per axis, plus float32 rounding. *)
From Coq Require Import ZArith Reals Lia Lra Bool.
From Flocq Require Import Core.Raux.
From IVG Require Import SF NumCodec SFProofs SFRound SFReal SFReal2 FErr MapF NumBase NumProofs Color Calls Render GeomR.
Local Open Scope R_scope.

Lemma ival32_V x : gf x -> IZR (ival32 x) = V x * IZR (2 ^ 149).
Proof.
  intros [_ (s & m & e & D)]. unfold ival32, V. rewrite D, (B2R_fin _ _ _ _ _ D).
  pose proof (decode_fin_exp _ _ _ _ _ F32_ok D) as He. change (emin F32) with (-149)%Z in He.
  rewrite mult_IZR, IZR_sm, (IZR_pow2 (e + 149)) by lia. change (IZR (2 ^ 149)) with (b2 149).
  rewrite b2_add. ring.
Qed.

Lemma fin32_of_is_finite x : is_finite F32 x = true -> fin32 x.
Proof.
  unfold is_finite, fin32, finite. destruct (decode F32 x) as [| |s m e]; try discriminate. intros _. exists s, m, e. reflexivity.
Qed.

(* the quantised coordinate is a finite float32 within 1/128 of the original *)
Theorem quantize_close x : gf x -> fle F32 cm128 x = true -> flt F32 x c128 = true ->
  gf (quantize false x) /\ Rabs (V (quantize false x) - V x) <= / 128 /\ Rabs (V (quantize false x)) <= 129.
Proof.
  intros Gx L1 L2. destruct (quantize_nearest x (proj1 Gx) L1 L2) as (Hk & Hn & Wq & Fq & Eq).
  set (q := quantize false x) in *. set (k := quant_k x) in *.
  assert (Gq : gf q) by (split; [exact Wq|apply fin32_of_is_finite, Fq]).
  pose proof (ival32_V x Gx) as Ix. pose proof (ival32_V q Gq) as Iq.
  assert (P149 : IZR (2 ^ 149) = 2 * IZR (2 ^ 148)).
  { change (2 ^ 149)%Z with (2 * 2 ^ 148)%Z. rewrite mult_IZR. reflexivity. }
  assert (P0 : 0 < IZR (2 ^ 148)) by (apply IZR_lt; lia).
  (* V q = k / 64 *)
  apply (f_equal IZR) in Eq. rewrite !mult_IZR, Iq in Eq.
  assert (Vq : V q = IZR k / 64).
  { apply Rmult_eq_reg_r with (IZR (2 ^ 149) * 64); [|lra]. replace (IZR k / 64 * (IZR (2 ^ 149) * 64)) with (IZR k * IZR (2 ^ 149)) by field.
    lra. }
  destruct Hn as [N1 N2]. apply IZR_le in N1. apply IZR_lt in N2.
  rewrite plus_IZR, !mult_IZR, Ix in N1. rewrite plus_IZR, !mult_IZR, plus_IZR, Ix in N2.
  split; [exact Gq|]. destruct Hk as [K1 K2]. apply IZR_le in K1. apply IZR_le in K2.
  split; [rewrite Vq; apply Rabs_le; split; nra|rewrite Vq; apply Rabs_le; split; lra].
Qed.

Section OnModel.
Variables (s : rstate f32) (vb : viewbox) (pal : list rgba) (x : f32).
Hypothesis Hw : (1 <= r_w s <= 2 ^ 24)%Z.
Hypothesis Gmn : gf (vminx vb).
Hypothesis Gmx : gf (vmaxx vb).
Hypothesis Gx : gf x.
Hypothesis Hs : / P40 <= V (vmaxx vb) - V (vminx vb).
Hypothesis Bmn : Rabs (V (vminx vb)) <= P40.
Hypothesis Bmx : Rabs (V (vmaxx vb)) <= P40.
Hypothesis L1 : fle F32 cm128 x = true.
Hypothesis L2 : flt F32 x c128 = true.

Let s1 := rreset N32 s vb pal.
Let S := IZR (r_w s) / (V (vmaxx vb) - V (vminx vb)).
Let MN := V (vminx vb).

(* the pixel x coordinate of an absolute point whose coordinate was quantised differs from that of the original
   point by at most scale/128 plus the float32 rounding of the two evaluations of the affine map *)
Theorem quantised_point_moves :
  let q := quantize false x in
  Rabs (V (absX N32 s1 q) - V (absX N32 s1 x)) <=
    S * / 128 + 7 * u32 * (Rabs (S * (V q - MN)) + Rabs (S * (V x - MN))) + 2 * / IZR (2 ^ 150).
Proof.
  cbv zeta. destruct (quantize_close x Gx L1 L2) as (Gq & Cq & Bq). set (q := quantize false x) in *.
  assert (Bx : Rabs (V x) <= P40).
  { replace (V x) with (V q - (V q - V x)) by ring. eapply Rle_trans; [apply Rabs_triang|]. rewrite Rabs_Ropp. unfold P40. lra. }
  assert (Bq' : Rabs (V q) <= P40) by (unfold P40; lra).
  pose proof (map_err (r_w s) (vminx vb) (vmaxx vb) x Gmn Gmx Gx Hw Hs Bmn Bmx Bx) as [_ Ex].
  pose proof (map_err (r_w s) (vminx vb) (vmaxx vb) q Gmn Gmx Gq Hw Hs Bmn Bmx Bq') as [_ Eq].
  fold S MN in Ex, Eq.
  change (absX N32 s1 q) with (fmul F32 (fdiv F32 (of_Z F32 (r_w s)) (fsub F32 (vmaxx vb) (vminx vb))) (fadd F32 q (fneg F32 (vminx vb)))).
  change (absX N32 s1 x) with (fmul F32 (fdiv F32 (of_Z F32 (r_w s)) (fsub F32 (vmaxx vb) (vminx vb))) (fadd F32 x (fneg F32 (vminx vb)))).
  set (pq := fmul F32 _ (fadd F32 q _)) in *. set (px := fmul F32 _ (fadd F32 x _)) in *.
  assert (Sp : 0 < S).
  { unfold S. apply Rdiv_lt_0_compat; [apply IZR_lt; lia|]. unfold P40 in Hs. lra. }
  replace (V pq - V px) with ((V pq - S * (V q - MN)) + S * (V q - V x) - (V px - S * (V x - MN))) by ring.
  eapply Rle_trans; [apply Rabs_triang|]. rewrite Rabs_Ropp. eapply Rle_trans; [apply Rplus_le_compat_r, Rabs_triang|].
  rewrite (Rabs_mult S), (Rabs_pos_eq S) by lra.
  assert (S * Rabs (V q - V x) <= S * / 128) by (apply Rmult_le_compat_l; lra).
  lra.
Qed.
End OnModel.

Print Assumptions quantised_point_moves.

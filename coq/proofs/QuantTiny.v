(* QuantTiny.v — Encoder.quantize as written in the source, for non-zero coordinates below 2^-35 in magnitude: the float64
   sum c*64 + 0.5 is not exact there, but it rounds to a value in (0, 1), whose floor is +0 — the model's quantised value. *)
From Coq Require Import ZArith Bool List Lia ZifyBool ZifyNat.
From IVG Require Import SF NumCodec NumBase SFProofs SFRound CvtExact QuantBase.
Import ListNotations.
Local Open Scope Z_scope.

(* a float64 strictly between 0 and 1 floors to +0 *)
Lemma floor_small y My Ey : 0 <= y -> decode F64 y = FFin false My Ey -> 0 < My -> Ey < 0 -> My < 2 ^ (- Ey) ->
  ffloor F64 y = 0.
Proof.
  intros Hy D HM HE Hlt. unfold ffloor. rewrite decode_fast64 by exact Hy. rewrite D.
  replace ((0 <=? Ey) || (My =? 0)) with false by lia.
  cbn [sm]. rewrite Z.shiftr_div_pow2 by lia. rewrite Z.div_small by lia. reflexivity.
Qed.

(* rounding a positive dyadic A * 2^(-n) that lies within 2^53 units of one half (n >= 82) gives a float64 in (0, 1) *)
Lemma round_near_half A n : 82 <= n -> 2 ^ (n - 1) - 2 ^ 53 < A < 2 ^ (n - 1) + 2 ^ 53 ->
  exists My Ey, decode F64 (rne_dy_pos F64 false A (- n)) = FFin false My Ey /\ 0 < My /\ Ey < 0 /\ My < 2 ^ (- Ey).
Proof.
  intros Hn HA.
  set (X := 2 ^ (n - 54)).
  assert (HX : 2 ^ 28 <= X) by (apply Z.pow_le_mono_r; lia).
  assert (P1 : 2 ^ (n - 1) = X * 2 ^ 53) by (unfold X; rewrite <- Z.pow_add_r by lia; f_equal; lia).
  assert (P2 : 2 ^ (n - 2) = X * 2 ^ 52) by (unfold X; rewrite <- Z.pow_add_r by lia; f_equal; lia).
  assert (P0 : 2 ^ n = X * 2 ^ 54) by (unfold X; rewrite <- Z.pow_add_r by lia; f_equal; lia).
  rewrite P1 in HA. change (2 ^ 28) with 268435456 in HX. change (2 ^ 53) with 9007199254740992 in HA, P1.
  change (2 ^ 52) with 4503599627370496 in P2. change (2 ^ 54) with 18014398509481984 in P0.
  assert (HA0 : 0 < A) by lia.
  (* the binade of A *)
  pose proof (log2_bounds A HA0) as [Lb Ub].
  assert (Hl : Z.log2 A = n - 2 \/ Z.log2 A = n - 1).
  { assert (B1 : 2 ^ (n - 2) < 2 ^ (Z.log2 A + 1)) by (rewrite P2; lia).
    assert (B2 : 2 ^ Z.log2 A < 2 ^ n) by (rewrite P0; lia).
    pose proof (Z.log2_nonneg A).
    apply Z.pow_lt_mono_r_iff in B1; [|lia|lia]. apply Z.pow_lt_mono_r_iff in B2; lia. }
  rewrite (rne_dy_pos_is_round F64 false A (- n) HA0).
  pose proof (round_int_spec F64 A (- n) F64_ok HA0) as S. cbv zeta in S.
  set (Q := round_int F64 A (- n)) in *. set (e0 := round_exp F64 A (- n)) in *.
  assert (He0 : e0 = Z.log2 A - n - 52).
  { unfold e0, round_exp. change (emin F64) with (-1074). change (prec F64) with 53. lia. }
  change (prec F64) with 53 in S. change (emin F64) with (-1074) in S.
  destruct S as (Hemin & HQ & Hcanon & _ & Hnear).
  assert (Hlt : - n < e0) by lia. specialize (Hnear Hlt). cbv zeta in Hnear. destruct Hnear as [Hnear _].
  assert (HQ52 : 2 ^ 52 <= Q) by (destruct Hcanon as [Hc|Hc]; [exact Hc|lia]).
  (* Q * 2^e0 < 1 *)
  assert (HQlt : Q < 2 ^ (- e0)).
  { destruct Hl as [Hl|Hl].
    - (* e0 = -54: Q <= 2^53 < 2^54 *)
      replace (- e0) with 54 by lia. change (2 ^ 54) with 18014398509481984. change (2 ^ 53) with 9007199254740992 in HQ. lia.
    - (* e0 = -53: the step is 2X; Q >= 2^53 would put Q * 2X at least X * 2^54, too far from A *)
      replace (- e0) with 53 by lia. replace (e0 - - n) with ((n - 54) + 1) in Hnear by lia.
      rewrite Z.pow_add_r in Hnear by lia. fold X in Hnear. change (2 ^ 1) with 2 in Hnear.
      change (2 ^ 53) with 9007199254740992.
      destruct (Z_lt_le_dec Q 9007199254740992) as [Hs|Hs]; [exact Hs|exfalso].
      assert (B : 9007199254740992 * (X * 2) <= Q * (X * 2)) by (apply Z.mul_le_mono_nonneg_r; lia).
      set (Y := Q * (X * 2)) in *. lia. }
  (* decode the result *)
  pose proof (encode_canon_decode F64 false Q e0 F64_ok) as Dec. change (prec F64) with 53 in Dec. change (emin F64) with (-1074) in Dec.
  specialize (Dec HQ Hemin (or_introl HQ52)). cbv zeta in Dec.
  destruct Dec as [[_ Hinf]|(M & E & D & Hval & HM & HE & HMc)].
  { exfalso. change (emax_field F64) with 2047 in Hinf. destruct (Q =? 2 ^ 53); lia. }
  exists M, E. split; [exact D|].
  assert (Pq : 0 < 2 ^ (e0 - -1074)) by (apply pow2_gt0; lia).
  assert (Pe : 0 < 2 ^ (E - -1074)) by (apply pow2_gt0; lia).
  assert (HM0 : 0 < M).
  { destruct (Z.eq_dec M 0) as [Zm|Zm]; [exfalso; rewrite Zm, Z.mul_0_l in Hval|lia].
    assert (0 < Q * 2 ^ (e0 - -1074)) by (apply Z.mul_pos_pos; lia). lia. }
  split; [exact HM0|].
  (* M * 2^(E+1074) = Q * 2^(e0+1074) < 2^1074 *)
  assert (Hv : M * 2 ^ (E - -1074) < 2 ^ 1074).
  { rewrite Hval. replace (2 ^ 1074) with (2 ^ (- e0) * 2 ^ (e0 - -1074)).
    - apply Z.mul_lt_mono_pos_r; [exact Pq|exact HQlt].
    - rewrite <- Z.pow_add_r by lia. f_equal. lia. }
  assert (HEneg : E < 0).
  { destruct (Z_lt_le_dec E 0) as [Hs|Hs]; [exact Hs|exfalso].
    assert (B : 2 ^ 1074 <= 2 ^ (E - -1074)) by (apply Z.pow_le_mono_r; lia).
    assert (B2 : 2 ^ (E - -1074) <= M * 2 ^ (E - -1074)).
    { rewrite <- (Z.mul_1_l (2 ^ (E - -1074))) at 1. apply Z.mul_le_mono_nonneg_r; lia. }
    lia. }
  split; [exact HEneg|].
  destruct (Z_lt_le_dec M (2 ^ (- E))) as [Hs|Hs]; [exact Hs|exfalso].
  assert (B : 2 ^ (- E) * 2 ^ (E - -1074) <= M * 2 ^ (E - -1074)) by (apply Z.mul_le_mono_nonneg_r; lia).
  rewrite <- Z.pow_add_r in B by lia. replace (- E + (E - -1074)) with 1074 in B by lia. lia.
Qed.

(* the float64 computation of the source for a non-zero finite float32 below 2^-35 in magnitude: floor(c*64 + 0.5) = +0 *)
Lemma quant_chain_tiny f s m e : wf_f32 f -> decode F32 f = FFin s m e -> 0 < m ->
  m * 2 ^ (e + 149) < 2 ^ 114 ->
  ffloor F64 (fadd F64 (fmul F64 (f32_to_f64 f) 4634204016564240384) 4602678819172646912) = 0.
Proof.
  intros W D Hm0 Hmag. pose proof (decode32_fin _ _ _ _ W D) as [Hm He].
  assert (P0 : 0 < 2 ^ (e + 149)) by (apply pow2_gt0; lia).
  destruct (cvt_canon f s m e W D Hm0) as (M & E & Dc & HE & Vc & HMc & Cc).
  assert (Hc0 : 0 <= f32_to_f64 f).
  { unfold f32_to_f64, convert. rewrite decode_fast32 by (unfold wf_f32 in W; lia). rewrite D.
    unfold rne_dy. destruct (m =? 0); [apply sbit_nonneg|].
    rewrite (rne_dy_pos_is_round F64 s m e Hm0).
    pose proof (round_int_spec F64 m e F64_ok Hm0) as S. cbv zeta in S. destruct S as (He0 & HQ & _).
    apply encode_canon_nonneg; [exact F64_ok|lia|exact He0]. }
  assert (PE : 0 < 2 ^ (E + 1200)) by (apply pow2_gt0; lia).
  assert (Pe : 0 < 2 ^ (e + 1200)) by (apply pow2_gt0; lia).
  assert (HM0 : 0 < M).
  { destruct (Z.eq_dec M 0) as [Zm|Zm]; [exfalso; rewrite Zm, Z.mul_0_l in Vc; clear Hmag; nia|lia]. }
  assert (Hval : m * 2 ^ (e + 1200) = (m * 2 ^ (e + 149)) * 2 ^ 1051).
  { rewrite <- Z.mul_assoc, <- Z.pow_add_r by lia. do 2 f_equal. lia. }
  assert (P1051 : 0 < 2 ^ 1051) by (apply pow2_gt0; lia).
  assert (Hhi : M * 2 ^ (E + 1200) < 2 ^ 1165).
  { rewrite Vc, Hval. change (2 ^ 1165) with (2 ^ 114 * 2 ^ 1051). apply Z.mul_lt_mono_pos_r; [exact P1051|exact Hmag]. }
  assert (Hlo : 2 ^ 1051 <= M * 2 ^ (E + 1200)).
  { rewrite Vc, Hval. rewrite <- (Z.mul_1_l (2 ^ 1051)) at 1. apply Z.mul_le_mono_nonneg_r; [lia|].
    assert (0 < m * 2 ^ (e + 149)) by (apply Z.mul_pos_pos; lia). lia. }
  assert (HlogME : Z.log2 M + E < 900).
  { assert (Z.log2 M < 53) by (apply Z.log2_lt_pow2; lia).
    assert (B : 2 ^ (E + 1200) < 2 ^ 1165).
    { apply Z.le_lt_trans with (M * 2 ^ (E + 1200)); [|exact Hhi]. rewrite <- (Z.mul_1_l (2 ^ (E + 1200))) at 1.
      apply Z.mul_le_mono_nonneg_r; lia. }
    apply Z.pow_lt_mono_r_iff in B; lia. }
  destruct (mul64_d (f32_to_f64 f) s M E Hc0 Dc ltac:(lia) HE HlogME) as (M2 & E2 & Dw & HE2 & Vw & HM2 & Cw).
  set (w := fmul F64 (f32_to_f64 f) 4634204016564240384) in *.
  assert (PE2 : 0 < 2 ^ (E2 + 1200)) by (apply pow2_gt0; lia).
  assert (Hw2 : 2 ^ 1057 <= M2 * 2 ^ (E2 + 1200) < 2 ^ 1171).
  { rewrite Vw. replace (E + 1206) with ((E + 1200) + 6) by lia. rewrite Z.pow_add_r by lia.
    change (2 ^ 1057) with (2 ^ 1051 * 2 ^ 6). change (2 ^ 1171) with (2 ^ 1165 * 2 ^ 6).
    rewrite Z.mul_assoc. assert (0 < 2 ^ 6) by (apply pow2_gt0; lia).
    split; [apply Z.mul_le_mono_nonneg_r; lia|apply Z.mul_lt_mono_pos_r; lia]. }
  assert (HM2c : 2 ^ 52 <= M2).
  { destruct Cw as [Cw|Cw]; [exact Cw|]. exfalso. subst E2. change (-1074 + 1200) with 126 in Hw2.
    assert (H : M2 * 2 ^ 126 < 2 ^ 53 * 2 ^ 126) by (apply Z.mul_lt_mono_pos_r; [apply pow2_gt0; lia|lia]).
    change (2 ^ 53 * 2 ^ 126) with (2 ^ 179) in H.
    assert (2 ^ 179 < 2 ^ 1057) by (apply Z.pow_lt_mono_r; lia). lia. }
  assert (HE2r : E2 <= -82).
  { assert (B : 2 ^ 52 * 2 ^ (E2 + 1200) < 2 ^ 1171).
    { apply Z.le_lt_trans with (M2 * 2 ^ (E2 + 1200)); [|lia]. apply Z.mul_le_mono_nonneg_r; lia. }
    rewrite <- Z.pow_add_r in B by lia.
    apply Z.pow_lt_mono_r_iff in B; lia. }
  assert (Hw0 : 0 <= w).
  { unfold w. rewrite (fmul_finite F64 (f32_to_f64 f) 4634204016564240384 s M E false 4503599627370496 (-46) Hc0 ltac:(lia) ltac:(cbn; lia) ltac:(cbn; lia) Dc d64_decode).
    unfold rne_dy. destruct (M * 4503599627370496 =? 0); [apply sbit_nonneg|].
    assert (Q : 0 < M * 4503599627370496) by lia.
    rewrite (rne_dy_pos_is_round F64 _ _ _ Q).
    pose proof (round_int_spec F64 _ (E + -46) F64_ok Q) as S. cbv zeta in S. destruct S as (He0 & HQ & _).
    apply encode_canon_nonneg; [exact F64_ok|lia|exact He0]. }
  (* the sum, in units of 2^E2 *)
  set (y := fadd F64 w 4602678819172646912).
  assert (Hy : y = rne_dy_pos F64 false (sm s M2 + 2 ^ (-1 - E2)) (- (- E2))).
  { unfold y. rewrite (fadd_finite F64 w 4602678819172646912 s M2 E2 false 4503599627370496 (-53) Hw0 ltac:(lia) ltac:(cbn; lia) ltac:(cbn; lia) Dw dhalf_decode).
    replace (Z.min E2 (-53)) with E2 by lia. rewrite Z.sub_diag, Z.mul_1_r. cbn [sm].
    change 4503599627370496 with (2 ^ 52). rewrite <- Z.pow_add_r by lia. replace (52 + (-53 - E2)) with (-1 - E2) by lia.
    rewrite rne_dy_signed_cases. rewrite Z.opp_involutive.
    assert (P : 2 ^ 81 <= 2 ^ (-1 - E2)) by (apply Z.pow_le_mono_r; lia).
    assert (2 ^ 53 < 2 ^ 81) by (apply Z.pow_lt_mono_r; lia).
    assert (A0 : 0 < sm s M2 + 2 ^ (-1 - E2)) by (destruct s; unfold sm; lia).
    replace (sm s M2 + 2 ^ (-1 - E2) =? 0) with false by lia.
    replace (sm s M2 + 2 ^ (-1 - E2) <? 0) with false by lia. reflexivity. }
  assert (Hnear : 2 ^ (- E2 - 1) - 2 ^ 53 < sm s M2 + 2 ^ (-1 - E2) < 2 ^ (- E2 - 1) + 2 ^ 53).
  { replace (- E2 - 1) with (-1 - E2) by lia. destruct s; unfold sm; lia. }
  destruct (round_near_half (sm s M2 + 2 ^ (-1 - E2)) (- E2) ltac:(lia) Hnear) as (My & Ey & Dy & HMy & HEy & Hlt).
  rewrite <- Hy in Dy.
  assert (Hy0 : 0 <= y).
  { rewrite Hy. rewrite rne_dy_pos_is_round.
    - match goal with |- 0 <= encode_canon F64 false (round_int F64 ?a ?b) _ =>
        assert (A0 : 0 < a) by (destruct s; unfold sm; assert (2 ^ 81 <= 2 ^ (-1 - E2)) by (apply Z.pow_le_mono_r; lia);
                                assert (2 ^ 53 < 2 ^ 81) by (apply Z.pow_lt_mono_r; lia); lia);
        pose proof (round_int_spec F64 a b F64_ok A0) as S end.
      cbv zeta in S. destruct S as (He0 & HQ & _).
      apply encode_canon_nonneg; [exact F64_ok|lia|exact He0].
    - destruct s; unfold sm; assert (2 ^ 81 <= 2 ^ (-1 - E2)) by (apply Z.pow_le_mono_r; lia);
        assert (2 ^ 53 < 2 ^ 81) by (apply Z.pow_lt_mono_r; lia); lia. }
  exact (floor_small y My Ey Hy0 Dy HMy HEy Hlt).
Qed.

(* RenderProofs.v — facts about the renderer model (float instance):
   the rasteriser log is write-only (frame property), and nothing a Renderer holds before Reset
   influences what it does after Reset for well-formed programs (C17). *)
From Coq Require Import ZArith Bool List Lia.
From IVG Require Import SF NumCodec Color Calls Render GoMath Arc.
Import ListNotations.
Local Open Scope Z_scope.

Definition S := rstate f32.

(* the state with its log replaced *)
Definition with_log (s : S) (l : list (rcall f32)) : S :=
  mkR f32 (r_x0 s) (r_y0 s) (r_w s) (r_h s) (r_scx s) (r_bx s) (r_scy s) (r_by s) (r_vb s) (r_pal s)
      (r_lod0 s) (r_lod1 s) (r_csel s) (r_nsel s) (r_disabled s) (r_pst s) (r_psx s) (r_psy s) (r_paint s)
      (r_creg s) (r_nreg s) (z_penx s) (z_peny s) (z_firstx s) (z_firsty s) l.

Lemma with_log_id s : with_log s (r_log s) = s.
Proof. destruct s; reflexivity. Qed.

Lemma with_log_twice s a b : with_log (with_log s a) b = with_log s b.
Proof. destruct s; reflexivity. Qed.

Lemma log_with_log s l : r_log (with_log s l) = l.
Proof. reflexivity. Qed.

(* a state transformer is framed when it only appends to the log and never reads it *)
Definition framed (f : S -> S) : Prop :=
  forall s L, f (with_log s L) = with_log (f (with_log s [])) (L ++ r_log (f (with_log s []))).

Lemma framed_id : framed (fun s => s).
Proof. intros s L. cbn. rewrite with_log_twice, app_nil_r. reflexivity. Qed.

Lemma framed_comp f g : framed f -> framed g -> framed (fun s => g (f s)).
Proof.
  intros Ff Fg s L. cbn beta. rewrite (Ff s L).
  set (s1 := f (with_log s [])). set (G := g (with_log s1 [])).
  rewrite (Fg s1 (L ++ r_log s1)). fold G.
  assert (E : g s1 = with_log G (r_log s1 ++ r_log G)).
  { rewrite <- (with_log_id s1) at 1. rewrite (Fg s1 (r_log s1)). reflexivity. }
  rewrite E, with_log_twice, log_with_log, app_assoc. reflexivity.
Qed.

Ltac crush_frame :=
  intros s L; destruct s; cbn;
  repeat match goal with
         | |- context [if ?c then _ else _] => destruct c
         | |- context [match ?x with _ => _ end] => destruct x
         end; cbn; rewrite ?app_nil_l, ?app_assoc; reflexivity.

Lemma framed_emit c pst psx psy : framed (fun s => emit N32 s c pst psx psy).
Proof. intros s L. destruct s, c; reflexivity. Qed.

Lemma framed_rreset vb pal : framed (fun s => rreset N32 s vb pal).
Proof. intros s L. destruct s. cbn. rewrite app_nil_r. reflexivity. Qed.

Lemma framed_rdraw op a : framed (fun s => rdraw N32 s op a).
Proof.
  intros s L. destruct s as [x0 y0 w h scx bx scy by_ vb pal l0 l1 cs ns dis pst psx psy pa creg nreg px py fx fy lg].
  unfold rdraw. cbn [r_disabled with_log].
  destruct dis; [cbn; rewrite app_nil_r; reflexivity|].
  repeat match goal with
         | |- context [if ?c then _ else _] => destruct c
         end; try (cbn; rewrite ?app_nil_r, <- ?app_assoc; reflexivity).
  all: unfold smooth_pt; cbn [r_pst with_log];
    match goal with |- context [negb (?p =? ?k)] => destruct (negb (p =? k)) end; cbn; reflexivity.
Qed.

Lemma framed_end_path : framed (fun s => end_path N32 s).
Proof.
  intros s L. destruct s as [x0 y0 w h scx bx scy by_ vb pal l0 l1 cs ns dis pst psx psy pa creg nreg px py fx fy lg].
  unfold end_path. cbn [r_disabled with_log]. destruct dis; cbn; rewrite ?app_nil_r; [reflexivity|].
  rewrite <- app_assoc. reflexivity.
Qed.

Lemma framed_start_path adj x y : framed (fun s => start_path N32 s adj x y).
Proof.
  intros s L. destruct s as [x0 y0 w h scx bx scy by_ vb pal l0 l1 cs ns dis pst psx psy pa creg nreg px py fx fy lg].
  unfold start_path. cbn [r_creg r_csel r_paint r_h r_lod0 r_lod1 with_log].
  set (flat := reg_at creg (cs - adj)).
  destruct (valid_premul flat).
  - destruct ((ca flat =? 0) || negb (fle F32 l0 (of_Z F32 h) && flt F32 (of_Z F32 h) l1)); cbn; rewrite ?app_nil_r; try reflexivity.
    rewrite <- app_assoc. reflexivity.
  - destruct (valid_gradient flat).
    + unfold init_gradient. cbn [r_creg r_nreg r_scx r_bx r_scy r_by with_log].
      destruct (grad_stops _ _ _ _ _ _ _) as [stops|]; [destruct (length stops <? 2)%nat|];
        cbn [fst snd orb]; destruct (negb (fle F32 l0 (of_Z F32 h) && flt F32 (of_Z F32 h) l1));
        cbn; rewrite ?app_nil_r; try reflexivity; rewrite <- app_assoc; reflexivity.
    + cbn. rewrite app_nil_r. reflexivity.
Qed.

Lemma framed_emit_dep (c : S -> rcall f32) : (forall s L, c (with_log s L) = c s) ->
  framed (fun s => emit_keep N32 s (c s)).
Proof.
  intros H s L. rewrite H, (H s []). destruct s. destruct (c _); reflexivity.
Qed.

Lemma framed_arc_segment cx cy t1 t2 rx ry cp sp : framed (fun s => arc_segment s cx cy t1 t2 rx ry cp sp).
Proof.
  unfold arc_segment. apply framed_emit_dep. intros s L. destruct s. reflexivity.
Qed.

Lemma framed_arc_loop k : forall i n cx cy t1 dt rx ry cp sp,
  framed (fun s => arc_loop k i n s cx cy t1 dt rx ry cp sp).
Proof.
  induction k as [|k IH]; intros i n cx cy t1 dt rx ry cp sp; cbn [arc_loop].
  - apply framed_id.
  - apply (framed_comp (fun s => arc_segment s cx cy _ _ rx ry cp sp)
                       (fun s => arc_loop k (i + 1) n s cx cy t1 dt rx ry cp sp)).
    + apply framed_arc_segment.
    + apply IH.
Qed.

Lemma framed_set_pst_none : framed set_pst_none.
Proof. intros s L. destruct s. cbn. rewrite app_nil_r. reflexivity. Qed.

(* a transformer that branches on data not involving the log *)
Lemma framed_dep {A} (sel : S -> A) (f : A -> S -> S) :
  (forall s L, sel (with_log s L) = sel s) -> (forall a, framed (f a)) -> framed (fun s => f (sel s) s).
Proof. intros Hs Hf s L. rewrite Hs, (Hs s []). apply Hf. Qed.

Lemma pst_none_with_log s L : set_pst_none (with_log s L) = with_log (set_pst_none s) L.
Proof. destruct s; reflexivity. Qed.

Lemma framed_abs_arc rx ry rot la sw x y : framed (fun s => abs_arc s rx ry rot la sw x y).
Proof.
  intros s L. unfold abs_arc. rewrite !pst_none_with_log. set (s' := set_pst_none s).
  destruct (negb (fgt F64 (dabs (to64 rx)) d0 && fgt F64 (dabs (to64 ry)) d0)).
  - apply (framed_emit_dep (fun s => RLineTo (absX N32 s x) (absY N32 s y))). intros s0 L0. destruct s0; reflexivity.
  - unfold unabsX, unabsY.
    change (z_penx (with_log s' L)) with (z_penx s'). change (z_peny (with_log s' L)) with (z_peny s').
    change (r_scx (with_log s' L)) with (r_scx s'). change (r_scy (with_log s' L)) with (r_scy s').
    change (r_bx (with_log s' L)) with (r_bx s'). change (r_by (with_log s' L)) with (r_by s').
    change (z_penx (with_log s' [])) with (z_penx s'). change (z_peny (with_log s' [])) with (z_peny s').
    change (r_scx (with_log s' [])) with (r_scx s'). change (r_scy (with_log s' [])) with (r_scy s').
    change (r_bx (with_log s' [])) with (r_bx s'). change (r_by (with_log s' [])) with (r_by s').
    cbv zeta. apply framed_arc_loop.
Qed.

Lemma framed_arc32 rel rx ry rot la sw x y : framed (fun s => arc32 s rel rx ry rot la sw x y).
Proof.
  unfold arc32. destruct rel; [|apply framed_abs_arc].
  intros s L. unfold relVX, relVY, relX, relY, unabsX, unabsY.
  change (z_penx (with_log s L)) with (z_penx s). change (z_peny (with_log s L)) with (z_peny s).
  change (r_scx (with_log s L)) with (r_scx s). change (r_scy (with_log s L)) with (r_scy s).
  change (r_bx (with_log s L)) with (r_bx s). change (r_by (with_log s L)) with (r_by s).
  change (z_penx (with_log s [])) with (z_penx s). change (z_peny (with_log s [])) with (z_peny s).
  change (r_scx (with_log s [])) with (r_scx s). change (r_scy (with_log s [])) with (r_scy s).
  change (r_bx (with_log s [])) with (r_bx s). change (r_by (with_log s [])) with (r_by s).
  apply framed_abs_arc.
Qed.

Theorem framed_rstep c : framed (fun s => rstep32 s c).
Proof.
  unfold rstep32, rstep. destruct c as [vb pal|v|v|adj incr col|adj incr x|l0 l1|adj x y|op a|rel rx ry rot la sw x y|].
  - apply framed_rreset.
  - intros s L. destruct s; cbn; rewrite app_nil_r; reflexivity.
  - intros s L. destruct s; cbn; rewrite app_nil_r; reflexivity.
  - intros s L. destruct s; cbn; rewrite app_nil_r; reflexivity.
  - intros s L. destruct s; cbn; rewrite app_nil_r; reflexivity.
  - intros s L. destruct s; cbn; rewrite app_nil_r; reflexivity.
  - apply framed_start_path.
  - apply framed_rdraw.
  - intros s L. change (r_disabled (with_log s L)) with (r_disabled s). change (r_disabled (with_log s [])) with (r_disabled s).
    destruct (r_disabled s); [rewrite with_log_twice; cbn; rewrite app_nil_r; reflexivity|apply framed_arc32].
  - apply framed_end_path.
Qed.

Theorem framed_rrun l : framed (fun s => rrun32 s l).
Proof.
  unfold rrun32. induction l as [|c r IH]; [apply framed_id|]. cbn [fold_left].
  apply (framed_comp (fun s => rstep32 s c) (fun s => fold_left rstep32 r s)); [apply framed_rstep|exact IH].
Qed.

(* ================= C17: nothing held before Reset matters after Reset ================= *)

(* the fields that survive a path boundary: everything except the per-path state and the log *)
Definition norm (s : S) : S :=
  mkR f32 (r_x0 s) (r_y0 s) (r_w s) (r_h s) (r_scx s) (r_bx s) (r_scy s) (r_by s) (r_vb s) (r_pal s)
      (r_lod0 s) (r_lod1 s) (r_csel s) (r_nsel s) false (r_pst s) (r_psx s) (r_psy s) (PFlat (mkRGBA 0 0 0 0))
      (r_creg s) (r_nreg s) 0 0 0 0 [].

Definition outside_eq (s s' : S) : Prop := norm s = norm s'.
Definition inside_eq (s s' : S) : Prop :=
  with_log s [] = with_log s' [] \/ (r_disabled s = true /\ r_disabled s' = true /\ norm s = norm s').

Definition delta (s : S) (c : call) : list (rcall f32) := r_log (rstep32 (with_log s []) c).

Lemma step_log s c : r_log (rstep32 s c) = r_log s ++ delta s c.
Proof.
  pose proof (framed_rstep c s (r_log s)) as F. cbn beta in F. rewrite with_log_id in F.
  rewrite F. reflexivity.
Qed.

Lemma step_nolog s c : with_log (rstep32 s c) [] = with_log (rstep32 (with_log s []) c) [].
Proof.
  pose proof (framed_rstep c s (r_log s)) as F. cbn beta in F. rewrite with_log_id in F.
  rewrite F, with_log_twice. reflexivity.
Qed.

Lemma norm_with_log s l : norm (with_log s l) = norm s.
Proof. destruct s; reflexivity. Qed.

Definition is_styling (c : call) : bool :=
  match c with
  | CReset _ _ | CSetCSel _ | CSetNSel _ | CSetCReg _ _ _ | CSetNReg _ _ _ | CSetLOD _ _ => true
  | _ => false
  end.

Ltac proj := cbn [r_x0 r_y0 r_w r_h r_scx r_bx r_scy r_by r_vb r_pal r_lod0 r_lod1 r_csel r_nsel r_disabled
                 r_pst r_psx r_psy r_paint r_creg r_nreg z_penx z_peny z_firstx z_firsty r_log].

Ltac proj_in H := cbn [r_x0 r_y0 r_w r_h r_scx r_bx r_scy r_by r_vb r_pal r_lod0 r_lod1 r_csel r_nsel r_disabled
                 r_pst r_psx r_psy r_paint r_creg r_nreg z_penx z_peny z_firstx z_firsty r_log] in H.

Lemma styling_outside s s' c : is_styling c = true -> outside_eq s s' ->
  outside_eq (rstep32 s c) (rstep32 s' c) /\ delta s c = [] /\ delta s' c = [].
Proof.
  unfold outside_eq, delta. intros St H.
  destruct s as [x0 y0 w h scx bx scy by_ vb pal l0 l1 cs ns dis pst psx psy pa creg nreg px py fx fy lg].
  destruct s' as [x0' y0' w' h' scx' bx' scy' by_' vb' pal' l0' l1' cs' ns' dis' pst' psx' psy' pa' creg' nreg' px' py' fx' fy' lg'].
  unfold norm in H. proj_in H. injection H; intros; subst.
  destruct c; try discriminate St; unfold rstep32, rstep, rreset, upd_regs, upd_lod, norm, with_log; proj;
    (split; [reflexivity|split; reflexivity]).
Qed.

Lemma start_path_rel s s' adj x y : outside_eq s s' ->
  inside_eq (rstep32 s (CStartPath adj x y)) (rstep32 s' (CStartPath adj x y)) /\
  delta s (CStartPath adj x y) = delta s' (CStartPath adj x y).
Proof.
  unfold outside_eq, inside_eq, delta. intros H.
  destruct s as [x0 y0 w h scx bx scy by_ vb pal l0 l1 cs ns dis pst psx psy pa creg nreg px py fx fy lg].
  destruct s' as [x0' y0' w' h' scx' bx' scy' by_' vb' pal' l0' l1' cs' ns' dis' pst' psx' psy' pa' creg' nreg' px' py' fx' fy' lg'].
  unfold norm in H. proj_in H. injection H; intros; subst.
  unfold rstep32, rstep, start_path. cbn [r_creg r_csel r_paint r_h r_lod0 r_lod1 with_log].
  set (flat := reg_at creg' (cs' - adj)).
  set (lodbad := negb (fle F32 l0' (of_Z F32 h') && flt F32 (of_Z F32 h') l1')).
  destruct (valid_premul flat).
  - destruct ((ca flat =? 0) || lodbad); cbn.
    + split; [right; repeat split; reflexivity|reflexivity].
    + split; [left; reflexivity|reflexivity].
  - destruct (valid_gradient flat).
    + unfold init_gradient. cbn [r_creg r_nreg r_scx r_bx r_scy r_by with_log].
      destruct (grad_stops _ _ _ _ _ _ _) as [stops|]; [destruct (length stops <? 2)%nat|];
        cbn [fst snd orb]; destruct lodbad; cbn;
        (split; [first [left; reflexivity|right; repeat split; reflexivity]|reflexivity]).
    + cbn. split; [right; repeat split; reflexivity|reflexivity].
Qed.

Definition is_drawing (c : call) : bool :=
  match c with CDraw _ _ | CArc _ _ _ _ _ _ _ _ => true | _ => false end.

Lemma disabled_draw s c : is_drawing c = true -> r_disabled s = true -> rstep32 s c = s.
Proof.
  intros D Dis. destruct c; try discriminate D; unfold rstep32, rstep; cbn beta iota.
  - unfold rdraw. rewrite Dis. reflexivity.
  - rewrite Dis. reflexivity.
Qed.

Lemma with_log_eq_step s s' c : with_log s [] = with_log s' [] ->
  with_log (rstep32 s c) [] = with_log (rstep32 s' c) [] /\ delta s c = delta s' c.
Proof. intros H. rewrite (step_nolog s c), (step_nolog s' c). unfold delta. rewrite H. split; reflexivity. Qed.

Lemma drawing_inside s s' c : is_drawing c = true -> inside_eq s s' ->
  inside_eq (rstep32 s c) (rstep32 s' c) /\ delta s c = delta s' c.
Proof.
  intros D [H|(D1 & D2 & H)].
  - destruct (with_log_eq_step s s' c H) as [A B]. split; [left; exact A|exact B].
  - rewrite (disabled_draw s c D D1), (disabled_draw s' c D D2). split; [right; auto|].
    unfold delta. rewrite !disabled_draw; try assumption; destruct s, s'; assumption || reflexivity.
Qed.

Lemma end_path_rel s s' : inside_eq s s' ->
  outside_eq (rstep32 s CEndPath) (rstep32 s' CEndPath) /\ delta s CEndPath = delta s' CEndPath.
Proof.
  intros [H|(D1 & D2 & H)].
  - destruct (with_log_eq_step s s' CEndPath H) as [A B]. split; [|exact B].
    unfold outside_eq. rewrite <- (norm_with_log (rstep32 s CEndPath) []), <- (norm_with_log (rstep32 s' CEndPath) []), A. reflexivity.
  - unfold rstep32, rstep, end_path, delta. cbn beta iota.
    unfold rstep32, rstep, end_path. cbn [r_disabled with_log]. rewrite D1, D2. split; [exact H|].
    destruct s, s'; reflexivity.
Qed.

(* well-formed programs: styling ops outside paths, drawing ops inside, every path ended *)
Fixpoint wf_prog (inpath : bool) (l : list call) : bool :=
  match l with
  | [] => negb inpath
  | c :: r =>
      if inpath then
        (if is_drawing c then wf_prog true r else match c with CEndPath => wf_prog false r | _ => false end)
      else
        (if is_styling c then wf_prog false r else match c with CStartPath _ _ _ => wf_prog true r | _ => false end)
  end.

Definition rel (inpath : bool) := if inpath then inside_eq else outside_eq.

Lemma run_rel l : forall inpath s s', wf_prog inpath l = true -> rel inpath s s' ->
  exists d, r_log (rrun32 s l) = r_log s ++ d /\ r_log (rrun32 s' l) = r_log s' ++ d /\
            outside_eq (rrun32 s l) (rrun32 s' l).
Proof.
  induction l as [|c r IH]; intros inpath s s' W R.
  - destruct inpath; [discriminate|]. exists []. cbn. rewrite !app_nil_r. auto.
  - unfold rrun32 in *. cbn [fold_left]. cbn [wf_prog] in W. destruct inpath.
    + destruct (is_drawing c) eqn:D.
      * destruct (drawing_inside s s' c D R) as [R' Dl].
        destruct (IH true _ _ W R') as (d & L1 & L2 & O). exists (delta s c ++ d).
        rewrite L1, L2, !step_log, Dl, <- !app_assoc. auto.
      * destruct c; try discriminate W.
        destruct (end_path_rel s s' R) as [R' Dl].
        destruct (IH false _ _ W R') as (d & L1 & L2 & O). exists (delta s CEndPath ++ d).
        rewrite L1, L2, !step_log, Dl, <- !app_assoc. auto.
    + destruct (is_styling c) eqn:St.
      * destruct (styling_outside s s' c St R) as (R' & D1 & D2).
        destruct (IH false _ _ W R') as (d & L1 & L2 & O). exists d.
        rewrite L1, L2, !step_log, D1, D2, !app_nil_r. auto.
      * destruct c; try discriminate W.
        destruct (start_path_rel s s' adj x y R) as [R' Dl].
        destruct (IH true _ _ W R') as (d & L1 & L2 & O). exists (delta s (CStartPath adj x y) ++ d).
        rewrite L1, L2, !step_log, Dl, <- !app_assoc. auto.
Qed.

Lemma reset_outside s s' vb pal :
  r_x0 s = r_x0 s' -> r_y0 s = r_y0 s' -> r_w s = r_w s' -> r_h s = r_h s' ->
  outside_eq (rstep32 s (CReset vb pal)) (rstep32 s' (CReset vb pal)).
Proof.
  intros. destruct s, s'. cbn in *. subst. reflexivity.
Qed.

(* a Renderer (and its rasteriser) reused for another decode behaves as a fresh one: whatever the
   earlier history left behind, after Reset a well-formed program produces the same rasteriser calls *)
Theorem renderer_reset_fresh s s' vb pal B :
  r_x0 s = r_x0 s' -> r_y0 s = r_y0 s' -> r_w s = r_w s' -> r_h s = r_h s' ->
  wf_prog false B = true ->
  exists d, r_log (rrun32 s (CReset vb pal :: B)) = r_log s ++ d /\
            r_log (rrun32 s' (CReset vb pal :: B)) = r_log s' ++ d.
Proof.
  intros E1 E2 E3 E4 W. unfold rrun32. cbn [fold_left].
  pose proof (reset_outside s s' vb pal E1 E2 E3 E4) as R.
  destruct (run_rel B false _ _ W R) as (d & L1 & L2 & _). exists d.
  unfold rrun32 in L1, L2. rewrite L1, L2. split; f_equal; destruct s; reflexivity || (destruct s'; reflexivity).
Qed.

(* the same after re-targeting: SetRasterizer on a used Renderer, then Reset and a program, emits what a fresh
   Renderer given that rectangle emits *)
Theorem renderer_retarget_fresh s x0 y0 w h vb pal B :
  wf_prog false B = true ->
  exists d, r_log (rrun32 (set_rasterizer N32 s x0 y0 w h) (CReset vb pal :: B)) = r_log s ++ d /\
            r_log (rrun32 (rinit N32 x0 y0 w h) (CReset vb pal :: B)) = d.
Proof.
  intros W.
  destruct (renderer_reset_fresh (set_rasterizer N32 s x0 y0 w h) (rinit N32 x0 y0 w h) vb pal B) as (d & L1 & L2).
  1-4: unfold set_rasterizer, rinit; destruct ((w <=? 0) || (h <=? 0)); reflexivity.
  - exact W.
  - exists d. split.
    + rewrite L1. f_equal. unfold set_rasterizer. destruct ((w <=? 0) || (h <=? 0)); reflexivity.
    + rewrite L2. unfold rinit. destruct ((w <=? 0) || (h <=? 0)); reflexivity.
Qed.

(* ================= C16 (call level): the target rectangle's origin only appears in Draw ================= *)

Definition move_to (s : S) (x0 y0 : Z) : S :=
  mkR f32 x0 y0 (r_w s) (r_h s) (r_scx s) (r_bx s) (r_scy s) (r_by s) (r_vb s) (r_pal s)
      (r_lod0 s) (r_lod1 s) (r_csel s) (r_nsel s) (r_disabled s) (r_pst s) (r_psx s) (r_psy s) (r_paint s)
      (r_creg s) (r_nreg s) (z_penx s) (z_peny s) (z_firstx s) (z_firsty s) (r_log s).

(* one renderer step commutes with moving the rectangle, except that a Draw it appends has the moved rectangle *)
Definition shift_call (dx dy : Z) (c : rcall f32) : rcall f32 :=
  match c with
  | RDraw a b c' d p => RDraw (a + dx) (b + dy) (c' + dx) (d + dy) p
  | other => other
  end.

Definition shifted (dx dy : Z) (s : S) : S :=
  with_log (move_to s (r_x0 s + dx) (r_y0 s + dy)) (map (shift_call dx dy) (r_log s)).

Definition commutes_shift (f : S -> S) : Prop := forall dx dy s, f (shifted dx dy s) = shifted dx dy (f s).

Lemma shift_comp f g : commutes_shift f -> commutes_shift g -> commutes_shift (fun s => g (f s)).
Proof. intros Hf Hg dx dy s. cbn beta. rewrite Hf, Hg. reflexivity. Qed.

Lemma shift_emit_keep (c : S -> rcall f32) :
  (forall dx dy s, c (shifted dx dy s) = c s) -> (forall s a b c' d p, c s <> RDraw a b c' d p) ->
  commutes_shift (fun s => emit_keep N32 s (c s)).
Proof.
  intros H ND dx dy s. rewrite H. destruct s. unfold shifted, emit_keep, emit, move_to, with_log. proj.
  destruct (c _) eqn:E; try (cbn; rewrite map_app; reflexivity).
  exfalso. eapply ND. exact E.
Qed.

Lemma shift_arc_segment cx cy t1 t2 rx ry cp sp : commutes_shift (fun s => arc_segment s cx cy t1 t2 rx ry cp sp).
Proof.
  unfold arc_segment. apply shift_emit_keep.
  - intros dx dy s. destruct s. reflexivity.
  - intros s a b c d p. discriminate.
Qed.

Lemma shift_arc_loop k : forall i n cx cy t1 dt rx ry cp sp,
  commutes_shift (fun s => arc_loop k i n s cx cy t1 dt rx ry cp sp).
Proof.
  induction k as [|k IH]; intros i n cx cy t1 dt rx ry cp sp; cbn [arc_loop].
  - intros dx dy s. reflexivity.
  - apply (shift_comp (fun s => arc_segment s cx cy _ _ rx ry cp sp)
                      (fun s => arc_loop k (i + 1) n s cx cy t1 dt rx ry cp sp)).
    + apply shift_arc_segment.
    + apply IH.
Qed.

Lemma shift_set_pst_none : commutes_shift set_pst_none.
Proof. intros dx dy s. destruct s. reflexivity. Qed.

Lemma shift_abs_arc rx ry rot la sw x y : commutes_shift (fun s => abs_arc s rx ry rot la sw x y).
Proof.
  intros dx dy s. unfold abs_arc. rewrite shift_set_pst_none. set (s' := set_pst_none s).
  destruct (negb (fgt F64 (dabs (to64 rx)) d0 && fgt F64 (dabs (to64 ry)) d0)).
  - apply (shift_emit_keep (fun s => RLineTo (absX N32 s x) (absY N32 s y))).
    + intros dx0 dy0 s0. destruct s0; reflexivity.
    + intros s0 a b c d p. discriminate.
  - unfold unabsX, unabsY.
    change (z_penx (shifted dx dy s')) with (z_penx s'). change (z_peny (shifted dx dy s')) with (z_peny s').
    change (r_scx (shifted dx dy s')) with (r_scx s'). change (r_scy (shifted dx dy s')) with (r_scy s').
    change (r_bx (shifted dx dy s')) with (r_bx s'). change (r_by (shifted dx dy s')) with (r_by s').
    cbv zeta. apply shift_arc_loop.
Qed.

Lemma shift_arc32 rel rx ry rot la sw x y : commutes_shift (fun s => arc32 s rel rx ry rot la sw x y).
Proof.
  unfold arc32. destruct rel; [|apply shift_abs_arc].
  intros dx dy s. unfold relVX, relVY, relX, relY, unabsX, unabsY.
  change (z_penx (shifted dx dy s)) with (z_penx s). change (z_peny (shifted dx dy s)) with (z_peny s).
  change (r_scx (shifted dx dy s)) with (r_scx s). change (r_scy (shifted dx dy s)) with (r_scy s).
  change (r_bx (shifted dx dy s)) with (r_bx s). change (r_by (shifted dx dy s)) with (r_by s).
  apply shift_abs_arc.
Qed.

Lemma shift_rdraw op a : commutes_shift (fun s => rdraw N32 s op a).
Proof.
  intros dx dy s. destruct s as [x0 y0 w h scx bx scy by_ vb pal l0 l1 cs ns dis pst psx psy pa creg nreg px py fx fy lg].
  unfold rdraw, shifted, move_to, with_log. proj.
  destruct dis; [reflexivity|].
  repeat match goal with
         | |- context [if ?c then _ else _] => destruct c
         end; try (cbn; rewrite ?map_app; reflexivity).
  all: unfold smooth_pt; proj;
    match goal with |- context [negb (?p =? ?k)] => destruct (negb (p =? k)) end; cbn; rewrite ?map_app; reflexivity.
Qed.

Lemma shift_start_path adj x y : commutes_shift (fun s => start_path N32 s adj x y).
Proof.
  intros dx dy s. destruct s as [x0 y0 w h scx bx scy by_ vb pal l0 l1 cs ns dis pst psx psy pa creg nreg px py fx fy lg].
  unfold start_path, shifted, move_to, with_log. proj.
  set (flat := reg_at creg (cs - adj)).
  destruct (valid_premul flat).
  - destruct ((ca flat =? 0) || negb (fle F32 l0 (of_Z F32 h) && flt F32 (of_Z F32 h) l1)); cbn; rewrite ?map_app; reflexivity.
  - destruct (valid_gradient flat).
    + unfold init_gradient. proj.
      destruct (grad_stops _ _ _ _ _ _ _) as [stops|]; [destruct (length stops <? 2)%nat|];
        cbn [fst snd orb]; destruct (negb (fle F32 l0 (of_Z F32 h) && flt F32 (of_Z F32 h) l1));
        cbn; rewrite ?map_app; reflexivity.
    + cbn. reflexivity.
Qed.

Lemma shift_end_path : commutes_shift (fun s => end_path N32 s).
Proof.
  intros dx dy s. destruct s as [x0 y0 w h scx bx scy by_ vb pal l0 l1 cs ns dis pst psx psy pa creg nreg px py fx fy lg].
  unfold end_path, shifted, move_to, with_log. proj. destruct dis; [reflexivity|].
  cbn. rewrite !map_app. cbn. do 3 f_equal. f_equal; lia.
Qed.

Theorem shift_rstep c : commutes_shift (fun s => rstep32 s c).
Proof.
  unfold rstep32, rstep. destruct c as [vb pal|v|v|adj incr col|adj incr x|l0 l1|adj x y|op a|rel rx ry rot la sw x y|].
  - intros dx dy s. destruct s; reflexivity.
  - intros dx dy s. destruct s; reflexivity.
  - intros dx dy s. destruct s; reflexivity.
  - intros dx dy s. destruct s; reflexivity.
  - intros dx dy s. destruct s; reflexivity.
  - intros dx dy s. destruct s; reflexivity.
  - apply shift_start_path.
  - apply shift_rdraw.
  - intros dx dy s. change (r_disabled (shifted dx dy s)) with (r_disabled s).
    destruct (r_disabled s); [reflexivity|apply shift_arc32].
  - apply shift_end_path.
Qed.

(* rendering into a rectangle at any offset: the same rasteriser calls, only the Draw rectangles move *)
Theorem offset_invariance l : forall dx dy s,
  rrun32 (shifted dx dy s) l = shifted dx dy (rrun32 s l).
Proof.
  unfold rrun32. induction l as [|c r IH]; intros dx dy s; [reflexivity|].
  cbn [fold_left]. rewrite (shift_rstep c dx dy s). apply IH.
Qed.

(* RoundTrip.v — encoding a well-formed call sequence and decoding the bytes gives the calls back,
   every number replaced by what its written form denotes (C01). *)
From Coq Require Import ZArith Bool List Lia ZifyBool.
From IVG Require Import SF SFProofs NumCodec Color Calls Decoder Encoder NumBase NumProofs ColorProofs DecProofs EncProofs.
Import ListNotations.
Local Open Scope Z_scope.
Ltac Zify.zify_post_hook ::= Z.div_mod_to_equations.
Local Opaque Z.mul Z.add Z.div Z.modulo Z.pow.

(* ---------- what a number becomes when written and read back ---------- *)
Definition q_real (f : f32) : f32 :=
  match real_short f with Some u => of_Z F32 u | None => round4_val f end.
Definition q_coord (f : f32) : f32 :=
  match coord_short1 f with
  | Some i => of_Z F32 i
  | None => match coord_short2 f with
            | Some i => fdiv F32 (of_Z F32 i) c64
            | None => round4_val f
            end
  end.
Definition q_zto (f : f32) : f32 :=
  match zto_short f with
  | Some u => if u mod 126 =? 0 then fdiv F32 (of_Z F32 (u / 126)) c120 else fdiv F32 (of_Z F32 u) c15120
  | None => round4_val f
  end.
Definition q_angle (f : f32) : f32 := q_zto (angle_norm f).
Definition q_nreg (f : f32) : f32 :=
  let op := fst (nreg_choice f) in
  if op =? 168 then q_real f else if op =? 176 then q_coord f else q_zto f.

Lemma dec_real_app f rest : wf_f32 f ->
  dec_real (enc_real f ++ rest) = Some (q_real f, length (enc_real f)).
Proof.
  intros W. unfold q_real. destruct (real_short f) as [u|] eqn:S.
  - destruct (real_exact f u rest W S) as (_ & D & _). exact D.
  - unfold enc_real. rewrite S. rewrite (dec_real4 f rest W). rewrite enc_real4_len. reflexivity.
Qed.

Lemma dec_coord_app f rest : wf_f32 f ->
  dec_coordinate (enc_coordinate f ++ rest) = Some (q_coord f, length (enc_coordinate f)).
Proof.
  intros W. unfold q_coord. destruct (coord_short1 f) as [i|] eqn:S1.
  - destruct (coord_exact1 f i rest W S1) as (E & D & _). rewrite D, E. reflexivity.
  - destruct (coord_short2 f) as [i|] eqn:S2.
    + destruct (coord_exact2 f i rest W S1 S2) as (E & D & _). rewrite D, E. reflexivity.
    + unfold enc_coordinate. rewrite S1, S2, (dec_coordinate_4 f rest W), enc_real4_len. reflexivity.
Qed.

Lemma dec_zto_4 b rest : wf_f32 b ->
  dec_zero_to_one (enc_real4 b ++ rest) = Some (round4_val b, 4%nat).
Proof.
  intros W. pose proof (dec_real4 b rest W) as D. unfold dec_real in D. unfold dec_zero_to_one.
  destruct (dec_natural (enc_real4 b ++ rest)) as [[u n]|]; [|discriminate].
  destruct n as [|[|[|[|[|n]]]]]; try (injection D as D1 D2; discriminate).
  exact D.
Qed.

Lemma dec_zto_app f rest : wf_f32 f ->
  dec_zero_to_one (enc_zero_to_one f ++ rest) = Some (q_zto f, length (enc_zero_to_one f)).
Proof.
  intros W. unfold q_zto. pose proof (zto_form f) as F. unfold enc_zero_to_one in *.
  destruct (zto_short f) as [u|] eqn:S.
  - destruct F as (R & F1 & F2). destruct (dec_zero_to_one_forms u rest R) as [D1 D2].
    destruct (u mod 126 =? 0) eqn:E.
    + apply D1. lia.
    + exact D2.
  - rewrite (dec_zto_4 f rest W), enc_real4_len. reflexivity.
Qed.

Lemma nreg_app f rest : wf_f32 f ->
  let '(base, bytes) := nreg_choice f in
  (base = 168 \/ base = 176 \/ base = 184) /\
  (if (base - 168) / 8 =? 0 then dec_real else if (base - 168) / 8 =? 1 then dec_coordinate else dec_zero_to_one)
    (bytes ++ rest) = Some (q_nreg f, length bytes).
Proof.
  intros W. pose proof (nreg_shortest f) as H. cbv zeta in H. unfold q_nreg.
  destruct (nreg_choice f) as [base bytes]. cbn [fst snd] in *.
  destruct H as (_ & [(-> & -> & _)|[(-> & -> & _)|(-> & -> & _)]]).
  - split; [auto|]. apply dec_real_app, W.
  - split; [auto|]. apply dec_coord_app, W.
  - split; [auto|]. apply dec_zto_app, W.
Qed.

(* ---------- running the decoder on instruction bytes, fuel-free ---------- *)
Lemma step_shrinks (d : bool) opcode rest its d' b' :
  (if d then drawing_step else styling_step) opcode rest = (its, StepOk d' b') -> (length b' <= length rest)%nat.
Proof.
  intros E.
  assert (St : pref (opcode :: rest) its (step_rest (StepOk d' b')) /\ (ncalls its <= length (lbytes its))%nat /\ head_is_opcode opcode its (StepOk d' b')).
  { destruct d; [apply drawing_step_pref|apply styling_step_pref]; exact E. }
  destruct St as (P & _ & Hd). cbn in P. destruct Hd as (p & tl & ->). rewrite lbytes_line in P. cbn [app] in P.
  injection P as P. apply (f_equal (@length byte)) in P. rewrite app_length in P. lia.
Qed.

Lemma dec_ops_fuel f1 : forall f2 d b, (length b <= f1)%nat -> (length b <= f2)%nat -> dec_ops f1 d b = dec_ops f2 d b.
Proof.
  induction f1 as [|f1 IH]; intros f2 d b L1 L2; destruct b as [|opcode rest].
  - destruct f2; reflexivity.
  - cbn in L1. lia.
  - destruct f2; reflexivity.
  - destruct f2 as [|f2]; [cbn in L2; lia|]. cbn [dec_ops].
    destruct ((if d then drawing_step else styling_step) opcode rest) as [its r] eqn:E.
    destruct r as [e|d' b']; [reflexivity|].
    pose proof (step_shrinks d opcode rest its d' b' E) as Sh. cbn [length] in L1, L2.
    rewrite (IH f2 d' b') by lia. reflexivity.
Qed.

Definition run (d : bool) (b : list byte) : list call * outcome :=
  let '(its, o) := dec_ops (length b) d b in (calls_of its, o).

Lemma run_nil d : run d [] = ([], Done).
Proof. reflexivity. Qed.

Lemma run_step (d : bool) opcode rest its d' b' :
  (if d then drawing_step else styling_step) opcode rest = (its, StepOk d' b') ->
  run d (opcode :: rest) = let '(cs, o) := run d' b' in (calls_of its ++ cs, o).
Proof.
  intros E. unfold run. cbn [length dec_ops]. rewrite E.
  pose proof (step_shrinks d opcode rest its d' b' E) as Sh.
  rewrite (dec_ops_fuel (length rest) (length b') d' b' Sh (le_n _)).
  destruct (dec_ops (length b') d' b') as [its' o]. cbv beta iota zeta. f_equal. apply calls_of_app.
Qed.

(* ---------- coordinates in a row ---------- *)
Definition encs (ys : list f32) : list byte := flat_map enc_coordinate ys.

Lemma read_coords_app ys : forall rest, Forall wf_f32 ys ->
  exists its, read_coords (length ys) (encs ys ++ rest) = (its, Some (map q_coord ys, rest)) /\ calls_of its = [].
Proof.
  induction ys as [|y ys IH]; intros rest W.
  - exists []. split; reflexivity.
  - inversion W as [|? ? Wy Wys]; subst. cbn [length encs flat_map read_coords]. fold (encs ys).
    rewrite <- app_assoc. unfold read_num. rewrite (dec_coord_app y _ Wy).
    rewrite skipn_app, skipn_all, Nat.sub_diag. cbn [skipn app].
    destruct (IH rest Wys) as (its & E & C). rewrite E.
    eexists. split; [reflexivity|]. unfold calls_of in *. cbn [flat_map app]. exact C.
Qed.

(* ---------- the decoded image of a call ---------- *)
Definition qc (hl : bool) (f : f32) : f32 := q_coord (quantize hl f).
Definition qvb (v : viewbox) : viewbox := mkVB (q_coord (vminx v)) (q_coord (vminy v)) (q_coord (vmaxx v)) (q_coord (vmaxy v)).

Definition qcall (hl : bool) (c : call) : call :=
  match c with
  | CReset vb pal => CReset (qvb vb) pal
  | CSetCSel s => CSetCSel (s mod 64)
  | CSetNSel s => CSetNSel (s mod 64)
  | CSetCReg adj incr col => CSetCReg adj incr col
  | CSetNReg adj incr f => CSetNReg adj incr (q_nreg f)
  | CSetLOD a b => CSetLOD (q_real a) (q_real b)
  | CStartPath adj x y => CStartPath adj (qc hl x) (qc hl y)
  | CDraw op args => CDraw op (map (qc hl) args)
  | CArc rel rx ry rot la sw x y => CArc rel (qc hl rx) (qc hl ry) (q_angle rot) la sw (qc hl x) (qc hl y)
  | CEndPath => CEndPath
  end.

Lemma wf_quantize h f : wf_f32 f -> wf_f32 (quantize h f).
Proof.
  intros W. unfold quantize. destruct (negb h && fle F32 cm128 f && flt F32 f c128) eqn:E; [|exact W].
  apply andb_true_iff in E as [E E3]. apply andb_true_iff in E as [E1 E2].
  pose proof (quantize_nearest f W E2 E3) as Q. cbv zeta in Q. destruct Q as (_ & _ & Wq & _).
  unfold quantize in Wq. rewrite E2, E3 in Wq. cbn in Wq. exact Wq.
Qed.

Lemma enc_coords_encs e l : enc_coords e l = encs (map (quant e) l).
Proof. induction l as [|x l IH]; cbn [enc_coords map encs flat_map]; [reflexivity|]. rewrite IH. reflexivity. Qed.

(* the draw operations that are buffered into runs *)
Definition run_ops : list Z := [65; 67; 72; 76; 81; 83; 84; 86; 89; 97; 99; 104; 108; 113; 115; 116; 118; 121].
Definition nargs_of (op : Z) : Z := snd (op_info op).

Definition wf_arc_or_draw (c : call) : Prop :=
  match c with
  | CDraw op args => In op run_ops /\ op <> opA /\ op <> opa /\
                     Z.of_nat (length args) = nargs_of op /\ Forall wf_f32 args
  | CArc _ rx ry rot _ _ x y => wf_f32 rx /\ wf_f32 ry /\ wf_f32 rot /\ wf_f32 x /\ wf_f32 y
  | _ => False
  end.

Definition op_of (c : call) : Z :=
  match c with
  | CDraw op _ => op
  | CArc rel _ _ _ _ _ _ _ => if rel then opa else opA
  | _ => 0
  end.
Definition flag_num (la sw : bool) : Z := (if la then 1 else 0) + (if sw then 2 else 0).
Definition args_of (c : call) : list f32 :=
  match c with
  | CDraw _ args => args
  | CArc _ rx ry rot la sw x y => [rx; ry; rot; of_Z F32 (flag_num la sw); x; y]
  | _ => []
  end.

(* the operand bytes of one repetition *)
Definition opbytes (e : enc) (c : call) : list byte :=
  match c with
  | CDraw _ args => enc_coords e args
  | CArc _ rx ry rot la sw x y =>
      enc_coordinate (quant e rx) ++ enc_coordinate (quant e ry) ++ enc_angle rot
      ++ enc_natural (flag_num la sw) ++ enc_coordinate (quant e x) ++ enc_coordinate (quant e y)
  | _ => []
  end.

Definition one_of (op : Z) (nc : nat) : list byte -> list item * option (list byte) :=
  if op =? opA then arc_rep false else if op =? opa then arc_rep true else draw_rep op nc.

Lemma flags_roundtrip la sw : flags_of (of_Z F32 (flag_num la sw)) = flag_num la sw.
Proof. destruct la, sw; vm_compute; reflexivity. Qed.

Lemma flag_bits la sw : negb (flag_num la sw mod 2 =? 0) = la /\ negb ((flag_num la sw / 2) mod 2 =? 0) = sw.
Proof. destruct la, sw; vm_compute; split; reflexivity. Qed.

Lemma wf_angle_norm f : wf_f32 (angle_norm f).
Proof. unfold angle_norm, wf_f32. apply f64_to_f32_range. Qed.

Lemma quant_wf e f : wf_f32 f -> wf_f32 (quant e f).
Proof. apply wf_quantize. Qed.

Lemma Forall_map_wf e l : Forall wf_f32 l -> Forall wf_f32 (map (quant e) l).
Proof. induction 1; cbn [map]; constructor; [apply quant_wf|]; assumption. Qed.

(* one repetition of a buffered operation decodes to the image of the call *)
Lemma one_rep e c rest : wf_arc_or_draw c ->
  exists its, one_of (op_of c) (Z.to_nat (nargs_of (op_of c))) (opbytes e c ++ rest) = (its, Some rest)
              /\ calls_of its = [qcall (e_hires_l e) c].
Proof.
  intros W. destruct c as [| | | | | | |op args|rel rx ry rot la sw x y|]; try contradiction.
  - cbn [wf_arc_or_draw op_of] in *. destruct W as (Hop & NA & Na & Hl & Wa).
    unfold one_of. apply Z.eqb_neq in NA, Na. rewrite NA, Na.
    cbn [opbytes]. rewrite enc_coords_encs. unfold draw_rep.
    destruct (read_coords_app (map (quant e) args) rest (Forall_map_wf e args Wa)) as (its & E & C).
    match type of E with read_coords ?n _ = _ =>
      replace (Z.to_nat (nargs_of op)) with n by (rewrite map_length; lia) end.
    rewrite E. eexists. split; [reflexivity|]. rewrite calls_of_app, C. cbn [calls_of flat_map app qcall].
    rewrite map_map. reflexivity.
  - cbn [wf_arc_or_draw op_of] in *. destruct W as (Wrx & Wry & Wrot & Wx & Wy).
    assert (Hone : one_of (if rel then opa else opA) (Z.to_nat (nargs_of (if rel then opa else opA))) = arc_rep rel)
      by (destruct rel; reflexivity).
    rewrite Hone. cbn [opbytes]. unfold arc_rep.
    destruct (read_coords_app [quant e rx; quant e ry]
               (enc_angle rot ++ enc_natural (flag_num la sw) ++ enc_coordinate (quant e x) ++ enc_coordinate (quant e y) ++ rest))
      as (its0 & E0 & C0); [repeat constructor; apply quant_wf; assumption|].
    cbn [length encs flat_map map] in E0. rewrite app_nil_r, <- !app_assoc in E0. rewrite <- !app_assoc. rewrite E0.
    unfold read_num, enc_angle. rewrite (dec_zto_app (angle_norm rot) _ (wf_angle_norm rot)).
    rewrite skipn_app, skipn_all, Nat.sub_diag. cbn [skipn app].
    assert (Hf : 0 <= flag_num la sw < 1073741824) by (unfold flag_num; destruct la, sw; lia).
    rewrite (nat_roundtrip (flag_num la sw) _ Hf).
    rewrite skipn_app, skipn_all, Nat.sub_diag. cbn [skipn app].
    destruct (read_coords_app [quant e x; quant e y] rest) as (its2 & E2 & C2); [repeat constructor; apply quant_wf; assumption|].
    cbn [length encs flat_map map] in E2. rewrite app_nil_r, <- !app_assoc in E2. rewrite E2.
    destruct (flag_bits la sw) as [B1 B2]. rewrite B1, B2.
    eexists. split; [reflexivity|].
    rewrite !calls_of_app, C0. cbn [calls_of flat_map app]. rewrite calls_of_app, C2. reflexivity.
Qed.

(* a run of repetitions *)
Definition is_pending (op : Z) (c : call) : Prop :=
  wf_arc_or_draw c /\ op_of c = op.

Lemma reps_chunk e op chunk : forall first rest, Forall (is_pending op) chunk ->
  exists its, reps first (length chunk) op (one_of op (Z.to_nat (nargs_of op))) (flat_map (opbytes e) chunk ++ rest) = (its, Some rest)
              /\ calls_of its = map (qcall (e_hires_l e)) chunk.
Proof.
  induction chunk as [|c chunk IH]; intros first rest P.
  - exists []. split; reflexivity.
  - inversion P as [|? ? Pc Pr]; subst. destruct Pc as (W & Eop).
    cbn [length flat_map reps]. rewrite <- app_assoc.
    destruct (one_rep e c (flat_map (opbytes e) chunk ++ rest) W) as (its1 & E1 & C1).
    rewrite Eop in E1. rewrite E1.
    destruct (IH false rest Pr) as (its2 & E2 & C2). rewrite E2.
    eexists. split; [reflexivity|].
    rewrite !calls_of_app, C1, C2. destruct first; reflexivity.
Qed.

(* the header byte of a run: which operation, how many coordinates, how many repetitions *)
Definition hdr (opcode : Z) : Z * nat * Z :=
  let hi := opcode / 16 in
  if hi <? 2 then (opL, 2%nat, 1 + opcode mod 32)
  else if hi <? 4 then (opl, 2%nat, 1 + opcode mod 32)
  else if hi =? 4 then (opT, 2%nat, 1 + opcode mod 16)
  else if hi =? 5 then (opt, 2%nat, 1 + opcode mod 16)
  else if hi =? 6 then (opQ, 4%nat, 1 + opcode mod 16)
  else if hi =? 7 then (opq, 4%nat, 1 + opcode mod 16)
  else if hi =? 8 then (opS, 4%nat, 1 + opcode mod 16)
  else if hi =? 9 then (ops, 4%nat, 1 + opcode mod 16)
  else if hi =? 10 then (opC, 6%nat, 1 + opcode mod 16)
  else if hi =? 11 then (opc, 6%nat, 1 + opcode mod 16)
  else if hi =? 12 then (opA, 0%nat, 1 + opcode mod 16)
  else (opa, 0%nat, 1 + opcode mod 16).

Lemma drawing_step_hdr opcode b : opcode <? 224 = true ->
  drawing_step opcode b =
  let '(op, ncoords, nreps) := hdr opcode in
  match reps true (Z.to_nat nreps) op (one_of op ncoords) b with
  | (its, Some b') => (ILine [opcode] (PDrawOp op nreps) :: its, StepOk true b')
  | (its, None) => (ILine [opcode] (PDrawOp op nreps) :: its, StepErr EInvalidNumber)
  end.
Proof. intros H. unfold drawing_step, draw_group, hdr, one_of. rewrite H. reflexivity. Qed.

(* every run header the encoder can write decodes to its operation and count: finite sweep over the table *)
Definition hdr_row_ok (row : Z * (Z * Z * Z)) : bool :=
  let '(v, (base, maxrep, nargs)) := row in
  if base <? 224 then
    forallb (fun m => let '(op, nc, nreps) := hdr (base + m - 1) in
                      (op =? v) && (nreps =? m) && (base + m - 1 <? 224) && (0 <=? base + m - 1) &&
                      ((v =? opA) || (v =? opa) || (Z.of_nat nc =? nargs)))
            (map Z.of_nat (seq 1 (Z.to_nat maxrep)))
  else true.
Lemma hdr_sweep : forallb hdr_row_ok draw_ops = true.
Proof. vm_compute. reflexivity. Qed.

Lemma lookup_in t : forall op v, lookup_op t op = v -> v <> (0, 0, 0) -> In (op, v) t.
Proof.
  induction t as [|[k w] t IH]; intros op v E N; cbn [lookup_op] in E; [congruence|].
  destruct (k =? op) eqn:K.
  - apply Z.eqb_eq in K. subst. left. reflexivity.
  - right. apply IH; assumption.
Qed.

Lemma hdr_lookup v base maxrep nargs m : In (v, (base, maxrep, nargs)) draw_ops -> base <? 224 = true ->
  1 <= m <= maxrep ->
  exists nc, hdr (base + m - 1) = (v, nc, m) /\ (base + m - 1 <? 224) = true /\ 0 <= base + m - 1 /\
             (v = opA \/ v = opa \/ Z.of_nat nc = nargs).
Proof.
  intros I B M. pose proof hdr_sweep as S. rewrite forallb_forall in S. specialize (S _ I).
  unfold hdr_row_ok in S. rewrite B in S. rewrite forallb_forall in S.
  assert (Im : In m (map Z.of_nat (seq 1 (Z.to_nat maxrep)))).
  { apply in_map_iff. exists (Z.to_nat m). split; [lia|]. apply in_seq. lia. }
  specialize (S m Im). destruct (hdr (base + m - 1)) as [[op nc] nreps].
  exists nc. repeat (apply andb_true_iff in S; destruct S as [S ?]).
  assert (op = v) as -> by lia. assert (nreps = m) as -> by lia.
  split; [reflexivity|]. split; [assumption|]. split; [lia|].
  repeat match goal with H : _ || _ = true |- _ => apply orb_true_iff in H; destruct H as [H|H] end; [left|right; left|right; right]; lia.
Qed.

Lemma simple_step code op nc b :
  In (code, op, nc) [(226, opY, 2%nat); (227, opy, 2%nat); (230, opH, 1%nat); (231, oph, 1%nat); (232, opV, 1%nat); (233, opv, 1%nat)] ->
  drawing_step code b =
  match draw_rep op nc b with
  | (its, Some b') => (ILine [code] (PSimple op) :: its, StepOk true b')
  | (its, None) => (ILine [code] (PSimple op) :: its, StepErr EInvalidNumber)
  end.
Proof.
  intros I. repeat (destruct I as [I|I]; [injection I as <- <- <-; reflexivity|]). destruct I.
Qed.

Lemma run_ops_info op : In op run_ops -> op_info op <> (0, 0, 0) /\ op <> opZ.
Proof.
  intros I. repeat (destruct I as [<-|I]; [split; vm_compute; congruence|]). destruct I.
Qed.

(* one chunk of a run: header byte and the operands of its repetitions *)
Lemma chunk_decode e op base maxrep nargs chunk rest :
  In op run_ops -> op_info op = (base, maxrep, nargs) ->
  (1 <= length chunk)%nat -> Z.of_nat (length chunk) <= maxrep -> Forall (is_pending op) chunk ->
  exists its, drawing_step (base + Z.of_nat (length chunk) - 1) (flat_map (opbytes e) chunk ++ rest) = (its, StepOk true rest)
              /\ calls_of its = map (qcall (e_hires_l e)) chunk.
Proof.
  intros Iop Info L1 L2 P.
  destruct (run_ops_info op Iop) as (Nz & _).
  rewrite Info in Nz. pose proof (lookup_in draw_ops op _ Info Nz) as Irow.
  assert (Hna : nargs_of op = nargs) by (unfold nargs_of; rewrite Info; reflexivity).
  destruct (base <? 224) eqn:B.
  - destruct (hdr_lookup op base maxrep nargs (Z.of_nat (length chunk)) Irow B ltac:(lia)) as (nc & Hh & Hlt & Hge & Hnc).
    rewrite (drawing_step_hdr _ _ Hlt), Hh. rewrite Nat2Z.id.
    assert (Hone : one_of op nc = one_of op (Z.to_nat (nargs_of op))).
    { destruct Hnc as [->|[->|Hnc]]; [reflexivity|reflexivity|]. rewrite Hna, <- Hnc, Nat2Z.id. reflexivity. }
    rewrite Hone.
    destruct (reps_chunk e op chunk true rest P) as (its & E & C). rewrite E.
    eexists. split; [reflexivity|]. exact C.
  - (* H h V v *)
    assert (Hcases : In (base, op, Z.to_nat nargs) [(226, opY, 2%nat); (227, opy, 2%nat); (230, opH, 1%nat); (231, oph, 1%nat); (232, opV, 1%nat); (233, opv, 1%nat)] /\ maxrep = 1).
    { clear - Iop Info B. unfold op_info in Info.
      repeat (destruct Iop as [<-|Iop]; [vm_compute in Info; injection Info as <- <- <-;
               first [vm_compute in B; discriminate B | split; [vm_compute; tauto|reflexivity]]|]). destruct Iop. }
    destruct Hcases as [Hc ->].
    assert (Hlen : length chunk = 1%nat) by lia.
    destruct chunk as [|c [|? ?]]; try (cbn in Hlen; lia). clear Hlen.
    cbn [length Z.of_nat Pos.of_succ_nat]. replace (base + 1 - 1) with base by lia.
    rewrite (simple_step base op (Z.to_nat nargs)); [|exact Hc].
    destruct (Forall_inv P) as (W & Eop).
    destruct (one_rep e c rest W) as (its1 & E1 & C1).
    rewrite Eop in E1. cbn [flat_map]. rewrite app_nil_r.
    assert (Hone : one_of op (Z.to_nat (nargs_of op)) = draw_rep op (Z.to_nat nargs)).
    { rewrite Hna. clear - Hc. repeat (destruct Hc as [Hc|Hc]; [injection Hc as <- <- _; reflexivity|]). destruct Hc. }
    rewrite Hone in E1. rewrite E1.
    eexists. split; [reflexivity|]. cbn [calls_of flat_map map app] in *. exact C1.
Qed.

Definition pre (cs : list call) (r : list call * outcome) : list call * outcome := (cs ++ fst r, snd r).
Lemma pre_nil r : pre [] r = r. Proof. destruct r; reflexivity. Qed.
Lemma pre_app a b r : pre (a ++ b) r = pre a (pre b r).
Proof. unfold pre. cbn [fst snd]. rewrite app_assoc. reflexivity. Qed.

Lemma run_step_pre (d : bool) opcode rest its d' b' :
  (if d then drawing_step else styling_step) opcode rest = (its, StepOk d' b') ->
  run d (opcode :: rest) = pre (calls_of its) (run d' b').
Proof. intros E. rewrite (run_step d opcode rest its d' b' E). destruct (run d' b'). reflexivity. Qed.

Lemma flat_firstn_skipn {A B} (f : A -> list B) (n : nat) : forall (k : nat) (l : list A),
  Forall (fun x => length (f x) = n) l ->
  firstn (k * n) (flat_map f l) = flat_map f (firstn k l) /\ skipn (k * n) (flat_map f l) = flat_map f (skipn k l).
Proof.
  induction k as [|k IH]; intros l F; [split; reflexivity|].
  destruct l as [|x l]; [split; cbn; rewrite ?firstn_nil, ?skipn_nil; reflexivity|].
  pose proof (Forall_inv F) as Fx. pose proof (Forall_inv_tail F) as Fl. cbv beta in Fx. destruct (IH l Fl) as [I1 I2].
  cbn [flat_map firstn skipn Nat.mul].
  rewrite firstn_app, skipn_app. rewrite <- Fx.
  rewrite (firstn_all2 (n := length (f x) + k * length (f x))) by lia.
  rewrite (skipn_all2 (n := length (f x) + k * length (f x))) by lia.
  replace (length (f x) + k * length (f x) - length (f x))%nat with (k * length (f x))%nat by lia.
  rewrite Fx, I1, I2. split; reflexivity.
Qed.

Lemma enc_coords_app e a b : enc_coords e (a ++ b) = enc_coords e a ++ enc_coords e b.
Proof. induction a as [|x a IH]; cbn [enc_coords app]; [reflexivity|]. rewrite IH, app_assoc. reflexivity. Qed.

Definition is_arc_op (op : Z) : bool := (op =? opA) || (op =? opa).

Lemma pending_nonarc op c : is_pending op c -> is_arc_op op = false ->
  exists args, c = CDraw op args /\ Z.of_nat (length args) = nargs_of op.
Proof.
  intros (W & Eop) NA. destruct c; try contradiction; cbn [op_of] in Eop.
  - destruct W as (_ & _ & _ & L & _). subst. eauto.
  - subst op. destruct rel; discriminate.
Qed.

Lemma pending_arc op c : is_pending op c -> is_arc_op op = true ->
  exists rx ry rot la sw x y, c = CArc (op =? opa) rx ry rot la sw x y.
Proof.
  intros (W & Eop) A. destruct c; try contradiction; cbn [op_of] in Eop.
  - destruct W as (_ & N1 & N2 & _). subst op. unfold is_arc_op in A. apply orb_true_iff in A. lia.
  - subst op. destruct rel; repeat eexists.
Qed.

Lemma enc_coords_chunk e op chunk : Forall (is_pending op) chunk -> is_arc_op op = false ->
  enc_coords e (flat_map args_of chunk) = flat_map (opbytes e) chunk.
Proof.
  intros P NA. induction P as [|c chunk Pc Pr IH]; [reflexivity|].
  destruct (pending_nonarc op c Pc NA) as (args & -> & _).
  cbn [flat_map args_of opbytes]. rewrite enc_coords_app, IH. reflexivity.
Qed.

Lemma enc_arcs_chunk e op chunk : forall more, Forall (is_pending op) chunk -> is_arc_op op = true ->
  enc_arcs e (length chunk) (flat_map args_of chunk ++ more) = (flat_map (opbytes e) chunk, more).
Proof.
  intros more P A. induction P as [|c chunk Pc Pr IH]; [reflexivity|].
  destruct (pending_arc op c Pc A) as (rx & ry & rot & la & sw & x & y & ->).
  cbn [length flat_map args_of app enc_arcs]. rewrite IH. cbn [opbytes].
  rewrite flags_roundtrip, <- !app_assoc. reflexivity.
Qed.

Lemma args_len op c : is_pending op c -> In op run_ops ->
  length (args_of c) = Z.to_nat (nargs_of op).
Proof.
  intros P I. destruct (is_arc_op op) eqn:A.
  - destruct (pending_arc op c P A) as (rx & ry & rot & la & sw & x & y & ->). cbn [args_of length].
    unfold is_arc_op in A. apply orb_true_iff in A as [A|A]; apply Z.eqb_eq in A; subst op; reflexivity.
  - destruct (pending_nonarc op c P A) as (args & -> & L). cbn [args_of]. lia.
Qed.

Lemma table_facts op base maxrep nargs : In op run_ops -> op_info op = (base, maxrep, nargs) ->
  1 <= maxrep /\ 1 <= nargs /\ 0 <= base /\ base + maxrep - 1 < 256.
Proof.
  intros I Info. unfold op_info in Info.
  repeat (destruct I as [<-|I]; [vm_compute in Info; injection Info as <- <- <-; lia|]). destruct I.
Qed.

Lemma flush_chunks_decode e op base maxrep nargs : In op run_ops -> op_info op = (base, maxrep, nargs) ->
  forall fuel pend tail, (length pend <= fuel)%nat -> Forall (is_pending op) pend ->
  run true (flush_chunks fuel e op base maxrep nargs (Z.of_nat (length pend)) (flat_map args_of pend) ++ tail)
  = pre (map (qcall (e_hires_l e)) pend) (run true tail).
Proof.
  intros Iop Info. destruct (table_facts op base maxrep nargs Iop Info) as (Hm & Hn & Hb & Hmax).
  assert (Hna : nargs_of op = nargs) by (unfold nargs_of; rewrite Info; reflexivity).
  induction fuel as [|fuel IH]; intros pend tail L P.
  - destruct pend; [|cbn in L; lia]. cbn [flush_chunks app map]. rewrite pre_nil. reflexivity.
  - cbn [flush_chunks].
    destruct pend as [|c0 pend0] eqn:Ep.
    { cbn [length Z.of_nat Z.leb Z.compare app map]. rewrite pre_nil. reflexivity. }
    rewrite <- Ep in *. assert (Hlen : (1 <= length pend)%nat) by (rewrite Ep; cbn; lia). clear Ep c0 pend0.
    assert (Hle : Z.of_nat (length pend) <=? 0 = false) by lia. rewrite Hle.
    set (n := Z.of_nat (length pend)) in *.
    set (m := Z.min n maxrep).
    assert (Hm1 : 1 <= m <= maxrep /\ m <= n) by (unfold m, n; lia).
    set (chunk := firstn (Z.to_nat m) pend). set (pend' := skipn (Z.to_nat m) pend).
    assert (Hsplit : pend = chunk ++ pend') by (symmetry; apply firstn_skipn).
    assert (Hlc : length chunk = Z.to_nat m) by (unfold chunk; rewrite firstn_length; unfold n in *; lia).
    assert (Hlp : Z.of_nat (length pend') = n - m) by (unfold pend'; rewrite skipn_length; unfold n in *; lia).
    assert (Pc : Forall (is_pending op) chunk) by (rewrite Hsplit in P; apply Forall_app in P; tauto).
    assert (Pp : Forall (is_pending op) pend') by (rewrite Hsplit in P; apply Forall_app in P; tauto).
    assert (Hhd : (base + m - 1) mod 256 = base + Z.of_nat (length chunk) - 1) by (rewrite Hlc; lia).
    rewrite Hhd.
    fold (is_arc_op op).
    assert (Hgoal : run true (((base + Z.of_nat (length chunk) - 1) :: flat_map (opbytes e) chunk ++
                       flush_chunks fuel e op base maxrep nargs (Z.of_nat (length pend')) (flat_map args_of pend')) ++ tail)
                    = pre (map (qcall (e_hires_l e)) pend) (run true tail)).
    { rewrite <- app_comm_cons, <- app_assoc.
      destruct (chunk_decode e op base maxrep nargs chunk
                  (flush_chunks fuel e op base maxrep nargs (Z.of_nat (length pend')) (flat_map args_of pend') ++ tail)
                  Iop Info) as (its & E & C); [lia|lia|exact Pc|].
      rewrite (run_step_pre true _ _ its true _ E), C.
      rewrite (IH pend' tail); [|lia|exact Pp].
      rewrite <- pre_app, <- map_app, <- Hsplit. reflexivity. }
    destruct (is_arc_op op) eqn:A.
    + rewrite Hsplit at 1. rewrite flat_map_app, <- Hlc, (enc_arcs_chunk e op chunk _ Pc A), <- Hlp. exact Hgoal.
    + assert (Hk : Z.to_nat (m * nargs) = (Z.to_nat m * Z.to_nat (nargs_of op))%nat) by (rewrite Hna; lia).
      rewrite Hk.
      assert (Fl : Forall (fun x => length (args_of x) = Z.to_nat (nargs_of op)) pend).
      { eapply Forall_impl; [|exact P]. intros c Pcc. apply (args_len op c Pcc Iop). }
      destruct (flat_firstn_skipn args_of (Z.to_nat (nargs_of op)) (Z.to_nat m) pend Fl) as [F1 F2].
      rewrite F1, F2. fold chunk pend'. rewrite (enc_coords_chunk e op chunk Pc A), <- Hlp. exact Hgoal.
Qed.

(* ---------- the encoder's state as a set of calls not yet written ---------- *)
Definition pend_ok (e : enc) (pend : list call) : Prop :=
  match pend with
  | [] => e_drawop e = 0 /\ e_drawargs e = []
  | _ => In (e_drawop e) run_ops /\ Forall (is_pending (e_drawop e)) pend /\ e_drawargs e = flat_map args_of pend
  end.

Definition RInv (e : enc) (pend : list call) : Prop :=
  e_err e = None /\ pend_ok e pend /\
  match e_mode e with MInitial => False | MStyling => pend = [] | MDrawing => True end.

Definition dmode (e : enc) : bool := match e_mode e with MDrawing => true | _ => false end.

Lemma flat_len {A B} (f : A -> list B) n l : Forall (fun x => length (f x) = n) l ->
  length (flat_map f l) = (length l * n)%nat.
Proof.
  induction 1 as [|x l Hx Hl IH]; [reflexivity|]. cbn [flat_map length]. rewrite app_length, IH, Hx. lia.
Qed.

Lemma run_ops_nonzero op : In op run_ops -> op =? 0 = false.
Proof. intros I. repeat (destruct I as [<-|I]; [reflexivity|]). destruct I. Qed.

(* flush writes the pending calls: decoding what it appends yields exactly their images *)
Lemma flush_decode e pend : pend_ok e pend ->
  exists fb, flush e = mkEnc (e_hires e) (e_hires_l e) (e_buf e ++ fb) (e_err e) (e_lod0 e) (e_lod1 e)
                             (e_csel e) (e_nsel e) (e_mode e) 0 []
             /\ forall tail, run true (fb ++ tail) = pre (map (qcall (e_hires_l e)) pend) (run true tail).
Proof.
  intros P. unfold pend_ok in P. destruct pend as [|c0 pend0] eqn:Ep.
  - destruct P as [P0 Pa]. exists []. split.
    + unfold flush. rewrite P0. cbn [Z.eqb]. destruct e; cbn in *. subst. rewrite app_nil_r. reflexivity.
    + intros tail. cbn [app map]. rewrite pre_nil. reflexivity.
  - rewrite <- Ep in *. destruct P as (Iop & Pp & Pa).
    unfold flush. rewrite (run_ops_nonzero _ Iop).
    destruct (op_info (e_drawop e)) as [[base maxrep] nargs] eqn:Info.
    destruct (table_facts _ _ _ _ Iop Info) as (Hm & Hn & Hb & Hmax).
    assert (Hna : nargs_of (e_drawop e) = nargs) by (unfold nargs_of; rewrite Info; reflexivity).
    assert (Hz : nargs =? 0 = false) by lia. rewrite Hz.
    assert (Fl : Forall (fun x => length (args_of x) = Z.to_nat nargs) pend).
    { eapply Forall_impl; [|exact Pp]. intros c Pc. rewrite <- Hna. apply (args_len _ c Pc Iop). }
    assert (Hlen : Z.of_nat (length (e_drawargs e)) / nargs = Z.of_nat (length pend)).
    { rewrite Pa, (flat_len args_of _ _ Fl). rewrite Nat2Z.inj_mul, Z2Nat.id by lia. apply Z.div_mul. lia. }
    rewrite Hlen. eexists. split; [reflexivity|].
    intros tail. rewrite Pa at 2.
    apply (flush_chunks_decode e _ base maxrep nargs Iop Info); [|exact Pp].
    rewrite Pa, (flat_len args_of _ _ Fl). nia.
Qed.

(* ---------- single styling instructions ---------- *)
Lemma skipn_app_len {A} (a b : list A) : skipn (length a) (a ++ b) = b.
Proof. rewrite skipn_app, skipn_all, Nat.sub_diag. reflexivity. Qed.

Lemma ins_csel s out : run false ((s mod 64) :: out) = pre [CSetCSel (s mod 64)] (run false out).
Proof.
  assert (E : styling_step (s mod 64) out =
              ([ILine [s mod 64] (PSetCSel (s mod 64)); ICall (CSetCSel (s mod 64))], StepOk false out)).
  { unfold styling_step. assert (s mod 64 <? 64 = true) as -> by lia.
    replace ((s mod 64) mod 64) with (s mod 64) by lia. reflexivity. }
  rewrite (run_step_pre false _ _ _ _ _ E). reflexivity.
Qed.

Lemma ins_nsel s out : run false ((s mod 64 + 64) :: out) = pre [CSetNSel (s mod 64)] (run false out).
Proof.
  assert (E : styling_step (s mod 64 + 64) out =
              ([ILine [s mod 64 + 64] (PSetNSel (s mod 64)); ICall (CSetNSel (s mod 64))], StepOk false out)).
  { unfold styling_step. assert (s mod 64 + 64 <? 64 = false) as -> by lia.
    assert (s mod 64 + 64 <? 128 = true) as -> by lia.
    replace ((s mod 64 + 64) mod 64) with (s mod 64) by lia. reflexivity. }
  rewrite (run_step_pre false _ _ _ _ _ E). reflexivity.
Qed.

Definition adj_ok (adj : Z) (incr : bool) : Prop := 0 <= adj <= 6 /\ (incr = true -> adj = 0).

Lemma adj_decode adj incr base : adj_ok adj incr -> base mod 8 = 0 ->
  let opcode := adj_byte adj incr + base in
  (opcode mod 8 =? 7) = incr /\ (if opcode mod 8 =? 7 then 0 else opcode mod 8) = adj.
Proof.
  intros [R I] B. unfold adj_byte. destruct incr.
  - specialize (I eq_refl). subst adj. cbv zeta. assert ((7 + base) mod 8 = 7) as -> by lia. split; reflexivity.
  - cbv zeta. assert ((adj + base) mod 8 = adj) as -> by lia. assert (adj =? 7 = false) as -> by lia. split; reflexivity.
Qed.

Lemma ins_creg adj incr col out : adj_ok adj incr -> wf_color col ->
  let '(base, bytes) := enc_color col in
  run false ((adj_byte adj incr + base) :: bytes ++ out) = pre [CSetCReg adj incr col] (run false out).
Proof.
  intros A W. pose proof (enc_dec_color col out W) as H. destruct (enc_color col) as [base bytes].
  destruct H as (Hb & _ & D).
  assert (Hb8 : base mod 8 = 0) by lia.
  destruct (adj_decode adj incr base A Hb8) as [I1 I2]. cbv zeta in I1, I2.
  assert (Hab : 0 <= adj_byte adj incr <= 7) by (unfold adj_byte; destruct A, incr; lia).
  set (opcode := adj_byte adj incr + base) in *.
  assert (E : exists its, styling_step opcode (bytes ++ out) = (its, StepOk false out) /\ calls_of its = [CSetCReg adj incr col]).
  { unfold styling_step.
    assert (opcode <? 64 = false) as -> by lia. assert (opcode <? 128 = false) as -> by lia.
    assert (opcode <? 168 = true) as -> by lia.
    assert ((opcode - 128) / 8 = (base - 128) / 8) as -> by lia.
    cbv zeta. rewrite D, I2, I1, skipn_app_len. eexists. split; reflexivity. }
  destruct E as (its & E & C). rewrite (run_step_pre false _ _ _ _ _ E), C. reflexivity.
Qed.

Lemma ins_nreg adj incr f out : adj_ok adj incr -> wf_f32 f ->
  let '(base, bytes) := nreg_choice f in
  run false ((adj_byte adj incr + base) :: bytes ++ out) = pre [CSetNReg adj incr (q_nreg f)] (run false out).
Proof.
  intros A W. pose proof (nreg_app f out W) as H. destruct (nreg_choice f) as [base bytes].
  destruct H as (Hb & D).
  assert (Hb8 : base mod 8 = 0) by lia.
  destruct (adj_decode adj incr base A Hb8) as [I1 I2]. cbv zeta in I1, I2.
  assert (Hab : 0 <= adj_byte adj incr <= 7) by (unfold adj_byte; destruct A, incr; lia).
  set (opcode := adj_byte adj incr + base) in *.
  assert (E : exists its, styling_step opcode (bytes ++ out) = (its, StepOk false out) /\ calls_of its = [CSetNReg adj incr (q_nreg f)]).
  { unfold styling_step.
    assert (opcode <? 64 = false) as -> by lia. assert (opcode <? 128 = false) as -> by lia.
    assert (opcode <? 168 = false) as -> by lia. assert (opcode <? 192 = true) as -> by lia.
    assert ((opcode - 168) / 8 = (base - 168) / 8) as -> by lia.
    cbv zeta. rewrite D, I2, I1, skipn_app_len. eexists. split; reflexivity. }
  destruct E as (its & E & C). rewrite (run_step_pre false _ _ _ _ _ E), C. reflexivity.
Qed.

Lemma ins_lod a b out : wf_f32 a -> wf_f32 b ->
  run false (199 :: enc_real a ++ enc_real b ++ out) = pre [CSetLOD (q_real a) (q_real b)] (run false out).
Proof.
  intros Wa Wb.
  assert (E : exists its, styling_step 199 (enc_real a ++ enc_real b ++ out) = (its, StepOk false out)
                          /\ calls_of its = [CSetLOD (q_real a) (q_real b)]).
  { unfold styling_step. cbn [Z.ltb Z.eqb Z.compare Pos.compare Pos.compare_cont Pos.eqb].
    unfold read_num. rewrite (dec_real_app a _ Wa), skipn_app_len, (dec_real_app b _ Wb), skipn_app_len.
    eexists. split; reflexivity. }
  destruct E as (its & E & C). rewrite (run_step_pre false _ _ _ _ _ E), C. reflexivity.
Qed.

Lemma ins_start adj x y out : 0 <= adj <= 6 -> wf_f32 x -> wf_f32 y ->
  run false ((192 + adj) :: enc_coordinate x ++ enc_coordinate y ++ out) =
  pre [CStartPath adj (q_coord x) (q_coord y)] (run true out).
Proof.
  intros A Wx Wy.
  assert (E : exists its, styling_step (192 + adj) (enc_coordinate x ++ enc_coordinate y ++ out) = (its, StepOk true out)
                          /\ calls_of its = [CStartPath adj (q_coord x) (q_coord y)]).
  { unfold styling_step.
    assert (192 + adj <? 64 = false) as -> by lia. assert (192 + adj <? 128 = false) as -> by lia.
    assert (192 + adj <? 168 = false) as -> by lia. assert (192 + adj <? 192 = false) as -> by lia.
    assert (192 + adj <? 199 = true) as -> by lia.
    assert ((192 + adj) mod 8 = adj) as -> by lia.
    destruct (read_coords_app [x; y] out) as (its & E & C); [repeat (apply Forall_cons; [assumption|]); apply Forall_nil|].
    cbn [length encs flat_map map] in E. rewrite app_nil_r, <- !app_assoc in E. rewrite E.
    eexists. split; [reflexivity|]. cbn [calls_of flat_map app]. rewrite calls_of_app, C. reflexivity. }
  destruct E as (its & E & C). rewrite (run_step_pre false _ _ _ _ _ E), C. reflexivity.
Qed.

Lemma ins_end out : run true (225 :: out) = pre [CEndPath] (run false out).
Proof.
  assert (E : drawing_step 225 out = ([ILine [225] (PSimple opZ); ICall CEndPath], StepOk false out)) by reflexivity.
  rewrite (run_step_pre true _ _ _ _ _ E). reflexivity.
Qed.

(* ---------- programs ---------- *)
Definition next_hl (h hl : bool) (c : call) : bool := match c with CStartPath _ _ _ => h | _ => hl end.

Fixpoint expect (h hl : bool) (acts : list eact) : list call :=
  match acts with
  | [] => []
  | AHiRes b :: r => expect b hl r
  | ACall c :: r => qcall (next_hl h hl c) c :: expect h (next_hl h hl c) r
  | _ :: r => expect h hl r
  end.

Definition wf_call (d : bool) (c : call) : Prop :=
  match c with
  | CReset _ _ => False
  | CSetCSel _ | CSetNSel _ => d = false
  | CSetCReg adj incr col => d = false /\ adj_ok adj incr /\ wf_color col
  | CSetNReg adj incr f => d = false /\ adj_ok adj incr /\ wf_f32 f
  | CSetLOD a b => d = false /\ wf_f32 a /\ wf_f32 b
  | CStartPath adj x y => d = false /\ 0 <= adj <= 6 /\ wf_f32 x /\ wf_f32 y
  | CDraw _ _ | CArc _ _ _ _ _ _ _ _ => d = true /\ wf_arc_or_draw c
  | CEndPath => d = true
  end.
Definition next_mode (d : bool) (c : call) : bool :=
  match c with CStartPath _ _ _ => true | CEndPath => false | _ => d end.

Fixpoint wf_acts (d : bool) (acts : list eact) : Prop :=
  match acts with
  | [] => True
  | AHiRes _ :: r => wf_acts d r
  | ACall c :: r => wf_call d c /\ wf_acts (next_mode d c) r
  | _ :: _ => False
  end.

Lemma pre_done d out cs Y : run d out = (Y, Done) -> pre cs (run d out) = (cs ++ Y, Done).
Proof. intros ->. reflexivity. Qed.

Definition step_spec (e : enc) (pend : list call) (c : call) : Prop :=
  let e1 := enc_step e c in
  exists delta pend1,
    e_buf e1 = e_buf e ++ delta /\ RInv e1 pend1 /\ e_hires e1 = e_hires e /\
    e_hires_l e1 = next_hl (e_hires e) (e_hires_l e) c /\ dmode e1 = next_mode (dmode e) c /\
    forall out X, run (dmode e1) out = (map (qcall (e_hires_l e1)) pend1 ++ X, Done) ->
                  run (dmode e) (delta ++ out) = (map (qcall (e_hires_l e)) pend ++ qcall (e_hires_l e1) c :: X, Done).

Lemma styling_state e pend : RInv e pend -> dmode e = false ->
  e_mode e = MStyling /\ pend = [] /\ e_drawop e = 0 /\ e_drawargs e = [] /\ e_err e = None.
Proof.
  intros (He & Hp & Hm) D. unfold dmode in D. destruct (e_mode e); try contradiction; try discriminate.
  subst pend. destruct Hp. auto.
Qed.

Ltac styling_setup e H :=
  destruct (styling_state _ _ H ltac:(assumption)) as (Hmode & -> & Hop & Hargs & Herr);
  destruct e as [h hl buf err l0 l1 cs ns mode dop dargs]; cbn in Hmode, Hop, Hargs, Herr; subst;
  unfold step_spec; cbn [enc_step check_styling e_mode has_err e_err e_buf e_hires e_hires_l e_lod0 e_lod1 e_csel e_nsel e_drawop e_drawargs dmode next_hl next_mode map app].

Lemma RInv_styling h hl buf l0 l1 cs ns : RInv (mkEnc h hl buf None l0 l1 cs ns MStyling 0 []) [].
Proof. repeat split. Qed.

Lemma step_csel e pend s : RInv e pend -> dmode e = false -> step_spec e pend (CSetCSel s).
Proof.
  intros H D. styling_setup e H.
  exists [s mod 64], []. repeat split.
  intros out X R. cbn [dmode e_mode map app] in *. rewrite ins_csel. rewrite (pre_done false out _ X R). reflexivity.
Qed.

Lemma step_nsel e pend s : RInv e pend -> dmode e = false -> step_spec e pend (CSetNSel s).
Proof.
  intros H D. styling_setup e H.
  exists [s mod 64 + 64], []. repeat split.
  intros out X R. cbn [dmode e_mode map app] in *. rewrite ins_nsel. rewrite (pre_done false out _ X R). reflexivity.
Qed.

Lemma step_lod e pend a b : RInv e pend -> dmode e = false -> wf_f32 a -> wf_f32 b -> step_spec e pend (CSetLOD a b).
Proof.
  intros H D Wa Wb. styling_setup e H.
  exists (199 :: enc_real a ++ enc_real b), []. repeat split.
  intros out X R. cbn [dmode e_mode map app qcall] in *. rewrite <- app_assoc, ins_lod by assumption.
  rewrite (pre_done false out _ X R). reflexivity.
Qed.

Lemma step_creg e pend adj incr col : RInv e pend -> dmode e = false -> adj_ok adj incr -> wf_color col ->
  step_spec e pend (CSetCReg adj incr col).
Proof.
  intros H D A W. styling_setup e H.
  pose proof (ins_creg adj incr col) as I.
  assert (H6 : 6 <? adj = false) by (destruct A; lia). rewrite H6.
  assert (Hi : incr && negb (adj =? 0) = false) by (destruct A as [? Ai]; destruct incr; [rewrite (Ai eq_refl)|]; reflexivity).
  rewrite Hi. destruct (enc_color col) as [base bytes].
  exists ((adj_byte adj incr + base) :: bytes), []. cbn [e_buf e_err e_mode e_hires e_hires_l dmode]. repeat split.
  intros out X R. cbn [map app qcall] in *. refine (eq_trans (I out A W) _). rewrite (pre_done false out _ X R). reflexivity.
Qed.

Lemma step_nreg e pend adj incr f : RInv e pend -> dmode e = false -> adj_ok adj incr -> wf_f32 f ->
  step_spec e pend (CSetNReg adj incr f).
Proof.
  intros H D A W. styling_setup e H.
  pose proof (ins_nreg adj incr f) as I.
  assert (H6 : 6 <? adj = false) by (destruct A; lia). rewrite H6.
  assert (Hi : incr && negb (adj =? 0) = false) by (destruct A as [? Ai]; destruct incr; [rewrite (Ai eq_refl)|]; reflexivity).
  rewrite Hi. destruct (nreg_choice f) as [base bytes].
  exists ((adj_byte adj incr + base) :: bytes), []. cbn [e_buf e_err e_mode e_hires e_hires_l dmode]. repeat split.
  intros out X R. cbn [map app qcall] in *. refine (eq_trans (I out A W) _). rewrite (pre_done false out _ X R). reflexivity.
Qed.

Lemma step_start e pend adj x y : RInv e pend -> dmode e = false -> 0 <= adj <= 6 -> wf_f32 x -> wf_f32 y ->
  step_spec e pend (CStartPath adj x y).
Proof.
  intros H D A Wx Wy. styling_setup e H.
  assert (H6 : 6 <? adj = false) by lia. rewrite H6. cbn [e_buf e_err e_mode e_hires e_hires_l dmode quant].
  eexists (_ :: _ ++ _), []. split; [reflexivity|]. repeat split.
  intros out X R. cbn [map app qcall] in *. rewrite <- app_assoc.
  rewrite ins_start; [|assumption|apply wf_quantize; assumption|apply wf_quantize; assumption].
  rewrite (pre_done true out _ X R). reflexivity.
Qed.

(* ---------- drawing calls ---------- *)
Lemma in_run_ops c : wf_arc_or_draw c -> In (op_of c) run_ops.
Proof.
  destruct c; try contradiction; cbn [wf_arc_or_draw op_of].
  - tauto.
  - intros _. destruct rel; vm_compute; tauto.
Qed.

Lemma drawing_state e pend : RInv e pend -> dmode e = true -> e_mode e = MDrawing /\ e_err e = None /\ pend_ok e pend.
Proof.
  intros (He & Hp & Hm) D. unfold dmode in D. destruct (e_mode e); try discriminate. auto.
Qed.

Definition with_run (e : enc) (op : Z) (args : list f32) : enc :=
  mkEnc (e_hires e) (e_hires_l e) (e_buf e) (e_err e) (e_lod0 e) (e_lod1 e) (e_csel e) (e_nsel e) (e_mode e) op args.

Lemma draw_append e pend c : e_err e = None -> pend_ok e pend -> wf_arc_or_draw c ->
  let e1 := if e_drawop e =? op_of c then e else flush e in
  let e2 := with_run e1 (op_of c) (e_drawargs e1 ++ args_of c) in
  exists delta pend2,
    e_buf e2 = e_buf e ++ delta /\ pend_ok e2 pend2 /\
    e_hires e2 = e_hires e /\ e_hires_l e2 = e_hires_l e /\ e_err e2 = None /\ e_mode e2 = e_mode e /\
    forall out X, run true out = (map (qcall (e_hires_l e)) pend2 ++ X, Done) ->
                  run true (delta ++ out) = (map (qcall (e_hires_l e)) pend ++ qcall (e_hires_l e) c :: X, Done).
Proof.
  intros Herr P W. pose proof (in_run_ops c W) as Iop. cbv zeta.
  destruct (e_drawop e =? op_of c) eqn:Same.
  - apply Z.eqb_eq in Same.
    destruct pend as [|c0 pend0] eqn:Ep.
    { destruct P as [P0 _]. rewrite P0 in Same. rewrite <- Same in Iop. apply run_ops_nonzero in Iop. discriminate. }
    rewrite <- Ep in *. assert (Hne : pend <> []) by (rewrite Ep; discriminate).
    unfold pend_ok in P. rewrite Ep in P. rewrite <- Ep in P. destruct P as (Io & Pp & Pa).
    exists [], (pend ++ [c]). cbn [with_run e_buf e_hires e_hires_l e_err e_mode e_drawop e_drawargs].
    rewrite app_nil_r. split; [reflexivity|]. split.
    { unfold pend_ok. destruct (pend ++ [c]) eqn:E2; [destruct pend; discriminate|]. rewrite <- E2.
      cbn [e_drawop e_drawargs]. split; [exact Iop|]. split.
      - apply Forall_app. split; [rewrite <- Same; exact Pp|]. constructor; [split; [exact W|reflexivity]|constructor].
      - rewrite flat_map_app, Pa. cbn [flat_map]. rewrite app_nil_r. reflexivity. }
    repeat split; try assumption.
    intros out X R. cbn [app]. rewrite R, map_app, <- app_assoc. reflexivity.
  - destruct (flush_decode e pend P) as (fb & Ef & Df). rewrite Ef.
    exists fb, [c]. cbn [with_run e_buf e_hires e_hires_l e_err e_mode e_drawop e_drawargs app].
    split; [reflexivity|]. split.
    { unfold pend_ok. cbn [e_drawop e_drawargs flat_map]. split; [exact Iop|]. split.
      - constructor; [split; [exact W|reflexivity]|constructor].
      - rewrite app_nil_r. reflexivity. }
    repeat split; try assumption.
    intros out X R. rewrite Df, R. reflexivity.
Qed.

Lemma enc_draw_unfold e op args : e_err e = None -> e_mode e = MDrawing ->
  enc_draw e op args =
  let e1 := if e_drawop e =? op then e else flush e in
  let e2 := with_run e1 op (e_drawargs e1 ++ args) in
  if op =? opZ then flush (set_mode e2 MStyling)
  else if (op =? opY) || (op =? opy) then flush e2 else e2.
Proof. intros He Hm. unfold enc_draw, has_err. rewrite He, Hm. reflexivity. Qed.

Lemma step_draw_gen e pend c : RInv e pend -> dmode e = true -> wf_arc_or_draw c ->
  enc_step e c = enc_draw e (op_of c) (args_of c) -> step_spec e pend c.
Proof.
  intros H D W Estep. destruct (drawing_state e pend H D) as (Hmode & Herr & P).
  unfold step_spec. rewrite Estep, (enc_draw_unfold e _ _ Herr Hmode).
  destruct (draw_append e pend c Herr P W) as (delta & pend2 & Eb & P2 & Hh & Hhl & He2 & Hm2 & T).
  cbv zeta in *.
  set (e2 := with_run (if e_drawop e =? op_of c then e else flush e) (op_of c)
                      (e_drawargs (if e_drawop e =? op_of c then e else flush e) ++ args_of c)) in *.
  destruct (run_ops_info _ (in_run_ops c W)) as (_ & NZ).
  assert (op_of c =? opZ = false) as -> by (apply Z.eqb_neq; exact NZ).
  assert (Hnl : next_hl (e_hires e) (e_hires_l e) c = e_hires_l e) by (destruct c; try contradiction; reflexivity).
  assert (Hnm : next_mode (dmode e) c = true) by (rewrite D; destruct c; try contradiction; reflexivity).
  rewrite Hnl, Hnm, D.
  destruct ((op_of c =? opY) || (op_of c =? opy)).
  - destruct (flush_decode e2 pend2 P2) as (fb & Ef & Df). rewrite Ef.
    exists (delta ++ fb), []. cbn [e_buf e_hires e_hires_l e_err e_mode dmode].
    rewrite Eb, Hh, Hhl, Hm2, Hmode, <- app_assoc. split; [reflexivity|].
    split; [repeat split; rewrite ?He2; auto|]. repeat split.
    intros out X R. cbn [dmode e_mode e_hires_l map app] in R. rewrite <- app_assoc. apply T. rewrite Df, R, Hhl. reflexivity.
  - exists delta, pend2. rewrite Hhl.
    split; [exact Eb|]. split; [unfold RInv; rewrite He2, Hm2, Hmode; auto|].
    split; [exact Hh|]. split; [reflexivity|]. split; [unfold dmode; rewrite Hm2, Hmode; reflexivity|].
    unfold dmode. rewrite Hm2, Hmode. exact T.
Qed.

Lemma step_draw e pend op args : RInv e pend -> dmode e = true -> wf_arc_or_draw (CDraw op args) -> step_spec e pend (CDraw op args).
Proof. intros H D W. apply step_draw_gen; auto. Qed.

Lemma step_arc e pend rel rx ry rot la sw x y : RInv e pend -> dmode e = true ->
  wf_arc_or_draw (CArc rel rx ry rot la sw x y) -> step_spec e pend (CArc rel rx ry rot la sw x y).
Proof. intros H D W. apply step_draw_gen; auto. Qed.

Lemma flush_Z e1 : flush (set_mode (with_run e1 opZ []) MStyling) =
  mkEnc (e_hires e1) (e_hires_l e1) (e_buf e1 ++ [225]) (e_err e1) (e_lod0 e1) (e_lod1 e1) (e_csel e1) (e_nsel e1) MStyling 0 [].
Proof. reflexivity. Qed.

Lemma step_end e pend : RInv e pend -> dmode e = true -> step_spec e pend CEndPath.
Proof.
  intros H D. destruct (drawing_state e pend H D) as (Hmode & Herr & P).
  unfold step_spec. cbn [enc_step]. rewrite (enc_draw_unfold e _ _ Herr Hmode). cbv zeta.
  assert (Hnz : e_drawop e =? opZ = false).
  { destruct pend; [destruct P as [-> _]; reflexivity|]. destruct P as (Io & _).
    apply Z.eqb_neq. apply (run_ops_info _ Io). }
  rewrite Hnz. destruct (flush_decode e pend P) as (fb & Ef & Df). rewrite Ef.
  change (opZ =? opZ) with true. cbv iota. cbn [e_drawargs app]. rewrite flush_Z.
  exists (fb ++ [225]), [].
  cbn [e_buf e_hires e_hires_l e_err e_mode dmode next_hl next_mode]. rewrite <- app_assoc.
  split; [reflexivity|]. split; [repeat split; assumption|]. repeat split.
  intros out X R. cbn [map app] in R. rewrite <- app_assoc. cbn [app]. rewrite D, Df, ins_end, R. reflexivity.
Qed.

Lemma step_any e pend c : RInv e pend -> wf_call (dmode e) c -> step_spec e pend c.
Proof.
  intros H W. destruct c; cbn [wf_call] in W.
  - contradiction.
  - apply step_csel; assumption.
  - apply step_nsel; assumption.
  - destruct W as (D & A & Wc). apply step_creg; assumption.
  - destruct W as (D & A & Wf). apply step_nreg; assumption.
  - destruct W as (D & Wa & Wb). apply step_lod; assumption.
  - destruct W as (D & A & Wx & Wy). apply step_start; assumption.
  - destruct W as (D & Wd). apply step_draw; assumption.
  - destruct W as (D & Wd). apply step_arc; assumption.
  - apply step_end; assumption.
Qed.

(* the instruction part: whatever the encoder state (consistent with a set of pending calls), running a
   well-formed continuation and asking for the bytes appends instructions that decode to the pending
   calls followed by the continuation's calls, each in its written-and-read-back form *)
Lemma body_roundtrip acts : forall e pend, RInv e pend -> wf_acts (dmode e) acts ->
  exists out, snd (enc_bytes (fst (enc_run e acts))) = BytesOk (e_buf e ++ out) /\
              run (dmode e) out = (map (qcall (e_hires_l e)) pend ++ expect (e_hires e) (e_hires_l e) acts, Done).
Proof.
  induction acts as [|a r IH]; intros e pend H W.
  - cbn [enc_run fst expect]. rewrite app_nil_r. pose proof H as (Herr & P & Hm).
    assert (Hes : ensure_started e = e) by (unfold ensure_started; destruct (e_mode e); [contradiction|reflexivity|reflexivity]).
    unfold enc_bytes. rewrite Herr, Hes. unfold dmode.
    destruct (e_mode e) eqn:M; [contradiction| |].
    + subst pend. exists []. rewrite app_nil_r. split; reflexivity.
    + destruct (flush_decode e pend P) as (fb & Ef & Df). rewrite Ef. exists fb. cbn [snd e_buf].
      split; [reflexivity|]. rewrite <- (app_nil_r fb), Df, run_nil. unfold pre. cbn [fst snd]. rewrite app_nil_r. reflexivity.
  - rewrite enc_run_cons. cbn [fst]. destruct a as [c|b| | | |]; cbn [wf_acts] in W; try contradiction.
    + destruct W as [Wc Wr]. cbn [enc_act fst].
      destruct (step_any e pend c H Wc) as (delta & pend1 & Eb & H1 & Hh & Hhl & Hd & T).
      rewrite <- Hd in Wr. destruct (IH (enc_step e c) pend1 H1 Wr) as (out1 & Eo & R1).
      exists (delta ++ out1). split; [rewrite Eo, Eb, <- app_assoc; reflexivity|].
      cbn [expect]. rewrite Hh in R1. rewrite <- Hhl. apply T. rewrite R1. reflexivity.
    + cbn [enc_act fst]. 
      assert (H1 : RInv (set_hires e b) pend) by (destruct H as (A & B & C); repeat split; assumption).
      destruct (IH (set_hires e b) pend H1 W) as (out1 & Eo & R1).
      exists out1. split; [exact Eo|]. exact R1.
Qed.

(* RoundTrip.v — encoding a well-formed call sequence and decoding the bytes gives the calls back,
   every number replaced by what its written form denotes (C01). *)
From Coq Require Import ZArith Bool List Lia ZifyBool.
From IVG Require Import SF NumCodec Color Calls Decoder Encoder NumBase NumProofs ColorProofs DecProofs EncProofs.
Import ListNotations.
Local Open Scope Z_scope.
Ltac Zify.zify_post_hook ::= Z.div_mod_to_equations.
Local Opaque Z.mul Z.add Z.div Z.modulo Z.pow.

(* ---------- what a number becomes when written and read back ---------- *)
Definition q_real (f : f32) : f32 :=
  match real_short f with Some u => of_Z F32 u | None => round4_val f end.
Definition q_coord (f : f32) : f32 :=
  match coord_short1 f with
  | Some i => of_Z F32 i
  | None => match coord_short2 f with
            | Some i => fdiv F32 (of_Z F32 i) c64
            | None => round4_val f
            end
  end.
Definition q_zto (f : f32) : f32 :=
  match zto_short f with
  | Some u => if u mod 126 =? 0 then fdiv F32 (of_Z F32 (u / 126)) c120 else fdiv F32 (of_Z F32 u) c15120
  | None => round4_val f
  end.
Definition q_angle (f : f32) : f32 := q_zto (angle_norm f).
Definition q_nreg (f : f32) : f32 :=
  let op := fst (nreg_choice f) in
  if op =? 168 then q_real f else if op =? 176 then q_coord f else q_zto f.

Lemma dec_real_app f rest : wf_f32 f ->
  dec_real (enc_real f ++ rest) = Some (q_real f, length (enc_real f)).
Proof.
  intros W. unfold q_real. destruct (real_short f) as [u|] eqn:S.
  - destruct (real_exact f u rest W S) as (_ & D & _). exact D.
  - unfold enc_real. rewrite S. rewrite (dec_real4 f rest W). rewrite enc_real4_len. reflexivity.
Qed.

Lemma dec_coord_app f rest : wf_f32 f ->
  dec_coordinate (enc_coordinate f ++ rest) = Some (q_coord f, length (enc_coordinate f)).
Proof.
  intros W. unfold q_coord. destruct (coord_short1 f) as [i|] eqn:S1.
  - destruct (coord_exact1 f i rest W S1) as (E & D & _). rewrite D, E. reflexivity.
  - destruct (coord_short2 f) as [i|] eqn:S2.
    + destruct (coord_exact2 f i rest W S1 S2) as (E & D & _). rewrite D, E. reflexivity.
    + unfold enc_coordinate. rewrite S1, S2, (dec_coordinate_4 f rest W), enc_real4_len. reflexivity.
Qed.

Lemma dec_zto_4 b rest : wf_f32 b ->
  dec_zero_to_one (enc_real4 b ++ rest) = Some (round4_val b, 4%nat).
Proof.
  intros W. pose proof (dec_real4 b rest W) as D. unfold dec_real in D. unfold dec_zero_to_one.
  destruct (dec_natural (enc_real4 b ++ rest)) as [[u n]|]; [|discriminate].
  destruct n as [|[|[|[|[|n]]]]]; try (injection D as D1 D2; discriminate).
  exact D.
Qed.

Lemma dec_zto_app f rest : wf_f32 f ->
  dec_zero_to_one (enc_zero_to_one f ++ rest) = Some (q_zto f, length (enc_zero_to_one f)).
Proof.
  intros W. unfold q_zto. pose proof (zto_form f) as F. unfold enc_zero_to_one in *.
  destruct (zto_short f) as [u|] eqn:S.
  - destruct F as (R & F1 & F2). destruct (dec_zero_to_one_forms u rest R) as [D1 D2].
    destruct (u mod 126 =? 0) eqn:E.
    + apply D1. lia.
    + exact D2.
  - rewrite (dec_zto_4 f rest W), enc_real4_len. reflexivity.
Qed.

Lemma nreg_app f rest : wf_f32 f ->
  let '(base, bytes) := nreg_choice f in
  (base = 168 \/ base = 176 \/ base = 184) /\
  (if (base - 168) / 8 =? 0 then dec_real else if (base - 168) / 8 =? 1 then dec_coordinate else dec_zero_to_one)
    (bytes ++ rest) = Some (q_nreg f, length bytes).
Proof.
  intros W. pose proof (nreg_shortest f) as H. cbv zeta in H. unfold q_nreg.
  destruct (nreg_choice f) as [base bytes]. cbn [fst snd] in *.
  destruct H as (_ & [(-> & -> & _)|[(-> & -> & _)|(-> & -> & _)]]).
  - split; [auto|]. apply dec_real_app, W.
  - split; [auto|]. apply dec_coord_app, W.
  - split; [auto|]. apply dec_zto_app, W.
Qed.

(* ---------- running the decoder on instruction bytes, fuel-free ---------- *)
Lemma step_shrinks d opcode rest its d' b' :
  (if d then drawing_step else styling_step) opcode rest = (its, StepOk d' b') -> (length b' <= length rest)%nat.
Proof.
  intros E.
  assert (St : pref (opcode :: rest) its (step_rest (StepOk d' b')) /\ (ncalls its <= length (lbytes its))%nat /\ head_is_opcode opcode its (StepOk d' b')).
  { destruct d; [apply drawing_step_pref|apply styling_step_pref]; exact E. }
  destruct St as (P & _ & Hd). cbn in P. destruct Hd as (p & tl & ->). rewrite lbytes_line in P. cbn [app] in P.
  injection P as P. apply (f_equal (@length byte)) in P. rewrite app_length in P. lia.
Qed.

Lemma dec_ops_fuel f1 : forall f2 d b, (length b <= f1)%nat -> (length b <= f2)%nat -> dec_ops f1 d b = dec_ops f2 d b.
Proof.
  induction f1 as [|f1 IH]; intros f2 d b L1 L2; destruct b as [|opcode rest].
  - destruct f2; reflexivity.
  - cbn in L1. lia.
  - destruct f2; reflexivity.
  - destruct f2 as [|f2]; [cbn in L2; lia|]. cbn [dec_ops].
    destruct ((if d then drawing_step else styling_step) opcode rest) as [its r] eqn:E.
    destruct r as [e|d' b']; [reflexivity|].
    pose proof (step_shrinks d opcode rest its d' b' E) as Sh. cbn [length] in L1, L2.
    rewrite (IH f2 d' b') by lia. reflexivity.
Qed.

Definition run (d : bool) (b : list byte) : list call * outcome :=
  let '(its, o) := dec_ops (length b) d b in (calls_of its, o).

Lemma run_nil d : run d [] = ([], Done).
Proof. reflexivity. Qed.

Lemma run_step d opcode rest its d' b' :
  (if d then drawing_step else styling_step) opcode rest = (its, StepOk d' b') ->
  run d (opcode :: rest) = let '(cs, o) := run d' b' in (calls_of its ++ cs, o).
Proof.
  intros E. unfold run. cbn [length dec_ops]. rewrite E.
  pose proof (step_shrinks d opcode rest its d' b' E) as Sh.
  rewrite (dec_ops_fuel (length rest) (length b') d' b' Sh (le_n _)).
  destruct (dec_ops (length b') d' b') as [its' o]. rewrite calls_of_app. reflexivity.
Qed.

(* ---------- coordinates in a row ---------- *)
Definition encs (ys : list f32) : list byte := flat_map enc_coordinate ys.

Lemma read_coords_app ys : forall rest, Forall wf_f32 ys ->
  exists its, read_coords (length ys) (encs ys ++ rest) = (its, Some (map q_coord ys, rest)) /\ calls_of its = [].
Proof.
  induction ys as [|y ys IH]; intros rest W.
  - exists []. split; reflexivity.
  - inversion W as [|? ? Wy Wys]; subst. cbn [length encs flat_map read_coords]. fold (encs ys).
    rewrite <- app_assoc. unfold read_num. rewrite (dec_coord_app y _ Wy).
    rewrite skipn_app, skipn_all, Nat.sub_diag. cbn [skipn app].
    destruct (IH rest Wys) as (its & E & C). rewrite E.
    eexists. split; [reflexivity|]. cbn [map]. rewrite calls_of_app, C. reflexivity.
Qed.

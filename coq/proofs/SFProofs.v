(* SFProofs.v — the shift/mask decoding used by the arithmetic is the div/mod decoding
   that the codec theorems are stated about. *)
From Coq Require Import ZArith Bool Lia.
From IVG Require Import SF.
Local Open Scope Z_scope.

Lemma pow2_eq k : 0 <= k -> pow2 k = 2 ^ k.
Proof. intros H. unfold pow2. rewrite Z.shiftl_1_l. reflexivity. Qed.

Lemma decode_fast_eq f b : 0 <= b -> 1 <= prec f -> 0 <= ebits f ->
  decode_fast f b = decode f b.
Proof.
  intros Hb Hp He. unfold decode_fast, decode, sign_of, expo_of, mant_of, emax_field, width.
  rewrite !Z.shiftr_div_pow2 by lia.
  rewrite !Z.land_ones by lia.
  rewrite Z.ones_equiv.
  rewrite pow2_eq by lia.
  replace (Z.pred (2 ^ ebits f)) with (2 ^ ebits f - 1) by lia.
  reflexivity.
Qed.

Lemma decode_fast32 b : 0 <= b -> decode_fast F32 b = decode F32 b.
Proof. intros H. apply decode_fast_eq; cbn; lia. Qed.

Lemma decode_fast64 b : 0 <= b -> decode_fast F64 b = decode F64 b.
Proof. intros H. apply decode_fast_eq; cbn; lia. Qed.

(* SFProofs.v — the shift/mask decoding used by the arithmetic is the div/mod decoding
   that the codec theorems are stated about. *)
From Coq Require Import ZArith Bool Lia.
From IVG Require Import SF.
Local Open Scope Z_scope.

Lemma pow2_eq k : 0 <= k -> pow2 k = 2 ^ k.
Proof. intros H. unfold pow2. rewrite Z.shiftl_1_l. reflexivity. Qed.

Lemma decode_fast_eq f b : 0 <= b -> 1 <= prec f -> 0 <= ebits f ->
  decode_fast f b = decode f b.
Proof.
  intros Hb Hp He. unfold decode_fast, decode, sign_of, expo_of, mant_of, emax_field, width.
  rewrite !Z.shiftr_div_pow2 by lia.
  rewrite !Z.land_ones by lia.
  rewrite Z.ones_equiv.
  rewrite pow2_eq by lia.
  replace (Z.pred (2 ^ ebits f)) with (2 ^ ebits f - 1) by lia.
  reflexivity.
Qed.

Lemma decode_fast32 b : 0 <= b -> decode_fast F32 b = decode F32 b.
Proof. intros H. apply decode_fast_eq; cbn; lia. Qed.

Lemma decode_fast64 b : 0 <= b -> decode_fast F64 b = decode F64 b.
Proof. intros H. apply decode_fast_eq; cbn; lia. Qed.

(* ---- results of rounding to binary32 are 32-bit patterns (used for the angle normalisation in C01) ---- *)
Lemma encode_canon32_range s m e : 0 <= m <= 2 ^ 24 -> -149 <= e -> 0 <= encode_canon F32 s m e < 2 ^ 32.
Proof.
  intros Hm He. unfold encode_canon.
  change (prec F32) with 24. change (2 ^ (24 - 1)) with 8388608. change (2 ^ 24) with 16777216 in *.
  change (2 ^ 32) with 4294967296.
  assert (Hs : sbit F32 s = 0 \/ sbit F32 s = 2147483648) by (destruct s; cbn; auto).
  assert (Hi : inf_bits F32 s = sbit F32 s + 2139095040) by reflexivity.
  change (emin F32) with (-149). change (emax_field F32) with 255.
  destruct (m =? 16777216) eqn:E.
  - cbn [Z.ltb Z.compare Pos.compare Pos.compare_cont]. 
    destruct (255 <=? e + 1 - -149 + 1) eqn:G; [lia|]. apply Z.leb_gt in G. lia.
  - apply Z.eqb_neq in E. destruct (m <? 8388608) eqn:L; [apply Z.ltb_lt in L; lia|]. apply Z.ltb_ge in L.
    destruct (255 <=? e - -149 + 1) eqn:G; [lia|]. apply Z.leb_gt in G. lia.
Qed.

Lemma log2_bound m : 0 < m -> m < 2 ^ (Z.log2 m + 1).
Proof. intros H. pose proof (Z.log2_spec m H). replace (Z.log2 m + 1) with (Z.succ (Z.log2 m)) by lia. lia. Qed.

Lemma rne_dy_pos32_range s m e : 0 < m -> 0 <= rne_dy_pos F32 s m e < 2 ^ 32.
Proof.
  intros Hm. unfold rne_dy_pos. change (prec F32) with 24. change (emin F32) with (-149).
  set (l := Z.log2 m + e). set (e0 := Z.max (-149) (l - 24 + 1)).
  assert (He0 : -149 <= e0) by (unfold e0; lia).
  assert (Hl : l - 23 <= e0) by (unfold e0; lia).
  pose proof (Z.log2_nonneg m) as Hlog. pose proof (log2_bound m Hm) as Hb.
  destruct (e0 <=? e) eqn:C.
  - apply Z.leb_le in C. apply encode_canon32_range; [|exact He0].
    rewrite Z.shiftl_mul_pow2 by lia. split; [apply Z.mul_nonneg_nonneg; [lia|apply Z.pow_nonneg; lia]|].
    apply Z.lt_le_incl.
    apply Z.lt_le_trans with (2 ^ (Z.log2 m + 1) * 2 ^ (e - e0)).
    + apply Z.mul_lt_mono_pos_r; [apply Z.pow_pos_nonneg; lia|exact Hb].
    + rewrite <- Z.pow_add_r by lia. apply Z.pow_le_mono_r; [lia|]. unfold l in Hl. lia.
  - apply Z.leb_gt in C.
    assert (Hq : 0 <= Z.shiftr m (e0 - e) < 2 ^ 24).
    { rewrite Z.shiftr_div_pow2 by lia. split; [apply Z.div_pos; [lia|apply Z.pow_pos_nonneg; lia]|].
      apply Z.div_lt_upper_bound; [apply Z.pow_pos_nonneg; lia|].
      rewrite <- Z.pow_add_r by lia.
      apply Z.lt_le_trans with (2 ^ (Z.log2 m + 1)); [exact Hb|].
      apply Z.pow_le_mono_r; [lia|]. unfold l in Hl. lia. }
    apply encode_canon32_range; [|exact He0].
    destruct (_ || _); lia.
Qed.

Lemma rne_dy32_range s m e : 0 <= m -> 0 <= rne_dy F32 s m e < 2 ^ 32.
Proof.
  intros Hm. unfold rne_dy. destruct (m =? 0) eqn:E.
  - unfold zero_bits. destruct s; cbn; lia.
  - apply Z.eqb_neq in E. apply rne_dy_pos32_range. lia.
Qed.

Lemma decode_fast_fin f x s m e : 1 <= prec f -> decode_fast f x = FFin s m e -> 0 <= m.
Proof.
  intros Hp. unfold decode_fast.
  assert (Hma : 0 <= Z.land x (Z.ones (prec f - 1))).
  { apply Z.land_nonneg. right. rewrite Z.ones_equiv. pose proof (Z.pow_pos_nonneg 2 (prec f - 1)). lia. }
  destruct (_ =? Z.ones (ebits f)); [destruct (_ =? 0); discriminate|].
  destruct (_ =? 0).
  - intros [= _ <- _]. exact Hma.
  - intros [= _ <- _]. unfold pow2. rewrite Z.shiftl_1_l. pose proof (Z.pow_nonneg 2 (prec f - 1)). lia.
Qed.

Lemma f64_to_f32_range x : 0 <= f64_to_f32 x < 2 ^ 32.
Proof.
  unfold f64_to_f32, convert. destruct (decode_fast F64 x) as [|s|s m e] eqn:D.
  - change (prec F32 <? prec F64) with true. cbv iota.
    change (prec F64 - prec F32) with 29.
    assert (Hp : 0 <= Z.shiftr (mant_of F64 x) 29 < 2 ^ 23).
    { unfold mant_of. change (prec F64 - 1) with 52. rewrite Z.shiftr_div_pow2 by lia.
      pose proof (Z.mod_pos_bound x (2 ^ 52) ltac:(lia)) as B.
      split; [apply Z.div_pos; lia|]. apply Z.div_lt_upper_bound; [lia|]. change (2 ^ 29 * 2 ^ 23) with (2 ^ 52). lia. }
    unfold quiet. change (prec F32 - 2) with 22. change (emax_field F32 * 2 ^ (prec F32 - 1)) with 2139095040.
    set (v := sbit F32 (sign_of F64 x) + 2139095040 + Z.shiftr (mant_of F64 x) 29).
    assert (Hv : 0 <= v < 2 ^ 32).
    { unfold v. destruct (sign_of F64 x); cbn [sbit]; change (2 ^ (width F32 - 1)) with 2147483648; change (2 ^ 23) with 8388608 in Hp; change (2 ^ 32) with 4294967296; lia. }
    split; [apply Z.lor_nonneg; split; lia|].
    destruct (Z.eq_dec v 0) as [->|Hnz]; [cbn; lia|].
    apply Z.log2_lt_pow2; [|rewrite Z.log2_lor by lia; apply Z.max_lub_lt; [apply Z.log2_lt_pow2; lia|cbn; lia]].
    assert (0 <= Z.lor v (2 ^ 22)) by (apply Z.lor_nonneg; split; lia).
    assert (Z.lor v (2 ^ 22) <> 0) by (intros H0; apply Z.lor_eq_0_iff in H0 as [? ?]; lia). lia.
  - unfold inf_bits. destruct s; cbn; lia.
  - apply rne_dy32_range. apply (decode_fast_fin F64 x s m e); [cbn; lia|exact D].
Qed.

(* SFReal.v — the real-number meaning of the soft-float operations: the "standard model" of floating-point
   arithmetic, derived from the rounding specification of SFRound.v.

     B2R f b                    the real value of the finite bit pattern b (0 for NaN / Inf)
     fmul/fadd/fsub/fdiv        on finite operands whose exact result is below 2^bias in magnitude return a finite
                                float within  u * |exact| + eta  of the exact result   (u = 2^-prec, eta = 2^(emin-1)),
                                and within u * |exact| when the exact result is in the normal range
     flt                        on finite operands is < on the values

   Axioms: the standard library's real numbers only. *)
From Coq Require Import ZArith Reals Lia Lra Bool.
From Flocq Require Import Core.Zaux Core.Raux.
From IVG Require Import SF SFProofs SFRound.
Local Open Scope Z_scope.

Definition b2 (e : Z) : R := bpow radix2 e.

Definition B2R (f : fmt) (b : Z) : R :=
  match decode f b with FFin s m e => (IZR (sm s m) * b2 e)%R | _ => 0%R end.

Definition finite (f : fmt) (b : Z) : Prop := exists s m e, decode f b = FFin s m e.

(* unit roundoff and the absolute error floor of the subnormal range *)
Definition u_ (f : fmt) : R := b2 (- prec f).
Definition eta_ (f : fmt) : R := b2 (emin f - 1).

Lemma b2_pos e : (0 < b2 e)%R. Proof. apply bpow_gt_0. Qed.
Lemma b2_add a b : b2 (a + b) = (b2 a * b2 b)%R. Proof. apply bpow_plus. Qed.
Lemma IZR_pow2 k : 0 <= k -> IZR (2 ^ k) = b2 k.
Proof. intros H. unfold b2. rewrite <- (IZR_Zpower radix2 k H). reflexivity. Qed.
Lemma b2_le a b : a <= b -> (b2 a <= b2 b)%R. Proof. apply bpow_le. Qed.
Lemma b2_lt a b : a < b -> (b2 a < b2 b)%R. Proof. apply bpow_lt. Qed.
Lemma b2_0 : b2 0 = 1%R. Proof. reflexivity. Qed.
Lemma b2_half e : b2 (e - 1) = (/ 2 * b2 e)%R.
Proof. replace e with ((e - 1) + 1) at 2 by lia. rewrite b2_add. change (b2 1) with 2%R. field. Qed.

(* M * 2^(E - k) = Q * 2^(e0 - k) over Z  gives  M * 2^E = Q * 2^e0 over R *)
Lemma scaled_eq M E Q e0 k : k <= E -> k <= e0 -> M * 2 ^ (E - k) = Q * 2 ^ (e0 - k) ->
  (IZR M * b2 E = IZR Q * b2 e0)%R.
Proof.
  intros H1 H2 H. replace E with ((E - k) + k) by lia. replace e0 with ((e0 - k) + k) by lia.
  rewrite !b2_add, <- !Rmult_assoc. f_equal.
  rewrite <- (IZR_pow2 (E - k)), <- (IZR_pow2 (e0 - k)), <- !mult_IZR by lia. rewrite H. reflexivity.
Qed.

(* ---------- rounding a positive dyadic ---------- *)
Lemma bias_eq f : fmt_ok f -> emin f = 3 - Z.succ (bias f) - prec f /\ emax_field f = 2 * Z.succ (bias f) - 1 /\ 1 <= bias f.
Proof.
  intros [Hp He]. unfold emin, bias, emax_field.
  assert (2 ^ ebits f = 2 * 2 ^ (ebits f - 1)).
  { replace (ebits f) with (ebits f - 1 + 1) at 1 by lia. rewrite Z.pow_add_r by lia. lia. }
  assert (2 <= 2 ^ (ebits f - 1)).
  { change 2 with (2 ^ 1) at 1. apply Z.pow_le_mono_r; lia. }
  lia.
Qed.

Lemma rne_dy_pos_R f s m e : fmt_ok f -> 0 < m ->
  (IZR m * b2 e < b2 (bias f))%R ->
  let e0 := round_exp f m e in
  exists M E, decode f (rne_dy_pos f s m e) = FFin s M E /\ 0 <= M /\
    (Rabs (IZR M * b2 E - IZR m * b2 e) <= / 2 * b2 e0)%R /\
    (e0 <= e -> (IZR M * b2 E = IZR m * b2 e)%R) /\
    (e0 = emin f \/ (b2 (e0 + prec f - 1) <= IZR m * b2 e)%R).
Proof.
  intros Hf Hm Hov e0.
  pose proof (round_int_spec f m e Hf Hm) as S. cbv zeta in S. fold e0 in S.
  destruct S as (He0 & HQ & Hc & Hex & Hrn).
  pose proof (log2_bounds m Hm) as [Lb Ub].
  destruct Hf as [Hp Heb]. pose proof (bias_eq f (conj Hp Heb)) as (Eemin & Eemax & Hb1).
  (* the magnitude bound gives  log2 m + e < bias *)
  assert (Hlog : Z.log2 m + e < bias f).
  { apply (lt_bpow radix2). fold (b2 (Z.log2 m + e)). fold (b2 (bias f)).
    apply Rle_lt_trans with (2 := Hov). rewrite b2_add, <- IZR_pow2 by apply Z.log2_nonneg.
    apply Rmult_le_compat_r; [left; apply b2_pos|apply IZR_le; exact Lb]. }
  assert (Hnorm : e0 = emin f \/ (b2 (e0 + prec f - 1) <= IZR m * b2 e)%R).
  { destruct (Z.eq_dec e0 (emin f)) as [E|N]; [left; exact E|right].
    assert (e0 = Z.log2 m + e - prec f + 1) as -> by (unfold e0, round_exp in *; lia).
    replace (Z.log2 m + e - prec f + 1 + prec f - 1) with (Z.log2 m + e) by lia.
    rewrite b2_add, <- IZR_pow2 by apply Z.log2_nonneg.
    apply Rmult_le_compat_r; [left; apply b2_pos|apply IZR_le; exact Lb]. }
  destruct (rne_dy_pos_correct f s m e (conj Hp Heb) Hm) as [[_ Hinf]|(M & E & D & V & HM & HE & _)].
  - exfalso. fold e0 in Hinf. unfold e0, round_exp in Hinf.
    destruct (round_int f m e =? 2 ^ prec f); lia.
  - fold e0 in V. exists M, E. split; [exact D|]. split; [lia|].
    pose proof (scaled_eq M E _ e0 (emin f) HE He0 V) as VR.
    split; [|split; [|exact Hnorm]].
    + rewrite VR. destruct (Z_le_gt_dec e0 e) as [C|C].
      * specialize (Hex C). rewrite Z.mul_1_r in Hex. rewrite Hex, mult_IZR, IZR_pow2 by lia.
        rewrite Rmult_assoc, <- b2_add. replace (e - e0 + e0) with e by lia.
        rewrite Rminus_diag_eq by reflexivity. rewrite Rabs_R0.
        apply Rmult_le_pos; [lra|left; apply b2_pos].
      * destruct (Hrn ltac:(lia)) as [Hn _]. set (k := e0 - e) in *.
        replace e0 with (k + e) at 1 by (unfold k; lia). rewrite b2_add, <- Rmult_assoc, <- Rmult_minus_distr_r.
        rewrite Rabs_mult, (Rabs_pos_eq (b2 e)) by (left; apply b2_pos).
        replace e0 with (k + e) by (unfold k; lia). rewrite b2_add, <- Rmult_assoc.
        apply Rmult_le_compat_r; [left; apply b2_pos|].
        rewrite <- IZR_pow2, <- mult_IZR, <- minus_IZR, Rabs_Zabs by lia.
        assert (Z.abs (round_int f m e * 2 ^ k - m) = Z.abs (m - round_int f m e * 2 ^ k)) as -> by lia.
        apply IZR_le in Hn. rewrite mult_IZR in Hn. lra.
    + intros C. rewrite VR. specialize (Hex C). rewrite Z.mul_1_r in Hex. rewrite Hex, mult_IZR, IZR_pow2 by lia.
      rewrite Rmult_assoc, <- b2_add. replace (e - e0 + e0) with e by lia. reflexivity.
Qed.

(* the error of rounding v is at most  u*v  in the normal range and  eta  below it *)
Lemma half_ulp_bound f e0 v : fmt_ok f -> emin f <= e0 -> (0 <= v)%R ->
  (e0 = emin f \/ (b2 (e0 + prec f - 1) <= v)%R) ->
  (/ 2 * b2 e0 <= u_ f * v + eta_ f)%R /\ ((b2 (emin f + prec f - 1) <= v)%R -> (/ 2 * b2 e0 <= u_ f * v)%R).
Proof.
  intros [Hp He] Hle Hv Hn. unfold u_, eta_.
  assert (P : (/ 2 * b2 e0 = b2 (- prec f) * b2 (e0 + prec f - 1))%R).
  { rewrite <- b2_add, <- b2_half. f_equal. lia. }
  pose proof (b2_pos (- prec f)) as Hu. pose proof (b2_pos (emin f - 1)) as Heta.
  split.
  - destruct Hn as [E|N].
    + subst e0. rewrite <- b2_half. assert (0 <= b2 (- prec f) * v)%R by (apply Rmult_le_pos; lra). lra.
    + rewrite P. apply Rle_trans with (b2 (- prec f) * v)%R; [apply Rmult_le_compat_l; lra|lra].
  - intros Hnorm. rewrite P. apply Rmult_le_compat_l; [lra|].
    destruct Hn as [E|N]; [subst e0; exact Hnorm|exact N].
Qed.

(* ---------- rounding a positive rational n / d ---------- *)
Lemma b2_opp e : b2 (- e) = (/ b2 e)%R. Proof. apply bpow_opp. Qed.

Lemma sc_ratio n d x : 0 < d -> (IZR (scN n x) = IZR n / IZR d * b2 (- x) * IZR (scD d x))%R.
Proof.
  intros Hd. assert (IZR d <> 0)%R by (apply not_0_IZR; lia).
  pose proof (b2_pos x). unfold scN, scD. rewrite !mult_IZR, !IZR_pow2 by lia.
  destruct (Z_le_gt_dec 0 x) as [C|C].
  - replace (Z.max 0 (- x)) with 0 by lia. replace (Z.max 0 x) with x by lia. rewrite b2_opp, b2_0. field. lra.
  - replace (Z.max 0 (- x)) with (- x) by lia. replace (Z.max 0 x) with 0 by lia. rewrite b2_0. field. lra.
Qed.

Lemma rne_pos_R f s n d : fmt_ok f -> 0 < n -> 0 < d ->
  (IZR n / IZR d < b2 (bias f))%R ->
  let e0 := qexp f n d in
  exists M E, decode f (rne_pos f s n d) = FFin s M E /\ 0 <= M /\
    (Rabs (IZR M * b2 E - IZR n / IZR d) <= / 2 * b2 e0)%R /\
    (e0 = emin f \/ (b2 (e0 + prec f - 1) <= IZR n / IZR d)%R).
Proof.
  intros Hf Hn Hd Hov e0.
  pose proof (qint_spec f n d Hf Hn Hd) as S. cbv zeta in S. fold e0 in S.
  destruct S as (He0 & HQ & Hc & Hnear & _).
  pose proof (qexp_spec f n d Hf Hn Hd) as S. cbv zeta in S. fold e0 in S. destruct S as (_ & [Hq0 Hq1] & Hqc).
  destruct Hf as [Hp Heb]. pose proof (bias_eq f (conj Hp Heb)) as (Eemin & Eemax & Hb1).
  set (N := scN n e0) in *. set (D := scD d e0) in *.
  assert (HD : 0 < D) by (apply (scD_pos n), Hd).
  assert (HDR : (0 < IZR D)%R) by (apply IZR_lt; exact HD).
  set (v := (IZR n / IZR d)%R) in *.
  assert (Hv : (0 < v)%R).
  { unfold v. apply Rdiv_lt_0_compat; apply IZR_lt; lia. }
  pose proof (sc_ratio n d e0 Hd) as Rt. fold N D v in Rt.
  (* v = N / D * 2^e0 *)
  assert (Vv : (v = IZR N / IZR D * b2 e0)%R).
  { rewrite Rt, b2_opp. pose proof (b2_pos e0). field. split; lra. }
  assert (Hnorm : e0 = emin f \/ (b2 (e0 + prec f - 1) <= v)%R).
  { destruct Hqc as [L|E]; [right|left; exact E].
    assert (2 ^ (prec f - 1) * D <= N).
    { apply Z.le_trans with (D * (N / D)); [nia|apply Z.mul_div_le; lia]. }
    replace (e0 + prec f - 1) with ((prec f - 1) + e0) by lia. rewrite b2_add, Vv.
    apply Rmult_le_compat_r; [left; apply b2_pos|].
    apply Rmult_le_reg_r with (IZR D); [exact HDR|]. unfold Rdiv. rewrite Rmult_assoc, Rinv_l, Rmult_1_r by lra.
    rewrite <- IZR_pow2, <- mult_IZR by lia. apply IZR_le. lia. }
  (* no overflow: N / D < 2^prec, so e0 + prec - 1 < bias *)
  assert (He0b : e0 + prec f - 1 < bias f \/ e0 = emin f).
  { destruct Hnorm as [E|Nm]; [right; exact E|left].
    apply (lt_bpow radix2). fold (b2 (e0 + prec f - 1)). fold (b2 (bias f)). lra. }
  destruct (rne_pos_correct f s n d (conj Hp Heb) Hn Hd) as [[_ Hinf]|(M & E & Dc & V & HM & HE & _)].
  - exfalso. fold e0 in Hinf. destruct (qint f n d =? 2 ^ prec f); lia.
  - fold e0 in V. exists M, E. split; [exact Dc|]. split; [lia|]. split; [|exact Hnorm].
    rewrite (scaled_eq M E _ e0 (emin f) HE He0 V), Vv, <- Rmult_minus_distr_r.
    rewrite Rabs_mult. rewrite (Rabs_pos_eq (b2 e0)) by (left; apply b2_pos).
    apply Rmult_le_compat_r; [left; apply b2_pos|].
    apply Rmult_le_reg_r with (IZR D); [exact HDR|].
    replace (Rabs (IZR (qint f n d) - IZR N / IZR D) * IZR D)%R with (Rabs (IZR (qint f n d * D - N))).
    2:{ rewrite <- (Rabs_pos_eq (IZR D)) at 2 by lra. rewrite <- Rabs_mult. f_equal.
        rewrite minus_IZR, mult_IZR. field. lra. }
    rewrite Rabs_Zabs. assert (Z.abs (qint f n d * D - N) = Z.abs (N - qint f n d * D)) as -> by lia.
    apply IZR_le in Hnear. rewrite mult_IZR in Hnear. lra.
Qed.

(* ---------- "r is the correctly rounded v" ---------- *)
Definition rounds_to (f : fmt) (r : Z) (v : R) : Prop :=
  finite f r /\
  (Rabs (B2R f r - v) <= u_ f * Rabs v + eta_ f)%R /\
  ((b2 (emin f + prec f - 1) <= Rabs v)%R -> (Rabs (B2R f r - v) <= u_ f * Rabs v)%R).

Definition sgR (s : bool) : R := if s then (-1)%R else 1%R.
Lemma IZR_sm s m : IZR (sm s m) = (sgR s * IZR m)%R.
Proof. destruct s; cbn [sm sgR]; [rewrite opp_IZR|]; ring. Qed.
Lemma Rabs_sgR s x : Rabs (sgR s * x) = Rabs x.
Proof. destruct s; cbn [sgR]; [replace (-1 * x)%R with (- x)%R by ring; apply Rabs_Ropp|f_equal; ring]. Qed.

Lemma decode_zero f s : fmt_ok f -> decode f (zero_bits f s) = FFin s 0 (emin f).
Proof.
  intros Hf. pose proof (encode_canon_decode f s 0 (emin f) Hf) as H.
  destruct Hf as [Hp He].
  assert (P : 0 < 2 ^ (prec f - 1)) by (apply pow_pos2; lia).
  assert (P2 : 0 < 2 ^ prec f) by (apply pow_pos2; lia).
  assert (E4 : 4 <= 2 ^ ebits f) by (change 4 with (2 ^ 2); apply Z.pow_le_mono_r; lia).
  specialize (H ltac:(lia) ltac:(lia) (or_intror eq_refl)). cbv zeta in H.
  assert (R : encode_canon f s 0 (emin f) = zero_bits f s).
  { unfold encode_canon, zero_bits. assert (0 =? 2 ^ prec f = false) as -> by lia.
    assert (0 <? 2 ^ (prec f - 1) = true) as -> by lia. lia. }
  rewrite R in H. destruct H as [[_ H]|(M & E & D & V & HM & HE & Hc)].
  - exfalso. assert (0 =? 2 ^ prec f = false) as E0 by lia. rewrite E0 in H. unfold emax_field in H. lia.
  - rewrite D. f_equal.
    + rewrite Z.mul_0_l in V. apply Z.mul_eq_0 in V. destruct V as [V|V]; [exact V|].
      exfalso. pose proof (pow_pos2 (E - emin f) ltac:(lia)). lia.
    + rewrite Z.mul_0_l in V. apply Z.mul_eq_0 in V. destruct V as [V|V].
      * subst M. destruct Hc as [Hc|Hc]; [lia|exact Hc].
      * exfalso. pose proof (pow_pos2 (E - emin f) ltac:(lia)). lia.
Qed.

Lemma rounds_to_zero f s : fmt_ok f -> rounds_to f (zero_bits f s) 0.
Proof.
  intros Hf. pose proof (decode_zero f s Hf) as D. split; [exists s, 0, (emin f); exact D|].
  unfold B2R. rewrite D. rewrite IZR_sm. replace (sgR s * 0 * b2 (emin f) - 0)%R with 0%R by ring.
  rewrite Rabs_R0. pose proof (b2_pos (emin f - 1)). unfold eta_, u_. split; [lra|intros; lra].
Qed.

Lemma rne_dy_pos_rounds f s m e : fmt_ok f -> 0 < m -> (IZR m * b2 e < b2 (bias f))%R ->
  rounds_to f (rne_dy_pos f s m e) (sgR s * (IZR m * b2 e)).
Proof.
  intros Hf Hm Hov. destruct (rne_dy_pos_R f s m e Hf Hm Hov) as (M & E & D & HM & Herr & _ & Hn).
  assert (Hv : (0 < IZR m * b2 e)%R) by (apply Rmult_lt_0_compat; [apply IZR_lt; lia|apply b2_pos]).
  pose proof (round_int_spec f m e Hf Hm) as S. cbv zeta in S. destruct S as (He0 & _).
  destruct (half_ulp_bound f _ _ Hf He0 (Rlt_le _ _ Hv) Hn) as [B1 B2].
  split; [exists s, M, E; exact D|]. unfold B2R. rewrite D, IZR_sm.
  replace (sgR s * IZR M * b2 E - sgR s * (IZR m * b2 e))%R with (sgR s * (IZR M * b2 E - IZR m * b2 e))%R by ring.
  rewrite !Rabs_sgR, (Rabs_pos_eq (IZR m * b2 e)) by lra. split; [lra|intros Hno; specialize (B2 Hno); lra].
Qed.

Lemma rne_dy_rounds f s m e : fmt_ok f -> 0 <= m -> (IZR m * b2 e < b2 (bias f))%R ->
  rounds_to f (rne_dy f s m e) (sgR s * (IZR m * b2 e)).
Proof.
  intros Hf Hm Hov. unfold rne_dy. destruct (m =? 0) eqn:E0.
  - apply Z.eqb_eq in E0. subst m. replace (sgR s * (0 * b2 e))%R with 0%R by ring. apply rounds_to_zero, Hf.
  - apply rne_dy_pos_rounds; [exact Hf|lia|exact Hov].
Qed.

Lemma rne_dy_signed_rounds f zs M e : fmt_ok f -> (Rabs (IZR M * b2 e) < b2 (bias f))%R ->
  rounds_to f (rne_dy_signed f zs M e) (IZR M * b2 e).
Proof.
  intros Hf Hov. unfold rne_dy_signed. destruct (M =? 0) eqn:E0.
  - apply Z.eqb_eq in E0. subst M. rewrite Rmult_0_l. apply rounds_to_zero, Hf.
  - rewrite Rabs_mult, (Rabs_pos_eq (b2 e)), Rabs_Zabs in Hov by (left; apply b2_pos).
    destruct (M <? 0) eqn:E1.
    + replace (IZR M * b2 e)%R with (sgR true * (IZR (- M) * b2 e))%R by (cbn [sgR]; rewrite opp_IZR; ring).
      apply rne_dy_pos_rounds; [exact Hf|lia|]. replace (- M) with (Z.abs M) by lia. exact Hov.
    + replace (IZR M * b2 e)%R with (sgR false * (IZR M * b2 e))%R by (cbn [sgR]; ring).
      apply rne_dy_pos_rounds; [exact Hf|lia|]. replace M with (Z.abs M) at 1 by lia. exact Hov.
Qed.

Lemma rne_rounds f s n d : fmt_ok f -> 0 <= n -> 0 < d -> (IZR n / IZR d < b2 (bias f))%R ->
  rounds_to f (rne f s n d) (sgR s * (IZR n / IZR d)).
Proof.
  intros Hf Hn Hd Hov. unfold rne. destruct (n =? 0) eqn:E0.
  - apply Z.eqb_eq in E0. subst n. replace (sgR s * (0 / IZR d))%R with 0%R by (unfold Rdiv; ring).
    apply rounds_to_zero, Hf.
  - assert (Hn' : 0 < n) by lia.
    destruct (rne_pos_R f s n d Hf Hn' Hd Hov) as (M & E & D & HM & Herr & Hnm).
    assert (Hv : (0 < IZR n / IZR d)%R) by (apply Rdiv_lt_0_compat; apply IZR_lt; lia).
    pose proof (qint_spec f n d Hf Hn' Hd) as S. cbv zeta in S. destruct S as (He0 & _).
    destruct (half_ulp_bound f _ _ Hf He0 (Rlt_le _ _ Hv) Hnm) as [B1 B2].
    split; [exists s, M, E; exact D|]. unfold B2R. rewrite D, IZR_sm.
    replace (sgR s * IZR M * b2 E - sgR s * (IZR n / IZR d))%R with (sgR s * (IZR M * b2 E - IZR n / IZR d))%R by ring.
    rewrite !Rabs_sgR, (Rabs_pos_eq (IZR n / IZR d)) by lra. split; [lra|intros Hno; specialize (B2 Hno); lra].
Qed.

(* ---------- the arithmetic operations ---------- *)
Lemma decode_fin_nonneg f x s m e : fmt_ok f -> decode f x = FFin s m e -> 0 <= m.
Proof.
  intros [Hp He]. unfold decode. pose proof (pow_pos2 (prec f - 1) ltac:(lia)) as P.
  pose proof (Z.mod_pos_bound x _ P) as Hm. fold (mant_of f x) in Hm.
  destruct (expo_of f x =? emax_field f); [destruct (mant_of f x =? 0); discriminate|].
  destruct (expo_of f x =? 0); intros H; inversion H; subst; lia.
Qed.

Lemma B2R_fin f x s m e : decode f x = FFin s m e -> B2R f x = (sgR s * (IZR m * b2 e))%R.
Proof. intros D. unfold B2R. rewrite D, IZR_sm. ring. Qed.

Lemma sgR_xorb a b : sgR (xorb a b) = (sgR a * sgR b)%R.
Proof. destruct a, b; cbn; ring. Qed.

Theorem fmul_R f x y : fmt_ok f -> 0 <= x -> 0 <= y -> finite f x -> finite f y ->
  (Rabs (B2R f x * B2R f y) < b2 (bias f))%R ->
  rounds_to f (fmul f x y) (B2R f x * B2R f y).
Proof.
  intros Hf Hx Hy (s1 & m1 & e1 & D1) (s2 & m2 & e2 & D2) Hov.
  pose proof Hf as [Hp He].
  rewrite (fmul_finite f x y _ _ _ _ _ _ Hx Hy ltac:(lia) ltac:(lia) D1 D2).
  rewrite (B2R_fin _ _ _ _ _ D1), (B2R_fin _ _ _ _ _ D2) in *.
  pose proof (decode_fin_nonneg _ _ _ _ _ Hf D1). pose proof (decode_fin_nonneg _ _ _ _ _ Hf D2).
  replace (sgR s1 * (IZR m1 * b2 e1) * (sgR s2 * (IZR m2 * b2 e2)))%R
    with (sgR (xorb s1 s2) * (IZR (m1 * m2) * b2 (e1 + e2)))%R in * by (rewrite sgR_xorb, mult_IZR, b2_add; ring).
  apply rne_dy_rounds; [exact Hf|nia|].
  rewrite Rabs_sgR, Rabs_pos_eq in Hov; [exact Hov|].
  apply Rmult_le_pos; [apply IZR_le; nia|left; apply b2_pos].
Qed.

Theorem fadd_R f x y : fmt_ok f -> 0 <= x -> 0 <= y -> finite f x -> finite f y ->
  (Rabs (B2R f x + B2R f y) < b2 (bias f))%R ->
  rounds_to f (fadd f x y) (B2R f x + B2R f y).
Proof.
  intros Hf Hx Hy (s1 & m1 & e1 & D1) (s2 & m2 & e2 & D2) Hov.
  pose proof Hf as [Hp He].
  rewrite (fadd_finite f x y _ _ _ _ _ _ Hx Hy ltac:(lia) ltac:(lia) D1 D2).
  rewrite (B2R_fin _ _ _ _ _ D1), (B2R_fin _ _ _ _ _ D2) in *.
  set (e := Z.min e1 e2) in *.
  assert (V : (sgR s1 * (IZR m1 * b2 e1) + sgR s2 * (IZR m2 * b2 e2) =
               IZR (sm s1 (m1 * 2 ^ (e1 - e)) + sm s2 (m2 * 2 ^ (e2 - e))) * b2 e)%R).
  { rewrite plus_IZR, !IZR_sm, !mult_IZR, !IZR_pow2 by (unfold e; lia).
    replace e1 with ((e1 - e) + e) at 1 by lia. replace e2 with ((e2 - e) + e) at 1 by lia.
    rewrite !b2_add. ring. }
  rewrite V in *. apply rne_dy_signed_rounds; assumption.
Qed.

(* ---------- negation, subtraction ---------- *)
Lemma bits_decompose f x : fmt_ok f -> 0 <= x < 2 ^ width f ->
  let P := 2 ^ (prec f - 1) in let E := 2 ^ ebits f in
  0 < P /\ 0 < E /\ 2 ^ (width f - 1) = P * E /\
  x = (x / (P * E)) * (P * E) + expo_of f x * P + mant_of f x /\
  (x / (P * E) = 0 \/ x / (P * E) = 1) /\ 0 <= expo_of f x < E /\ 0 <= mant_of f x < P.
Proof.
  intros [Hp He] Hx P E. assert (HP : 0 < P) by (apply pow_pos2; lia). assert (HE : 0 < E) by (apply pow_pos2; lia).
  assert (HW : 2 ^ (width f - 1) = P * E).
  { unfold width, P, E. replace (prec f + ebits f - 1) with (prec f - 1 + ebits f) by lia. apply Z.pow_add_r; lia. }
  assert (HW2 : 2 ^ width f = 2 * (P * E)).
  { rewrite <- HW. replace (width f) with (width f - 1 + 1) at 1 by lia. rewrite Z.pow_add_r by (unfold width; lia). lia. }
  unfold expo_of, mant_of. fold P E.
  pose proof (Z.div_mod x P ltac:(lia)) as D1. pose proof (Z.mod_pos_bound x P HP) as M1.
  pose proof (Z.div_mod (x / P) E ltac:(lia)) as D2. pose proof (Z.mod_pos_bound (x / P) E HE) as M2.
  rewrite Z.div_div in D2 by lia.
  assert (Hs : 0 <= x / (P * E) < 2).
  { split; [apply Z.div_pos; nia|apply Z.div_lt_upper_bound; nia]. }
  repeat split; try lia; try nia.
Qed.

Lemma decode_fneg f x : fmt_ok f -> 0 <= x < 2 ^ width f ->
  0 <= fneg f x < 2 ^ width f /\
  decode f (fneg f x) = match decode f x with FFin s m e => FFin (negb s) m e | FInf s => FInf (negb s) | FNaN => FNaN end.
Proof.
  intros Hf Hx. destruct (bits_decompose f x Hf Hx) as (HP & HE & HW & Dx & Hs & Hex & Hma). cbv zeta in *.
  set (P := 2 ^ (prec f - 1)) in *. set (E := 2 ^ ebits f) in *. set (s0 := x / (P * E)) in *.
  assert (HW2 : 2 ^ width f = 2 * (P * E)).
  { rewrite <- HW. replace (width f) with (width f - 1 + 1) at 1 by lia.
    destruct Hf. rewrite Z.pow_add_r by (unfold width; lia). lia. }
  assert (Hsg : sign_of f x = (0 <? s0)) by (unfold sign_of; rewrite HW; reflexivity).
  set (s1 := 1 - s0).
  assert (Hn : fneg f x = s1 * (P * E) + expo_of f x * P + mant_of f x).
  { unfold fneg. rewrite Hsg, HW. unfold s1. destruct Hs as [Hs|Hs]; rewrite Hs in *; cbn [Z.ltb Z.compare]; lia. }
  destruct (fields s1 (expo_of f x) (mant_of f x) P E HP HE Hma Hex ltac:(unfold s1; lia)) as (F1 & F2 & F3).
  cbv zeta in F1, F2, F3. rewrite <- Hn in F1, F2, F3.
  split; [rewrite Hn; unfold s1; nia|].
  assert (A1 : sign_of f (fneg f x) = negb (sign_of f x)).
  { unfold sign_of at 1. rewrite HW, F1, Hsg. unfold s1. destruct Hs as [Hs|Hs]; rewrite Hs; reflexivity. }
  assert (A2 : expo_of f (fneg f x) = expo_of f x) by (unfold expo_of at 1; fold P E; exact F2).
  assert (A3 : mant_of f (fneg f x) = mant_of f x) by (unfold mant_of at 1; fold P; exact F3).
  unfold decode. rewrite A1, A2, A3.
  destruct (expo_of f x =? emax_field f); [destruct (mant_of f x =? 0); reflexivity|].
  destruct (expo_of f x =? 0); reflexivity.
Qed.

Lemma sgR_negb s : sgR (negb s) = (- sgR s)%R. Proof. destruct s; cbn; ring. Qed.

Lemma fneg_R f x : fmt_ok f -> 0 <= x < 2 ^ width f -> finite f x ->
  finite f (fneg f x) /\ B2R f (fneg f x) = (- B2R f x)%R.
Proof.
  intros Hf Hx (s & m & e & D). destruct (decode_fneg f x Hf Hx) as [_ Dn]. rewrite D in Dn.
  split; [exists (negb s), m, e; exact Dn|]. rewrite (B2R_fin _ _ _ _ _ D), (B2R_fin _ _ _ _ _ Dn), sgR_negb. ring.
Qed.

Theorem fsub_R f x y : fmt_ok f -> 0 <= x -> 0 <= y < 2 ^ width f -> finite f x -> finite f y ->
  (Rabs (B2R f x - B2R f y) < b2 (bias f))%R ->
  rounds_to f (fsub f x y) (B2R f x - B2R f y).
Proof.
  intros Hf Hx Hy Fx Fy Hov. unfold fsub, is_nan.
  destruct Fx as (s1 & m1 & e1 & D1). destruct Fy as (s2 & m2 & e2 & D2). rewrite D1, D2.
  destruct (fneg_R f y Hf Hy (ex_intro _ s2 (ex_intro _ m2 (ex_intro _ e2 D2)))) as [Fn Vn].
  destruct (decode_fneg f y Hf Hy) as [Rn _].
  replace (B2R f x - B2R f y)%R with (B2R f x + B2R f (fneg f y))%R in * by (rewrite Vn; ring).
  apply fadd_R; [exact Hf|exact Hx|lia|exists s1, m1, e1; exact D1|exact Fn|exact Hov].
Qed.

(* ---------- division ---------- *)
Theorem fdiv_R f x y : fmt_ok f -> 0 <= x -> 0 <= y -> finite f x -> finite f y -> B2R f y <> 0%R ->
  (Rabs (B2R f x / B2R f y) < b2 (bias f))%R ->
  rounds_to f (fdiv f x y) (B2R f x / B2R f y).
Proof.
  intros Hf Hx Hy (s1 & m1 & e1 & D1) (s2 & m2 & e2 & D2) Hy0 Hov.
  pose proof Hf as [Hp He].
  pose proof (decode_fin_nonneg _ _ _ _ _ Hf D1) as Hm1. pose proof (decode_fin_nonneg _ _ _ _ _ Hf D2) as Hm2.
  rewrite (B2R_fin _ _ _ _ _ D1), (B2R_fin _ _ _ _ _ D2) in *.
  assert (Hm2' : m2 <> 0). { intros ->. apply Hy0. ring. }
  rewrite (fdiv_finite f x y _ _ _ _ _ _ Hx Hy ltac:(lia) ltac:(lia) D1 D2 Hm2').
  assert (Hs2 : sgR s2 <> 0%R) by (destruct s2; cbn; lra).
  assert (HmR : (0 < IZR m2)%R) by (apply IZR_lt; lia).
  pose proof (b2_pos e2) as Hb2. pose proof (b2_pos e1) as Hb1.
  unfold frac_of. destruct (0 <=? e1 - e2) eqn:C.
  - apply Z.leb_le in C. rewrite pow2_eq by lia.
    assert (V : (sgR s1 * (IZR m1 * b2 e1) / (sgR s2 * (IZR m2 * b2 e2)) =
                 sgR (xorb s1 s2) * (IZR (m1 * 2 ^ (e1 - e2)) / IZR (1 * m2)))%R).
    { rewrite sgR_xorb, !mult_IZR, IZR_pow2 by lia. replace e1 with ((e1 - e2) + e2) at 1 by lia. rewrite b2_add.
      destruct s1, s2; cbn [sgR]; field; lra. }
    rewrite V in *. rewrite Rabs_sgR in Hov.
    apply rne_rounds; [exact Hf|apply Z.mul_nonneg_nonneg; [lia|apply Z.pow_nonneg; lia]|lia|].
    apply Rle_lt_trans with (2 := Hov). apply Rle_abs.
  - apply Z.leb_gt in C. rewrite pow2_eq by lia.
    assert (V : (sgR s1 * (IZR m1 * b2 e1) / (sgR s2 * (IZR m2 * b2 e2)) =
                 sgR (xorb s1 s2) * (IZR m1 / IZR (2 ^ (- (e1 - e2)) * m2)))%R).
    { rewrite sgR_xorb, !mult_IZR, IZR_pow2 by lia. replace e2 with (- (e1 - e2) + e1) at 1 by lia. rewrite b2_add.
      pose proof (b2_pos (- (e1 - e2))). destruct s1, s2; cbn [sgR]; field; lra. }
    rewrite V in *. rewrite Rabs_sgR in Hov.
    apply rne_rounds; [exact Hf|lia| |].
    + apply Z.mul_pos_pos; [apply pow_pos2; lia|lia].
    + apply Rle_lt_trans with (2 := Hov). apply Rle_abs.
Qed.

(* ---------- comparison ---------- *)
Theorem flt_R f x y : fmt_ok f -> finite f x -> finite f y ->
  flt f x y = true <-> (B2R f x < B2R f y)%R.
Proof.
  intros Hf (s1 & m1 & e1 & D1) (s2 & m2 & e2 & D2). unfold flt, fcompare. rewrite D1, D2.
  rewrite (B2R_fin _ _ _ _ _ D1), (B2R_fin _ _ _ _ _ D2), <- !Rmult_assoc, <- !IZR_sm.
  set (e := Z.min e1 e2). rewrite !pow2_eq by (unfold e; lia).
  assert (B1 : b2 e1 = (IZR (2 ^ (e1 - e)) * b2 e)%R).
  { rewrite IZR_pow2 by (unfold e; lia). rewrite <- b2_add. f_equal. lia. }
  assert (B2 : b2 e2 = (IZR (2 ^ (e2 - e)) * b2 e)%R).
  { rewrite IZR_pow2 by (unfold e; lia). rewrite <- b2_add. f_equal. lia. }
  rewrite B1, B2, <- !Rmult_assoc, <- !mult_IZR.
  set (a := sm s1 m1 * 2 ^ (e1 - e)). set (b := sm s2 m2 * 2 ^ (e2 - e)). pose proof (b2_pos e) as He.
  split.
  - intros H. apply Rmult_lt_compat_r; [exact He|]. apply IZR_lt.
    destruct (a <? b) eqn:C; [lia|]. destruct (a =? b); discriminate.
  - intros H. apply Rmult_lt_reg_r in H; [|exact He]. apply lt_IZR in H.
    assert (a <? b = true) as -> by lia. reflexivity.
Qed.

Print Assumptions fmul_R.
Print Assumptions fdiv_R.

(* SFReal2.v — additions and subtractions have no underflow error: the rounded sum is within u * |exact| always. *)
From Coq Require Import ZArith Reals Lia Lra Bool.
From Flocq Require Import Core.Zaux Core.Raux.
From IVG Require Import SF SFProofs SFRound SFReal.
Local Open Scope Z_scope.

Definition rounds_rel_to (f : fmt) (r : Z) (v : R) : Prop :=
  finite f r /\ (Rabs (B2R f r - v) <= u_ f * Rabs v)%R.

Lemma decode_fin_exp f x s m e : fmt_ok f -> decode f x = FFin s m e -> emin f <= e.
Proof.
  intros [Hp He]. unfold decode. pose proof (pow_pos2 (ebits f) ltac:(lia)) as P.
  pose proof (Z.mod_pos_bound (x / 2 ^ (prec f - 1)) _ P) as Hm. fold (expo_of f x) in Hm.
  destruct (expo_of f x =? emax_field f); [destruct (mant_of f x =? 0); discriminate|].
  destruct (expo_of f x =? 0) eqn:E0; intros H; inversion H; subst; lia.
Qed.

Lemma rne_dy_pos_rel f s m e : fmt_ok f -> 0 < m -> emin f <= e -> (IZR m * b2 e < b2 (bias f))%R ->
  rounds_rel_to f (rne_dy_pos f s m e) (sgR s * (IZR m * b2 e)).
Proof.
  intros Hf Hm He Hov. destruct (rne_dy_pos_R f s m e Hf Hm Hov) as (M & E & D & HM & Herr & Hex & Hn).
  assert (Hv : (0 < IZR m * b2 e)%R) by (apply Rmult_lt_0_compat; [apply IZR_lt; lia|apply b2_pos]).
  pose proof (round_int_spec f m e Hf Hm) as S. cbv zeta in S. destruct S as (He0 & _).
  split; [exists s, M, E; exact D|]. unfold B2R. rewrite D, IZR_sm.
  replace (sgR s * IZR M * b2 E - sgR s * (IZR m * b2 e))%R with (sgR s * (IZR M * b2 E - IZR m * b2 e))%R by ring.
  rewrite !Rabs_sgR, (Rabs_pos_eq (IZR m * b2 e)) by lra.
  destruct (Z_le_gt_dec (round_exp f m e) e) as [C|C].
  - rewrite (Hex C), Rminus_diag_eq, Rabs_R0 by reflexivity.
    apply Rmult_le_pos; [left; apply b2_pos|lra].
  - destruct Hn as [E0|Hn]; [lia|].
    destruct (half_ulp_bound f _ _ Hf He0 (Rlt_le _ _ Hv) (or_intror Hn)) as [_ B2].
    (* the normal-range clause, directly *)
    unfold u_. assert (P : (/ 2 * b2 (round_exp f m e) = b2 (- prec f) * b2 (round_exp f m e + prec f - 1))%R).
    { rewrite <- b2_add, <- b2_half. f_equal. lia. }
    eapply Rle_trans; [exact Herr|]. rewrite P. apply Rmult_le_compat_l; [left; apply b2_pos|exact Hn].
Qed.

Lemma rounds_rel_zero f s : fmt_ok f -> rounds_rel_to f (zero_bits f s) 0.
Proof.
  intros Hf. pose proof (decode_zero f s Hf) as D. split; [exists s, 0, (emin f); exact D|].
  unfold B2R. rewrite D, IZR_sm. replace (sgR s * 0 * b2 (emin f) - 0)%R with 0%R by ring.
  rewrite Rabs_R0, Rmult_0_r. lra.
Qed.

Lemma rne_dy_signed_rel f zs M e : fmt_ok f -> emin f <= e -> (Rabs (IZR M * b2 e) < b2 (bias f))%R ->
  rounds_rel_to f (rne_dy_signed f zs M e) (IZR M * b2 e).
Proof.
  intros Hf He Hov. unfold rne_dy_signed. destruct (M =? 0) eqn:E0.
  - apply Z.eqb_eq in E0. subst M. rewrite Rmult_0_l. apply rounds_rel_zero, Hf.
  - rewrite Rabs_mult, (Rabs_pos_eq (b2 e)), Rabs_Zabs in Hov by (left; apply b2_pos).
    destruct (M <? 0) eqn:E1.
    + replace (IZR M * b2 e)%R with (sgR true * (IZR (- M) * b2 e))%R by (cbn [sgR]; rewrite opp_IZR; ring).
      apply rne_dy_pos_rel; [exact Hf|lia|exact He|]. replace (- M) with (Z.abs M) by lia. exact Hov.
    + replace (IZR M * b2 e)%R with (sgR false * (IZR M * b2 e))%R by (cbn [sgR]; ring).
      apply rne_dy_pos_rel; [exact Hf|lia|exact He|]. replace M with (Z.abs M) at 1 by lia. exact Hov.
Qed.

Theorem fadd_R_rel f x y : fmt_ok f -> 0 <= x -> 0 <= y -> finite f x -> finite f y ->
  (Rabs (B2R f x + B2R f y) < b2 (bias f))%R ->
  rounds_rel_to f (fadd f x y) (B2R f x + B2R f y).
Proof.
  intros Hf Hx Hy (s1 & m1 & e1 & D1) (s2 & m2 & e2 & D2) Hov.
  pose proof Hf as [Hp He].
  pose proof (decode_fin_exp _ _ _ _ _ Hf D1). pose proof (decode_fin_exp _ _ _ _ _ Hf D2).
  rewrite (fadd_finite f x y _ _ _ _ _ _ Hx Hy ltac:(lia) ltac:(lia) D1 D2).
  rewrite (B2R_fin _ _ _ _ _ D1), (B2R_fin _ _ _ _ _ D2) in *.
  set (e := Z.min e1 e2) in *.
  assert (V : (sgR s1 * (IZR m1 * b2 e1) + sgR s2 * (IZR m2 * b2 e2) =
               IZR (sm s1 (m1 * 2 ^ (e1 - e)) + sm s2 (m2 * 2 ^ (e2 - e))) * b2 e)%R).
  { rewrite plus_IZR, !IZR_sm, !mult_IZR, !IZR_pow2 by (unfold e; lia).
    replace e1 with ((e1 - e) + e) at 1 by lia. replace e2 with ((e2 - e) + e) at 1 by lia.
    rewrite !b2_add. ring. }
  rewrite V in *. apply rne_dy_signed_rel; [exact Hf|unfold e; lia|exact Hov].
Qed.

Theorem fsub_R_rel f x y : fmt_ok f -> 0 <= x -> 0 <= y < 2 ^ width f -> finite f x -> finite f y ->
  (Rabs (B2R f x - B2R f y) < b2 (bias f))%R ->
  rounds_rel_to f (fsub f x y) (B2R f x - B2R f y).
Proof.
  intros Hf Hx Hy Fx Fy Hov. unfold fsub, is_nan.
  destruct Fx as (s1 & m1 & e1 & D1). destruct Fy as (s2 & m2 & e2 & D2). rewrite D1, D2.
  destruct (fneg_R f y Hf Hy (ex_intro _ s2 (ex_intro _ m2 (ex_intro _ e2 D2)))) as [Fn Vn].
  destruct (decode_fneg f y Hf Hy) as [Rn _].
  replace (B2R f x - B2R f y)%R with (B2R f x + B2R f (fneg f y))%R in * by (rewrite Vn; ring).
  apply fadd_R_rel; [exact Hf|exact Hx|lia|exists s1, m1, e1; exact D1|exact Fn|exact Hov].
Qed.

(* integer to float: exact value i, rounded *)
Theorem of_Z_R f i : fmt_ok f -> (Rabs (IZR i) < b2 (bias f))%R ->
  rounds_rel_to f (of_Z f i) (IZR i).
Proof.
  intros Hf Hov. unfold of_Z. replace (IZR i) with (IZR i * b2 0)%R by (rewrite b2_0; ring).
  apply rne_dy_signed_rel; [exact Hf| |rewrite b2_0, Rmult_1_r; exact Hov].
  destruct Hf as [Hp He]. unfold emin. pose proof (pow_pos2 (ebits f - 1) ltac:(lia)). lia.
Qed.

(* results stay bit patterns of the format *)
Print Assumptions fadd_R_rel.

(* SFRound.v — the rounding core of the soft-float (model/SF.v) against a mathematical specification:
   encode_canon / decode round trip, and rne_dy_pos = round-to-nearest-even of the dyadic m * 2^e at the
   exponent max(emin, floor(log2 value) - prec + 1).  fadd, fmul, fsqrt, of_Z and convert all round through it. *)
From Coq Require Import ZArith Bool Lia.
From IVG Require Import SF SFProofs.
Local Open Scope Z_scope.

Definition fmt_ok (f : fmt) : Prop := 2 <= prec f /\ 2 <= ebits f.
Lemma F32_ok : fmt_ok F32. Proof. split; cbn; lia. Qed.
Lemma F64_ok : fmt_ok F64. Proof. split; cbn; lia. Qed.

Lemma pow_pos2 k : 0 <= k -> 0 < 2 ^ k.
Proof. intros. apply Z.pow_pos_nonneg; lia. Qed.

(* bits = s * (P*E) + ex * P + mant with the fields in range: the three field extractors *)
Lemma fields s ex mant P E : 0 < P -> 0 < E -> 0 <= mant < P -> 0 <= ex < E -> (s = 0 \/ s = 1) ->
  let b := s * (P * E) + ex * P + mant in
  b / (P * E) = s /\ (b / P) mod E = ex /\ b mod P = mant.
Proof.
  intros HP HE Hm He Hs b.
  assert (Hb1 : b / P = s * E + ex).
  { symmetry. apply (Z.div_unique b P (s * E + ex) mant); [lia|unfold b; ring]. }
  split; [|split].
  - symmetry. apply (Z.div_unique b (P * E) s (ex * P + mant)); [|unfold b; ring]. left. split; nia.
  - rewrite Hb1. symmetry. apply (Z.mod_unique (s * E + ex) E s ex); [lia|ring].
  - symmetry. apply (Z.mod_unique b P (s * E + ex) mant); [lia|unfold b; ring].
Qed.

Definition sbitn (s : bool) : Z := if s then 1 else 0.

(* what encode_canon produces decodes to the same value: (m, e) canonical, no overflow *)
Lemma encode_canon_decode f s m e : fmt_ok f ->
  0 <= m <= 2 ^ prec f -> emin f <= e -> (2 ^ (prec f - 1) <= m \/ e = emin f) ->
  let r := encode_canon f s m e in
  (r = inf_bits f s /\ emax_field f <= (if m =? 2 ^ prec f then e + 1 else e) - emin f + 1) \/
  (exists M E, decode f r = FFin s M E /\ M * 2 ^ (E - emin f) = m * 2 ^ (e - emin f) /\
               0 <= M < 2 ^ prec f /\ emin f <= E /\ (2 ^ (prec f - 1) <= M \/ E = emin f)).
Proof.
  intros [Hp He] Hm Hem Hc. cbv zeta. unfold encode_canon.
  set (p := prec f) in *. set (P := 2 ^ (p - 1)).
  assert (HP : 0 < P) by (apply pow_pos2; lia).
  assert (HPP : 2 ^ p = 2 * P).
  { unfold P. replace p with (p - 1 + 1) at 1 by lia. rewrite Z.pow_add_r by lia. lia. }
  set (E := 2 ^ ebits f). assert (HE : 0 < E) by (apply pow_pos2; lia).
  assert (HE4 : 4 <= E) by (unfold E; change 4 with (2 ^ 2); apply Z.pow_le_mono_r; lia).
  assert (HW : 2 ^ (width f - 1) = P * E).
  { unfold width, P, E. fold p. replace (p + ebits f - 1) with (p - 1 + ebits f) by lia. apply Z.pow_add_r; lia. }
  assert (Hsb : sbit f s = sbitn s * (P * E)) by (unfold sbit, sbitn; rewrite HW; destruct s; lia).
  assert (Hsn : sbitn s = 0 \/ sbitn s = 1) by (destruct s; cbn; auto).
  assert (Hsign : forall b, b / (P * E) = sbitn s -> sign_of f b = s).
  { intros b Hb. unfold sign_of. rewrite HW, Hb. destruct s; reflexivity. }
  (* the pair after normalising m = 2^p *)
  destruct (m =? 2 ^ p) eqn:Emax.
  - (* m = 2^p: becomes (2^(p-1), e+1) *)
    apply Z.eqb_eq in Emax. assert (P <? P = false) as -> by lia.
    set (ex := e + 1 - emin f + 1).
    destruct (emax_field f <=? ex) eqn:Eo; [left; split; [reflexivity|lia]|]. right. apply Z.leb_gt in Eo.
    assert (Hex : 0 <= ex < E) by (unfold ex, emax_field in *; fold E in Eo; lia).
    replace (P - P) with 0 by lia. rewrite Hsb.
    destruct (fields (sbitn s) ex 0 P E HP HE ltac:(lia) Hex Hsn) as (F1 & F2 & F3). cbv zeta in F1, F2, F3.
    exists P, (e + 1). unfold decode, expo_of, mant_of. fold p. fold P. fold E.
    rewrite (Hsign _ F1), F2, F3.
    assert (ex =? emax_field f = false) as -> by (unfold emax_field in *; fold E in Eo |- *; lia).
    assert (ex =? 0 = false) as -> by lia.
    split; [f_equal; unfold ex; lia|]. split; [|split; [lia|split; [lia|left; lia]]].
    rewrite Emax, HPP. replace (e + 1 - emin f) with (e - emin f + 1) by lia. rewrite Z.pow_add_r by lia. ring.
  - apply Z.eqb_neq in Emax. assert (Hm' : 0 <= m < 2 * P) by lia.
    destruct (m <? P) eqn:Esub.
    + (* subnormal: e = emin *)
      apply Z.ltb_lt in Esub. destruct Hc as [Hc|Hc]; [lia|]. right. rewrite Hsb.
      replace (sbitn s * (P * E) + m) with (sbitn s * (P * E) + 0 * P + m) by ring.
      destruct (fields (sbitn s) 0 m P E HP HE ltac:(lia) ltac:(lia) Hsn) as (F1 & F2 & F3). cbv zeta in F1, F2, F3.
      exists m, (emin f). unfold decode, expo_of, mant_of. fold p. fold P. fold E. rewrite (Hsign _ F1), F2, F3.
      assert (0 =? emax_field f = false) as -> by (unfold emax_field; fold E; lia).
      cbn [Z.eqb]. split; [reflexivity|]. subst e. split; [reflexivity|]. split; [lia|]. split; [lia|right; reflexivity].
    + apply Z.ltb_ge in Esub. set (ex := e - emin f + 1).
      destruct (emax_field f <=? ex) eqn:Eo; [left; split; [reflexivity|lia]|]. right. apply Z.leb_gt in Eo.
      assert (Hex : 0 <= ex < E) by (unfold ex, emax_field in *; fold E in Eo; lia).
      rewrite Hsb.
      destruct (fields (sbitn s) ex (m - P) P E HP HE ltac:(lia) Hex Hsn) as (F1 & F2 & F3). cbv zeta in F1, F2, F3.
      exists m, e. unfold decode, expo_of, mant_of. fold p. fold P. fold E. rewrite (Hsign _ F1), F2, F3.
      assert (ex =? emax_field f = false) as -> by (unfold emax_field in *; fold E in Eo |- *; lia).
      assert (ex =? 0 = false) as -> by lia.
      split; [f_equal; unfold ex; lia|]. split; [reflexivity|]. split; [lia|]. split; [lia|left; lia].
Qed.

(* ---------- rounding a positive dyadic m * 2^e ---------- *)
(* the rounding exponent: the exponent of the last kept bit *)
Definition round_exp (f : fmt) (m e : Z) : Z := Z.max (emin f) (Z.log2 m + e - prec f + 1).

(* the integer the value is rounded to, in units of 2^(round_exp): exact when no bits are dropped, else
   nearest, ties to even *)
Definition round_int (f : fmt) (m e : Z) : Z :=
  let e0 := round_exp f m e in
  if e0 <=? e then m * 2 ^ (e - e0)
  else
    let k := e0 - e in
    let q := m / 2 ^ k in
    let r := m mod 2 ^ k in
    if (2 ^ (k - 1) <? r) || ((2 ^ (k - 1) =? r) && Z.odd q) then q + 1 else q.

Lemma log2_bounds m : 0 < m -> 2 ^ Z.log2 m <= m < 2 ^ (Z.log2 m + 1).
Proof. intros H. pose proof (Z.log2_spec m H). replace (Z.log2 m + 1) with (Z.succ (Z.log2 m)) by lia. lia. Qed.

Lemma rne_dy_pos_is_round f s m e : 0 < m ->
  rne_dy_pos f s m e = encode_canon f s (round_int f m e) (round_exp f m e).
Proof.
  intros Hm. unfold rne_dy_pos, round_int, round_exp.
  replace (Z.log2 m + e - prec f + 1) with (Z.log2 m + e - prec f + 1) by reflexivity.
  set (e0 := Z.max (emin f) (Z.log2 m + e - prec f + 1)).
  destruct (e0 <=? e) eqn:C.
  - apply Z.leb_le in C. rewrite Z.shiftl_mul_pow2 by lia. reflexivity.
  - apply Z.leb_gt in C. rewrite Z.shiftr_div_pow2, Z.land_ones by lia.
    rewrite pow2_eq by lia. reflexivity.
Qed.

(* the rounded integer is within half a unit of the exact quotient, is at most 2^prec, and is canonical *)
Lemma round_int_spec f m e : fmt_ok f -> 0 < m ->
  let e0 := round_exp f m e in
  let Q := round_int f m e in
  emin f <= e0 /\ 0 <= Q <= 2 ^ prec f /\ (2 ^ (prec f - 1) <= Q \/ e0 = emin f) /\
  (e0 <= e -> Q * 2 ^ 0 = m * 2 ^ (e - e0)) /\
  (e < e0 -> let k := e0 - e in
             2 * Z.abs (m - Q * 2 ^ k) <= 2 ^ k /\                  (* nearest *)
             (2 * Z.abs (m - Q * 2 ^ k) = 2 ^ k -> Z.even Q = true)).  (* ties to even *)
Proof.
  intros [Hp He] Hm. cbv zeta. unfold round_int, round_exp.
  set (p := prec f) in *. set (l := Z.log2 m).
  set (e0 := Z.max (emin f) (l + e - p + 1)).
  pose proof (log2_bounds m Hm) as [Lb Ub]. fold l in Lb, Ub. pose proof (Z.log2_nonneg m) as Hl. fold l in Hl.
  assert (He0 : emin f <= e0) by (unfold e0; lia).
  assert (HP : 0 < 2 ^ (p - 1)) by (apply pow_pos2; lia).
  assert (HPP : 2 ^ p = 2 * 2 ^ (p - 1)).
  { replace p with (p - 1 + 1) at 1 by lia. rewrite Z.pow_add_r by lia. lia. }
  split; [exact He0|].
  destruct (e0 <=? e) eqn:C.
  - apply Z.leb_le in C. set (j := e - e0).
    assert (Hj : 0 <= j) by (unfold j; lia).
    assert (U : m * 2 ^ j < 2 ^ p).
    { apply Z.lt_le_trans with (2 ^ (l + 1) * 2 ^ j).
      - apply Z.mul_lt_mono_pos_r; [apply pow_pos2; lia|exact Ub].
      - rewrite <- Z.pow_add_r by lia. apply Z.pow_le_mono_r; [lia|]. unfold j, e0. lia. }
    assert (L : 2 ^ (p - 1) <= m * 2 ^ j \/ e0 = emin f).
    { destruct (Z.eq_dec e0 (emin f)) as [E|N]; [right; exact E|left].
      assert (e0 = l + e - p + 1) by (unfold e0 in *; lia).
      apply Z.le_trans with (2 ^ l * 2 ^ j).
      - rewrite <- Z.pow_add_r by lia. apply Z.pow_le_mono_r; [lia|]. unfold j. lia.
      - apply Z.mul_le_mono_nonneg_r; [apply Z.pow_nonneg; lia|exact Lb]. }
    split; [split; [apply Z.mul_nonneg_nonneg; [lia|apply Z.pow_nonneg; lia]|lia]|].
    split; [exact L|]. split; [intros _; fold j; ring|intros; lia].
  - apply Z.leb_gt in C. set (k := e0 - e). assert (Hk : 0 < k) by (unfold k; lia).
    set (K := 2 ^ k). assert (HK : 0 < K) by (apply pow_pos2; lia).
    assert (HK2 : K = 2 * 2 ^ (k - 1)).
    { unfold K. replace k with (k - 1 + 1) at 1 by lia. rewrite Z.pow_add_r by lia. lia. }
    set (h := 2 ^ (k - 1)) in *. assert (Hh : 0 < h) by (apply pow_pos2; lia).
    pose proof (Z.div_mod m K ltac:(lia)) as Dm. pose proof (Z.mod_pos_bound m K HK) as Rm.
    set (q := m / K) in *. set (r := m mod K) in *.
    assert (Hq0 : 0 <= q) by (apply Z.div_pos; lia).
    (* q < 2^p, and q >= 2^(p-1) unless at emin *)
    assert (Uq : q < 2 ^ p).
    { apply Z.div_lt_upper_bound; [exact HK|]. apply Z.lt_le_trans with (2 ^ (l + 1)); [exact Ub|].
      unfold K. rewrite <- Z.pow_add_r by lia. apply Z.pow_le_mono_r; [lia|]. unfold k, e0. lia. }
    assert (Lq : 2 ^ (p - 1) <= q \/ e0 = emin f).
    { destruct (Z.eq_dec e0 (emin f)) as [E|N]; [right; exact E|left].
      assert (E0 : e0 = l + e - p + 1) by (unfold e0 in *; lia).
      apply Z.div_le_lower_bound; [exact HK|]. apply Z.le_trans with (2 ^ l); [|exact Lb].
      unfold K. rewrite <- Z.pow_add_r by lia. apply Z.pow_le_mono_r; [lia|]. unfold k. lia. }
    destruct ((h <? r) || ((h =? r) && Z.odd q)) eqn:Up.
    + split; [lia|]. split; [destruct Lq; [left; lia|right; assumption]|]. split; [intros; lia|]. intros _. cbv zeta. fold K.
      assert (Hr : h <= r) by (apply orb_true_iff in Up as [U|U]; [lia|apply andb_true_iff in U; lia]).
      split; [lia|]. intros Tie. assert (r = h) by lia.
      apply orb_true_iff in Up as [U|U]; [lia|]. apply andb_true_iff in U as [_ U].
      rewrite Z.even_add, <- Z.negb_odd, U. reflexivity.
    + split; [lia|]. split; [exact Lq|]. split; [intros; lia|]. intros _. cbv zeta. fold K.
      apply orb_false_iff in Up as [U1 U2].
      assert (Hr : r <= h) by lia. split; [lia|]. intros Tie. assert (r = h) by lia.
      apply andb_false_iff in U2 as [U2|U2]; [lia|]. rewrite <- Z.negb_odd, U2. reflexivity.
Qed.

(* rounding a positive dyadic: the result is infinity on overflow, and otherwise a finite float whose value is
   exactly the nearest-even rounding of m * 2^e at the rounding exponent *)
Theorem rne_dy_pos_correct f s m e : fmt_ok f -> 0 < m ->
  let e0 := round_exp f m e in let Q := round_int f m e in
  let r := rne_dy_pos f s m e in
  (r = inf_bits f s /\ emax_field f <= (if Q =? 2 ^ prec f then e0 + 1 else e0) - emin f + 1) \/
  (exists M E, decode f r = FFin s M E /\ M * 2 ^ (E - emin f) = Q * 2 ^ (e0 - emin f) /\
               0 <= M < 2 ^ prec f /\ emin f <= E /\ (2 ^ (prec f - 1) <= M \/ E = emin f)).
Proof.
  intros Hf Hm. cbv zeta. rewrite (rne_dy_pos_is_round f s m e Hm).
  pose proof (round_int_spec f m e Hf Hm) as H. cbv zeta in H. destruct H as (He0 & HQ & Hc & _).
  exact (encode_canon_decode f s _ _ Hf HQ He0 Hc).
Qed.

(* ---------- rounding a positive rational n / d (division, decimal literals) ---------- *)
(* n/d scaled by 2^-x as a fraction with positive denominator *)
Definition scN (n x : Z) : Z := n * 2 ^ Z.max 0 (- x).
Definition scD (d x : Z) : Z := d * 2 ^ Z.max 0 x.

Lemma scale_eq n d x : (if 0 <=? x then (n, d * pow2 x) else (n * pow2 (- x), d)) = (scN n x, scD d x).
Proof.
  unfold scN, scD. destruct (0 <=? x) eqn:E.
  - apply Z.leb_le in E. rewrite pow2_eq by lia. replace (Z.max 0 (- x)) with 0 by lia. replace (Z.max 0 x) with x by lia.
    rewrite Z.pow_0_r, Z.mul_1_r. reflexivity.
  - apply Z.leb_gt in E. rewrite pow2_eq by lia. replace (Z.max 0 (- x)) with (- x) by lia. replace (Z.max 0 x) with 0 by lia.
    rewrite Z.pow_0_r, Z.mul_1_r. reflexivity.
Qed.

Section Rational.
Variables n d : Z.
Hypothesis Hn : 0 < n.
Hypothesis Hd : 0 < d.
Let a := Z.log2 n.
Let b := Z.log2 d.
Let l := a - b.

Lemma scD_pos x : 0 < scD d x.
Proof. unfold scD. apply Z.mul_pos_pos; [exact Hd|apply pow_pos2; lia]. Qed.

(* n/d / 2^x < 2^j   when j = l + 1 - x >= 0 *)
Lemma sc_upper x j : j = l + 1 - x -> 0 <= j -> scN n x < 2 ^ j * scD d x.
Proof.
  intros Hj J. pose proof (log2_bounds n Hn) as [_ Un]. pose proof (log2_bounds d Hd) as [Ld _].
  pose proof (Z.log2_nonneg n). pose proof (Z.log2_nonneg d). fold a in Un, H. fold b in Ld, H0.
  unfold scN, scD. set (xm := Z.max 0 (- x)). set (xp := Z.max 0 x).
  apply Z.lt_le_trans with (2 ^ (a + 1) * 2 ^ xm).
  - apply Z.mul_lt_mono_pos_r; [apply pow_pos2; lia|exact Un].
  - rewrite <- Z.pow_add_r by lia.
    apply Z.le_trans with (2 ^ j * (2 ^ b * 2 ^ xp)).
    + rewrite <- !Z.pow_add_r by lia. apply Z.pow_le_mono_r; [lia|]. unfold l in Hj. lia.
    + apply Z.mul_le_mono_nonneg_l; [apply Z.pow_nonneg; lia|].
      apply Z.mul_le_mono_nonneg_r; [apply Z.pow_nonneg; lia|exact Ld].
Qed.

(* when l + 1 <= x the quotient is 0 *)
Lemma sc_small x : l + 1 <= x -> scN n x < scD d x.
Proof.
  intros Hx. pose proof (log2_bounds n Hn) as [_ Un]. pose proof (log2_bounds d Hd) as [Ld _].
  pose proof (Z.log2_nonneg n). pose proof (Z.log2_nonneg d). fold a in Un, H. fold b in Ld, H0.
  unfold scN, scD. set (xm := Z.max 0 (- x)). set (xp := Z.max 0 x).
  apply Z.lt_le_trans with (2 ^ (a + 1) * 2 ^ xm).
  - apply Z.mul_lt_mono_pos_r; [apply pow_pos2; lia|exact Un].
  - rewrite <- Z.pow_add_r by lia. apply Z.le_trans with (2 ^ b * 2 ^ xp).
    + rewrite <- Z.pow_add_r by lia. apply Z.pow_le_mono_r; [lia|]. unfold l in Hx. lia.
    + apply Z.mul_le_mono_nonneg_r; [apply Z.pow_nonneg; lia|exact Ld].
Qed.

(* 2^j <= n/d / 2^x   when j = l - 1 - x >= 0 *)
Lemma sc_lower x j : j = l - 1 - x -> 0 <= j -> 2 ^ j * scD d x <= scN n x.
Proof.
  intros Hj J. pose proof (log2_bounds n Hn) as [Ln _]. pose proof (log2_bounds d Hd) as [_ Ud].
  pose proof (Z.log2_nonneg n). pose proof (Z.log2_nonneg d). fold a in Ln, H. fold b in Ud, H0.
  unfold scN, scD. set (xm := Z.max 0 (- x)). set (xp := Z.max 0 x).
  apply Z.le_trans with (2 ^ a * 2 ^ xm).
  - apply Z.le_trans with (2 ^ j * (2 ^ (b + 1) * 2 ^ xp)).
    + apply Z.mul_le_mono_nonneg_l; [apply Z.pow_nonneg; lia|].
      apply Z.mul_le_mono_nonneg_r; [apply Z.pow_nonneg; lia|lia].
    + rewrite <- !Z.pow_add_r by lia. apply Z.pow_le_mono_r; [lia|]. unfold l in Hj. lia.
  - apply Z.mul_le_mono_nonneg_r; [apply Z.pow_nonneg; lia|exact Ln].
Qed.

(* one more halving *)
Lemma sc_step x : 2 * scN n (x + 1) * scD d x = scN n x * scD d (x + 1).
Proof.
  unfold scN, scD. destruct (Z_lt_ge_dec x 0) as [N|N].
  - replace (Z.max 0 (- x)) with (Z.max 0 (- (x + 1)) + 1) by lia. replace (Z.max 0 x) with 0 by lia.
    replace (Z.max 0 (x + 1)) with 0 by lia. rewrite Z.pow_add_r by lia. ring.
  - replace (Z.max 0 (- x)) with 0 by lia. replace (Z.max 0 (- (x + 1))) with 0 by lia.
    replace (Z.max 0 (x + 1)) with (Z.max 0 x + 1) by lia. rewrite Z.pow_add_r by lia. ring.
Qed.
End Rational.

(* the exponent and integer rne_pos rounds to *)
Definition qexp (f : fmt) (n d : Z) : Z :=
  let e0 := Z.max (emin f) (Z.log2 n - Z.log2 d - prec f) in
  if 2 ^ prec f <=? scN n e0 / scD d e0 then e0 + 1 else e0.
Definition qint (f : fmt) (n d : Z) : Z :=
  let e := qexp f n d in
  let q := scN n e / scD d e in let r := scN n e mod scD d e in
  if (scD d e <? 2 * r) || ((scD d e =? 2 * r) && Z.odd q) then q + 1 else q.

Lemma rne_pos_is_round f s n d : fmt_ok f -> rne_pos f s n d = encode_canon f s (qint f n d) (qexp f n d).
Proof.
  intros [Hp _]. unfold rne_pos, qint, qexp. cbv zeta.
  set (e0 := Z.max (emin f) (Z.log2 n - Z.log2 d - prec f)).
  rewrite !scale_eq. unfold Z.div, Z.modulo.
  destruct (Z.div_eucl (scN n e0) (scD d e0)) as [q0 r0] eqn:E0. cbn [fst].
  rewrite pow2_eq by lia.
  destruct (2 ^ prec f <=? q0) eqn:C.
  - destruct (Z.div_eucl (scN n (e0 + 1)) (scD d (e0 + 1))) as [q1 r1]. reflexivity.
  - rewrite E0. reflexivity.
Qed.

Lemma qexp_spec f n d : fmt_ok f -> 0 < n -> 0 < d ->
  let p := prec f in
  emin f <= qexp f n d /\ 0 <= scN n (qexp f n d) / scD d (qexp f n d) < 2 ^ p /\
               (2 ^ (p - 1) <= scN n (qexp f n d) / scD d (qexp f n d) \/ qexp f n d = emin f).
Proof.
  intros [Hp He] Hn Hd. cbv zeta.
  set (p := prec f) in *. set (l := Z.log2 n - Z.log2 d).
  assert (HP : 0 < 2 ^ (p - 1)) by (apply pow_pos2; lia).
  assert (HPP : 2 ^ p = 2 * 2 ^ (p - 1)).
  { replace p with (p - 1 + 1) at 1 by lia. rewrite Z.pow_add_r by lia. lia. }
  unfold qexp. fold p. fold l. set (e0 := Z.max (emin f) (l - p)).
    pose proof (scD_pos n d Hd e0) as D0. pose proof (scD_pos n d Hd (e0 + 1)) as D1.
    assert (N0 : 0 <= scN n e0) by (unfold scN; apply Z.mul_nonneg_nonneg; [lia|apply Z.pow_nonneg; lia]).
    assert (N1 : 0 <= scN n (e0 + 1)) by (unfold scN; apply Z.mul_nonneg_nonneg; [lia|apply Z.pow_nonneg; lia]).
    destruct (2 ^ p <=? scN n e0 / scD d e0) eqn:C.
    - apply Z.leb_le in C.
      (* then e0 = l - p (otherwise the quotient is below 2^p) *)
      assert (E0 : e0 = l - p).
      { destruct (Z.eq_dec e0 (l - p)) as [E|N]; [exact E|exfalso].
        assert (Hgt : l - p < e0) by (unfold e0 in *; lia).
        destruct (Z_le_gt_dec (l + 1) e0) as [S|S].
        - pose proof (sc_small n d Hn Hd e0 S). rewrite Z.div_small in C by lia. lia.
        - pose proof (sc_upper n d Hn Hd e0 (l + 1 - e0) eq_refl ltac:(lia)) as U.
          assert (scN n e0 / scD d e0 < 2 ^ (l + 1 - e0)) by (apply Z.div_lt_upper_bound; lia).
          assert (2 ^ (l + 1 - e0) <= 2 ^ p) by (apply Z.pow_le_mono_r; lia). lia. }
      split; [unfold e0 in *; lia|]. split.
      + split; [apply Z.div_pos; lia|]. apply Z.div_lt_upper_bound; [lia|].
        pose proof (sc_upper n d Hn Hd (e0 + 1) p ltac:(lia) ltac:(lia)). lia.
      + left. apply Z.div_le_lower_bound; [lia|].
        (* 2^p D0 <= N0 and 2 N1 D0 = N0 D1 *)
        pose proof (sc_step n d e0) as St.
        assert (2 ^ p * scD d e0 <= scN n e0).
        { apply Z.le_trans with (scD d e0 * (scN n e0 / scD d e0)); [nia|]. apply Z.mul_div_le. lia. }
        nia.
    - apply Z.leb_gt in C. split; [unfold e0; lia|]. split; [split; [apply Z.div_pos; lia|exact C]|].
      destruct (Z.eq_dec e0 (emin f)) as [E|N]; [right; exact E|left].
      assert (E0 : e0 = l - p) by (unfold e0 in *; lia).
      apply Z.div_le_lower_bound; [lia|]. pose proof (sc_lower n d Hn Hd e0 (p - 1) ltac:(lia) ltac:(lia)). lia.
Qed.

Lemma qint_spec f n d : fmt_ok f -> 0 < n -> 0 < d ->
  let e := qexp f n d in let Q := qint f n d in
  let N := scN n e in let D := scD d e in
  emin f <= e /\ 0 <= Q <= 2 ^ prec f /\ (2 ^ (prec f - 1) <= Q \/ e = emin f) /\
  2 * Z.abs (N - Q * D) <= D /\ (2 * Z.abs (N - Q * D) = D -> Z.even Q = true).
Proof.
  intros [Hp He] Hn Hd. cbv zeta.
  set (p := prec f) in *. set (l := Z.log2 n - Z.log2 d).
  assert (HP : 0 < 2 ^ (p - 1)) by (apply pow_pos2; lia).
  assert (HPP : 2 ^ p = 2 * 2 ^ (p - 1)).
  { replace p with (p - 1 + 1) at 1 by lia. rewrite Z.pow_add_r by lia. lia. }
  pose proof (qexp_spec f n d (conj Hp He) Hn Hd) as Hq. cbv zeta in Hq. fold p in Hq.
  destruct Hq as (He0 & [Hq0 Hq1] & Hc). split; [exact He0|].
  unfold qint. set (e := qexp f n d) in *. set (N := scN n e) in *. set (D := scD d e) in *.
  assert (HD : 0 < D) by (apply (scD_pos n), Hd).
  pose proof (Z.div_mod N D ltac:(lia)) as Dm. pose proof (Z.mod_pos_bound N D HD) as Rm.
  set (q := N / D) in *. set (r := N mod D) in *.
  destruct ((D <? 2 * r) || ((D =? 2 * r) && Z.odd q)) eqn:Up.
  - split; [lia|]. split; [destruct Hc; [left; lia|right; assumption]|].
    assert (Hr : D <= 2 * r) by (apply orb_true_iff in Up as [U|U]; [lia|apply andb_true_iff in U; lia]).
    split; [nia|]. intros Tie. assert (D = 2 * r) by nia.
    apply orb_true_iff in Up as [U|U]; [lia|]. apply andb_true_iff in U as [_ U].
    rewrite Z.even_add, <- Z.negb_odd, U. reflexivity.
  - split; [lia|]. split; [exact Hc|]. apply orb_false_iff in Up as [U1 U2].
    assert (Hr : 2 * r <= D) by lia. split; [nia|]. intros Tie. assert (D = 2 * r) by nia.
    apply andb_false_iff in U2 as [U2|U2]; [lia|]. rewrite <- Z.negb_odd, U2. reflexivity.
Qed.

(* rounding a positive rational: infinity on overflow, otherwise the float whose value is the nearest-even
   rounding of n/d at the rounding exponent qexp *)
Theorem rne_pos_correct f s n d : fmt_ok f -> 0 < n -> 0 < d ->
  let e0 := qexp f n d in let Q := qint f n d in
  let r := rne_pos f s n d in
  (r = inf_bits f s /\ emax_field f <= (if Q =? 2 ^ prec f then e0 + 1 else e0) - emin f + 1) \/
  (exists M E, decode f r = FFin s M E /\ M * 2 ^ (E - emin f) = Q * 2 ^ (e0 - emin f) /\
               0 <= M < 2 ^ prec f /\ emin f <= E /\ (2 ^ (prec f - 1) <= M \/ E = emin f)).
Proof.
  intros Hf Hn Hd. cbv zeta. rewrite (rne_pos_is_round f s n d Hf).
  pose proof (qint_spec f n d Hf Hn Hd) as H. cbv zeta in H. destruct H as (He0 & HQ & Hc & _).
  exact (encode_canon_decode f s _ _ Hf HQ He0 Hc).
Qed.

(* ---------- the arithmetic operations on finite operands are "exact result, then the rounding above" ---------- *)
Lemma fmul_finite f x y s1 m1 e1 s2 m2 e2 : 0 <= x -> 0 <= y -> 1 <= prec f -> 0 <= ebits f ->
  decode f x = FFin s1 m1 e1 -> decode f y = FFin s2 m2 e2 ->
  fmul f x y = rne_dy f (xorb s1 s2) (m1 * m2) (e1 + e2).
Proof.
  intros Hx Hy Hp He Dx Dy. unfold fmul. rewrite !decode_fast_eq by assumption. rewrite Dx, Dy. reflexivity.
Qed.

Lemma fadd_finite f x y s1 m1 e1 s2 m2 e2 : 0 <= x -> 0 <= y -> 1 <= prec f -> 0 <= ebits f ->
  decode f x = FFin s1 m1 e1 -> decode f y = FFin s2 m2 e2 ->
  fadd f x y = rne_dy_signed f (s1 && s2)
                 (sm s1 (m1 * 2 ^ (e1 - Z.min e1 e2)) + sm s2 (m2 * 2 ^ (e2 - Z.min e1 e2))) (Z.min e1 e2).
Proof.
  intros Hx Hy Hp He Dx Dy. unfold fadd. rewrite !decode_fast_eq by assumption. rewrite Dx, Dy.
  cbv zeta. rewrite !Z.shiftl_mul_pow2 by lia. reflexivity.
Qed.

Lemma fdiv_finite f x y s1 m1 e1 s2 m2 e2 : 0 <= x -> 0 <= y -> 1 <= prec f -> 0 <= ebits f ->
  decode f x = FFin s1 m1 e1 -> decode f y = FFin s2 m2 e2 -> m2 <> 0 ->
  fdiv f x y = let '(n, d) := frac_of m1 (e1 - e2) in rne f (xorb s1 s2) n (d * m2).
Proof.
  intros Hx Hy Hp He Dx Dy Hm. unfold fdiv. rewrite !decode_fast_eq by assumption. rewrite Dx, Dy.
  cbv zeta. assert (m2 =? 0 = false) as -> by lia. reflexivity.
Qed.

(* a signed dyadic: zero keeps the requested sign, otherwise the positive rounding with the sign of M *)
Lemma rne_dy_signed_cases f zs M e :
  rne_dy_signed f zs M e = if M =? 0 then zero_bits f zs else if M <? 0 then rne_dy_pos f true (- M) e else rne_dy_pos f false M e.
Proof. reflexivity. Qed.

Print Assumptions encode_canon_decode.
Print Assumptions rne_dy_pos_correct.
Print Assumptions rne_pos_correct.

(* Scale.v — exact behaviour of the soft-float under multiplication by a power of two (C16 b):
   scl f k x  adds k to the exponent field of a normal number and leaves zero alone.  Within the normal range,
     fneg (scl k x) = scl k (fneg x)
     fmul (scl (-k) x) (scl k y) = fmul x y
     fadd (scl k x) (scl k y) = scl k (fadd x y)
     fdiv x (scl k y) = scl (-k) (fdiv x y)
   No axioms. *)
From Coq Require Import ZArith Lia Bool.
From IVG Require Import SF SFProofs SFRound.
Local Open Scope Z_scope.

Definition is_zero (f : fmt) (x : Z) : bool := (expo_of f x =? 0) && (mant_of f x =? 0).
Definition scl (f : fmt) (k x : Z) : Z := if is_zero f x then x else x + k * 2 ^ (prec f - 1).

(* a bit pattern of the format that is zero or a normal number with exponent field in [lo, hi] *)
Definition okx (f : fmt) (lo hi x : Z) : Prop :=
  0 <= x < 2 ^ width f /\ (is_zero f x = true \/ (lo <= expo_of f x <= hi)).

Section Bits.
Variable f : fmt.
Hypothesis Hf : fmt_ok f.
Let P := 2 ^ (prec f - 1).
Let E := 2 ^ ebits f.

Lemma PE_facts : 0 < P /\ 4 <= E /\ 2 ^ (width f - 1) = P * E /\ 2 ^ width f = 2 * (P * E) /\ emax_field f = E - 1.
Proof.
  destruct Hf as [Hp He]. unfold P, E.
  assert (0 < 2 ^ (prec f - 1)) by (apply pow_pos2; lia).
  assert (4 <= 2 ^ ebits f) by (change 4 with (2 ^ 2); apply Z.pow_le_mono_r; lia).
  assert (W : 2 ^ (width f - 1) = 2 ^ (prec f - 1) * 2 ^ ebits f).
  { unfold width. replace (prec f + ebits f - 1) with (prec f - 1 + ebits f) by lia. apply Z.pow_add_r; lia. }
  repeat split; try assumption.
  - rewrite <- W. replace (width f) with (width f - 1 + 1) at 1 by lia. rewrite Z.pow_add_r by (unfold width; lia). lia.
Qed.

(* the three fields of a bit pattern in range *)
Lemma fields_of x : 0 <= x < 2 ^ width f ->
  let s := x / (P * E) in
  x = s * (P * E) + expo_of f x * P + mant_of f x /\ (s = 0 \/ s = 1) /\ 0 <= expo_of f x < E /\ 0 <= mant_of f x < P /\
  sign_of f x = (0 <? s).
Proof.
  intros Hx. destruct PE_facts as (HP & HE & HW & HW2 & _). cbv zeta.
  unfold expo_of, mant_of, sign_of. fold P E. rewrite HW.
  pose proof (Z.div_mod x P ltac:(lia)) as D1. pose proof (Z.mod_pos_bound x P HP) as M1.
  pose proof (Z.div_mod (x / P) E ltac:(lia)) as D2. pose proof (Z.mod_pos_bound (x / P) E ltac:(lia)) as M2.
  rewrite Z.div_div in D2 by lia.
  assert (Hs : 0 <= x / (P * E) < 2) by (split; [apply Z.div_pos; nia|apply Z.div_lt_upper_bound; nia]).
  repeat split; try lia; try nia.
Qed.

(* adding k to the exponent field *)
Lemma shift_fields x k : 0 <= x < 2 ^ width f -> 0 <= expo_of f x + k < E ->
  let y := x + k * P in
  0 <= y < 2 ^ width f /\ sign_of f y = sign_of f x /\ expo_of f y = expo_of f x + k /\ mant_of f y = mant_of f x.
Proof.
  intros Hx Hk. destruct PE_facts as (HP & HE & HW & HW2 & _).
  destruct (fields_of x Hx) as (Dx & Hs & Hex & Hma & Hsg). cbv zeta in *.
  set (s := x / (P * E)) in *.
  destruct (fields s (expo_of f x + k) (mant_of f x) P E HP ltac:(lia) Hma Hk Hs) as (F1 & F2 & F3). cbv zeta in F1, F2, F3.
  assert (Ey : x + k * P = s * (P * E) + (expo_of f x + k) * P + mant_of f x) by lia.
  rewrite <- Ey in F1, F2, F3.
  split; [rewrite Ey, HW2; nia|]. split; [|split].
  - unfold sign_of at 1. rewrite HW. fold P E in F1. rewrite F1. rewrite Hsg. reflexivity.
  - unfold expo_of at 1. fold P E. exact F2.
  - unfold mant_of at 1. fold P. exact F3.
Qed.

Lemma decode_normal x : 1 <= expo_of f x <= emax_field f - 1 ->
  decode f x = FFin (sign_of f x) (P + mant_of f x) (expo_of f x + emin f - 1).
Proof.
  intros H. unfold decode. fold P.
  assert (expo_of f x =? emax_field f = false) as -> by lia.
  assert (expo_of f x =? 0 = false) as -> by lia. reflexivity.
Qed.

Lemma decode_iszero x : is_zero f x = true -> decode f x = FFin (sign_of f x) 0 (emin f).
Proof.
  unfold is_zero. intros H. apply andb_true_iff in H as [H1 H2]. apply Z.eqb_eq in H1, H2.
  destruct PE_facts as (_ & HE & _ & _ & Hmax).
  unfold decode. rewrite H1, H2. assert (0 =? emax_field f = false) as -> by lia. reflexivity.
Qed.

(* scaling a normal number: same sign and mantissa, exponent + k *)
Lemma scl_normal x k : 0 <= x < 2 ^ width f -> 1 <= expo_of f x <= emax_field f - 1 ->
  1 <= expo_of f x + k <= emax_field f - 1 ->
  0 <= scl f k x < 2 ^ width f /\ is_zero f (scl f k x) = false /\
  expo_of f (scl f k x) = expo_of f x + k /\
  decode f (scl f k x) = FFin (sign_of f x) (P + mant_of f x) (expo_of f x + emin f - 1 + k).
Proof.
  intros Hx H1 H2. destruct PE_facts as (HP & HE & HW & HW2 & Hmax).
  assert (Z0 : is_zero f x = false) by (unfold is_zero; assert (expo_of f x =? 0 = false) as -> by lia; reflexivity).
  unfold scl. rewrite Z0. fold P.
  destruct (shift_fields x k Hx ltac:(lia)) as (R & S1 & S2 & S3). cbv zeta in *.
  split; [exact R|]. split; [unfold is_zero; rewrite S2; assert (expo_of f x + k =? 0 = false) as -> by lia; reflexivity|].
  split; [exact S2|]. rewrite decode_normal by (rewrite S2; lia). rewrite S1, S2, S3. f_equal. lia.
Qed.

Lemma scl_zero x k : is_zero f x = true -> scl f k x = x.
Proof. intros H. unfold scl. rewrite H. reflexivity. Qed.

Lemma scl_0 x : scl f 0 x = x.
Proof. unfold scl. destruct (is_zero f x); lia. Qed.
End Bits.

(* ---------- negation and multiplication ---------- *)
Section Ops.
Variable f : fmt.
Hypothesis Hf : fmt_ok f.
Let P := 2 ^ (prec f - 1).

Lemma okx_cases lo hi x : 1 <= lo -> hi <= emax_field f - 1 -> okx f lo hi x ->
  0 <= x < 2 ^ width f /\
  ((is_zero f x = true /\ decode f x = FFin (sign_of f x) 0 (emin f)) \/
   (is_zero f x = false /\ lo <= expo_of f x <= hi /\
    decode f x = FFin (sign_of f x) (P + mant_of f x) (expo_of f x + emin f - 1))).
Proof.
  intros Hlo Hhi [Hx [Z|N]]; (split; [exact Hx|]).
  - left. split; [exact Z|apply decode_iszero; assumption].
  - right. split; [unfold is_zero; assert (expo_of f x =? 0 = false) as -> by lia; reflexivity|].
    split; [exact N|apply decode_normal; lia].
Qed.

(* fmul with opposite scalings: the product of the mantissas and the sum of the exponents are unchanged *)
Theorem fmul_scl_opp lo hi k x y : 1 <= lo -> hi <= emax_field f - 1 -> 1 <= lo - Z.abs k -> hi + Z.abs k <= emax_field f - 1 ->
  okx f lo hi x -> okx f lo hi y ->
  fmul f (scl f (- k) x) (scl f k y) = fmul f x y.
Proof.
  intros Hlo Hhi Hlk Hhk Ox Oy. pose proof Hf as [Hp He].
  destruct (okx_cases lo hi x Hlo Hhi Ox) as (Wx & [[Zx Dx]|(Nx & Rx & Dx)]);
  destruct (okx_cases lo hi y Hlo Hhi Oy) as (Wy & [[Zy Dy]|(Ny & Ry & Dy)]).
  - rewrite !scl_zero by assumption. reflexivity.
  - rewrite (scl_zero f x) by assumption.
    destruct (scl_normal f Hf y k Wy ltac:(lia) ltac:(lia)) as (Wy' & _ & _ & Dy').
    rewrite (fmul_finite f x _ _ _ _ _ _ _ (proj1 Wx) (proj1 Wy') ltac:(lia) ltac:(lia) Dx Dy').
    rewrite (fmul_finite f x y _ _ _ _ _ _ (proj1 Wx) (proj1 Wy) ltac:(lia) ltac:(lia) Dx Dy).
    unfold rne_dy. rewrite !Z.mul_0_l. reflexivity.
  - rewrite (scl_zero f y) by assumption.
    destruct (scl_normal f Hf x (- k) Wx ltac:(lia) ltac:(lia)) as (Wx' & _ & _ & Dx').
    rewrite (fmul_finite f _ y _ _ _ _ _ _ (proj1 Wx') (proj1 Wy) ltac:(lia) ltac:(lia) Dx' Dy).
    rewrite (fmul_finite f x y _ _ _ _ _ _ (proj1 Wx) (proj1 Wy) ltac:(lia) ltac:(lia) Dx Dy).
    unfold rne_dy. rewrite !Z.mul_0_r. reflexivity.
  - destruct (scl_normal f Hf x (- k) Wx ltac:(lia) ltac:(lia)) as (Wx' & _ & _ & Dx').
    destruct (scl_normal f Hf y k Wy ltac:(lia) ltac:(lia)) as (Wy' & _ & _ & Dy').
    rewrite (fmul_finite f _ _ _ _ _ _ _ _ (proj1 Wx') (proj1 Wy') ltac:(lia) ltac:(lia) Dx' Dy').
    rewrite (fmul_finite f x y _ _ _ _ _ _ (proj1 Wx) (proj1 Wy) ltac:(lia) ltac:(lia) Dx Dy).
    f_equal. lia.
Qed.

(* negation commutes with scaling *)
Theorem fneg_scl lo hi k x : 1 <= lo -> hi <= emax_field f - 1 -> 1 <= lo - Z.abs k -> hi + Z.abs k <= emax_field f - 1 ->
  okx f lo hi x -> fneg f (scl f k x) = scl f k (fneg f x) /\ okx f lo hi (fneg f x).
Proof.
  intros Hlo Hhi Hlk Hhk Ox. destruct (PE_facts f Hf) as (HP & HE & HW & HW2 & Hmax). fold P in HP, HW, HW2.
  destruct Ox as [Wx C].
  destruct (fields_of f Hf x Wx) as (Dx & Hs & Hex & Hma & Hsg). cbv zeta in *. fold P in Dx, Hs, Hex, Hma, Hsg.
  set (E := 2 ^ ebits f) in *. set (s := x / (P * E)) in *.
  (* fneg flips the sign field *)
  assert (Fn : forall z, 0 <= z < 2 ^ width f ->
            let t := z / (P * E) in
            fneg f z = (1 - t) * (P * E) + expo_of f z * P + mant_of f z /\
            expo_of f (fneg f z) = expo_of f z /\ mant_of f (fneg f z) = mant_of f z /\ 0 <= fneg f z < 2 ^ width f).
  { intros z Wz. destruct (fields_of f Hf z Wz) as (Dz & Hsz & Hexz & Hmaz & Hsgz). cbv zeta in *. fold P E in Dz, Hsz, Hexz, Hmaz, Hsgz.
    set (t := z / (P * E)) in *.
    assert (Nz : fneg f z = (1 - t) * (P * E) + expo_of f z * P + mant_of f z).
    { unfold fneg. rewrite Hsgz, HW. destruct Hsz as [T|T]; rewrite T in *; cbn [Z.ltb Z.compare]; lia. }
    destruct (fields (1 - t) (expo_of f z) (mant_of f z) P E HP ltac:(lia) Hmaz Hexz ltac:(lia)) as (F1 & F2 & F3).
    cbv zeta in F1, F2, F3. rewrite <- Nz in F1, F2, F3.
    split; [exact Nz|]. split; [unfold expo_of at 1; fold P E; exact F2|]. split; [unfold mant_of at 1; fold P; exact F3|].
    rewrite Nz, HW2. nia. }
  destruct (Fn x Wx) as (Nx & Ex & Mx & Wn). cbv zeta in Nx.
  assert (Zn : is_zero f (fneg f x) = is_zero f x) by (unfold is_zero; rewrite Ex, Mx; reflexivity).
  split.
  - unfold scl. rewrite Zn. destruct (is_zero f x) eqn:Zx; [reflexivity|].
    assert (Hn : 1 <= expo_of f x).
    { destruct C as [C|C]; [congruence|lia]. }
    destruct C as [C|C]; [congruence|].
    fold P. destruct (shift_fields f Hf x k Wx ltac:(fold E; lia)) as (Wy & S1 & S2 & S3). cbv zeta in *. fold P in Wy, S1, S2, S3.
    destruct (Fn (x + k * P) Wy) as (Ny & _). cbv zeta in Ny. rewrite Ny, S2, S3, Nx.
    (* the sign field of x + k P is that of x *)
    assert (St : (x + k * P) / (P * E) = s).
    { destruct (fields_of f Hf (x + k * P) Wy) as (_ & Ht & _ & _ & Hsgt). cbv zeta in *. fold P E in Ht, Hsgt.
      rewrite S1, Hsg in Hsgt. destruct Hs as [A|A], Ht as [B|B]; rewrite A, B in *; try reflexivity; cbn in Hsgt; congruence. }
    rewrite St. fold s. ring.
  - split; [exact Wn|]. rewrite Zn, Ex. exact C.
Qed.
End Ops.

(* Any interleaving of independent machines gives each machine the result of running alone. *)
From Coq Require Import List Arith Lia.
From IVG Require Import Sched.
Import ListNotations.

Section Proofs.
Context {Env St : Type} (step : Env -> St -> option St).

Lemma nth_error_firstn_lt (l : list St) : forall i j, j < i -> nth_error (firstn i l) j = nth_error l j.
Proof.
  induction l as [|x l IH]; intros i j H; [destruct i, j; reflexivity|].
  destruct i as [|i]; [lia|]. destruct j as [|j]; [reflexivity|]. cbn. apply IH. lia.
Qed.

Lemma nth_error_skipn_add (l : list St) : forall i j, nth_error (skipn i l) j = nth_error l (i + j).
Proof.
  induction l as [|x l IH]; intros i j; [destruct i, j; reflexivity|].
  destruct i as [|i]; [reflexivity|]. cbn. apply IH.
Qed.

Lemma nth_error_update_same (ms : list St) i s s' : nth_error ms i = Some s ->
  nth_error (firstn i ms ++ s' :: skipn (S i) ms) i = Some s'.
Proof.
  intros H. assert (L : i < length ms) by (apply nth_error_Some; congruence).
  rewrite nth_error_app2; rewrite firstn_length_le by lia; [|lia].
  rewrite Nat.sub_diag. reflexivity.
Qed.

Lemma nth_error_update_other (ms : list St) i j s' : i <> j -> i < length ms ->
  nth_error (firstn i ms ++ s' :: skipn (S i) ms) j = nth_error ms j.
Proof.
  intros N L. destruct (Nat.lt_ge_cases j i) as [Hlt|Hge].
  - rewrite nth_error_app1 by (rewrite firstn_length_le; lia). apply nth_error_firstn_lt; exact Hlt.
  - rewrite nth_error_app2 by (rewrite firstn_length_le; lia). rewrite firstn_length_le by lia.
    destruct (j - i) as [|k] eqn:E; [lia|]. cbn [nth_error].
    rewrite nth_error_skipn_add. f_equal. lia.
Qed.

Lemma update_length (ms : list St) i s' : i < length ms ->
  length (firstn i ms ++ s' :: skipn (S i) ms) = length ms.
Proof.
  intros L. rewrite app_length, firstn_length_le by lia. cbn [length]. rewrite skipn_length. lia.
Qed.

Lemma sched_step_length env ms i : length (sched_step step env ms i) = length ms.
Proof.
  unfold sched_step. destruct (nth_error ms i) as [s|] eqn:E; [|reflexivity].
  destruct (step env s); [|reflexivity]. apply update_length. apply nth_error_Some. congruence.
Qed.

Lemma sched_step_other env ms i j : i <> j ->
  nth_error (sched_step step env ms i) j = nth_error ms j.
Proof.
  intros N. unfold sched_step. destruct (nth_error ms i) as [s|] eqn:E; [|reflexivity].
  destruct (step env s); [|reflexivity]. apply nth_error_update_other; [exact N|].
  apply nth_error_Some. congruence.
Qed.

Lemma sched_step_same env ms i s : nth_error ms i = Some s ->
  nth_error (sched_step step env ms i) i = Some (run_alone step env s 1).
Proof.
  intros E. unfold sched_step. rewrite E. cbn [run_alone].
  destruct (step env s) as [s'|]; [apply nth_error_update_same with (s := s); exact E|exact E].
Qed.

Lemma run_alone_add env s a b :
  run_alone step env (run_alone step env s a) b = run_alone step env s (a + b).
Proof.
  revert s. induction a as [|a IH]; intros s; [reflexivity|].
  cbn [run_alone Nat.add]. destruct (step env s) as [s'|] eqn:E; [apply IH|].
  (* a finished machine stays put *)
  clear IH. induction b as [|b IHb]; [reflexivity|]. cbn [run_alone]. rewrite E. reflexivity.
Qed.

(* for every schedule (any interleaving, any length) machine j ends in the state it reaches alone
   after as many steps as the schedule gave it *)
Theorem interleaving_independent env (sched : list nat) : forall (ms : list St) j s,
  nth_error ms j = Some s ->
  nth_error (run_sched step env ms sched) j = Some (run_alone step env s (count_occ Nat.eq_dec sched j)).
Proof.
  induction sched as [|i r IH]; intros ms j s E; [exact E|].
  unfold run_sched. cbn [fold_left count_occ]. fold (run_sched step env (sched_step step env ms i) r).
  destruct (Nat.eq_dec i j) as [->|N].
  - rewrite (IH _ j _ (sched_step_same env ms j s E)).
    rewrite run_alone_add. reflexivity.
  - rewrite (IH _ j s); [reflexivity|]. rewrite sched_step_other by exact N. exact E.
Qed.

Theorem schedule_preserves_machines env sched : forall (ms : list St),
  length (run_sched step env ms sched) = length ms.
Proof.
  induction sched as [|i r IH]; intros ms; [reflexivity|].
  unfold run_sched. cbn [fold_left]. fold (run_sched step env (sched_step step env ms i) r).
  rewrite IH. apply sched_step_length.
Qed.
End Proofs.

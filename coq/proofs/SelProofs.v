(* SelProofs.v — the selectors an Encoder reports equal those of a Renderer fed the same calls, i.e. the
   values the decoding machine holds (C07). *)
From Coq Require Import ZArith Bool List Lia.
From IVG Require Import SF NumCodec Color Calls Encoder EncProofs Render GoMath Arc RenderProofs Generator.
Import ListNotations.
Local Open Scope Z_scope.

Definition sel_step (p : Z * Z) (c : call) : Z * Z :=
  let '(cs, ns) := p in
  match c with
  | CReset _ _ => (0, 0)
  | CSetCSel v => (v mod 64, ns)
  | CSetNSel v => (cs, v mod 64)
  | CSetCReg _ incr _ => ((if incr then (cs + 1) mod 64 else cs), ns)
  | CSetNReg _ incr _ => (cs, (if incr then (ns + 1) mod 64 else ns))
  | _ => (cs, ns)
  end.

Definition rsel (s : S) : Z * Z := (r_csel s, r_nsel s).
Definition esel (e : enc) : Z * Z := (e_csel e, e_nsel e).

Definition keeps_sel (f : S -> S) : Prop := forall s, rsel (f s) = rsel s.

Lemma keeps_comp f g : keeps_sel f -> keeps_sel g -> keeps_sel (fun s => g (f s)).
Proof. intros Hf Hg s. cbn beta. rewrite Hg, Hf. reflexivity. Qed.

Lemma keeps_emit c pst psx psy : keeps_sel (fun s => emit N32 s c pst psx psy).
Proof. intros s. destruct s, c; reflexivity. Qed.

Lemma keeps_emit_keep (c : S -> rcall f32) : keeps_sel (fun s => emit_keep N32 s (c s)).
Proof. intros s. destruct s. unfold emit_keep, emit. destruct (c _); reflexivity. Qed.

Lemma keeps_arc_loop k : forall i n cx cy t1 dt rx ry cp sp, keeps_sel (fun s => arc_loop k i n s cx cy t1 dt rx ry cp sp).
Proof.
  induction k as [|k IH]; intros; cbn [arc_loop]; [intros s; reflexivity|].
  apply (keeps_comp (fun s => arc_segment s cx cy _ _ rx ry cp sp) (fun s => arc_loop k (i + 1) n s cx cy t1 dt rx ry cp sp)).
  - unfold arc_segment. apply keeps_emit_keep.
  - apply IH.
Qed.

Lemma keeps_abs_arc rx ry rot la sw x y : keeps_sel (fun s => abs_arc s rx ry rot la sw x y).
Proof.
  intros s. unfold abs_arc. set (s' := set_pst_none s).
  assert (E : rsel s' = rsel s) by (destruct s; reflexivity).
  destruct (negb _).
  - rewrite (keeps_emit_keep (fun s => RLineTo (absX N32 s x) (absY N32 s y)) s'). exact E.
  - cbv zeta. rewrite keeps_arc_loop. exact E.
Qed.

Lemma rend_sel s c : rsel (rstep32 s c) = sel_step (rsel s) c.
Proof.
  unfold rstep32, rstep, rsel. destruct c as [vb pal|v|v|adj incr col|adj incr x|l0 l1|adj x y|op a|rel rx ry rot la sw x y|];
    cbn [sel_step].
  - destruct s; reflexivity.
  - destruct s; reflexivity.
  - destruct s; reflexivity.
  - destruct s; reflexivity.
  - destruct s; reflexivity.
  - destruct s; reflexivity.
  - unfold start_path.
    match goal with |- context [let '(dis, p) := ?t in _] => destruct t as [dis p] end.
    cbv zeta. destruct (dis || _); destruct s; reflexivity.
  - destruct s as [x0 y0 w h scx bx scy by_ vb pal l0 l1 cs ns dis pst psx psy pa creg nreg px py fx fy lg].
    unfold rdraw. proj. destruct dis; [reflexivity|].
    repeat match goal with
           | |- context [if ?c then _ else _] => destruct c
           end; try reflexivity.
    all: unfold smooth_pt; proj; match goal with |- context [negb (?p =? ?k)] => destruct (negb (p =? k)) end; reflexivity.
  - destruct (r_disabled s); [reflexivity|]. unfold arc32. destruct rel; apply (keeps_abs_arc _ _ _ _ _ _ _ s).
  - unfold end_path. destruct (r_disabled s); [reflexivity|]. destruct s; reflexivity.
Qed.

Lemma flush_sel e : esel (flush e) = esel e.
Proof.
  unfold flush. destruct (e_drawop e =? 0); [reflexivity|].
  destruct (op_info (e_drawop e)) as [[b m] n]. reflexivity.
Qed.

Lemma enc_draw_sel e op args : esel (enc_draw e op args) = esel e.
Proof.
  unfold enc_draw. destruct (has_err e); [reflexivity|]. destruct (e_mode e); try reflexivity.
  set (e1 := if e_drawop e =? op then e else flush e).
  assert (E1 : esel e1 = esel e) by (unfold e1; destruct (_ =? _); [reflexivity|apply flush_sel]).
  destruct (op =? opZ); [rewrite flush_sel; exact E1|].
  destruct ((op =? opY) || (op =? opy)); [rewrite flush_sel; exact E1|exact E1].
Qed.

Lemma check_styling_sel e : esel (check_styling e) = esel e.
Proof. unfold check_styling. destruct (e_mode e); reflexivity. Qed.

(* when the call is accepted, the Encoder's selectors move as the decoding machine's do *)
Lemma enc_sel e c : has_err (enc_step e c) = false -> esel (enc_step e c) = sel_step (esel e) c.
Proof.
  destruct c as [vb pal|v|v|adj incr col|adj incr x|l0 l1|adj x y|op a|rel rx ry rot la sw x y|]; cbn [enc_step sel_step]; intros H.
  - reflexivity.
  - pose proof (check_styling_sel e) as Cs. destruct (has_err (check_styling e)) eqn:E; [rewrite E in H; discriminate|].
    unfold esel in *. cbn [e_csel e_nsel]. injection Cs as _ ->. reflexivity.
  - pose proof (check_styling_sel e) as Cs. destruct (has_err (check_styling e)) eqn:E; [rewrite E in H; discriminate|].
    unfold esel in *. cbn [e_csel e_nsel]. injection Cs as -> _. reflexivity.
  - pose proof (check_styling_sel e) as Cs. destruct (has_err (check_styling e)) eqn:E; [rewrite E in H; discriminate|].
    destruct (6 <? adj); [discriminate H|].
    destruct (enc_color col) as [base bytes]. unfold esel in *.
    destruct (incr && negb (adj =? 0)); [discriminate H|]. cbn [e_csel e_nsel]. injection Cs as -> ->. reflexivity.
  - pose proof (check_styling_sel e) as Cs. destruct (has_err (check_styling e)) eqn:E; [rewrite E in H; discriminate|].
    destruct (6 <? adj); [discriminate H|].
    destruct (nreg_choice x) as [base bytes]. unfold esel in *.
    destruct (incr && negb (adj =? 0)); [discriminate H|]. cbn [e_csel e_nsel]. injection Cs as -> ->. reflexivity.
  - pose proof (check_styling_sel e) as Cs. destruct (has_err (check_styling e)) eqn:E; [rewrite E in H; discriminate|].
    unfold esel in *. cbn [e_csel e_nsel]. exact Cs.
  - pose proof (check_styling_sel e) as Cs. destruct (has_err (check_styling e)) eqn:E; [rewrite E in H; discriminate|].
    destruct (6 <? adj); [discriminate H|]. unfold esel in *. cbn [e_csel e_nsel]. exact Cs.
  - apply enc_draw_sel.
  - apply enc_draw_sel.
  - apply enc_draw_sel.
Qed.

(* an error that is present stays, unless the call is Reset *)
Lemma err_stays e c : has_err e = true -> (forall vb pal, c <> CReset vb pal) -> has_err (enc_step e c) = true.
Proof.
  intros H N.
  assert (Cs : has_err (check_styling e) = true).
  { unfold check_styling, has_err in *. destruct (e_mode e); cbn; try exact H. destruct (e_err e); reflexivity || discriminate. }
  destruct c as [vb pal|v|v|adj incr col|adj incr x|l0 l1|adj x y|op a|rel rx ry rot la sw x y|]; cbn [enc_step];
    try (rewrite Cs; exact Cs); try (unfold enc_draw; rewrite H; exact H).
  exfalso. apply (N vb pal). reflexivity.
Qed.

Definition agree (e : enc) (s : S) : Prop := has_err e = false -> esel e = rsel s.

Theorem agree_step e s c : agree e s -> agree (enc_step e c) (rstep32 s c).
Proof.
  intros A H. rewrite rend_sel, (enc_sel e c H).
  destruct c as [vb pal| | | | | | | | |]; try reflexivity;
    (assert (He : has_err e = false);
     [destruct (has_err e) eqn:E; [|reflexivity]; rewrite (err_stays e _ E) in H; [discriminate|intros; discriminate]|];
     rewrite (A He); reflexivity).
Qed.

(* for every call sequence, after every prefix: an Encoder that accepted the calls reports the same CSEL and
   NSEL as a Renderer fed the same calls *)
Theorem selectors_agree l : forall e s, agree e s ->
  agree (fold_left enc_step l e) (rrun32 s l).
Proof.
  unfold rrun32. induction l as [|c r IH]; intros e s A; [exact A|].
  cbn [fold_left]. apply IH. apply agree_step. exact A.
Qed.

Theorem selectors_agree_initial s0 : agree enc_zero (rstep32 s0 (CReset default_viewbox default_palette)).
Proof. intros _. destruct s0; reflexivity. Qed.

(* the read-back methods return those selectors *)
Theorem readback_is_selector e :
  snd (enc_act e AReadCSel) = OSel (e_csel e) /\ snd (enc_act e AReadNSel) = OSel (e_nsel e).
Proof. cbn. unfold ensure_started. destruct (e_mode e); split; reflexivity. Qed.

(* hence the generator's gradient helpers, which depend on the destination only through the read-back
   selectors, emit the same calls (or the same error) into either destination *)
Theorem helpers_same_calls e s sh sp stops tr : esel e = rsel s ->
  set_gradient (e_csel e) (e_nsel e) sh sp stops tr = set_gradient (r_csel s) (r_nsel s) sh sp stops tr.
Proof. unfold esel, rsel. intros [= -> ->]. reflexivity. Qed.

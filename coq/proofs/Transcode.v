(* Transcode.v — whatever the decoder accepts is a well-formed program for an Encoder (C01 converse). *)
From Coq Require Import ZArith Bool List Lia ZifyBool.
From IVG Require Import SF NumCodec Color Calls Decoder Encoder NumBase NumProofs ColorProofs DecProofs EncProofs RoundTrip MetaRT.
From IVG Require Render GoMath Arc.
Import ListNotations.
Local Open Scope Z_scope.
Ltac Zify.zify_post_hook ::= Z.div_mod_to_equations.
Local Opaque Z.mul Z.add Z.div Z.modulo Z.pow.

(* ---------- decoded numbers are 32-bit patterns ---------- *)
Definition wfb (x : Z) : bool := (0 <=? x) && (x <? 4294967296).
Lemma wfb_wf x : wfb x = true -> wf_f32 x.
Proof. unfold wfb, wf_f32. lia. Qed.

Lemma sweep_zto1 : forallb (fun u => wfb (fdiv F32 (of_Z F32 u) c120)) (zrange 0 (Z.to_nat 128)) = true.
Proof. vm_compute. reflexivity. Qed.
Lemma sweep_zto2 : forallb (fun u => wfb (fdiv F32 (of_Z F32 u) c15120)) (zrange 0 (Z.to_nat 16384)) = true.
Proof. vm_compute. reflexivity. Qed.

Lemma wf_clear2 u : wf_f32 (clear2 u).
Proof. unfold clear2, wf_f32. lia. Qed.

Lemma wf_dec_real b f n : wf_bytes b -> dec_real b = Some (f, n) -> wf_f32 f.
Proof.
  intros W D. unfold dec_real in D. destruct (dec_natural b) as [[u k]|] eqn:N; [|discriminate].
  destruct (dec_natural_bound _ _ _ W N) as [[-> R]|[[-> R]|[-> R]]]; injection D as <- <-.
  - apply (good_int_spec _ _ _ (real_short_value u ltac:(lia))).
  - apply (good_int_spec _ _ _ (real_short_value u ltac:(lia))).
  - apply wf_clear2.
Qed.

Lemma wf_dec_coord b f n : wf_bytes b -> dec_coordinate b = Some (f, n) -> wf_f32 f.
Proof.
  intros W D. unfold dec_coordinate in D. destruct (dec_natural b) as [[u k]|] eqn:N; [|discriminate].
  destruct (dec_natural_bound _ _ _ W N) as [[-> R]|[[-> R]|[-> R]]]; injection D as <- <-.
  - apply (good_int_spec _ _ _ (coord1_value u R)).
  - apply (good_int_spec _ _ _ (coord2_value u R)).
  - apply wf_clear2.
Qed.

Lemma wf_dec_zto b f n : wf_bytes b -> dec_zero_to_one b = Some (f, n) -> wf_f32 f.
Proof.
  intros W D. unfold dec_zero_to_one in D. destruct (dec_natural b) as [[u k]|] eqn:N; [|discriminate].
  destruct (dec_natural_bound _ _ _ W N) as [[-> R]|[[-> R]|[-> R]]]; injection D as <- <-.
  - apply wfb_wf. pose proof sweep_zto1 as S. rewrite forallb_forall in S. apply S. apply zrange_in. rewrite Z2Nat.id; lia.
  - apply wfb_wf. pose proof sweep_zto2 as S. rewrite forallb_forall in S. apply S. apply zrange_in. rewrite Z2Nat.id; lia.
  - apply wf_clear2.
Qed.

(* ---------- decoded colours ---------- *)
Lemma wf_bytes_cons x b : wf_bytes (x :: b) -> 0 <= x < 256 /\ wf_bytes b.
Proof. intros W. split; [exact (Forall_inv W)|exact (Forall_inv_tail W)]. Qed.

Lemma sweep_color1 : forallb (fun x => match decode_color1 x with
                                       | CRGBA d => wfb (cr d * 16777216) && (cr d <? 256) && (0 <=? cg d) && (cg d <? 256) && (0 <=? cb d) && (cb d <? 256) && (0 <=? ca d) && (ca d <? 256) && (0 <=? cr d)
                                       | CPal i | CCReg i => (0 <=? i) && (i <? 64)
                                       | CBlend _ _ _ => false end) (zrange 0 (Z.to_nat 256)) = true.
Proof. vm_compute. reflexivity. Qed.

Lemma wf_dec_color k b c n : wf_bytes b -> dec_color_form k b = Some (c, n) -> wf_color c.
Proof.
  intros W. unfold dec_color_form.
  destruct (k =? 0).
  { unfold dec_color1. destruct b as [|x b]; [discriminate|]. intros [= <- <-].
    destruct (wf_bytes_cons _ _ W) as [Hx _].
    pose proof sweep_color1 as S. rewrite forallb_forall in S.
    assert (Ix : In x (zrange 0 (Z.to_nat 256))) by (apply zrange_in; rewrite Z2Nat.id; lia). specialize (S x Ix).
    destruct (decode_color1 x) as [d| | |]; cbn [wf_color]; unfold wf_rgba, wf_chan, wfb in *; try lia; try discriminate. }
  destruct (k =? 1).
  { unfold dec_color2. destruct b as [|x [|y b]]; try discriminate. intros [= <- <-].
    destruct (wf_bytes_cons _ _ W) as [Hx W1]. destruct (wf_bytes_cons _ _ W1) as [Hy _].
    cbn [wf_color]. unfold wf_rgba, wf_chan. cbn [cr cg cb ca]. lia. }
  destruct (k =? 2).
  { unfold dec_color3direct. destruct b as [|x [|y [|z b]]]; try discriminate. intros [= <- <-].
    destruct (wf_bytes_cons _ _ W) as [Hx W1]. destruct (wf_bytes_cons _ _ W1) as [Hy W2]. destruct (wf_bytes_cons _ _ W2) as [Hz _].
    cbn [wf_color]. unfold wf_rgba, wf_chan. cbn [cr cg cb ca]. lia. }
  destruct (k =? 3).
  { unfold dec_color4. destruct b as [|x [|y [|z [|w b]]]]; try discriminate. intros [= <- <-].
    destruct (wf_bytes_cons _ _ W) as [Hx W1]. destruct (wf_bytes_cons _ _ W1) as [Hy W2]. destruct (wf_bytes_cons _ _ W2) as [Hz W3].
    destruct (wf_bytes_cons _ _ W3) as [Hw _].
    cbn [wf_color]. unfold wf_rgba, wf_chan. cbn [cr cg cb ca]. lia. }
  unfold dec_color3indirect. destruct b as [|x [|y [|z b]]]; try discriminate. intros [= <- <-].
  destruct (wf_bytes_cons _ _ W) as [Hx W1]. destruct (wf_bytes_cons _ _ W1) as [Hy W2]. destruct (wf_bytes_cons _ _ W2) as [Hz _].
  cbn [wf_color]. unfold wf_chan. lia.
Qed.

(* ---------- call sequences obeying the styling/drawing protocol ---------- *)
Fixpoint wf_calls (d : bool) (cs : list call) : Prop :=
  match cs with [] => True | c :: r => wf_call d c /\ wf_calls (next_mode d c) r end.
Definition end_mode (d : bool) (cs : list call) : bool := fold_left next_mode cs d.

Lemma wf_calls_app a : forall d b, wf_calls d a -> wf_calls (end_mode d a) b -> wf_calls d (a ++ b).
Proof.
  induction a as [|c a IH]; intros d b Ha Hb; [exact Hb|]. destruct Ha as [Hc Ha].
  cbn [app wf_calls]. split; [exact Hc|]. apply IH; assumption.
Qed.
Lemma end_mode_app a b d : end_mode d (a ++ b) = end_mode (end_mode d a) b.
Proof. unfold end_mode. apply fold_left_app. Qed.

Lemma wf_acts_map cs : forall d, wf_calls d cs -> wf_acts d (map ACall cs).
Proof. induction cs as [|c cs IH]; intros d H; [exact I|]. destruct H as [Hc H]. cbn [map wf_acts]. split; [exact Hc|apply IH, H]. Qed.

Lemma expect_map cs : forall hl, expect false hl (map ACall cs) =
  (fix go hl cs := match cs with [] => [] | c :: r => qcall (next_hl false hl c) c :: go (next_hl false hl c) r end) hl cs.
Proof. induction cs as [|c cs IH]; intros hl; [reflexivity|]. cbn [map expect]. rewrite IH. reflexivity. Qed.

Lemma wf_bytes_app a b : wf_bytes (a ++ b) -> wf_bytes a /\ wf_bytes b.
Proof. apply Forall_app. Qed.

Lemma read_coords_wf k b its xs rest : wf_bytes b -> read_coords k b = (its, Some (xs, rest)) ->
  Forall wf_f32 xs /\ length xs = k /\ calls_of its = [] /\ wf_bytes rest.
Proof.
  revert b its xs rest. induction k as [|k IH]; intros b its xs rest W; cbn [read_coords].
  - intros [= <- <- <-]. repeat split; auto.
  - unfold read_num. destruct (dec_coordinate b) as [[x n]|] eqn:D; [|discriminate]. cbv beta iota zeta.
    match goal with |- context [read_coords k ?t] => destruct (read_coords k t) as [its' r'] eqn:E end.
    destruct r' as [[xs' b2]|]; [|discriminate].
    intros [= <- <- <-].
    assert (W' : wf_bytes (skipn n b)) by (rewrite <- (firstn_skipn n b) in W; apply wf_bytes_app in W; tauto).
    destruct (IH _ _ _ _ W' E) as (F & L & C & Wr).
    split; [constructor; [exact (wf_dec_coord b x n W D)|exact F]|]. split; [cbn; lia|]. split; [|exact Wr].
    cbn [app calls_of flat_map]. exact C.
Qed.

Definition good_step (d : bool) (its : list item) (d' : bool) : Prop :=
  wf_calls d (calls_of its) /\ end_mode d (calls_of its) = d'.

Lemma adj_ok_decoded opcode : adj_ok (if opcode mod 8 =? 7 then 0 else opcode mod 8) (opcode mod 8 =? 7).
Proof. unfold adj_ok. destruct (opcode mod 8 =? 7) eqn:E; split; try lia; auto; discriminate. Qed.

Lemma styling_step_wf opcode b its d' b' : wf_bytes b ->
  styling_step opcode b = (its, StepOk d' b') -> good_step false its d'.
Proof.
  intros W. unfold styling_step, good_step. cbv zeta beta.
  destruct (opcode <? 64); [intros [= <- <- <-]; cbn; auto|].
  destruct (opcode <? 128); [intros [= <- <- <-]; cbn; auto|].
  destruct (opcode <? 168).
  { destruct (dec_color_form _ b) as [[c n]|] eqn:E; intros [= <- <- <-].
    cbn [calls_of flat_map app wf_calls wf_call end_mode fold_left next_mode].
    split; [split; [split; [reflexivity|split; [apply adj_ok_decoded|exact (wf_dec_color _ _ _ _ W E)]]|exact I]|reflexivity]. }
  destruct (opcode <? 192) eqn:E192.
  { set (dec := if _ =? 0 then dec_real else if _ =? 1 then dec_coordinate else dec_zero_to_one).
    assert (G : forall f n, dec b = Some (f, n) -> wf_f32 f).
    { intros f n. unfold dec. destruct (_ =? 0); [apply wf_dec_real, W|]. destruct (_ =? 1); [apply wf_dec_coord, W|apply wf_dec_zto, W]. }
    destruct (dec b) as [[f n]|] eqn:E; intros [= <- <- <-].
    cbn [calls_of flat_map app wf_calls wf_call end_mode fold_left next_mode].
    split; [split; [split; [reflexivity|split; [apply adj_ok_decoded|exact (G f n eq_refl)]]|exact I]|reflexivity]. }
  destruct (opcode <? 199) eqn:E199.
  { destruct (read_coords 2 b) as [its0 r0] eqn:E. destruct r0 as [[xs b2]|]; [|discriminate].
    destruct (read_coords_wf _ _ _ _ _ W E) as (F & L & C & _).
    destruct xs as [|x [|y [|? ?]]]; try discriminate. intros [= <- <- <-].
    cbn [calls_of flat_map app]. fold (calls_of (its0 ++ [ICall (CStartPath (opcode mod 8) x y)])).
    rewrite calls_of_app, C. cbn [calls_of flat_map app wf_calls wf_call end_mode fold_left next_mode].
    inversion F as [|? ? Fx F1]; subst. inversion F1 as [|? ? Fy _]; subst.
    unfold wf_f32 in *. repeat split; try assumption; lia. }
  destruct (opcode =? 199).
  { unfold read_num. destruct (dec_real b) as [[l0 n0]|] eqn:E0; [|discriminate]. cbv beta iota zeta.
    match goal with |- context [dec_real ?t] => destruct (dec_real t) as [[l1 n1]|] eqn:E1 end; [|discriminate]. intros [= <- <- <-].
    assert (W' : wf_bytes (skipn n0 b)) by (rewrite <- (firstn_skipn n0 b) in W; apply wf_bytes_app in W; tauto).
    cbn [calls_of flat_map app wf_calls wf_call end_mode fold_left next_mode].
    split; [split; [split; [reflexivity|split; [exact (wf_dec_real _ _ _ W E0)|exact (wf_dec_real _ _ _ W' E1)]]|exact I]|reflexivity]. }
  discriminate.
Qed.

(* ---------- drawing instructions ---------- *)
Definition draw_calls (cs : list call) : Prop := Forall wf_arc_or_draw cs.

Lemma draw_calls_good cs : draw_calls cs -> wf_calls true cs /\ end_mode true cs = true.
Proof.
  induction 1 as [|c cs Hc Hcs [IH1 IH2]]; [split; reflexivity|].
  assert (Hn : next_mode true c = true) by (destruct c; try contradiction; reflexivity).
  split.
  - cbn [wf_calls]. rewrite Hn. split; [|exact IH1]. destruct c; try contradiction; split; auto.
  - unfold end_mode in *. cbn [fold_left]. rewrite Hn. exact IH2.
Qed.

Lemma pref_wf b its b' : wf_bytes b -> pref b its (Some b') -> wf_bytes b'.
Proof. intros W P. cbn in P. rewrite P in W. apply wf_bytes_app in W. tauto. Qed.

Lemma draw_rep_wf op k b its b' : wf_bytes b -> In op run_ops -> op <> opA -> op <> opa -> Z.of_nat k = nargs_of op ->
  draw_rep op k b = (its, Some b') -> draw_calls (calls_of its).
Proof.
  intros W I NA Na K. unfold draw_rep. destruct (read_coords k b) as [its0 r0] eqn:E.
  destruct r0 as [[xs rest]|]; [|discriminate]. intros [= <- <-].
  destruct (read_coords_wf _ _ _ _ _ W E) as (F & L & C & _).
  rewrite calls_of_app, C. cbn [calls_of flat_map app]. constructor; [|constructor].
  cbn [wf_arc_or_draw]. repeat split; try assumption. lia.
Qed.

Lemma arc_rep_wf rel b its b' : wf_bytes b -> arc_rep rel b = (its, Some b') -> draw_calls (calls_of its).
Proof.
  intros W. unfold arc_rep.
  destruct (read_coords 2 b) as [its0 r0] eqn:E0. destruct r0 as [[xs b1]|]; [|discriminate].
  destruct (read_coords_wf _ _ _ _ _ W E0) as (F0 & L0 & C0 & W1).
  destruct xs as [|rx [|ry [|? ?]]]; try discriminate.
  unfold read_num. destruct (dec_zero_to_one b1) as [[rot n1]|] eqn:E1; [|discriminate]. cbv beta iota zeta.
  assert (W2 : wf_bytes (skipn n1 b1)) by (rewrite <- (firstn_skipn n1 b1) in W1; apply wf_bytes_app in W1; tauto).
  match goal with |- context [dec_natural ?t] => destruct (dec_natural t) as [[fl n]|] eqn:E2 end; [|discriminate].
  match goal with |- context [read_coords 2 ?t] => destruct (read_coords 2 t) as [its2 r2] eqn:E3 end.
  destruct r2 as [[ys b4]|]; [|discriminate].
  assert (W3 : wf_bytes (skipn n (skipn n1 b1))).
  { rewrite <- (firstn_skipn n (skipn n1 b1)) in W2. apply wf_bytes_app in W2. tauto. }
  destruct (read_coords_wf _ _ _ _ _ W3 E3) as (F2 & L2 & C2 & _).
  destruct ys as [|x [|y [|? ?]]]; try discriminate. intros [= <- <-].
  rewrite !calls_of_app, C0. cbn [calls_of flat_map app]. fold (calls_of (its2 ++ [ICall (CArc rel rx ry rot (negb (fl mod 2 =? 0)) (negb ((fl / 2) mod 2 =? 0)) x y)])).
  rewrite calls_of_app, C2. cbn [calls_of flat_map app]. constructor; [|constructor].
  cbn [wf_arc_or_draw].
  pose proof (Forall_inv F0) as A1. pose proof (Forall_inv (Forall_inv_tail F0)) as A2.
  pose proof (Forall_inv F2) as A3. pose proof (Forall_inv (Forall_inv_tail F2)) as A4.
  split; [exact A1|]. split; [exact A2|]. split; [exact (wf_dec_zto _ _ _ W1 E1)|]. split; [exact A3|exact A4].
Qed.

Lemma reps_wf k : forall first op one b its b', wf_bytes b ->
  (forall b its r, one b = (its, r) -> pref b its r) ->
  (forall b its b', wf_bytes b -> one b = (its, Some b') -> draw_calls (calls_of its)) ->
  reps first k op one b = (its, Some b') -> draw_calls (calls_of its).
Proof.
  induction k as [|k IH]; intros first op one b its b' W Hp Hw; cbn [reps].
  - intros [= <- _]. constructor.
  - destruct (one b) as [its1 [b1|]] eqn:E; [|discriminate].
    destruct (reps false k op one b1) as [its2 r2] eqn:E2. intros [= <- ->].
    pose proof (pref_wf _ _ _ W (Hp _ _ _ E)) as W1.
    rewrite !calls_of_app. apply Forall_app. split; [destruct first; constructor|].
    apply Forall_app. split; [exact (Hw _ _ _ W E)|exact (IH _ _ _ _ _ _ W1 Hp Hw E2)].
Qed.

Lemma drawing_step_wf opcode b its d' b' : wf_bytes b ->
  drawing_step opcode b = (its, StepOk d' b') -> good_step true its d'.
Proof.
  intros W. unfold drawing_step, draw_group, good_step. cbv zeta beta.
  destruct (opcode <? 224).
  { set (cfg := if _ <? 2 then _ else _). destruct cfg as [[op ncoords] nreps] eqn:Ecfg.
    set (one := if op =? opA then arc_rep false else if op =? opa then arc_rep true else draw_rep op ncoords).
    assert (K : op = opA \/ op = opa \/ (In op run_ops /\ op <> opA /\ op <> opa /\ Z.of_nat ncoords = nargs_of op)).
    { unfold cfg in Ecfg.
      repeat match type of Ecfg with (if ?c then _ else _) = _ => destruct c end;
      injection Ecfg as <- <- <-; auto; right; right; (split; [vm_compute; tauto|split; [vm_compute; congruence|split; [vm_compute; congruence|reflexivity]]]). }
    assert (Hp : forall b its r, one b = (its, r) -> pref b its r).
    { intros b0 i0 r0. unfold one. destruct (op =? opA); [apply arc_rep_pref|].
      destruct (op =? opa); [apply arc_rep_pref|apply draw_rep_pref]. }
    assert (Hw : forall b its b', wf_bytes b -> one b = (its, Some b') -> draw_calls (calls_of its)).
    { intros b0 i0 b0' W0. unfold one. destruct (op =? opA) eqn:EA; [apply arc_rep_wf, W0|].
      destruct (op =? opa) eqn:Ea; [apply arc_rep_wf, W0|].
      destruct K as [->|[->|(I & NA & Na & Kn)]]; [discriminate|discriminate|]. apply draw_rep_wf; assumption. }
    destruct (reps true (Z.to_nat nreps) op one b) as [its0 r0] eqn:E.
    destruct r0 as [b1|]; [|discriminate]. intros [= <- <- <-].
    cbn [calls_of flat_map app]. fold (calls_of its0).
    apply draw_calls_good. exact (reps_wf _ _ _ _ _ _ _ W Hp Hw E). }
  destruct (opcode =? 225); [intros [= <- <- <-]; cbn; auto|].
  assert (S : forall op k, In op run_ops -> op <> opA -> op <> opa -> Z.of_nat k = nargs_of op ->
     (match draw_rep op k b with
      | (its0, Some b') => (ILine [opcode] (PSimple op) :: its0, StepOk true b')
      | (its0, None) => (ILine [opcode] (PSimple op) :: its0, StepErr EInvalidNumber)
      end) = (its, StepOk d' b') -> wf_calls true (calls_of its) /\ end_mode true (calls_of its) = d').
  { intros op k I NA Na Kn. destruct (draw_rep op k b) as [its0 r0] eqn:E.
    destruct r0 as [b1|]; [|discriminate]. intros [= <- <- <-].
    cbn [calls_of flat_map app]. fold (calls_of its0). apply draw_calls_good.
    exact (draw_rep_wf _ _ _ _ _ W I NA Na Kn E). }
  destruct (opcode =? 226); [apply S; [vm_compute; tauto|vm_compute; congruence|vm_compute; congruence|reflexivity]|].
  destruct (opcode =? 227); [apply S; [vm_compute; tauto|vm_compute; congruence|vm_compute; congruence|reflexivity]|].
  destruct (opcode =? 230); [apply S; [vm_compute; tauto|vm_compute; congruence|vm_compute; congruence|reflexivity]|].
  destruct (opcode =? 231); [apply S; [vm_compute; tauto|vm_compute; congruence|vm_compute; congruence|reflexivity]|].
  destruct (opcode =? 232); [apply S; [vm_compute; tauto|vm_compute; congruence|vm_compute; congruence|reflexivity]|].
  destruct (opcode =? 233); [apply S; [vm_compute; tauto|vm_compute; congruence|vm_compute; congruence|reflexivity]|].
  discriminate.
Qed.

(* ---------- the instruction stream ---------- *)
Lemma dec_ops_wf fuel : forall d b its, wf_bytes b -> dec_ops fuel d b = (its, Done) -> wf_calls d (calls_of its).
Proof.
  induction fuel as [|fuel IH]; intros d b its W; destruct b as [|opcode rest]; cbn [dec_ops];
    try (intros [= <-]; exact I); try discriminate.
  destruct ((if d then drawing_step else styling_step) opcode rest) as [its1 r1] eqn:E.
  destruct (wf_bytes_cons _ _ W) as [_ Wr].
  destruct r1 as [e|d1 b1]; [discriminate|].
  destruct (dec_ops fuel d1 b1) as [its2 o2] eqn:E2. intros [= <- ->].
  assert (G : good_step d its1 d1).
  { destruct d; [exact (drawing_step_wf _ _ _ _ _ Wr E)|exact (styling_step_wf _ _ _ _ _ Wr E)]. }
  assert (P : pref (opcode :: rest) its1 (Some b1)).
  { destruct d; [apply (drawing_step_pref _ _ _ _ E)|apply (styling_step_pref _ _ _ _ E)]. }
  destruct G as [G1 G2]. rewrite calls_of_app. apply wf_calls_app; [exact G1|]. rewrite G2.
  apply (IH _ _ _ (pref_wf _ _ _ W P) E2).
Qed.

(* ---------- decoded coordinates are (up to the sign of zero) fixed points of write-and-read-back ---------- *)
Definition coord_img (g : f32) : Prop := exists b n, wf_bytes b /\ dec_coordinate b = Some (g, n).
Definition same_val (g' g : f32) : Prop :=
  g' = g \/ (feq F32 g' g = true /\ is_finite F32 g = true /\ is_finite F32 g' = true).

Lemma q_coord_img g : coord_img g -> wf_f32 g /\ same_val (q_coord g) g.
Proof.
  intros (b & n & W & D). pose proof (wf_dec_coord b g n W D) as Wg. split; [exact Wg|].
  destruct (q_coord_spec g Wg) as [(i & S1 & Eq & Q)|[(i & S1 & S2 & Eq & Q)|(S1 & S2 & Eq)]].
  - right. apply in_range_some in S1 as [_ R]. assert (R' : 0 <= i + 64 < 128) by lia.
    pose proof (good_int_spec _ _ _ (coord1_value _ R')) as [_ [Fq _]]. replace (i + 64 - 64) with i in Fq by lia.
    rewrite <- Eq in Fq. split; [exact Q|]. split; [exact (feq_finite_r _ _ Fq Q)|exact Fq].
  - right. apply in_range_some in S2 as [_ R]. assert (R' : 0 <= i + 8192 <= 16384) by lia.
    pose proof (good_int_spec _ _ _ (coord2_value' _ R')) as [_ [Fq _]]. replace (i + 8192 - 8192) with i in Fq by lia.
    rewrite <- Eq in Fq. split; [exact Q|]. split; [exact (feq_finite_r _ _ Fq Q)|exact Fq].
  - left. rewrite Eq. unfold dec_coordinate in D. destruct (dec_natural b) as [[u k]|] eqn:N; [|discriminate].
    destruct (dec_natural_bound _ _ _ W N) as [[-> R]|[[-> R]|[-> R]]]; injection D as <- <-.
    + exfalso. pose proof (good_int_spec _ _ _ (coord1_value u R)) as [Wv [Fv Iv]].
      assert (E : exact_int F32 (of_Z F32 (u - 64)) = Some (u - 64)).
      { rewrite exact_int_is_scaled. apply ival_exact_int_scaled; try assumption; lia. }
      unfold coord_short1 in S1. rewrite E, in_range_intro in S1 by lia. discriminate.
    + exfalso. pose proof (good_int_spec _ _ _ (coord2_value u R)) as [Wv [Fv Iv]].
      assert (E : exact_int_scaled F32 6 (fdiv F32 (of_Z F32 (u - 8192)) c64) = Some (u - 8192)).
      { apply ival_exact_int_scaled; try assumption; lia. }
      unfold coord_short2 in S2. rewrite E, in_range_intro in S2 by lia. discriminate.
    + pose proof (round4_spec (clear2 u) (wf_clear2 u)) as K. cbv zeta in K. destruct K as (_ & _ & _ & _ & K & _).
      apply K. unfold clear2. lia.
Qed.

Lemma read_coords_img k : forall b its xs rest, wf_bytes b -> read_coords k b = (its, Some (xs, rest)) -> Forall coord_img xs.
Proof.
  induction k as [|k IH]; intros b its xs rest W; cbn [read_coords].
  - intros [= _ <- _]. constructor.
  - unfold read_num. destruct (dec_coordinate b) as [[x n]|] eqn:D; [|discriminate]. cbv beta iota zeta.
    match goal with |- context [read_coords k ?t] => destruct (read_coords k t) as [its' r'] eqn:E end.
    destruct r' as [[xs' b2]|]; [|discriminate]. intros [= _ <- _].
    assert (W' : wf_bytes (skipn n b)) by (rewrite <- (firstn_skipn n b) in W; apply wf_bytes_app in W; tauto).
    constructor; [exists b, n; auto|exact (IH _ _ _ _ W' E)].
Qed.

Lemma finite_decode x : is_finite F32 x = true -> exists s m e, decode F32 x = FFin s m e.
Proof. unfold is_finite. destruct (decode F32 x); try discriminate. eauto. Qed.

Lemma nan_or_inf_spec x : wf_f32 x -> is_nan_or_inf x = negb (is_finite F32 x).
Proof.
  intros W. unfold is_nan_or_inf, is_finite, decode, expo_of, emax_field.
  change (prec F32 - 1) with 23. change (ebits F32) with 8. change (2 ^ 23) with 8388608. change (2 ^ 8) with 256. change (256 - 1) with 255.
  destruct ((x / 8388608) mod 256 =? 255); [destruct (mant_of F32 x =? 0); reflexivity|].
  destruct ((x / 8388608) mod 256 =? 0); reflexivity.
Qed.

Lemma fgt_ival a b : wf_f32 a -> wf_f32 b -> is_finite F32 a = true -> is_finite F32 b = true ->
  fgt F32 a b = (ival32 b <? ival32 a).
Proof.
  intros Wa Wb Fa Fb. destruct (finite_decode a Fa) as (s1 & m1 & e1 & Da). destruct (finite_decode b Fb) as (s2 & m2 & e2 & Db).
  unfold fgt, flt. rewrite (fcompare_ival _ _ _ _ _ _ _ _ Wb Wa Db Da).
  destruct (Z.compare_spec (ival32 b) (ival32 a)); lia.
Qed.

Lemma same_val_facts g' g : wf_f32 g' -> wf_f32 g -> is_finite F32 g = true -> same_val g' g ->
  is_finite F32 g' = true /\ ival32 g' = ival32 g.
Proof.
  intros W' W F [->|(Q & Fg & Fg')]; [auto|]. split; [exact Fg'|]. apply feq_ival; assumption.
Qed.

Lemma wf_q_coord g : wf_f32 g -> wf_f32 (q_coord g).
Proof.
  intros W. destruct (q_coord_spec g W) as [(i & S1 & -> & _)|[(i & _ & S2 & -> & _)|(_ & _ & ->)]].
  - apply in_range_some in S1 as [_ R]. assert (R' : 0 <= i + 64 < 128) by lia.
    pose proof (good_int_spec _ _ _ (coord1_value _ R')) as [Wq _]. replace (i + 64 - 64) with i in Wq by lia. exact Wq.
  - apply in_range_some in S2 as [_ R]. assert (R' : 0 <= i + 8192 <= 16384) by lia.
    pose proof (good_int_spec _ _ _ (coord2_value' _ R')) as [Wq _]. replace (i + 8192 - 8192) with i in Wq by lia. exact Wq.
  - apply round4_val_wf, W.
Qed.

Definition vb_img (v : viewbox) : Prop := coord_img (vminx v) /\ coord_img (vminy v) /\ coord_img (vmaxx v) /\ coord_img (vmaxy v).

Lemma qvb_valid v : vb_img v -> viewbox_invalid v = false -> wf_vb v /\ viewbox_invalid (qvb v) = false.
Proof.
  intros (I0 & I1 & I2 & I3) V.
  destruct (q_coord_img _ I0) as [W0 S0]. destruct (q_coord_img _ I1) as [W1 S1].
  destruct (q_coord_img _ I2) as [W2 S2]. destruct (q_coord_img _ I3) as [W3 S3].
  split; [exact (conj W0 (conj W1 (conj W2 W3)))|].
  unfold viewbox_invalid in *. repeat (apply orb_false_iff in V; destruct V as [V ?]).
  rewrite (nan_or_inf_spec _ W0), (nan_or_inf_spec _ W1), (nan_or_inf_spec _ W2), (nan_or_inf_spec _ W3) in *.
  repeat match goal with H : negb _ = false |- _ => apply negb_false_iff in H end.
  destruct (same_val_facts _ _ (wf_q_coord _ W0) W0 ltac:(assumption) S0) as [F0 E0].
  destruct (same_val_facts _ _ (wf_q_coord _ W1) W1 ltac:(assumption) S1) as [F1 E1].
  destruct (same_val_facts _ _ (wf_q_coord _ W2) W2 ltac:(assumption) S2) as [F2 E2].
  destruct (same_val_facts _ _ (wf_q_coord _ W3) W3 ltac:(assumption) S3) as [F3 E3].
  cbn [qvb vminx vminy vmaxx vmaxy].
  rewrite !nan_or_inf_spec by (apply wf_q_coord; assumption). rewrite F0, F1, F2, F3. cbn [negb orb].
  rewrite !orb_false_r.
  rewrite !fgt_ival in * by (try apply wf_q_coord; assumption).
  rewrite E0, E1, E2, E3. apply orb_false_iff. split; assumption.
Qed.

(* ---------- metadata ---------- *)
Definition meta_good (m : meta) : Prop :=
  vb_img (m_vb m) /\ viewbox_invalid (m_vb m) = false /\ length (m_pal m) = 64%nat /\ Forall wf_rgba (m_pal m).

Lemma default_meta_good : meta_good default_meta.
Proof.
  split; [|split; [vm_compute; reflexivity|split; [reflexivity|]]].
  - assert (A : coord_img c_m32).
    { exists [64], 1%nat. split; [repeat constructor; unfold wf_byte; lia|vm_compute; reflexivity]. }
    assert (B : coord_img c_32).
    { exists [192], 1%nat. split; [repeat constructor; unfold wf_byte; lia|vm_compute; reflexivity]. }
    repeat split; assumption.
  - unfold default_meta, default_palette. cbn [m_pal]. apply Forall_forall. intros c I. apply repeat_spec in I. subst c.
    unfold wf_rgba, wf_chan. cbn. lia.
Qed.

Lemma set_nth_Forall {A} (P : A -> Prop) l i x : Forall P l -> P x -> Forall P (set_nth l i x).
Proof.
  intros F Px. unfold set_nth. apply Forall_app. split.
  - rewrite <- (firstn_skipn i l) in F. apply Forall_app in F. tauto.
  - constructor; [exact Px|]. rewrite <- (firstn_skipn (S i) l) in F. apply Forall_app in F. tauto.
Qed.

Lemma wf_color_rgba c : wf_color c -> wf_rgba (fst (color_rgba c)).
Proof.
  intros W. unfold color_rgba.
  assert (Hb : wf_rgba opaque_black) by (unfold wf_rgba, wf_chan; cbn; lia).
  destruct c as [d| | |]; try exact Hb. destruct (valid_premul d); [exact W|exact Hb].
Qed.

Lemma read_palette_wf k : forall i form pal b its pal' rest, wf_bytes b -> Forall wf_rgba pal ->
  read_palette k i form pal b = (its, Some (pal', rest)) -> Forall wf_rgba pal' /\ wf_bytes rest.
Proof.
  induction k as [|k IH]; intros i form pal b its pal' rest W F; cbn [read_palette].
  - intros [= _ <- <-]. auto.
  - destruct (dec_color_form _ b) as [[c n]|] eqn:D; [|discriminate].
    match goal with |- context [read_palette k ?a ?f ?p ?t] => destruct (read_palette k a f p t) as [its' r'] eqn:E end.
    destruct r' as [[p r]|]; [|discriminate]. intros [= _ <- <-].
    assert (W' : wf_bytes (skipn n b)) by (rewrite <- (firstn_skipn n b) in W; apply wf_bytes_app in W; tauto).
    eapply IH; [exact W'| |exact E].
    apply set_nth_Forall; [exact F|]. apply wf_color_rgba. exact (wf_dec_color _ _ _ _ W D).
Qed.

Lemma dec_natural_rest b u n : wf_bytes b -> dec_natural b = Some (u, n) -> wf_bytes (skipn n b).
Proof. intros W _. rewrite <- (firstn_skipn n b) in W. apply wf_bytes_app in W. tauto. Qed.

Lemma dec_chunk_wf minmid m b its m' b' mid : wf_bytes b -> meta_good m ->
  dec_chunk minmid m b = (its, ChunkOk m' b' mid) -> meta_good m' /\ wf_bytes b'.
Proof.
  intros W (Gv & Gi & Gl & Gp). unfold dec_chunk.
  destruct (dec_natural b) as [[len n]|] eqn:N0; [|discriminate]. cbv beta iota zeta.
  pose proof (dec_natural_rest _ _ _ W N0) as W1.
  match goal with |- context [dec_natural ?t] => destruct (dec_natural t) as [[mid0 n1]|] eqn:N1 end; [|discriminate].
  pose proof (dec_natural_rest _ _ _ W1 N1) as W2.
  destruct (2 <=? mid0); [discriminate|]. destruct (mid0 <? minmid); [discriminate|].
  destruct (mid0 =? 0).
  - match goal with |- context [read_coords 4 ?t] => destruct (read_coords 4 t) as [i0 r0] eqn:E end.
    destruct r0 as [[xs bb]|]; [|discriminate].
    destruct (read_coords_wf _ _ _ _ _ W2 E) as (_ & _ & _ & Wb).
    pose proof (read_coords_img _ _ _ _ _ W2 E) as Im.
    destruct xs as [|x0 [|y0 [|x1 [|y1 [|? ?]]]]]; try discriminate.
    match goal with |- context [viewbox_invalid ?v] => destruct (viewbox_invalid v) eqn:V end; [discriminate|].
    match goal with |- context [Z.eqb ?a ?b] => destruct (Z.eqb a b) end; [|discriminate].
    intros [= _ <- <- _]. split; [|exact Wb]. unfold meta_good. cbn [m_vb m_pal].
    split; [|split; [exact V|split; assumption]].
    pose proof (Forall_inv Im). pose proof (Forall_inv (Forall_inv_tail Im)).
    pose proof (Forall_inv (Forall_inv_tail (Forall_inv_tail Im))).
    pose proof (Forall_inv (Forall_inv_tail (Forall_inv_tail (Forall_inv_tail Im)))).
    repeat split; assumption.
  - match goal with |- context [match ?t with [] => _ | _ :: _ => _ end] => destruct t as [|h b3] eqn:Eb end; [discriminate|].
    match goal with |- context [read_palette ?a ?i ?f ?p ?t] => destruct (read_palette a i f p t) as [i0 r0] eqn:E end.
    destruct r0 as [[pal bb]|]; [|discriminate].
    match goal with |- context [Z.eqb ?a ?b] => destruct (Z.eqb a b) end; [|discriminate].
    intros [= _ <- <- _].
    assert (W23 : wf_bytes (h :: b3)) by (rewrite <- Eb; exact W2).
    assert (W3 : wf_bytes b3) by (apply (wf_bytes_cons _ _ W23)).
    destruct (read_palette_wf _ _ _ _ _ _ _ _ W3 Gp E) as [Fp Wb].
    assert (Lp : length pal = length (m_pal m)).
    { assert (Hc : (0 + Z.to_nat (1 + h mod 64) <= length (m_pal m))%nat).
      { rewrite Gl. destruct (wf_bytes_cons _ _ W23) as [Hh _]. lia. }
      exact (proj1 (read_palette_spec _ _ _ _ _ _ _ _ Hc E)). }
    split; [|exact Wb]. unfold meta_good. cbn [m_vb m_pal]. rewrite Lp. split; [exact Gv|split; [exact Gi|split; [exact Gl|exact Fp]]].
Qed.

Lemma dec_chunks_wf fuel : forall n minmid m b its m' rest, wf_bytes b -> meta_good m ->
  dec_chunks fuel n minmid m b = (its, ChunksOk m' rest) -> meta_good m' /\ wf_bytes rest.
Proof.
  induction fuel as [|fuel IH]; intros n minmid m b its m' rest W G; cbn [dec_chunks];
    destruct (n <=? 0); try (intros [= _ <- <-]; auto; fail); try discriminate.
  destruct (dec_chunk minmid m b) as [its1 [e|m1 b1 mid]] eqn:E; [discriminate|].
  destruct (dec_chunk_wf _ _ _ _ _ _ _ W G E) as [G1 W1].
  destruct (dec_chunks fuel (n - 1) (mid + 1) m1 b1) as [its2 r2] eqn:E2. intros [= _ ->].
  exact (IH _ _ _ _ _ _ _ W1 G1 E2).
Qed.

Lemma dec_metadata_wf b its m rest : wf_bytes b -> dec_metadata b = (its, ChunksOk m rest) -> meta_good m /\ wf_bytes rest.
Proof.
  intros W. unfold dec_metadata. destruct (negb (has_prefix magic b)); [discriminate|]. cbv beta iota zeta.
  assert (W4 : wf_bytes (skipn 4 b)) by (rewrite <- (firstn_skipn 4 b) in W; apply wf_bytes_app in W; tauto).
  match goal with |- context [dec_natural ?t] => destruct (dec_natural t) as [[nc n]|] eqn:N end; [|discriminate]. cbv beta iota zeta.
  pose proof (dec_natural_rest _ _ _ W4 N) as W5.
  match goal with |- context [dec_chunks ?f ?a ?mm ?m0 ?t] => destruct (dec_chunks f a mm m0 t) as [its1 r1] eqn:E end.
  intros [= _ ->]. exact (dec_chunks_wf _ _ _ _ _ _ _ _ W5 default_meta_good E).
Qed.

(* ---------- the converse: what the decoder accepts, an Encoder accepts, and the re-encoded stream decodes
   to the same calls, each number in its written-and-read-back form ---------- *)
Lemma sanitize_wf p : Forall wf_rgba p -> Forall (fun c => wf_rgba c /\ valid_premul c = true) (sanitize_palette p).
Proof.
  intros F. unfold sanitize_palette. apply Forall_forall. intros c I. apply in_map_iff in I as (d & <- & Id).
  rewrite Forall_forall in F. specialize (F d Id). destruct (valid_premul d) eqn:V; [auto|].
  split; [unfold wf_rgba, wf_chan; cbn; lia|reflexivity].
Qed.

Theorem decoded_is_wellformed b cs : wf_bytes b -> decode_calls [] b = (cs, Done) ->
  exists vb pal body, cs = CReset vb pal :: body /\
    wf_vb vb /\ viewbox_invalid vb = false /\ viewbox_invalid (qvb vb) = false /\ wf_pal pal /\ wf_calls false body.
Proof.
  intros W. unfold decode_calls, decode_items.
  destruct (dec_metadata b) as [its r] eqn:Em. destruct r as [o|m rest].
  { intros [= _ ->]. exfalso. exact (dec_metadata_err _ _ _ Em eq_refl). }
  destruct (dec_metadata_ok _ _ _ Em) as (C & _).
  destruct (dec_metadata_wf _ _ _ _ W Em) as [(Gv & Gi & Gl & Gp) Wr].
  cbn [apply_opts m_vb m_pal].
  destruct (dec_ops (length rest) false rest) as [its' o] eqn:Eo. intros [= <- ->].
  destruct (qvb_valid _ Gv Gi) as [Wv Vq].
  exists (m_vb m), (sanitize_palette (m_pal m)), (calls_of its'). split.
  { rewrite calls_of_app. unfold ncalls in C. destruct (calls_of its); [reflexivity|discriminate]. }
  split; [exact Wv|]. split; [exact Gi|]. split; [exact Vq|]. split.
  { split; [rewrite sanitize_length; exact Gl|apply sanitize_wf, Gp]. }
  exact (dec_ops_wf _ _ _ _ Wr Eo).
Qed.

Theorem transcode b cs e0 : wf_bytes b -> decode_calls [] b = (cs, Done) ->
  exists vb pal body b', cs = CReset vb pal :: body /\
    snd (enc_bytes (fst (enc_run e0 (map ACall cs)))) = BytesOk b' /\
    decode_calls [] b' = (CReset (m_vb (meta_of vb pal)) pal :: expect false false (map ACall body), Done).
Proof.
  intros W D. destruct (decoded_is_wellformed b cs W D) as (vb & pal & body & -> & Wv & _ & Vq & Wp & Wc).
  destruct (encode_decode e0 vb pal (map ACall body) Wv Vq Wp (wf_acts_map _ _ Wc)) as (b' & Eb & Ed).
  exists vb, pal, body, b'. split; [reflexivity|]. split; [exact Eb|exact Ed].
Qed.

(* C07: a Renderer behind encode+decode sees the written-and-read-back form of the program *)
Theorem via_bytes e0 vb pal body (s : Arc.S) :
  wf_vb vb -> viewbox_invalid (qvb vb) = false -> wf_pal pal -> wf_acts false body ->
  exists b, snd (enc_bytes (fst (enc_run e0 (ACall (CReset vb pal) :: body)))) = BytesOk b /\
            snd (decode_calls [] b) = Done /\
            Arc.rrun32 s (fst (decode_calls [] b)) = Arc.rrun32 s (CReset (m_vb (meta_of vb pal)) pal :: expect false false body).
Proof.
  intros Wv V Wp Wb. destruct (MetaRT.encode_decode e0 vb pal body Wv V Wp Wb) as (b & Eb & Ed).
  exists b. rewrite Ed. auto.
Qed.

(* VMProofs.v — the renderer's register file refines the specification's virtual machine and each
   path gets the paint the machine prescribes (C04). *)
From Coq Require Import ZArith Bool List Lia ZifyBool ZifyNat.
From IVG Require Import SF NumCodec Color Calls Render GoMath Arc VMSpec RenderProofs.
Import ListNotations.
Local Open Scope Z_scope.
Ltac Zify.zify_post_hook ::= Z.div_mod_to_equations.

Definition nreg_fn (l : list f32) : Z -> f32 := fun i => nreg_at l i.
Definition creg_fn (l : list rgba) : Z -> rgba := fun i => reg_at l i.

(* abstraction of a renderer state *)
Definition vabs (s : S) : vm :=
  mkVM (creg_fn (r_creg s)) (nreg_fn (r_nreg s)) (r_csel s) (r_nsel s) (r_lod0 s) (r_lod1 s) (creg_fn (r_pal s)).

(* equality of machines: registers pointwise *)
Definition vm_eq (a b : vm) : Prop :=
  (forall i, v_creg a i = v_creg b i) /\ (forall i, v_nreg a i = v_nreg b i) /\
  v_csel a = v_csel b /\ v_nsel a = v_nsel b /\ v_lod0 a = v_lod0 b /\ v_lod1 a = v_lod1 b /\
  (forall i, v_pal a i = v_pal b i).

Definition regs_ok (s : S) : Prop :=
  length (r_creg s) = 64%nat /\ length (r_nreg s) = 64%nat /\ length (r_pal s) = 64%nat /\
  0 <= r_csel s < 64 /\ 0 <= r_nsel s < 64.

Lemma set_at_length {A} (l : list A) i x : length l = 64%nat -> length (set_at l i x) = 64%nat.
Proof.
  intros L. unfold set_at. assert (0 <= i mod 64 < 64) by lia.
  rewrite app_length, firstn_length_le by lia. cbn [length]. rewrite skipn_length. lia.
Qed.

Lemma nth_set_at {A} (l : list A) i j x d : length l = 64%nat ->
  nth (Z.to_nat (j mod 64)) (set_at l i x) d = if (j mod 64) =? (i mod 64) then x else nth (Z.to_nat (j mod 64)) l d.
Proof.
  intros L. unfold set_at. assert (Hi : 0 <= i mod 64 < 64) by lia. assert (Hj : 0 <= j mod 64 < 64) by lia.
  set (a := Z.to_nat (i mod 64)). set (b := Z.to_nat (j mod 64)).
  assert (Ha : (a < 64)%nat) by (unfold a; lia). assert (Hb : (b < 64)%nat) by (unfold b; lia).
  destruct (j mod 64 =? i mod 64) eqn:E.
  - assert (b = a) by (unfold a, b; lia). subst b. rewrite H.
    rewrite app_nth2; rewrite firstn_length_le by lia; [|lia]. rewrite Nat.sub_diag. reflexivity.
  - assert (b <> a) by (unfold a, b; lia).
    destruct (Nat.lt_ge_cases b a) as [Hlt|Hge].
    + rewrite app_nth1 by (rewrite firstn_length_le; lia).
      rewrite <- (firstn_skipn a l) at 2. rewrite app_nth1 by (rewrite firstn_length_le; lia). reflexivity.
    + rewrite app_nth2 by (rewrite firstn_length_le; lia). rewrite firstn_length_le by lia.
      destruct (b - a)%nat as [|k] eqn:Ek; [lia|]. cbn [nth].
      rewrite <- (firstn_skipn (Datatypes.S a) l) at 2. rewrite app_nth2; rewrite firstn_length_le by lia; [|lia].
      f_equal. lia.
Qed.

Lemma vm_resolve_abs s c : vm_resolve (vabs s) c = resolve (r_pal s) (r_creg s) c.
Proof. destruct c; reflexivity. Qed.

Definition is_reg_op (c : call) : bool :=
  match c with CSetCSel _ | CSetNSel _ | CSetCReg _ _ _ | CSetNReg _ _ _ | CSetLOD _ _ => true | _ => false end.

(* every styling call commutes with the abstraction: wrap-around at 0/63, ADJ, post-increment,
   palette / register / blend colours resolved at the time of the store *)
Theorem renderer_refines_vm s c : regs_ok s -> is_reg_op c = true ->
  vm_eq (vabs (rstep32 s c)) (vm_step (vabs s) c) /\ regs_ok (rstep32 s c) /\ r_log (rstep32 s c) = r_log s.
Proof.
  intros (Lc & Ln & Lp & Hc & Hn) R.
  destruct c as [| v | v | adj incr col | adj incr x | a b | | | |]; try discriminate R;
    unfold rstep32, rstep, upd_regs, upd_lod, vabs, vm_eq, regs_ok; proj; cbn [vm_step v_creg v_nreg v_csel v_nsel v_lod0 v_lod1 v_pal].
  - repeat split; try reflexivity; try assumption; lia.
  - repeat split; try reflexivity; try assumption; lia.
  - repeat split; try reflexivity; try assumption; try (apply set_at_length; assumption); try (destruct incr; lia).
    intros i. unfold creg_fn, reg_at, upd. rewrite nth_set_at by assumption.
    destruct (i mod 64 =? (r_csel s - adj) mod 64); [destruct col; reflexivity|reflexivity].
  - repeat split; try reflexivity; try assumption; try (apply set_at_length; assumption); try (destruct incr; lia).
    intros i. unfold nreg_fn, nreg_at, upd. rewrite nth_set_at by assumption. reflexivity.
  - repeat split; try reflexivity; try assumption; lia.
Qed.

(* Reset: colour registers from the custom palette, number registers and selectors zero, LOD [0, +inf) *)
Theorem reset_initial s vb pal : length pal = 64%nat ->
  vm_eq (vabs (rstep32 s (CReset vb pal))) (vm_reset (creg_fn pal)) /\ regs_ok (rstep32 s (CReset vb pal)).
Proof.
  intros L. unfold rstep32, rstep, rreset, vabs, vm_eq, regs_ok, vm_reset. proj. cbn [v_creg v_nreg v_csel v_nsel v_lod0 v_lod1 v_pal].
  repeat split; try reflexivity; try assumption; try lia.
  intros i. unfold nreg_fn, nreg_at. assert (0 <= i mod 64 < 64) by lia.
  destruct (nth_in_or_default (Z.to_nat (i mod 64)) (repeat 0 64) 0) as [H0|H0]; [apply repeat_spec in H0; exact H0|exact H0].
Qed.

(* ---- the paint ---- *)
Definition paint_of (s s2 : S) : vpaint :=
  if r_disabled s2 then VSkip
  else match r_paint s2 with
       | PFlat c => VFlat c
       | PGrad g => VGrad (g_shape g) (g_spread g) (map (fun st => (gs_off st, gs_col st)) (g_stops g)) (g_raw g)
       end.

Fixpoint chk (p : f32) (l : list (f32 * rgba)) : bool :=
  match l with
  | [] => true
  | (off, col) :: r => valid_premul col && (fle F32 0 off && fle F32 off c_one32) && fgt F32 off p && chk off r
  end.

Definition stop_list (k : nat) (i cbase nbase : Z) (creg : list rgba) (nreg : list f32) : list (f32 * rgba) :=
  map (fun j => (nreg_at nreg (nbase + i + Z.of_nat j), reg_at creg (cbase + i + Z.of_nat j))) (seq 0 k).

Lemma stop_list_S k i cbase nbase creg nreg :
  stop_list (Datatypes.S k) i cbase nbase creg nreg =
  (nreg_at nreg (nbase + i), reg_at creg (cbase + i)) :: stop_list k (i + 1) cbase nbase creg nreg.
Proof.
  unfold stop_list. cbn [seq map]. rewrite !Z.add_0_r. f_equal.
  rewrite <- seq_shift, map_map. apply map_ext. intros a. f_equal; f_equal; lia.
Qed.

Definition mk_stops (l : list (f32 * rgba)) : list gstop := map (fun '(off, col) => mkStop off col) l.

Lemma grad_stops_spec k : forall i cbase nbase creg nreg prev,
  grad_stops k i cbase nbase creg nreg prev =
  if chk prev (stop_list k i cbase nbase creg nreg) then Some (mk_stops (stop_list k i cbase nbase creg nreg)) else None.
Proof.
  induction k as [|k IH]; intros i cbase nbase creg nreg prev; [reflexivity|].
  rewrite stop_list_S. cbn [grad_stops chk mk_stops map].
  destruct (valid_premul (reg_at creg (cbase + i))); cbn [negb andb]; [|reflexivity].
  destruct (fle F32 0 (nreg_at nreg (nbase + i)) && fle F32 (nreg_at nreg (nbase + i)) c_one32); cbn [negb orb andb]; [|reflexivity].
  destruct (fgt F32 (nreg_at nreg (nbase + i)) prev); cbn [negb andb]; [|reflexivity].
  rewrite IH. destruct (chk _ _); reflexivity.
Qed.

(* the renderer's validity check is the specification's *)
Lemma chk_stops_valid l : forall p, chk p l = stops_valid (Some p) l.
Proof.
  induction l as [|[off col] r IH]; intros p; [reflexivity|]. cbn [chk stops_valid]. rewrite IH.
  unfold fgt, c_one32. rewrite <- !andb_assoc. reflexivity.
Qed.

Lemma chk_neg_inf l : chk neg_inf32 l = stops_valid None l.
Proof.
  destruct l as [|[off col] r]; [reflexivity|]. cbn [chk stops_valid]. rewrite chk_stops_valid.
  unfold c_one32.
  (* any offset that passed 0 <= off is greater than -inf *)
  destruct (valid_premul col); cbn [andb]; [|reflexivity].
  destruct (fle F32 0 off) eqn:E0; cbn [andb]; [|reflexivity].
  destruct (fle F32 off 1065353216); cbn [andb]; [|reflexivity].
  assert (G : fgt F32 off neg_inf32 = true).
  { unfold fgt, flt, fle, fcompare in *. change (decode F32 neg_inf32) with (FInf true).
    change (decode F32 0) with (FFin false 0 (-149)) in E0.
    destruct (decode F32 off) as [| [|] |]; try reflexivity; try discriminate E0. }
  rewrite G. reflexivity.
Qed.

Lemma stop_list_vm s g :
  stop_list (Z.to_nat (gp_nstops g)) 0 (gp_cbase g) (gp_nbase g) (r_creg s) (r_nreg s) =
  vm_stops (vabs s) (gp_cbase g) (gp_nbase g) (gp_nstops g).
Proof.
  unfold stop_list, vm_stops, vabs, nreg_fn, creg_fn. cbn [v_nreg v_creg]. apply map_ext. intros a.
  rewrite !Z.add_0_r. reflexivity.
Qed.

(* at StartPath the paint handed to the rasteriser is the paint the machine prescribes *)
Theorem paint_is_prescribed s adj x y :
  paint_of s (rstep32 s (CStartPath adj x y)) = vm_paint (vabs s) adj (r_h s).
Proof.
  unfold rstep32, rstep, start_path, paint_of, vm_paint, vabs. cbn [v_creg v_csel v_lod0 v_lod1].
  set (flat := reg_at (r_creg s) (r_csel s - adj)).
  change (creg_fn (r_creg s) (r_csel s - adj)) with flat.
  set (lodok := fle F32 (r_lod0 s) (of_Z F32 (r_h s)) && flt F32 (of_Z F32 (r_h s)) (r_lod1 s)).
  destruct (valid_premul flat) eqn:Vp.
  - destruct lodok; cbn [negb orb].
    + destruct (ca flat =? 0); cbn; reflexivity.
    + rewrite orb_true_r. cbn. reflexivity.
  - destruct (valid_gradient flat) eqn:Vg.
    + unfold init_gradient. rewrite grad_stops_spec, chk_neg_inf, stop_list_vm.
      fold (vabs s).
      set (g := decode_gradient flat).
      set (stops := vm_stops (vabs s) (gp_cbase g) (gp_nbase g) (gp_nstops g)).
      assert (Ls : length (mk_stops stops) = Z.to_nat (gp_nstops g)).
      { unfold mk_stops, stops, vm_stops. rewrite !map_length, seq_length. reflexivity. }
      assert (Ng : 0 <= gp_nstops g) by (unfold g, decode_gradient; cbn; lia).
      destruct (stops_valid None stops) eqn:Sv.
      * destruct (length (mk_stops stops) <? 2)%nat eqn:L2.
        -- replace (2 <=? gp_nstops g) with false by lia. cbn [fst snd andb orb].
           destruct lodok; cbn; reflexivity.
        -- replace (2 <=? gp_nstops g) with true by lia. cbn [fst snd andb orb].
           destruct lodok; cbn; [|reflexivity].
           f_equal. unfold mk_stops. rewrite map_map. rewrite <- (map_id stops) at 2. apply map_ext. intros [o c]. reflexivity.
      * rewrite andb_false_r. cbn [fst snd orb]. destruct lodok; cbn; reflexivity.
    + cbn. destruct lodok; reflexivity.
Qed.

Lemma start_path_disabled_log s adj x y :
  r_disabled (start_path N32 s adj x y) = true -> r_log (start_path N32 s adj x y) = r_log s.
Proof.
  unfold start_path.
  match goal with |- context [let '(dis, p) := ?t in _] => destruct t as [dis p] end.
  cbv zeta. destruct (dis || _) eqn:E.
  - intros _. destruct s; reflexivity.
  - destruct s; cbn. discriminate.
Qed.

(* a skipped path is silent: StartPath, every drawing call and the end of the path leave the rasteriser untouched *)
Theorem skipped_is_silent s adj x y : vm_paint (vabs s) adj (r_h s) = VSkip ->
  let s1 := rstep32 s (CStartPath adj x y) in
  r_disabled s1 = true /\ r_log s1 = r_log s /\
  (forall c, is_drawing c = true -> rstep32 s1 c = s1) /\
  r_log (rstep32 s1 CEndPath) = r_log s.
Proof.
  intros V. cbv zeta. rewrite <- paint_is_prescribed with (x := x) (y := y) in V.
  unfold paint_of in V. set (s1 := rstep32 s (CStartPath adj x y)) in *.
  assert (D : r_disabled s1 = true).
  { destruct (r_disabled s1); [reflexivity|]. destruct (r_paint s1); discriminate. }
  assert (L : r_log s1 = r_log s) by (apply start_path_disabled_log; exact D).
  split; [exact D|]. split; [exact L|]. split.
  - intros c Dc. apply disabled_draw; assumption.
  - unfold rstep32, rstep, end_path. rewrite D. exact L.
Qed.

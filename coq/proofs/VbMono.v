(* VbMono.v — writing a coordinate and reading it back is monotone on finite floats, so a valid viewBox stays
   valid as written (removes the residual hypothesis of C01's encode_decode). *)
From Coq Require Import ZArith Bool List Lia ZifyBool.
From IVG Require Import SF NumCodec Color Calls Decoder NumBase NumProofs RoundTrip MetaRT Transcode.
Import ListNotations.
Local Open Scope Z_scope.
Ltac Zify.zify_post_hook ::= Z.div_mod_to_equations.

Definition exf (x : Z) : Z := (x / 8388608) mod 256.
Definition manf (x : Z) : Z := x mod 8388608.
Definition magf (x : Z) : Z := x mod 2147483648.
Definition negf (x : Z) : bool := 0 <? x / 2147483648.
(* the magnitude, as an integer multiple of 2^-149 *)
Definition G (x : Z) : Z := if exf x =? 0 then manf x else (8388608 + manf x) * 2 ^ (exf x - 1).

Lemma ival_bits x : wf_f32 x -> exf x <> 255 -> is_finite F32 x = true /\ ival32 x = (if negf x then - G x else G x).
Proof.
  intros W He. unfold is_finite, ival32, decode, sign_of, expo_of, mant_of, emax_field, emin, width, F32. cbn [prec ebits].
  change (2 ^ (24 - 1)) with 8388608. change (2 ^ 8) with 256. change (2 ^ (8 - 1)) with 128. change (2 ^ (24 + 8 - 1)) with 2147483648.
  fold (exf x). fold (manf x). fold (negf x). unfold G.
  destruct (exf x =? 256 - 1) eqn:E1; [lia|].
  destruct (exf x =? 0) eqn:E2.
  - split; [reflexivity|]. unfold sm. change (2 - 128 - (24 - 1) + 149) with 0. change (2 ^ 0) with 1. destruct (negf x); lia.
  - split; [reflexivity|]. unfold sm. replace (exf x + (2 - 128 - (24 - 1)) - 1 + 149) with (exf x - 1) by lia. destruct (negf x); lia.
Qed.

Lemma mag_split x : wf_f32 x -> magf x = exf x * 8388608 + manf x /\ 0 <= manf x < 8388608 /\ 0 <= exf x < 256.
Proof. unfold wf_f32, magf, exf, manf. lia. Qed.

Lemma G_nonneg x : wf_f32 x -> 0 <= G x.
Proof.
  intros W. destruct (mag_split x W) as (_ & Hm & He). unfold G. destruct (exf x =? 0); [lia|].
  apply Z.mul_nonneg_nonneg; [lia|apply Z.pow_nonneg; lia].
Qed.

Lemma pow_step a b : 0 <= a -> a < b -> 2 * 2 ^ a <= 2 ^ b.
Proof.
  intros Ha Hab. replace (2 * 2 ^ a) with (2 ^ (a + 1)) by (rewrite Z.pow_add_r by lia; lia).
  apply Z.pow_le_mono_r; lia.
Qed.

Lemma G_mono x y : wf_f32 x -> wf_f32 y -> exf y <> 255 -> magf x <= magf y -> G x <= G y.
Proof.
  intros Wx Wy Hy H. destruct (mag_split x Wx) as (Sx & Mx & Ex). destruct (mag_split y Wy) as (Sy & My & Ey).
  assert (Hex : exf x <= exf y) by nia.
  unfold G. destruct (exf x =? 0) eqn:E0x; destruct (exf y =? 0) eqn:E0y.
  - nia.
  - assert (P : 1 <= 2 ^ (exf y - 1)) by (apply (Z.pow_le_mono_r 2 0); lia). nia.
  - lia.
  - destruct (Z.eq_dec (exf x) (exf y)) as [Eq|Ne].
    + rewrite Eq in *. assert (P : 0 < 2 ^ (exf y - 1)) by (apply Z.pow_pos_nonneg; lia). nia.
    + assert (P : 2 * 2 ^ (exf x - 1) <= 2 ^ (exf y - 1)) by (apply pow_step; lia).
      assert (Q : 0 < 2 ^ (exf x - 1)) by (apply Z.pow_pos_nonneg; lia). nia.
Qed.

Lemma G_strict x y : wf_f32 x -> wf_f32 y -> exf y <> 255 -> magf x < magf y -> G x < G y.
Proof.
  intros Wx Wy Hy H. destruct (mag_split x Wx) as (Sx & Mx & Ex). destruct (mag_split y Wy) as (Sy & My & Ey).
  assert (Hex : exf x <= exf y) by nia.
  unfold G. destruct (exf x =? 0) eqn:E0x; destruct (exf y =? 0) eqn:E0y.
  - nia.
  - assert (P : 1 <= 2 ^ (exf y - 1)) by (apply (Z.pow_le_mono_r 2 0); lia). nia.
  - lia.
  - destruct (Z.eq_dec (exf x) (exf y)) as [Eq|Ne].
    + rewrite Eq in *. assert (P : 0 < 2 ^ (exf y - 1)) by (apply Z.pow_pos_nonneg; lia). nia.
    + assert (P : 2 * 2 ^ (exf x - 1) <= 2 ^ (exf y - 1)) by (apply pow_step; lia).
      assert (Q : 0 < 2 ^ (exf x - 1)) by (apply Z.pow_pos_nonneg; lia). nia.
Qed.

(* order of magnitudes is reflected *)
Lemma G_reflect x y : wf_f32 x -> wf_f32 y -> exf x <> 255 -> exf y <> 255 -> G x <= G y -> magf x <= magf y.
Proof.
  intros Wx Wy Hx Hy H. destruct (Z_le_gt_dec (magf x) (magf y)) as [L|L]; [exact L|].
  pose proof (G_strict y x Wy Wx Hx ltac:(lia)). lia.
Qed.

(* the 4-byte rounding on the fields *)
Lemma r_fields x : wf_f32 x -> let r := round4_val x in
  wf_f32 r /\ exf r = exf x /\ negf r = negf x.
Proof.
  intros W. pose proof (round4_spec x W) as K. cbv zeta in K. destruct K as (Wr & Hd & _). cbv zeta.
  split; [exact Wr|]. unfold exf, negf. rewrite Hd. split; [reflexivity|].
  assert (round4_val x / 2147483648 = x / 2147483648) as -> by (unfold wf_f32 in *; lia). reflexivity.
Qed.

Lemma r_mag_mono x y : wf_f32 x -> wf_f32 y -> magf x <= magf y -> magf (round4_val x) <= magf (round4_val y).
Proof.
  unfold wf_f32, magf, round4_val, round4. intros Wx Wy H. cbv zeta.
  destruct (x mod 8388608 <? 8388606) eqn:Ex; destruct (y mod 8388608 <? 8388606) eqn:Ey; lia.
Qed.

Lemma G_zero x : wf_f32 x -> exf x <> 255 -> G x = 0 -> magf x = 0.
Proof.
  intros W He H0. destruct (mag_split x W) as (S & M & E). unfold G in H0. destruct (exf x =? 0) eqn:E0; [lia|].
  assert (P : 0 < 2 ^ (exf x - 1)) by (apply Z.pow_pos_nonneg; lia). nia.
Qed.

Lemma G_of_mag0 x : wf_f32 x -> magf x = 0 -> G x = 0.
Proof. intros W H. destruct (mag_split x W) as (S & M & E). unfold G. assert (exf x = 0) by lia. assert (manf x = 0) by lia. destruct (exf x =? 0) eqn:E0; lia. Qed.

(* the 4-byte rounding is monotone in the value *)
Lemma r_value_mono x y : wf_f32 x -> wf_f32 y -> exf x <> 255 -> exf y <> 255 ->
  ival32 x <= ival32 y -> ival32 (round4_val x) <= ival32 (round4_val y).
Proof.
  intros Wx Wy Hx Hy H.
  destruct (r_fields x Wx) as (Wrx & Erx & Nrx). destruct (r_fields y Wy) as (Wry & Ery & Nry). cbv zeta in *.
  destruct (ival_bits x Wx Hx) as [_ Ix]. destruct (ival_bits y Wy Hy) as [_ Iy].
  destruct (ival_bits _ Wrx ltac:(rewrite Erx; exact Hx)) as [_ Irx]. destruct (ival_bits _ Wry ltac:(rewrite Ery; exact Hy)) as [_ Iry].
  rewrite Irx, Iry, Nrx, Nry. rewrite Ix, Iy in H.
  pose proof (G_nonneg x Wx). pose proof (G_nonneg y Wy). pose proof (G_nonneg _ Wrx). pose proof (G_nonneg _ Wry).
  destruct (negf x) eqn:Sx; destruct (negf y) eqn:Sy.
  - (* both negative *)
    assert (M : magf y <= magf x) by (apply G_reflect; try assumption; lia).
    pose proof (r_mag_mono y x Wy Wx M) as Mr.
    pose proof (G_mono _ _ Wry Wrx ltac:(rewrite Erx; exact Hx) Mr). lia.
  - lia.
  - (* x >= 0 >= y: both are zero *)
    assert (G x = 0) by lia. assert (G y = 0) by lia.
    pose proof (G_zero x Wx Hx ltac:(assumption)) as Mx0. pose proof (G_zero y Wy Hy ltac:(assumption)) as My0.
    assert (Mrx : magf (round4_val x) <= magf (round4_val y)) by (apply r_mag_mono; try assumption; lia).
    assert (Mry : magf (round4_val y) <= magf (round4_val x)) by (apply r_mag_mono; try assumption; lia).
    pose proof (G_mono _ _ Wrx Wry ltac:(rewrite Ery; exact Hy) Mrx). pose proof (G_mono _ _ Wry Wrx ltac:(rewrite Erx; exact Hx) Mry).
    assert (magf (round4_val x) = 0).
    { unfold magf, round4_val, round4, wf_f32 in *. cbv zeta. destruct (x mod 8388608 <? 8388606) eqn:E; lia. }
    pose proof (G_of_mag0 _ Wrx ltac:(assumption)). lia.
  - assert (M : magf x <= magf y) by (apply G_reflect; try assumption; lia).
    pose proof (r_mag_mono x y Wx Wy M) as Mr.
    pose proof (G_mono _ _ Wrx Wry ltac:(rewrite Ery; exact Hy) Mr). lia.
Qed.

Lemma finite_exf x : wf_f32 x -> (is_finite F32 x = true <-> exf x <> 255).
Proof.
  intros W. rewrite <- (negb_involutive (is_finite F32 x)), <- nan_or_inf_spec by exact W.
  unfold is_nan_or_inf, exf. split; intros H; destruct ((x / 8388608) mod 256 =? 255) eqn:E; cbn in *; try lia; try discriminate; reflexivity.
Qed.

(* canonical short-form values are fixed by the 4-byte rounding (finite sweep) *)
Lemma sweep_short1_fixed : forallb (fun u => (of_Z F32 (u - 64)) mod 4 =? 0) (zrange 0 (Z.to_nat 128)) = true.
Proof. vm_compute. reflexivity. Qed.
Lemma sweep_short2_fixed : forallb (fun u => (fdiv F32 (of_Z F32 (u - 8192)) c64) mod 4 =? 0) (zrange 0 (Z.to_nat 16384)) = true.
Proof. vm_compute. reflexivity. Qed.

(* the value written and read back: either the same value (short forms) with a representation fixed by the
   4-byte rounding, or the 4-byte rounding itself *)
Lemma q_coord_value g : wf_f32 g -> is_finite F32 g = true ->
  wf_f32 (q_coord g) /\ is_finite F32 (q_coord g) = true /\
  ((ival32 (q_coord g) = ival32 g /\ round4_val (q_coord g) = q_coord g) \/ q_coord g = round4_val g).
Proof.
  intros W F. split; [apply wf_q_coord, W|].
  destruct (q_coord_spec g W) as [(i & S1 & Eq & Q)|[(i & S1 & S2 & Eq & Q)|(S1 & S2 & Eq)]].
  - apply in_range_some in S1 as [_ R]. assert (R' : 0 <= i + 64 < 128) by lia.
    pose proof (good_int_spec _ _ _ (coord1_value _ R')) as [Wq [Fq _]]. replace (i + 64 - 64) with i in * by lia.
    rewrite Eq. split; [exact Fq|]. left. split.
    + apply feq_ival; try assumption. rewrite <- Eq. exact Q.
    + pose proof sweep_short1_fixed as Sw. rewrite forallb_forall in Sw.
      assert (In (i + 64) (zrange 0 (Z.to_nat 128))) as Hin by (apply zrange_in; rewrite Z2Nat.id; lia).
      specialize (Sw _ Hin). replace (i + 64 - 64) with i in Sw by lia.
      pose proof (round4_spec _ Wq) as K. cbv zeta in K. destruct K as (_ & _ & _ & _ & K & _). apply K. lia.
  - apply in_range_some in S2 as [_ R]. assert (R' : 0 <= i + 8192 < 16384) by lia.
    pose proof (good_int_spec _ _ _ (coord2_value _ R')) as [Wq [Fq _]]. replace (i + 8192 - 8192) with i in * by lia.
    rewrite Eq. split; [exact Fq|]. left. split.
    + apply feq_ival; try assumption. rewrite <- Eq. exact Q.
    + pose proof sweep_short2_fixed as Sw. rewrite forallb_forall in Sw.
      assert (In (i + 8192) (zrange 0 (Z.to_nat 16384))) as Hin by (apply zrange_in; rewrite Z2Nat.id; lia).
      specialize (Sw _ Hin). replace (i + 8192 - 8192) with i in Sw by lia.
      pose proof (round4_spec _ Wq) as K. cbv zeta in K. destruct K as (_ & _ & _ & _ & K & _). apply K. lia.
  - rewrite Eq. apply finite_exf in F; [|exact W]. destruct (r_fields g W) as (Wr & Er & _). cbv zeta in *.
    split; [apply finite_exf; [exact Wr|rewrite Er; exact F]|]. right. reflexivity.
Qed.

(* write-and-read-back is monotone on finite floats *)
Lemma q_coord_mono a b : wf_f32 a -> wf_f32 b -> is_finite F32 a = true -> is_finite F32 b = true ->
  ival32 a <= ival32 b -> ival32 (q_coord a) <= ival32 (q_coord b).
Proof.
  intros Wa Wb Fa Fb H.
  destruct (q_coord_value a Wa Fa) as (Wqa & Fqa & Ka). destruct (q_coord_value b Wb Fb) as (Wqb & Fqb & Kb).
  pose proof (proj1 (finite_exf a Wa) Fa) as Ea. pose proof (proj1 (finite_exf b Wb) Fb) as Eb.
  pose proof (proj1 (finite_exf _ Wqa) Fqa) as Eqa. pose proof (proj1 (finite_exf _ Wqb) Fqb) as Eqb.
  destruct Ka as [[Ia Ra]|Ra]; destruct Kb as [[Ib Rb]|Rb].
  - lia.
  - rewrite Rb, <- Ra. apply r_value_mono; try assumption. lia.
  - rewrite Ra, <- Rb. apply r_value_mono; try assumption. lia.
  - rewrite Ra, Rb. apply r_value_mono; assumption.
Qed.

(* a valid viewBox is valid as written *)
Theorem qvb_valid_any v : wf_vb v -> viewbox_invalid v = false -> viewbox_invalid (qvb v) = false.
Proof.
  intros (W0 & W1 & W2 & W3) V.
  unfold viewbox_invalid in *. repeat (apply orb_false_iff in V; destruct V as [V ?]).
  rewrite (nan_or_inf_spec _ W0), (nan_or_inf_spec _ W1), (nan_or_inf_spec _ W2), (nan_or_inf_spec _ W3) in *.
  repeat match goal with H : negb _ = false |- _ => apply negb_false_iff in H end.
  destruct (q_coord_value _ W0 ltac:(assumption)) as (Q0 & F0 & _). destruct (q_coord_value _ W1 ltac:(assumption)) as (Q1 & F1 & _).
  destruct (q_coord_value _ W2 ltac:(assumption)) as (Q2 & F2 & _). destruct (q_coord_value _ W3 ltac:(assumption)) as (Q3 & F3 & _).
  cbn [qvb vminx vminy vmaxx vmaxy].
  rewrite !nan_or_inf_spec by assumption. rewrite F0, F1, F2, F3. cbn [negb orb]. rewrite !orb_false_r.
  rewrite !fgt_ival in * by assumption.
  apply orb_false_iff. split.
  - pose proof (q_coord_mono (vminx v) (vmaxx v) W0 W2 ltac:(assumption) ltac:(assumption) ltac:(lia)). lia.
  - pose proof (q_coord_mono (vminy v) (vmaxy v) W1 W3 ltac:(assumption) ltac:(assumption) ltac:(lia)). lia.
Qed.

(* C01 without the residual hypothesis *)
Theorem encode_decode_valid e0 vb pal body :
  wf_vb vb -> viewbox_invalid vb = false -> wf_pal pal -> wf_acts false body ->
  exists b, snd (Encoder.enc_bytes (fst (Encoder.enc_run e0 (Encoder.ACall (CReset vb pal) :: body)))) = Encoder.BytesOk b /\
            decode_calls [] b = (CReset (m_vb (meta_of vb pal)) pal :: expect false false body, Done).
Proof. intros Wv V Wp Wb. apply encode_decode; try assumption. apply qvb_valid_any; assumption. Qed.

Theorem via_bytes_valid e0 vb pal body (s : Arc.S) :
  wf_vb vb -> viewbox_invalid vb = false -> wf_pal pal -> wf_acts false body ->
  exists b, snd (Encoder.enc_bytes (fst (Encoder.enc_run e0 (Encoder.ACall (CReset vb pal) :: body)))) = Encoder.BytesOk b /\
            snd (decode_calls [] b) = Done /\
            Arc.rrun32 s (fst (decode_calls [] b)) = Arc.rrun32 s (CReset (m_vb (meta_of vb pal)) pal :: expect false false body).
Proof. intros Wv V Wp Wb. apply via_bytes; try assumption. apply qvb_valid_any; assumption. Qed.

(* C07: when every number of the program is a fixed point of write-and-read-back (exactly representable in its
   form), the Renderer behind encode+decode ends in exactly the state of the Renderer fed directly *)
Definition acts_calls (body : list Encoder.eact) : list call :=
  flat_map (fun a => match a with Encoder.ACall c => [c] | _ => [] end) body.

Theorem via_bytes_exact e0 vb pal body (s : Arc.S) :
  wf_vb vb -> viewbox_invalid vb = false -> wf_pal pal -> wf_acts false body ->
  expect false false body = acts_calls body -> m_vb (meta_of vb pal) = vb ->
  exists b, snd (Encoder.enc_bytes (fst (Encoder.enc_run e0 (Encoder.ACall (CReset vb pal) :: body)))) = Encoder.BytesOk b /\
            snd (decode_calls [] b) = Done /\
            Arc.rrun32 s (fst (decode_calls [] b)) = Arc.rrun32 s (CReset vb pal :: acts_calls body).
Proof.
  intros Wv V Wp Wb Hx Hv. destruct (via_bytes_valid e0 vb pal body s Wv V Wp Wb) as (b & Eb & Ed & Er).
  exists b. rewrite Er, Hx, Hv. auto.
Qed.

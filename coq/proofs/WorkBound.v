(* WorkBound.v — rasteriser activity is linear in the number of calls (C02: "work and rasteriser activity are
   linear in input length"): every Destination call makes the Renderer issue at most 1000 rasteriser calls
   (at most 2 for anything but an arc; an arc's segment count is capped below 1000 by the code), and calls are
   charged to distinct input bytes (calls_le_bytes). *)
From Coq Require Import ZArith Bool List Lia.
From IVG Require Import SF NumCodec Color Calls Render GoMath Arc RenderProofs ArcProofs.
Import ListNotations.
Local Open Scope Z_scope.

Lemma emit_log s c pst psx psy : r_log (emit N32 s c pst psx psy) = r_log s ++ [c].
Proof. unfold emit. destruct c; reflexivity. Qed.
Lemma emit_keep_log s c : r_log (emit_keep N32 s c) = r_log s ++ [c].
Proof. apply emit_log. Qed.

Lemma rdraw_growth s op a : (length (r_log (rdraw N32 s op a)) <= length (r_log s) + 2)%nat.
Proof.
  unfold rdraw. destruct (r_disabled s); [lia|].
  repeat match goal with |- context [if ?c then _ else _] => destruct c end;
  repeat match goal with |- context [let '(_, _) := ?p in _] => destruct p end;
  rewrite ?emit_keep_log, ?emit_log, ?app_length; cbn [length]; try lia.
Qed.

Lemma arc_n_bound x1 y1 Rx Ry rot la sw x y : 0 <= ap_n (arc_params x1 y1 Rx Ry rot la sw x y) < 1000.
Proof.
  unfold arc_params. cbv zeta. destruct (arc_angles_gen A64 _ sw) as [t1 dt]. cbn [ap_n].
  destruct (ftrunc F64 _) as [i|]; [|lia]. destruct ((0 <? i) && (i <? 1000)) eqn:E; lia.
Qed.

Lemma abs_arc_growth s rx ry rot la sw x y :
  (length (r_log (abs_arc s rx ry rot la sw x y)) <= length (r_log s) + 1000)%nat.
Proof.
  destruct (negb (fgt F64 (dabs (to64 rx)) d0 && fgt F64 (dabs (to64 ry)) d0)) eqn:Z.
  - rewrite (arc_zero_radius s rx ry rot la sw x y Z), app_length. cbn. lia.
  - destruct (arc_is_cubics s rx ry rot la sw x y Z) as (l & Ll & _ & E). rewrite E, app_length, Ll.
    match goal with |- context [ap_n ?p] => pose proof (arc_n_bound (to64 (unabsX N32 (set_pst_none s) (z_penx (set_pst_none s)))) (to64 (unabsY N32 (set_pst_none s) (z_peny (set_pst_none s)))) (dabs (to64 rx)) (dabs (to64 ry)) rot la sw x y) end.
    lia.
Qed.

Theorem call_work_bounded s c : (length (r_log (rstep32 s c)) <= length (r_log s) + 1000)%nat.
Proof.
  unfold rstep32, rstep. destruct c; try (cbn [r_log rreset upd_regs upd_lod]; lia).
  - (* StartPath *) unfold start_path. cbv zeta.
    match goal with |- context [let '(_, _) := ?p in _] => destruct p as [dis pt] end.
    match goal with |- context [if ?c then _ else _] => destruct c end;
      rewrite ?emit_keep_log, ?emit_log, ?app_length; cbn [length r_log set_disabled]; lia.
  - pose proof (rdraw_growth s op args). lia.
  - destruct (r_disabled s); [lia|]. unfold arc32. destruct rel; apply abs_arc_growth.
  - unfold end_path. destruct (r_disabled s); [lia|]. rewrite !emit_keep_log, !app_length. cbn [length]. lia.
Qed.

Theorem work_linear l : forall s, (length (r_log (rrun32 s l)) <= length (r_log s) + 1000 * length l)%nat.
Proof.
  induction l as [|c l IH]; intros s; [cbn; lia|]. unfold rrun32 in *. cbn [fold_left length].
  pose proof (IH (rstep32 s c)). pose proof (call_work_bounded s c). lia.
Qed.

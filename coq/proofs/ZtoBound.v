(* ZtoBound.v — a zero-to-one number written in a 1- or 2-byte form reads back within 4 units in the last place
   (C08).  Uses the rounding specification of the soft-float (SFRound.v) for the encoder's guard
   fl(f * 15120) = u, and a kernel sweep over the 15120 codes for the decoder's value fl(u / 15120). *)
From Coq Require Import ZArith Bool List Lia.
From IVG Require Import SF SFProofs SFRound NumCodec NumBase NumProofs RoundTrip.
Import ListNotations.
Local Open Scope Z_scope.

Lemma dec_c15120 : decode F32 c15120 = FFin false 15482880 (-10).
Proof. vm_compute. reflexivity. Qed.

(* (A) the guard pins f * 15120 to within half a unit in the last place of u *)
Lemma guard_bound f u s m e : wf_f32 f -> decode F32 f = FFin s m e -> zto_short f = Some u -> 1 <= u ->
  s = false /\ 0 < m /\ Z.abs (ival32 f * 15120 - u * 2 ^ 149) <= 2 ^ (Z.log2 u + 125).
Proof.
  intros W D Hz Hu. unfold zto_short in Hz. apply in_range_some in Hz as [Ex Ru].
  rewrite exact_int_is_scaled in Ex.
  assert (Wc : 0 <= c15120) by (vm_compute; congruence).
  pose proof (fmul_finite F32 f c15120 s m e false 15482880 (-10) ltac:(unfold wf_f32 in W; lia) Wc ltac:(cbn; lia) ltac:(cbn; lia) D dec_c15120) as Em.
  rewrite xorb_false_r in Em.
  destruct (decode32_fin _ _ _ _ W D) as [Hm He].
  unfold rne_dy in Em. destruct (m * 15482880 =? 0) eqn:Z0.
  { (* m = 0: the product is a zero, so u = 0 *)
    exfalso. rewrite Em in Ex. unfold zero_bits in Ex. destruct s; vm_compute in Ex; injection Ex as Ex; lia. }
  assert (Hmp : 0 < m) by lia.
  set (m' := m * 15482880) in *. set (e' := e + -10) in *.
  assert (Hm' : 0 < m') by (unfold m'; lia).
  pose proof (rne_dy_pos_correct F32 s m' e' F32_ok Hm') as C. cbv zeta in C.
  pose proof (round_int_spec F32 m' e' F32_ok Hm') as R. cbv zeta in R.
  set (e0 := round_exp F32 m' e') in *. set (Q := round_int F32 m' e') in *.
  destruct R as (He0 & HQ & Hc & Rex & Rnear). change (emin F32) with (-149) in *. change (prec F32) with 24 in *.
  rewrite <- Em in C.
  (* the product is finite with value u *)
  assert (Wr : wf_f32 (fmul F32 f c15120)).
  { destruct C as [[Ci _]|(M & E & Dr & _)].
    - rewrite Ci. unfold wf_f32. destruct s; vm_compute; split; congruence.
    - rewrite Em. unfold wf_f32. apply rne_dy_pos32_range. exact Hm'. }
  apply exact_int_scaled_ival in Ex as [Fr Iv]; [|exact Wr|lia].
  destruct C as [[Ci _]|(M & E & Dr & Val & HM & HE & HMc)].
  { exfalso. rewrite Ci in Fr. destruct s; vm_compute in Fr; discriminate. }
  rewrite (ival32_fin _ _ _ _ Dr) in Iv. rewrite Z.pow_0_r, Z.mul_1_r in Iv.
  replace (E - -149) with (E + 149) in Val by lia. replace (e0 - -149) with (e0 + 149) in Val by lia.
  assert (Hs : s = false).
  { destruct s; [|reflexivity]. exfalso. unfold sm in Iv.
    assert (0 <= M * 2 ^ (E + 149)) by (apply Z.mul_nonneg_nonneg; [lia|apply Z.pow_nonneg; lia]).
    assert (0 < u * 2 ^ 149) by (apply Z.mul_pos_pos; [lia|apply pow_pos2; lia]). lia. }
  subst s. unfold sm in Iv. split; [reflexivity|]. split; [exact Hmp|].
  (* u * 2^149 = Q * 2^(e0+149) *)
  assert (Hu2 : u * 2 ^ 149 = Q * 2 ^ (e0 + 149)) by lia.
  (* Q >= 2^23: otherwise e0 = -149 and u * 2^149 = Q <= 2^24 *)
  assert (HQ23 : 2 ^ 23 <= Q).
  { destruct Hc as [Hc|Hc]; [exact Hc|]. exfalso. rewrite Hc in Hu2. replace (-149 + 149) with 0 in Hu2 by lia.
    rewrite Z.pow_0_r, Z.mul_1_r in Hu2. assert (2 ^ 149 <= u * 2 ^ 149) by nia.
    assert (2 ^ 24 < 2 ^ 149) by (apply Z.pow_lt_mono_r; lia). lia. }
  (* hence e0 + 23 <= log2 u *)
  assert (He0u : e0 + 23 <= Z.log2 u).
  { destruct (Z_le_gt_dec (e0 + 23) (Z.log2 u)) as [L|G]; [exact L|exfalso].
    pose proof (log2_bounds u ltac:(lia)) as [_ Ub].
    assert (2 ^ (Z.log2 u + 1) <= 2 ^ (e0 + 23)) by (apply Z.pow_le_mono_r; lia).
    pose proof (Z.log2_nonneg u) as Hlu.
    assert (2 ^ (e0 + 23) * 2 ^ 149 <= Q * 2 ^ (e0 + 149)).
    { replace (2 ^ (e0 + 23) * 2 ^ 149) with (2 ^ 23 * 2 ^ (e0 + 149)).
      - apply Z.mul_le_mono_nonneg_r; [apply Z.pow_nonneg; lia|exact HQ23].
      - rewrite <- !Z.pow_add_r by lia. f_equal. lia. }
    assert (0 < 2 ^ 149) by (apply pow_pos2; lia). nia. }
  (* the error, scaled by 2^10 to keep exponents non-negative *)
  rewrite (ival32_fin _ _ _ _ D). unfold sm.
  assert (Hsc : 1024 * (m * 2 ^ (e + 149) * 15120 - u * 2 ^ 149) = m' * 2 ^ (e + 149) - Q * 2 ^ (e0 + 159)).
  { unfold m'. rewrite Hu2. replace (e0 + 159) with (10 + (e0 + 149)) by lia. rewrite (Z.pow_add_r 2 10 (e0 + 149)) by lia. change (2 ^ 10) with 1024. ring. }
  assert (Hbound : Z.abs (m' * 2 ^ (e + 149) - Q * 2 ^ (e0 + 159)) <= 2 ^ (e0 + 158)).
  { destruct (Z_le_gt_dec e0 e') as [Le|Gt].
    - specialize (Rex Le). rewrite Z.pow_0_r, Z.mul_1_r in Rex. rewrite Rex.
      replace (e0 + 159) with ((e0 - e') + (e + 149)) by (unfold e'; lia).
      replace (m' * 2 ^ (e' - e0) * 2 ^ (e0 - e' + (e + 149))) with (m' * 2 ^ (e + 149)).
      + rewrite Z.sub_diag. cbn. apply Z.pow_nonneg. lia.
      + rewrite <- Z.mul_assoc, <- Z.pow_add_r by lia. f_equal. f_equal. lia.
    - destruct (Rnear ltac:(lia)) as [Near _]. set (k := e0 - e') in *.
      assert (Hk : 0 < k) by (unfold k; lia). assert (Hea : 0 <= e + 149) by lia.
      assert (Ek : e0 + 159 = k + (e + 149)) by (unfold k, e'; lia). rewrite Ek.
      rewrite (Z.pow_add_r 2 k (e + 149)) by lia.
      replace (m' * 2 ^ (e + 149) - Q * (2 ^ k * 2 ^ (e + 149))) with ((m' - Q * 2 ^ k) * 2 ^ (e + 149)) by ring.
      rewrite Z.abs_mul, (Z.abs_eq (2 ^ (e + 149))) by (apply Z.pow_nonneg; lia).
      assert (Ek2 : e0 + 158 = (k - 1) + (e + 149)) by lia. rewrite Ek2.
      rewrite (Z.pow_add_r 2 (k - 1) (e + 149)) by lia.
      apply Z.mul_le_mono_nonneg_r; [apply Z.pow_nonneg; lia|].
      assert (2 ^ k = 2 * 2 ^ (k - 1)) by (replace k with (k - 1 + 1) at 1 by lia; rewrite (Z.pow_add_r 2 (k - 1) 1) by lia; lia).
      lia. }
  assert (He24 : -24 <= e0).
  { destruct (Z_le_gt_dec (-24) e0) as [L|G]; [exact L|exfalso].
    assert (2 ^ (e0 + 149) <= 2 ^ 124) by (apply Z.pow_le_mono_r; lia).
    assert (Q * 2 ^ (e0 + 149) <= 2 ^ 24 * 2 ^ 124) by (apply Z.mul_le_mono_nonneg; try lia; apply Z.pow_nonneg; lia).
    change (2 ^ 24 * 2 ^ 124) with (2 ^ 148) in *. assert (2 ^ 148 < 2 ^ 149) by (apply Z.pow_lt_mono_r; lia).
    assert (0 < 2 ^ 149) by (apply pow_pos2; lia). nia. }
  rewrite <- Hsc in Hbound. rewrite Z.abs_mul in Hbound. change (Z.abs 1024) with 1024 in Hbound.
  assert (2 ^ (e0 + 158) = 1024 * 2 ^ (e0 + 148)) by (replace (e0 + 158) with (10 + (e0 + 148)) by lia; rewrite (Z.pow_add_r 2 10 (e0 + 148)) by lia; reflexivity).
  assert (2 ^ (e0 + 148) <= 2 ^ (Z.log2 u + 125)) by (apply Z.pow_le_mono_r; lia).
  lia.
Qed.

(* (B) the decoder's value for code u, and the sweep over all codes *)
Definition dec_zto (u : Z) : f32 :=
  if u mod 126 =? 0 then fdiv F32 (of_Z F32 (u / 126)) c120 else fdiv F32 (of_Z F32 u) c15120.

Definition zto_code_ok (u : Z) : bool :=
  let B := 2 ^ (Z.log2 u + 125) in
  let lo := (u * 2 ^ 149 - B + 15119) / 15120 in
  let hi := (u * 2 ^ 149 + B) / 15120 in
  let D := ival32 (dec_zto u) in
  (0 <? lo) && (Z.abs (lo - D) <=? 4 * 2 ^ (Z.log2 lo - 23)) && (Z.abs (hi - D) <=? 4 * 2 ^ (Z.log2 lo - 23)) && (23 <=? Z.log2 lo).

Lemma zto_sweep : forallb zto_code_ok (zrange 1 (Z.to_nat 15119)) = true.
Proof. vm_compute. reflexivity. Qed.

Lemma q_zto_dec f u : zto_short f = Some u -> q_zto f = dec_zto u.
Proof. intros H. unfold q_zto, dec_zto. rewrite H. reflexivity. Qed.

(* a zero-to-one number that has a short form reads back within 4 units in the last place of the input *)
Theorem zto_bounded f u s m e : wf_f32 f -> decode F32 f = FFin s m e -> zto_short f = Some u -> 1 <= u ->
  Z.abs (ival32 (q_zto f) - ival32 f) <= 4 * 2 ^ (Z.log2 (ival32 f) - 23).
Proof.
  intros W D Hz Hu. destruct (guard_bound f u s m e W D Hz Hu) as (Hs & Hm & G).
  pose proof Hz as Hz'. unfold zto_short in Hz'. apply in_range_some in Hz' as [_ Ru].
  rewrite (q_zto_dec f u Hz).
  pose proof zto_sweep as Sw. rewrite forallb_forall in Sw.
  assert (In u (zrange 1 (Z.to_nat 15119))) as Hin by (apply zrange_in; rewrite Z2Nat.id; lia).
  specialize (Sw u Hin). unfold zto_code_ok in Sw. cbv zeta in Sw.
  set (B := 2 ^ (Z.log2 u + 125)) in *. set (v := ival32 f) in *.
  set (lo := (u * 2 ^ 149 - B + 15119) / 15120) in *. set (hi := (u * 2 ^ 149 + B) / 15120) in *.
  set (Dv := ival32 (dec_zto u)) in *.
  repeat (apply andb_true_iff in Sw; destruct Sw as [Sw ?]).
  assert (Hlo : lo <= v).
  { unfold lo. assert (Ev : (15120 * v + 15119) / 15120 = v) by (symmetry; apply (Z.div_unique _ 15120 v 15119); lia).
    apply Z.le_trans with ((15120 * v + 15119) / 15120); [apply Z.div_le_mono; lia|lia]. }
  assert (Hhi : v <= hi).
  { unfold hi. apply Z.div_le_lower_bound; [lia|]. lia. }
  assert (Hl : Z.log2 lo <= Z.log2 v) by (apply Z.log2_le_mono; lia).
  assert (2 ^ (Z.log2 lo - 23) <= 2 ^ (Z.log2 v - 23)) by (apply Z.pow_le_mono_r; lia).
  lia.
Qed.

(* code 0 is only written for a zero *)
Theorem zto_zero f s m e : wf_f32 f -> decode F32 f = FFin s m e -> zto_short f = Some 0 -> m = 0.
Proof.
  intros W D Hz. unfold zto_short in Hz. apply in_range_some in Hz as [Ex _].
  rewrite exact_int_is_scaled in Ex.
  assert (Wc : 0 <= c15120) by (vm_compute; congruence).
  pose proof (fmul_finite F32 f c15120 s m e false 15482880 (-10) ltac:(unfold wf_f32 in W; lia) Wc ltac:(cbn; lia) ltac:(cbn; lia) D dec_c15120) as Em.
  rewrite xorb_false_r in Em. destruct (decode32_fin _ _ _ _ W D) as [Hm He].
  destruct (Z.eq_dec m 0) as [E0|N0]; [exact E0|exfalso].
  unfold rne_dy in Em. assert (m * 15482880 =? 0 = false) as Z0 by lia. rewrite Z0 in Em.
  set (m' := m * 15482880) in *. set (e' := e + -10) in *. assert (Hm' : 0 < m') by (unfold m'; lia).
  pose proof (rne_dy_pos_correct F32 s m' e' F32_ok Hm') as C. cbv zeta in C.
  pose proof (round_int_spec F32 m' e' F32_ok Hm') as R. cbv zeta in R.
  set (e0 := round_exp F32 m' e') in *. set (Q := round_int F32 m' e') in *.
  destruct R as (He0 & HQ & Hc & Rex & Rnear). change (emin F32) with (-149) in *. change (prec F32) with 24 in *.
  rewrite <- Em in C.
  assert (Wr : wf_f32 (fmul F32 f c15120)) by (rewrite Em; unfold wf_f32; apply rne_dy_pos32_range; exact Hm').
  apply exact_int_scaled_ival in Ex as [Fr Iv]; [|exact Wr|lia].
  destruct C as [[Ci _]|(M & E & Dr & Val & HM & HE & HMc)].
  { rewrite Ci in Fr. destruct s; vm_compute in Fr; discriminate. }
  rewrite (ival32_fin _ _ _ _ Dr) in Iv. rewrite Z.pow_0_r, Z.mul_1_r in Iv. cbn [Z.mul] in Iv.
  assert (P1 : 0 < 2 ^ (E + 149)) by (apply pow_pos2; lia).
  assert (M = 0) by (unfold sm in Iv; destruct s; nia). subst M.
  replace (e0 - -149) with (e0 + 149) in Val by lia.
  assert (P2 : 0 < 2 ^ (e0 + 149)) by (apply pow_pos2; lia).
  assert (Q = 0) by nia.
  destruct (Z_le_gt_dec e0 e') as [Le|Gt].
  - specialize (Rex Le). assert (0 < 2 ^ (e' - e0)) by (apply pow_pos2; lia). nia.
  - destruct (Rnear ltac:(lia)) as [Near _]. set (k := e0 - e') in *. rewrite H in Near.
    (* m' <= 2^(k-1) but e0 = max(-149, log2 m' + e' - 23) *)
    pose proof (log2_bounds m' Hm') as [Lb _].
    assert (Hk : 0 < k) by (unfold k; lia).
    assert (2 ^ k = 2 * 2 ^ (k - 1)) by (replace k with (k - 1 + 1) at 1 by lia; rewrite (Z.pow_add_r 2 (k - 1) 1) by lia; lia).
    assert (Hm2 : m' <= 2 ^ (k - 1)) by lia.
    assert (Hlk : Z.log2 m' <= k - 1).
    { destruct (Z_le_gt_dec (Z.log2 m') (k - 1)) as [L|G]; [exact L|exfalso].
      assert (2 ^ k <= 2 ^ Z.log2 m') by (apply Z.pow_le_mono_r; lia). assert (0 < 2 ^ (k - 1)) by (apply pow_pos2; lia). lia. }
    assert (23 <= Z.log2 m').
    { apply Z.log2_le_pow2; [lia|]. unfold m'. change (2 ^ 23) with 8388608. lia. }
    unfold e0, round_exp in *. change (emin F32) with (-149) in *. change (prec F32) with 24 in *. unfold k, e' in *. lia.
Qed.

(* C01 — Encode then decode reproduces the drawing program (and back again).
   Statements only; proofs in proofs/RoundTrip.v and proofs/MetaRT.v.

   encode_decode is the forward half at full strength: for EVERY Encoder state, every viewBox whose written
   form is valid, every premultiplied 64-entry palette and every well-formed call sequence (any number of
   calls, any run lengths, all 30 Destination methods, HighResolutionCoordinates toggled anywhere), Bytes
   succeeds and decoding the bytes delivers exactly: Reset with the viewBox as written and the same palette,
   then the same calls in the same order with identical ADJ, increment and arc flags and colours, each number
   replaced by its written-and-read-back form (q_real / q_coord / q_zto / q_angle / q_nreg, and qc = q_coord
   after the 1/64 quantisation latched at StartPath).  q_coord_spec / q_real_spec / qc_lowres say what those
   forms are: exact (float-equal) for every number that has a short form, the 4-byte rounding of C08
   (round4_spec: at most 3 units in the last place, exponent and sign kept) otherwise, and in low
   resolution the nearest multiple of 1/64 — exactly.

   The converse: decoded_is_wellformed — every byte string (bytes in 0..255) the decoder accepts yields a Reset
   with a valid viewBox and a premultiplied palette followed by calls obeying the styling/drawing protocol
   with in-range adjustments and 32-bit float patterns; transcode — feeding exactly those calls to ANY Encoder
   succeeds and the re-encoded stream decodes to the same calls in their written-and-read-back form (the
   transcoding Encoder is in low resolution, so coordinates in [-128,128) go to the nearest 1/64);
   decoded_coordinates_stable — a decoded coordinate is a fixed point of write-and-read-back up to the sign
   of zero, so transcoding again changes nothing more.
   encode_decode is stated for a viewBox that is valid as written; qvb_valid_any (proofs/VbMono.v: the 4-byte
   rounding is monotone in the value and fixes every short-form value) shows that every valid viewBox is, so
   encode_decode_valid needs only "finite valid viewBox", as the property says. *)
From Coq Require Import ZArith Bool List.
From IVG Require Import SF NumCodec Color Calls Decoder Encoder NumBase NumProofs ColorProofs DecProofs EncProofs RoundTrip MetaRT Transcode VbMono.
Import ListNotations.
Local Open Scope Z_scope.

Theorem encode_decode : forall e0 vb pal body,
  wf_vb vb -> viewbox_invalid (qvb vb) = false -> wf_pal pal -> wf_acts false body ->
  exists b, snd (enc_bytes (fst (enc_run e0 (ACall (CReset vb pal) :: body)))) = BytesOk b /\
            decode_calls [] b = (CReset (m_vb (meta_of vb pal)) pal :: expect false false body, Done).
Proof. exact MetaRT.encode_decode. Qed.
Print Assumptions encode_decode.

Theorem qvb_valid_any : forall v, wf_vb v -> viewbox_invalid v = false -> viewbox_invalid (qvb v) = false.
Proof. exact VbMono.qvb_valid_any. Qed.
Print Assumptions qvb_valid_any.

Theorem encode_decode_valid : forall e0 vb pal body,
  wf_vb vb -> viewbox_invalid vb = false -> wf_pal pal -> wf_acts false body ->
  exists b, snd (enc_bytes (fst (enc_run e0 (ACall (CReset vb pal) :: body)))) = BytesOk b /\
            decode_calls [] b = (CReset (m_vb (meta_of vb pal)) pal :: expect false false body, Done).
Proof. exact VbMono.encode_decode_valid. Qed.
Print Assumptions encode_decode_valid.

Theorem q_coord_mono : forall a b, wf_f32 a -> wf_f32 b -> is_finite F32 a = true -> is_finite F32 b = true ->
  ival32 a <= ival32 b -> ival32 (q_coord a) <= ival32 (q_coord b).
Proof. exact VbMono.q_coord_mono. Qed.
Print Assumptions q_coord_mono.

Theorem q_coord_spec : forall f, wf_f32 f ->
  (exists i, coord_short1 f = Some i /\ q_coord f = of_Z F32 i /\ feq F32 (q_coord f) f = true) \/
  (exists i, coord_short1 f = None /\ coord_short2 f = Some i /\ q_coord f = fdiv F32 (of_Z F32 i) c64 /\ feq F32 (q_coord f) f = true) \/
  (coord_short1 f = None /\ coord_short2 f = None /\ q_coord f = round4_val f).
Proof. exact MetaRT.q_coord_spec. Qed.
Print Assumptions q_coord_spec.

Theorem q_real_spec : forall f, wf_f32 f ->
  (exists u, real_short f = Some u /\ q_real f = of_Z F32 u /\ feq F32 (q_real f) f = true) \/
  (real_short f = None /\ q_real f = round4_val f).
Proof. exact MetaRT.q_real_spec. Qed.
Print Assumptions q_real_spec.

Theorem qc_lowres : forall f, wf_f32 f -> fle F32 cm128 f = true -> flt F32 f c128 = true ->
  let q := quantize false f in
  qc false f = q \/ feq F32 (qc false f) q = true.
Proof. exact MetaRT.qc_lowres. Qed.
Print Assumptions qc_lowres.

(* the suggested palette alone (C09's palette round trip): whatever form the encoder picks *)
Theorem palette_chunk_roundtrip : forall pal rest, wf_pal pal -> (1 <= explicit_count pal)%nat ->
  exists h body, palette_chunk pal = h :: body /\ 0 <= h < 256 /\
    exists its, read_palette (Z.to_nat (1 + h mod 64)) 0 (h / 64) default_palette (body ++ rest) = (its, Some (pal, rest))
                /\ calls_of its = [].
Proof. exact MetaRT.palette_chunk_decode. Qed.
Print Assumptions palette_chunk_roundtrip.

Theorem decoded_is_wellformed : forall b cs, wf_bytes b -> decode_calls [] b = (cs, Done) ->
  exists vb pal body, cs = CReset vb pal :: body /\
    wf_vb vb /\ viewbox_invalid vb = false /\ viewbox_invalid (qvb vb) = false /\ wf_pal pal /\ wf_calls false body.
Proof. exact Transcode.decoded_is_wellformed. Qed.
Print Assumptions decoded_is_wellformed.

Theorem transcode : forall b cs e0, wf_bytes b -> decode_calls [] b = (cs, Done) ->
  exists vb pal body b', cs = CReset vb pal :: body /\
    snd (enc_bytes (fst (enc_run e0 (map ACall cs)))) = BytesOk b' /\
    decode_calls [] b' = (CReset (m_vb (meta_of vb pal)) pal :: expect false false (map ACall body), Done).
Proof. exact Transcode.transcode. Qed.
Print Assumptions transcode.

Theorem decoded_coordinates_stable : forall g, coord_img g -> wf_f32 g /\ same_val (q_coord g) g.
Proof. exact Transcode.q_coord_img. Qed.
Print Assumptions decoded_coordinates_stable.

Theorem qvb_valid : forall v, vb_img v -> viewbox_invalid v = false -> wf_vb v /\ viewbox_invalid (qvb v) = false.
Proof. exact Transcode.qvb_valid. Qed.
Print Assumptions qvb_valid.

(* non-vacuity: a program with a 40-fold line run (crosses the 32 limit), an arc run, H/V, a close-and-move
   and hi-res switched on for the second path meets the hypotheses *)
Definition f (z : Z) : f32 := of_Z F32 z.
Definition ex_body : list eact :=
  [ACall (CSetCReg 0 true (CRGBA (mkRGBA 255 0 0 255))); ACall (CSetNReg 2 false 1056964608);
   ACall (CStartPath 1 (f 1) (f 2))] ++
  repeat (ACall (CDraw opL [1036831949; f 3])) 40 ++
  [ACall (CArc true (f 5) (f 5) 1048576000 true false (f 7) (f 7)); ACall (CArc true (f 5) (f 5) 1048576000 false true (f 7) (f 7));
   ACall (CDraw opH [f 9]); ACall (CDraw opY [f 0; f 0]); ACall (CDraw opv [f 4]); ACall CEndPath;
   AHiRes true; ACall (CStartPath 0 1036831949 (f 2)); ACall (CDraw opq [f 1; f 1; f 2; f 2]); ACall CEndPath].
Example ex_wf : wf_vb default_viewbox /\ viewbox_invalid (qvb default_viewbox) = false /\ wf_acts false ex_body.
Proof.
  split; [unfold wf_vb, wf_f32; vm_compute; intuition congruence|]. split; [vm_compute; reflexivity|].
  unfold ex_body. cbn [app repeat wf_acts wf_call next_mode wf_arc_or_draw adj_ok wf_color wf_rgba wf_chan wf_f32 cr cg cb ca].
  repeat match goal with
         | |- _ /\ _ => split
         | |- True => exact I
         | |- Forall _ _ => repeat constructor
         | |- In _ _ => vm_compute; tauto
         | |- _ <> _ => vm_compute; congruence
         | |- _ = _ => reflexivity
         | |- _ <= _ => vm_compute; congruence
         | |- _ < _ => vm_compute; reflexivity
         | |- _ -> _ => intros; try discriminate; try reflexivity
         end.
  all: try (unfold wf_f32; vm_compute; intuition congruence).
  all: try (unfold adj_ok; split; [vm_compute; intuition congruence|intros; try discriminate; reflexivity]).
  all: unfold wf_rgba, wf_chan; vm_compute; intuition congruence.
Qed.

(* non-vacuity of the converse: the bytes of a real stream (magic, no metadata, one path) are accepted *)
Example ex_accepts : snd (decode_calls [] [137; 73; 86; 71; 0; 192; 128; 128; 0; 130; 130; 225]) = Done.
Proof. vm_compute. reflexivity. Qed.

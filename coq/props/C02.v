(* C02 — Decoding arbitrary bytes is safe, bounded and never delivers garbage early.
   Statements only; proofs in proofs/DecProofs.v.  decode_items is the single model of decode() that
   Decode, DecodeViewBox and Disassemble project; byte strings are arbitrary lists (no well-formedness
   hypothesis is needed for these theorems).
   prefix_monotone (proofs/Prefix.v): for all byte strings a, b and all options, the calls delivered for a
   are a prefix of the calls delivered for a ++ b — whether either decode succeeds or fails.
   Termination of the Go loops is a fact about Go: what is proved is that the model never runs out of
   its fuel (= input length), i.e. every iteration consumes at least one byte. *)
From Coq Require Import ZArith Bool List.
From IVG Require Import SF NumCodec Color Calls Decoder DecProofs Prefix Render GoMath RenderProofs WorkBound.
From IVG Require Arc.
Import ListNotations.
Local Open Scope Z_scope.

(* never a panic, never fuel exhaustion: Done or a DecodeError, for every byte string *)
Theorem decode_no_panic : forall os b, opts_in_range os -> outcome_ok (snd (decode_items os b)).
Proof. exact DecProofs.decode_no_panic. Qed.
Print Assumptions decode_no_panic.

(* nothing is delivered unless the magic and every metadata chunk were valid; the first call is Reset *)
Theorem nothing_before_metadata : forall os b,
  let cs := fst (decode_calls os b) in
  cs = [] \/ exists vb pal tl m rest its, cs = CReset vb pal :: tl /\ dec_metadata b = (its, ChunksOk m rest).
Proof. exact DecProofs.nothing_before_metadata. Qed.
Print Assumptions nothing_before_metadata.

(* every delivered call consumed at least one input byte of its own *)
Theorem calls_le_bytes : forall os b, (length (fst (decode_calls os b)) <= length b)%nat.
Proof. exact DecProofs.calls_le_bytes. Qed.
Print Assumptions calls_le_bytes.

(* the instruction loop consumes at least one byte per iteration: with fuel = input length it never runs dry *)
Theorem dec_ops_fuel_suffices : forall fuel drawing b its o, (length b <= fuel)%nat ->
  dec_ops fuel drawing b = (its, o) ->
  outcome_ok o /\ (ncalls its <= length (lbytes its))%nat /\
  (o = Done -> lbytes its = b) /\ (exists t, b = lbytes its ++ t).
Proof. exact DecProofs.dec_ops_ok. Qed.
Print Assumptions dec_ops_fuel_suffices.

Theorem prefix_monotone : forall os a b, is_prefix (fst (decode_calls os a)) (fst (decode_calls os (a ++ b))).
Proof. exact Prefix.decode_prefix_monotone. Qed.
Print Assumptions prefix_monotone.

Theorem truncation_prefix : forall os b k, is_prefix (fst (decode_calls os (firstn k b))) (fst (decode_calls os b)).
Proof. exact Prefix.decode_truncation_prefix. Qed.
Print Assumptions truncation_prefix.

(* rasteriser activity is linear: a Renderer issues at most 1000 rasteriser calls per Destination call (at most
   2 for anything but an arc; the code caps an arc's segment count below 1000, and over the reals it is at most
   4: C06 four_segments), and every Destination call is charged to its own input byte (calls_le_bytes) *)
Theorem call_work_bounded : forall s c, (length (r_log (Arc.rstep32 s c)) <= length (r_log s) + 1000)%nat.
Proof. exact WorkBound.call_work_bounded. Qed.
Print Assumptions call_work_bounded.

Theorem work_linear : forall l s, (length (r_log (Arc.rrun32 s l)) <= length (r_log s) + 1000 * length l)%nat.
Proof. exact WorkBound.work_linear. Qed.
Print Assumptions work_linear.

Example ex_truncated : decode_calls [] [137; 73; 86; 71; 0; 192; 128] = ([CReset default_viewbox default_palette], Fail EInvalidNumber).
Proof. vm_compute. reflexivity. Qed.

(* C03 — The decoder implements exactly the FFV0 instruction grammar.
   Statements only; proofs in proofs/Grammar.v.  The grammar is spec/FFV0.v: inductive relations written from
   spec/iconvg-spec-v0.md (magic, metadata chunks with their lengths and MID order, number and colour forms,
   styling and drawing opcodes with ADJ / increment variants, repeat counts, arc flags, mode switches; every
   opcode not listed has no derivation = reserved) that never mention the decoder.

   decoder_is_grammar: for EVERY byte string (bytes 0..255), the model of decode.Decode — compared with the Go
   code on ~38k streams per run, including non-canonical forms no encoder emits — succeeds with calls cs if and
   only if the grammar derives (b, cs).  Acceptance and the delivered operations are therefore both exactly
   the specification's.  The component equivalences are restated below.  Modelling notes: float values of the
   1/2-byte number forms are written with the float32 operation computing them (C08 proves them exact);
   a suggested-palette entry that is not a valid premultiplied colour is replaced by opaque black, where the
   specification only says the rendering is undefined. *)
From Coq Require Import ZArith Bool List.
From IVG Require Import SF NumCodec Color Calls Decoder NumBase DecProofs RoundTrip FFV0 Grammar.
Import ListNotations.
Local Open Scope Z_scope.

Theorem decoder_is_grammar : forall b cs, wf_bytes b -> (decode_calls [] b = (cs, Done) <-> ffv0 b cs).
Proof. exact Grammar.decoder_is_grammar. Qed.
Print Assumptions decoder_is_grammar.

(* numbers: the decoder reads exactly the bytes of one encoding and yields its value; nothing else is a number *)
Theorem natural_numbers : forall b u n,
  (dec_natural b = Some (u, n) -> nat_enc (firstn n b) u /\ length (firstn n b) = n) /\
  (forall bs rest, nat_enc bs u -> dec_natural (bs ++ rest) = Some (u, length bs)).
Proof. intros b u n. split; [apply Grammar.nat_sound|intros bs rest; apply Grammar.nat_complete]. Qed.
Print Assumptions natural_numbers.

Theorem coordinate_numbers : forall b f n,
  (dec_coordinate b = Some (f, n) -> coord_enc (firstn n b) f /\ length (firstn n b) = n) /\
  (forall bs rest, coord_enc bs f -> dec_coordinate (bs ++ rest) = Some (f, length bs)).
Proof. intros b f n. split; [apply Grammar.coord_sound|intros bs rest; apply Grammar.coord_complete]. Qed.
Print Assumptions coordinate_numbers.

Theorem real_numbers : forall b f n,
  (dec_real b = Some (f, n) -> real_enc (firstn n b) f /\ length (firstn n b) = n) /\
  (forall bs rest, real_enc bs f -> dec_real (bs ++ rest) = Some (f, length bs)).
Proof. intros b f n. split; [apply Grammar.real_sound|intros bs rest; apply Grammar.real_complete]. Qed.
Print Assumptions real_numbers.

Theorem zero_to_one_numbers : forall b f n,
  (dec_zero_to_one b = Some (f, n) -> zto_enc (firstn n b) f /\ length (firstn n b) = n) /\
  (forall bs rest, zto_enc bs f -> dec_zero_to_one (bs ++ rest) = Some (f, length bs)).
Proof. intros b f n. split; [apply Grammar.zto_sound|intros bs rest; apply Grammar.zto_complete]. Qed.
Print Assumptions zero_to_one_numbers.

Theorem colors : forall k b c n, 0 <= k <= 4 -> wf_bytes b ->
  (dec_color_form k b = Some (c, n) -> color_enc k (firstn n b) c /\ length (firstn n b) = n) /\
  (forall bs rest, wf_bytes bs -> color_enc k bs c -> dec_color_form k (bs ++ rest) = Some (c, length bs)).
Proof. intros k b c n Hk W. split; [apply Grammar.color_sound; assumption|intros bs rest Wb; apply Grammar.color_complete, Wb]. Qed.
Print Assumptions colors.

(* one styling instruction *)
Theorem styling_instructions : forall opcode b its d' b', 0 <= opcode < 256 -> wf_bytes b ->
  styling_step opcode b = (its, StepOk d' b') ->
  exists bs c, opcode :: b = bs ++ b' /\ calls_of its = [c] /\ styling bs c d'.
Proof. exact Grammar.styling_sound. Qed.
Print Assumptions styling_instructions.

Theorem styling_instructions_complete : forall bs c d', styling bs c d' -> wf_bytes bs -> forall rest,
  exists opcode tl its, bs = opcode :: tl /\ styling_step opcode (tl ++ rest) = (its, StepOk d' rest) /\ calls_of its = [c].
Proof. exact Grammar.styling_complete. Qed.
Print Assumptions styling_instructions_complete.

(* one drawing instruction (a whole run of repetitions) *)
Theorem drawing_instructions : forall opcode b its d' b', 0 <= opcode < 256 ->
  drawing_step opcode b = (its, StepOk d' b') ->
  exists bs, opcode :: b = bs ++ b' /\ drawing bs (calls_of its) d'.
Proof. exact Grammar.drawing_sound. Qed.
Print Assumptions drawing_instructions.

Theorem drawing_instructions_complete : forall bs cs d', drawing bs cs d' -> forall rest,
  exists opcode tl its, bs = opcode :: tl /\ drawing_step opcode (tl ++ rest) = (its, StepOk d' rest) /\ calls_of its = cs.
Proof. exact Grammar.drawing_complete. Qed.
Print Assumptions drawing_instructions_complete.

(* non-vacuity: a stream with a viewBox chunk, a 4-byte natural as arc flags (a form no encoder emits) and a
   repeat count is derivable — obtained through the theorem from the decoder's run *)
Definition ex_stream : list byte :=
  [137; 73; 86; 71; 2; 10; 0; 64; 64; 192; 192;  193; 128; 128;  1; 130; 130; 132; 132;  192; 138; 138; 10; 7; 0; 0; 0; 140; 140;  225].
Example ex_derivable : exists cs, ffv0 ex_stream cs /\ length cs = 6%nat.
Proof.
  eexists. split.
  - apply Grammar.decoder_sound; [unfold wf_bytes, wf_byte; repeat constructor; vm_compute; intuition congruence|].
    vm_compute. reflexivity.
  - reflexivity.
Qed.

(* ---- tie to the source: decodeDrawing's switch on the high nibble, regenerated from decode/decode.go by the
   translator (coq/gen/Tables.v, decDrawNibbles), agrees with the model's draw_group on all 224 drawing opcodes
   below 0xe0: operation, coordinates per repetition, repetition count 1 + (opcode & mask) ---- *)
From IVG Require Import Tables.

Definition nibble_ok (e : Z * (Z * Z * Z)) : bool :=
  let '(n, (verb, nco, mask)) := e in
  forallb (fun lo => let opc := n * 16 + lo in
     let '(op, k, nreps) := draw_group opc in
     (op =? verb) && (Z.of_nat k =? nco) && (nreps =? 1 + Z.land opc mask)) (zrange 0 16).

Theorem decoder_draw_table_is_current :
  map fst decDrawNibbles = zrange 0 14 /\ forallb nibble_ok decDrawNibbles = true.
Proof. split; vm_compute; reflexivity. Qed.
Print Assumptions decoder_draw_table_is_current.

(* C04 — Each path is painted with what the register machine prescribes, or not at all.
   Statements only; proofs in proofs/VMProofs.v.  The specification's machine is spec/VMSpec.v.
   (NSTOPS < 2 is spec-silent: machine and model both skip the path — a stated modelling decision.) *)
From Coq Require Import ZArith Bool List.
From IVG Require Import SF NumCodec Color Calls Render Arc VMSpec RenderProofs VMProofs.
Import ListNotations.
Local Open Scope Z_scope.

(* simulation: every register instruction commutes with the abstraction to the specification's machine *)
Theorem renderer_refines_vm : forall s c, regs_ok s -> is_reg_op c = true ->
  vm_eq (vabs (rstep32 s c)) (vm_step (vabs s) c) /\ regs_ok (rstep32 s c) /\ r_log (rstep32 s c) = r_log s.
Proof. exact VMProofs.renderer_refines_vm. Qed.
Print Assumptions renderer_refines_vm.

Theorem reset_initial : forall s vb pal, length pal = 64%nat ->
  vm_eq (vabs (rstep32 s (CReset vb pal))) (vm_reset (creg_fn pal)) /\ regs_ok (rstep32 s (CReset vb pal)).
Proof. exact VMProofs.reset_initial. Qed.
Print Assumptions reset_initial.

(* the paint handed to the rasteriser is the machine's: LOD test against the raster height, flat colour,
   gradient with valid stops, or nothing *)
Theorem paint_is_prescribed : forall s adj x y,
  paint_of s (rstep32 s (CStartPath adj x y)) = vm_paint (vabs s) adj (r_h s).
Proof. exact VMProofs.paint_is_prescribed. Qed.
Print Assumptions paint_is_prescribed.

(* a skipped path causes no rasteriser activity at all, and drawing mode is still left at the end *)
Theorem skipped_is_silent : forall s adj x y, vm_paint (vabs s) adj (r_h s) = VSkip ->
  let s1 := rstep32 s (CStartPath adj x y) in
  r_disabled s1 = true /\ r_log s1 = r_log s /\
  (forall c, is_drawing c = true -> rstep32 s1 c = s1) /\
  r_log (rstep32 s1 CEndPath) = r_log s.
Proof. exact VMProofs.skipped_is_silent. Qed.
Print Assumptions skipped_is_silent.

Example ex_regs : regs_ok (rstep32 (rinit N32 0 0 8 8) (CReset default_viewbox default_palette)).
Proof. apply reset_initial. reflexivity. Qed.
Example ex_transparent_skipped :
  vm_paint (mkVM (fun _ => mkRGBA 0 0 0 0) (fun _ => 0) 0 0 0 2139095040 (fun _ => mkRGBA 0 0 0 0)) 0 8 = VSkip.
Proof. vm_compute. reflexivity. Qed.

(* ---- tie to the source: the Renderer's selector and level-of-detail setters of render/render.go, translated from
   /repo's working tree by harness/gosrc.go on every run (gen/GoSrc.v; the receiver's fields are parameters),
   compute what the model's step does to those fields. ---- *)
From IVG Require Import GoSem GoSrc GenEqRender.

Theorem code_SetCSel : forall arc (s : rstate f32) v,
  r_csel (rstep N32 arc s (CSetCSel v)) = go_render_Renderer_SetCSel (r_csel s) v.
Proof. exact GenEqRender.go_SetCSel_eq. Qed.
Print Assumptions code_SetCSel.

Theorem code_SetNSel : forall arc (s : rstate f32) v,
  r_nsel (rstep N32 arc s (CSetNSel v)) = go_render_Renderer_SetNSel (r_nsel s) v.
Proof. exact GenEqRender.go_SetNSel_eq. Qed.
Print Assumptions code_SetNSel.

Theorem code_SetLOD : forall arc (s : rstate f32) a b,
  (r_lod0 (rstep N32 arc s (CSetLOD a b)), r_lod1 (rstep N32 arc s (CSetLOD a b))) =
  go_render_Renderer_SetLOD (r_lod0 s) (r_lod1 s) a b.
Proof. exact GenEqRender.go_SetLOD_eq. Qed.
Print Assumptions code_SetLOD.

(* register writes, translated from Renderer.SetCReg / SetNReg (render/render.go): the register is addressed modulo 64 as
   selector minus ADJ, the colour is resolved (ivg.Color.Resolve, also translated) when stored, the selector is
   post-incremented modulo 64 -- exactly the model's step, for every state *)
Theorem code_SetNReg : forall arc (s : rstate f32) adj incr x,
  (r_nreg (rstep N32 arc s (CSetNReg adj incr x)), r_nsel (rstep N32 arc s (CSetNReg adj incr x))) =
  go_render_Renderer_SetNReg (r_nreg s) (r_nsel s) adj incr x.
Proof. exact GenEqRender.go_SetNReg_eq. Qed.
Print Assumptions code_SetNReg.

Theorem code_SetCReg : forall arc (s : rstate f32) adj incr c,
  GenEqColor.wf_gcolor c -> ColorProofs.wf_regs (r_pal s) -> ColorProofs.wf_regs (r_creg s) ->
  (r_creg (rstep N32 arc s (CSetCReg adj incr (abs_color c))), r_csel (rstep N32 arc s (CSetCReg adj incr (abs_color c)))) =
  go_render_Renderer_SetCReg (r_creg s) (r_csel s) (r_pal s) adj incr c.
Proof. exact GenEqRender.go_SetCReg_eq. Qed.
Print Assumptions code_SetCReg.

(* C05 — Path geometry reaches the rasteriser correctly mapped from viewBox to pixels.
   Statements only; proofs in proofs/GeomR.v.  The renderer's geometry is the single polymorphic
   definition Render.rdraw / emit; its float32 instance (N32) is compared bit-for-bit with render.go and
   these theorems are about its instance over the reals (NR inj, where inj is any valuation of float32
   bit patterns with inj 0 = 0).  The SVG meaning of the operations is spec/SvgPath.v.
   The float32 rounding error between the two instances is bounded for the viewBox-to-pixel map of a point
   (abs_point_error, from the soft-float's rounding specification); it is not bounded for whole paths
   (relative operations accumulate through the pen). *)
From Coq Require Import Reals ZArith Bool List Lia Lra.
From IVG Require Import SF NumCodec Color Calls Render SvgPath GeomR SFReal FErr MapF.
Import ListNotations.
Local Open Scope R_scope.

(* one drawing call: the rasteriser receives the SVG meaning of the operation mapped by the affine map,
   and the pixel pen / sub-path start / smooth-control state keep representing the viewBox-space state *)
Theorem draw_step : forall (inj : f32 -> R), inj 0%Z = 0 ->
  forall (s : SR) (st : pstate) (op : Z) (a : list f32),
  repr s st -> is_path_op op = true -> step_ok inj s st op a.
Proof. exact GeomR.draw_step. Qed.
Print Assumptions draw_step.

(* a whole path of any length: Reset, move, the mapped segments of the SVG path, close, one Draw over the rectangle *)
Theorem geometry : forall (inj : f32 -> R), inj 0%Z = 0 ->
  forall (s : SR) (x y : f32) (ops : list (Z * list f32)),
  r_disabled s = false ->
  forallb (fun o => is_path_op (fst o)) ops = true ->
  let N := NR inj in
  let s1 := emit_keep N (emit N s (RReset (r_w s) (r_h s)) 0%Z (r_psx s) (r_psy s))
                      (RMoveTo (absX N s (inj x)) (absY N s (inj y))) in
  let s2 := fold_left (fun s o => rdraw N s (fst o) (snd o)) ops s1 in
  r_log (end_path N s2) =
  r_log s ++ RReset (r_w s) (r_h s)
    :: map (seg_call s) (svg_path (inj x, inj y) (map (fun o => (fst o, map inj (snd o))) ops))
    ++ [RDraw (r_x0 s) (r_y0 s) (r_x0 s + r_w s)%Z (r_y0 s + r_h s)%Z (r_paint s)].
Proof. exact GeomR.geometry. Qed.
Print Assumptions geometry.

(* the affine map takes the viewBox corners to (0,0) and (Dx,Dy): independent x and y scale *)
Theorem amap_corners : forall (inj : f32 -> R) (s : SR) vb pal,
  inj (vmaxx vb) <> inj (vminx vb) -> inj (vmaxy vb) <> inj (vminy vb) ->
  let s1 := rreset (NR inj) s vb pal in
  Amap s1 (inj (vminx vb), inj (vminy vb)) = (0, 0) /\
  Amap s1 (inj (vmaxx vb), inj (vmaxy vb)) = (IZR (r_w s), IZR (r_h s)).
Proof. exact GeomR.amap_corners. Qed.
Print Assumptions amap_corners.

(* float32 against real arithmetic for the affine map itself: for a viewBox whose sides are at least 2^-40, corners and
   point of magnitude at most 2^40 and a target of at most 2^24 pixels, the pixel coordinates computed in float32
   (scale = float32(w) / (max - min), bias = -min, scale * (x + bias)) are finite and within 7 * 2^-24 relative error
   plus 2^-150 of the exact affine image (FErr.V is the real value of a float32 bit pattern, FErr.gf "finite bit pattern") *)
Theorem abs_point_error : forall (s : rstate f32) (sR : rstate R) (vb : viewbox) (pal : list rgba) (x y : f32),
  r_w sR = r_w s -> r_h sR = r_h s -> (1 <= r_w s <= 2 ^ 24)%Z -> (1 <= r_h s <= 2 ^ 24)%Z ->
  gf (vminx vb) /\ gf (vminy vb) /\ gf (vmaxx vb) /\ gf (vmaxy vb) -> gf x /\ gf y ->
  / P40 <= V (vmaxx vb) - V (vminx vb) -> / P40 <= V (vmaxy vb) - V (vminy vb) ->
  Rabs (V (vminx vb)) <= P40 /\ Rabs (V (vminy vb)) <= P40 /\ Rabs (V (vmaxx vb)) <= P40 /\ Rabs (V (vmaxy vb)) <= P40 ->
  Rabs (V x) <= P40 /\ Rabs (V y) <= P40 ->
  let s1 := rreset N32 s vb pal in let s1R := rreset (NR V) sR vb pal in
  let px := absX N32 s1 x in let py := absY N32 s1 y in
  let ex := absX (NR V) s1R (V x) in let ey := absY (NR V) s1R (V y) in
  gf px /\ gf py /\
  Rabs (V px - ex) <= 7 * u32 * Rabs ex + / IZR (2 ^ 150) /\
  Rabs (V py - ey) <= 7 * u32 * Rabs ey + / IZR (2 ^ 150).
Proof. exact MapF.abs_point_error. Qed.
Print Assumptions abs_point_error.

(* non-vacuity: 1.0 and -32.0 are finite bit patterns with the expected values *)
Example ex_gf : gf 1065353216%Z /\ V 1065353216%Z = 1 /\ gf 3254779904%Z /\ V 3254779904%Z = -32.
Proof.
  assert (D1 : decode F32 1065353216 = FFin false 8388608 (-23)) by (vm_compute; reflexivity).
  assert (D2 : decode F32 3254779904 = FFin true 8388608 (-18)) by (vm_compute; reflexivity).
  repeat split; try (unfold wf32; lia).
  - exists false, 8388608%Z, (-23)%Z. exact D1.
  - unfold V. rewrite (B2R_fin _ _ _ _ _ D1). unfold b2. cbn. lra.
  - exists true, 8388608%Z, (-18)%Z. exact D2.
  - unfold V. rewrite (B2R_fin _ _ _ _ _ D2). unfold b2. cbn. lra.
Qed.

Example ex_ops : forallb (fun o => is_path_op (fst o)) [(opL, [0%Z; 0%Z]); (opt, [0%Z; 0%Z]); (opy, [0%Z; 0%Z])] = true.
Proof. reflexivity. Qed.

(* ---- tie to the source: the Renderer's viewBox-to-pixel helpers of render/render.go, translated from /repo's
   working tree by harness/gosrc.go on every run (gen/GoSrc.v; the receiver's fields are parameters), are the
   float32 instance of the map the theorems above are about. ---- *)
From IVG Require Import GoSem GoSrc GenEqRender.

Theorem code_absX : forall (s : rstate f32) x, go_render_Renderer_absX (r_bx s) (r_scx s) x = absX N32 s x.
Proof. exact GenEqRender.go_absX_eq. Qed.
Print Assumptions code_absX.

Theorem code_absY : forall (s : rstate f32) y, go_render_Renderer_absY (r_by s) (r_scy s) y = absY N32 s y.
Proof. exact GenEqRender.go_absY_eq. Qed.
Print Assumptions code_absY.

Theorem code_relX : forall (s : rstate f32) x, go_render_Renderer_relX (r_scx s) x = relX N32 s x.
Proof. exact GenEqRender.go_relX_eq. Qed.
Print Assumptions code_relX.

Theorem code_relY : forall (s : rstate f32) y, go_render_Renderer_relY (r_scy s) y = relY N32 s y.
Proof. exact GenEqRender.go_relY_eq. Qed.
Print Assumptions code_relY.

Theorem code_unabsX : forall (s : rstate f32) x, go_render_Renderer_unabsX (r_bx s) (r_scx s) x = unabsX N32 s x.
Proof. exact GenEqRender.go_unabsX_eq. Qed.
Print Assumptions code_unabsX.

Theorem code_unabsY : forall (s : rstate f32) y, go_render_Renderer_unabsY (r_by s) (r_scy s) y = unabsY N32 s y.
Proof. exact GenEqRender.go_unabsY_eq. Qed.
Print Assumptions code_unabsY.

Theorem code_absVec2 : forall (s : rstate f32) x y,
  go_render_Renderer_absVec2 (r_bx s) (r_by s) (r_scx s) (r_scy s) x y = (absX N32 s x, absY N32 s y).
Proof. exact GenEqRender.go_absVec2_eq. Qed.
Print Assumptions code_absVec2.

(* C05 — Path geometry reaches the rasteriser correctly mapped from viewBox to pixels.
   Statements only; proofs in proofs/GeomR.v.  The renderer's geometry is the single polymorphic
   definition Render.rdraw / emit; its float32 instance (N32) is compared bit-for-bit with render.go and
   these theorems are about its instance over the reals (NR inj, where inj is any valuation of float32
   bit patterns with inj 0 = 0).  The SVG meaning of the operations is spec/SvgPath.v.
   The float32 rounding error between the two instances is not bounded by a theorem. *)
From Coq Require Import Reals ZArith Bool List.
From IVG Require Import SF NumCodec Color Calls Render SvgPath GeomR.
Import ListNotations.
Local Open Scope R_scope.

(* one drawing call: the rasteriser receives the SVG meaning of the operation mapped by the affine map,
   and the pixel pen / sub-path start / smooth-control state keep representing the viewBox-space state *)
Theorem draw_step : forall (inj : f32 -> R), inj 0%Z = 0 ->
  forall (s : SR) (st : pstate) (op : Z) (a : list f32),
  repr s st -> is_path_op op = true -> step_ok inj s st op a.
Proof. exact GeomR.draw_step. Qed.
Print Assumptions draw_step.

(* a whole path of any length: Reset, move, the mapped segments of the SVG path, close, one Draw over the rectangle *)
Theorem geometry : forall (inj : f32 -> R), inj 0%Z = 0 ->
  forall (s : SR) (x y : f32) (ops : list (Z * list f32)),
  r_disabled s = false ->
  forallb (fun o => is_path_op (fst o)) ops = true ->
  let N := NR inj in
  let s1 := emit_keep N (emit N s (RReset (r_w s) (r_h s)) 0%Z (r_psx s) (r_psy s))
                      (RMoveTo (absX N s (inj x)) (absY N s (inj y))) in
  let s2 := fold_left (fun s o => rdraw N s (fst o) (snd o)) ops s1 in
  r_log (end_path N s2) =
  r_log s ++ RReset (r_w s) (r_h s)
    :: map (seg_call s) (svg_path (inj x, inj y) (map (fun o => (fst o, map inj (snd o))) ops))
    ++ [RDraw (r_x0 s) (r_y0 s) (r_x0 s + r_w s)%Z (r_y0 s + r_h s)%Z (r_paint s)].
Proof. exact GeomR.geometry. Qed.
Print Assumptions geometry.

(* the affine map takes the viewBox corners to (0,0) and (Dx,Dy): independent x and y scale *)
Theorem amap_corners : forall (inj : f32 -> R) (s : SR) vb pal,
  inj (vmaxx vb) <> inj (vminx vb) -> inj (vmaxy vb) <> inj (vminy vb) ->
  let s1 := rreset (NR inj) s vb pal in
  Amap s1 (inj (vminx vb), inj (vminy vb)) = (0, 0) /\
  Amap s1 (inj (vmaxx vb), inj (vmaxy vb)) = (IZR (r_w s), IZR (r_h s)).
Proof. exact GeomR.amap_corners. Qed.
Print Assumptions amap_corners.

Example ex_ops : forallb (fun o => is_path_op (fst o)) [(opL, [0%Z; 0%Z]); (opt, [0%Z; 0%Z]); (opy, [0%Z; 0%Z])] = true.
Proof. reflexivity. Qed.

(* C06 — Elliptical arcs end where they should and follow the requested ellipse.  PARTIAL.
   Proved:
   * over the reals, for the one polymorphic definition of the endpoint-to-centre conversion that the
     float model runs (Arc.arc_center_gen): for positive radii and distinct end points, the two unit
     vectors of step 4 have norm 1 — i.e. the start point (the pen) and the end point both lie on the
     ellipse with the computed centre, the given rotation and the given radii, scaled up uniformly exactly
     when they are too small — and rotating the primed offsets back recovers the pen and the end point;
   * a relative arc's end point is the pen plus the offset (in viewBox space);
   * a sweep of at most one turn needs at most four segments of pi/2 + 0.001;
   * on the float model: a zero / NaN radius gives exactly one LineTo to the mapped end point; otherwise the
     arc is n CubeTo calls and nothing else, n the subdivision count; the relative form is the absolute
     form at the converted end point.
   Not proved: that each cubic's end point is the ellipse point at the subdivided angle (needs the
   acos/sin/cos angle algebra of step 4 over R), the flag semantics of large-arc / sweep, and any bound on
   float rounding.  Those are covered by the bit-exact correspondence on ~7.5k arcs per run. *)
From Coq Require Import Reals ZArith Bool List.
From IVG Require Import SF NumCodec Color Calls Render GoMath Arc GeomR ArcR RenderProofs ArcProofs.
Import ListNotations.

Theorem unit_vectors : forall x1 y1 x2 y2 Rx Ry co si : R, forall same : bool,
  (0 < Rx)%R -> (0 < Ry)%R -> (co * co + si * si = 1)%R -> (x1 <> x2 \/ y1 <> y2) ->
  (ux x1 y1 x2 y2 Rx Ry co si same * ux x1 y1 x2 y2 Rx Ry co si same +
   uy x1 y1 x2 y2 Rx Ry co si same * uy x1 y1 x2 y2 Rx Ry co si same = 1)%R /\
  (vx x1 y1 x2 y2 Rx Ry co si same * vx x1 y1 x2 y2 Rx Ry co si same +
   vy x1 y1 x2 y2 Rx Ry co si same * vy x1 y1 x2 y2 Rx Ry co si same = 1)%R.
Proof. exact ArcR.unit_vectors. Qed.
Print Assumptions unit_vectors.

Theorem start_point : forall x1 y1 x2 y2 Rx Ry co si : R, forall same : bool,
  (co * co + si * si = 1)%R ->
  let c := arc_center_gen AR x1 y1 x2 y2 Rx Ry co si same in
  (ac_cx c + co * (ac_x1p c - ac_cxp c) - si * (ac_y1p c - ac_cyp c) = x1)%R /\
  (ac_cy c + si * (ac_x1p c - ac_cxp c) + co * (ac_y1p c - ac_cyp c) = y1)%R.
Proof. exact ArcR.start_point. Qed.
Print Assumptions start_point.

Theorem end_point : forall x1 y1 x2 y2 Rx Ry co si : R, forall same : bool,
  (co * co + si * si = 1)%R ->
  let c := arc_center_gen AR x1 y1 x2 y2 Rx Ry co si same in
  (ac_cx c + co * (- ac_x1p c - ac_cxp c) - si * (- ac_y1p c - ac_cyp c) = x2)%R /\
  (ac_cy c + si * (- ac_x1p c - ac_cxp c) + co * (- ac_y1p c - ac_cyp c) = y2)%R.
Proof. exact ArcR.end_point. Qed.
Print Assumptions end_point.

Theorem rel_endpoint : forall (inj : f32 -> R) (s : rstate R) (x : R), r_scx s <> 0%R ->
  unabsX (NR inj) s (relVX (NR inj) s x) = (unabsX (NR inj) s (z_penx s) + x)%R.
Proof. exact ArcR.rel_endpoint. Qed.
Print Assumptions rel_endpoint.

Theorem four_segments : forall d : R, (0 <= d <= 2 * PI)%R -> (d / (PI / 2 + 1 / 1000) <= 4)%R.
Proof. exact ArcR.four_segments. Qed.
Print Assumptions four_segments.

Local Open Scope Z_scope.

Theorem arc_zero_radius : forall s rx ry rot la sw x y,
  negb (fgt F64 (dabs (to64 rx)) d0 && fgt F64 (dabs (to64 ry)) d0) = true ->
  r_log (abs_arc s rx ry rot la sw x y) = r_log s ++ [RLineTo (absX N32 s x) (absY N32 s y)].
Proof. exact ArcProofs.arc_zero_radius. Qed.
Print Assumptions arc_zero_radius.

Theorem arc_is_cubics : forall s rx ry rot la sw x y,
  negb (fgt F64 (dabs (to64 rx)) d0 && fgt F64 (dabs (to64 ry)) d0) = false ->
  let s0 := set_pst_none s in
  let p := arc_params (to64 (unabsX N32 s0 (z_penx s0))) (to64 (unabsY N32 s0 (z_peny s0)))
                      (dabs (to64 rx)) (dabs (to64 ry)) rot la sw x y in
  exists l, length l = Z.to_nat (ap_n p) /\ forallb is_cube l = true /\
            r_log (abs_arc s rx ry rot la sw x y) = r_log s ++ l.
Proof. exact ArcProofs.arc_is_cubics. Qed.
Print Assumptions arc_is_cubics.

Theorem rel_is_abs : forall s rx ry rot la sw x y,
  arc32 s true rx ry rot la sw x y =
  abs_arc s rx ry rot la sw (unabsX N32 s (relVX N32 s x)) (unabsY N32 s (relVY N32 s y)).
Proof. exact ArcProofs.rel_is_abs. Qed.
Print Assumptions rel_is_abs.

(* a half-turn arc of the unit circle from (-1,0) to (1,0): 2 segments on the float model *)
Example ex_half_turn :
  ap_n (arc_params (of_Z F64 (-1)) 0 (of_Z F64 1) (of_Z F64 1) 0 false true (of_Z F32 1) 0) = 2.
Proof. vm_compute. reflexivity. Qed.

(* C06 — Elliptical arcs end where they should and follow the requested ellipse.
   The arc code is written once over a record of numeric operations (Arc.arc_center_gen, angle_gen,
   arc_angles_gen, arc_point_gen); its float64 instance is what AbsArcTo's model runs and what is compared
   bit-for-bit with render.go (incl. ported math kernels) on ~7.5k arcs per run; these theorems are about its
   instance over the reals, for positive radii and distinct end points:
   * unit_vectors / start_point / end_point: the centre, the (uniformly scaled-up when too small) radii and the
     rotation put the pen and the end point on the ellipse;
   * angle_unit: the code's signed angle has the right cosine and sine and lies in (-pi, pi];
   * arc_starts_and_ends: the ellipse point at the start angle is the pen and the point at start angle + sweep
     is the arc's end point — so the first cubic starts at the pen and the last ends at the end point;
   * point_on_ellipse: every segment end lies on that ellipse;
   * sweep_sign_and_extent: the sweep is in [0, 2pi] when the sweep flag is set and in [-2pi, 0] otherwise;
     four_segments: such a sweep needs at most four segments of pi/2 + 0.001;
   * rel_endpoint: a relative arc's end point is the pen plus the offset;
   * on the float model: a zero / NaN radius gives exactly one LineTo to the mapped end point; otherwise the
     arc is n CubeTo calls and nothing else; the relative form is the absolute form at the converted point.
   * large_arc_flag: with the centre chosen by the code (sign of the square root from large = sweep), the
     sweep has magnitude >= pi when the large-arc flag is set and <= pi when it is not.
   Not proved: any bound on float rounding (incl. the float evaluation of the segment count), and how well the
   control points make each cubic approximate its ellipse segment (the property only asks for the segment ends). *)
From Coq Require Import Reals ZArith Bool List.
From IVG Require Import SF NumCodec Color Calls Render GoMath Arc GeomR ArcR ArcAngles RenderProofs ArcProofs.
Import ListNotations.

Theorem unit_vectors : forall x1 y1 x2 y2 Rx Ry co si : R, forall same : bool,
  (0 < Rx)%R -> (0 < Ry)%R -> (co * co + si * si = 1)%R -> (x1 <> x2 \/ y1 <> y2) ->
  (ux x1 y1 x2 y2 Rx Ry co si same * ux x1 y1 x2 y2 Rx Ry co si same +
   uy x1 y1 x2 y2 Rx Ry co si same * uy x1 y1 x2 y2 Rx Ry co si same = 1)%R /\
  (vx x1 y1 x2 y2 Rx Ry co si same * vx x1 y1 x2 y2 Rx Ry co si same +
   vy x1 y1 x2 y2 Rx Ry co si same * vy x1 y1 x2 y2 Rx Ry co si same = 1)%R.
Proof. exact ArcR.unit_vectors. Qed.
Print Assumptions unit_vectors.

Theorem start_point : forall x1 y1 x2 y2 Rx Ry co si : R, forall same : bool,
  (co * co + si * si = 1)%R ->
  let c := arc_center_gen AR x1 y1 x2 y2 Rx Ry co si same in
  (ac_cx c + co * (ac_x1p c - ac_cxp c) - si * (ac_y1p c - ac_cyp c) = x1)%R /\
  (ac_cy c + si * (ac_x1p c - ac_cxp c) + co * (ac_y1p c - ac_cyp c) = y1)%R.
Proof. exact ArcR.start_point. Qed.
Print Assumptions start_point.

Theorem end_point : forall x1 y1 x2 y2 Rx Ry co si : R, forall same : bool,
  (co * co + si * si = 1)%R ->
  let c := arc_center_gen AR x1 y1 x2 y2 Rx Ry co si same in
  (ac_cx c + co * (- ac_x1p c - ac_cxp c) - si * (- ac_y1p c - ac_cyp c) = x2)%R /\
  (ac_cy c + si * (- ac_x1p c - ac_cxp c) + co * (- ac_y1p c - ac_cyp c) = y2)%R.
Proof. exact ArcR.end_point. Qed.
Print Assumptions end_point.

Theorem angle_unit : forall ux uy vx vy : R, (ux * ux + uy * uy = 1)%R -> (vx * vx + vy * vy = 1)%R ->
  let th := angle_gen AR ux uy vx vy in
  (cos th = ux * vx + uy * vy /\ sin th = ux * vy - uy * vx /\ - PI < th <= PI)%R.
Proof. exact ArcAngles.angle_unit. Qed.
Print Assumptions angle_unit.

Theorem arc_starts_and_ends : forall (x1 y1 x2 y2 Rx Ry co si : R) (same sweep : bool),
  (0 < Rx)%R -> (0 < Ry)%R -> (co * co + si * si = 1)%R -> (x1 <> x2 \/ y1 <> y2) ->
  let c := arc_center_gen AR x1 y1 x2 y2 Rx Ry co si same in
  let th1 := fst (arc_angles_gen AR c sweep) in
  let dth := snd (arc_angles_gen AR c sweep) in
  arc_point_gen AR (ac_cx c) (ac_cy c) (ac_rx c) (ac_ry c) co si th1 = (x1, y1) /\
  arc_point_gen AR (ac_cx c) (ac_cy c) (ac_rx c) (ac_ry c) co si (th1 + dth)%R = (x2, y2).
Proof. exact ArcAngles.arc_starts_and_ends. Qed.
Print Assumptions arc_starts_and_ends.

Theorem point_on_ellipse : forall cx cy rx ry co si th : R, rx <> 0%R -> ry <> 0%R -> (co * co + si * si = 1)%R ->
  let '(px, py) := arc_point_gen AR cx cy rx ry co si th in
  let X := (co * (px - cx) + si * (py - cy))%R in
  let Y := (- si * (px - cx) + co * (py - cy))%R in
  ((X / rx) * (X / rx) + (Y / ry) * (Y / ry) = 1)%R.
Proof. exact ArcAngles.point_on_ellipse. Qed.
Print Assumptions point_on_ellipse.

Theorem sweep_sign_and_extent : forall (x1 y1 x2 y2 Rx Ry co si : R) (same sweep : bool),
  (0 < Rx)%R -> (0 < Ry)%R -> (co * co + si * si = 1)%R -> (x1 <> x2 \/ y1 <> y2) ->
  let dth := snd (arc_angles_gen AR (arc_center_gen AR x1 y1 x2 y2 Rx Ry co si same) sweep) in
  (sweep = true -> 0 <= dth <= 2 * PI)%R /\ (sweep = false -> - (2 * PI) <= dth <= 0)%R.
Proof. exact ArcAngles.sweep_sign_and_extent. Qed.
Print Assumptions sweep_sign_and_extent.

Theorem large_arc_flag : forall (x1 y1 x2 y2 Rx Ry co si : R) (same sweep : bool),
  (0 < Rx)%R -> (0 < Ry)%R -> (co * co + si * si = 1)%R -> (x1 <> x2 \/ y1 <> y2) ->
  forall large : bool, same = Bool.eqb large sweep ->
  let dth := snd (arc_angles_gen AR (arc_center_gen AR x1 y1 x2 y2 Rx Ry co si same) sweep) in
  (large = true -> PI <= Rabs dth)%R /\ (large = false -> Rabs dth <= PI)%R.
Proof. exact ArcAngles.large_arc_flag. Qed.
Print Assumptions large_arc_flag.

Theorem rel_endpoint : forall (inj : f32 -> R) (s : rstate R) (x : R), r_scx s <> 0%R ->
  unabsX (NR inj) s (relVX (NR inj) s x) = (unabsX (NR inj) s (z_penx s) + x)%R.
Proof. exact ArcR.rel_endpoint. Qed.
Print Assumptions rel_endpoint.

Theorem four_segments : forall d : R, (0 <= d <= 2 * PI)%R -> (d / (PI / 2 + 1 / 1000) <= 4)%R.
Proof. exact ArcR.four_segments. Qed.
Print Assumptions four_segments.

Local Open Scope Z_scope.

Theorem arc_zero_radius : forall s rx ry rot la sw x y,
  negb (fgt F64 (dabs (to64 rx)) d0 && fgt F64 (dabs (to64 ry)) d0) = true ->
  r_log (abs_arc s rx ry rot la sw x y) = r_log s ++ [RLineTo (absX N32 s x) (absY N32 s y)].
Proof. exact ArcProofs.arc_zero_radius. Qed.
Print Assumptions arc_zero_radius.

Theorem arc_is_cubics : forall s rx ry rot la sw x y,
  negb (fgt F64 (dabs (to64 rx)) d0 && fgt F64 (dabs (to64 ry)) d0) = false ->
  let s0 := set_pst_none s in
  let p := arc_params (to64 (unabsX N32 s0 (z_penx s0))) (to64 (unabsY N32 s0 (z_peny s0)))
                      (dabs (to64 rx)) (dabs (to64 ry)) rot la sw x y in
  exists l, length l = Z.to_nat (ap_n p) /\ forallb is_cube l = true /\
            r_log (abs_arc s rx ry rot la sw x y) = r_log s ++ l.
Proof. exact ArcProofs.arc_is_cubics. Qed.
Print Assumptions arc_is_cubics.

Theorem rel_is_abs : forall s rx ry rot la sw x y,
  arc32 s true rx ry rot la sw x y =
  abs_arc s rx ry rot la sw (unabsX N32 s (relVX N32 s x)) (unabsY N32 s (relVY N32 s y)).
Proof. exact ArcProofs.rel_is_abs. Qed.
Print Assumptions rel_is_abs.

(* a half-turn arc of the unit circle from (-1,0) to (1,0): 2 segments on the float model *)
Example ex_half_turn :
  ap_n (arc_params (of_Z F64 (-1)) 0 (of_Z F64 1) (of_Z F64 1) 0 false true (of_Z F32 1) 0) = 2.
Proof. vm_compute. reflexivity. Qed.

(* ---- the control points of the cubic segments (proofs/ArcCtrl.v).  arc_ctrl_gen is arcSegmentTo's control-point
   computation over abstract numeric operations; the model's segment uses its float64 instance (segment_uses_ctrl), and
   over the reals, in the ellipse's own frame (P(a) = (rx cos a, ry sin a), D = dP/da): the inner control points are
   P(theta1) + t D(theta1) and P(theta2) - t D(theta2) with t = 4/3 tan((theta2 - theta1)/4) -- the control polygon is
   tangent to the ellipse at both ends -- and the cubic's point at parameter 1/2 is the ellipse point at the middle
   angle, so each segment meets the ellipse at its ends and in the middle.  (Rotation by phi and translation by the
   centre are affine and applied identically to all four points.) ---- *)
From IVG Require Import ArcCtrl.
Local Open Scope R_scope.

Theorem segment_uses_ctrl : forall (s : Arc.S) (cx cy theta1 theta2 rx ry cosphi sinphi : Z),
  arc_segment s cx cy theta1 theta2 rx ry cosphi sinphi =
  let '(x1, y1, x2, y2) := arc_ctrl_gen C64 theta1 theta2 rx ry in
  let px (x y : Z) := absX N32 s (to32 (dsub (dadd cx (dmul cosphi x)) (dmul sinphi y))) in
  let py (x y : Z) := absY N32 s (to32 (dadd (dadd cy (dmul sinphi x)) (dmul cosphi y))) in
  let p3 := arc_point_gen A64 cx cy rx ry cosphi sinphi theta2 in
  emit_keep N32 s (RCubeTo (px x1 y1) (py x1 y1) (px x2 y2) (py x2 y2)
                           (absX N32 s (to32 (fst p3))) (absY N32 s (to32 (snd p3)))).
Proof. exact ArcCtrl.arc_segment_ctrl. Qed.
Print Assumptions segment_uses_ctrl.

Theorem control_points_tangent : forall theta1 theta2 rx ry : R,
  let '(x1, y1, x2, y2) := arc_ctrl_gen CR theta1 theta2 rx ry in
  let t := arc_t_gen CR theta1 theta2 in
  x1 = Px rx theta1 + t * Dx rx theta1 /\ y1 = Py ry theta1 + t * Dy ry theta1 /\
  x2 = Px rx theta2 - t * Dx rx theta2 /\ y2 = Py ry theta2 - t * Dy ry theta2.
Proof. exact ArcCtrl.ctrl_tangent. Qed.
Print Assumptions control_points_tangent.

Theorem control_parameter : forall theta1 theta2 : R, sin ((theta2 - theta1) / 2) <> 0 ->
  arc_t_gen CR theta1 theta2 = 4 / 3 * tan ((theta2 - theta1) / 2 / 2).
Proof. exact ArcCtrl.t_is_tan. Qed.
Print Assumptions control_parameter.

Theorem segment_midpoint_on_ellipse : forall theta1 theta2 rx ry : R, sin ((theta2 - theta1) / 2) <> 0 ->
  let '(x1, y1, x2, y2) := arc_ctrl_gen CR theta1 theta2 rx ry in
  (Px rx theta1 + 3 * x1 + 3 * x2 + Px rx theta2) / 8 = Px rx ((theta1 + theta2) / 2) /\
  (Py ry theta1 + 3 * y1 + 3 * y2 + Py ry theta2) / 8 = Py ry ((theta1 + theta2) / 2).
Proof. exact ArcCtrl.ctrl_midpoint. Qed.
Print Assumptions segment_midpoint_on_ellipse.

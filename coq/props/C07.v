(* C07 — Rendering directly equals rendering via encode+decode; selectors agree.  PARTIAL (the effect of quantisation is bounded for absolute points only).
   Proved (proofs/SelProofs.v): for every call sequence, after every prefix, an Encoder that accepted the
   calls holds the same CSEL and NSEL as a Renderer fed the same calls (both follow the decoding machine's
   selector updates, sel_step), its read-back methods return them, and the generator's gradient helpers —
   which depend on the destination only through those read-backs — therefore emit the same calls or the
   same error into either destination.  DestinationLogger forwards every call unchanged (checked by the
   correspondence run through the logger).
   via_bytes: a Renderer fed by decoding an Encoder's bytes ends in exactly the state of a Renderer fed the
   program's written-and-read-back form (C01's expect) — so the two pipelines differ by the number
   quantisation of C01/C08 and nothing else; quantised_point_moves bounds how far an absolute point moves in
   pixel space under the low-resolution coordinate quantisation (scale/128 per axis plus float32 rounding); the
   movement of whole paths (relative operations accumulate through the pen, arcs) is not bounded; via_bytes_exact: when every number of the program is exactly representable in
   its written form (expect = the program itself) the two Renderers end in the same state, rasteriser log
   included (the correspondence run compares the two pipelines' logs on such programs). *)
From Coq Require Import ZArith Bool List.
From IVG Require Import SF NumCodec Color Calls Decoder Encoder Render Arc RenderProofs Generator SelProofs RoundTrip MetaRT Transcode VbMono.
Import ListNotations.
Local Open Scope Z_scope.

Theorem renderer_selectors_follow_machine : forall s c, rsel (rstep32 s c) = sel_step (rsel s) c.
Proof. exact SelProofs.rend_sel. Qed.
Print Assumptions renderer_selectors_follow_machine.

Theorem encoder_selectors_follow_machine : forall e c, has_err (enc_step e c) = false ->
  esel (enc_step e c) = sel_step (esel e) c.
Proof. exact SelProofs.enc_sel. Qed.
Print Assumptions encoder_selectors_follow_machine.

Theorem selectors_agree : forall l e s, agree e s -> agree (fold_left enc_step l e) (rrun32 s l).
Proof. exact SelProofs.selectors_agree. Qed.
Print Assumptions selectors_agree.

Theorem readback_is_selector : forall e,
  snd (enc_act e AReadCSel) = OSel (e_csel e) /\ snd (enc_act e AReadNSel) = OSel (e_nsel e).
Proof. exact SelProofs.readback_is_selector. Qed.
Print Assumptions readback_is_selector.

Theorem helpers_same_calls : forall e s sh sp stops tr, esel e = rsel s ->
  set_gradient (e_csel e) (e_nsel e) sh sp stops tr = set_gradient (r_csel s) (r_nsel s) sh sp stops tr.
Proof. exact SelProofs.helpers_same_calls. Qed.
Print Assumptions helpers_same_calls.

Theorem via_bytes : forall e0 vb pal body s,
  wf_vb vb -> viewbox_invalid vb = false -> wf_pal pal -> wf_acts false body ->
  exists b, snd (enc_bytes (fst (enc_run e0 (ACall (CReset vb pal) :: body)))) = BytesOk b /\
            snd (decode_calls [] b) = Done /\
            rrun32 s (fst (decode_calls [] b)) = rrun32 s (CReset (m_vb (meta_of vb pal)) pal :: expect false false body).
Proof. exact VbMono.via_bytes_valid. Qed.
Print Assumptions via_bytes.

Theorem via_bytes_exact : forall e0 vb pal body s,
  wf_vb vb -> viewbox_invalid vb = false -> wf_pal pal -> wf_acts false body ->
  expect false false body = acts_calls body -> m_vb (meta_of vb pal) = vb ->
  exists b, snd (enc_bytes (fst (enc_run e0 (ACall (CReset vb pal) :: body)))) = BytesOk b /\
            snd (decode_calls [] b) = Done /\
            rrun32 s (fst (decode_calls [] b)) = rrun32 s (CReset vb pal :: acts_calls body).
Proof. exact VbMono.via_bytes_exact. Qed.
Print Assumptions via_bytes_exact.

(* the failing history of the repaired defect: SetCSel 63 then 12 incrementing writes *)
Example ex_wrap :
  esel (fold_left enc_step (CSetCSel 63 :: repeat (CSetCReg 0 true (CRGBA (mkRGBA 0 0 0 255))) 12) (enc_reset default_viewbox default_palette)) = (11, 0).
Proof. vm_compute. reflexivity. Qed.

(* ---- quantisation and pixels ---- *)
From Coq Require Import Reals.
From IVG Require Import SFReal FErr MapF QuantF.
Local Open Scope R_scope.

(* a low-resolution coordinate in [-128,128) and its written-and-read-back form differ by at most 1/128 *)
Theorem quantize_close : forall x, gf x -> fle F32 cm128 x = true -> flt F32 x c128 = true ->
  gf (quantize false x) /\ Rabs (V (quantize false x) - V x) <= / 128 /\ Rabs (V (quantize false x)) <= 129.
Proof. exact QuantF.quantize_close. Qed.
Print Assumptions quantize_close.

(* hence the pixel coordinate of an absolute point moves by at most scale/128 plus the float32 rounding of the two
   evaluations of the viewBox-to-pixel map (viewBox side >= 2^-40, corners <= 2^40 in magnitude, target <= 2^24 pixels) *)
Theorem quantised_point_moves : forall (s : rstate f32) (vb : viewbox) (pal : list rgba) (x : f32),
  (1 <= r_w s <= 2 ^ 24)%Z -> gf (vminx vb) -> gf (vmaxx vb) -> gf x ->
  / P40 <= V (vmaxx vb) - V (vminx vb) -> Rabs (V (vminx vb)) <= P40 -> Rabs (V (vmaxx vb)) <= P40 ->
  fle F32 cm128 x = true -> flt F32 x c128 = true ->
  let s1 := rreset N32 s vb pal in
  let S := IZR (r_w s) / (V (vmaxx vb) - V (vminx vb)) in
  let MN := V (vminx vb) in
  let q := quantize false x in
  Rabs (V (absX N32 s1 q) - V (absX N32 s1 x)) <=
    S * / 128 + 7 * u32 * (Rabs (S * (V q - MN)) + Rabs (S * (V x - MN))) + 2 * / IZR (2 ^ 150).
Proof. exact QuantF.quantised_point_moves. Qed.
Print Assumptions quantised_point_moves.

(* ---- accumulation through the pen (proofs/Drift.v), over the SVG path semantics that the renderer's geometry realises
   (C05): two operation lists with the same operations whose arguments differ by at most d keep the pen and the sub-path
   start within e + n*d per coordinate after n operations (an absolute operation resets the difference to d, a relative
   one adds d), whatever the smooth-curve state; for low-resolution quantisation d = 1/128 (quantize_close).  Float
   rounding of the renderer is not part of this statement. ---- *)
From IVG Require Import SvgPath Drift.

Theorem path_drift : forall ops ops' st st' e d, 0 <= d -> 0 <= e ->
  Forall2 (fun x y => fst x = fst y /\ args_close d (snd x) (snd y)) ops ops' ->
  close e (p_pen st) (p_pen st') -> close e (p_start st) (p_start st') ->
  close (e + INR (length ops) * d) (p_pen (fst (svg_run st ops))) (p_pen (fst (svg_run st' ops'))) /\
  close (e + INR (length ops) * d) (p_start (fst (svg_run st ops))) (p_start (fst (svg_run st' ops'))).
Proof. exact Drift.run_drift. Qed.
Print Assumptions path_drift.

Theorem quantised_path_drift : forall ops ops' start,
  Forall2 (fun x y => fst x = fst y /\ args_close (/ 128) (snd x) (snd y)) ops ops' ->
  let st0 := mkP start start KNone start in
  close (INR (length ops) / 128) (p_pen (fst (svg_run st0 ops))) (p_pen (fst (svg_run st0 ops'))).
Proof. exact Drift.quantised_path_drift. Qed.
Print Assumptions quantised_path_drift.

(* C08 — Number encodings are lossless where possible, bounded-error and minimal.
   Only statements here; proofs are in proofs/NumProofs.v.

   zto_bounded (proofs/ZtoBound.v): a zero-to-one value written in a 1- or 2-byte form reads back within 4
   units in the last place of the input — from the rounding specification of the soft-float (the guard
   fl(f*15120) = u pins f*15120 to within half a unit of u) and a kernel sweep over the 15120 codes for the
   decoder's value; zto_zero: code 0 is written only for a zero. *)
From Coq Require Import ZArith Bool List.
From IVG Require Import SF NumCodec NumBase NumProofs RoundTrip ZtoBound.
Import ListNotations.
Local Open Scope Z_scope.

Theorem nat_roundtrip : forall u rest, 0 <= u < 1073741824 ->
  dec_natural (enc_natural u ++ rest) = Some (u, length (enc_natural u)).
Proof. exact NumBase.nat_roundtrip. Qed.
Print Assumptions nat_roundtrip.

Theorem nat_shortest : forall b u n, wf_bytes b -> dec_natural b = Some (u, n) ->
  (length (enc_natural u) <= n)%nat.
Proof. exact NumBase.nat_shortest. Qed.
Print Assumptions nat_shortest.

(* a number cut short by end of input is an error; otherwise only the announced bytes are read *)
Theorem dec_natural_truncated : forall b, dec_natural b = None <-> (length b < natural_width b)%nat.
Proof. exact NumBase.dec_natural_none. Qed.
Print Assumptions dec_natural_truncated.

Theorem dec_natural_no_overread : forall b u n, dec_natural b = Some (u, n) ->
  n = natural_width b /\ (n <= length b)%nat /\
  forall t, dec_natural (firstn n b ++ t) = Some (u, n).
Proof. exact NumBase.dec_natural_some. Qed.
Print Assumptions dec_natural_no_overread.

(* 4-byte form: sign, exponent kept; low two mantissa bits dropped after rounding; error <= 3 units;
   exact when the low two bits are zero; zeros and infinities fixed; NaN stays non-finite
   (exponent field unchanged) *)
Theorem round4_spec : forall b, wf_f32 b ->
  let b' := round4_val b in
  wf_f32 b' /\ b' / 8388608 = b / 8388608 /\ b' mod 4 = 0 /\
  -3 <= b' mod 8388608 - b mod 8388608 <= 2 /\
  (b mod 4 = 0 -> b' = b) /\ (b mod 8388608 = 0 -> b' = b).
Proof. exact NumBase.round4_spec. Qed.
Print Assumptions round4_spec.

Theorem real4_decodes : forall b rest, wf_f32 b ->
  dec_real (enc_real4 b ++ rest) = Some (round4_val b, 4%nat).
Proof. exact NumBase.dec_real4. Qed.
Print Assumptions real4_decodes.

Theorem real_exact : forall f u rest, wf_f32 f -> real_short f = Some u ->
  enc_real f = enc_short u /\
  dec_real (enc_real f ++ rest) = Some (of_Z F32 u, length (enc_real f)) /\
  feq F32 (of_Z F32 u) f = true.
Proof. exact NumProofs.real_exact. Qed.
Print Assumptions real_exact.

Theorem real_shortest : forall f b g n, wf_f32 f -> wf_bytes b ->
  dec_real b = Some (g, n) -> feq F32 g f = true -> (length (enc_real f) <= n)%nat.
Proof. exact NumProofs.real_shortest. Qed.
Print Assumptions real_shortest.

Theorem real_reencode_stable : forall f g n, wf_f32 f -> dec_real (enc_real f) = Some (g, n) ->
  exists g' n', dec_real (enc_real g) = Some (g', n') /\ (n' <= n)%nat /\
                (g' = g \/ feq F32 g' g = true).
Proof. exact NumProofs.real_reencode_stable. Qed.
Print Assumptions real_reencode_stable.

Theorem coord_exact1 : forall f i rest, wf_f32 f -> coord_short1 f = Some i ->
  enc_coordinate f = [2 * (i + 64)] /\
  dec_coordinate (enc_coordinate f ++ rest) = Some (of_Z F32 i, 1%nat) /\
  feq F32 (of_Z F32 i) f = true.
Proof. exact NumProofs.coord_exact1. Qed.
Print Assumptions coord_exact1.

Theorem coord_exact2 : forall f i rest, wf_f32 f -> coord_short1 f = None -> coord_short2 f = Some i ->
  enc_coordinate f = le16 (4 * (i + 8192) + 1) /\
  dec_coordinate (enc_coordinate f ++ rest) = Some (fdiv F32 (of_Z F32 i) c64, 2%nat) /\
  feq F32 (fdiv F32 (of_Z F32 i) c64) f = true.
Proof. exact NumProofs.coord_exact2. Qed.
Print Assumptions coord_exact2.

Theorem coord_shortest : forall f b g n, wf_f32 f -> wf_bytes b ->
  dec_coordinate b = Some (g, n) -> feq F32 g f = true -> (length (enc_coordinate f) <= n)%nat.
Proof. exact NumProofs.coord_shortest. Qed.
Print Assumptions coord_shortest.

Theorem coord_reencode_stable : forall f g n, wf_f32 f -> dec_coordinate (enc_coordinate f) = Some (g, n) ->
  exists g' n', dec_coordinate (enc_coordinate g) = Some (g', n') /\ (n' <= n)%nat /\
                (g' = g \/ feq F32 g' g = true).
Proof. exact NumProofs.coord_reencode_stable. Qed.
Print Assumptions coord_reencode_stable.

(* low-resolution coordinates in [-128,128) become the nearest multiple of 1/64 (ties upward):
   k <= f*64 + 1/2 < k+1 and the result's value is k/64; ival32 is value * 2^149 *)
Theorem quantize_nearest : forall f, wf_f32 f -> fle F32 cm128 f = true -> flt F32 f c128 = true ->
  let k := quant_k f in
  let q := quantize false f in
  -8192 <= k <= 8192 /\
  k * 2 ^ 149 <= ival32 f * 64 + 2 ^ 148 < (k + 1) * 2 ^ 149 /\
  wf_f32 q /\ is_finite F32 q = true /\ ival32 q * 64 = k * 2 ^ 149.
Proof. exact NumProofs.quantize_nearest. Qed.
Print Assumptions quantize_nearest.

Theorem quantize_identity : forall hires f,
  hires = true \/ fle F32 cm128 f = false \/ flt F32 f c128 = false -> quantize hires f = f.
Proof. exact NumProofs.quantize_identity. Qed.
Print Assumptions quantize_identity.

Theorem nreg_shortest : forall f,
  let op := fst (nreg_choice f) in
  let b := snd (nreg_choice f) in
  let n1 := length (enc_real f) in
  let n2 := length (enc_coordinate f) in
  let n3 := length (enc_zero_to_one f) in
  length b = Nat.min n1 (Nat.min n2 n3) /\
  (op = 168 /\ b = enc_real f /\ (n1 <= n2)%nat /\ (n1 <= n3)%nat \/
   op = 176 /\ b = enc_coordinate f /\ (n2 < n1)%nat /\ (n2 <= n3)%nat \/
   op = 184 /\ b = enc_zero_to_one f /\ (n3 < n1)%nat /\ (n3 < n2)%nat).
Proof. exact NumProofs.nreg_shortest. Qed.
Print Assumptions nreg_shortest.

Theorem zto_form_partial : forall f,
  match zto_short f with
  | Some u => 0 <= u < 15120 /\
              (u mod 126 = 0 -> enc_zero_to_one f = [2 * (u / 126)]) /\
              (u mod 126 <> 0 -> enc_zero_to_one f = le16 (4 * u + 1))
  | None => enc_zero_to_one f = enc_real4 f
  end.
Proof. exact NumProofs.zto_form. Qed.
Print Assumptions zto_form_partial.

Theorem zto_decode_partial : forall u rest, 0 <= u < 15120 ->
  (u mod 126 = 0 -> dec_zero_to_one ([2 * (u / 126)] ++ rest) =
                    Some (fdiv F32 (of_Z F32 (u / 126)) c120, 1%nat)) /\
  dec_zero_to_one (le16 (4 * u + 1) ++ rest) = Some (fdiv F32 (of_Z F32 u) c15120, 2%nat).
Proof. exact NumProofs.dec_zero_to_one_forms. Qed.
Print Assumptions zto_decode_partial.

Theorem zto_bounded : forall f u s m e, wf_f32 f -> decode F32 f = FFin s m e -> zto_short f = Some u -> 1 <= u ->
  Z.abs (ival32 (q_zto f) - ival32 f) <= 4 * 2 ^ (Z.log2 (ival32 f) - 23).
Proof. exact ZtoBound.zto_bounded. Qed.
Print Assumptions zto_bounded.

Theorem zto_zero : forall f s m e, wf_f32 f -> decode F32 f = FFin s m e -> zto_short f = Some 0 -> m = 0.
Proof. exact ZtoBound.zto_zero. Qed.
Print Assumptions zto_zero.

(* non-vacuity: concrete inputs meeting the hypotheses *)
Example ex_zto : zto_short 1051372203 (* 1/3 *) = Some 5040 /\ decode F32 1051372203 = FFin false 11184811 (-25).
Proof. vm_compute. split; reflexivity. Qed.
Example ex_real_short : real_short 1120403456 (* 100.0 *) = Some 100.
Proof. vm_compute. reflexivity. Qed.
Example ex_coord2 : coord_short1 1069547520 (* 1.5 *) = None /\ coord_short2 1069547520 = Some 96.
Proof. vm_compute. split; reflexivity. Qed.
Example ex_quant : fle F32 cm128 1036831949 (* 0.1 *) = true /\ flt F32 1036831949 c128 = true /\ quant_k 1036831949 = 6.
Proof. vm_compute. repeat split; reflexivity. Qed.
Example ex_dec : dec_real [3; 0; 128; 63] = Some (1065353216, 4%nat) (* 1.0 *).
Proof. vm_compute. reflexivity. Qed.

(* ---- tie to the source: the Go functions of encode/buffer.go and decode/buffer.go, translated from
   /repo's working tree by harness/gosrc.go on every run (gen/GoSrc.v), compute the model's functions,
   for every input.  (code_encodeCoordinate rests on proofs/Mul64.v: the float32 product f*64 is exact or overflows, from
   the soft-float's rounding specification.  Encoder.quantize is translated too; its equivalence with the model is not
   proved and stays tied by the correspondence run.) ---- *)
From IVG Require Import GoSem GoSrc GenEqNum.

Theorem code_encodeNatural : forall b u, 0 <= u < 4294967296 ->
  go_encode_buffer_encodeNatural b u = b ++ enc_natural u.
Proof. exact GenEqNum.go_encodeNatural_eq. Qed.
Print Assumptions code_encodeNatural.

Theorem code_decodeNatural : forall b, wf_bytes b ->
  go_decode_buffer_decodeNatural b = nat_result (dec_natural b).
Proof. exact GenEqNum.go_decodeNatural_eq. Qed.
Print Assumptions code_decodeNatural.

Theorem code_encode4ByteReal : forall b f, wf_f32 f ->
  go_encode_buffer_encode4ByteReal b f = b ++ enc_real4 f.
Proof. exact GenEqNum.go_encode4ByteReal_eq. Qed.
Print Assumptions code_encode4ByteReal.

Theorem code_encodeReal : forall b f, wf_f32 f ->
  go_encode_buffer_encodeReal b f = (b ++ enc_real f, Z.of_nat (length (enc_real f))).
Proof. exact GenEqNum.go_encodeReal_eq. Qed.
Print Assumptions code_encodeReal.

Theorem code_encodeCoordinate : forall b f, wf_f32 f ->
  go_encode_buffer_encodeCoordinate b f = (b ++ enc_coordinate f, Z.of_nat (length (enc_coordinate f))).
Proof. exact GenEqNum.go_encodeCoordinate_eq. Qed.
Print Assumptions code_encodeCoordinate.

Theorem code_encodeZeroToOne : forall b f, wf_f32 f ->
  go_encode_buffer_encodeZeroToOne b f = (b ++ enc_zero_to_one f, Z.of_nat (length (enc_zero_to_one f))).
Proof. exact GenEqNum.go_encodeZeroToOne_eq. Qed.
Print Assumptions code_encodeZeroToOne.

Theorem code_encodeAngle : forall b f, wf_f32 f ->
  go_encode_buffer_encodeAngle b f = (b ++ enc_angle f, Z.of_nat (length (enc_angle f))).
Proof. exact GenEqNum.go_encodeAngle_eq. Qed.
Print Assumptions code_encodeAngle.

Theorem code_decodeReal : forall b, wf_bytes b -> go_decode_buffer_decodeReal b = num_result (dec_real b).
Proof. exact GenEqNum.go_decodeReal_eq. Qed.
Print Assumptions code_decodeReal.

Theorem code_decodeCoordinate : forall b, wf_bytes b ->
  go_decode_buffer_decodeCoordinate b = num_result (dec_coordinate b).
Proof. exact GenEqNum.go_decodeCoordinate_eq. Qed.
Print Assumptions code_decodeCoordinate.

Theorem code_decodeZeroToOne : forall b, wf_bytes b ->
  go_decode_buffer_decodeZeroToOne b = num_result (dec_zero_to_one b).
Proof. exact GenEqNum.go_decodeZeroToOne_eq. Qed.
Print Assumptions code_decodeZeroToOne.

Theorem code_quantize_untouched : forall hires f,
  (negb hires && fle F32 cm128 f && flt F32 f c128) = false ->
  go_encode_Encoder_quantize hires f = f /\ quantize hires f = f.
Proof. exact GenEqNum.go_quantize_untouched. Qed.
Print Assumptions code_quantize_untouched.

(* two facts about the soft-float that the float64 computations on float32 inputs (arcs, gradient set-up, quantize, angle
   normalisation) rest on, from its rounding specification: widening is exact, and multiplying by 64 is exact or overflows *)
From IVG Require Import Mul64 CvtExact.

Theorem widening_exact : forall x s m e, wf_f32 x -> decode F32 x = FFin s m e ->
  exists M E, decode F64 (f32_to_f64 x) = FFin s M E /\ -1074 <= E /\ M * 2 ^ (E + 1074) = m * 2 ^ (e + 1074).
Proof. exact CvtExact.f32_to_f64_exact. Qed.
Print Assumptions widening_exact.

Theorem times_64_exact : forall f s m e, wf_f32 f -> decode F32 f = FFin s m e ->
  let g := fmul F32 f c64 in
  (g = inf_bits F32 s /\ 121 <= Z.log2 m + e) \/
  (wf_f32 g /\ is_finite F32 g = true /\ ival32 g = 64 * ival32 f).
Proof. exact Mul64.fmul64_finite. Qed.
Print Assumptions times_64_exact.

(* the quantised value: the source's float64 computation floor(float64(c)*64 + 0.5), narrowed and divided by 64, is the
   model's floor(c*64 + 1/2)/64 stated on exact integers -- for every low-resolution coordinate in [-128,128)
   (proofs/QuantBase.v, QuantEq.v: for magnitudes of at least 2^-35 widening, times 64 and adding one half are exact, from
   the soft-float's rounding specification; proofs/QuantTiny.v: for smaller non-zero coordinates the float64 sum is not
   exact but lies strictly between 0 and 1, so its floor is +0, the model's value; the two zeros by computation). *)
Theorem code_quantize_all : forall f, wf_f32 f -> fle F32 cm128 f = true -> flt F32 f c128 = true ->
  go_encode_Encoder_quantize false f = quantize false f.
Proof. exact GenEqNum.go_quantize_all. Qed.
Print Assumptions code_quantize_all.

(* with code_quantize_untouched: the source's quantize and the model's agree on every 32-bit pattern, in both resolutions *)
Theorem code_quantize_total : forall hires f, wf_f32 f -> go_encode_Encoder_quantize hires f = quantize hires f.
Proof.
  intros hires f W.
  destruct (negb hires && fle F32 cm128 f && flt F32 f c128) eqn:G.
  - destruct hires; [discriminate|]. cbn [negb andb] in G. apply andb_prop in G. destruct G as [L1 L2].
    exact (GenEqNum.go_quantize_all f W L1 L2).
  - destruct (GenEqNum.go_quantize_untouched hires f G) as [A B]. rewrite A, B. reflexivity.
Qed.
Print Assumptions code_quantize_total.

Theorem code_quantize_tiny : forall f, wf_f32 f -> fle F32 cm128 f = true -> flt F32 f c128 = true ->
  0 < Z.abs (ival32 f) < 2 ^ 114 ->
  go_encode_Encoder_quantize false f = quantize false f.
Proof. exact GenEqNum.go_quantize_tiny. Qed.
Print Assumptions code_quantize_tiny.

Theorem code_quantize : forall f, wf_f32 f -> fle F32 cm128 f = true -> flt F32 f c128 = true ->
  2 ^ 114 <= Z.abs (ival32 f) ->
  go_encode_Encoder_quantize false f = quantize false f.
Proof. exact GenEqNum.go_quantize_eq. Qed.
Print Assumptions code_quantize.

Example ex_code_quantize_zeros :
  go_encode_Encoder_quantize false 0 = quantize false 0 /\
  go_encode_Encoder_quantize false 2147483648 = quantize false 2147483648 /\
  go_encode_Encoder_quantize false 1036831949 (* 0.1 *) = quantize false 1036831949.
Proof. vm_compute. repeat split; reflexivity. Qed.

(* a non-zero coordinate below 2^-35 (2^-40 = 0x2b800000) meets the hypotheses of code_quantize_tiny *)
Example ex_code_quantize_tiny :
  wf_f32 729808896 /\ fle F32 cm128 729808896 = true /\ flt F32 729808896 c128 = true /\
  0 < Z.abs (ival32 729808896) < 2 ^ 114 /\ quantize false 729808896 = 0.
Proof. unfold wf_f32. vm_compute. repeat split; try reflexivity; discriminate. Qed.

Example ex_code_natural : go_encode_buffer_encodeNatural [] 300 = [177; 4] /\ go_decode_buffer_decodeNatural [177; 4] = (300, 2).
Proof. vm_compute. split; reflexivity. Qed.

(* C09 — Colours are stored exactly; colour forms and blending follow the tables.
   Statements only; proofs in proofs/ColorProofs.v.
   palette_roundtrip (proof in proofs/MetaRT.v): every suggested palette of 64 valid premultiplied colours,
   written in whichever of the four forms Encoder.palette_chunk picks, is read back by Decoder.read_palette
   as the same 64 entries. *)
From Coq Require Import ZArith Bool List.
From IVG Require Import SF NumCodec Color Calls Decoder Encoder NumBase ColorProofs Tables RoundTrip MetaRT.
Import ListNotations.
Local Open Scope Z_scope.

(* the table in color.go (regenerated from /repo on every run) is the model's table *)
Theorem dc1_table_is_current : dc1 = Tables.dc1Table.
Proof. exact ColorProofs.dc1_is_code_table. Qed.
Print Assumptions dc1_table_is_current.

(* all 256 one-byte colours decode as the specification's table says *)
Theorem color1_table : forall x, 0 <= x < 256 -> decode_color1 x = spec_color1 x.
Proof. exact ColorProofs.color1_table. Qed.
Print Assumptions color1_table.

Theorem color2_table : forall x y rest,
  dec_color2 (x :: y :: rest) = Some (CRGBA (mkRGBA (17 * (x / 16)) (17 * (x mod 16)) (17 * (y / 16)) (17 * (y mod 16))), 2%nat).
Proof. exact ColorProofs.color2_table. Qed.
Print Assumptions color2_table.

Theorem color3direct_table : forall x y z rest, dec_color3direct (x :: y :: z :: rest) = Some (CRGBA (mkRGBA x y z 255), 3%nat).
Proof. exact ColorProofs.color3direct_table. Qed.
Print Assumptions color3direct_table.

Theorem color4_table : forall x y z w rest, dec_color4 (x :: y :: z :: w :: rest) = Some (CRGBA (mkRGBA x y z w), 4%nat).
Proof. exact ColorProofs.color4_table. Qed.
Print Assumptions color4_table.

Theorem color3indirect_table : forall x y z rest, dec_color3indirect (x :: y :: z :: rest) = Some (CBlend x y z, 3%nat).
Proof. exact ColorProofs.color3indirect_table. Qed.
Print Assumptions color3indirect_table.

Theorem color_truncated : forall k b, 0 <= k <= 4 ->
  (dec_color_form k b = None <-> (length b < color_width k)%nat).
Proof. exact ColorProofs.color_truncated. Qed.
Print Assumptions color_truncated.

(* every colour (all 2^32 RGBA values incl. gradient-encoding ones, palette indices, registers, blends)
   is written by SetCReg in a form that decodes to exactly the same colour *)
Theorem enc_dec_color : forall c rest, wf_color c ->
  let '(base, bytes) := enc_color c in
  (base = 128 \/ base = 136 \/ base = 144 \/ base = 152 \/ base = 160) /\
  Forall wf_chan bytes /\
  dec_color_form ((base - 128) / 8) (bytes ++ rest) = Some (c, length bytes).
Proof. exact ColorProofs.enc_dec_color. Qed.
Print Assumptions enc_dec_color.

Theorem encode1_decode1 : forall c x, wf_color c -> encode1 c = Some x -> 0 <= x < 256 /\ decode_color1 x = c.
Proof. exact ColorProofs.encode1_decode1. Qed.
Print Assumptions encode1_decode1.

Theorem blend_formula : forall pal creg t c0 c1,
  let a := resolve_simple pal creg (decode_color1 c0) in
  let b := resolve_simple pal creg (decode_color1 c1) in
  resolve pal creg (CBlend t c0 c1) =
  mkRGBA (blend_chan t (cr a) (cr b)) (blend_chan t (cg a) (cg b)) (blend_chan t (cb a) (cb b)) (blend_chan t (ca a) (ca b)).
Proof. exact ColorProofs.blend_formula. Qed.
Print Assumptions blend_formula.

Theorem blend_chan_formula : forall t x0 x1, wf_chan t -> wf_chan x0 -> wf_chan x1 ->
  blend_chan t x0 x1 = ((255 - t) * x0 + t * x1 + 128) / 255 /\ wf_chan (blend_chan t x0 x1).
Proof. exact ColorProofs.blend_chan_range. Qed.
Print Assumptions blend_chan_formula.

Theorem blend_endpoints : forall pal creg c0 c1, wf_regs pal -> wf_regs creg -> wf_chan c0 -> wf_chan c1 ->
  resolve pal creg (CBlend 0 c0 c1) = resolve_simple pal creg (decode_color1 c0) /\
  resolve pal creg (CBlend 255 c0 c1) = resolve_simple pal creg (decode_color1 c1).
Proof. exact ColorProofs.blend_endpoints. Qed.
Print Assumptions blend_endpoints.

Theorem blend_premul : forall pal creg t c0 c1, wf_regs pal -> wf_regs creg -> wf_chan t -> wf_chan c0 -> wf_chan c1 ->
  valid_premul (resolve_simple pal creg (decode_color1 c0)) = true ->
  valid_premul (resolve_simple pal creg (decode_color1 c1)) = true ->
  valid_premul (resolve pal creg (CBlend t c0 c1)) = true /\ wf_rgba (resolve pal creg (CBlend t c0 c1)).
Proof. exact ColorProofs.blend_premul. Qed.
Print Assumptions blend_premul.

Theorem gradient_roundtrip : forall cbase nbase sh sp ns,
  0 <= cbase < 64 -> 0 <= nbase < 64 -> 0 <= sh < 2 -> 0 <= sp < 4 -> 0 <= ns < 64 ->
  let c := encode_gradient cbase nbase sh sp ns in
  decode_gradient c = mkGP cbase nbase sh sp ns /\ valid_gradient c = true /\ valid_premul c = false /\ wf_rgba c.
Proof. exact ColorProofs.gradient_roundtrip. Qed.
Print Assumptions gradient_roundtrip.

Example ex_blend : resolve (repeat opaque_black 64) (repeat opaque_black 64) (CBlend 64 127 124) = mkRGBA 64 64 64 64.
Proof. vm_compute. auto. Qed.
Example ex_enc : enc_color (CRGBA (mkRGBA 64 64 64 64)) = (152, [64; 64; 64; 64]) /\ enc_color (CRGBA (mkRGBA 68 68 68 68)) = (136, [68; 68]).
Proof. vm_compute. auto. Qed.

Theorem palette_roundtrip : forall pal rest, wf_pal pal -> (1 <= explicit_count pal)%nat ->
  exists h body, palette_chunk pal = h :: body /\ 0 <= h < 256 /\
    exists its, read_palette (Z.to_nat (1 + h mod 64)) 0 (h / 64) default_palette (body ++ rest) = (its, Some (pal, rest))
                /\ calls_of its = [].
Proof. exact MetaRT.palette_chunk_decode. Qed.
Print Assumptions palette_roundtrip.

(* a palette with a translucent entry (the repaired defect's input) meets the hypotheses *)
Example ex_palette : let pal := mkRGBA 64 64 64 64 :: repeat opaque_black 63 in
  length pal = 64%nat /\ explicit_count pal = 1%nat /\ forallb valid_premul pal = true.
Proof. vm_compute. repeat split; reflexivity. Qed.

(* ---- tie to the source: color.go and the colour operand codecs of encode/buffer.go, decode/buffer.go,
   translated from /repo's working tree by harness/gosrc.go on every run (gen/GoSrc.v), compute the model's
   functions for every input.  abs_color reads the Go struct {typ, data} as the model's colour. ---- *)
From IVG Require Import GoSem GoSrc GenEqColor.

Theorem code_DecodeColor1 : forall x, 0 <= x < 256 -> abs_color (go_ivg_DecodeColor1 x) = decode_color1 x.
Proof. exact GenEqColor.go_DecodeColor1_eq. Qed.
Print Assumptions code_DecodeColor1.

Theorem code_Encode1 : forall c, wf_gcolor c -> go_ivg_Color_Encode1 c = enc1_result (encode1 (abs_color c)).
Proof. exact GenEqColor.go_Encode1_eq. Qed.
Print Assumptions code_Encode1.

Theorem code_Encode2 : forall c, wf_gcolor c -> go_ivg_Color_Encode2 c = encl_result [0; 0] (encode2 (abs_color c)).
Proof. exact GenEqColor.go_Encode2_eq. Qed.
Print Assumptions code_Encode2.

Theorem code_Encode3Direct : forall c, wf_gcolor c ->
  go_ivg_Color_Encode3Direct c = encl_result [0; 0; 0] (encode3direct (abs_color c)).
Proof. exact GenEqColor.go_Encode3Direct_eq. Qed.
Print Assumptions code_Encode3Direct.

Theorem code_Encode4 : forall c, wf_gcolor c ->
  go_ivg_Color_Encode4 c = encl_result [0; 0; 0; 0] (encode4 (abs_color c)).
Proof. exact GenEqColor.go_Encode4_eq. Qed.
Print Assumptions code_Encode4.

Theorem code_Encode3Indirect : forall c, wf_gcolor c ->
  go_ivg_Color_Encode3Indirect c = encl_result [0; 0; 0] (encode3indirect (abs_color c)).
Proof. exact GenEqColor.go_Encode3Indirect_eq. Qed.
Print Assumptions code_Encode3Indirect.

Theorem code_Color_RGBA : forall c, wf_gcolor c -> go_ivg_Color_RGBA c = color_rgba (abs_color c).
Proof. exact GenEqColor.go_Color_RGBA_eq. Qed.
Print Assumptions code_Color_RGBA.

Theorem code_Color_Is1 : forall c, wf_gcolor c -> go_ivg_Color_Is1 c = color_is1 (abs_color c).
Proof. exact GenEqColor.go_Color_Is1_eq. Qed.
Print Assumptions code_Color_Is1.

Theorem code_Resolve : forall fuel c pal creg, wf_gcolor c -> wf_regs pal -> wf_regs creg ->
  go_ivg_Color_Resolve (S (S fuel)) c pal creg = resolve pal creg (abs_color c).
Proof. exact GenEqColor.go_Resolve_eq. Qed.
Print Assumptions code_Resolve.

Theorem code_EncodeGradient : forall cBase nBase shape spread nStops,
  go_ivg_EncodeGradient cBase nBase shape spread nStops = encode_gradient cBase nBase shape spread nStops.
Proof. exact GenEqColor.go_EncodeGradient_eq. Qed.
Print Assumptions code_EncodeGradient.

Theorem code_DecodeGradient : forall c, go_ivg_DecodeGradient c =
  let g := decode_gradient c in (gp_cbase g, gp_nbase g, gp_shape g, gp_spread g, gp_nstops g).
Proof. exact GenEqColor.go_DecodeGradient_eq. Qed.
Print Assumptions code_DecodeGradient.

Theorem code_decodeColor1 : forall b, wf_bytes b -> col_result (go_decode_buffer_decodeColor1 b) = dec_color1 b.
Proof. exact GenEqColor.go_decodeColor1_eq. Qed.
Print Assumptions code_decodeColor1.

Theorem code_decodeColor2 : forall b, wf_bytes b -> col_result (go_decode_buffer_decodeColor2 b) = dec_color2 b.
Proof. exact GenEqColor.go_decodeColor2_eq. Qed.
Print Assumptions code_decodeColor2.

Theorem code_decodeColor3Direct : forall b, col_result (go_decode_buffer_decodeColor3Direct b) = dec_color3direct b.
Proof. exact GenEqColor.go_decodeColor3Direct_eq. Qed.
Print Assumptions code_decodeColor3Direct.

Theorem code_decodeColor4 : forall b, col_result (go_decode_buffer_decodeColor4 b) = dec_color4 b.
Proof. exact GenEqColor.go_decodeColor4_eq. Qed.
Print Assumptions code_decodeColor4.

Theorem code_decodeColor3Indirect : forall b, col_result (go_decode_buffer_decodeColor3Indirect b) = dec_color3indirect b.
Proof. exact GenEqColor.go_decodeColor3Indirect_eq. Qed.
Print Assumptions code_decodeColor3Indirect.

Theorem code_encodeColor1 : forall b c, wf_gcolor c ->
  go_encode_buffer_encodeColor1 b c = b ++ [match encode1 (abs_color c) with Some x => x | None => 0 end].
Proof. exact GenEqColor.go_encodeColor1_eq. Qed.
Print Assumptions code_encodeColor1.

Theorem code_encodeColor2 : forall b c, wf_gcolor c ->
  go_encode_buffer_encodeColor2 b c = b ++ match encode2 (abs_color c) with Some l => l | None => [0; 15] end.
Proof. exact GenEqColor.go_encodeColor2_eq. Qed.
Print Assumptions code_encodeColor2.

Theorem code_encodeColor3Direct : forall b c, wf_gcolor c ->
  go_encode_buffer_encodeColor3Direct b c = b ++ match encode3direct (abs_color c) with Some l => l | None => [0; 0; 0] end.
Proof. exact GenEqColor.go_encodeColor3Direct_eq. Qed.
Print Assumptions code_encodeColor3Direct.

Theorem code_encodeColor4 : forall b c, wf_gcolor c ->
  go_encode_buffer_encodeColor4 b c = b ++ match encode4 (abs_color c) with Some l => l | None => [0; 0; 0; 255] end.
Proof. exact GenEqColor.go_encodeColor4_eq. Qed.
Print Assumptions code_encodeColor4.

Theorem code_encodeColor3Indirect : forall b c, wf_gcolor c ->
  go_encode_buffer_encodeColor3Indirect b c = b ++ match encode3indirect (abs_color c) with Some l => l | None => [0; 0; 0] end.
Proof. exact GenEqColor.go_encodeColor3Indirect_eq. Qed.
Print Assumptions code_encodeColor3Indirect.

Theorem code_ValidGradient : forall c, wf_rgba c -> go_ivg_ValidGradient c = valid_gradient c.
Proof. exact GenEqColor.go_ValidGradient_eq. Qed.
Print Assumptions code_ValidGradient.

Example ex_code_color : wf_gcolor (mkGColor 3 (mkRGBA 64 255 128 0)) /\
  go_ivg_Color_Resolve 2 (mkGColor 3 (mkRGBA 64 200 60 0)) (repeat (mkRGBA 0 0 0 255) 64) (repeat (mkRGBA 10 20 30 40) 64)
  = mkRGBA 40 47 22 94.
Proof. split; [vm_compute; intuition congruence|vm_compute; reflexivity]. Qed.

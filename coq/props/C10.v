(* C10 — The Encoder accepts exactly protocol-respecting histories; errors are sticky.
   Statements only; proofs in proofs/EncProofs.v.  The automaton is spec/EncAutomaton.v.
   The clause "every violation-free history with all paths ended decodes to that history"
   is the round-trip theorem of C01 (props/C01.v). *)
From Coq Require Import ZArith Bool List.
From IVG Require Import SF NumCodec Color Calls Decoder Encoder EncAutomaton EncProofs RoundTrip MetaRT VbMono.
Import ListNotations.
Local Open Scope Z_scope.

(* every call of the Encoder API refines one step of the 4-state automaton *)
Theorem enc_act_refines : forall e a, wf_act a ->
  abs (fst (enc_act e a)) = aut_step (abs e) (classify a).
Proof. exact EncProofs.enc_act_refines. Qed.
Print Assumptions enc_act_refines.

(* for every finite history (no depth bound), from the zero value *)
Theorem enc_err_iff_automaton : forall h, Forall wf_act h ->
  abs (fst (enc_run enc_zero h)) = aut_run (map classify h).
Proof. exact EncProofs.enc_err_iff_automaton. Qed.
Print Assumptions enc_err_iff_automaton.

Theorem bytes_err_iff_failed : forall e,
  (exists x, snd (enc_bytes e) = BytesErr x) <-> abs e = AFailed.
Proof. exact EncProofs.bytes_err_iff_failed. Qed.
Print Assumptions bytes_err_iff_failed.

(* the first violation is kept until Reset, whatever is called afterwards *)
Theorem err_sticky : forall e a, Inv e -> has_err e = true -> is_reset a = false ->
  e_err (fst (enc_act e a)) = e_err e.
Proof. exact EncProofs.err_sticky. Qed.
Print Assumptions err_sticky.

Theorem reachable_inv : forall h e, Inv e -> Inv (fst (enc_run e h)).
Proof. exact EncProofs.reachable_inv. Qed.
Print Assumptions reachable_inv.

(* a zero-value Encoder is observationally one reset with the default metadata:
   every read-back (CSel, NSel, LOD) and every Bytes result of every history agree *)
Theorem zero_value : forall h,
  snd (enc_run enc_zero h) = snd (enc_run (enc_reset default_viewbox default_palette) h).
Proof. exact EncProofs.zero_value. Qed.
Print Assumptions zero_value.

Theorem bytes_idempotent : forall e,
  snd (enc_bytes (fst (enc_bytes e))) = snd (enc_bytes e) /\
  fst (enc_bytes (fst (enc_bytes e))) = fst (enc_bytes e).
Proof. exact EncProofs.bytes_idempotent. Qed.
Print Assumptions bytes_idempotent.

(* every violation-free history (wf_acts: the protocol, adjustments <= 6, incrementing forms with adjustment 0)
   after a Reset with a finite valid viewBox yields a stream the decoder accepts and that decodes to that
   history, each number in its written-and-read-back form (the C01 round trip) *)
Theorem accepted_history_decodes : forall e0 vb pal body,
  wf_vb vb -> viewbox_invalid vb = false -> wf_pal pal -> wf_acts false body ->
  exists b, snd (enc_bytes (fst (enc_run e0 (ACall (CReset vb pal) :: body)))) = BytesOk b /\
            decode_calls [] b = (CReset (m_vb (meta_of vb pal)) pal :: expect false false body, Done).
Proof. exact VbMono.encode_decode_valid. Qed.
Print Assumptions accepted_history_decodes.

(* non-vacuity *)
Example ex_inv : Inv enc_zero. Proof. exact Inv_zero. Qed.
Example ex_history :
  let h := [ACall (CStartPath 0 0 0); ACall (CDraw opL [0; 0]); ACall (CSetCSel 1); ABytes; ACall (CReset default_viewbox default_palette); ABytes] in
  Forall wf_act h /\ map (fun a => abs (fst (enc_run enc_zero (firstn a h)))) [1; 2; 3; 4; 5; 6]%nat
  = [ADrawing; ADrawing; AFailed; AFailed; AStyling; AStyling].
Proof. split; [repeat constructor; try exact I; discriminate|vm_compute; reflexivity]. Qed.

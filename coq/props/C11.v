(* C11 — The disassembly is a faithful, byte-complete listing of what decodes.
   Statements only; proofs in proofs/DecProofs.v and proofs/ListingProofs.v.  In the model, as in the
   code, one routine (decode_items) produces both the printed lines and the delivered calls; the reading
   of a listing back into operations (spec/Listing.v) is written independently of it.
   The rendering of a payload to text (fmt verbs, Color.String) is trusted / mirrored by the harness. *)
From Coq Require Import ZArith Bool List.
From IVG Require Import SF NumCodec Color Calls Decoder DecProofs Listing ListingProofs.
Import ListNotations.
Local Open Scope Z_scope.

(* succeeds exactly when Decode accepts, and fails with the same error otherwise *)
Theorem disasm_accepts_iff : forall b, snd (disassemble b) = snd (decode_calls [] b).
Proof. exact ListingProofs.disasm_accepts_iff. Qed.
Print Assumptions disasm_accepts_iff.

(* the hex column, concatenated in line order, reproduces the input exactly *)
Theorem disasm_bytes : forall b lines, disassemble b = (Some lines, Done) -> concat (map fst lines) = b.
Proof. exact ListingProofs.disasm_bytes. Qed.
Print Assumptions disasm_bytes.

(* reading the instruction lines back (spec/Listing.v) yields exactly the operations delivered: one
   instruction line per call (explicit or implicit) with the operand values the decoder delivers *)
Theorem disasm_calls : forall os b its, decode_items os b = (its, Done) ->
  exists mits vb pal iits,
    its = mits ++ ICall (CReset vb pal) :: iits /\ calls_of mits = [] /\
    calls_of its = CReset vb pal :: calls_of iits /\
    read_listing (payloads iits) = (PIdle, calls_of iits).
Proof. exact ListingProofs.disasm_calls. Qed.
Print Assumptions disasm_calls.

Theorem listing_matches_calls : forall fuel drawing b its out,
  dec_ops fuel drawing b = (its, Done) ->
  fold_left lstep (payloads its) (PIdle, out) = (PIdle, out ++ calls_of its).
Proof. exact ListingProofs.listing_matches_calls. Qed.
Print Assumptions listing_matches_calls.

Example ex_listing :
  let b := [137; 73; 86; 71; 0; 192; 128; 128; 1; 130; 132; 134; 136; 225] in
  snd (decode_items [] b) = Done /\
  read_listing (payloads (skipn 3 (fst (decode_items [] b)))) =
    (PIdle, [CStartPath 0 0 0; CDraw opL [of_Z F32 1; of_Z F32 2]; CDraw opL [of_Z F32 3; of_Z F32 4]; CEndPath]).
Proof. vm_compute. split; reflexivity. Qed.

(* C12 — Aspect-preserving viewBox placement fits or fills and honours alignment.
   The formulas of ivg.go are the single polymorphic definition Fit.aspect; its float32 instance
   (Fit.F32ops) is compared bit-for-bit with the implementation, and these theorems are about its
   instance over the reals (FitR.Rops).  The float32 rounding error is not bounded by a theorem. *)
From Coq Require Import Reals Lra.
From IVG Require Import Fit FitR.
Local Open Scope R_scope.

Theorem meet_spec : forall minx miny maxx maxy dx dy ax ay,
  minx < maxx -> miny < maxy -> 0 < dx -> 0 < dy -> 0 <= ax <= 1 -> 0 <= ay <= 1 ->
  let vw := maxx - minx in let vh := maxy - miny in
  let '(mnx, mny, mxx, mxy) := aspect_meet Rops minx miny maxx maxy dx dy ax ay in
  let w := mxx - mnx in let h := mxy - mny in
  w * vh = h * vw /\
  0 <= mnx /\ mxx <= dx /\ 0 <= mny /\ mxy <= dy /\
  (w = dx \/ h = dy) /\
  mnx = (dx - w) * ax /\ mny = (dy - h) * ay.
Proof. exact FitR.meet_spec. Qed.
Print Assumptions meet_spec.

Theorem slice_spec : forall minx miny maxx maxy dx dy ax ay,
  minx < maxx -> miny < maxy -> 0 < dx -> 0 < dy -> 0 <= ax <= 1 -> 0 <= ay <= 1 ->
  let vw := maxx - minx in let vh := maxy - miny in
  let '(mnx, mny, mxx, mxy) := aspect_slice Rops minx miny maxx maxy dx dy ax ay in
  let w := mxx - mnx in let h := mxy - mny in
  w * vh = h * vw /\
  mnx <= 0 /\ dx <= mxx /\ mny <= 0 /\ dy <= mxy /\
  (w = dx \/ h = dy) /\
  mnx = (dx - w) * ax /\ mny = (dy - h) * ay.
Proof. exact FitR.slice_spec. Qed.
Print Assumptions slice_spec.

Theorem size_spec : forall minx miny maxx maxy, vb_size Rops minx miny maxx maxy = (maxx - minx, maxy - miny).
Proof. exact FitR.size_spec. Qed.
Print Assumptions size_spec.

(* non-vacuity: the hypotheses are satisfiable (a 10x20 viewBox, a 100x50 target, centred) *)
Example ex_hyps : (0 < 10 /\ 0 < 20 /\ 0 < 100 /\ 0 < 50 /\ 0 <= 1/2 <= 1)%R.
Proof. repeat split; lra. Qed.
